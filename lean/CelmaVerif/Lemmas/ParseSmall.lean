import CelmaVerif.Lemmas.Spelling
import CelmaVerif.Lemmas.Keys
import CelmaVerif.Lemmas.KeysParse
import CelmaVerif.Lemmas.RulesSound
import CelmaVerif.Lemmas.RulesLevel
import CelmaVerif.Lemmas.RulesExample
/-
  Small helper lemmas for Props/C01.lean, C02.lean, C03.lean:

  * the second loop of `findArg` with the *index* it returns when exactly one position of the table
    holds a long key that starts with the looked-up word (`findArg_unique_prefix`), and its reading
    over a configuration (`resolves_abbrev`): the declarative discharge of `Resolves` for
    abbreviations;
  * `parse_typed_name`: the word typed behind `--` is looked up as the long key `⟨none, name⟩`;
  * the declarative reading of the checks `minLength`, `maxLength`, `values` (`check_*_ok`);
  * the data of the joint non-vacuity examples of C01 / C03 (namespace `RulesExample`): one command
    line for `RulesExample.cfg` with a constraint-bearing argument, an abbreviation and a list, and
    one for `RulesExample.cfgLevel`, each with every hypothesis of `C01_values_reach_destinations_partial`
    / `C03_complete_partial` proved.
-/
namespace CelmaVerif.ProgArgs
open CelmaVerif CelmaVerif.Keys

/-! ### abbreviations: the second loop of `findArg`, with the index -/

/-- no entry starts with the key: the second loop returns what it was given -/
theorem findAbbr_no_match {α : Type} (k : Key) (t : List (Key × α)) (i : Nat) (part : Option (Nat × α))
    (h : ∀ e ∈ t, e.1.startsWith k = false) : findAbbr k t i part = .ok part := by
  induction t generalizing i with
  | nil => rfl
  | cons x t ih =>
    obtain ⟨ek, a⟩ := x
    unfold findAbbr
    have hx : ek.startsWith k = false := h (ek, a) List.mem_cons_self
    rw [if_neg (by rw [hx]; exact Bool.false_ne_true)]
    exact ih (i + 1) (fun e he => h e (List.mem_cons_of_mem _ he))

/-- exactly one position `n` of the table holds an entry that starts with the key: the second loop
    returns that position (counted from `i0`) and that payload -/
theorem findAbbr_unique {α : Type} (k : Key) (t : List (Key × α)) (n i0 : Nat) (key : Key) (a : α)
    (hn : t[n]? = some (key, a)) (hs : key.startsWith k = true)
    (hu : ∀ j e, t[j]? = some e → e.1.startsWith k = true → j = n) :
    findAbbr k t i0 none = .ok (some (i0 + n, a)) := by
  induction t generalizing n i0 with
  | nil => simp at hn
  | cons x t ih =>
    obtain ⟨ek, b⟩ := x
    unfold findAbbr
    cases n with
    | zero =>
      simp only [List.getElem?_cons_zero, Option.some.injEq, Prod.mk.injEq] at hn
      obtain ⟨rfl, rfl⟩ := hn
      rw [if_pos hs]
      simp only
      rw [findAbbr_no_match]
      · rfl
      · intro e he
        cases hse : e.1.startsWith k with
        | false => rfl
        | true =>
          obtain ⟨j, hj⟩ := List.getElem?_of_mem he
          have := hu (j + 1) e (by simpa using hj) hse
          omega
    | succ n =>
      have hx : ¬ ek.startsWith k = true := by
        intro hx
        have := hu 0 (ek, b) (by simp) hx
        omega
      rw [if_neg hx]
      rw [ih n (i0 + 1) (by simpa using hn)]
      · congr 3; omega
      · intro j e hj hse
        have := hu (j + 1) e (by simpa using hj) hse
        omega

/-- **Unique abbreviation, with index.**  No entry of the table is the key exactly, the entry at
    position `n` starts with the key, and no entry at another position does: with abbreviations
    allowed the lookup returns position `n` and its payload. -/
theorem findArg_unique_prefix {α : Type} (t : List (Key × α)) (k : Key) (n : Nat) (key : Key) (a : α)
    (hno : ∀ e ∈ t, e.1.eq k = false) (hn : t[n]? = some (key, a)) (hs : key.startsWith k = true)
    (hu : ∀ j e, t[j]? = some e → e.1.startsWith k = true → j = n) :
    findArg true t k = .ok (some (n, a)) := by
  unfold findArg
  rw [(findExact_none_iff k t 0).mpr hno]
  simp only [if_true]
  rw [findAbbr_unique k t n 0 key a hn hs hu]
  simp

/-- `entry == ⟨none, name⟩` for a non-empty word: the long keys are the same word -/
theorem eq_long_word (a : Key) (name : List Char) (hne : name ≠ []) :
    a.eq ⟨none, name⟩ = true ↔ a.long = name := by
  unfold Key.eq
  cases hl : a.long with
  | nil =>
    cases name with
    | nil => exact absurd rfl hne
    | cons c r => simp
  | cons x l =>
    cases name with
    | nil => exact absurd rfl hne
    | cons c r => simp

/-- `entry.startsWith( ⟨none, name⟩)` for a non-empty word: the word is a prefix of the long key -/
theorem startsWith_long_word (a : Key) (name : List Char) (hne : name ≠ []) :
    a.startsWith ⟨none, name⟩ = true ↔ name <+: a.long := by
  rw [startsWith_iff]
  constructor
  · exact fun h => h.2.2
  · intro h
    refine ⟨?_, hne, h⟩
    intro hl
    rw [hl] at h
    exact hne (List.prefix_nil.mp h)

/-- **Abbreviations resolve** (configuration level): abbreviations are allowed, the argument at
    position `i` has a long key that starts with the non-empty word `name`, no argument has the long
    key `name` itself, and no argument at another position has a long key starting with `name`:
    the lookup of the word `name` finds argument `i`. -/
theorem resolves_abbrev (cfg : Cfg) (habbr : cfg.abbr = true) (i : Nat) (d : ArgDef)
    (hi : cfg.args[i]? = some d) (name : List Char) (hne : name ≠ [])
    (hexact : ∀ e ∈ cfg.args, e.key.long ≠ name)
    (hpre : name <+: d.key.long)
    (huniq : ∀ j e, cfg.args[j]? = some e → name <+: e.key.long → j = i) :
    Resolves cfg ⟨none, name⟩ i d := by
  unfold Resolves
  rw [habbr]
  apply findArg_unique_prefix cfg.table ⟨none, name⟩ i d.key d
  · intro e he
    unfold Cfg.table at he
    obtain ⟨a, ha, rfl⟩ := List.mem_map.mp he
    cases h : a.key.eq ⟨none, name⟩ with
    | false => rfl
    | true => exact absurd ((eq_long_word a.key name hne).mp h) (hexact a ha)
  · rw [table_getElem?, hi]; rfl
  · exact (startsWith_long_word d.key name hne).mpr hpre
  · intro j e hj hs
    rw [table_getElem?] at hj
    cases ha : cfg.args[j]? with
    | none => rw [ha] at hj; cases hj
    | some a =>
      rw [ha] at hj
      simp only [Option.map_some, Option.some.injEq] at hj
      subst hj
      exact huniq j a ha ((startsWith_long_word a.key name hne).mp hs)

/-- the word typed behind `--` is looked up as a long key: a word of one or more characters without
    leading dash, blank or comma gives the lookup key `⟨none, word⟩` (`wordKey`: since the `fix:` commit
    for the finding one-char-long-key also a word of one character) -/
theorem parse_typed_name (name : List Char) (hne : name ≠ []) (hd : name.head? ≠ some '-')
    (hs : ' ' ∉ name) (hc : ',' ∉ name) : wordKey name = .ok ⟨none, name⟩ :=
  wordKey_word name ⟨hne, hd, hs, hc⟩

/-! ### the checks `minLength`, `maxLength`, `values` -/

theorem check_minLength_ok (n : Nat) (v : Word) (h : (Check.minLength n).run v = .ok ()) : n ≤ v.length := by
  simp only [Check.run, throwIf_eq_ok] at h
  simpa using h

theorem check_maxLength_ok (n : Nat) (v : Word) (h : (Check.maxLength n).run v = .ok ()) : v.length ≤ n := by
  simp only [Check.run, throwIf_eq_ok] at h
  simpa using h

theorem check_values_ok (vs : List Word) (ic : Bool) (v : Word) (h : (Check.values vs ic).run v = .ok ()) :
    (ic = false → v ∈ vs) ∧
    (ic = true → ∃ w ∈ vs, w.map toLowerAscii = v.map toLowerAscii) := by
  cases ic with
  | false =>
    simp only [Check.run, Bool.false_eq_true, if_false, throwIf_eq_ok] at h
    refine ⟨fun _ => ?_, fun hc => (by cases hc)⟩
    simpa using h
  | true =>
    simp only [Check.run, if_true, throwIf_eq_ok] at h
    refine ⟨fun hc => (by cases hc), fun _ => ?_⟩
    simpa using h

/-- what a check guarantees for one word holds for every value of an accepted abstract command
    line: for the value of a string / int argument, for every element of a list value -/
theorem check_holds_of_accepted {cfg : Cfg} {inits : List DVal} {us : List Use} {h : HState}
    (e : evalUses cfg (cfg.initState inits) us = .ok h) {u : Use} (hu : u ∈ us) {d : ArgDef}
    (hd : cfg.args[u.arg]? = some d) {c : Check} (hc : c ∈ d.checks) (P : Word → Prop)
    (hP : ∀ v, c.run v = .ok () → P v) :
    (d.kind = .str ∨ d.kind = .int → P u.val) ∧
    (d.kind = .vecInt → ∀ t ∈ splitSep d.sep u.val, P t) := by
  obtain ⟨d', hd', hok⟩ := values_sound e u hu
  rw [hd] at hd'; cases hd'
  have hrun : ∀ v, runChecks d.checks v = .ok () → P v := fun v hv => hP v (runChecks_ok hv c hc)
  unfold ScalarValueOk at hok
  constructor
  · rintro (hk | hk) <;> rw [hk] at hok
    · exact hrun _ hok
    · exact hrun _ hok.1
  · intro hk t ht
    rw [hk] at hok
    exact hrun _ (hok t ht).1

/-! ### data of the joint non-vacuity examples (Props/C01.lean, Props/C03.lean) -/

namespace RulesExample

/-- the abstract command line `-q`, `-o file`, `-n 5`, `-l 1,2` of `RulesExample.cfg`: `-q` carries
    an "excludes" constraint, `-o` a "requires" constraint, `-l` is a list -/
def jointUses : List Use := [useQ, useO "file", useN "5", useL "1,2"]

/-- one spelling of it: `-q -o file --nu=5 -l 1,2` (`--nu` abbreviates `--num`) -/
def jointWords : List Word :=
  ["-q".toList, "-o".toList, "file".toList, "--nu=5".toList, "-l".toList, "1,2".toList]

theorem joint_spells : Spells RulesExample.cfg none jointUses jointWords := by
  refine Spells.shortFlag (c := 'q') (d := RulesExample.cfg.args[3]) (by decide) (by rfl) (by rfl) ?_
  refine Spells.shortVal (c := 'o') (v := "file".toList) (d := RulesExample.cfg.args[2]) (by decide) (by rfl)
    (by decide) ⟨by decide, by decide, by decide, by decide⟩ ?_
  refine Spells.longEq (name := "nu".toList) (v := "5".toList) (k := ⟨none, "nu".toList⟩)
    (d := RulesExample.cfg.args[1]) (by decide) (by decide) (by rfl) (by rfl) (by decide) ?_
  exact Spells.shortVal (c := 'l') (v := "1,2".toList) (d := RulesExample.cfg.args[4]) (by decide) (by rfl)
    (by decide) ⟨by decide, by decide, by decide, by decide⟩ (Spells.nil _)

theorem joint_obeys : Obeys RulesExample.cfg RulesExample.inits jointUses := by
  cases e : run jointUses with
  | ok h => exact rules_sound cfg_wf (by decide) e
  | throw x => exact absurd (show (run jointUses).isOk = true by decide) (by rw [e]; simp [Res.isOk])
  | oob x => exact absurd (show (run jointUses).isOk = true by decide) (by rw [e]; simp [Res.isOk])

theorem joint_notDeprecated :
    ∀ u ∈ jointUses, ∀ d, RulesExample.cfg.args[u.arg]? = some d → d.deprecated = false := by
  intro u _ d hd
  exact (show ∀ d ∈ RulesExample.cfg.args, d.deprecated = false by decide) d (List.mem_of_getElem? hd)

/-- `RulesExample.cfg` has no LevelCounter argument: nothing to show -/
theorem joint_levels : ∀ (i : Nat) (d : ArgDef) (v : DVal), RulesExample.cfg.args[i]? = some d → d.kind = .level →
    RulesExample.inits[i]? = some v → LevelValuesOk d (levelOf v) false false (valsOf i jointUses) := by
  intro i d v hd hk
  exact absurd hk ((show ∀ d ∈ RulesExample.cfg.args, d.kind ≠ .level by decide) d (List.mem_of_getElem? hd))

/-- `-v -v` for the LevelCounter configuration `cfgLevel` -/
def levelUses : List Use := [⟨0, [], true⟩, ⟨0, [], true⟩]
def levelWords : List Word := ["-v".toList, "-v".toList]

theorem cfgLevel_wf : cfgLevel.WellFormed := by
  refine ⟨?_, ?_, ?_, ?_, ?_⟩
  · unfold Disjoint; decide
  · intro d hd c hc
    simp only [cfgLevel, List.mem_cons, List.not_mem_nil, or_false] at hd
    subst hd; cases hc
  · decide
  · decide
  · intro g hg; cases hg

theorem level_spells : Spells cfgLevel none levelUses levelWords := by
  refine Spells.shortOpt (c := 'v') (d := cfgLevel.args[0]) (by decide) (by rfl) (by rfl)
    (Or.inr ⟨['v'], [], rfl, by decide, by decide⟩) ?_
  exact Spells.shortOpt (c := 'v') (d := cfgLevel.args[0]) (by decide) (by rfl) (by rfl) (Or.inl rfl) (Spells.nil _)

theorem level_obeys : Obeys cfgLevel [.level 0] levelUses := by
  cases e : evalUses cfgLevel (cfgLevel.initState [.level 0]) levelUses with
  | ok h => exact rules_sound cfgLevel_wf (by decide) e
  | throw x => exact absurd level_twice_accepted.2 (by unfold levelUses at e; rw [e]; simp [Res.isOk])
  | oob x => exact absurd level_twice_accepted.2 (by unfold levelUses at e; rw [e]; simp [Res.isOk])

theorem level_notDeprecated :
    ∀ u ∈ levelUses, ∀ d, cfgLevel.args[u.arg]? = some d → d.deprecated = false := by
  intro u _ d hd
  exact (show ∀ d ∈ cfgLevel.args, d.deprecated = false by decide) d (List.mem_of_getElem? hd)

/-- the `levels` hypothesis for `-v -v`: the only argument is a LevelCounter, its two increments
    from level 0 are acceptable (`level_twice_accepted`) -/
theorem level_levels : ∀ (i : Nat) (d : ArgDef) (v : DVal), cfgLevel.args[i]? = some d → d.kind = .level →
    [DVal.level 0][i]? = some v → LevelValuesOk d (levelOf v) false false (valsOf i levelUses) := by
  intro i d v hd _ hv
  cases i with
  | zero =>
    simp only [cfgLevel, List.getElem?_cons_zero, Option.some.injEq] at hd hv
    subst hd; subst hv
    exact level_twice_accepted.1
  | succ i => simp [cfgLevel] at hd

end RulesExample

end CelmaVerif.ProgArgs
