import CelmaVerif.Lemmas.ParseCursor
/-
  The surface forms of `Spells` (Lemmas/Spelling.lean) are among the element sequences of the
  declarative grammar `SP` / `SpellsPlus` (Lemmas/ParseGrammar.lean).
-/
namespace CelmaVerif.ProgArgs
open CelmaVerif CelmaVerif.Keys

theorem plainWord_tok {v : Word} (hp : PlainWord v) : ctrlOf v = none ∧ v.headD '\x00' ≠ '-' := by
  obtain ⟨h1, h2, h3, h4⟩ := hp
  constructor
  · cases hc : ctrlOf v with
    | none => rfl
    | some c =>
      obtain ⟨e, hc'⟩ := ctrlOf_some hc
      subst e
      rcases hc' with hc' | hc' | hc' <;> subst hc'
      · exact absurd rfl h2
      · exact absurd rfl h3
      · exact absurd rfl h4
  · cases v with
    | nil => decide
    | cons a as =>
      simp only [List.head?_cons, ne_eq, Option.some.injEq] at h1
      simpa using h1

/-- a plain word at a boundary is a value element, whatever the "rest as value" flag and whether or
    not it is the first word -/
theorem nextTok_plain {v : Word} (hp : PlainWord v) (b f : Bool) (ws : List Word) :
    nextTok b (.bnd false f (v :: ws)) = .tok (.value v) (.bnd false false ws) := by
  obtain ⟨h1, h2⟩ := plainWord_tok hp
  exact wordTok_plain f ws (Or.inr h1) h2

theorem nextTok_dash2 (b f : Bool) (c : Char) (r : Word) (ws : List Word) :
    nextTok b (.bnd false f (('-' :: c :: r) :: ws)) = inWordTok c r ws :=
  wordTok_dash2 f c r ws

/-- the position behind a short key character: inside the word if characters are left, else the
    next boundary -/
def posOf (cs : Word) (ws : List Word) : Pos :=
  match cs with
  | [] => .bnd false false ws
  | c :: r => .inw c r ws

theorem inWordTok_short {c : Char} (r : Word) (ws : List Word) (hc : c ≠ '-') :
    inWordTok c r ws = .tok (.short c) (posOf r ws) := by
  cases r with
  | nil => exact inWordTok_short_last ws hc
  | cons a as => exact inWordTok_short_more a as ws hc

/-- where free values go after a group of flags -/
def lastIdx (l : Option Nat) (fs : List (Char × Nat × ArgDef)) : Option Nat :=
  match fs.getLast? with
  | some f => some f.2.1
  | none => l

theorem lastIdx_cons (l : Option Nat) (f : Char × Nat × ArgDef) (fs : List (Char × Nat × ArgDef)) :
    lastIdx l (f :: fs) = lastIdx (some f.2.1) fs := by
  cases fs with
  | nil => rfl
  | cons g gs =>
    simp only [lastIdx, List.getLast?_cons_cons]
    cases h : (g :: gs).getLast? with
    | none => simp at h
    | some x => rfl

/-- a next element that is never a value: behind a key whose value is optional -/
theorem noValueNext_tok {ws : List Word} (hn : NoValueNext ws) (v : Word) (pos' : Pos) :
    nextTok false (.bnd false false ws) ≠ .tok (.value v) pos' := by
  rcases hn with hnil | ⟨t, rest, hd, ht, ht'⟩
  · subst hnil
    intro h; cases h
  · subst hd
    cases t with
    | nil => exact absurd rfl ht
    | cons c r =>
      rw [nextTok_dash2]
      by_cases hc : c = '-'
      · subst hc
        cases r with
        | nil => exact absurd rfl ht'
        | cons a as =>
          cases he : findEq (a :: as) with
          | none => rw [inWordTok_long rest (by simp) he]; intro h; cases h
          | some e => rw [inWordTok_long_eq rest (by simp) he]; intro h; cases h
      · rw [inWordTok_short r rest hc]; intro h; cases h

/-- a group of flag characters inside a dashed word, followed by the characters `tl` -/
theorem flags_SP {cfg : Cfg} (ws : List Word) (tl : Word) (tu : List Use) :
    ∀ (fs : List (Char × Nat × ArgDef)) (l : Option Nat),
      (∀ f ∈ fs, f.1 ≠ '-' ∧ Resolves cfg (Key.ofChar f.1) f.2.1 f.2.2 ∧ f.2.2.vmode = .none) →
      SP cfg (lastIdx l fs) false (nextTok false (posOf tl ws)) tu →
      SP cfg l false (nextTok false (posOf (fs.map (·.1) ++ tl) ws))
        (fs.map (fun f => { arg := f.2.1, val := [], ident := true }) ++ tu) := by
  intro fs
  induction fs with
  | nil => intro l _ h; exact h
  | cons f fs ih =>
    intro l hall h
    obtain ⟨h1, h2, h3⟩ := hall f (List.mem_cons_self ..)
    rw [lastIdx_cons] at h
    have hrec := ih (some f.2.1) (fun g hg => hall g (List.mem_cons_of_mem _ hg)) h
    show SP cfg l false (inWordTok f.1 (fs.map (·.1) ++ tl) ws) _
    rw [inWordTok_short _ ws h1]
    exact SP.flag (k := Key.ofChar f.1) rfl h2 h3 hrec

/-- a dashed word with at least one character behind the dash is read from inside the word -/
theorem nextTok_word {cs : Word} (hne : cs ≠ []) (b f : Bool) (ws : List Word) :
    nextTok b (.bnd false f (('-' :: cs) :: ws)) = nextTok false (posOf cs ws) := by
  cases cs with
  | nil => exact absurd rfl hne
  | cons c r => exact nextTok_dash2 b f c r ws

/-- every `Spells` derivation is an `SP` derivation: the surface forms of `Spells` are among the
    element sequences of the declarative grammar (from any boundary that is not behind `--`) -/
theorem spells_SP {cfg : Cfg} {l : Option Nat} {us : List Use} {ws : List Word} (hs : Spells cfg l us ws) (f : Bool) :
    SP cfg l false (nextTok false (.bnd false f ws)) us := by
  induction hs generalizing f with
  | nil l => exact SP.done l false
  | @shortFlag l c i d us ws hc hr hv _ ih =>
    rw [nextTok_dash2, inWordTok_short [] ws hc]
    exact SP.flag (k := Key.ofChar c) rfl hr hv (ih false)
  | @longFlag l name k i d us ws hn he hk hr hv _ ih =>
    rw [nextTok_dash2, inWordTok_long ws hn he]
    exact SP.flag (k := k) hk hr hv (ih false)
  | @shortVal l c v i d us ws hc hr hv hp _ ih =>
    rw [nextTok_dash2, inWordTok_short [] (v :: ws) hc]
    exact SP.keyValue (k := Key.ofChar c) rfl hr hv (nextTok_plain hp _ false ws) (ih false)
  | @longVal l name v k i d us ws hn he hk hr hv hp _ ih =>
    rw [nextTok_dash2, inWordTok_long (v :: ws) hn he]
    exact SP.keyValue (k := k) hk hr hv (nextTok_plain hp _ false ws) (ih false)
  | @longEq l name v k i d us ws hn he hk hr hv _ ih =>
    rw [nextTok_dash2, inWordTok_long_eq ws (by simp) (findEq_append_eq he)]
    have e1 : (name ++ '=' :: v).take name.length = name := by simp
    have e2 : (name ++ '=' :: v).drop (name.length + 1) = v := by simp
    rw [e1, e2]
    exact SP.keyValue (k := k) (pos' := .bnd false false ws) hk hr hv rfl (ih false)
  | @shortGlued l c v i d us ws hc hv0 hr hv _ ih =>
    rw [nextTok_dash2, inWordTok_short v ws hc]
    cases v with
    | nil => exact absurd rfl hv0
    | cons v0 vr =>
      refine SP.keyValue (k := Key.ofChar c) (pos' := .bnd false false ws) rfl hr (by rw [hv]; simp) ?_ (ih false)
      rw [hv]
      rfl
  | @shortOpt l c i d us ws hc hr hv hnv _ ih =>
    rw [nextTok_dash2, inWordTok_short [] ws hc]
    exact SP.keyAlone (k := Key.ofChar c) rfl hr hv (noValueNext_tok hnv) (ih false)
  | @longOpt l name k i d us ws hn he hk hr hv hnv _ ih =>
    rw [nextTok_dash2, inWordTok_long ws hn he]
    exact SP.keyAlone (k := k) hk hr hv (noValueNext_tok hnv) (ih false)
  | @flagGroup l fs last us ws hall hlast _ ih =>
    have hne : fs.map (·.1) ≠ [] := by
      cases fs with
      | nil => simp at hlast
      | cons a as => simp
    rw [nextTok_word hne]
    have hl : lastIdx l fs = some last := by
      unfold lastIdx
      cases hg : fs.getLast? with
      | none => rw [hg] at hlast; simp at hlast
      | some g => rw [hg] at hlast; simpa using hlast
    have := flags_SP (cfg := cfg) ws [] us fs l hall (by rw [hl]; exact ih false)
    simpa using this
  | @groupVal l fs c v i d us ws hall hc hr hv hp _ ih =>
    rw [nextTok_word (by simp)]
    refine flags_SP (cfg := cfg) (v :: ws) [c] _ fs l hall ?_
    show SP cfg _ false (inWordTok c [] (v :: ws)) _
    rw [inWordTok_short [] (v :: ws) hc]
    exact SP.keyValue (k := Key.ofChar c) rfl hr hv (nextTok_plain hp _ false ws) (ih false)
  | @groupGlued l fs c v i d us ws hall hc hv0 hr hv _ ih =>
    rw [nextTok_word (by simp)]
    refine flags_SP (cfg := cfg) ws (c :: v) _ fs l hall ?_
    show SP cfg _ false (inWordTok c v ws) _
    rw [inWordTok_short v ws hc]
    cases v with
    | nil => exact absurd rfl hv0
    | cons v0 vr =>
      refine SP.keyValue (k := Key.ofChar c) (pos' := .bnd false false ws) rfl hr (by rw [hv]; simp) ?_ (ih false)
      rw [hv]
      rfl
  | @free v i d us ws hd hm hp _ ih =>
    rw [nextTok_plain hp]
    exact SP.free hd hm (ih false)

theorem spells_sub_spellsPlus {cfg : Cfg} {us : List Use} {ws : List Word} (hs : Spells cfg none us ws) :
    SpellsPlus cfg us ws := spells_SP hs true

end CelmaVerif.ProgArgs
