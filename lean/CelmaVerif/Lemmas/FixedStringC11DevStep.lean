import CelmaVerif.Lemmas.FixedStringC11Cover
/-
  C11 — the deviations outside the documented domain at the level of `step`: for every `DevKind` of
  Lemmas/FixedStringC11Cover.lean, what `step c cu w op` returns for EVERY operation `op` with
  `devCase (npos c) w op = some kind`, next to what the specification (`spec`, i.e. `std::string`) returns.
  (`strchrNul`: Lemmas/FixedStringC11DevNul.lean, `nulInIteratorSource`: Lemmas/FixedStringC11DevIt.lean.)
-/
namespace CelmaVerif.FixedString
open CelmaVerif

variable {c cu : Cfg} {w : World}

set_option hygiene false in
/-- closes the goals of the operations that cannot produce the deviation kind in `hk` -/
macro "dev_other" : tactic =>
  `(tactic| (
    exfalso
    simp only [devCase, itRepCase, countCase] at hk
    repeat' (split at hk)
    all_goals (first
      | (cases hk; done)
      | (cases hk; rename_i heq; (repeat' (split at heq)); all_goals (cases heq)))))

/-! ### `at( length())` -/

theorem dev_step_atLength (hw : WFW c cu w) (op : Op) (hk : devCase (npos c) w op = some .atLength) :
    step c cu w op = .ok (w, .byte 0) ∧ spec id (npos c) w op = .throw .out_of_range := by
  have hl := abs_length hw.1
  obtain ⟨h1, h2⟩ := at_len hw.1
  cases op
  case atI i =>
    simp only [devCase] at hk; split at hk
    · rename_i hi; rw [hl] at hi; subst hi
      refine ⟨by simp only [step]; rw [h1]; rfl, by simp only [spec]; rw [h2]; rfl⟩
    · cases hk
  case cat i =>
    simp only [devCase] at hk; split at hk
    · rename_i hi; rw [hl] at hi; subst hi
      refine ⟨by simp only [step]; rw [h1]; rfl, by simp only [spec]; rw [h2]; rfl⟩
    · cases hk
  all_goals dev_other

/-! ### `insert( end(), …)` -/

/-- the text an iterator `insert` inserts -/
def insText : Op → Str
  | .insertItC _ ch => [ch]
  | .insertItCC _ n ch => List.replicate n ch
  | .insertItIl _ il => il
  | _ => []

theorem dev_step_insertAtEnd (hw : WFW c cu w) (op : Op) (hk : devCase (npos c) w op = some .insertAtEnd) :
    step c cu w op = .ok (w, .iter (itEnd c)) ∧ spec id (npos c) w op = .ok (abs w.s ++ insText op, .unit) := by
  cases op
  case insertItC p ch =>
    simp only [devCase] at hk; split at hk
    · rename_i hp
      have hi := itOf_actsEnd hw.1 hp
      have hq := itPos_actsEnd hp
      refine ⟨?_, ?_⟩
      · show mutIt w (insertItCh c w.s (itOf c w.s p) 1 ch) = _
        rw [hi, (dev_insert_at_end c w.s 1 ch []).1]; rfl
      · simp only [spec, hq, std_insert_at_end]; rfl
    · cases hk
  case insertItCC p n ch =>
    simp only [devCase] at hk; split at hk
    · rename_i hp
      have hi := itOf_actsEnd hw.1 hp
      have hq := itPos_actsEnd hp
      refine ⟨?_, ?_⟩
      · show mutIt w (insertItCh c w.s (itOf c w.s p) n ch) = _
        rw [hi, (dev_insert_at_end c w.s n ch []).1]; rfl
      · simp only [spec, hq, std_insert_at_end]; rfl
    · cases hk
  case insertItIl p il =>
    simp only [devCase] at hk; split at hk
    · rename_i hp
      have hi := itOf_actsEnd hw.1 hp
      have hq := itPos_actsEnd hp
      refine ⟨?_, ?_⟩
      · show mutIt w (insertItList c w.s (itOf c w.s p) il) = _
        rw [hi, (dev_insert_at_end c w.s 0 0 il).2]; rfl
      · simp only [spec, hq, std_insert_at_end]; rfl
    · cases hk
  all_goals dev_other

/-! ### a count behind the terminator -/

/-- the same operation with the count cut at the terminator of the C string -/
def clampCount : Op → Op
  | .appendPC a _ => .appendPC a (StdString.ofCStr a).length
  | .cmpCCPC p n a _ => .cmpCCPC p n a (StdString.ofCStr a).length
  | .repCCPC p n a _ => .repCCPC p n a (StdString.ofCStr a).length
  | .search .rfind (.ppc a p _) => .search .rfind (.ppc a p (StdString.ofCStr a).length)
  | op => op

/-- pointer and count of the four overloads concerned -/
def countArg : Op → Option (List Byte × Nat)
  | .appendPC a k | .cmpCCPC _ _ a k | .repCCPC _ _ a k | .search .rfind (.ppc a _ k) => some (a, k)
  | _ => none

theorem countCase_inv {a : List Byte} {k : Nat} (h : countCase a k = some .countBeyondTerminator) :
    (0 : Byte) ∈ a ∧ (StdString.ofCStr a).length < k := by
  unfold countCase at h
  split at h
  · rename_i hh
    simp only [Bool.and_eq_true, decide_eq_true_eq] at hh
    exact ⟨hasNul_iff.mp hh.1, hh.2⟩
  · cases h

theorem dev_count_len {a : List Byte} (h0 : (0 : Byte) ∈ a) :
    ∃ k0, cstrlen a = .ok k0 ∧ (StdString.ofCStr a).length = k0 := by
  obtain ⟨k0, hk0, hlt, hof⟩ := cstrlen_of_mem h0
  exact ⟨k0, hk0, by rw [hof, List.length_take]; omega⟩

theorem dev_step_countBeyondTerminator (op : Op)
    (hk : devCase (npos c) w op = some .countBeyondTerminator) :
    step c cu w op = step c cu w (clampCount op) ∧
    ∃ a k, countArg op = some (a, k) ∧ (StdString.ofCStr a).length < k ∧ a.take k ≠ StdString.ofCStr a := by
  cases op
  case appendPC a k =>
    simp only [devCase] at hk
    obtain ⟨h0, hlt⟩ := countCase_inv hk
    obtain ⟨k0, hk0, hlen⟩ := dev_count_len h0
    refine ⟨?_, a, k, rfl, hlt, dev_take_ne_ofCStr h0 hlt⟩
    simp only [step, clampCount]
    rw [(dev_count_clamped c w.s hk0 k (by omega)).1, hlen, (dev_count_clamped c w.s hk0 k0 (Nat.le_refl _)).1]
  case repCCPC p n a k =>
    simp only [devCase] at hk
    obtain ⟨h0, hlt⟩ := countCase_inv hk
    obtain ⟨k0, hk0, hlen⟩ := dev_count_len h0
    refine ⟨?_, a, k, rfl, hlt, dev_take_ne_ofCStr h0 hlt⟩
    simp only [step, clampCount]
    rw [(dev_count_clamped c w.s hk0 k (by omega)).2.1, hlen, (dev_count_clamped c w.s hk0 k0 (Nat.le_refl _)).2.1]
  case cmpCCPC p n a k =>
    simp only [devCase] at hk
    obtain ⟨h0, hlt⟩ := countCase_inv hk
    obtain ⟨k0, hk0, hlen⟩ := dev_count_len h0
    refine ⟨?_, a, k, rfl, hlt, dev_take_ne_ofCStr h0 hlt⟩
    simp only [step, clampCount]
    rw [hk0, bindR_ok, bindR_ok, (dev_count_clamped c w.s hk0 k (by omega)).2.2.1, hlen]
  case search fam nd =>
    cases fam
    case rfind =>
      cases nd
      case ppc a p k =>
        have hk' : countCase a k = some .countBeyondTerminator := by
          simp only [devCase] at hk
          split at hk
          · cases hk
          · exact hk
        obtain ⟨h0, hlt⟩ := countCase_inv hk'
        obtain ⟨k0, hk0, hlen⟩ := dev_count_len h0
        refine ⟨?_, a, k, rfl, hlt, dev_take_ne_ofCStr h0 hlt⟩
        simp only [step, clampCount, searchStep]
        rw [(dev_count_clamped c w.s hk0 k (by omega)).2.2.2, hlen,
          (dev_count_clamped c w.s hk0 k0 (Nat.le_refl _)).2.2.2]
      all_goals dev_other
    all_goals dev_other
  all_goals dev_other

/-! ### iterator `replace`: `[end(), …)`, an empty range, an empty replacement -/

/-- range and replacement text of the six iterator `replace` overloads -/
def repParts (w : World) : Op → Option (ItArg × ItArg × Str)
  | .repItItItIt f l i j =>
    some (f, l, ((abs w.t).drop (itPos (abs w.t) i)).take (itPos (abs w.t) j - itPos (abs w.t) i))
  | .repItItSIt f l d i j => some (f, l, (d.drop i).take (j - i))
  | .repItItPC f l a k => some (f, l, a.take k)
  | .repItItP f l a => some (f, l, StdString.ofCStr a)
  | .repItItCC f l k ch => some (f, l, List.replicate k ch)
  | .repItItIl f l il => some (f, l, il)
  | _ => none

def IsRepKind : DevKind → Prop
  | .rangeFromEnd | .replaceEmptyRange | .replaceByNothing => True
  | _ => False

/-- the model's iterator value in terms of the `std::string` position -/
theorem itOf_of_itPos {s : FStr} (hs : WF c s) (p : ItArg) :
    itOf c s p = if itPos (abs s) p < s.len then itPos (abs s) p else itEnd c := by
  have hl := abs_length hs
  cases p with
  | fin => simp only [itOf, itPos, hl]; rw [if_neg (Nat.lt_irrefl _)]
  | pos k =>
    simp only [itOf, itPos, itAt, hl]
    by_cases h : k ≥ s.len
    · rw [if_pos h, Nat.min_eq_right h, if_neg (Nat.lt_irrefl _)]
    · rw [if_neg h, Nat.min_eq_left (by omega), if_pos (by omega)]

theorem itOf_eq_of_itPos_eq {s : FStr} (hs : WF c s) {p q : ItArg} (h : itPos (abs s) p = itPos (abs s) q) :
    itOf c s p = itOf c s q := by
  rw [itOf_of_itPos hs p, itOf_of_itPos hs q, h]

theorem itRep_nothing {x : Str} {f l : ItArg} {r : Str} {k : DevKind} (h : itRepCase x f l r = some k)
    (hle : itPos x f ≤ itPos x l) : itPos x f = itPos x l ∨ r.length = 0 := by
  unfold itRepCase at h
  split at h
  · rename_i h1; have := cover_actsEnd_pos h1; have := itPos_le x l; left; omega
  · split at h
    · left; omega
    · split at h
      · right; assumption
      · cases h

theorem dev_spec_itRep (x r : Str) (f l : ItArg) (hle : itPos x f ≤ itPos x l) :
    (if itPos x f > itPos x l then (.throw .out_of_range : Res (Str × Out))
      else thenS (StdString.replace x (itPos x f) (itPos x l - itPos x f) r)) =
      .ok (x.take (itPos x f) ++ r ++ x.drop (itPos x l), .unit) := by
  rw [w2_spec_itRep x r _ _ hle (itPos_le x f), show itPos x f + (itPos x l - itPos x f) = itPos x l by omega]

theorem mutS_same (w : World) : mutS w (.ok w.s) = .ok (w, .unit) := rfl

theorem dev_nothing_ItIt (hw : WFW c cu w) (f l i j : ItArg) (hij : itPos (abs w.t) i ≤ itPos (abs w.t) j)
    (hn : itPos (abs w.s) f = itPos (abs w.s) l ∨
      (((abs w.t).drop (itPos (abs w.t) i)).take (itPos (abs w.t) j - itPos (abs w.t) i)).length = 0) :
    step c cu w (.repItItItIt f l i j) = .ok (w, .unit) := by
  simp only [step]
  have hcond : itOf c w.s f = itEnd c ∨ itOf c w.s f = itOf c w.s l ∨ itOf c w.t i = itOf c w.t j := by
    rcases hn with h | h
    · exact Or.inr (Or.inl (itOf_eq_of_itPos_eq hw.1 h))
    · right; right
      apply itOf_eq_of_itPos_eq hw.2.1
      have := itPos_le (abs w.t) j
      rw [List.length_take, List.length_drop] at h
      omega
  unfold replaceItIt
  rw [if_pos hcond]; rfl

theorem dev_nothing_SIt (hw : WFW c cu w) (f l : ItArg) (d : Str) (i j : Nat) (hij : i ≤ j) (hj : j ≤ d.length)
    (hn : itPos (abs w.s) f = itPos (abs w.s) l ∨ ((d.drop i).take (j - i)).length = 0) :
    step c cu w (.repItItSIt f l d i j) = .ok (w, .unit) := by
  simp only [step]
  have hcond : itOf c w.s f = itEnd c ∨ itOf c w.s f = itOf c w.s l ∨ i = j := by
    rcases hn with h | h
    · exact Or.inr (Or.inl (itOf_eq_of_itPos_eq hw.1 h))
    · right; right
      rw [List.length_take, List.length_drop] at h
      omega
  unfold replaceItSIt
  rw [if_pos hcond]; rfl

theorem dev_nothing_PC (hw : WFW c cu w) (f l : ItArg) (a : List Byte) (k : Nat) (hk : k ≤ a.length)
    (hn : itPos (abs w.s) f = itPos (abs w.s) l ∨ (a.take k).length = 0) :
    step c cu w (.repItItPC f l a k) = .ok (w, .unit) := by
  simp only [step]
  have hcond : itOf c w.s f = itOf c w.s l ∨ k = 0 := by
    rcases hn with h | h
    · exact Or.inl (itOf_eq_of_itPos_eq hw.1 h)
    · right; rw [List.length_take] at h; omega
  unfold replaceItPN
  rw [if_pos hcond]; rfl

theorem dev_nothing_P (hw : WFW c cu w) (f l : ItArg) (a : List Byte) (h0 : (0 : Byte) ∈ a)
    (hn : itPos (abs w.s) f = itPos (abs w.s) l ∨ (StdString.ofCStr a).length = 0) :
    step c cu w (.repItItP f l a) = .ok (w, .unit) := by
  simp only [step]
  obtain ⟨k0, hk0, hlen⟩ := dev_count_len h0
  have hcond : itOf c w.s f = itOf c w.s l ∨ k0 = 0 := by
    rcases hn with h | h
    · exact Or.inl (itOf_eq_of_itPos_eq hw.1 h)
    · right; omega
  unfold replaceItP
  rw [hk0, bindR_ok]
  unfold replaceItPN
  rw [if_pos hcond]; rfl

theorem dev_nothing_CC (hw : WFW c cu w) (f l : ItArg) (k : Nat) (ch : Byte)
    (hn : itPos (abs w.s) f = itPos (abs w.s) l ∨ (List.replicate k ch).length = 0) :
    step c cu w (.repItItCC f l k ch) = .ok (w, .unit) := by
  simp only [step]
  have hcond : itOf c w.s f = itEnd c ∨ itOf c w.s l = itOf c w.s f ∨ k = 0 := by
    rcases hn with h | h
    · exact Or.inr (Or.inl (itOf_eq_of_itPos_eq hw.1 h).symm)
    · right; right; rw [List.length_replicate] at h; exact h
  unfold replaceItCh
  rw [if_pos hcond]; rfl

theorem dev_nothing_Il (hw : WFW c cu w) (f l : ItArg) (il : Str)
    (hn : itPos (abs w.s) f = itPos (abs w.s) l ∨ il.length = 0) :
    step c cu w (.repItItIl f l il) = .ok (w, .unit) := by
  simp only [step]
  unfold replaceItList
  by_cases h0 : il.length = 0
  · rw [if_pos h0]; rfl
  · rw [if_neg h0]
    have h : itOf c w.s f = itOf c w.s l := by
      rcases hn with h | h
      · exact itOf_eq_of_itPos_eq hw.1 h
      · exact absurd h h0
    unfold replaceItPN
    rw [if_pos (Or.inl h)]; rfl

theorem dev_le_of_not {a b : Nat} (h : (!decide (a > b)) = true) : a ≤ b := by simp at h; omega

theorem dev_itRep_std {x : Str} {f l : ItArg}
    (h : (!decide (itPos x f > itPos x l) && decide (itPos x f ≤ x.length)) = true) : itPos x f ≤ itPos x l :=
  cover_le_of h

/-- `replace( first, last, …)` through iterators where `first` is `end()`, or the range is empty, or the replacement
    text is empty: nothing happens; `std::string` replaces `[first, last)` by the text. -/
theorem dev_step_itRep (hw : WFW c cu w) (op : Op) (ha : ArgsOK c w op) (hs : stdDefined (npos c) w op = true)
    (k : DevKind) (hkind : IsRepKind k) (hk : devCase (npos c) w op = some k) :
    ∃ f l r, repParts w op = some (f, l, r) ∧ itRepCase (abs w.s) f l r = some k ∧
      step c cu w op = .ok (w, .unit) ∧
      spec id (npos c) w op =
        .ok ((abs w.s).take (itPos (abs w.s) f) ++ r ++ (abs w.s).drop (itPos (abs w.s) l), .unit) := by
  cases op
  case repItItItIt f l i j =>
    simp only [stdDefined, stdReadable, spec, Bool.and_eq_true, isOk_if_throw, isOk_thenS, isOk_replace,
      decide_eq_true_eq] at hs
    have hle := dev_le_of_not hs.2.1
    simp only [devCase] at hk
    cases hq : itRepCase (abs w.s) f l
        (((abs w.t).drop (itPos (abs w.t) i)).take (itPos (abs w.t) j - itPos (abs w.t) i)) with
    | none =>
      rw [hq] at hk; simp only [] at hk
      split at hk
      · cases hk; cases hkind
      · cases hk
    | some k' =>
      rw [hq] at hk; cases hk
      refine ⟨f, l, _, rfl, hq, dev_nothing_ItIt hw f l i j hs.1 (itRep_nothing hq hle), ?_⟩
      simp only [spec]; exact dev_spec_itRep _ _ f l hle
  case repItItSIt f l d i j =>
    simp only [stdDefined, stdReadable, spec, Bool.and_eq_true, isOk_if_throw, isOk_thenS, isOk_replace,
      decide_eq_true_eq] at hs
    have hle := dev_le_of_not hs.2.1
    simp only [devCase] at hk
    refine ⟨f, l, _, rfl, hk, dev_nothing_SIt hw f l d i j hs.1.1 hs.1.2 (itRep_nothing hk hle), ?_⟩
    simp only [spec]; exact dev_spec_itRep _ _ f l hle
  case repItItPC f l a n =>
    simp only [stdDefined, stdReadable, spec, Bool.and_eq_true, isOk_if_throw, isOk_thenS, isOk_replace,
      decide_eq_true_eq] at hs
    have hle := dev_le_of_not hs.2.1
    simp only [devCase] at hk
    refine ⟨f, l, _, rfl, hk, dev_nothing_PC hw f l a n hs.1 (itRep_nothing hk hle), ?_⟩
    simp only [spec]; exact dev_spec_itRep _ _ f l hle
  case repItItP f l a =>
    simp only [stdDefined, stdReadable, spec, Bool.and_eq_true, isOk_if_throw, isOk_thenS, isOk_replace] at hs
    have hle := dev_le_of_not hs.2.1
    simp only [devCase] at hk
    refine ⟨f, l, _, rfl, hk, dev_nothing_P hw f l a ha (itRep_nothing hk hle), ?_⟩
    simp only [spec]; exact dev_spec_itRep _ _ f l hle
  case repItItCC f l n ch =>
    simp only [stdDefined, stdReadable, spec, Bool.true_and, isOk_if_throw, isOk_thenS, isOk_replace] at hs
    have hle := dev_itRep_std hs
    simp only [devCase] at hk
    refine ⟨f, l, _, rfl, hk, dev_nothing_CC hw f l n ch (itRep_nothing hk hle), ?_⟩
    simp only [spec, id]; exact dev_spec_itRep _ _ f l hle
  case repItItIl f l il =>
    simp only [stdDefined, stdReadable, spec, Bool.true_and, isOk_if_throw, isOk_thenS, isOk_replace] at hs
    have hle := dev_itRep_std hs
    simp only [devCase] at hk
    refine ⟨f, l, _, rfl, hk, dev_nothing_Il hw f l il (itRep_nothing hk hle), ?_⟩
    simp only [spec]; exact dev_spec_itRep _ _ f l hle
  all_goals (cases k <;> first | (cases hkind; done) | dev_other)

/-! ### empty search strings and character sets -/

/-- what the code answers for an empty needle: `contains` false, every search `npos` -/
def emptyOut : Op → Out
  | .ctF _ | .ctS _ | .ctP _ => .bool false
  | _ => .pos none

theorem en_contains (s : FStr) (a : List Byte) : containsImpl s a 0 = .ok false := by
  unfold containsImpl; rw [if_pos (Or.inl rfl)]
theorem en_findN (s : FStr) (a : List Byte) (pos : Nat) : findN s a pos 0 = .ok none := by
  unfold findN; rw [if_pos (Or.inr (Or.inr (Or.inr rfl)))]
theorem en_rfindN (s : FStr) (a : List Byte) (pos : Nat) : rfindN c s a pos 0 = .ok none := by
  unfold rfindN; rw [if_pos (Or.inr (Or.inl rfl))]
theorem en_ffoImpl (s : FStr) (a : List Byte) (pos : Nat) (neg : Bool) : findFirstOfImpl s a pos 0 neg = .ok none := by
  unfold findFirstOfImpl; rw [if_pos (Or.inr rfl)]
theorem en_ffoPN (s : FStr) (a : List Byte) (pos : Nat) (neg : Bool) : findFirstOfPN s a pos 0 neg = .ok none := by
  unfold findFirstOfPN; rw [if_pos (Or.inr rfl)]
theorem en_floImpl (s : FStr) (a : List Byte) (pos : Nat) (neg : Bool) : findLastOfImpl c s a pos 0 neg = .ok none :=
  (dev_empty_needle c s a pos neg).2.2.2.2.2.1
theorem en_floPN (s : FStr) (a : List Byte) (pos : Nat) (neg : Bool) : findLastOfPN s a pos 0 neg = .ok none := by
  unfold findLastOfPN; rw [if_pos (Or.inr rfl)]
theorem en_rfindPN0 (s : FStr) {a : List Byte} (h : cstrlen a = .ok 0) (pos n : Nat) : rfindPN c s a pos n = .ok none := by
  unfold rfindPN
  by_cases h0 : s.len = 0
  · rw [if_pos h0]
  · rw [if_neg h0, h, bindR_ok, if_pos rfl]

theorem en_obs_pos (w : World) : obs w (Res.ok (none : Option Nat)) Out.pos = .ok (w, .pos none) := rfl
theorem en_obs_bool (w : World) : obs w (Res.ok false) Out.bool = .ok (w, .bool false) := rfl

theorem dev_step_emptyNeedle_search (hw : WFW c cu w) (fam : Fam) (nd : Needle) (ha : ArgsOK c w (.search fam nd))
    (hk : devCase (npos c) w (.search fam nd) = some .emptyNeedle) :
    step c cu w (.search fam nd) = .ok (w, .pos none) := by
  by_cases h0 : (needleText w nd).length = 0
  · simp only [devCase, if_pos h0] at hk
    simp only [step]
    cases nd
    case f p =>
      have ht : w.t.len = 0 := by rw [← abs_length hw.2.1]; exact h0
      cases fam <;> simp only [searchStep, ht, en_findN, en_rfindN, en_ffoImpl, en_floImpl] <;> rfl
    case s d p =>
      have hd : d.length = 0 := h0
      cases fam <;> simp only [searchStep, hd, en_findN, en_rfindN, en_ffoImpl, en_floImpl] <;> rfl
    case ppc a p k =>
      have hk0 : k = 0 := by
        simp only [ArgsOK] at ha
        have : (a.take k).length = 0 := h0
        rw [List.length_take] at this; omega
      subst hk0
      cases fam
      case rfind => cases hk
      all_goals (simp only [searchStep, en_findN, en_ffoPN, en_floPN]; rfl)
    case pp a p =>
      have h0' : (StdString.ofCStr a).length = 0 := h0
      obtain ⟨k0, hk0, hlen⟩ := dev_count_len (show (0 : Byte) ∈ a from ha)
      have : k0 = 0 := by omega
      subst this
      cases fam <;>
        simp only [searchStep, findP, rfindP, hk0, bindR_ok, en_findN, en_rfindPN0 w.s hk0, en_ffoImpl, en_floImpl] <;> rfl
    case c ch p => cases h0
  · exfalso
    simp only [devCase, if_neg h0, countCase] at hk
    repeat' (split at hk)
    all_goals (cases hk)

theorem dev_step_emptyNeedle (hw : WFW c cu w) (op : Op) (ha : ArgsOK c w op)
    (hk : devCase (npos c) w op = some .emptyNeedle) : step c cu w op = .ok (w, emptyOut op) := by
  cases op
  case search fam nd => exact dev_step_emptyNeedle_search hw fam nd ha hk
  case ctF f =>
    simp only [devCase] at hk; split at hk
    · rename_i h0
      obtain ⟨co, hwf⟩ := sel_wf hw f
      have hl : (w.sel f).len = 0 := by rw [← abs_length hwf]; exact h0
      simp only [step, hl, en_contains, emptyOut]; rfl
    · cases hk
  case ctS d =>
    simp only [devCase] at hk; split at hk
    · rename_i h0
      simp only [step, h0, en_contains, emptyOut]; rfl
    · cases hk
  case ctP a =>
    simp only [devCase] at hk; split at hk
    · rename_i h0
      obtain ⟨k0, hk0, hlen⟩ := dev_count_len (show (0 : Byte) ∈ a from ha)
      have : k0 = 0 := by omega
      subst this
      simp only [step, hk0, bindR_ok, en_contains, emptyOut]; rfl
    · cases hk
  all_goals dev_other

/-! ### `rfind( p, pos, 0)` -/

theorem rfindPN_zero (hc : CfgOK c) {s : FStr} (hs : WF c s) {a : List Byte} (h0 : (0 : Byte) ∈ a) (p : Nat) :
    rfindPN c s a p 0 = .ok (if s.len = 0 ∨ a.head? = some 0 then none else some (min p s.len)) := by
  have := hs.1; have := hs.2.1; have := hc.hW
  unfold rfindPN
  by_cases hl : s.len = 0
  · rw [if_pos hl, if_pos (Or.inl hl)]
  · rw [if_neg hl]
    cases a with
    | nil => cases h0
    | cons b bs =>
      by_cases hb : b = 0
      · have hz : cstrlen (b :: bs) = .ok 0 := by unfold cstrlen cstrlenAux; rw [if_pos hb]
        rw [hz, bindR_ok, if_pos rfl, if_pos (Or.inr (by rw [hb]; rfl))]
      · obtain ⟨sl, hsl, _, _⟩ := cstrlen_ok (b :: bs) h0
        have hpos : sl ≠ 0 := by
          intro h; rw [h] at hsl; unfold cstrlen cstrlenAux at hsl; rw [if_neg hb] at hsl
          have := cstrlenAux_le bs 1 0 hsl; omega
        rw [hsl, bindR_ok, if_neg hpos]
        have hh : ¬ (s.len = 0 ∨ (b :: bs).head? = some 0) := by
          intro h; rcases h with h | h
          · exact hl h
          · simp only [List.head?_cons, Option.some.injEq] at h; exact hb h
        rw [if_neg hh]
        simp only [show ¬ (0 > sl) from by omega, if_false, show ¬ (0 > s.len) from by omega, Nat.sub_zero]
        generalize hp' : (if p = npos c ∨ p > s.len then s.len else p) = pos'
        have hle : pos' ≤ s.len ∧ pos' = min p s.len := by rw [← hp']; unfold npos; split <;> omega
        unfold rscanLoop
        rw [prefix_at_abs hs (n := 0) (k := pos') (Nat.zero_le _) (by omega), bindR_ok, hle.2]
        rfl

theorem dev_step_rfindCountZero (hc : CfgOK c) (hw : WFW c cu w) (op : Op) (ha : ArgsOK c w op)
    (hk : devCase (npos c) w op = some .rfindCountZero) :
    ∃ a p, op = .search .rfind (.ppc a p 0) ∧
      step c cu w op = .ok (w, .pos (if w.s.len = 0 ∨ a.head? = some 0 then none else some (min p w.s.len))) ∧
      spec id (npos c) w op = .ok (abs w.s, .pos (some (min p (abs w.s).length))) := by
  cases op
  case search fam nd =>
    by_cases h0 : (needleText w nd).length = 0
    · simp only [devCase, if_pos h0] at hk
      cases fam <;> cases nd <;> try (cases hk; done)
      case rfind.ppc a p k =>
        simp only [ArgsOK] at ha
        have hk0 : k = 0 := by
          have : (a.take k).length = 0 := h0
          rw [List.length_take] at this; omega
        subst hk0
        refine ⟨a, p, rfl, ?_, ?_⟩
        · simp only [step, searchStep]; rw [rfindPN_zero hc hw.1 (ha.2 trivial)]; rfl
        · simp only [spec, needleText, needlePos, List.take_zero, std_rfind_empty]
    · exfalso
      simp only [devCase, if_neg h0, countCase] at hk
      repeat' (split at hk)
      all_goals (cases hk)
  all_goals dev_other

/-! ### backward searches with an explicit position at or behind the end -/

/-- the needle with the position replaced by the default / `npos` -/
def Needle.atNpos (big : Nat) : Needle → Needle
  | .f _ => .f none
  | .s d _ => .s d none
  | .ppc a _ n => .ppc a big n
  | .pp a _ => .pp a none
  | .c ch _ => .c ch none

theorem bb_notOk {big n : Nat} {p : Option Nat} (h : ¬ backPosOk big n p = true) : p.getD big ≠ big ∧ n ≤ p.getD big := by
  unfold backPosOk at h
  simp only [Bool.or_eq_true, beq_iff_eq, decide_eq_true_eq, not_or] at h
  omega

theorem bb_nul_ne (b : Bool) :
    (if b = true then some DevKind.strchrNul else none) ≠ some DevKind.backwardBeyondEnd := by cases b <;> simp

theorem dev_step_backwardBeyondEnd (hc : CfgOK c) (hw : WFW c cu w) (fam : Fam) (nd : Needle)
    (ha : ArgsOK c w (.search fam nd)) (hsz : needlePos (npos c) nd < c.W)
    (hk : devCase (npos c) w (.search fam nd) = some .backwardBeyondEnd) :
    step c cu w (.search fam nd) = .ok (w, .pos none) ∧ (abs w.s).length ≤ needlePos (npos c) nd ∧
    spec id (npos c) w (.search fam nd) = spec id (npos c) w (.search fam (nd.atNpos (npos c))) := by
  have hl := abs_length hw.1
  have hW := hc.hW
  have hL := hw.1.2.1
  have hbig : (abs w.s).length ≤ npos c := by rw [hl]; unfold npos; omega
  by_cases h0 : (needleText w nd).length = 0
  · exfalso
    simp only [devCase, if_pos h0] at hk
    cases fam <;> cases nd <;> cases hk
  · simp only [devCase, if_neg h0] at hk
    -- the facts common to all live cases
    have key : ∀ (pos : Nat), (abs w.s).length ≤ pos → pos < c.W → (pos ≠ npos c ∨ ∃ a n, nd = .ppc a pos n) →
        needlePos (npos c) nd = pos →
        (fam = .rfind → ∃ ch p, nd = .c ch p) → fam ≠ .find → fam ≠ .ffo → fam ≠ .ffno →
        step c cu w (.search fam nd) = .ok (w, .pos none) ∧ (abs w.s).length ≤ needlePos (npos c) nd ∧
        spec id (npos c) w (.search fam nd) = spec id (npos c) w (.search fam (nd.atNpos (npos c))) := by
      intro pos hp hlt hne hnp hrf hf1 hf2 hf3
      rw [hl] at hp
      refine ⟨?_, by rw [hnp, hl]; exact hp, ?_⟩
      · -- the code
        simp only [step]
        cases fam
        case find => exact absurd rfl hf1
        case ffo => exact absurd rfl hf2
        case ffno => exact absurd rfl hf3
        case rfind =>
          obtain ⟨ch, p, rfl⟩ := hrf rfl
          have hn : pos < npos c := by
            rcases hne with h | ⟨a, n, h⟩
            · unfold npos at h ⊢; omega
            · cases h
          simp only [needlePos] at hnp
          simp only [searchStep, hnp]
          rw [(dev_backward_beyond hc w.s [] ch pos 0 false hp hn).1]; rfl
        all_goals (
          cases nd
          case ppc a p n =>
            simp only [needlePos] at hnp; subst hnp
            simp only [searchStep]
            rw [show findLastOfPN w.s a p n _ = .ok none from by unfold findLastOfPN; rw [if_pos (Or.inl hp)]]; rfl
          all_goals (
            have hn : pos < npos c := by
              rcases hne with h | ⟨a, n, h⟩
              · unfold npos at h ⊢; omega
              · cases h
            simp only [needlePos] at hnp
            simp only [searchStep, hnp]))
        all_goals first
          | (rw [(dev_backward_beyond hc w.s _ 0 pos _ _ hp hn).2.2.1]; rfl)
          | (rw [(dev_backward_beyond hc w.s [] _ pos 0 _ hp hn).2.1]; rfl)
          | (obtain ⟨k0, hk0, _⟩ := dev_count_len (show (0 : Byte) ∈ _ from ha)
             rw [hk0, bindR_ok, (dev_backward_beyond hc w.s _ 0 pos _ _ hp hn).2.2.1]; rfl)
      · -- the textbook clamps
        have hx : (abs w.s).length ≤ pos := by rw [hl]; exact hp
        have hT : needleText w (nd.atNpos (npos c)) = needleText w nd := by cases nd <;> rfl
        have hP : needlePos (npos c) (nd.atNpos (npos c)) = npos c := by cases nd <;> rfl
        cases fam
        case find => exact absurd rfl hf1
        case ffo => exact absurd rfl hf2
        case ffno => exact absurd rfl hf3
        case rfind =>
          simp only [spec, hT, hP, hnp]
          rw [std_rfind_beyond (abs w.s) _ pos (npos c) hx hbig]
        case flo =>
          simp only [spec, hT, hP, hnp, StdString.findLastOf]
          rw [std_findLast_beyond (abs w.s) _ pos (npos c) (by omega) (by omega)]
        case flno =>
          simp only [spec, hT, hP, hnp, StdString.findLastNotOf]
          rw [std_findLast_beyond (abs w.s) _ pos (npos c) (by omega) (by omega)]
    cases fam
    case find => cases hk
    case ffo => exact absurd hk (bb_nul_ne _)
    case ffno => exact absurd hk (bb_nul_ne _)
    case rfind =>
      cases nd
      case c ch p =>
        simp only [] at hk
        split at hk
        · cases hk
        · rename_i hb
          obtain ⟨h1, h2⟩ := bb_notOk hb
          exact key (p.getD (npos c)) h2 hsz (Or.inl h1) rfl (fun _ => ⟨ch, p, rfl⟩) (by simp) (by simp) (by simp)
      case ppc a p n => simp only [countCase] at hk; split at hk <;> cases hk
      all_goals (cases hk)
    all_goals (
      cases nd
      case ppc a p n =>
        simp only [] at hk
        split at hk
        · cases hk
        · rename_i hb
          exact key p (by omega) hsz (Or.inr ⟨a, n, rfl⟩) rfl (fun h => by cases h) (by simp) (by simp) (by simp)
      all_goals (
        simp only [] at hk
        split at hk
        · exact absurd hk (bb_nul_ne _)
        · rename_i hb
          obtain ⟨h1, h2⟩ := bb_notOk hb
          exact key _ h2 hsz (Or.inl h1) rfl (fun h => by cases h) (by simp) (by simp) (by simp)))

end CelmaVerif.FixedString
