import CelmaVerif.Lemmas.ArgString
/-
  Memory-safety lemmas for `copyArguments` and the two `ArgString2Array` constructors:
  every `strcpy` fits its `new char[]`, every `argv[i] = …` is inside the `new char*[]`.
-/
namespace CelmaVerif.ArgString
open CelmaVerif

theorem cstr_length_le (s : List Char) : (cstr s).length ≤ s.length := by
  induction s with
  | nil => simp [cstr]
  | cons c s ih =>
    unfold cstr
    split
    · simp
    · simp; exact ih

/-- the C string stored by `strcpy` reads back as the C string of the source -/
theorem cstr_append_nul (w rest : List Char) : cstr (cstr w ++ '\x00' :: rest) = cstr w := by
  induction w with
  | nil => simp [cstr]
  | cons c w ih =>
    by_cases h : c = '\x00'
    · simp [cstr, h]
    · simp [cstr, h]; exact ih

/-- a string without NUL is its own C string -/
theorem cstr_of_no_nul (w : List Char) (h : '\x00' ∉ w) : cstr w = w := by
  induction w with
  | nil => rfl
  | cons c w ih =>
    have hc : c ≠ '\x00' := by intro e; exact h (by simp [e])
    have hw : '\x00' ∉ w := by intro e; exact h (by simp [e])
    simp [cstr, hc, ih hw]

/-- the allocation filled by `new char[ w.length() + 1]` + `strcpy` -/
def slotOf (alloc : Nat) (w : List Char) : Slot :=
  .str (cstr w ++ ['\x00'] ++ List.replicate (alloc - ((cstr w).length + 1)) '\x00')

theorem newStrcpy_ok (alloc : Nat) (w : List Char) (what : String) (h : (cstr w).length + 1 ≤ alloc) :
    newStrcpy alloc w what = .ok (slotOf alloc w) := by
  unfold newStrcpy slotOf
  simp only [List.length_append, List.length_cons, List.length_nil]
  rw [if_pos (by omega)]

theorem slotOf_cstring (alloc : Nat) (w : List Char) : (slotOf alloc w).cstring = some (cstr w) := by
  unfold slotOf Slot.cstring
  simp only [List.append_assoc, List.cons_append, List.nil_append]
  rw [cstr_append_nul]

theorem slotOf_ne_uninit (alloc : Nat) (w : List Char) : (slotOf alloc w != Slot.uninit) = true := by
  unfold slotOf; rfl

theorem take_succ_set {α : Type} (l : List α) (i : Nat) (a : α) (h : i < l.length) :
    (l.set i a).take (i + 1) = l.take i ++ [a] := by
  induction l generalizing i with
  | nil => simp at h
  | cons x l ih =>
    cases i with
    | zero => simp
    | succ i => simp at h ⊢; exact ih i h

theorem take_set_self {α : Type} (l : List α) (i : Nat) (a : α) : (l.set i a).take i = l.take i := by
  induction l generalizing i with
  | nil => simp
  | cons x l ih =>
    cases i with
    | zero => simp
    | succ i => simp; exact ih i

/-- `copyArguments` with room for all words and the terminator: no out-of-bounds write, the
    slots before `argc` are untouched, one exactly fitting copy per word, then the null pointer -/
theorem copyArguments_ok (args : List (List Char)) :
    ∀ (argc : Nat) (argv : List Slot), argc + args.length < argv.length →
      ∃ a, copyArguments argc argv args = .ok a ∧ a.argc = argc + args.length ∧
        a.argv.length = argv.length ∧
        a.argv.take a.argc = argv.take argc ++ args.map (fun w => slotOf (w.length + 1) w) ∧
        a.argv[a.argc]? = some Slot.null := by
  induction args with
  | nil =>
    intro argc argv h
    simp at h
    refine ⟨⟨argc, argv.set argc .null⟩, ?_, by simp, by simp, ?_, ?_⟩
    · simp [copyArguments, setSlot, h]
    · simp [take_set_self]
    · simp [h]
  | cons w rest ih =>
    intro argc argv h
    simp only [List.length_cons] at h
    have hlt : argc < argv.length := by omega
    have hc := cstr_length_le w
    obtain ⟨a, h1, h2, h3, h4, h5⟩ := ih (argc + 1) (argv.set argc (slotOf (w.length + 1) w))
      (by simp; omega)
    refine ⟨a, ?_, by rw [h2]; simp; omega, by rw [h3]; simp, ?_, h5⟩
    · simp only [copyArguments]
      rw [newStrcpy_ok _ _ _ (by omega)]
      simp only [Res.bind_ok, setSlot, if_pos hlt]
      exact h1
    · rw [h4, take_succ_set _ _ _ hlt]; simp

/-- common tail of the two-argument constructor: program-name slot, then the words -/
theorem ctor2_tail (args : List (List Char)) (p0 : Slot) :
    ∃ a, (do let argv ← setSlot (List.replicate (args.length + 2) Slot.uninit) 0 p0 "ctor: mpArgV[0]"
             copyArguments 1 argv args) = Res.ok a ∧
      a.argc = args.length + 1 ∧ a.argv.length = args.length + 2 ∧
      a.argv.take a.argc = p0 :: args.map (fun w => slotOf (w.length + 1) w) ∧
      a.argv[a.argc]? = some Slot.null := by
  obtain ⟨a, h1, h2, h3, h4, h5⟩ :=
    copyArguments_ok args 1 ((List.replicate (args.length + 2) Slot.uninit).set 0 p0) (by simp; omega)
  simp only [List.length_set, List.length_replicate] at h3
  have ht : ((List.replicate (args.length + 2) Slot.uninit).set 0 p0).take 1 = [p0] := by
    rw [List.replicate_succ]; simp
  rw [ht] at h4
  refine ⟨a, ?_, by omega, h3, by simpa using h4, h5⟩
  simp only [setSlot, List.length_replicate]
  rw [if_pos (by omega)]
  exact h1

/-- a missing slot makes the model report the overflow (the allocation sizes matter) -/
theorem copyArguments_oob_of_short (args : List (List Char)) :
    ∀ (argc : Nat) (argv : List Slot), argv.length ≤ argc + args.length →
      ∃ w, copyArguments argc argv args = .oob w := by
  induction args with
  | nil =>
    intro argc argv h
    simp at h
    refine ⟨"copyArguments: argv[argc] = nullptr", ?_⟩
    simp [copyArguments, setSlot, Nat.not_lt.mpr h]
  | cons w rest ih =>
    intro argc argv h
    simp only [List.length_cons] at h
    have hc := cstr_length_le w
    simp only [copyArguments]
    rw [newStrcpy_ok _ _ _ (by omega)]
    simp only [Res.bind_ok, setSlot]
    by_cases hlt : argc < argv.length
    · rw [if_pos hlt]
      exact ih (argc + 1) _ (by simp; omega)
    · rw [if_neg hlt]; exact ⟨_, rfl⟩

end CelmaVerif.ArgString
