import CelmaVerif.Lemmas.UsageSpec
import CelmaVerif.Props.C17
/-
  Lemmas for C18 (1): reading the model's usage text back.  An entry block (key line + continuation lines)
  parses to one entry; `descCopy`/`entryLines`/`printArguments`/`print` in closed form.
-/
namespace CelmaVerif.Usage
open CelmaVerif.TextBlock

theorem classify_capM : classify captionMandatory = .caption true := by decide
theorem classify_capO : classify captionOptional = .caption false := by decide
theorem classify_nil : classify [] = .other := by decide
theorem classify_usage : classify "Usage:".toList = .other := by decide

theorem capM_head : captionMandatory.head? = some 'M' := by decide
theorem capO_head : captionOptional.head? = some 'O' := by decide

theorem classify_ind (x : Str) (hx : x ≠ []) :
    classify (' ' :: ' ' :: ' ' :: x) =
      if x.head? = some ' ' then .cont else .entry (x.takeWhile (· != ' ')) (x.dropWhile (· != ' ')) := by
  unfold classify
  have h1 : (' ' :: ' ' :: ' ' :: x) ≠ captionMandatory := by
    intro h; have := congrArg List.head? h; rw [capM_head, List.head?_cons] at this; exact absurd this (by decide)
  have h2 : (' ' :: ' ' :: ' ' :: x) ≠ captionOptional := by
    intro h; have := congrArg List.head? h; rw [capO_head, List.head?_cons] at this; exact absurd this (by decide)
  rw [if_neg h1, if_neg h2]
  simp [hx]


/-! ### reading entry blocks -/

def IsContLine (l : Str) : Prop := ∃ t, l = ' ' :: ' ' :: ' ' :: ' ' :: t

theorem classify_cont {l : Str} (h : IsContLine l) : classify l = .cont := by
  obtain ⟨t, rfl⟩ := h
  rw [classify_ind _ (by simp)]
  simp

/-- what follows the key line of an entry: continuation lines, or the one empty line an empty description leaves -/
def TailOK (cs : List Str) : Prop := (∀ l ∈ cs, IsContLine l) ∨ cs = [[]]

def NoContHead (b : List Str) : Prop := ∀ l, b.head? = some l → classify l ≠ .cont

theorem words_nil : words [] = [] := rfl

theorem contWords_noCont (b : List Str) (hb : NoContHead b) : contWords b = [] := by
  cases b with
  | nil => rfl
  | cons l ls =>
    have := hb l rfl
    simp [contWords, this]

theorem contWords_conts (cs b : List Str) (hcs : ∀ l ∈ cs, IsContLine l) (hb : NoContHead b) :
    contWords (cs ++ b) = cs.flatMap words := by
  induction cs with
  | nil => simpa using contWords_noCont b hb
  | cons c cs ih =>
    have hc := classify_cont (hcs c (List.mem_cons_self ..))
    simp only [List.cons_append, contWords, hc, if_true, List.flatMap_cons]
    rw [ih (fun l hl => hcs l (List.mem_cons_of_mem _ hl))]

theorem contWords_tail (cs b : List Str) (hcs : TailOK cs) (hb : NoContHead b) :
    contWords (cs ++ b) = cs.flatMap words := by
  rcases hcs with h | h
  · exact contWords_conts cs b h hb
  · subst h
    simp [contWords, classify_nil, words_nil]

theorem parseFrom_skip (sec : Option Bool) (l : Str) (b : List Str) (h : classify l = .cont ∨ classify l = .other) :
    parseFrom sec (l :: b) = parseFrom sec b := by
  rcases h with h | h <;> simp [parseFrom, h]

theorem parseFrom_tail (sec : Option Bool) (cs b : List Str) (hcs : TailOK cs) :
    parseFrom sec (cs ++ b) = parseFrom sec b := by
  rcases hcs with h | h
  · induction cs with
    | nil => rfl
    | cons c cs ih =>
      rw [List.cons_append, parseFrom_skip _ _ _ (Or.inl (classify_cont (h c (List.mem_cons_self ..))))]
      exact ih (fun l hl => h l (List.mem_cons_of_mem _ hl))
  · subst h
    exact parseFrom_skip _ _ _ (Or.inr classify_nil)

theorem takeWhile_clean (k s : Str) (hk : ∀ c ∈ k, c ≠ ' ') (hs : s = [] ∨ s.head? = some ' ') :
    (k ++ s).takeWhile (· != ' ') = k ∧ (k ++ s).dropWhile (· != ' ') = s := by
  induction k with
  | nil =>
    rcases hs with rfl | hs
    · simp
    · cases s with
      | nil => simp
      | cons x t => simp at hs; subst hs; simp
  | cons c k ih =>
    have hc : c ≠ ' ' := hk c (List.mem_cons_self ..)
    have := ih (fun x hx => hk x (List.mem_cons_of_mem _ hx))
    simp [hc, this.1, this.2]

/-- an entry block followed by something that is not a continuation line parses to one entry -/
theorem parseFrom_block (sec : Option Bool) (k s : Str) (cs b : List Str) (hk : k ≠ [])
    (hkc : ∀ c ∈ k, c ≠ ' ') (hs : s = [] ∨ s.head? = some ' ') (hcs : TailOK cs) (hb : NoContHead b) :
    parseFrom sec ((' ' :: ' ' :: ' ' :: (k ++ s)) :: cs ++ b)
      = ⟨sec, k, words s ++ cs.flatMap words⟩ :: parseFrom sec b := by
  have hne : k ++ s ≠ [] := by simp [hk]
  have hh : (k ++ s).head? ≠ some ' ' := by
    cases k with
    | nil => exact absurd rfl hk
    | cons c k => simpa using hkc c (List.mem_cons_self ..)
  have hcl := classify_ind (k ++ s) hne
  rw [if_neg hh, (takeWhile_clean k s hkc hs).1, (takeWhile_clean k s hkc hs).2] at hcl
  rw [List.cons_append, parseFrom, hcl]
  simp only
  rw [contWords_tail cs b hcs hb, parseFrom_tail sec cs b hcs]


/-! ### the lines of one argument -/

/-- `descCopy` when nothing throws: the description followed by the notes -/
def descPure (a : Arg) : Str := a.desc ++ noteText a

theorem descCopy_eq (a : Arg) :
    descCopy a = if defaultMissing a then .throw .runtime_error else .ok (descPure a) := by
  unfold descCopy defaultMissing descPure noteText defaultNote checkNote constraintNote deprecatedNote hiddenNote
    Arg.isReplaced
  cases a.mandatory <;> cases a.printDefault <;> cases hd : a.defaultText <;> cases a.deprecated <;> cases a.hidden <;>
    by_cases hc : a.checks = [] <;> by_cases hn : a.constraints = [] <;> by_cases hr : a.replacedBy = [] <;>
    simp [hc, hn, hr, List.append_assoc]

def entryPure (u : UsageParams) (lineLen : Nat) (sameLine : Bool) (maxLen : Nat) (a : Arg) : List Str :=
  if sameLine then
    emit (indention ++ padRight maxLen (keyStr u.contents a.key) ++ indention)
      (TextBlock.format ⟨2 * IndentLength + maxLen, lineLen, false⟩ (descPure a))
  else
    (indention ++ keyStr u.contents a.key) :: emit [] (TextBlock.format ⟨2 * IndentLength, lineLen, true⟩ (descPure a))

theorem entryLines_eq (u : UsageParams) (ll : Nat) (sl : Bool) (ml : Nat) (a : Arg) :
    entryLines u ll sl ml a = if defaultMissing a then .throw .runtime_error else .ok (entryPure u ll sl ml a) := by
  unfold entryLines entryPure
  rw [descCopy_eq]
  by_cases h : defaultMissing a = true <;> cases sl <;> simp [h]

theorem keyStr_eq_shown (u : UsageParams) (a : Arg) : keyStr u.contents a.key = shownKey u a := by
  unfold keyStr shownKey keyToString
  cases u.contents <;> cases hs : a.key.short <;> cases hl : a.key.long <;> simp

theorem shownKey_ne_nil (u : UsageParams) (a : Arg) : shownKey u a ≠ [] := by
  unfold shownKey
  cases u.contents <;> cases a.key.short <;> simp <;> split <;> simp

theorem shownKey_clean (u : UsageParams) (a : Arg) (hk : KeyClean a.key) : ∀ c ∈ shownKey u a, c ≠ ' ' := by
  obtain ⟨h1, h2⟩ := hk
  unfold shownKey
  intro c hc
  cases hu : u.contents <;> rw [hu] at hc <;> simp only at hc
  · cases hs : a.key.short with
    | none =>
      rw [hs] at hc
      simp at hc
      rcases hc with rfl | hc
      · decide
      · exact h2 c hc
    | some x =>
      rw [hs] at hc
      simp only at hc
      split at hc
      · simp at hc
        rcases hc with rfl | rfl
        · decide
        · exact h1 _ hs
      · simp at hc
        rcases hc with rfl | rfl | rfl | rfl | hc
        · decide
        · exact h1 _ hs
        · decide
        · decide
        · exact h2 c hc
  · simp at hc
    rcases hc with rfl | rfl
    · decide
    · cases hs : a.key.short with
      | none => simp
      | some x => simpa using h1 _ hs
  · simp at hc
    rcases hc with rfl | hc
    · decide
    · exact h2 c hc


theorem isContLine_of_ind (n : Nat) (hn : 4 ≤ n) (l : Str) (h : List.replicate n ' ' <+: l) : IsContLine l := by
  obtain ⟨t, rfl⟩ := h
  obtain ⟨m, rfl⟩ : ∃ m, n = m + 4 := ⟨n - 4, by omega⟩
  exact ⟨List.replicate m ' ' ++ t, by simp [List.replicate_succ]⟩

theorem blanks_words (b s : Str) (hb : ∀ x ∈ b, x = ' ') : words (b ++ s) = words s := by
  unfold words
  exact tokP_seps_append b (fun x hx => by rw [hb x hx]; rfl) s

theorem pad_head (n : Nat) (t : Str) : (List.replicate n ' ' ++ ' ' :: t).head? = some ' ' := by
  cases n <;> simp [List.replicate_succ]

/-- the lines of one argument: a key line `"   " ++ key ++ s` followed by continuation lines, carrying
    exactly the words of description and notes -/
theorem entryPure_shape (u : UsageParams) (ll : Nat) (sl : Bool) (ml : Nat) (a : Arg) :
    ∃ s cs, entryPure u ll sl ml a = (' ' :: ' ' :: ' ' :: (shownKey u a ++ s)) :: cs
      ∧ (s = [] ∨ s.head? = some ' ') ∧ TailOK cs
      ∧ words s ++ cs.flatMap words = (words (descPure a)).filter (fun w => decide (w ≠ nn)) := by
  unfold entryPure
  rw [keyStr_eq_shown]
  cases sl with
  | true =>
    simp only [if_true]
    have hw := Props.C17.C17_words_lines ⟨2 * IndentLength + ml, ll, false⟩ (descPure a)
    cases hf : TextBlock.format ⟨2 * IndentLength + ml, ll, false⟩ (descPure a) with
    | nil =>
      rw [hf] at hw
      refine ⟨List.replicate (ml - (shownKey u a).length) ' ' ++ indention, [], ?_, Or.inr (pad_head _ _), Or.inl (by simp), ?_⟩
      · simp [emit, indention, padRight, IndentLength, List.replicate_succ]
      · rw [← hw]
        simp only [List.flatMap_nil, List.append_nil]
        have := blanks_words (List.replicate (ml - (shownKey u a).length) ' ' ++ indention) [] (by
          intro x hx; simp [indention, IndentLength, List.replicate_succ] at hx; rcases hx with ⟨_, rfl⟩ | rfl <;> rfl)
        simpa [words_nil] using this
    | cons l0 rest =>
      rw [hf] at hw
      have hi := (Props.C17.C17_indent _ _ l0 rest hf).1
      refine ⟨List.replicate (ml - (shownKey u a).length) ' ' ++ indention ++ l0, rest, ?_, Or.inr ?_, Or.inl ?_, ?_⟩
      · simp [emit, indention, padRight, IndentLength, List.replicate_succ]
      · simpa [indention, IndentLength, List.replicate_succ] using pad_head (ml - (shownKey u a).length) (' ' :: ' ' :: l0)
      · intro l hl
        exact isContLine_of_ind (2 * IndentLength + ml) (by simp [IndentLength]; omega) l (hi l hl)
      · rw [← hw, List.flatMap_cons]
        congr 1
        exact blanks_words (List.replicate (ml - (shownKey u a).length) ' ' ++ indention) l0 (by
          intro x hx; simp [indention, IndentLength, List.replicate_succ] at hx; rcases hx with ⟨_, rfl⟩ | rfl <;> rfl)
  | false =>
    simp only [Bool.false_eq_true, if_false]
    have hw := Props.C17.C17_words_lines ⟨2 * IndentLength, ll, true⟩ (descPure a)
    cases hf : TextBlock.format ⟨2 * IndentLength, ll, true⟩ (descPure a) with
    | nil =>
      rw [hf] at hw
      refine ⟨[], [[]], ?_, Or.inl rfl, Or.inr rfl, ?_⟩
      · simp [emit, indention, IndentLength, List.replicate_succ]
      · rw [← hw]; simp [words_nil]
    | cons l0 rest =>
      rw [hf] at hw
      have hi := Props.C17.C17_indent _ _ l0 rest hf
      refine ⟨[], l0 :: rest, ?_, Or.inl rfl, Or.inl ?_, ?_⟩
      · simp [emit, indention, IndentLength, List.replicate_succ]
      · intro l hl
        rcases List.mem_cons.mp hl with rfl | hl
        · exact isContLine_of_ind (2 * IndentLength) (by simp [IndentLength]) _ (hi.2.1 rfl)
        · exact isContLine_of_ind (2 * IndentLength) (by simp [IndentLength]) _ (hi.1 l hl)
      · rw [← hw]; simp [words_nil]


/-! ### a pass over the arguments -/

theorem printArguments_eq (u : UsageParams) (ll : Nat) (pim : Bool) (pm : Nat) (sl : Bool) (ml : Nat) :
    ∀ (args : List Arg) (cnt : Nat),
      printArguments u ll pim pm sl ml args cnt =
        if (args.filter (doPrint u pim)).any defaultMissing then .throw .runtime_error
        else .ok ((if cnt = 0 ∧ args.filter (doPrint u pim) ≠ [] then captionLines pim pm else [])
                    ++ (args.filter (doPrint u pim)).flatMap (entryPure u ll sl ml),
                  cnt + (args.filter (doPrint u pim)).length) := by
  intro args
  induction args with
  | nil => intro cnt; simp [printArguments]
  | cons a as ih =>
    intro cnt
    rw [printArguments]
    by_cases hp : doPrint u pim a = true
    · rw [if_neg (by simp [hp]), entryLines_eq, List.filter_cons_of_pos hp]
      by_cases hm : defaultMissing a = true
      · simp [hm]
      · rw [if_neg hm]
        simp only
        rw [ih (cnt + 1)]
        by_cases hany : ((as.filter (doPrint u pim)).any defaultMissing) = true
        · simp [hany]
        · have hm' : defaultMissing a = false := by simpa using hm
          rw [if_neg hany]
          simp only [List.any_cons, hm', Bool.false_or]
          rw [if_neg hany]
          simp [Nat.add_comm, Nat.add_assoc]
    · have hp' : doPrint u pim a = false := by simpa using hp
      rw [if_pos (by simp [hp']), List.filter_cons_of_neg (by simp [hp'])]
      exact ih cnt

theorem print_eq (args : List Arg) (ll : Nat) (u : UsageParams) :
    print args ll u =
      if (args.filter (doPrint u true)).any defaultMissing then .throw .runtime_error
      else if (args.filter (doPrint u false)).any defaultMissing then .throw .runtime_error
      else .ok (((if args.filter (doPrint u true) ≠ [] then captionLines true 0 else [])
                  ++ (args.filter (doPrint u true)).flatMap
                      (entryPure u ll (decide (maxLength u args < MaxNameLength)) (maxLength u args)))
                ++ ((if args.filter (doPrint u false) ≠ [] then captionLines false (args.filter (doPrint u true)).length else [])
                  ++ (args.filter (doPrint u false)).flatMap
                      (entryPure u ll (decide (maxLength u args < MaxNameLength)) (maxLength u args)))) := by
  unfold print
  simp only [printArguments_eq]
  by_cases h1 : ((args.filter (doPrint u true)).any defaultMissing) = true
  · simp [h1]
  · rw [if_neg h1, if_neg h1]
    simp only
    by_cases h2 : ((args.filter (doPrint u false)).any defaultMissing) = true
    · simp [h2]
    · rw [if_neg h2, if_neg h2]
      simp

end CelmaVerif.Usage
