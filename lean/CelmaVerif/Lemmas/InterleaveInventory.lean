import CelmaVerif.Lemmas.Interleave
import CelmaVerif.Generated.HandlerSharedState
/-
  The regenerated inventory of process-wide mutable objects (Generated/HandlerSharedState.lean)
  against the list of justified entries, and the handler instance of the interleaving model.
-/
namespace CelmaVerif.Interleave

open CelmaVerif.Generated.HandlerSharedState

/-- why an inventory entry may stay.  Every constant is an *assumption about the threads in the
property's quantifier*; `Justification.Holds` states it, and the isolation theorem takes it as
an explicit hypothesis. -/
inductive Justification where
  /-- the static data members of `common::Singleton<T>` (singleton.hpp).  The only instantiation
  in the handler's reach is `Singleton<Groups>`; `Groups::instance()` is called only from a
  handler created with `hfInGroup` (by `Groups` itself), from `Handler::usage()` /
  `--list-arg-groups`, from `evalArgumentString( "…")` without a handler and from
  `addStandardArgument`.  Threads of the quantifier build plain handlers and do none of these.
  (The singleton's own thread safety is property C20.) -/
  | singletonOnlyThroughGroups
  /-- `std::cout` / `std::cerr`: the reach only *binds* them as default stream references
  (constructor defaults); they are written to by usage / summary / verbose output, which the
  threads of the quantifier do not request.  In addition [iostream.objects.overview]/5:
  concurrent access to a synchronized standard stream object does not cause a data race. -/
  | standardStreamOnlyBound
deriving DecidableEq, Repr

def justifyStatic (e : Entry) : Option Justification :=
  if e.file == "celma/common/singleton.hpp" && e.kind == "class-static" then some .singletonOnlyThroughGroups
  else none

def justifyExternal (x : External) : Option Justification :=
  if x.name == "cout" || x.name == "cerr" then some .standardStreamOnlyBound
  else none

/-- entries of the inventory without a justification: must be empty -/
def unjustifiedStatics : List Entry := mutableStatics.filter fun e => (justifyStatic e).isNone

def unjustifiedExternals : List External := externalStatics.filter fun x => (justifyExternal x).isNone

/-- what a justification asserts about concrete thread programs: no thread touches a cell that
stands for an inventory entry carrying this justification -/
def Justification.Holds {n : Nat} (j : Justification) (progs : Fin n → Prog HCell HVal) : Prop :=
  (∀ i e (h : e < mutableStatics.length), justifyStatic (mutableStatics[e]) = some j →
      ∀ w, ¬ (progs i).Footprint (.static e) w) ∧
  (∀ i x (h : x < externalStatics.length), justifyExternal (externalStatics[x]) = some j →
      ∀ w, ¬ (progs i).Footprint (.ext x) w)

/-- the closed-world assumption about C++ code, for thread `i`: a step reaches only objects of
its own thread (handler, argument objects, destination variables, its command line, temporaries
on its stack / heap) or objects with static storage duration, and the mutable ones among the
latter are exactly the inventory -/
def ClosedWorld {n : Nat} (i : Fin n) (p : Prog HCell HVal) : Prop :=
  ∀ c w, p.Footprint c w →
    (∃ k, c = .dest i.val k) ∨ (∃ k, c = .sepv i.val k) ∨ c = .tmp i.val ∨ (∃ j, c = .argv i.val j) ∨
    (∃ e, c = .static e ∧ e < mutableStatics.length) ∨ (∃ x, c = .ext x ∧ x < externalStatics.length)

theorem handlerOwner_dest {n : Nat} (i : Fin n) (k : Nat) : handlerOwner n (.dest i.val k) = .thread i := by
  show (if h : i.val < n then Owner.thread ⟨i.val, h⟩ else Owner.sharedMutable) = Owner.thread i
  rw [dif_pos i.isLt]

theorem handlerOwner_sepv {n : Nat} (i : Fin n) (k : Nat) : handlerOwner n (.sepv i.val k) = .thread i := by
  show (if h : i.val < n then Owner.thread ⟨i.val, h⟩ else Owner.sharedMutable) = Owner.thread i
  rw [dif_pos i.isLt]

theorem handlerOwner_tmp {n : Nat} (i : Fin n) : handlerOwner n (.tmp i.val) = .thread i := by
  show (if h : i.val < n then Owner.thread ⟨i.val, h⟩ else Owner.sharedMutable) = Owner.thread i
  rw [dif_pos i.isLt]

theorem handlerOwner_argv {n : Nat} (i : Fin n) (j : Nat) : handlerOwner n (.argv i.val j) = .thread i := by
  show (if h : i.val < n then Owner.thread ⟨i.val, h⟩ else Owner.sharedMutable) = Owner.thread i
  rw [dif_pos i.isLt]

/-- closed world + clean inventory + the justifications' assumptions ⇒ the footprint condition -/
theorem local_of_closedWorld {n : Nat} (progs : Fin n → Prog HCell HVal)
    (hs : ∀ e ∈ mutableStatics, (justifyStatic e).isSome = true)
    (hx : ∀ x ∈ externalStatics, (justifyExternal x).isSome = true)
    (hworld : ∀ i, ClosedWorld i (progs i))
    (hj : ∀ j : Justification, j.Holds progs) :
    ∀ i, (progs i).Local (handlerOwner n) i := by
  intro i
  apply local_of_footprint
  intro c w hf
  have own : handlerOwner n c = .thread i → (w = true → handlerOwner n c = .thread i) ∧ (w = false → Vis (handlerOwner n) i c) :=
    fun h => ⟨fun _ => h, fun _ => Or.inl h⟩
  rcases hworld i c w hf with ⟨k, rfl⟩ | ⟨k, rfl⟩ | rfl | ⟨j, rfl⟩ | ⟨e, rfl, he⟩ | ⟨x, rfl, hxl⟩
  · exact own (handlerOwner_dest i k)
  · exact own (handlerOwner_sepv i k)
  · exact own (handlerOwner_tmp i)
  · exact own (handlerOwner_argv i j)
  · exfalso
    have hsome := hs _ (List.getElem_mem he)
    cases hjj : justifyStatic (mutableStatics[e]) with
    | none => rw [hjj] at hsome; cases hsome
    | some j => exact (hj j).1 i e he hjj w hf
  · exfalso
    have hsome := hx _ (List.getElem_mem hxl)
    cases hjj : justifyExternal (externalStatics[x]) with
    | none => rw [hjj] at hsome; cases hsome
    | some j => exact (hj j).2 i x hxl hjj w hf

/-! ### the thread programs of the line protocol (fixed code) are local -/

theorem ofList_local {n : Nat} (owner : HCell → Owner n) (i : Fin n)
    (l : List (List HCell × List HCell × (List HVal → List HVal)))
    (h : ∀ s ∈ l, (∀ c ∈ s.1, Vis owner i c) ∧ (∀ c ∈ s.2.1, owner c = .thread i)) :
    (Prog.ofList l).Local owner i := by
  induction l with
  | nil => trivial
  | cons s l ih =>
    obtain ⟨rs, ws, f⟩ := s
    have hs := h (rs, ws, f) List.mem_cons_self
    exact ⟨hs.1, hs.2, fun _ => ih (fun s hm => h s (List.mem_cons_of_mem _ hm))⟩

theorem go_fixed_local {n : Nat} (i : Fin n) (uses : List (Nat × List Char)) (j : Nat) :
    ∀ s ∈ Job.prog.go true i.val uses j,
      (∀ c ∈ s.1, Vis (handlerOwner n) i c) ∧ (∀ c ∈ s.2.1, handlerOwner n c = .thread i) := by
  induction uses generalizing j with
  | nil => intro s hs; cases hs
  | cons u rest ih =>
    obtain ⟨k, w⟩ := u
    intro s hs
    unfold Job.prog.go at hs
    rw [if_pos rfl] at hs
    rcases List.mem_append.mp hs with h1 | h2
    · unfold assignFixed at h1
      cases h1 with
      | head =>
        refine ⟨fun c hc => ?_, fun c hc => ?_⟩
        · rcases hc with _ | ⟨_, hc⟩
          · exact Or.inl (handlerOwner_sepv i k)
          · rcases hc with _ | ⟨_, hc⟩
            · exact Or.inl (handlerOwner_argv i j)
            · rcases hc with _ | ⟨_, hc⟩
              · exact Or.inl (handlerOwner_dest i k)
              · cases hc
        · rcases hc with _ | ⟨_, hc⟩
          · exact handlerOwner_dest i k
          · cases hc
      | tail _ h => cases h
    · exact ih (j + 1) s h2

/-- the job of a thread, as the code is after the fix, satisfies the footprint condition -/
theorem jobProg_local {n : Nat} (i : Fin n) (jb : Job) : (jb.prog true i.val).Local (handlerOwner n) i := by
  unfold Job.prog
  exact ofList_local _ i _ (go_fixed_local i jb.uses 0)

end CelmaVerif.Interleave
