import CelmaVerif.Lemmas.SubGroupsSafe
import CelmaVerif.Lemmas.SubGroupsEnd
import CelmaVerif.Lemmas.GroupsNormal
/-
  A mandatory sub-group argument that does not occur on the command line is refused — from the
  state `TCfg.initState` creates, for every configuration and argv (no sampling): the invariant
  "`mWasCalled` of sub-group argument `j` is still false" is kept by every element that the lookup
  over both containers (`findSub`) does not resolve to `j`, for the single handler and for every
  member of a group.

  `Reach argv` — the cursors an evaluation can hold: `begin()` and every `operator++`, also on the
  copy flagged "the rest of the word is the value"; `Hits cfg j ai` — the element under the cursor
  is a key that `findSub` resolves to sub-group argument `j`.
-/
namespace CelmaVerif.ProgArgs
open CelmaVerif CelmaVerif.Keys

/-- the cursors an evaluation of `argv` can hold: `ArgListParser::begin()`, and `operator++` from
    such a cursor — plain, or on the copy with `mRemainingArgumentStringAsValue` set (what a handler
    does for an argument with a mandatory value).  The elements of these cursors are "the elements
    of argv". -/
inductive Reach (argv : List Word) : It → Prop
  | begin {it : It} : It.begin argv = .ok it → Reach argv it
  | step {it it' : It} : Reach argv it → it.step = .ok it' → Reach argv it'
  | stepRem {it it' : It} : Reach argv it → ({ it with remAsValue := true } : It).step = .ok it' → Reach argv it'

/-- the key the handler looks up for the element under the cursor (`evalSingleArgument`): the
    character of a `-c` element, `wordKey` of the name of a `--name` element; nothing for values and
    control characters -/
def elemKey (ai : It) : Option (Res Key) :=
  match ai.cur.ty with
  | .singleCharArg => some (.ok (Key.ofChar ai.cur.ch))
  | .stringArg => some (wordKey ai.cur.str)
  | _ => none

/-- the element under the cursor is a key that the lookup of `Handler::processArg` over both
    containers of `cfg` resolves to sub-group argument `j` -/
def Hits (cfg : TCfg) (j : Nat) (ai : It) : Prop :=
  ∃ k d, elemKey ai = some (.ok k) ∧ findSub cfg.main.abbr cfg.subTable cfg.main.table k = .ok (some (j, d))

/-- sub-group argument `j` exists in the state and was not used yet (`mWasCalled == false`) -/
def NotUsed (j : Nat) (t : TState) : Prop := ∃ st, t.subArgs[j]? = some st ∧ st.hasValueSet = false

/-! ### the cursor handed back is a reachable one -/

theorem valueFor_reach {argv : List Word} {d : ArgDef} {ai : It} (hp : Reach argv ai) {x : Word × It}
    (h : valueFor d ai = .ok x) : Reach argv x.2 := by
  unfold valueFor at h
  split at h
  · cases h; exact hp
  · rw [bind_eq_ok_g] at h
    obtain ⟨ait2, hs, h⟩ := h
    have h2 : Reach argv ait2 := by
      split at hs
      · exact .stepRem hp hs
      · exact .step hp hs
    split at h
    · split at h
      · cases h; exact hp
      · cases h
    · cases h; exact h2

theorem processArg_reach {argv : List Word} {c : Cfg} {h h' : HState} {k : Key} {ai ai' : It} {r : ArgResult}
    (hp : Reach argv ai) (hk : processArg c h k ai = .ok (h', ai', r)) : Reach argv ai' := by
  cases hf : findArg c.abbr c.table k with
  | ok f =>
    cases f with
    | none =>
      rw [processArg_unknown c h k ai hf] at hk
      cases hk
      exact hp
    | some p =>
      rw [processArg_found_eq c h k ai p.1 p.2 hf] at hk
      simp only [bind_eq_ok_g] at hk
      obtain ⟨x, hx, _, _, hk⟩ := hk
      cases hk
      exact valueFor_reach hp hx
  | throw e => unfold processArg at hk; rw [hf] at hk; cases hk
  | oob w => unfold processArg at hk; rw [hf] at hk; cases hk

theorem evalSingleArgument_reach {argv : List Word} {c : Cfg} {h h' : HState} {ai ai' : It} {r : ArgResult}
    (hp : Reach argv ai) (he : evalSingleArgument c h ai = .ok (h', ai', r)) : Reach argv ai' := by
  unfold evalSingleArgument at he
  split at he
  · exact processArg_reach hp he
  · rw [bind_eq_ok_g] at he
    obtain ⟨k, _, he⟩ := he
    exact processArg_reach hp he
  · split at he <;> cases he <;> exact hp
  · dsimp only at he
    split at he
    · rw [bind_eq_ok_g] at he
      obtain ⟨_, _, he⟩ := he
      cases he
      exact hp
    · rw [bind_eq_ok_g] at he
      obtain ⟨found, _, he⟩ := he
      cases found with
      | none => cases he; exact hp
      | some p =>
        dsimp only at he
        rw [bind_eq_ok_g] at he
        obtain ⟨_, _, he⟩ := he
        cases he
        exact hp

theorem subLoop_reach {argv : List Word} (sc : Cfg) (fuel : Nat) : ∀ (sh : HState) (ai subAI : It) (sh' : HState) (ai' : It),
    Reach argv ai → Reach argv subAI → subLoop sc fuel sh ai subAI = .ok (sh', ai') → Reach argv ai' := by
  induction fuel with
  | zero => intro sh ai subAI sh' ai' _ _ h; unfold subLoop at h; cases h
  | succ fuel ih =>
    intro sh ai subAI sh' ai' ha hs h
    unfold subLoop at h
    split at h
    · cases h; exact ha
    · rw [bind_eq_ok_g] at h
      obtain ⟨⟨sh1, subAI', r⟩, he, h⟩ := h
      dsimp only at h
      have hr := evalSingleArgument_reach hs he
      split at h
      · rw [bind_eq_ok_g] at h
        obtain ⟨next, hn, h⟩ := h
        exact ih sh1 subAI' next sh' ai' hr (.step hr hn) h
      · cases h; exact ha

/-! ### an element that does not resolve to `j` leaves "not used" alone -/

theorem handleIdentifiedSub_notUsed {cfg : TCfg} {t t' : TState} {j j' : Nat} {d : SubDef} (hne : j' ≠ j)
    (h : handleIdentifiedSub cfg t j' d = .ok t') (hn : NotUsed j t) : NotUsed j t' := by
  unfold handleIdentifiedSub at h
  simp only [bind_eq_ok_g] at h
  obtain ⟨_, _, _, _, _, _, _, _, _, _, h⟩ := h
  cases h
  obtain ⟨st, hs, hv⟩ := hn
  exact ⟨st, by simp only [List.getElem?_set_ne hne]; exact hs, hv⟩

theorem liftMain_ok {α : Type} {t : TState} {r : Res (HState × α)} {t' : TState} {a : α}
    (h : liftMain t r = .ok (t', a)) : ∃ h', r = .ok (h', a) ∧ t' = { t with main := h' } := by
  cases r with
  | ok p => obtain ⟨h', a'⟩ := p; simp only [liftMain, Res.ok.injEq, Prod.mk.injEq] at h; exact ⟨h', by rw [h.2], h.1.symm⟩
  | throw e => cases h
  | oob w => cases h

theorem processArgT_step {argv : List Word} {cfg : TCfg} {t t' : TState} {key : Key} {ai ai' : It} {r : ArgResult}
    {j : Nat} (hno : ∀ d, findSub cfg.main.abbr cfg.subTable cfg.main.table key ≠ .ok (some (j, d)))
    (hp : Reach argv ai) (hn : NotUsed j t) (h : processArgT cfg t key ai = .ok (t', ai', r)) :
    NotUsed j t' ∧ Reach argv ai' := by
  unfold processArgT at h
  rw [bind_eq_ok_g] at h
  obtain ⟨found, hf, h⟩ := h
  cases found with
  | none =>
    obtain ⟨h', hr, rfl⟩ := liftMain_ok h
    exact ⟨hn, processArg_reach hp hr⟩
  | some p =>
    obtain ⟨j', d⟩ := p
    have hne : j' ≠ j := by
      intro e; subst e; exact hno d hf
    dsimp only at h
    simp only [bind_eq_ok_g] at h
    obtain ⟨t1, h1, subAI, hs, ⟨sh, ai1⟩, hl, h⟩ := h
    cases h
    have hn1 := handleIdentifiedSub_notUsed hne h1 hn
    exact ⟨hn1, subLoop_reach _ _ _ _ _ _ _ hp (.step hp hs) hl⟩

theorem evalSingleArgumentT_step {argv : List Word} {cfg : TCfg} {t t' : TState} {ai ai' : It} {r : ArgResult}
    {j : Nat} (hno : ¬ Hits cfg j ai) (hp : Reach argv ai) (hn : NotUsed j t)
    (h : evalSingleArgumentT cfg t ai = .ok (t', ai', r)) : NotUsed j t' ∧ Reach argv ai' := by
  unfold evalSingleArgumentT at h
  split at h
  · rename_i hty
    refine processArgT_step ?_ hp hn h
    intro d hd
    exact hno ⟨_, d, by simp only [elemKey, hty], hd⟩
  · rename_i hty
    rw [bind_eq_ok_g] at h
    obtain ⟨k, hk, h⟩ := h
    refine processArgT_step ?_ hp hn h
    intro d hd
    exact hno ⟨k, d, by simp only [elemKey, hty, hk], hd⟩
  · obtain ⟨h', hr, rfl⟩ := liftMain_ok h
    exact ⟨hn, evalSingleArgument_reach hp hr⟩

theorem iterateLoopT_notUsed {argv : List Word} {cfg : TCfg} {j : Nat}
    (hno : ∀ it, Reach argv it → ¬ Hits cfg j it) (fuel : Nat) : ∀ (t t' : TState) (ai : It),
    Reach argv ai → NotUsed j t → iterateLoopT cfg fuel t ai = .ok t' → NotUsed j t' := by
  induction fuel with
  | zero => intro t t' ai _ _ h; unfold iterateLoopT at h; cases h
  | succ fuel ih =>
    intro t t' ai hp hn h
    unfold iterateLoopT at h
    split at h
    · cases h; exact hn
    · rw [bind_eq_ok_g] at h
      obtain ⟨⟨t1, ai1, r⟩, he, h⟩ := h
      obtain ⟨hn1, hp1⟩ := evalSingleArgumentT_step (hno ai hp) hp hn he
      dsimp only at h
      cases r with
      | unknown => cases h
      | last => cases h; exact hn1
      | consumed =>
        dsimp only at h
        rw [bind_eq_ok_g] at h
        obtain ⟨ai2, hs, h⟩ := h
        exact ih t1 t' ai2 (.step hp1 hs) hn1 h

theorem initState_notUsed (cfg : TCfg) (inits : TInits) (j : Nat) (d : SubDef) (hd : cfg.subs[j]? = some d) :
    NotUsed j (cfg.initState inits) :=
  ⟨{ dest := .flag false }, by simp [TCfg.initState, hd], rfl⟩

theorem memberEndChecksT_notUsed {cfg : TCfg} {t : TState} {j : Nat} {d : SubDef} (hd : cfg.subs[j]? = some d)
    (hm : d.mandatory = true) (hn : NotUsed j t) : memberEndChecksT cfg t ≠ .ok () := by
  intro h
  obtain ⟨st, hs, hv⟩ := hn
  exact checkSub_mandatory_missing cfg.subs t.subArgs j d st hd hs hm hv ((memberEndChecksT_ok_iff cfg t).mp h).2.1

/-- a `Safe` result that is not a value is a std:: exception -/
theorem safe_not_ok {α : Type} {r : Res α} (hs : Safe r) (hno : ∀ a, r ≠ .ok a) : ∃ e, r = .throw e ∧ stdExc e := by
  cases r with
  | ok a => exact absurd rfl (hno a)
  | throw e => exact ⟨e, rfl, hs⟩
  | oob w => exact hs.elim

/-- **stand-alone**: from the initial state, without argument file and environment variable, a
    mandatory sub-group argument to which no element of argv resolves makes `evalArguments` throw -/
theorem evalArgumentsT_mandatory_missing (cfg : TCfg) (inits : TInits) (argv : List Word) (h1 : 1 ≤ argv.length)
    (j : Nat) (d : SubDef) (hd : cfg.subs[j]? = some d) (hm : d.mandatory = true)
    (hno : ∀ it, Reach argv it → ¬ Hits cfg j it) :
    ∃ e, evalArgumentsT cfg (cfg.initState inits) {} argv = .throw e ∧ stdExc e := by
  refine safe_not_ok (evalArgumentsT_safe cfg _ _ argv h1) ?_
  intro t' h
  unfold evalArgumentsT evalFileSourceT evalEnvSourceT at h
  simp only [Res.pure_eq, Res.bind_ok] at h
  rw [bind_eq_ok_g] at h
  obtain ⟨t3, hit, hend⟩ := h
  unfold iterateArgumentsT at hit
  rw [bind_eq_ok_g] at hit
  obtain ⟨ai, hb, hl⟩ := hit
  have hn3 := iterateLoopT_notUsed hno _ _ _ _ (.begin hb) (initState_notUsed cfg inits j d hd) hl
  obtain ⟨_, hc⟩ := (endChecksT_ok_iff cfg t3 t').mp hend
  exact memberEndChecksT_notUsed hd hm hn3 hc

/-! ### through a group -/

/-- every member with configuration `c0` has not used its sub-group argument `j` -/
def MembersNotUsed (c0 : TCfg) (j : Nat) (ms : List (TCfg × TState)) : Prop :=
  ∀ p ∈ ms, p.1 = c0 → NotUsed j p.2

theorem clearLastT_cfgs (ms : List (TCfg × TState)) : (clearLastT ms).map (·.1) = ms.map (·.1) := by
  unfold clearLastT
  rw [List.map_map]
  rfl

theorem clearLastT_notUsed {c0 : TCfg} {j : Nat} {ms : List (TCfg × TState)} (h : MembersNotUsed c0 j ms) :
    MembersNotUsed c0 j (clearLastT ms) := by
  intro p hp hc
  unfold clearLastT at hp
  obtain ⟨q, hq, rfl⟩ := List.mem_map.mp hp
  obtain ⟨c, t⟩ := q
  exact h (c, t) hq hc

theorem offerT_step {argv : List Word} {c0 : TCfg} {j : Nat} (isKey : Bool) : ∀ (ms ms' : List (TCfg × TState))
    (ai ai' : It) (r : ArgResult), ¬ Hits c0 j ai → Reach argv ai → MembersNotUsed c0 j ms →
    offerT isKey ms ai = .ok (ms', ai', r) →
    MembersNotUsed c0 j ms' ∧ Reach argv ai' ∧ ms'.map (·.1) = ms.map (·.1) := by
  intro ms
  induction ms with
  | nil =>
    intro ms' ai ai' r _ hp hn h
    simp only [offerT, Res.ok.injEq, Prod.mk.injEq] at h
    obtain ⟨rfl, rfl, _⟩ := h
    exact ⟨hn, hp, rfl⟩
  | cons m rest ih =>
    intro ms' ai ai' r hno hp hn h
    obtain ⟨c, t⟩ := m
    unfold offerT at h
    rw [bind_eq_ok_g] at h
    obtain ⟨⟨t1, ai1, r1⟩, he, h⟩ := h
    dsimp only at h
    have hrest : MembersNotUsed c0 j rest := fun p hp' hc => hn p (List.mem_cons_of_mem _ hp') hc
    have hhead : c = c0 → NotUsed j t := fun hc => hn (c, t) (List.mem_cons_self) hc
    -- the member's own step: only matters when its configuration is c0
    have hstep : (c = c0 → NotUsed j t1) ∧ Reach argv ai1 := by
      by_cases hc : c = c0
      · subst hc
        obtain ⟨a, b⟩ := evalSingleArgumentT_step hno hp (hhead rfl) he
        exact ⟨fun _ => a, b⟩
      · refine ⟨fun e => absurd e hc, ?_⟩
        -- reachability does not depend on the configuration
        unfold evalSingleArgumentT at he
        split at he
        · unfold processArgT at he
          rw [bind_eq_ok_g] at he
          obtain ⟨found, _, he⟩ := he
          cases found with
          | none => obtain ⟨_, hr, _⟩ := liftMain_ok he; exact processArg_reach hp hr
          | some q =>
            obtain ⟨j', d⟩ := q
            dsimp only at he
            simp only [bind_eq_ok_g] at he
            obtain ⟨_, _, subAI, hs, ⟨sh, ai2⟩, hl, he⟩ := he
            cases he
            exact subLoop_reach _ _ _ _ _ _ _ hp (.step hp hs) hl
        · rw [bind_eq_ok_g] at he
          obtain ⟨k, _, he⟩ := he
          unfold processArgT at he
          rw [bind_eq_ok_g] at he
          obtain ⟨found, _, he⟩ := he
          cases found with
          | none => obtain ⟨_, hr, _⟩ := liftMain_ok he; exact processArg_reach hp hr
          | some q =>
            obtain ⟨j', d⟩ := q
            dsimp only at he
            simp only [bind_eq_ok_g] at he
            obtain ⟨_, _, subAI, hs, ⟨sh, ai2⟩, hl, he⟩ := he
            cases he
            exact subLoop_reach _ _ _ _ _ _ _ hp (.step hp hs) hl
        · obtain ⟨_, hr, _⟩ := liftMain_ok he
          exact evalSingleArgument_reach hp hr
    split at h
    · cases h
      refine ⟨?_, hstep.2, ?_⟩
      · intro p hp' hc
        rcases List.mem_cons.mp hp' with e | e
        · subst e; exact hstep.1 hc
        · split at e
          · exact clearLastT_notUsed hrest p e hc
          · exact hrest p e hc
      · split
        · simp only [List.map_cons, clearLastT_cfgs]
        · rfl
    · rw [bind_eq_ok_g] at h
      obtain ⟨⟨rest', ai2, r2⟩, ho, h⟩ := h
      cases h
      obtain ⟨hn', hp', hc'⟩ := ih rest' ai ai2 r2 hno hp hrest ho
      refine ⟨?_, hp', by simp only [List.map_cons, hc']⟩
      intro p hpm hc
      rcases List.mem_cons.mp hpm with e | e
      · subst e
        obtain ⟨st, hs, hv⟩ := hstep.1 hc
        refine ⟨st, ?_, hv⟩
        dsimp only
        split <;> exact hs
      · exact hn' p e hc

theorem groupsLoopT_notUsed {argv : List Word} {c0 : TCfg} {j : Nat}
    (hno : ∀ it, Reach argv it → ¬ Hits c0 j it) (fuel : Nat) : ∀ (ms ms' : List (TCfg × TState)) (ai : It),
    Reach argv ai → MembersNotUsed c0 j ms → groupsLoopT fuel ms ai = .ok ms' →
    MembersNotUsed c0 j ms' ∧ ms'.map (·.1) = ms.map (·.1) := by
  induction fuel with
  | zero => intro ms ms' ai _ _ h; unfold groupsLoopT at h; cases h
  | succ fuel ih =>
    intro ms ms' ai hp hn h
    unfold groupsLoopT at h
    split at h
    · cases h; exact ⟨hn, rfl⟩
    · rw [bind_eq_ok_g] at h
      obtain ⟨⟨ms1, ai1, r⟩, ho, h⟩ := h
      dsimp only at h
      obtain ⟨hn1, hp1, hc1⟩ := offerT_step _ ms ms1 ai ai1 r (hno ai hp) hp hn ho
      split at h
      · cases h
      · rw [bind_eq_ok_g] at h
        obtain ⟨ai2, hs, h⟩ := h
        obtain ⟨a, b⟩ := ih ms1 ms' ai2 (.step hp1 hs) hn1 h
        exact ⟨a, b.trans hc1⟩

/-- **through a group**: a member (in the registration order) whose sub-group argument `j` is
    mandatory and to which no element of argv resolves in that member makes `Groups::evalArguments`
    throw -/
theorem groupsEvalT_mandatory_missing (cfg : TCfg) (inits : TInits) (am sm gm order : List Nat) (argv : List Word)
    (h1 : 1 ≤ argv.length) (m : Nat) (hmo : m ∈ order) (j : Nat) (d : SubDef)
    (hd : (memberTCfg cfg am sm gm m).subs[j]? = some d) (hm : d.mandatory = true)
    (hno : ∀ it, Reach argv it → ¬ Hits (memberTCfg cfg am sm gm m) j it) :
    ∃ e, groupsEvalT cfg inits am sm gm order argv = .throw e ∧ stdExc e := by
  refine safe_not_ok (groupsEvalT_safe cfg inits am sm gm order argv h1) ?_
  intro ms' h
  unfold groupsEvalT at h
  simp only [bind_eq_ok_g, Res.pure_eq, Res.ok.injEq] at h
  obtain ⟨_, _, ai, hb, ms1, hl, ⟨⟩, hend, rfl⟩ := h
  generalize hc0 : memberTCfg cfg am sm gm m = c0 at hd hno
  have hinit : MembersNotUsed c0 j (order.map (fun m =>
      (memberTCfg cfg am sm gm m, (memberTCfg cfg am sm gm m).initState (memberTInits inits am sm m)))) := by
    intro p hp hc
    obtain ⟨m', _, rfl⟩ := List.mem_map.mp hp
    dsimp only at hc ⊢
    rw [hc]
    exact initState_notUsed c0 _ j d hd
  obtain ⟨hn, hcfg⟩ := groupsLoopT_notUsed hno _ _ _ _ (.begin hb) hinit hl
  -- the member with configuration c0 is still there
  have hmem : c0 ∈ ms1.map (·.1) := by
    rw [hcfg, List.map_map]
    exact List.mem_map.mpr ⟨m, hmo, by simp [hc0]⟩
  obtain ⟨p, hp, hpc⟩ := List.mem_map.mp hmem
  have hchk := (groupsEndChecksT_ok_iff ms1).mp hend p hp
  rw [hpc] at hchk
  exact memberEndChecksT_notUsed hd hm (hn p hp hpc) hchk

/-! ### deciding the hypothesis for a concrete argv -/

/-- `Hits` as a Boolean -/
def hitsB (cfg : TCfg) (j : Nat) (ai : It) : Bool :=
  match elemKey ai with
  | some (.ok k) =>
    (match findSub cfg.main.abbr cfg.subTable cfg.main.table k with
     | .ok (some (j', _)) => j' == j
     | _ => false)
  | _ => false

theorem hits_iff (cfg : TCfg) (j : Nat) (ai : It) : Hits cfg j ai ↔ hitsB cfg j ai = true := by
  unfold Hits hitsB
  constructor
  · rintro ⟨k, d, hk, hf⟩
    rw [hk]; dsimp only; rw [hf]; simp
  · intro h
    cases hk : elemKey ai with
    | none => rw [hk] at h; cases h
    | some rk =>
      rw [hk] at h
      cases rk with
      | ok k =>
        dsimp only at h
        cases hf : findSub cfg.main.abbr cfg.subTable cfg.main.table k with
        | ok o =>
          rw [hf] at h
          cases o with
          | none => cases h
          | some p =>
            obtain ⟨j', d⟩ := p
            have : j' = j := by simpa using h
            subst this
            exact ⟨k, d, rfl, hf⟩
        | throw e => rw [hf] at h; cases h
        | oob w => rw [hf] at h; cases h
      | throw e => cases h
      | oob w => cases h

/-- `r` is not a cursor, or a cursor in `S` -/
def inOk (S : List It) (r : Res It) : Bool :=
  match r with
  | .ok it => S.contains it
  | _ => true

theorem inOk_mem {S : List It} {r : Res It} {it : It} (h : inOk S r = true) (hr : r = .ok it) : it ∈ S := by
  subst hr
  exact List.contains_iff_mem.mp h

/-- the cursors of `argv` lie in every list that contains `begin()` and is closed under both kinds
    of `operator++` (a finite check for a concrete argv) -/
def ReachClosed (argv : List Word) (S : List It) : Prop :=
  (inOk S (It.begin argv) && S.all (fun it => inOk S it.step && inOk S ({ it with remAsValue := true } : It).step)) = true

instance (argv : List Word) (S : List It) : Decidable (ReachClosed argv S) := by
  unfold ReachClosed; infer_instance

theorem reach_subset {argv : List Word} {S : List It} (hS : ReachClosed argv S) : ∀ it, Reach argv it → it ∈ S := by
  unfold ReachClosed at hS
  rw [Bool.and_eq_true, List.all_eq_true] at hS
  intro it h
  induction h with
  | begin hb => exact inOk_mem hS.1 hb
  | step _ hs ih =>
    have := hS.2 _ ih
    rw [Bool.and_eq_true] at this
    exact inOk_mem this.1 hs
  | stepRem _ hs ih =>
    have := hS.2 _ ih
    rw [Bool.and_eq_true] at this
    exact inOk_mem this.2 hs

theorem noHits_of_closed {argv : List Word} {S : List It} (hS : ReachClosed argv S) {cfg : TCfg} {j : Nat}
    (h : ∀ it ∈ S, hitsB cfg j it = false) : ∀ it, Reach argv it → ¬ Hits cfg j it := by
  intro it hr hh
  have := h it (reach_subset hS it hr)
  rw [(hits_iff cfg j it).mp hh] at this
  cases this

/-- the cursors of a concrete argv: `begin()` and `n` rounds of both kinds of `++` -/
def reachList (argv : List Word) : Nat → List It
  | 0 => match It.begin argv with | .ok it => [it] | _ => []
  | n + 1 =>
    let S := reachList argv n
    S ++ S.filterMap (fun it => match it.step with | .ok it' => some it' | _ => none) ++
      S.filterMap (fun it => match ({ it with remAsValue := true } : It).step with | .ok it' => some it' | _ => none)

end CelmaVerif.ProgArgs
