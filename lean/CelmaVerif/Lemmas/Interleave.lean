import CelmaVerif.Model.Interleave
/-
  Frame / non-interference lemmas for the interleaving model (C09).
-/
namespace CelmaVerif.Interleave

set_option linter.unusedSectionVars false

variable {κ V : Type} [DecidableEq κ] {n : Nat}

/-! ### stores -/

theorem done_of_isDone (p : Prog κ V) (h : p.isDone = true) : p = .done := by
  cases p with
  | done => rfl
  | step => cases h

theorem upd_other (σ : Store κ V) (c d : κ) (v : V) (h : d ≠ c) : upd σ c v d = σ d := by
  unfold upd; rw [if_neg h]

theorem assign_frame (ws : List κ) (vs : List V) (σ : Store κ V) (c : κ) (h : c ∉ ws) :
    assign ws vs σ c = σ c := by
  induction ws generalizing vs σ with
  | nil => cases vs <;> rfl
  | cons w ws ih =>
    cases vs with
    | nil => rfl
    | cons v vs =>
      have h1 : c ≠ w := fun e => h (e ▸ List.mem_cons_self)
      have h2 : c ∉ ws := fun m => h (List.mem_cons_of_mem _ m)
      show assign ws vs (upd σ w v) c = σ c
      rw [ih vs (upd σ w v) h2, upd_other σ w c v h1]

/-- the value of a cell after `assign` depends on the old store only through that cell -/
theorem assign_congr (ws : List κ) (vs : List V) (σ τ : Store κ V) (c : κ) (h : σ c = τ c) :
    assign ws vs σ c = assign ws vs τ c := by
  induction ws generalizing vs σ τ with
  | nil => cases vs <;> exact h
  | cons w ws ih =>
    cases vs with
    | nil => exact h
    | cons v vs =>
      show assign ws vs (upd σ w v) c = assign ws vs (upd τ w v) c
      apply ih
      unfold upd
      split
      · rfl
      · exact h

/-! ### agreement on the visible cells -/

/-- two stores agree on everything thread `i` may read -/
def Agree (owner : κ → Owner n) (i : Fin n) (σ τ : Store κ V) : Prop :=
  ∀ c, Vis owner i c → σ c = τ c

theorem Agree.refl (owner : κ → Owner n) (i : Fin n) (σ : Store κ V) : Agree owner i σ σ :=
  fun _ _ => rfl

theorem Agree.trans {owner : κ → Owner n} {i : Fin n} {σ τ υ : Store κ V}
    (h1 : Agree owner i σ τ) (h2 : Agree owner i τ υ) : Agree owner i σ υ :=
  fun c hc => (h1 c hc).trans (h2 c hc)

/-- a local program run from two stores that agree on its visible cells observes the same values
and ends in stores that agree on its visible cells -/
theorem alone_agree (owner : κ → Owner n) (i : Fin n) (p : Prog κ V) :
    p.Local owner i → ∀ (σ τ : Store κ V) (o : List (List V)), Agree owner i σ τ →
      (p.alone σ o).2 = (p.alone τ o).2 ∧ Agree owner i (p.alone σ o).1 (p.alone τ o).1 := by
  induction p with
  | done => intro _ σ τ o h; exact ⟨rfl, h⟩
  | step rs ws f k ih =>
    intro hl σ τ o h
    obtain ⟨hr, _, hk⟩ := hl
    have hmap : rs.map σ = rs.map τ := List.map_congr_left (fun c hc => h c (hr c hc))
    show ((k (rs.map σ)).alone (assign ws (f (rs.map σ)) σ) (rs.map σ :: o)).2
          = ((k (rs.map τ)).alone (assign ws (f (rs.map τ)) τ) (rs.map τ :: o)).2
        ∧ Agree owner i ((k (rs.map σ)).alone (assign ws (f (rs.map σ)) σ) (rs.map σ :: o)).1
          ((k (rs.map τ)).alone (assign ws (f (rs.map τ)) τ) (rs.map τ :: o)).1
    rw [hmap]
    apply ih (rs.map τ) (hk _)
    intro c hc
    exact assign_congr _ _ _ _ _ (h c hc)

/-! ### one step of the machine -/

theorem setAt_same {α : Type} (g : Fin n → α) (i : Fin n) (a : α) : setAt g i a i = a := by
  unfold setAt; rw [if_pos rfl]

theorem setAt_other {α : Type} (g : Fin n → α) (i j : Fin n) (a : α) (h : j ≠ i) : setAt g i a j = g j := by
  unfold setAt; rw [if_neg h]

theorem fire_done (c : Cfg n κ V) (i : Fin n) (h : c.rem i = .done) : c.fire i = c := by
  unfold Cfg.fire; rw [h]

theorem fire_step (c : Cfg n κ V) (i : Fin n) {rs ws f k} (h : c.rem i = .step rs ws f k) :
    c.fire i =
      { store := assign ws (f (rs.map c.store)) c.store
        rem := setAt c.rem i (k (rs.map c.store))
        obs := setAt c.obs i (rs.map c.store :: c.obs i)
        trace := ws.map (fun x => ⟨i, x, true⟩) ++ (rs.map (fun x => ⟨i, x, false⟩) ++ c.trace) } := by
  unfold Cfg.fire; rw [h]

theorem run_nil (c : Cfg n κ V) : c.run [] = c := rfl

theorem run_cons (c : Cfg n κ V) (i : Fin n) (s : List (Fin n)) : c.run (i :: s) = (c.fire i).run s := rfl

theorem run_append (c : Cfg n κ V) (s1 s2 : List (Fin n)) : c.run (s1 ++ s2) = (c.run s1).run s2 := by
  unfold Cfg.run; exact List.foldl_append

/-- an event is legal: a write goes to a cell of the writing thread, a read to a visible cell -/
def Event.Legal (owner : κ → Owner n) (e : Event n κ) : Prop :=
  (e.write = true → owner e.cell = .thread e.thread) ∧ (e.write = false → Vis owner e.thread e.cell)

/-- the invariant of the frame argument.  `obs`/`agr`: letting thread `i` finish *alone* from the
configuration reached gives the observations, and on its visible cells the store, of its run
alone from the very beginning. -/
structure Inv (owner : κ → Owner n) (progs : Fin n → Prog κ V) (σ0 : Store κ V) (c : Cfg n κ V) : Prop where
  loc : ∀ i, (c.rem i).Local owner i
  obs : ∀ i, ((c.rem i).alone c.store (c.obs i)).2 = ((progs i).alone σ0 []).2
  agr : ∀ i, Agree owner i ((c.rem i).alone c.store (c.obs i)).1 ((progs i).alone σ0 []).1
  legal : ∀ e ∈ c.trace, Event.Legal owner e

theorem inv_init (owner : κ → Owner n) (progs : Fin n → Prog κ V) (σ0 : Store κ V)
    (hl : ∀ i, (progs i).Local owner i) : Inv owner progs σ0 (Cfg.init progs σ0) where
  loc := hl
  obs := fun _ => rfl
  agr := fun _ => Agree.refl _ _ _
  legal := fun e he => by simp [Cfg.init] at he

/-- a step of thread `j` leaves everything another thread `i` may read as it is -/
theorem step_invisible (owner : κ → Owner n) (i j : Fin n) (hij : i ≠ j) (ws : List κ) (vs : List V)
    (σ : Store κ V) (hw : ∀ c ∈ ws, owner c = .thread j) : Agree owner i (assign ws vs σ) σ := by
  intro c hc
  apply assign_frame
  intro hmem
  have h1 := hw c hmem
  cases hc with
  | inl h => rw [h1] at h; exact hij (Owner.thread.inj h).symm
  | inr h => rw [h1] at h; cases h

theorem inv_fire (owner : κ → Owner n) (progs : Fin n → Prog κ V) (σ0 : Store κ V) (c : Cfg n κ V)
    (j : Fin n) (h : Inv owner progs σ0 c) : Inv owner progs σ0 (c.fire j) := by
  cases hrem : c.rem j with
  | done => rw [fire_done c j hrem]; exact h
  | step rs ws f k =>
    rw [fire_step c j hrem]
    have hlj := h.loc j
    rw [hrem] at hlj
    obtain ⟨hr, hw, hk⟩ := hlj
    constructor
    · -- loc
      intro i
      by_cases hij : i = j
      · subst hij; show (setAt c.rem i _ i).Local owner i; rw [setAt_same]; exact hk _
      · show (setAt c.rem j _ i).Local owner i; rw [setAt_other _ _ _ _ hij]; exact h.loc i
    · -- obs
      intro i
      by_cases hij : i = j
      · subst hij
        show ((setAt c.rem i _ i).alone _ (setAt c.obs i _ i)).2 = _
        rw [setAt_same, setAt_same]
        have := h.obs i
        rw [hrem] at this
        exact this
      · show ((setAt c.rem j _ i).alone _ (setAt c.obs j _ i)).2 = _
        rw [setAt_other _ _ _ _ hij, setAt_other _ _ _ _ hij]
        have hag := step_invisible owner i j hij ws (f (rs.map c.store)) c.store hw
        rw [(alone_agree owner i (c.rem i) (h.loc i) _ _ (c.obs i) hag).1]
        exact h.obs i
    · -- agr
      intro i
      by_cases hij : i = j
      · subst hij
        show Agree owner i ((setAt c.rem i _ i).alone _ (setAt c.obs i _ i)).1 _
        rw [setAt_same, setAt_same]
        have := h.agr i
        rw [hrem] at this
        exact this
      · show Agree owner i ((setAt c.rem j _ i).alone _ (setAt c.obs j _ i)).1 _
        rw [setAt_other _ _ _ _ hij, setAt_other _ _ _ _ hij]
        have hag := step_invisible owner i j hij ws (f (rs.map c.store)) c.store hw
        exact (alone_agree owner i (c.rem i) (h.loc i) _ _ (c.obs i) hag).2.trans (h.agr i)
    · -- legal
      intro e he
      show Event.Legal owner e
      rcases List.mem_append.mp he with hwm | he2
      · obtain ⟨x, hx, rfl⟩ := List.mem_map.mp hwm
        exact ⟨fun _ => hw x hx, fun hf => (by cases hf)⟩
      · rcases List.mem_append.mp he2 with hrm | hold
        · obtain ⟨x, hx, rfl⟩ := List.mem_map.mp hrm
          exact ⟨fun hf => (by cases hf), fun _ => hr x hx⟩
        · exact h.legal e hold

theorem inv_run (owner : κ → Owner n) (progs : Fin n → Prog κ V) (σ0 : Store κ V) (sched : List (Fin n))
    (c : Cfg n κ V) (h : Inv owner progs σ0 c) : Inv owner progs σ0 (c.run sched) := by
  induction sched generalizing c with
  | nil => exact h
  | cons j s ih => rw [run_cons]; exact ih _ (inv_fire owner progs σ0 c j h)

/-- two legal events never conflict -/
theorem legal_no_conflict (owner : κ → Owner n) (a b : Event n κ)
    (ha : Event.Legal owner a) (hb : Event.Legal owner b) : ¬ a.Conflict b := by
  intro ⟨hne, hcell, hw⟩
  -- whoever writes owns the cell; the other one owns it too or sees it as immutable
  have key : ∀ (x y : Event n κ), Event.Legal owner x → Event.Legal owner y → x.cell = y.cell →
      x.write = true → x.thread = y.thread := by
    intro x y hx hy hc hxw
    have ox := hx.1 hxw
    cases hyw : y.write with
    | true =>
      have oy := hy.1 hyw
      rw [← hc, ox] at oy
      exact Owner.thread.inj oy
    | false =>
      have vy := hy.2 hyw
      rw [← hc] at vy
      cases vy with
      | inl h => rw [ox] at h; exact Owner.thread.inj h
      | inr h => rw [ox] at h; cases h
  cases hw with
  | inl h => exact hne (key a b ha hb hcell h)
  | inr h => exact hne (key b a hb ha hcell.symm h).symm

/-! ### footprint set ↔ `Local` -/

theorem local_of_footprint (owner : κ → Owner n) (i : Fin n) (p : Prog κ V)
    (h : ∀ c w, p.Footprint c w → (w = true → owner c = .thread i) ∧ (w = false → Vis owner i c)) :
    p.Local owner i := by
  induction p with
  | done => trivial
  | step rs ws f k ih =>
    refine ⟨fun c hc => (h c false (.read hc)).2 rfl, fun c hc => (h c true (.write hc)).1 rfl, fun vs => ?_⟩
    exact ih vs (fun c w hf => h c w (.later vs hf))

theorem footprint_of_local (owner : κ → Owner n) (i : Fin n) (p : Prog κ V) (hl : p.Local owner i) :
    ∀ c w, p.Footprint c w → (w = true → owner c = .thread i) ∧ (w = false → Vis owner i c) := by
  intro c w hf
  induction hf with
  | read hc => exact ⟨fun h => (by cases h), fun _ => hl.1 _ hc⟩
  | write hc => exact ⟨fun _ => hl.2.1 _ hc, fun h => (by cases h)⟩
  | later vs _ ih => exact ih (hl.2.2 vs)

/-! ### complete schedules exist -/

theorem fire_rem_other (c : Cfg n κ V) (i j : Fin n) (h : j ≠ i) : (c.fire i).rem j = c.rem j := by
  cases hrem : c.rem i with
  | done => rw [fire_done c i hrem]
  | step rs ws f k => rw [fire_step c i hrem]; exact setAt_other _ _ _ _ h

theorem fire_done_stable (c : Cfg n κ V) (i j : Fin n) (h : c.rem j = .done) : (c.fire i).rem j = .done := by
  by_cases hij : j = i
  · subst hij; rw [fire_done c j h]; exact h
  · rw [fire_rem_other c i j hij]; exact h

theorem run_done_stable (c : Cfg n κ V) (s : List (Fin n)) (j : Fin n) (h : c.rem j = .done) :
    (c.run s).rem j = .done := by
  induction s generalizing c with
  | nil => exact h
  | cons i s ih => rw [run_cons]; exact ih _ (fire_done_stable c i j h)

theorem finish_one (i : Fin n) (p : Prog κ V) : ∀ c : Cfg n κ V, c.rem i = p →
    ∃ s : List (Fin n), (c.run s).rem i = .done := by
  induction p with
  | done => intro c h; exact ⟨[], h⟩
  | step rs ws f k ih =>
    intro c h
    have h2 : (c.fire i).rem i = k (rs.map c.store) := by
      rw [fire_step c i h]; exact setAt_same _ _ _
    obtain ⟨s, hs⟩ := ih _ (c.fire i) h2
    exact ⟨i :: s, by rw [run_cons]; exact hs⟩

theorem finish_all (l : List (Fin n)) : ∀ c : Cfg n κ V, ∃ s : List (Fin n), ∀ i ∈ l, (c.run s).rem i = .done := by
  induction l with
  | nil => intro c; exact ⟨[], fun _ h => by cases h⟩
  | cons i l ih =>
    intro c
    obtain ⟨s1, h1⟩ := ih c
    obtain ⟨s2, h2⟩ := finish_one i ((c.run s1).rem i) (c.run s1) rfl
    refine ⟨s1 ++ s2, fun j hj => ?_⟩
    rw [run_append]
    cases hj with
    | head => exact h2
    | tail _ hm => exact run_done_stable _ s2 j (h1 j hm)

end CelmaVerif.Interleave
