import CelmaVerif.Lemmas.Keys
import CelmaVerif.Model.KeysSub
/-
  Lookup over the two argument containers of one handler (`findSub` + `findArg` on the plain table,
  the head of `Handler::processArg`): it is the single-container lookup on the union of the tables.
-/
namespace CelmaVerif.Keys
open CelmaVerif

/-- with abbreviations off the sub-group container answers exact matches only -/
theorem findSub_noabbr {α β : Type} (subT : List (Key × α)) (plainT : List (Key × β)) (k : Key) :
    findSub false subT plainT k = .ok (findExact k subT 0) := by
  unfold findSub
  cases h : findExact k subT 0 with
  | some r => rfl
  | none =>
    cases findExact k plainT 0 with
    | some _ => rfl
    | none => simp [findArg, h]

/-- an exact key of a sub-group argument selects it, whatever the plain table holds -/
theorem findSub_exact_sub {α β : Type} (abbr : Bool) (subT : List (Key × α)) (plainT : List (Key × β)) (k : Key)
    (r : Nat × α) (h : findExact k subT 0 = some r) : findSub abbr subT plainT k = .ok (some r) := by
  unfold findSub; rw [h]

/-- an exact key of a plain argument that is no exact key of a sub-group argument is never taken by
    the sub-group container, abbreviations on or off -/
theorem findSub_exact_plain {α β : Type} (abbr : Bool) (subT : List (Key × α)) (plainT : List (Key × β)) (k : Key)
    (r : Nat × β) (hs : findExact k subT 0 = none) (hp : findExact k plainT 0 = some r) :
    findSub abbr subT plainT k = .ok none := by
  unfold findSub; rw [hs, hp]

/-- the payload of the first loop is the payload of the first entry that `==` the key -/
theorem findExact_payload {α : Type} (k : Key) (t : List (Key × α)) (i : Nat) :
    (findExact k t i).map (·.2) = (t.find? (fun e => e.1.eq k)).map (·.2) := by
  induction t generalizing i with
  | nil => rfl
  | cons x t ih =>
    obtain ⟨ek, a⟩ := x
    unfold findExact
    by_cases h : ek.eq k = true
    · simp [h]
    · simp only [h, Bool.false_eq_true, if_false]
      rw [ih, List.find?_cons_of_neg (by simpa using h)]

/-- single-container lookup, payload level: first exact entry, else (abbreviations) the unique
    entry that starts with the key -/
def lookupSpec {γ : Type} (abbr : Bool) (t : List (Key × γ)) (k : Key) : Res (Option γ) :=
  match t.find? (fun e => e.1.eq k) with
  | some e => .ok (some e.2)
  | none => if abbr then uniqueOf (t.filter (fun e => e.1.startsWith k)) else .ok none

theorem findArg_spec {γ : Type} (abbr : Bool) (t : List (Key × γ)) (k : Key) :
    payload (findArg abbr t k) = lookupSpec abbr t k := by
  unfold lookupSpec
  cases hf : t.find? (fun e => e.1.eq k) with
  | none =>
    have hno : ∀ e ∈ t, e.1.eq k = false := by
      intro e he
      have := List.find?_eq_none.mp hf e he
      simpa using this
    exact findArg_noexact abbr t k hno
  | some e =>
    have := findExact_payload k t 0
    rw [hf] at this
    unfold findArg
    cases hx : findExact k t 0 with
    | none => rw [hx] at this; cases this
    | some r =>
      rw [hx] at this
      simp only [Option.map_some, Option.some.injEq] at this
      simp only [payload, this]

/-- the two-container lookup of `processArg`, payload level: which argument of the handler a key
    selects — a sub-group argument (`inl`) or a plain argument (`inr`) -/
def lookupBoth {α β : Type} (abbr : Bool) (subT : List (Key × α)) (plainT : List (Key × β)) (k : Key) :
    Res (Option (α ⊕ β)) :=
  match findSub abbr subT plainT k with
  | .ok (some (_, a)) => .ok (some (.inl a))
  | .ok none =>
    match findArg abbr plainT k with
    | .ok (some (_, b)) => .ok (some (.inr b))
    | .ok none => .ok none
    | .throw e => .throw e
    | .oob w => .oob w
  | .throw e => .throw e
  | .oob w => .oob w

/-- all keys of the handler as ONE table: the sub-group arguments, then the plain arguments -/
def unionTable {α β : Type} (subT : List (Key × α)) (plainT : List (Key × β)) : List (Key × (α ⊕ β)) :=
  subT.map (fun e => (e.1, Sum.inl e.2)) ++ plainT.map (fun e => (e.1, Sum.inr e.2))

/-- the three outcomes of the abbreviation loop, by the entries whose long key starts with the key -/
theorem findAbbr_cases {α : Type} (k : Key) (t : List (Key × α)) :
    (t.filter (fun e => e.1.startsWith k) = [] ∧ findAbbr k t 0 none = .ok none) ∨
    (∃ e j, t.filter (fun e => e.1.startsWith k) = [e] ∧ findAbbr k t 0 none = .ok (some (j, e.2))) ∨
    (∃ a b l, t.filter (fun e => e.1.startsWith k) = a :: b :: l ∧ findAbbr k t 0 none = .throw .runtime_error) := by
  have h := findAbbr_payload k t 0 none
  cases hf : t.filter (fun e => e.1.startsWith k) with
  | nil =>
    rw [hf] at h
    left; refine ⟨rfl, ?_⟩
    cases hr : findAbbr k t 0 none with
    | ok o => cases o with
      | none => rfl
      | some r => rw [hr] at h; simp [payload] at h
    | throw e => rw [hr] at h; simp [payload] at h
    | oob w => rw [hr] at h; simp [payload] at h
  | cons a l =>
    cases l with
    | nil =>
      rw [hf] at h
      right; left
      cases hr : findAbbr k t 0 none with
      | ok o => cases o with
        | none => rw [hr] at h; simp [payload] at h
        | some r =>
          rw [hr] at h
          obtain ⟨j, x⟩ := r
          simp only [payload, Res.ok.injEq, Option.some.injEq] at h
          exact ⟨a, j, rfl, by rw [h]⟩
      | throw e => rw [hr] at h; simp [payload] at h
      | oob w => rw [hr] at h; simp [payload] at h
    | cons b l =>
      rw [hf] at h
      right; right
      refine ⟨a, b, l, rfl, ?_⟩
      cases hr : findAbbr k t 0 none with
      | ok o => cases o <;> (rw [hr] at h; simp [payload] at h)
      | throw e => rw [hr] at h; simp only [payload, Res.throw.injEq] at h; rw [h]
      | oob w => rw [hr] at h; simp [payload] at h

theorem find?_none_of_findExact {α : Type} {k : Key} {t : List (Key × α)} (h : findExact k t 0 = none) :
    t.find? (fun e => e.1.eq k) = none := by
  have := findExact_payload k t 0
  rw [h] at this
  cases hf : t.find? (fun e => e.1.eq k) with
  | none => rfl
  | some e => rw [hf] at this; cases this

theorem find?_some_of_findExact {α : Type} {k : Key} {t : List (Key × α)} {r : Nat × α}
    (h : findExact k t 0 = some r) : ∃ e, t.find? (fun e => e.1.eq k) = some e ∧ e.2 = r.2 := by
  have := findExact_payload k t 0
  rw [h] at this
  cases hf : t.find? (fun e => e.1.eq k) with
  | none => rw [hf] at this; cases this
  | some e => rw [hf] at this; exact ⟨e, rfl, by simpa using this.symm⟩

/-- **one handler, one key space**: looking a key up in the two containers as `processArg` does is
    looking it up in the single table of all keys of the handler — first exact entry, else (with
    abbreviations) the only entry whose long key starts with it, ambiguous when there are two,
    unknown when there is none; without abbreviations exact entries only -/
theorem lookupBoth_eq_union {α β : Type} (abbr : Bool) (subT : List (Key × α)) (plainT : List (Key × β)) (k : Key) :
    lookupBoth abbr subT plainT k = lookupSpec abbr (unionTable subT plainT) k := by
  unfold lookupBoth lookupSpec unionTable findSub
  rw [List.find?_append, List.find?_map, List.find?_map, List.filter_append, List.filter_map, List.filter_map]
  simp only [Function.comp_def]
  cases hS : findExact k subT 0 with
  | some r =>
    obtain ⟨e, he, her⟩ := find?_some_of_findExact hS
    obtain ⟨j, a⟩ := r
    simp only [he, Option.map_some, Option.some_or]
    simp only at her
    rw [her]
  | none =>
    rw [find?_none_of_findExact hS]
    simp only [Option.map_none, Option.none_or]
    cases hP : findExact k plainT 0 with
    | some r =>
      obtain ⟨e, he, her⟩ := find?_some_of_findExact hP
      obtain ⟨j, b⟩ := r
      simp only [he, Option.map_some, findArg, hP]
      simp only at her
      rw [her]
    | none =>
      rw [find?_none_of_findExact hP]
      simp only [Option.map_none]
      cases abbr with
      | false => simp [findArg, hS, hP]
      | true =>
        simp only [findArg, hS, hP, if_true]
        rcases findAbbr_cases k subT with ⟨fs, rs⟩ | ⟨es, js, fs, rs⟩ | ⟨as, bs, ls, fs, rs⟩ <;>
        rcases findAbbr_cases k plainT with ⟨fp, rp⟩ | ⟨ep, jp, fp, rp⟩ | ⟨ap, bp, lp, fp, rp⟩ <;>
        simp [fs, rs, fp, rp, uniqueOf]

end CelmaVerif.Keys
