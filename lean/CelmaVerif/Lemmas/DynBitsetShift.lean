import CelmaVerif.Lemmas.DynBitset
/-
  C12 helper lemmas, part 2: shifts, positional modifiers, observers.
-/
set_option linter.unusedSimpArgs false
namespace CelmaVerif.DynBitset
open CelmaVerif

/-! ## reference shifts, pointwise -/

theorem replicate_false_getD (n i : Nat) : (List.replicate n false)[i]?.getD false = false := by
  rw [List.getElem?_replicate]; split <;> rfl

theorem ofSize_length (n : Nat) : (ofSize n).length = n := by
  unfold ofSize
  split
  · rw [resize_length]
  · simp; omega

theorem ofSize_getD (n j : Nat) : (ofSize n).getD j false = false := by
  unfold ofSize
  split
  · rw [resize_getD [] n j (by simp)]; rfl
  · rfl

theorem refShl_length (v : Bits) (k : Nat) (hv : v ≠ []) : (Ref.shl v k).length = v.length + k := by
  unfold Ref.shl; rw [if_neg hv]; simp; omega

theorem refShl_getD (v : Bits) (k j : Nat) (hv : v ≠ []) :
    (Ref.shl v k).getD j false = if j < k then false else v.getD (j - k) false := by
  unfold Ref.shl
  rw [if_neg hv]
  simp only [List.getD_eq_getElem?_getD]
  by_cases hj : j < k
  · rw [if_pos hj, List.getElem?_append_left (by simpa using hj)]
    simp [hj]
  · rw [if_neg hj, List.getElem?_append_right (by simp; omega)]
    simp

theorem refShr_length (v : Bits) (k : Nat) : (Ref.shr v k).length = v.length := by
  unfold Ref.shr; simp; omega

theorem refShr_getD (v : Bits) (k j : Nat) :
    (Ref.shr v k).getD j false = if j < v.length - k then v.getD (j + k) false else false := by
  unfold Ref.shr
  simp only [List.getD_eq_getElem?_getD]
  by_cases hj : j < v.length - k
  · rw [if_pos hj, List.getElem?_append_left (by simp; omega), List.getElem?_drop, Nat.add_comm]
  · rw [if_neg hj, List.getElem?_append_right (by simp; omega)]
    exact replicate_false_getD _ _

/-! ## shifts as coded -/

theorem shlCode_eq (v : Bits) (k : Nat) : shlCode v k = .ok (if k = 0 then v else Ref.shl v k) := by
  unfold shlCode
  by_cases h0 : k = 0 ∨ v.length = 0
  · rw [if_pos h0]
    by_cases hk : k = 0
    · rw [if_pos hk]
    · rw [if_neg hk]
      have : v = [] := List.eq_nil_of_length_eq_zero (by omega)
      subst this; rfl
  · rw [if_neg h0, if_neg (by omega)]
    have hv : v ≠ [] := by intro h; subst h; simp at h0
    obtain ⟨d, h1, h2, h3⟩ := forUp_inv
      (fun i (d : Bits) => d.length = v.length + k ∧
        ∀ j, d.getD j false = if k ≤ j ∧ j < k + i then v.getD (j - k) false else false)
      (shlBody v k) v.length 0 (ofSize (v.length + k))
      ⟨ofSize_length _, by intro j; rw [if_neg (by omega), ofSize_getD]⟩
      (by
        intro i s _ hi ⟨hl, hb⟩
        have h1 : i < v.length := by omega
        have h2 : i + k < s.length := by omega
        refine ⟨_, by simp only [shlBody, shlABody, shrBody, shrABody, rd_ok h1, wr_ok h2]; rfl, by simp [hl], ?_⟩
        intro j
        rw [getD_set _ _ _ _ h2]
        by_cases hj : j = i + k
        · subst hj; rw [if_pos rfl, if_pos (by omega)]; congr 1; omega
        · rw [if_neg hj, hb j]
          by_cases hji : k ≤ j ∧ j < k + i
          · rw [if_pos hji, if_pos (by omega)]
          · rw [if_neg hji, if_neg (by omega)])
    rw [h1]
    congr 1
    apply ext_bit (by rw [h2, refShl_length v k hv])
    intro j _
    rw [h3 j, refShl_getD v k j hv]
    by_cases hj : j < k
    · rw [if_neg (by omega), if_pos hj]
    · rw [if_neg hj]
      by_cases hj2 : j < k + v.length
      · rw [if_pos (by omega)]
      · rw [if_neg (by omega), getD_ge v (j - k) (by omega)]

theorem shlAssignCode_eq (v : Bits) (k : Nat) : shlAssignCode v k = .ok (if k = 0 then v else Ref.shl v k) := by
  unfold shlAssignCode
  by_cases h0 : k = 0 ∨ v.length = 0
  · rw [if_pos h0]
    by_cases hk : k = 0
    · rw [if_pos hk]
    · rw [if_neg hk]
      have : v = [] := List.eq_nil_of_length_eq_zero (by omega)
      subst this; rfl
  · rw [if_neg h0, if_neg (by omega)]
    have hv : v ≠ [] := by intro h; subst h; simp at h0
    simp only [resize_length]
    obtain ⟨w, h1, h2, h3⟩ := forDown_inv
      (fun i (w : Bits) => w.length = v.length + k ∧
        ∀ j, w.getD j false = if i ≤ j ∧ j < v.length + k then v.getD (j - k) false else v.getD j false)
      (shlABody k) (v.length + k - k) (v.length + k) (resize v (v.length + k)) (by omega)
      ⟨resize_length _ _ _, by intro j; rw [if_neg (by omega), resize_getD v _ j (by omega)]⟩
      (by
        intro i s hlo hi ⟨hl, hb⟩
        have h1 : i - k < s.length := by omega
        have h2 : i < s.length := by omega
        refine ⟨_, by simp only [shlBody, shlABody, shrBody, shrABody, rd_ok h1, wr_ok h2]; rfl, by simp [hl], ?_⟩
        intro j
        rw [getD_set _ _ _ _ h2]
        by_cases hj : j = i
        · subst hj; rw [if_pos rfl, if_pos (by omega), hb (j - k), if_neg (by omega)]
        · rw [if_neg hj, hb j]
          by_cases hji : i + 1 ≤ j ∧ j < v.length + k
          · rw [if_pos hji, if_pos (by omega)]
          · rw [if_neg hji, if_neg (by omega)])
    rw [h1]
    simp only
    obtain ⟨w', g1, g2, g3⟩ := clearLoop w 0 k (by omega)
    rw [g1]
    congr 1
    apply ext_bit (by rw [g2, h2, refShl_length v k hv])
    intro j hj
    rw [g3 j, refShl_getD v k j hv]
    by_cases hjk : j < k
    · rw [if_pos (by omega), if_pos hjk]
    · rw [if_neg (by omega), if_neg hjk, h3 j, if_pos (by omega)]

theorem shrCode_eq (v : Bits) (k : Nat) : shrCode v k = .ok (Ref.shr v k) := by
  unfold shrCode
  by_cases h0 : k = 0 ∨ v.length = 0
  · rw [if_pos h0]
    congr 1
    apply ext_bit (by rw [refShr_length])
    intro j hj
    rw [refShr_getD]
    cases h0 with
    | inl h => subst h; rw [if_pos (by omega)]; rfl
    | inr h => omega
  · rw [if_neg h0]
    obtain ⟨d, h1, h2, h3⟩ := forUp_inv
      (fun i (d : Bits) => d.length = v.length ∧
        ∀ j, d.getD j false = if j < i then v.getD (j + k) false else false)
      (shrBody v k) (v.length - k) 0 (ofSize v.length)
      ⟨ofSize_length _, by intro j; rw [if_neg (by omega), ofSize_getD]⟩
      (by
        intro i s _ hi ⟨hl, hb⟩
        have h1 : i + k < v.length := by omega
        have h2 : i < s.length := by omega
        refine ⟨_, by simp only [shlBody, shlABody, shrBody, shrABody, rd_ok h1, wr_ok h2]; rfl, by simp [hl], ?_⟩
        intro j
        rw [getD_set _ _ _ _ h2]
        by_cases hj : j = i
        · subst hj; rw [if_pos rfl, if_pos (by omega)]
        · rw [if_neg hj, hb j]
          by_cases hji : j < i
          · rw [if_pos hji, if_pos (by omega)]
          · rw [if_neg hji, if_neg (by omega)])
    rw [h1]
    congr 1
    apply ext_bit (by rw [h2, refShr_length])
    intro j _
    rw [h3 j, refShr_getD, Nat.zero_add]

theorem shrAssignCode_eq (v : Bits) (k : Nat) : shrAssignCode v k = .ok (Ref.shr v k) := by
  unfold shrAssignCode
  by_cases h0 : k = 0 ∨ v.length = 0
  · rw [if_pos h0]
    congr 1
    apply ext_bit (by rw [refShr_length])
    intro j hj
    rw [refShr_getD]
    cases h0 with
    | inl h => subst h; rw [if_pos (by omega)]; rfl
    | inr h => omega
  · rw [if_neg h0]
    obtain ⟨w, h1, h2, h3⟩ := forUp_inv
      (fun i (w : Bits) => w.length = v.length ∧
        ∀ j, w.getD j false = if j < i then v.getD (j + k) false else v.getD j false)
      (shrABody k) (v.length - k) 0 v
      ⟨rfl, by intro j; rw [if_neg (by omega)]⟩
      (by
        intro i s _ hi ⟨hl, hb⟩
        have h1 : i + k < s.length := by omega
        have h2 : i < s.length := by omega
        refine ⟨_, by simp only [shlBody, shlABody, shrBody, shrABody, rd_ok h1, wr_ok h2]; rfl, by simp [hl], ?_⟩
        intro j
        rw [getD_set _ _ _ _ h2]
        by_cases hj : j = i
        · subst hj; rw [if_pos rfl, if_pos (by omega), hb (j + k), if_neg (by omega)]
        · rw [if_neg hj, hb j]
          by_cases hji : j < i
          · rw [if_pos hji, if_pos (by omega)]
          · rw [if_neg hji, if_neg (by omega)])
    rw [h1]
    simp only
    obtain ⟨w', g1, g2, g3⟩ := clearLoop w (if k < w.length then w.length - k else 0)
      (w.length - (if k < w.length then w.length - k else 0)) (by split <;> omega)
    rw [g1]
    congr 1
    apply ext_bit (by rw [g2, h2, refShr_length])
    intro j hj
    rw [g3 j, refShr_getD, h2]
    rw [g2, h2] at hj
    by_cases hjk : j < v.length - k
    · rw [if_pos hjk, if_neg (by split <;> omega), h3 j, Nat.zero_add, if_pos hjk]
    · rw [if_neg hjk, if_pos (by split <;> omega)]

/-! ### the same inside the modelled range -/

theorem inRange_ok {α : Type} {k : Nat} (h : k < posLimit) (body : Res α) : inRange k body = body := by
  unfold inRange; rw [if_pos h]

theorem shl_eq (v : Bits) (k : Nat) (hk : k < posLimit) : shl v k = .ok (if k = 0 then v else Ref.shl v k) := by
  unfold shl; rw [inRange_ok hk, shlCode_eq]

theorem shlAssign_eq (v : Bits) (k : Nat) (hk : k < posLimit) :
    shlAssign v k = .ok (if k = 0 then v else Ref.shl v k) := by
  unfold shlAssign; rw [inRange_ok hk, shlAssignCode_eq]

theorem shr_eq (v : Bits) (k : Nat) (hk : k < posLimit) : shr v k = .ok (Ref.shr v k) := by
  unfold shr; rw [inRange_ok hk, shrCode_eq]

theorem shrAssign_eq (v : Bits) (k : Nat) (hk : k < posLimit) : shrAssign v k = .ok (Ref.shr v k) := by
  unfold shrAssign; rw [inRange_ok hk, shrAssignCode_eq]

/-! ## positional modifiers -/

theorem grow_eq (v : Bits) (pos : Nat) :
    (if pos ≥ v.length then resize v (growSize pos) else v) = Ref.grow v pos := by
  unfold Ref.grow
  by_cases h : pos < v.length
  · rw [if_neg (by omega), if_pos h]
  · rw [if_pos (by omega), if_neg h]
    unfold resize growSize
    rw [List.take_of_length_le (by omega)]

theorem grow_length_gt (v : Bits) (pos : Nat) : pos < (Ref.grow v pos).length := by
  unfold Ref.grow
  split
  · assumption
  · simp; omega

theorem grow_length (v : Bits) (pos : Nat) :
    (Ref.grow v pos).length = if pos < v.length then v.length else (pos + 1) * 3 / 2 := by
  unfold Ref.grow
  split
  · rfl
  · simp; omega

theorem grow_getD (v : Bits) (pos j : Nat) : (Ref.grow v pos).getD j false = v.getD j false := by
  rw [← grow_eq]
  split
  · exact resize_getD v _ j (by have := growSize_gt pos; omega)
  · rfl

theorem setCode_eq (v : Bits) (pos : Nat) (b : Bool) : setCode v pos b = .ok (Ref.set v pos b) := by
  unfold setCode Ref.set
  simp only [grow_eq]
  rw [wr_ok (grow_length_gt v pos)]

theorem resetCode_eq (v : Bits) (pos : Nat) : resetCode v pos = .ok (Ref.reset v pos) := by
  unfold resetCode Ref.reset
  simp only [grow_eq]
  rw [wr_ok (grow_length_gt v pos)]

theorem flipCode_eq (v : Bits) (pos : Nat) : flipCode v pos = .ok (Ref.flip v pos) := by
  unfold flipCode Ref.flip Ref.bit
  simp only [grow_eq]
  rw [rd_ok (grow_length_gt v pos)]
  simp only
  rw [wr_ok (grow_length_gt v pos), grow_getD]

theorem idxAssignCode_eq (v : Bits) (pos : Nat) (b : Bool) : idxAssignCode v pos b = .ok (Ref.set v pos b) := by
  unfold idxAssignCode idxGrow Ref.set
  simp only [grow_eq]
  rw [if_pos (grow_length_gt v pos)]
  simp only
  rw [wr_ok (grow_length_gt v pos)]

theorem idxReadCode_eq (v : Bits) (pos : Nat) : idxReadCode v pos = .ok (Ref.grow v pos, Ref.bit v pos) := by
  unfold idxReadCode idxGrow Ref.bit
  simp only [grow_eq]
  rw [if_pos (grow_length_gt v pos)]
  simp only
  rw [rd_ok (grow_length_gt v pos)]
  simp only
  rw [grow_getD]

theorem set_eq (v : Bits) (pos : Nat) (b : Bool) (h : pos < posLimit) : set v pos b = .ok (Ref.set v pos b) := by
  unfold set; rw [inRange_ok h, setCode_eq]

theorem reset_eq (v : Bits) (pos : Nat) (h : pos < posLimit) : reset v pos = .ok (Ref.reset v pos) := by
  unfold reset; rw [inRange_ok h, resetCode_eq]

theorem flip_eq (v : Bits) (pos : Nat) (h : pos < posLimit) : flip v pos = .ok (Ref.flip v pos) := by
  unfold flip; rw [inRange_ok h, flipCode_eq]

theorem idxAssign_eq (v : Bits) (pos : Nat) (b : Bool) (h : pos < posLimit) :
    idxAssign v pos b = .ok (Ref.set v pos b) := by
  unfold idxAssign; rw [inRange_ok h, idxAssignCode_eq]

theorem idxRead_eq (v : Bits) (pos : Nat) (h : pos < posLimit) :
    idxRead v pos = .ok (Ref.grow v pos, Ref.bit v pos) := by
  unfold idxRead; rw [inRange_ok h, idxReadCode_eq]

theorem setAll_eq (v : Bits) : setAll v = .ok (Ref.setAll v) := by
  unfold setAll Ref.setAll
  congr 1
  induction v with
  | nil => rfl
  | cons a t ih => simp [List.replicate_succ, ih]

/-! ## observers -/

theorem test_eq (v : Bits) (pos : Nat) : test v pos = Ref.test v pos := by
  unfold test Ref.test Ref.bit
  by_cases h : pos < v.length
  · rw [if_neg (by omega), if_pos h, rd_ok h]
  · rw [if_pos (by omega), if_neg h]

theorem idxConst_eq (v : Bits) (pos : Nat) : idxConst v pos = Ref.test v pos := by
  unfold idxConst Ref.test Ref.bit
  by_cases h : pos < v.length
  · rw [if_neg (by omega), if_pos h, rd_ok h]
  · rw [if_pos (by omega), if_neg h]

theorem count_eq (v : Bits) : count v = Ref.count v := by
  unfold count Ref.count
  induction v with
  | nil => rfl
  | cons a t ih => cases a <;> simp [List.count_cons, List.filter_cons, ih]

theorem anySet_eq (v : Bits) : anySet v = Ref.any v := by
  unfold anySet Ref.any
  induction v with
  | nil => rfl
  | cons a t ih => cases a <;> simp_all

theorem noneSet_eq (v : Bits) : noneSet v = Ref.none v := by
  have := anySet_eq v
  unfold anySet Ref.any at this
  unfold noneSet Ref.none
  rw [this]

theorem allSet_eq (v : Bits) : allSet v = Ref.all v := by
  unfold allSet Ref.all
  induction v with
  | nil => rfl
  | cons a t ih => cases a <;> simp_all

theorem getD_set_gen {α : Type} (v : List α) (i j : Nat) (b d : α) (h : i < v.length) :
    (v.set i b).getD j d = if j = i then b else v.getD j d := by
  by_cases hj : j = i
  · subst hj; simp [List.getD_eq_getElem?_getD, h]
  · simp only [List.getD_eq_getElem?_getD, if_neg hj]
    rw [List.getElem?_set_ne (Ne.symm hj)]

theorem toStrWith_eq (v : Bits) (z o : Char) : toStrWith v z o = .ok (Ref.toStringWith v z o) := by
  unfold toStrWith
  obtain ⟨s, h1, h2, h3⟩ := forUp_inv
    (fun i (s : List Char) => s.length = v.length ∧
      ∀ j, j < v.length → s.getD j z =
        if v.length - i ≤ j ∧ v.getD (v.length - 1 - j) false = true then o else z)
    (strBody o v) v.length 0 (List.replicate v.length z)
    ⟨by simp, by intro j hj; rw [if_neg (by omega)]; simp [List.getD_eq_getElem?_getD, hj]⟩
    (by
      intro i s _ hi ⟨hl, hb⟩
      have h1 : i < v.length := by omega
      have h2 : v.length - i - 1 < s.length := by omega
      cases hv : v.getD i false with
      | true =>
        refine ⟨_, by simp only [strBody, rd_ok h1, hv, wr_ok h2]; rfl, by simp [hl], ?_⟩
        intro j hj
        rw [getD_set_gen _ _ _ _ _ h2]
        by_cases hji : j = v.length - i - 1
        · subst hji
          rw [if_pos rfl, if_pos]
          refine ⟨by omega, ?_⟩
          have : v.length - 1 - (v.length - i - 1) = i := by omega
          rw [this]; exact hv
        · rw [if_neg hji, hb j hj]
          by_cases hc : v.length - i ≤ j ∧ v.getD (v.length - 1 - j) false = true
          · rw [if_pos hc, if_pos ⟨by omega, hc.2⟩]
          · rw [if_neg hc, if_neg]
            intro ⟨c1, c2⟩
            exact hc ⟨by omega, c2⟩
      | false =>
        refine ⟨s, by simp only [strBody, rd_ok h1, hv], hl, ?_⟩
        intro j hj
        rw [hb j hj]
        by_cases hc : v.length - i ≤ j ∧ v.getD (v.length - 1 - j) false = true
        · rw [if_pos hc, if_pos ⟨by omega, hc.2⟩]
        · rw [if_neg hc, if_neg]
          intro ⟨c1, c2⟩
          by_cases hji : j = v.length - i - 1
          · have : v.length - 1 - j = i := by omega
            rw [this, hv] at c2; cases c2
          · exact hc ⟨by omega, c2⟩)
  rw [h1]
  congr 1
  unfold Ref.toStringWith
  apply List.ext_getElem (by simp [h2])
  intro j hj1 hj2
  have hj : j < v.length := by omega
  have := h3 j hj
  rw [List.getD_eq_getElem?_getD, List.getElem?_eq_getElem hj1] at this
  simp only [Option.getD_some] at this
  rw [this]
  simp only [List.getElem_map, List.getElem_reverse]
  have hidx : v.length - 1 - j < v.length := by omega
  rw [List.getD_eq_getElem?_getD, List.getElem?_eq_getElem hidx]
  simp only [Option.getD_some]
  cases v[v.length - 1 - j] <;> simp <;> omega

theorem toStr_eq (v : Bits) : toStr v = .ok (Ref.toString v) := by
  unfold toStr; rw [toStrWith_eq]; rfl

theorem value_drop_cons (v : Bits) (lo : Nat) (h : lo < v.length) :
    v.drop lo = v.getD lo false :: v.drop (lo + 1) := by
  rw [List.getD_eq_getElem?_getD, List.getElem?_eq_getElem h]
  simp

theorem toUlong_loop (v : Bits) : ∀ (n lo acc : Nat), lo + n = v.length →
    forUp (ulBody v) n lo acc
    = if (v.drop (max lo 64)).any id then .throw .overflow_error
      else .ok (acc + 2 ^ lo * Ref.value (v.drop lo)) := by
  intro n
  induction n with
  | zero =>
    intro lo acc h
    have h1 : v.drop lo = [] := List.drop_eq_nil_of_le (by omega)
    have h2 : v.drop (max lo 64) = [] := List.drop_eq_nil_of_le (by omega)
    rw [h1, h2]; simp [forUp, Ref.value]
  | succ n ih =>
    intro lo acc h
    have hlo : lo < v.length := by omega
    rw [value_drop_cons v lo hlo]
    simp only [forUp, ulBody, rd_ok hlo]
    cases hv : v.getD lo false with
    | true =>
      by_cases h64 : lo ≥ 64
      · simp only [if_pos h64]
        have : max lo 64 = lo := by omega
        rw [this, value_drop_cons v lo hlo, hv]; simp
      · simp only [if_neg h64]
        rw [ih (lo + 1) _ (by omega)]
        have : max (lo + 1) 64 = max lo 64 := by omega
        rw [this]
        split
        · rfl
        · congr 1
          simp only [Ref.value, if_true, Nat.pow_succ]
          rw [Nat.mul_add, Nat.mul_one, Nat.add_assoc]
          congr 1
          rw [Nat.mul_assoc]
    | false =>
      simp only
      rw [ih (lo + 1) _ (by omega)]
      have hany : (v.drop (max (lo + 1) 64)).any id = (v.drop (max lo 64)).any id := by
        by_cases h64 : lo ≥ 64
        · have e1 : max lo 64 = lo := by omega
          have e2 : max (lo + 1) 64 = lo + 1 := by omega
          rw [e1, e2, value_drop_cons v lo hlo, hv]; simp
        · have : max (lo + 1) 64 = max lo 64 := by omega
          rw [this]
      rw [hany]
      split
      · rfl
      · congr 1
        simp only [Ref.value, Nat.pow_succ]
        rw [Nat.mul_assoc]
        simp

theorem toUlong_eq (v : Bits) : toUlong v = Ref.toUlong v := by
  unfold toUlong Ref.toUlong
  rw [toUlong_loop v v.length 0 0 (by omega)]
  have : max 0 64 = 64 := by omega
  rw [this]
  simp

end CelmaVerif.DynBitset
