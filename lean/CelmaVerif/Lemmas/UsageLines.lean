import CelmaVerif.Lemmas.UsageHelp
/-
  Lemmas for C18 (5): the lines of the model's usage text the reader does NOT use (`ignoredFrom`) are the
  `Usage:` line and empty lines; no line of the text contains a newline (so the lines of the model are the
  lines of the byte text, `splitNl (unlines ls) = ls`).
-/
namespace CelmaVerif.Usage
open CelmaVerif.TextBlock

/-! ### lines the reader does not use -/

def AllEmpty (xs : List Str) : Prop := ∀ l ∈ xs, l = []

theorem AllEmpty.append {a b : List Str} (ha : AllEmpty a) (hb : AllEmpty b) : AllEmpty (a ++ b) := by
  intro l hl
  rcases List.mem_append.mp hl with h | h
  · exact ha l h
  · exact hb l h

theorem allEmpty_nil : AllEmpty [] := by intro l hl; cases hl

theorem allEmpty_single : AllEmpty [[]] := by intro l hl; simpa using hl

theorem AllEmpty.eq_replicate {xs : List Str} (h : AllEmpty xs) : xs = List.replicate xs.length [] :=
  List.eq_replicate_iff.mpr ⟨rfl, h⟩

theorem ignoredFrom_cons (b : Bool) (l : Str) (ls : List Str) :
    ignoredFrom b (l :: ls) =
      match classify l with
      | .caption _ => ignoredFrom false ls
      | .entry _ _ => ignoredFrom true ls
      | .cont => if b then ignoredFrom true ls else l :: ignoredFrom false ls
      | .other => l :: ignoredFrom false ls := by
  cases hcl : classify l <;> rw [ignoredFrom, hcl]

/-- in front of something that is not a continuation line the flag plays no part -/
theorem ignoredFrom_noCont (b : Bool) (rest : List Str) (h : NoContHead rest) :
    ignoredFrom b rest = ignoredFrom false rest := by
  cases rest with
  | nil => rfl
  | cons l ls =>
    have hc := h l rfl
    rw [ignoredFrom_cons, ignoredFrom_cons]
    cases hcl : classify l with
    | caption m => rfl
    | entry k r => rfl
    | cont => exact absurd hcl hc
    | other => rfl

theorem ignoredFrom_conts (cs rest : List Str) (hcs : ∀ l ∈ cs, IsContLine l) :
    ignoredFrom true (cs ++ rest) = ignoredFrom true rest := by
  induction cs with
  | nil => rfl
  | cons c cs ih =>
    have hc := classify_cont (hcs c (List.mem_cons_self ..))
    rw [List.cons_append, ignoredFrom_cons, hc]
    simp only [if_true]
    exact ih (fun l hl => hcs l (List.mem_cons_of_mem _ hl))

/-- a key line is read as an entry line -/
theorem classify_keyline (k s : Str) (hk : k ≠ []) (hkc : ∀ c ∈ k, c ≠ ' ') (hs : s = [] ∨ s.head? = some ' ') :
    classify (' ' :: ' ' :: ' ' :: (k ++ s)) = .entry k s := by
  have hne : k ++ s ≠ [] := by simp [hk]
  have hh : (k ++ s).head? ≠ some ' ' := by
    cases k with
    | nil => exact absurd rfl hk
    | cons c k => simpa using hkc c (List.mem_cons_self ..)
  have hcl := classify_ind (k ++ s) hne
  rw [if_neg hh, (takeWhile_clean k s hkc hs).1, (takeWhile_clean k s hkc hs).2] at hcl
  exact hcl

/-- an entry block: its key line and continuation lines are used; the one empty line an empty description
    leaves behind the key line is not -/
theorem ignoredFrom_block (b : Bool) (k s : Str) (cs rest : List Str) (hk : k ≠ [])
    (hkc : ∀ c ∈ k, c ≠ ' ') (hs : s = [] ∨ s.head? = some ' ') (hcs : TailOK cs) (hb : NoContHead rest) :
    ∃ e, AllEmpty e ∧
      ignoredFrom b ((' ' :: ' ' :: ' ' :: (k ++ s)) :: cs ++ rest) = e ++ ignoredFrom false rest := by
  rw [List.cons_append, ignoredFrom_cons, classify_keyline k s hk hkc hs]
  simp only
  rcases hcs with h | h
  · exact ⟨[], allEmpty_nil, by rw [ignoredFrom_conts cs rest h, ignoredFrom_noCont true rest hb]; rfl⟩
  · subst h
    refine ⟨[[]], allEmpty_single, ?_⟩
    rw [List.cons_append, List.nil_append, ignoredFrom_cons, classify_nil]
    rfl

theorem ignoredFrom_blocks (u : UsageParams) (ll : Nat) (sl : Bool) (ml : Nat) (vs : List Arg)
    (hk : ∀ a ∈ vs, KeyClean a.key) (rest : List Str) (hb : NoContHead rest) :
    ∀ b : Bool, ∃ e, AllEmpty e ∧
      ignoredFrom b (vs.flatMap (entryPure u ll sl ml) ++ rest) = e ++ ignoredFrom false rest := by
  induction vs with
  | nil => intro b; exact ⟨[], allEmpty_nil, by simpa using ignoredFrom_noCont b rest hb⟩
  | cons a vs ih =>
    intro b
    obtain ⟨s, cs, he, hs, hcs, _⟩ := entryPure_shape u ll sl ml a
    have hka := hk a (List.mem_cons_self ..)
    have hkr : ∀ x ∈ vs, KeyClean x.key := fun x hx => hk x (List.mem_cons_of_mem _ hx)
    obtain ⟨e1, he1, h1⟩ := ignoredFrom_block b (shownKey u a) s cs (vs.flatMap (entryPure u ll sl ml) ++ rest)
      (shownKey_ne_nil u a) (shownKey_clean u a hka) hs hcs (noContHead_blocks u ll sl ml vs hkr rest hb)
    obtain ⟨e2, he2, h2⟩ := ih hkr false
    refine ⟨e1 ++ e2, he1.append he2, ?_⟩
    rw [List.flatMap_cons, he, List.append_assoc, h1, h2, List.append_assoc]

theorem ignoredFrom_single_nil (b : Bool) : ignoredFrom b [[]] = [[]] := by
  rw [ignoredFrom_cons, classify_nil]; rfl

/-- the optional pass followed by the empty line that ends the usage -/
theorem ignored_optional (u : UsageParams) (ll : Nat) (sl : Bool) (ml n : Nat) (vs : List Arg)
    (hk : ∀ a ∈ vs, KeyClean a.key) :
    AllEmpty (ignoredFrom false
      (((if vs ≠ [] then captionLines false n else []) ++ vs.flatMap (entryPure u ll sl ml)) ++ [[]])) := by
  by_cases hv : vs = []
  · subst hv
    simp only [ne_eq, not_true_eq_false, if_false, List.flatMap_nil, List.append_nil, List.nil_append]
    rw [ignoredFrom_single_nil]; exact allEmpty_single
  · rw [if_pos hv]
    obtain ⟨e, he, h⟩ := ignoredFrom_blocks u ll sl ml vs hk [[]] noContHead_single_nil false
    have key : AllEmpty (ignoredFrom false ((captionOptional :: vs.flatMap (entryPure u ll sl ml)) ++ [[]])) := by
      rw [List.cons_append, ignoredFrom_cons, classify_capO]
      simp only
      rw [h, ignoredFrom_single_nil]
      exact he.append allEmpty_single
    unfold captionLines
    simp only [Bool.false_eq_true, if_false]
    by_cases hn : n > 0
    · rw [if_pos hn]
      simp only [List.cons_append, List.nil_append]
      rw [ignoredFrom_cons, classify_nil]
      simp only
      intro l hl
      rcases List.mem_cons.mp hl with rfl | hl
      · rfl
      · exact key l (by simpa using hl)
    · rw [if_neg hn]
      simpa using key

/-- in the model's usage text the reader leaves out the `Usage:` line and empty lines, nothing else -/
theorem ignored_usage_text (u : UsageParams) (ll : Nat) (sl : Bool) (ml : Nat) (args : List Arg)
    (hk : ∀ a ∈ args, KeyClean a.key) :
    ∃ e, AllEmpty e ∧
      ignoredLines ("Usage:".toList ::
        (((if args.filter (doPrint u true) ≠ [] then captionLines true 0 else [])
            ++ (args.filter (doPrint u true)).flatMap (entryPure u ll sl ml))
         ++ ((if args.filter (doPrint u false) ≠ [] then captionLines false (args.filter (doPrint u true)).length else [])
            ++ (args.filter (doPrint u false)).flatMap (entryPure u ll sl ml))) ++ [[]])
      = "Usage:".toList :: e := by
  have hkM : ∀ a ∈ args.filter (doPrint u true), KeyClean a.key := fun a ha => hk a (List.mem_filter.mp ha).1
  have hkO : ∀ a ∈ args.filter (doPrint u false), KeyClean a.key := fun a ha => hk a (List.mem_filter.mp ha).1
  have hO := ignored_optional u ll sl ml (args.filter (doPrint u true)).length _ hkO
  have hNO := noContHead_optional u ll sl ml (args.filter (doPrint u true)).length (args.filter (doPrint u false))
  unfold ignoredLines
  rw [List.cons_append, ignoredFrom_cons, classify_usage, List.append_assoc]
  simp only
  by_cases hv : args.filter (doPrint u true) = []
  · rw [hv]
    simp only [ne_eq, not_true_eq_false, if_false, List.flatMap_nil, List.append_nil, List.nil_append]
    rw [hv] at hO
    exact ⟨_, hO, rfl⟩
  · rw [if_pos hv, show captionLines true 0 = [captionMandatory] from rfl]
    simp only [List.cons_append, List.nil_append]
    rw [ignoredFrom_cons, classify_capM]
    simp only
    obtain ⟨e, he, h⟩ := ignoredFrom_blocks u ll sl ml _ hkM _ hNO false
    rw [h]
    exact ⟨_, he.append hO, rfl⟩

/-- a line the reader classifies as `other` is among the ignored lines -/
theorem other_mem_ignored (l : Str) (hl : classify l = .other) :
    ∀ (ls : List Str) (b : Bool), l ∈ ls → l ∈ ignoredFrom b ls := by
  intro ls
  induction ls with
  | nil => intro b h; cases h
  | cons x xs ih =>
    intro b h
    rw [ignoredFrom_cons]
    rcases List.mem_cons.mp h with rfl | h
    · rw [hl]; exact List.mem_cons_self ..
    · cases classify x with
      | caption m => exact ih false h
      | entry k r => exact ih true h
      | cont =>
        simp only
        cases b
        · exact List.mem_cons_of_mem _ (ih false h)
        · exact ih true h
      | other => exact List.mem_cons_of_mem _ (ih false h)

/-! ### the lines are lines: no newline inside -/

theorem shownKey_noNl (u : UsageParams) (a : Arg) (hk : KeyLine a.key) : ∀ c ∈ shownKey u a, c ≠ '\n' := by
  obtain ⟨h1, h2⟩ := hk
  unfold shownKey
  intro c hc
  cases hu : u.contents <;> rw [hu] at hc <;> simp only at hc
  · cases hs : a.key.short with
    | none =>
      rw [hs] at hc
      simp at hc
      rcases hc with rfl | hc
      · decide
      · exact h2 c hc
    | some x =>
      rw [hs] at hc
      simp only at hc
      split at hc
      · simp at hc
        rcases hc with rfl | rfl
        · decide
        · exact h1 _ hs
      · simp at hc
        rcases hc with rfl | rfl | rfl | rfl | hc
        · decide
        · exact h1 _ hs
        · decide
        · decide
        · exact h2 c hc
  · simp at hc
    rcases hc with rfl | rfl
    · decide
    · cases hs : a.key.short with
      | none => simp
      | some x => simpa using h1 _ hs
  · simp at hc
    rcases hc with rfl | hc
    · decide
    · exact h2 c hc

def NoNl (l : Str) : Prop := ∀ c ∈ l, c ≠ '\n'

theorem NoNl.append {a b : Str} (ha : NoNl a) (hb : NoNl b) : NoNl (a ++ b) := by
  intro c hc
  rcases List.mem_append.mp hc with h | h
  · exact ha c h
  · exact hb c h

theorem noNl_replicate (n : Nat) : NoNl (List.replicate n ' ') := by
  intro c hc
  rw [(List.mem_replicate.mp hc).2]; decide

theorem noNl_nil : NoNl [] := by intro c hc; cases hc

theorem emit_noNl (cur : Str) (ls : List Str) (hc : NoNl cur) (hls : ∀ l ∈ ls, NoNl l) :
    ∀ l ∈ emit cur ls, NoNl l := by
  cases ls with
  | nil => intro l hl; simp [emit] at hl; subst hl; exact hc
  | cons x xs =>
    intro l hl
    simp only [emit, List.mem_cons] at hl
    rcases hl with rfl | hl
    · exact hc.append (hls x (List.mem_cons_self ..))
    · exact hls l (List.mem_cons_of_mem _ hl)

theorem entryPure_noNl (u : UsageParams) (ll : Nat) (sl : Bool) (ml : Nat) (a : Arg) (hk : KeyLine a.key) :
    ∀ l ∈ entryPure u ll sl ml a, NoNl l := by
  have hkey : NoNl (keyStr u.contents a.key) := by rw [keyStr_eq_shown]; exact shownKey_noNl u a hk
  have hind : NoNl indention := noNl_replicate _
  unfold entryPure
  cases sl with
  | true =>
    simp only [if_true]
    apply emit_noNl
    · unfold padRight
      exact (hind.append (hkey.append (noNl_replicate _))).append hind
    · exact fun l hl => Props.C17.C17_lines _ _ l hl
  | false =>
    simp only [Bool.false_eq_true, if_false]
    intro l hl
    rcases List.mem_cons.mp hl with rfl | hl
    · exact hind.append hkey
    · exact emit_noNl [] _ noNl_nil (fun l hl => Props.C17.C17_lines _ _ l hl) l hl

theorem blocks_noNl (u : UsageParams) (ll : Nat) (sl : Bool) (ml : Nat) (vs : List Arg)
    (hk : ∀ a ∈ vs, KeyLine a.key) : ∀ l ∈ vs.flatMap (entryPure u ll sl ml), NoNl l := by
  intro l hl
  obtain ⟨a, ha, hla⟩ := List.mem_flatMap.mp hl
  exact entryPure_noNl u ll sl ml a (hk a ha) l hla

theorem captionLines_noNl (pim : Bool) (n : Nat) : ∀ l ∈ captionLines pim n, NoNl l := by
  have hM : NoNl captionMandatory := by unfold NoNl; decide
  have hO : NoNl captionOptional := by unfold NoNl; decide
  intro l hl
  unfold captionLines at hl
  cases pim
  · simp only [Bool.false_eq_true, if_false] at hl
    by_cases hn : n > 0
    · rw [if_pos hn] at hl
      simp at hl
      rcases hl with rfl | rfl
      · exact noNl_nil
      · exact hO
    · rw [if_neg hn] at hl
      simp at hl; subst hl; exact hO
  · simp at hl; subst hl; exact hM

/-- no line of the model's usage text contains a newline -/
theorem usage_text_noNl (u : UsageParams) (ll : Nat) (sl : Bool) (ml : Nat) (args : List Arg)
    (hk : ∀ a ∈ args, KeyLine a.key) :
    ∀ l ∈ ("Usage:".toList ::
        (((if args.filter (doPrint u true) ≠ [] then captionLines true 0 else [])
            ++ (args.filter (doPrint u true)).flatMap (entryPure u ll sl ml))
         ++ ((if args.filter (doPrint u false) ≠ [] then captionLines false (args.filter (doPrint u true)).length else [])
            ++ (args.filter (doPrint u false)).flatMap (entryPure u ll sl ml))) ++ [[]]), NoNl l := by
  have hU : NoNl "Usage:".toList := by unfold NoNl; decide
  have hkM : ∀ a ∈ args.filter (doPrint u true), KeyLine a.key := fun a ha => hk a (List.mem_filter.mp ha).1
  have hkO : ∀ a ∈ args.filter (doPrint u false), KeyLine a.key := fun a ha => hk a (List.mem_filter.mp ha).1
  have hcap : ∀ (c : Prop) [Decidable c] (pim : Bool) (n : Nat), ∀ l ∈ (if c then captionLines pim n else []), NoNl l := by
    intro c _ pim n l hl
    by_cases hc : c
    · rw [if_pos hc] at hl; exact captionLines_noNl pim n l hl
    · rw [if_neg hc] at hl; cases hl
  intro l hl
  simp only [List.cons_append, List.mem_cons, List.mem_append] at hl
  rcases hl with rfl | ((h | h) | (h | h)) | h
  · exact hU
  · exact hcap _ _ _ l h
  · exact blocks_noNl u ll sl ml _ hkM l h
  · exact hcap _ _ _ l h
  · exact blocks_noNl u ll sl ml _ hkO l h
  · simp at h; subst h; exact noNl_nil

theorem splitNlFrom_line (l : Str) (hl : NoNl l) : ∀ (cur rest : Str),
    splitNlFrom cur (l ++ '\n' :: rest) = (cur ++ l) :: splitNlFrom [] rest := by
  induction l with
  | nil => intro cur rest; simp [splitNlFrom]
  | cons c cs ih =>
    intro cur rest
    have hc : c ≠ '\n' := hl c (List.mem_cons_self ..)
    rw [List.cons_append, splitNlFrom, if_neg hc, ih (fun x hx => hl x (List.mem_cons_of_mem _ hx))]
    simp

/-- cutting the byte text at the newlines gives back the lines -/
theorem splitNl_unlines (ls : List Str) (h : ∀ l ∈ ls, NoNl l) : splitNl (unlines ls) = ls := by
  unfold splitNl
  induction ls with
  | nil => simp [unlines, splitNlFrom]
  | cons l ls ih =>
    rw [unlines, splitNlFrom_line l (h l (List.mem_cons_self ..)), List.nil_append,
      ih (fun x hx => h x (List.mem_cons_of_mem _ hx))]

end CelmaVerif.Usage
