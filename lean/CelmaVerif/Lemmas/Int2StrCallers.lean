import CelmaVerif.Lemmas.Int2Str
/-
  Generic lemmas for the integer-to-string model (C13), part 2: the caller functions.
  Tables that pass the decidable checks (`treeOk`, `rowsOk`, `unsignedOk`, `negCallersOk`,
  `negationOk`, `dispatchOk`) convert every value of the type exactly — string and buffer variants.
-/
namespace CelmaVerif.Int2Str
open CelmaVerif CelmaVerif.Digits

/-! ### fixed-width conversions -/

theorem two_pos (b : Nat) : 0 < two b := by
  unfold two
  exact Int.natCast_pos.mpr (Nat.pow_pos (by decide))

theorem emod_two_nat (x b : Nat) (h : x < 2 ^ b) : ((x : Int).emod (two b)).toNat = x := by
  have : (x : Int).emod (two b) = (x : Int) := by
    show (x : Int) % two b = x
    apply Int.emod_eq_of_lt (by omega)
    unfold two
    exact_mod_cast h
  rw [this]
  simp

theorem emod_two_int (x b : Nat) (h : x < 2 ^ b) : (x : Int).emod (two b) = (x : Int) := by
  show (x : Int) % two b = x
  apply Int.emod_eq_of_lt (by omega)
  unfold two
  exact_mod_cast h

theorem pow_pred_lt (b : Nat) (hb : 1 ≤ b) : 2 ^ (b - 1) < 2 ^ b :=
  Nat.pow_lt_pow_right (by decide) (by omega)

/-- the magnitude of a negative value of an `b`-bit signed type fits the unsigned type -/
theorem natAbs_lt (b : Nat) (hb : 1 ≤ b) (v : Int) (hlo : -(two (b - 1)) ≤ v) (hneg : v < 0) :
    v.natAbs < 2 ^ b ∧ 1 ≤ v.natAbs ∧ v.natAbs ≤ 2 ^ (b - 1) := by
  have := pow_pred_lt b hb
  unfold two at hlo
  omega

theorem negate_ok (f : FileSpec) (c : Caller) (ns : NegSpec) (hc : c.neg = some ns) (hn : negOk f c = true)
    (v : Int) (hlo : -(two (f.bits - 1)) ≤ v) (hneg : v < 0) :
    negate c.paramBits ns v = .ok v.natAbs := by
  simp only [negOk, hc, Bool.and_eq_true, decide_eq_true_eq, beq_iff_eq] at hn
  obtain ⟨⟨⟨⟨⟨hb, hpb⟩, _⟩, _⟩, _⟩, habs, hk⟩ := hn
  obtain ⟨h1, h2, h3⟩ := natAbs_lt f.bits hb v hlo hneg
  have hnv : -v = (v.natAbs : Int) := by omega
  have hfin : ((-v).emod (two ns.absBits)).toNat = v.natAbs := by
    rw [hnv, habs]
    exact emod_two_nat _ _ h1
  unfold negate
  cases hkind : ns.kind with
  | inSigned =>
    rw [hkind] at hk
    simp only [decide_eq_true_eq] at hk
    simp only [hpb]
    rw [if_pos hk]
    have h30 : 2 ^ (f.bits - 1) ≤ 2 ^ 30 := Nat.pow_le_pow_right (by decide) (by omega)
    have e31 : two (32 - 1) = 2147483648 := by decide
    have e30 : (2 : Nat) ^ 30 = 1073741824 := by decide
    rw [if_pos (by rw [e31]; omega), hfin]
  | inUnsigned =>
    rw [hkind] at hk
    simp only [beq_iff_eq] at hk
    simp only
    rw [hk]
    have hm : v.emod (two f.bits) = v + two f.bits := by
      show v % two f.bits = v + two f.bits
      rw [← Int.add_emod_right v (two f.bits)]
      apply Int.emod_eq_of_lt
      · unfold two at hlo ⊢; have := pow_pred_lt f.bits hb; omega
      · omega
    rw [hm, habs]
    have : (-(v + two f.bits)).emod (two f.bits) = (v.natAbs : Int) := by
      show (-(v + two f.bits)) % two f.bits = (v.natAbs : Int)
      rw [← Int.add_emod_right (-(v + two f.bits)) (two f.bits)]
      have : -(v + two f.bits) + two f.bits = (v.natAbs : Int) := by omega
      rw [this]
      exact emod_two_int _ _ h1
    rw [this]
    simp

/-! ### `prep` -/

theorem tree_at (f : FileSpec) (ht : f.treeOk = true) (x : Nat) (hx : x < 2 ^ f.bits) :
    IsLen x (f.tree.eval x) ∧ f.tree.eval x ∈ f.tree.leaves ∧ f.lenCast = f.bits ∧ f.convBits = f.bits := by
  simp only [FileSpec.treeOk, Bool.and_eq_true, beq_iff_eq] at ht
  obtain ⟨⟨h1, h2⟩, h3⟩ := ht
  have := Tree.ok_sound f.tree 0 (2 ^ f.bits) x h1 (Nat.zero_le _) hx
  exact ⟨this.1, this.2, h2, h3⟩

theorem prep_unsigned (f : FileSpec) (c : Caller) (hc : unsignedCallerOk f c = true) (ht : f.treeOk = true)
    (x : Nat) (hx : x < 2 ^ f.bits) :
    prep f c (x : Int) = .ok ⟨x, x, f.tree.eval x, (c.env (f.tree.eval x)).2⟩ := by
  simp only [unsignedCallerOk, Bool.and_eq_true, beq_iff_eq, Bool.not_eq_true', Option.isNone_iff_eq_none] at hc
  obtain ⟨⟨h1, h2⟩, h3⟩ := hc
  obtain ⟨_, _, hl, _⟩ := tree_at f ht x hx
  unfold prep
  simp only [h1, h2, h3, Bool.false_eq_true, ite_self, hl, emod_two_int x f.bits hx, Int.toNat_natCast]
  rfl

theorem prep_neg (f : FileSpec) (c : Caller) (hn : negOk f c = true) (ht : f.treeOk = true)
    (v : Int) (hlo : -(two (f.bits - 1)) ≤ v) (hneg : v < 0) :
    prep f c v = .ok ⟨v.natAbs, v.natAbs, f.tree.eval v.natAbs, (c.env (f.tree.eval v.natAbs)).2⟩ := by
  have hn' := hn
  simp only [negOk, Bool.and_eq_true, decide_eq_true_eq, beq_iff_eq] at hn'
  obtain ⟨⟨⟨⟨⟨hb, hpb⟩, hps⟩, hla⟩, hca⟩, hrest⟩ := hn'
  cases hc : c.neg with
  | none => rw [hc] at hrest; cases hrest
  | some ns =>
    have hneg' := negate_ok f c ns hc hn v hlo hneg
    obtain ⟨hx, _, _⟩ := natAbs_lt f.bits hb v hlo hneg
    obtain ⟨_, _, hl, _⟩ := tree_at f ht v.natAbs hx
    unfold prep
    simp only [hps, if_true, hc, hneg', hla, hca, hl, emod_two_int _ f.bits hx, Int.toNat_natCast]
    rfl

/-! ### running `convert()` from a caller -/

theorem conv_run (f : FileSpec) (g : Byte) (c : Caller) (x k : Nat) (glen : Int)
    (ht : f.treeOk = true) (hx : x < 2 ^ f.bits)
    (hrow : rowOk f k = true) (hlen : IsLen x k) (s : Nat) (mem : List Byte)
    (hend : c.endOff.eval (k : Int) glen = ((outLen f.grouped k + s : Nat) : Int) - 1)
    (hmem : outLen f.grouped k + s ≤ mem.length) :
    memOf (exec g (switchOps f.rows k) (convState f c ⟨x, x, k, glen⟩ mem)) =
      .ok (mem.take s ++ body f.grouped g x ++ mem.drop (outLen f.grouped k + s)) := by
  obtain ⟨_, _, _, hcb⟩ := tree_at f ht x hx
  have h1 := one_le_outLen f.grouped k hlen.1
  obtain ⟨p0, hp0⟩ : ∃ p0, outLen f.grouped k + s = p0 + 1 := ⟨outLen f.grouped k + s - 1, by omega⟩
  have hpos : c.endOff.eval (k : Int) glen = (p0 : Int) := by
    rw [hend, hp0]; omega
  unfold convState
  simp only [hpos, hcb, emod_two_nat x f.bits hx]
  rw [convert_core f g k x hrow hlen mem p0 (by omega) (by omega), hp0]
  have : p0 + 1 - outLen f.grouped k = s := by omega
  rw [this]

theorem rows_at (f : FileSpec) (hr : f.rowsOk = true) (k : Nat) (hk : k ∈ f.tree.leaves) : rowOk f k = true := by
  simp only [FileSpec.rowsOk, List.all_eq_true] at hr
  exact hr k hk

/-! ### string variants -/

theorem runStr_core (f : FileSpec) (c : Caller) (g : Byte) (v : Int) (x : Nat) (s : Nat)
    (ht : f.treeOk = true) (hr : f.rowsOk = true) (hx : x < 2 ^ f.bits)
    (hp : prep f c v = .ok ⟨x, x, f.tree.eval x, (c.env (f.tree.eval x)).2⟩)
    (hc : strCallerOkAt f.grouped c s (f.tree.eval x) = true) (hs : s ≤ 1) :
    runStr f c g v = .ok ((if s = 1 then [45] else []) ++ body f.grouped g x) := by
  obtain ⟨hlen, hleaf, _, _⟩ := tree_at f ht x hx
  have hrow := rows_at f hr _ hleaf
  unfold strCallerOkAt at hc
  unfold runStr
  rw [hp]
  cases hsz : c.strSize with
  | none => rw [hsz] at hc; cases hc
  | some p =>
    obtain ⟨sz, fill⟩ := p
    rw [hsz] at hc
    simp only [Bool.and_eq_true, beq_iff_eq, Bool.or_eq_true, evalAt] at hc
    obtain ⟨⟨h1, h2⟩, h3⟩ := hc
    simp only [Caller.env] at h1 h2 ⊢
    simp only [h1]
    rw [if_neg (by omega)]
    rw [conv_run f g c x _ _ ht hx hrow hlen s _ h2 (by simp only [List.length_replicate, Int.toNat_natCast]; omega)]
    have hb := length_body f.grouped g x _ hlen
    congr 1
    simp only [Int.toNat_natCast, List.drop_replicate, Nat.sub_self, List.replicate_zero, List.append_nil,
      List.take_replicate]
    congr 1
    have : s = 0 ∨ s = 1 := by omega
    rcases this with h | h
    · subst h; simp
    · subst h
      rcases h3 with h3 | h3
      · cases h3
      · subst h3
        simp [Nat.min_eq_left (Nat.le_add_left 1 _)]

/-- `uintNtoString( value)`: exactly the decimal digits, for every value of the type -/
theorem runStr_unsigned (f : FileSpec) (ht : f.treeOk = true) (hr : f.rowsOk = true) (hu : f.unsignedOk = true)
    (g : Byte) (x : Nat) (hx : x < 2 ^ f.bits) :
    runStr f f.ustr g (x : Int) = .ok (body f.grouped g x) := by
  simp only [FileSpec.unsignedOk, Bool.and_eq_true, List.all_eq_true] at hu
  obtain ⟨⟨hu1, _⟩, hall⟩ := hu
  obtain ⟨_, hleaf, _, _⟩ := tree_at f ht x hx
  have := runStr_core f f.ustr g x x 0 ht hr hx (prep_unsigned f _ hu1 ht x hx) (hall _ hleaf).1 (by decide)
  simpa using this

/-- `intNnegToString( value)`: `-` and the digits of `|value|`, including the minimum of the type -/
theorem runStr_neg (f : FileSpec) (ht : f.treeOk = true) (hr : f.rowsOk = true) (hc : f.negCallersOk = true)
    (hn : f.negationOk = true) (g : Byte) (v : Int) (hlo : -(two (f.bits - 1)) ≤ v) (hneg : v < 0) :
    runStr f f.nstr g v = .ok (45 :: body f.grouped g v.natAbs) := by
  simp only [FileSpec.negCallersOk, Bool.and_eq_true, List.all_eq_true] at hc
  simp only [FileSpec.negationOk, Bool.and_eq_true] at hn
  have hb : 1 ≤ f.bits := by
    have := hn.1
    simp only [negOk, Bool.and_eq_true, decide_eq_true_eq] at this
    exact this.1.1.1.1.1
  obtain ⟨hx, _, _⟩ := natAbs_lt f.bits hb v hlo hneg
  obtain ⟨_, hleaf, _, _⟩ := tree_at f ht v.natAbs hx
  have := runStr_core f f.nstr g v v.natAbs 1 ht hr hx (prep_neg f _ hn.1 ht v hlo hneg) (hc _ hleaf).1 (by decide)
  simpa using this

/-! ### buffer variants -/

theorem store_ok (mem : List Byte) (n : Nat) (b : Byte) (w : String) (h : n < mem.length) :
    store mem (n : Int) b w = .ok (mem.set n b) := by
  unfold store
  rw [if_pos (by omega)]
  simp

theorem drop_set_self (mem : List Byte) (n : Nat) (b : Byte) (h : n < mem.length) :
    (mem.set n b).drop n = b :: mem.drop (n + 1) := by
  rw [List.drop_set, if_neg (by omega), Nat.sub_self, List.drop_eq_getElem_cons h]
  rfl

theorem runBuf_core (f : FileSpec) (c : Caller) (g : Byte) (v : Int) (x : Nat) (s : Nat)
    (ht : f.treeOk = true) (hr : f.rowsOk = true) (hx : x < 2 ^ f.bits)
    (hp : prep f c v = .ok ⟨x, x, f.tree.eval x, (c.env (f.tree.eval x)).2⟩)
    (hc : bufCallerOkAt f.grouped c s (f.tree.eval x) = true) (hs : s ≤ 1)
    (buf : List Byte) (hcap : outLen f.grouped (f.tree.eval x) + s + 1 ≤ buf.length) :
    runBuf f c g v buf =
      .ok ((if s = 1 then [45] else []) ++ body f.grouped g x ++ [0] ++ buf.drop (outLen f.grouped (f.tree.eval x) + s + 1),
           ((outLen f.grouped (f.tree.eval x) + s : Nat) : Int)) := by
  obtain ⟨hlen, hleaf, _, _⟩ := tree_at f ht x hx
  have hrow := rows_at f hr _ hleaf
  have hbl := length_body f.grouped g x _ hlen
  have h1o := one_le_outLen f.grouped _ hlen.1
  unfold bufCallerOkAt at hc
  simp only [Bool.and_eq_true, evalAt, Caller.env, beq_iff_eq] at hc
  obtain ⟨⟨⟨⟨_, hnul⟩, hend⟩, hsign⟩, hret⟩ := hc
  generalize hk : f.tree.eval x = k at *
  generalize hn : outLen f.grouped k = n at *
  unfold runBuf
  rw [hp]
  simp only [Caller.env]
  cases hna : c.nulAt with
  | none => rw [hna] at hnul; cases hnul
  | some p =>
    obtain ⟨e, b⟩ := p
    rw [hna] at hnul
    simp only [Bool.and_eq_true, beq_iff_eq] at hnul
    obtain ⟨he, hb0⟩ := hnul
    subst hb0
    simp only [storeOpt, he]
    rw [store_ok buf (n + s) 0 _ (by omega)]
    simp only
    rw [conv_run f g c x k _ ht hx hrow hlen s _ (by rw [hn]; exact hend) (by rw [List.length_set, hn]; omega)]
    simp only [hn, hret]
    rw [drop_set_self buf (n + s) 0 (by omega), List.take_set_of_le (by omega)]
    have hs' : s = 0 ∨ s = 1 := by omega
    cases hsa : c.signAt with
    | none =>
      rw [hsa] at hsign
      simp only [beq_iff_eq] at hsign
      subst hsign
      simp
    | some q =>
      obtain ⟨e2, b2⟩ := q
      rw [hsa] at hsign
      simp only [Bool.and_eq_true, beq_iff_eq] at hsign
      obtain ⟨⟨hs1, he2⟩, hb2⟩ := hsign
      subst hs1 hb2
      simp only [he2]
      have hne : buf ≠ [] := by intro h; rw [h] at hcap; simp at hcap
      obtain ⟨b0, rest, rfl⟩ := List.exists_cons_of_ne_nil hne
      simp [store]
      rw [if_pos (by omega)]

/-- `uintNtoString( buffer, value)`: text and NUL at the front of the buffer, the rest untouched,
    the text length returned -/
theorem runBuf_unsigned (f : FileSpec) (ht : f.treeOk = true) (hr : f.rowsOk = true) (hu : f.unsignedOk = true)
    (g : Byte) (x : Nat) (hx : x < 2 ^ f.bits) (buf : List Byte)
    (hcap : (body f.grouped g x).length + 1 ≤ buf.length) :
    runBuf f f.ubuf g (x : Int) buf =
      .ok (body f.grouped g x ++ [0] ++ buf.drop ((body f.grouped g x).length + 1), ((body f.grouped g x).length : Int)) := by
  simp only [FileSpec.unsignedOk, Bool.and_eq_true, List.all_eq_true] at hu
  obtain ⟨⟨_, hu2⟩, hall⟩ := hu
  obtain ⟨hlen, hleaf, _, _⟩ := tree_at f ht x hx
  have hbl := length_body f.grouped g x _ hlen
  rw [hbl] at hcap ⊢
  have := runBuf_core f f.ubuf g x x 0 ht hr hx (prep_unsigned f _ hu2 ht x hx) (hall _ hleaf).2 (by decide) buf
    (by omega)
  simpa using this

/-- `intNnegToString( buffer, value)` -/
theorem runBuf_neg (f : FileSpec) (ht : f.treeOk = true) (hr : f.rowsOk = true) (hc : f.negCallersOk = true)
    (hn : f.negationOk = true) (g : Byte) (v : Int) (hlo : -(two (f.bits - 1)) ≤ v) (hneg : v < 0)
    (buf : List Byte) (hcap : (body f.grouped g v.natAbs).length + 2 ≤ buf.length) :
    runBuf f f.nbuf g v buf =
      .ok (45 :: body f.grouped g v.natAbs ++ [0] ++ buf.drop ((body f.grouped g v.natAbs).length + 2),
           (((body f.grouped g v.natAbs).length + 1 : Nat) : Int)) := by
  simp only [FileSpec.negCallersOk, Bool.and_eq_true, List.all_eq_true] at hc
  simp only [FileSpec.negationOk, Bool.and_eq_true] at hn
  have hb : 1 ≤ f.bits := by
    have := hn.2
    simp only [negOk, Bool.and_eq_true, decide_eq_true_eq] at this
    exact this.1.1.1.1.1
  obtain ⟨hx, _, _⟩ := natAbs_lt f.bits hb v hlo hneg
  obtain ⟨hlen, hleaf, _, _⟩ := tree_at f ht v.natAbs hx
  have hbl := length_body f.grouped g v.natAbs _ hlen
  rw [hbl] at hcap ⊢
  have := runBuf_core f f.nbuf g v v.natAbs 1 ht hr hx (prep_neg f _ hn.2 ht v hlo hneg) (hc _ hleaf).2 (by decide) buf
    (by omega)
  simpa using this

end CelmaVerif.Int2Str
