import CelmaVerif.Model.ProgArgs.SubGroups
/-
  Conservativity of the sub-group extension: a handler tree without sub-group arguments evaluates
  exactly as the plain handler model, element by element, so every theorem about `evalArguments` /
  `groupsEval` is a theorem about `evalArgumentsT` / `groupsEvalT` on such trees.
-/
namespace CelmaVerif.ProgArgs
open CelmaVerif CelmaVerif.Keys

theorem findArg_nil {α : Type} (abbr : Bool) (k : Key) : findArg abbr ([] : List (Key × α)) k = .ok none := by
  unfold findArg findExact
  cases abbr <;> simp [findAbbr]

theorem findSub_nil {α β : Type} (abbr : Bool) (plainT : List (Key × β)) (k : Key) :
    findSub abbr ([] : List (Key × α)) plainT k = .ok none := by
  unfold findSub
  simp only [findExact]
  cases findExact k plainT 0 with
  | some r => rfl
  | none => simp only [findArg_nil]; rfl

theorem liftMain_bind {α β : Type} (t : TState) (r : Res α) (f : α → Res (HState × β)) :
    liftMain t (r >>= f) = r >>= fun a => liftMain t (f a) := by
  cases r <;> rfl

theorem processArgT_nil (cfg : TCfg) (hs : cfg.subs = []) (t : TState) (key : Key) (ai : It) :
    processArgT cfg t key ai = liftMain t (processArg cfg.main t.main key ai) := by
  unfold processArgT TCfg.subTable
  rw [hs]
  simp only [List.map_nil, findSub_nil, Res.bind_ok]

theorem evalSingleArgument_char (c : Cfg) (h : HState) (ai : It) (hty : ai.cur.ty = .singleCharArg) :
    evalSingleArgument c h ai = processArg c h (Key.ofChar ai.cur.ch) ai := by
  unfold evalSingleArgument; simp only [hty]

theorem evalSingleArgument_string (c : Cfg) (h : HState) (ai : It) (hty : ai.cur.ty = .stringArg) :
    evalSingleArgument c h ai = (wordKey ai.cur.str >>= fun key => processArg c h key ai) := by
  unfold evalSingleArgument; simp only [hty]

theorem evalSingleArgumentT_nil (cfg : TCfg) (hs : cfg.subs = []) (t : TState) (ai : It) :
    evalSingleArgumentT cfg t ai = liftMain t (evalSingleArgument cfg.main t.main ai) := by
  unfold evalSingleArgumentT
  cases hty : ai.cur.ty with
  | singleCharArg =>
    simp only []
    rw [evalSingleArgument_char _ _ _ hty]; exact processArgT_nil cfg hs t _ ai
  | stringArg =>
    simp only []
    rw [evalSingleArgument_string _ _ _ hty, liftMain_bind]
    congr 1; funext key; exact processArgT_nil cfg hs t key ai
  | invalid => rfl
  | value => rfl
  | control => rfl

theorem iterateLoopT_nil (cfg : TCfg) (hs : cfg.subs = []) (fuel : Nat) : ∀ (t : TState) (ai : It),
    iterateLoopT cfg fuel t ai = liftMain' t (iterateLoop cfg.main fuel t.main ai) := by
  induction fuel with
  | zero => intro t ai; rfl
  | succ fuel ih =>
    intro t ai
    unfold iterateLoopT iterateLoop
    split
    · rfl
    · rw [evalSingleArgumentT_nil cfg hs]
      cases he : evalSingleArgument cfg.main t.main ai with
      | ok p =>
        obtain ⟨h', ai', r⟩ := p
        simp only [liftMain, Res.bind_ok]
        cases r with
        | unknown => rfl
        | last => rfl
        | consumed =>
          dsimp only
          cases hst : ai'.step with
          | ok ai'' => simp only [Res.bind_ok]; rw [ih]; rfl
          | throw e => rfl
          | oob w => rfl
      | throw e => rfl
      | oob w => rfl

theorem iterateArgumentsT_nil (cfg : TCfg) (hs : cfg.subs = []) (t : TState) (argv : List Word) :
    iterateArgumentsT cfg t argv = liftMain' t (iterateArguments cfg.main t.main argv) := by
  unfold iterateArgumentsT iterateArguments
  cases It.begin argv with
  | ok ai => simp only [Res.bind_ok]; exact iterateLoopT_nil cfg hs _ t ai
  | throw e => rfl
  | oob w => rfl

theorem readFileLinesT_nil (cfg : TCfg) (hs : cfg.subs = []) (lines : List Word) : ∀ (t : TState),
    readFileLinesT cfg lines t = liftMain' t (readFileLines cfg.main lines t.main) := by
  induction lines with
  | nil => intro t; rfl
  | cons line rest ih =>
    intro t
    unfold readFileLinesT readFileLines
    split
    · exact ih t
    · rw [iterateArgumentsT_nil cfg hs]
      cases iterateArguments cfg.main t.main (ArgString.defaultProgName :: ArgString.splitString line) with
      | ok h' => simp only [liftMain', Res.bind_ok]; rw [ih]; rfl
      | throw e => rfl
      | oob w => rfl

theorem evalFileSourceT_nil (cfg : TCfg) (hs : cfg.subs = []) (file : Option (List Word)) (t : TState) :
    evalFileSourceT cfg file t = liftMain' t (evalFileSource cfg.main file t.main) := by
  unfold evalFileSourceT evalFileSource
  cases file with
  | none => rfl
  | some lines =>
    dsimp only
    rw [readFileLinesT_nil cfg hs]
    simp only [setFromSrc]
    cases readFileLines cfg.main lines { t.main with fromSrc := true } with
    | ok h' => rfl
    | throw e => rfl
    | oob w => rfl

theorem evalEnvSourceT_nil (cfg : TCfg) (hs : cfg.subs = []) (env : Option Word) (t : TState) :
    evalEnvSourceT cfg env t = liftMain' t (evalEnvSource cfg.main env t.main) := by
  unfold evalEnvSourceT evalEnvSource
  cases env with
  | none => rfl
  | some e =>
    dsimp only
    rw [iterateArgumentsT_nil cfg hs]
    simp only [setFromSrc]
    cases iterateArguments cfg.main { t.main with fromSrc := true }
        (ArgString.defaultProgName :: ArgString.splitString e) with
    | ok h' => rfl
    | throw e => rfl
    | oob w => rfl

theorem checkSubMandatoryCardinality_nil (sts : List ArgSt) : checkSubMandatoryCardinality [] sts = .ok () := by
  unfold checkSubMandatoryCardinality; simp [checkMandatoryCardinality]

theorem endChecksT_nil (cfg : TCfg) (hs : cfg.subs = []) (t : TState) :
    endChecksT cfg t = liftMain' t (endChecks cfg.main t.main) := by
  unfold endChecksT endChecks
  rw [hs, checkSubMandatoryCardinality_nil]
  dsimp only
  cases checkMandatoryCardinality cfg.main.args t.main.args with
  | ok _ =>
    simp only [Res.bind_ok]
    cases pendingCheckRequired t.main.pending with
    | ok _ =>
      simp only [Res.bind_ok]
      cases checkGlobals cfg.main.args t.main.args cfg.main.globals t.main.globals <;> rfl
    | throw e => rfl
    | oob w => rfl
  | throw e => rfl
  | oob w => rfl

theorem liftMain'_bind (t : TState) (r : Res HState) (f : HState → Res HState) (g : TState → Res TState)
    (hfg : ∀ h, g { t with main := h } = liftMain' t (f h)) :
    (liftMain' t r >>= g) = liftMain' t (r >>= f) := by
  cases r with
  | ok h => exact hfg h
  | throw e => rfl
  | oob w => rfl

/-- **conservativity, single handler**: without sub-group arguments `evalArgumentsT` is
    `evalArguments` on the main handler's state; the rest of the tree state is untouched -/
theorem evalArgumentsT_nil (cfg : TCfg) (hs : cfg.subs = []) (t : TState) (src : Sources) (argv : List Word) :
    evalArgumentsT cfg t src argv = liftMain' t (evalArguments cfg.main t.main src argv) := by
  unfold evalArgumentsT evalArguments
  rw [evalFileSourceT_nil cfg hs]
  apply liftMain'_bind
  intro h1
  rw [evalEnvSourceT_nil cfg hs]
  apply liftMain'_bind
  intro h2
  rw [iterateArgumentsT_nil cfg hs]
  apply liftMain'_bind
  intro h3
  exact endChecksT_nil cfg hs _

/-! ## groups -/

def mapRes {α β : Type} (f : α → β) : Res α → Res β
  | .ok a => .ok (f a)
  | .throw e => .throw e
  | .oob w => .oob w

theorem clearLastT_tree (ms : List (Cfg × HState)) : clearLastT (treeMembers ms) = treeMembers (clearLast ms) := by
  unfold clearLastT treeMembers clearLast
  simp only [List.map_map]
  rfl

theorem offerT_tree (isKey : Bool) : ∀ (ms : List (Cfg × HState)) (ai : It),
    offerT isKey (treeMembers ms) ai = mapRes (fun x => (treeMembers x.1, x.2)) (offer isKey ms ai) := by
  intro ms
  induction ms with
  | nil => intro ai; rfl
  | cons m rest ih =>
    intro ai
    obtain ⟨c, h⟩ := m
    show offerT isKey (({ main := c }, { main := h }) :: treeMembers rest) ai = _
    unfold offerT offer
    rw [evalSingleArgumentT_nil { main := c } rfl]
    cases he : evalSingleArgument c h ai with
    | ok p =>
      obtain ⟨h', ai', r⟩ := p
      simp only [liftMain, Res.bind_ok]
      by_cases hr : (r != ArgResult.unknown) = true
      · simp only [hr, if_true]
        cases isKey
        · rfl
        · simp only [if_true, clearLastT_tree]; rfl
      · simp only [hr]
        rw [ih]
        cases offer isKey rest ai with
        | ok q =>
          obtain ⟨rest', ai'', r'⟩ := q
          simp only [mapRes, Res.bind_ok]
          by_cases hc : (isKey && r' != ArgResult.unknown) = true
          · simp only [hc, if_true]; rfl
          · simp only [hc]; rfl
        | throw e => rfl
        | oob w => rfl
    | throw e => rfl
    | oob w => rfl

theorem groupsLoopT_tree (fuel : Nat) : ∀ (ms : List (Cfg × HState)) (ai : It),
    groupsLoopT fuel (treeMembers ms) ai = mapRes treeMembers (groupsLoop fuel ms ai) := by
  induction fuel with
  | zero => intro ms ai; rfl
  | succ fuel ih =>
    intro ms ai
    unfold groupsLoopT groupsLoop
    split
    · rfl
    · rw [offerT_tree]
      cases offer (ai.cur.ty != ElemType.value) ms ai with
      | ok q =>
        obtain ⟨ms', ai', r⟩ := q
        simp only [mapRes, Res.bind_ok]
        split
        · rfl
        · cases ai'.step with
          | ok ai'' => simp only [Res.bind_ok]; exact ih ms' ai''
          | throw e => rfl
          | oob w => rfl
      | throw e => rfl
      | oob w => rfl

theorem memberEndChecksT_tree (c : Cfg) (h : HState) :
    memberEndChecksT { main := c } { main := h } = memberEndChecks c h := by
  unfold memberEndChecksT memberEndChecks
  simp only [checkSubMandatoryCardinality_nil]
  rfl

theorem groupsEndChecksT_tree : ∀ (ms : List (Cfg × HState)),
    groupsEndChecksT (treeMembers ms) = groupsEndChecks ms := by
  intro ms
  induction ms with
  | nil => rfl
  | cons m rest ih =>
    obtain ⟨c, h⟩ := m
    show groupsEndChecksT (({ main := c }, { main := h }) :: treeMembers rest) = _
    unfold groupsEndChecksT groupsEndChecks
    rw [memberEndChecksT_tree, ih]

/-- **conservativity, groups**: members without sub-group arguments are evaluated by `groupsEvalT`
    exactly as by `groupsEval` -/
theorem groupsEvalT_nil (cfg : Cfg) (inits : List DVal) (am gm order : List Nat) (argv : List Word) :
    groupsEvalT { main := cfg } { main := inits } am [] gm order argv =
      mapRes treeMembers (groupsEval cfg inits am gm order argv) := by
  unfold groupsEvalT groupsEval
  cases throwIf order.isEmpty Exc.runtime_error with
  | ok _ =>
    simp only [Res.bind_ok]
    have hm : (order.map fun m =>
        (memberTCfg { main := cfg } am [] gm m,
          (memberTCfg { main := cfg } am [] gm m).initState (memberTInits { main := inits } am [] m))) =
        treeMembers (order.map fun m => (memberCfg cfg am gm m, (memberCfg cfg am gm m).initState (memberInits inits am m))) := by
      unfold treeMembers
      simp only [List.map_map]
      rfl
    rw [hm]
    cases It.begin argv with
    | ok ai =>
      simp only [Res.bind_ok]
      rw [groupsLoopT_tree]
      cases groupsLoop (totalChars argv) _ ai with
      | ok ms' =>
        simp only [mapRes, Res.bind_ok]
        rw [groupsEndChecksT_tree]
        cases groupsEndChecks ms' <;> rfl
      | throw e => rfl
      | oob w => rfl
    | throw e => rfl
    | oob w => rfl
  | throw e => rfl
  | oob w => rfl

end CelmaVerif.ProgArgs
