import CelmaVerif.Lemmas.ParseRefuse
import CelmaVerif.Lemmas.ParseSmall
import CelmaVerif.Lemmas.KeysParse
import CelmaVerif.Model.KeysCmdline
/-
  The refusal statements of the grammar, widened (second audit, finding 7 / C02 rows):

  * the line may be read from ANY handler state (a file line, the environment value, argv behind the
    sources), not only from the initial one;
  * the words in front of the target word need only not BE a separator — `IsSep`: the first dash
    behind the leading dash is the last character of the word (`--`, `-a-`); `--out=-`, `--range=1-`,
    `-a--`, `-a-b-` are not separators (`NoSep` excluded them);
  * the key need not be the first key character of its word: `-vx`, `-ab-name` — as long as no key
    character in front of it belongs to an argument that REQUIRES a value (then the rest of the word
    is that value, by design);
  * the word behind a key without value may also be a lone `!`, `(`, `)`.
  Also here: the grammar is unambiguous (`SP_functional`), the declarative reason for "a long key does
  not resolve" (`findArg_long_unknown`), and the tie of `classifyWord` (C05) to `nextTok`.
-/
namespace CelmaVerif.ProgArgs
open CelmaVerif CelmaVerif.Keys

/-! ### separators -/

/-- the first dash of the word is its last character -/
def firstDashLast : Word → Bool
  | [] => false
  | c :: cs => if c = '-' then cs.isEmpty else firstDashLast cs

/-- the word switches on "everything behind is a value": it starts with a dash, and the first dash
    behind that one ends the word (`--`, `-a-`, `-ab-`) -/
def IsSep : Word → Bool
  | '-' :: cs => firstDashLast cs
  | _ => false

theorem firstDashLast_getLast {cs : Word} (h : firstDashLast cs = true) : cs.getLast? = some '-' := by
  induction cs with
  | nil => cases h
  | cons c cs ih =>
    simp only [firstDashLast] at h
    by_cases hc : c = '-'
    · rw [if_pos hc] at h
      cases cs with
      | nil => rw [hc]; rfl
      | cons a r => cases h
    · rw [if_neg hc] at h
      cases cs with
      | nil => cases h
      | cons a r => rw [List.getLast?_cons_cons]; exact ih h

/-- `NoSep` (the conservative form used before) implies "is not a separator" -/
theorem noSep_not_isSep {u : Word} (h : NoSep u) : IsSep u = false := by
  cases hs : IsSep u with
  | false => rfl
  | true =>
    exfalso
    apply h
    cases u with
    | nil => cases hs
    | cons a cs =>
      by_cases ha : a = '-'
      · subst ha
        refine ⟨rfl, ?_⟩
        have hl := firstDashLast_getLast (show firstDashLast cs = true from hs)
        cases cs with
        | nil => cases hl
        | cons b r => rw [List.getLast?_cons_cons]; exact hl
      · unfold IsSep at hs
        split at hs
        · rename_i heq; cases heq; exact absurd rfl ha
        · cases hs

/-! ### reaching a position inside a word, from any state -/

section ReachW
variable {c : Char} {t : Word} {post : List Word}

/-- the position lies in front of the word `'-' :: c :: t` (followed by `post`), with no separator
    in between -/
inductive AheadW (c : Char) (t : Word) (post : List Word) : Pos → Prop where
  | bnd (f : Bool) (pre : List Word) : (∀ u ∈ pre, IsSep u = false) →
      AheadW c t post (.bnd false f (pre ++ ('-' :: c :: t) :: post))
  | inw (a : Char) (cs : Word) (pre : List Word) : (∀ u ∈ pre, IsSep u = false) → firstDashLast (a :: cs) = false →
      AheadW c t post (.inw a cs (pre ++ ('-' :: c :: t) :: post))
  | eqv (v : Word) (pre : List Word) : (∀ u ∈ pre, IsSep u = false) →
      AheadW c t post (.eqv v (pre ++ ('-' :: c :: t) :: post))

theorem inWordTok_aheadW (a : Char) (cs : Word) (pre : List Word) (hpre : ∀ u ∈ pre, IsSep u = false)
    (hl : firstDashLast (a :: cs) = false) :
    ∃ t' pos', inWordTok a cs (pre ++ ('-' :: c :: t) :: post) = .tok t' pos' ∧ AheadW c t post pos' := by
  unfold inWordTok
  by_cases ha : a = '-'
  · rw [if_pos ha]
    cases cs with
    | nil => subst ha; simp [firstDashLast] at hl
    | cons b r =>
      dsimp only
      cases hd : List.dropWhile (fun x => x != '=') (b :: r) with
      | nil => exact ⟨_, _, rfl, AheadW.bnd false pre hpre⟩
      | cons e v => exact ⟨_, _, rfl, AheadW.eqv v pre hpre⟩
  · rw [if_neg ha]
    cases cs with
    | nil => exact ⟨_, _, rfl, AheadW.bnd false pre hpre⟩
    | cons b r =>
      refine ⟨_, _, rfl, AheadW.inw b r pre hpre ?_⟩
      simp only [firstDashLast, if_neg ha] at hl
      exact hl

theorem aheadW_next {pos : Pos} (ha : AheadW c t post pos) :
    (∃ f, pos = .bnd false f (('-' :: c :: t) :: post)) ∨
    (∀ rem, nextTok rem pos = .bad ∨ ∃ t' pos', nextTok rem pos = .tok t' pos' ∧ AheadW c t post pos') := by
  cases ha with
  | bnd f pre hpre =>
    cases pre with
    | nil => exact Or.inl ⟨f, rfl⟩
    | cons u pre' =>
      right
      intro rem
      have hu : IsSep u = false := hpre u (List.mem_cons_self ..)
      have hpre' : ∀ x ∈ pre', IsSep x = false := fun x hx => hpre x (List.mem_cons_of_mem _ hx)
      rw [nextTok_bnd_false]
      simp only [List.cons_append, wordTok]
      cases hc : (if f = true then none else ctrlOf u) with
      | some cc => exact Or.inr ⟨_, _, rfl, AheadW.bnd false pre' hpre'⟩
      | none =>
        dsimp only
        cases u with
        | nil => exact Or.inr ⟨_, _, rfl, AheadW.bnd false pre' hpre'⟩
        | cons a r =>
          by_cases had : a = '-'
          · subst had
            cases r with
            | nil => exact Or.inl rfl
            | cons b r' =>
              right
              exact inWordTok_aheadW b r' pre' hpre' hu
          · right
            refine ⟨.value (a :: r), .bnd false false (pre' ++ ('-' :: c :: t) :: post), ?_, AheadW.bnd false pre' hpre'⟩
            split
            · rename_i heq; cases heq; exact absurd rfl had
            · rename_i heq; cases heq; exact absurd rfl had
            · rfl
  | inw a cs pre hpre hl =>
    right
    intro rem
    rw [nextTok_inw]
    cases rem with
    | true => exact Or.inr ⟨_, _, rfl, AheadW.bnd false pre hpre⟩
    | false =>
      simp only [Bool.false_eq_true, if_false]
      exact Or.inr (inWordTok_aheadW a cs pre hpre hl)
  | eqv v pre hpre =>
    right
    intro rem
    rw [nextTok_eqv]
    exact Or.inr ⟨_, _, rfl, AheadW.bnd false pre hpre⟩

theorem reachW_step (cfg : Cfg) {pos : Pos} (ha : AheadW c t post pos) {l1 : Option Nat} {inv1 : Bool} {us1 : List Use}
    (sp' : SP cfg l1 inv1 (nextTok false pos) us1)
    (ih : ∀ t0 pos0, nextTok false pos = .tok t0 pos0 → AheadW c t post pos0 →
      ∃ l' inv' us', SP cfg l' inv' (inWordTok c t post) us') :
    ∃ l' inv' us', SP cfg l' inv' (inWordTok c t post) us' := by
  rcases aheadW_next ha with ⟨f, rfl⟩ | hn
  · rw [nextTok_target] at sp'
    exact ⟨_, _, _, sp'⟩
  · rcases hn false with hb | ⟨t', pos', e, ha'⟩
    · rw [hb] at sp'; exact absurd sp' SP_bad
    · exact ih t' pos' e ha'

theorem SP_reachesW (cfg : Cfg) (hsep : ¬ (c = '-' ∧ t = [])) {l : Option Nat} {inv : Bool} {res : TokRes}
    {us : List Use} (sp : SP cfg l inv res us) :
    ∀ t0 pos, res = .tok t0 pos → AheadW c t post pos →
      ∃ l' inv' us', SP cfg l' inv' (inWordTok c t post) us' := by
  induction sp with
  | done l inv => intro t0 pos heq; cases heq
  | flag _ _ _ sp' ih => intro t0 pos0 heq ha; cases heq; exact reachW_step cfg ha sp' ih
  | keyAlone _ _ _ _ sp' ih => intro t0 pos0 heq ha; cases heq; exact reachW_step cfg ha sp' ih
  | free _ _ sp' ih => intro t0 pos0 heq ha; cases heq; exact reachW_step cfg ha sp' ih
  | positional _ _ sp' ih => intro t0 pos0 heq ha; cases heq; exact reachW_step cfg ha sp' ih
  | invert sp' ih => intro t0 pos0 heq ha; cases heq; exact reachW_step cfg ha sp' ih
  | keyValue _ _ _ hn sp' ih =>
    intro t0 pos0 heq ha
    cases heq
    rcases aheadW_next ha with ⟨f, rfl⟩ | hn'
    · rw [nextTok_target] at hn
      exact absurd hn (inWordTok_not_value hsep _ _)
    · rcases hn' _ with hb | ⟨t', pos'', e, ha'⟩
      · rw [hb] at hn; cases hn
      · rw [e] at hn
        cases hn
        exact reachW_step cfg ha' sp' ih

/-- **Every dashed word in front of a separator is reached**, whatever state the line is read from -/
theorem line_reaches (cfg : Cfg) (hsep : ¬ (c = '-' ∧ t = [])) {l : Option Nat} {inv : Bool} {us : List Use}
    (pre : List Word) (hpre : ∀ u ∈ pre, IsSep u = false)
    (sp : SP cfg l inv (nextTok false (.bnd false true (pre ++ ('-' :: c :: t) :: post))) us) :
    ∃ l' inv' us', SP cfg l' inv' (inWordTok c t post) us' :=
  reachW_step cfg (AheadW.bnd true pre hpre) sp (fun t0 pos0 e ha => SP_reachesW cfg hsep (e ▸ sp) t0 pos0 rfl ha)

end ReachW

/-! ### through a group of short keys -/

/-- the key characters `g` in front of the target inside its word: none is a dash, and none belongs to
    an argument that requires a value (the rest of the word would be that value) -/
def GroupOk (cfg : Cfg) (g : Word) : Prop :=
  ∀ x ∈ g, x ≠ '-' ∧ ∀ i d, Resolves cfg (Key.ofChar x) i d → d.vmode ≠ .required

/-- reading goes through such a group and arrives at the character behind it -/
theorem group_reaches (cfg : Cfg) {post : List Word} {c : Char} {t : Word} (hsep : ¬ (c = '-' ∧ t = [])) :
    ∀ (g : Word), GroupOk cfg g → ∀ (x0 : Char) (tl : Word), x0 :: tl = g ++ c :: t →
      ∀ {l : Option Nat} {inv : Bool} {us : List Use}, SP cfg l inv (inWordTok x0 tl post) us →
      ∃ l' inv' us', SP cfg l' inv' (inWordTok c t post) us' := by
  intro g
  induction g with
  | nil =>
    intro _ x0 tl e l inv us sp
    simp only [List.nil_append, List.cons.injEq] at e
    rw [e.1, e.2] at sp
    exact ⟨_, _, _, sp⟩
  | cons x g' ih =>
    intro hg x0 tl e l inv us sp
    simp only [List.cons_append, List.cons.injEq] at e
    obtain ⟨e1, e2⟩ := e
    subst e1
    have hx := hg x0 (List.mem_cons_self ..)
    have hg' : GroupOk cfg g' := fun y hy => hg y (List.mem_cons_of_mem _ hy)
    -- the next character and what follows it
    obtain ⟨y, tl', hy⟩ : ∃ y tl', tl = y :: tl' := by
      cases g' with
      | nil => exact ⟨c, t, e2⟩
      | cons a r => exact ⟨a, r ++ c :: t, e2⟩
    subst hy
    have hnotval : ∀ v p, inWordTok y tl' post ≠ .tok (.value v) p := by
      apply inWordTok_not_value
      cases g' with
      | nil =>
        simp only [List.nil_append, List.cons.injEq] at e2
        rw [e2.1, e2.2]; exact hsep
      | cons a r =>
        simp only [List.cons_append, List.cons.injEq] at e2
        rw [e2.1]
        intro h
        exact (hg' a (List.mem_cons_self ..)).1 h.1
    unfold inWordTok at sp
    rw [if_neg hx.1] at sp
    dsimp only at sp
    have cont : ∀ {l1 : Option Nat} {inv1 : Bool} {us1 : List Use},
        SP cfg l1 inv1 (nextTok false (.inw y tl' post)) us1 → ∃ l' inv' us', SP cfg l' inv' (inWordTok c t post) us' := by
      intro l1 inv1 us1 s
      rw [nextTok_inw] at s
      simp only [Bool.false_eq_true, if_false] at s
      exact ih hg' y tl' e2 s
    cases sp with
    | flag _ _ _ s => exact cont s
    | keyAlone _ _ _ _ s => exact cont s
    | @keyValue _ _ _ _ _ _ d _ _ hk hr hm hn s =>
      cases hk
      have hreq : decide (d.vmode = VMode.required) = false := by
        simp only [decide_eq_false_iff_not]
        exact hx.2 _ _ hr
      rw [hreq, nextTok_inw] at hn
      simp only [Bool.false_eq_true, if_false] at hn
      exact absurd hn (hnotval _ _)

/-- a word `'-' :: g ++ c :: t` in a line: the part of the derivation that starts at `c` exists -/
theorem word_reaches (cfg : Cfg) {post : List Word} {c : Char} {t : Word} (hsep : ¬ (c = '-' ∧ t = []))
    (g : Word) (hg : GroupOk cfg g) {l : Option Nat} {inv : Bool} {us : List Use}
    (pre : List Word) (hpre : ∀ u ∈ pre, IsSep u = false)
    (sp : SP cfg l inv (nextTok false (.bnd false true (pre ++ ('-' :: (g ++ c :: t)) :: post))) us) :
    ∃ l' inv' us', SP cfg l' inv' (inWordTok c t post) us' := by
  cases g with
  | nil => exact line_reaches cfg hsep pre hpre sp
  | cons x g' =>
    have hx := hg x (List.mem_cons_self ..)
    obtain ⟨l1, inv1, us1, sp1⟩ := line_reaches cfg (c := x) (t := g' ++ c :: t) (fun h => hx.1 h.1) pre hpre sp
    exact group_reaches cfg hsep (x :: g') hg x (g' ++ c :: t) rfl sp1

/-! ### the refusal statements, wide form -/

/-- the word behind a key is no value element: the line ends there, or a word follows that starts with a
    dash and is not the separator `--`, or a lone control character `!`, `(`, `)` -/
def NoValueWordW (post : List Word) : Prop :=
  NoValueWord post ∨ ∃ x rest, post = [x] :: rest ∧ (x = '(' ∨ x = ')' ∨ x = '!')

theorem wordTok_noValueW {post : List Word} (h : NoValueWordW post) (v : Word) (p : Pos) :
    wordTok false post ≠ .tok (.value v) p := by
  rcases h with h | ⟨x, rest, rfl, hx⟩
  · exact wordTok_noValue h v p
  · have : ctrlOf [x] = some x := by simp only [ctrlOf, if_pos hx]
    simp [wordTok, this]

/-- unknown short key, anywhere in a word, line read from any state -/
theorem line_unknown_short (cfg : Cfg) (l : Option Nat) (inv : Bool) (pre post : List Word) (g : Word) (c : Char)
    (t : Word) (us : List Use) (hpre : ∀ u ∈ pre, IsSep u = false) (hg : GroupOk cfg g) (hc : c ≠ '-')
    (hunk : ∀ i d, ¬ Resolves cfg (Key.ofChar c) i d) :
    ¬ SP cfg l inv (nextTok false (.bnd false true (pre ++ ('-' :: (g ++ c :: t)) :: post))) us := by
  intro sp
  obtain ⟨l', inv', us', sp'⟩ := word_reaches cfg (fun h => hc h.1) g hg pre hpre sp
  unfold inWordTok at sp'
  rw [if_neg hc] at sp'
  have key : ∀ p, ¬ SP cfg l' inv' (.tok (.short c) p) us' := by
    intro p h
    cases h with
    | flag hk hr _ _ => cases hk; exact hunk _ _ hr
    | keyValue hk hr _ _ _ => cases hk; exact hunk _ _ hr
    | keyAlone hk hr _ _ _ => cases hk; exact hunk _ _ hr
  cases t with
  | nil => exact key _ sp'
  | cons b r => exact key _ sp'

/-- unknown long name (behind `--`, or behind a dash inside a group), line read from any state -/
theorem line_unknown_long (cfg : Cfg) (l : Option Nat) (inv : Bool) (pre post : List Word) (g : Word) (b : Char)
    (r : Word) (us : List Use) (hpre : ∀ u ∈ pre, IsSep u = false) (hg : GroupOk cfg g)
    (hunk : ∀ k i d, wordKey ((b :: r).takeWhile (· != '=')) = .ok k → ¬ Resolves cfg k i d) :
    ¬ SP cfg l inv (nextTok false (.bnd false true (pre ++ ('-' :: (g ++ '-' :: b :: r)) :: post))) us := by
  intro sp
  obtain ⟨l', inv', us', sp'⟩ := word_reaches cfg (c := '-') (t := b :: r) (by simp) g hg pre hpre sp
  unfold inWordTok at sp'
  rw [if_pos rfl] at sp'
  dsimp only at sp'
  have key : ∀ p, ¬ SP cfg l' inv' (.tok (.long ((b :: r).takeWhile (· != '='))) p) us' := by
    intro p h
    cases h with
    | flag hk hr _ _ => exact hunk _ _ _ hk hr
    | keyValue hk hr _ _ _ => exact hunk _ _ _ hk hr
    | keyAlone hk hr _ _ _ => exact hunk _ _ _ hk hr
  cases hd : List.dropWhile (fun x => x != '=') (b :: r) with
  | nil =>
    rw [hd] at sp'
    dsimp only at sp'
    have : (b :: r).takeWhile (· != '=') = b :: r := by
      have := List.takeWhile_append_dropWhile (p := fun x => x != '=') (l := b :: r)
      rw [hd, List.append_nil] at this
      exact this
    rw [← this] at sp'
    exact key _ sp'
  | cons e v =>
    rw [hd] at sp'
    exact key _ sp'

/-- a short key whose argument requires a value, last character of its word, no value element behind -/
theorem line_missing_value_short (cfg : Cfg) (l : Option Nat) (inv : Bool) (pre post : List Word) (g : Word)
    (c : Char) (i : Nat) (d : ArgDef) (us : List Use) (hpre : ∀ u ∈ pre, IsSep u = false) (hg : GroupOk cfg g)
    (hc : c ≠ '-') (hr : Resolves cfg (Key.ofChar c) i d) (hm : d.vmode = .required) (hpost : NoValueWordW post) :
    ¬ SP cfg l inv (nextTok false (.bnd false true (pre ++ ('-' :: (g ++ [c])) :: post))) us := by
  intro sp
  obtain ⟨l', inv', us', sp'⟩ := word_reaches cfg (t := []) (fun h => hc h.1) g hg pre hpre sp
  unfold inWordTok at sp'
  rw [if_neg hc] at sp'
  dsimp only at sp'
  unfold Resolves at hr
  cases sp' with
  | flag hk hr' hm' _ =>
    cases hk; unfold Resolves at hr'; rw [hr] at hr'; cases hr'; rw [hm] at hm'; cases hm'
  | keyAlone hk hr' hm' _ _ =>
    cases hk; unfold Resolves at hr'; rw [hr] at hr'; cases hr'; rw [hm] at hm'; cases hm'
  | keyValue hk hr' _ hn _ =>
    cases hk; unfold Resolves at hr'; rw [hr] at hr'; cases hr'
    rw [nextTok_bnd_false] at hn
    exact wordTok_noValueW hpost _ _ hn

/-- the same for a long name without `=` -/
theorem line_missing_value_long (cfg : Cfg) (l : Option Nat) (inv : Bool) (pre post : List Word) (g : Word)
    (b : Char) (r : Word) (k : Key) (i : Nat) (d : ArgDef) (us : List Use) (hpre : ∀ u ∈ pre, IsSep u = false)
    (hg : GroupOk cfg g) (hne : '=' ∉ b :: r) (hk : wordKey (b :: r) = .ok k) (hr : Resolves cfg k i d)
    (hm : d.vmode = .required) (hpost : NoValueWordW post) :
    ¬ SP cfg l inv (nextTok false (.bnd false true (pre ++ ('-' :: (g ++ '-' :: b :: r)) :: post))) us := by
  intro sp
  obtain ⟨l', inv', us', sp'⟩ := word_reaches cfg (c := '-') (t := b :: r) (by simp) g hg pre hpre sp
  unfold inWordTok at sp'
  rw [if_pos rfl] at sp'
  dsimp only at sp'
  have hd : List.dropWhile (fun x => x != '=') (b :: r) = [] := dropWhile_noEq hne
  rw [hd] at sp'
  dsimp only at sp'
  unfold Resolves at hr
  cases sp' with
  | flag hk' hr' hm' _ =>
    have : wordKey (b :: r) = .ok _ := hk'
    rw [hk] at this; cases this
    unfold Resolves at hr'; rw [hr] at hr'; cases hr'; rw [hm] at hm'; cases hm'
  | keyAlone hk' hr' hm' _ _ =>
    have : wordKey (b :: r) = .ok _ := hk'
    rw [hk] at this; cases this
    unfold Resolves at hr'; rw [hr] at hr'; cases hr'; rw [hm] at hm'; cases hm'
  | keyValue hk' hr' _ hn _ =>
    have : wordKey (b :: r) = .ok _ := hk'
    rw [hk] at this; cases this
    unfold Resolves at hr'; rw [hr] at hr'; cases hr'
    rw [nextTok_bnd_false] at hn
    exact wordTok_noValueW hpost _ _ hn

/-! ### a declarative reason for "a long name does not resolve" -/

/-- no defined long key starts with `name` ⇒ the lookup answers "none" (abbreviations on or off) -/
theorem findArg_long_unknown (cfg : Cfg) (name : List Char) (hne : name ≠ [])
    (hno : ∀ d ∈ cfg.args, ¬ name <+: d.key.long) :
    findArg cfg.abbr cfg.table ⟨none, name⟩ = .ok none := by
  have hex : ∀ e ∈ cfg.table, e.1.eq ⟨none, name⟩ = false := by
    intro e he
    obtain ⟨a, ha, rfl⟩ := List.mem_map.mp he
    cases h : a.key.eq ⟨none, name⟩ with
    | false => rfl
    | true => exact absurd (by rw [(eq_long_word a.key name hne).mp h]; exact List.prefix_refl _) (hno a ha)
  have hst : ∀ e ∈ cfg.table, e.1.startsWith ⟨none, name⟩ = false := by
    intro e he
    obtain ⟨a, ha, rfl⟩ := List.mem_map.mp he
    cases h : a.key.startsWith ⟨none, name⟩ with
    | false => rfl
    | true => exact absurd ((startsWith_long_word a.key name hne).mp h) (hno a ha)
  unfold findArg
  rw [(findExact_none_iff _ _ 0).mpr hex]
  cases cfg.abbr with
  | false => rfl
  | true => exact findAbbr_no_match _ _ 0 none hst

/-- a typed name (a key word, no `=`) that is the beginning of no defined long key resolves to nothing -/
theorem long_name_unresolved (cfg : Cfg) (b : Char) (r : Word) (hne : '=' ∉ b :: r) (hw : KeyWord (b :: r))
    (hno : ∀ d ∈ cfg.args, ¬ (b :: r) <+: d.key.long) :
    ∀ k i d, wordKey ((b :: r).takeWhile (· != '=')) = .ok k → ¬ Resolves cfg k i d := by
  intro k i d hk h
  have ht : (b :: r).takeWhile (· != '=') = b :: r := by
    have := List.takeWhile_append_dropWhile (p := fun x => x != '=') (l := b :: r)
    rw [dropWhile_noEq hne, List.append_nil] at this
    exact this
  rw [ht, wordKey_word _ hw] at hk
  cases hk
  unfold Resolves at h
  rw [findArg_long_unknown cfg (b :: r) (by simp) hno] at h
  cases h

/-! ### the grammar is unambiguous -/

theorem keyTok_fun {t : Tok} {k k' : Key} (h : KeyTok t k) (h' : KeyTok t k') : k = k' := by
  cases t with
  | short c => exact h.trans h'.symm
  | long n =>
    have e : Res.ok k = Res.ok k' := (show wordKey n = .ok k from h).symm.trans (show wordKey n = .ok k' from h')
    cases e; rfl
  | value v => exact h.elim
  | ctrl c => exact h.elim

theorem resolves_fun {cfg : Cfg} {k : Key} {i i' : Nat} {d d' : ArgDef} (h : Resolves cfg k i d) (h' : Resolves cfg k i' d') :
    i = i' ∧ d = d' := by
  unfold Resolves at h h'
  rw [h] at h'
  cases h'
  exact ⟨rfl, rfl⟩

/-- the elements determine the uses -/
theorem SP_functional {cfg : Cfg} {l : Option Nat} {inv : Bool} {r : TokRes} {us us' : List Use}
    (h : SP cfg l inv r us) (h' : SP cfg l inv r us') : us = us' := by
  induction h generalizing us' with
  | done l inv => cases h'; rfl
  | flag hk hr hm _ ih =>
    cases h' with
    | flag hk' hr' hm' s' =>
      obtain rfl := keyTok_fun hk hk'
      obtain ⟨rfl, rfl⟩ := resolves_fun hr hr'
      rw [ih s']
    | keyValue hk' hr' hm' hn' s' =>
      obtain rfl := keyTok_fun hk hk'
      obtain ⟨rfl, rfl⟩ := resolves_fun hr hr'
      exact absurd hm hm'
    | keyAlone hk' hr' hm' hn' s' =>
      obtain rfl := keyTok_fun hk hk'
      obtain ⟨rfl, rfl⟩ := resolves_fun hr hr'
      rw [hm] at hm'; cases hm'
    | free _ _ _ => exact hk.elim
    | positional _ _ _ => exact hk.elim
    | invert _ => exact hk.elim
  | keyValue hk hr hm hn _ ih =>
    cases h' with
    | flag hk' hr' hm' s' =>
      obtain rfl := keyTok_fun hk hk'
      obtain ⟨rfl, rfl⟩ := resolves_fun hr hr'
      exact absurd hm' hm
    | keyValue hk' hr' hm' hn' s' =>
      obtain rfl := keyTok_fun hk hk'
      obtain ⟨rfl, rfl⟩ := resolves_fun hr hr'
      rw [hn] at hn'
      cases hn'
      rw [ih s']
    | keyAlone hk' hr' hm' hn' s' =>
      obtain rfl := keyTok_fun hk hk'
      obtain ⟨rfl, rfl⟩ := resolves_fun hr hr'
      rw [hm'] at hn
      exact absurd hn (hn' _ _)
    | free _ _ _ => exact hk.elim
    | positional _ _ _ => exact hk.elim
    | invert _ => exact hk.elim
  | keyAlone hk hr hm hn _ ih =>
    cases h' with
    | flag hk' hr' hm' s' =>
      obtain rfl := keyTok_fun hk hk'
      obtain ⟨rfl, rfl⟩ := resolves_fun hr hr'
      rw [hm'] at hm; cases hm
    | keyValue hk' hr' hm' hn' s' =>
      obtain rfl := keyTok_fun hk hk'
      obtain ⟨rfl, rfl⟩ := resolves_fun hr hr'
      rw [hm] at hn'
      exact absurd hn' (hn _ _)
    | keyAlone hk' hr' hm' hn' s' =>
      obtain rfl := keyTok_fun hk hk'
      obtain ⟨rfl, rfl⟩ := resolves_fun hr hr'
      rw [ih s']
    | free _ _ _ => exact hk.elim
    | positional _ _ _ => exact hk.elim
    | invert _ => exact hk.elim
  | free ha hmul _ ih =>
    cases h' with
    | free ha' hmul' s' => rw [ih s']
    | positional hno hr' s' =>
      have := hno _ _ rfl ha
      rw [this] at hmul; cases hmul
    | flag hk' _ _ _ => exact hk'.elim
    | keyValue hk' _ _ _ _ => exact hk'.elim
    | keyAlone hk' _ _ _ _ => exact hk'.elim
  | positional hno hr _ ih =>
    cases h' with
    | free ha' hmul' s' =>
      have := hno _ _ rfl ha'
      rw [this] at hmul'; cases hmul'
    | positional hno' hr' s' =>
      obtain ⟨rfl, rfl⟩ := resolves_fun hr hr'
      rw [ih s']
    | flag hk' _ _ _ => exact hk'.elim
    | keyValue hk' _ _ _ _ => exact hk'.elim
    | keyAlone hk' _ _ _ _ => exact hk'.elim
  | invert _ ih =>
    cases h' with
    | invert s' => exact ih s'
    | flag hk' _ _ _ => exact hk'.elim
    | keyValue hk' _ _ _ _ => exact hk'.elim
    | keyAlone hk' _ _ _ _ => exact hk'.elim

/-- the words determine the uses -/
theorem SpellsPlus_functional {cfg : Cfg} {ws : List Word} {us us' : List Use}
    (h : SpellsPlus cfg us ws) (h' : SpellsPlus cfg us' ws) : us = us' := SP_functional h h'

/-! ### `classifyWord` (the word classifier of C05) is the grammar's tokenizer on plain key words -/

/-- the element of a `CmdWord` -/
def tokOf : CmdWord → Tok
  | .short c => .short c
  | .long n => .long n

/-- on a word `-c` or `--name` (no `=`) at a boundary — not the first word of the line, where it makes no
    difference either — `nextTok` yields the element `classifyWord` announces and stands behind the word -/
theorem classify_is_nextTok (w : List Char) (cw : CmdWord) (f : Bool) (ws : List Word) (h : classifyWord w = some cw) :
    nextTok false (.bnd false f (w :: ws)) = .tok (tokOf cw) (.bnd false false ws) := by
  rw [nextTok_bnd_false]
  unfold classifyWord at h
  split at h
  · rename_i c
    split at h
    · cases h
    · rename_i hc
      cases h
      cases f <;> simp [wordTok, ctrlOf, inWordTok, hc, tokOf]
  · rename_i name hx
    split at h
    · cases h
    · rename_i hc
      cases h
      cases name with
      | nil => exact absurd (Or.inl rfl) hc
      | cons a name =>
        have hne : '=' ∉ a :: name := fun hm => hc (Or.inr hm)
        have hd := dropWhile_noEq hne
        cases f <;>
        · simp only [wordTok, ctrlOf, Bool.false_eq_true, if_false, if_true, inWordTok, tokOf]
          rw [hd]
  · cases h

/-- … and the key the grammar attaches to that element is the key `cmdKey` builds -/
theorem keyTok_tokOf (cw : CmdWord) (k : Key) : KeyTok (tokOf cw) k ↔ cmdKey cw = .ok k := by
  cases cw with
  | short c => simp only [tokOf, KeyTok, cmdKey, Res.ok.injEq]; exact eq_comm
  | long n => exact Iff.rfl

end CelmaVerif.ProgArgs
