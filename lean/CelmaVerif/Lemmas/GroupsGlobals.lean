import CelmaVerif.Lemmas.GroupsPick
/-
  Handler constraints and the end-of-evaluation checks of the merged handler seen through the
  members of a group: index-wise characterisations, and what a member (`pick`) sees of them.
-/
namespace CelmaVerif.ProgArgs
open CelmaVerif CelmaVerif.Keys

/-! ### `executeGlobals` -/

theorem GDef.execute_cases (g : GDef) (s : GSt) (k : Key) :
    (∃ s', g.execute s k = .ok s') ∨ g.execute s k = .throw .runtime_error := by
  unfold GDef.execute
  split
  · exact Or.inl ⟨_, rfl⟩
  · split
    · exact Or.inl ⟨_, rfl⟩
    · split
      · exact Or.inr rfl
      · exact Or.inl ⟨_, rfl⟩
    · split
      · exact Or.inr rfl
      · exact Or.inl ⟨_, rfl⟩
    · exact Or.inl ⟨_, rfl⟩
    · exact Or.inl ⟨_, rfl⟩

theorem GDef.execute_noarg (g : GDef) (s : GSt) (k : Key) (h : isConstraintArgument g.keys k = false) :
    g.execute s k = .ok s := by
  unfold GDef.execute
  rw [h]
  rfl

theorem executeGlobals_spec (k : Key) : ∀ (gs : List GDef) (ss : List GSt), gs.length = ss.length →
    (∃ ss', executeGlobals gs ss k = .ok ss' ∧ ss'.length = gs.length ∧
      ∀ (g : Nat) (gd : GDef) (s : GSt), gs[g]? = some gd → ss[g]? = some s → ∃ s', gd.execute s k = .ok s' ∧ ss'[g]? = some s') ∨
    (executeGlobals gs ss k = .throw .runtime_error ∧
      ∃ (g : Nat) (gd : GDef) (s : GSt), gs[g]? = some gd ∧ ss[g]? = some s ∧ gd.execute s k = .throw .runtime_error) := by
  intro gs
  induction gs with
  | nil =>
    intro ss _
    refine Or.inl ⟨[], ?_, rfl, ?_⟩
    · cases ss <;> rfl
    · intro g gd s h; simp at h
  | cons g0 gs ih =>
    intro ss hlen
    cases ss with
    | nil => simp at hlen
    | cons s0 ss =>
      have hlen' : gs.length = ss.length := by simpa using hlen
      simp only [executeGlobals]
      rcases GDef.execute_cases g0 s0 k with ⟨s0', h0⟩ | h0
      · rw [h0]
        simp only [Res.bind_ok]
        rcases ih ss hlen' with ⟨ss', h1, h2, h3⟩ | ⟨h1, g, gd, s, h2, h3, h4⟩
        · rw [h1]
          refine Or.inl ⟨s0' :: ss', rfl, by simp [h2], ?_⟩
          intro g gd s hg hs
          cases g with
          | zero =>
            simp only [List.getElem?_cons_zero, Option.some.injEq] at hg hs
            subst hg; subst hs
            exact ⟨s0', h0, rfl⟩
          | succ g =>
            simp only [List.getElem?_cons_succ] at hg hs ⊢
            exact h3 g gd s hg hs
        · rw [h1]
          exact Or.inr ⟨rfl, g + 1, gd, s, by simpa using h2, by simpa using h3, h4⟩
      · rw [h0]
        exact Or.inr ⟨rfl, 0, g0, s0, rfl, rfl, h0⟩

/-- the member that owns every handler constraint the key is listed in executes, on its own
    constraints, what the merged handler executes -/
theorem executeGlobals_view (k : Key) (gs : List GDef) (ss : List GSt) (hlen : gs.length = ss.length)
    (ig : List Nat) (hb : ∀ g ∈ ig, g < gs.length)
    (hout : ∀ g gd, gs[g]? = some gd → g ∉ ig → isConstraintArgument gd.keys k = false) :
    executeGlobals (pick ig gs) (pick ig ss) k = (executeGlobals gs ss k >>= fun ss' => pure (pick ig ss')) := by
  have hbs : ∀ g ∈ ig, g < ss.length := fun g hg => hlen ▸ hb g hg
  have hlenv : (pick ig gs).length = (pick ig ss).length := by rw [pick_length ig gs hb, pick_length ig ss hbs]
  rcases executeGlobals_spec k gs ss hlen with ⟨ss', h1, h2, h3⟩ | ⟨h1, g, gd, s, h2, h3, h4⟩
  · have hbs' : ∀ g ∈ ig, g < ss'.length := fun g hg => h2 ▸ hb g hg
    rw [h1]
    simp only [Res.bind_ok, Res.pure_eq]
    rcases executeGlobals_spec k (pick ig gs) (pick ig ss) hlenv with ⟨vs', v1, v2, v3⟩ | ⟨v1, p, gd, s, v2, v3, v4⟩
    · rw [v1]
      congr 1
      apply List.ext_getElem?
      intro p
      rw [pick_getElem? ig ss' hbs']
      cases hp : ig[p]? with
      | none =>
        simp only [Option.bind_none]
        rw [List.getElem?_eq_none_iff, v2, pick_length ig gs hb]
        exact List.getElem?_eq_none_iff.mp hp
      | some g =>
        simp only [Option.bind_some]
        have hg : g ∈ ig := List.mem_of_getElem? hp
        have hlt1 : g < gs.length := hb g hg
        have hlt2 : g < ss.length := hbs g hg
        have hgd : gs[g]? = some gs[g] := by simp [hlt1]
        have hs : ss[g]? = some ss[g] := by simp [hlt2]
        obtain ⟨s', e1, e2⟩ := h3 g _ _ hgd hs
        obtain ⟨s'', f1, f2⟩ := v3 p _ _ (by rw [pick_getElem? ig gs hb, hp]; exact hgd)
          (by rw [pick_getElem? ig ss hbs, hp]; exact hs)
        rw [e1] at f1
        cases f1
        rw [e2, f2]
    · exfalso
      rw [pick_getElem? ig gs hb] at v2
      rw [pick_getElem? ig ss hbs] at v3
      cases hp : ig[p]? with
      | none => rw [hp] at v2; cases v2
      | some g =>
        rw [hp] at v2 v3
        obtain ⟨s', e1, _⟩ := h3 g gd s v2 v3
        rw [e1] at v4
        cases v4
  · rw [h1]
    simp only [Res.bind_throw]
    have hgi : g ∈ ig := by
      apply Classical.byContradiction
      intro hn
      rw [GDef.execute_noarg gd s k (hout g gd h2 hn)] at h4
      cases h4
    obtain ⟨loc, hloc⟩ := idxOf?_of_mem hgi
    rcases executeGlobals_spec k (pick ig gs) (pick ig ss) hlenv with ⟨vs', v1, v2, v3⟩ | ⟨v1, _⟩
    · exfalso
      obtain ⟨s', e1, _⟩ := v3 loc gd s (by rw [pick_at hb hloc]; exact h2) (by rw [pick_at hbs hloc]; exact h3)
      rw [e1] at h4
      cases h4
    · exact v1

/-- a member none of whose handler constraints lists the key does not see the execution -/
theorem executeGlobals_other (k : Key) (gs : List GDef) (ss ss' : List GSt) (hlen : gs.length = ss.length)
    (ig : List Nat) (hb : ∀ g ∈ ig, g < gs.length)
    (hin : ∀ g ∈ ig, ∀ gd, gs[g]? = some gd → isConstraintArgument gd.keys k = false)
    (h : executeGlobals gs ss k = .ok ss') : pick ig ss' = pick ig ss := by
  have hbs : ∀ g ∈ ig, g < ss.length := fun g hg => hlen ▸ hb g hg
  rcases executeGlobals_spec k gs ss hlen with ⟨ss'', h1, h2, h3⟩ | ⟨h1, _⟩
  · rw [h1] at h
    cases h
    have hbs' : ∀ g ∈ ig, g < ss'.length := fun g hg => h2 ▸ hb g hg
    apply List.ext_getElem?
    intro p
    rw [pick_getElem? ig ss' hbs', pick_getElem? ig ss hbs]
    cases hp : ig[p]? with
    | none => rfl
    | some g =>
      simp only [Option.bind_some]
      have hg : g ∈ ig := List.mem_of_getElem? hp
      have hlt1 : g < gs.length := hb g hg
      have hlt2 : g < ss.length := hbs g hg
      have hgd : gs[g]? = some gs[g] := by simp [hlt1]
      have hs : ss[g]? = some ss[g] := by simp [hlt2]
      obtain ⟨s', e1, e2⟩ := h3 g _ _ hgd hs
      rw [GDef.execute_noarg _ _ k (hin g hg _ hgd)] at e1
      cases e1
      rw [e2, hs]
  · rw [h1] at h; cases h

theorem executeGlobals_length_g (k : Key) (gs : List GDef) (ss ss' : List GSt) (hlen : gs.length = ss.length)
    (h : executeGlobals gs ss k = .ok ss') : ss'.length = gs.length := by
  rcases executeGlobals_spec k gs ss hlen with ⟨ss'', h1, h2, _⟩ | ⟨h1, _⟩
  · rw [h1] at h; cases h; exact h2
  · rw [h1] at h; cases h

/-! ### checks over two parallel lists -/

/-- the common shape of `checkMandatoryCardinality` and `checkGlobals` -/
def checkAll {α β : Type} (f : α → β → Res Unit) : List α → List β → Res Unit
  | a :: as, b :: bs => do f a b; checkAll f as bs
  | _, _ => pure ()

theorem checkAll_spec {α β : Type} (f : α → β → Res Unit) : ∀ (as : List α)
    (_hf : ∀ a ∈ as, ∀ b, f a b = .ok () ∨ f a b = .throw .runtime_error) (bs : List β),
    (checkAll f as bs = .ok () ∧ ∀ (i : Nat) (a : α) (b : β), as[i]? = some a → bs[i]? = some b → f a b = .ok ()) ∨
    (checkAll f as bs = .throw .runtime_error ∧
      ∃ (i : Nat) (a : α) (b : β), as[i]? = some a ∧ bs[i]? = some b ∧ f a b = .throw .runtime_error) := by
  intro as
  induction as with
  | nil => intro _ bs; exact Or.inl ⟨rfl, by intro i a b h; simp at h⟩
  | cons a0 as ih =>
    intro hf bs
    cases bs with
    | nil => exact Or.inl ⟨rfl, by intro i a b _ h; simp at h⟩
    | cons b0 bs =>
      simp only [checkAll]
      rcases hf a0 List.mem_cons_self b0 with h0 | h0
      · rw [h0]
        simp only [Res.bind_ok]
        rcases ih (fun a ha => hf a (List.mem_cons_of_mem _ ha)) bs with ⟨h1, h2⟩ | ⟨h1, i, a, b, h2, h3, h4⟩
        · refine Or.inl ⟨h1, ?_⟩
          intro i a b ha hb
          cases i with
          | zero =>
            simp only [List.getElem?_cons_zero, Option.some.injEq] at ha hb
            subst ha; subst hb; exact h0
          | succ i =>
            simp only [List.getElem?_cons_succ] at ha hb
            exact h2 i a b ha hb
        · exact Or.inr ⟨h1, i + 1, a, b, by simpa using h2, by simpa using h3, h4⟩
      · rw [h0]
        exact Or.inr ⟨rfl, 0, a0, b0, rfl, rfl, h0⟩

theorem pick_sub {α : Type} {ia : List Nat} {l : List α} {x : α} (h : x ∈ pick ia l) : x ∈ l := by
  obtain ⟨a, _, ha⟩ := pick_mem h
  exact List.mem_of_getElem? ha

/-- two checks that pass on the same pairs pass on the same lists -/
theorem checkAll_ok_congr {α β : Type} (f f' : α → β → Res Unit) : ∀ (as : List α)
    (_hf : ∀ a ∈ as, ∀ b, f a b = .ok () ∨ f a b = .throw .runtime_error)
    (_hf' : ∀ a ∈ as, ∀ b, f' a b = .ok () ∨ f' a b = .throw .runtime_error)
    (_h : ∀ a ∈ as, ∀ b, f a b = .ok () ↔ f' a b = .ok ()) (bs : List β),
    checkAll f as bs = .ok () ↔ checkAll f' as bs = .ok () := by
  intro as
  induction as with
  | nil => intro _ _ _ bs; exact Iff.rfl
  | cons a0 as ih =>
    intro hf hf' h bs
    cases bs with
    | nil => exact Iff.rfl
    | cons b0 bs =>
      simp only [checkAll]
      have hi := ih (fun a ha => hf a (List.mem_cons_of_mem _ ha)) (fun a ha => hf' a (List.mem_cons_of_mem _ ha))
        (fun a ha => h a (List.mem_cons_of_mem _ ha)) bs
      have h0 := h a0 List.mem_cons_self b0
      rcases hf a0 List.mem_cons_self b0 with e | e
      · rw [e, h0.mp e]; simpa using hi
      · rcases hf' a0 List.mem_cons_self b0 with e' | e'
        · rw [h0.mpr e'] at e; cases e
        · rw [e, e']; simp

/-- a check over the merged lists passes iff it passes in every member, when the members cover all
    indices -/
theorem checkAll_views {α β : Type} (f : α → β → Res Unit) (as : List α)
    (hf : ∀ a ∈ as, ∀ b, f a b = .ok () ∨ f a b = .throw .runtime_error) (bs : List β)
    (hlen : as.length = bs.length) (views : List (List Nat))
    (hb : ∀ v ∈ views, ∀ i ∈ v, i < as.length) (hcov : ∀ i, i < as.length → ∃ v ∈ views, i ∈ v) :
    checkAll f as bs = .ok () ↔ ∀ v ∈ views, checkAll f (pick v as) (pick v bs) = .ok () := by
  constructor
  · intro h v hv
    have hbv := hb v hv
    have hbv' : ∀ i ∈ v, i < bs.length := fun i hi => hlen ▸ hbv i hi
    rcases checkAll_spec f as hf bs with ⟨_, h2⟩ | ⟨h1, _⟩
    · rcases checkAll_spec f (pick v as) (fun a ha => hf a (pick_sub ha)) (pick v bs) with ⟨v1, _⟩ | ⟨_, p, a, b, v2, v3, v4⟩
      · exact v1
      · exfalso
        rw [pick_getElem? v as hbv] at v2
        rw [pick_getElem? v bs hbv'] at v3
        cases hp : v[p]? with
        | none => rw [hp] at v2; cases v2
        | some i =>
          rw [hp] at v2 v3
          rw [h2 i a b v2 v3] at v4
          cases v4
    · rw [h1] at h; cases h
  · intro h
    rcases checkAll_spec f as hf bs with ⟨h1, _⟩ | ⟨_, i, a, b, h2, h3, h4⟩
    · exact h1
    · exfalso
      have hi : i < as.length := (List.getElem?_eq_some_iff.mp h2).1
      obtain ⟨v, hv, hiv⟩ := hcov i hi
      have hbv := hb v hv
      have hbv' : ∀ i ∈ v, i < bs.length := fun i hi => hlen ▸ hbv i hi
      obtain ⟨loc, hloc⟩ := idxOf?_of_mem hiv
      rcases checkAll_spec f (pick v as) (fun a ha => hf a (pick_sub ha)) (pick v bs) with ⟨_, v2⟩ | ⟨v1, _⟩
      · rw [v2 loc a b (by rw [pick_at hbv hloc]; exact h2) (by rw [pick_at hbv' hloc]; exact h3)] at h4
        cases h4
      · rw [h v hv] at v1; cases v1

theorem checkAll_cases {α β : Type} (f : α → β → Res Unit) (as : List α)
    (hf : ∀ a ∈ as, ∀ b, f a b = .ok () ∨ f a b = .throw .runtime_error) (bs : List β) :
    checkAll f as bs = .ok () ∨ checkAll f as bs = .throw .runtime_error := by
  rcases checkAll_spec f as hf bs with ⟨h, _⟩ | ⟨h, _⟩
  · exact Or.inl h
  · exact Or.inr h

/-- the per-argument part of `checkMandatoryCardinality` -/
def argEndCheck (d : ArgDef) (s : ArgSt) : Res Unit := do
  throwIf (d.mandatory && !s.hasValue d.kind) .runtime_error
  d.card.check s.cnt

theorem checkMandatoryCardinality_eq : ∀ (ds : List ArgDef) (ss : List ArgSt),
    checkMandatoryCardinality ds ss = checkAll argEndCheck ds ss := by
  intro ds
  induction ds with
  | nil => intro ss; cases ss <;> rfl
  | cons d ds ih =>
    intro ss
    cases ss with
    | nil => rfl
    | cons s ss =>
      simp only [checkMandatoryCardinality, checkAll, argEndCheck]
      rw [ih ss]
      cases throwIf (d.mandatory && !s.hasValue d.kind) .runtime_error <;> rfl

theorem checkGlobals_eq (defs : List ArgDef) (sts : List ArgSt) : ∀ (gs : List GDef) (ss : List GSt),
    checkGlobals defs sts gs ss = checkAll (GDef.endCheck defs sts) gs ss := by
  intro gs
  induction gs with
  | nil => intro ss; cases ss <;> rfl
  | cons g gs ih =>
    intro ss
    cases ss with
    | nil => rfl
    | cons s ss => simp only [checkGlobals, checkAll]; rw [ih ss]

theorem argEndCheck_cases (d : ArgDef) (s : ArgSt) :
    argEndCheck d s = .ok () ∨ argEndCheck d s = .throw .runtime_error := by
  unfold argEndCheck throwIf
  split
  · exact Or.inr rfl
  · simp only [Res.bind_ok]
    unfold Card.check
    split
    · exact Or.inl rfl
    · exact Or.inl rfl
    · split
      · exact Or.inr rfl
      · exact Or.inl rfl
    · split
      · exact Or.inr rfl
      · exact Or.inl rfl

theorem pendingCheckRequired_cases (p : List (Key × CType)) :
    pendingCheckRequired p = .ok () ∨ pendingCheckRequired p = .throw .runtime_error := by
  unfold pendingCheckRequired throwIf
  split
  · exact Or.inr rfl
  · exact Or.inl rfl

end CelmaVerif.ProgArgs
