import CelmaVerif.Lemmas.HandlerSafe
/-
  Evaluation through an argument group (Groups::evalArguments): basic facts about the model —
  result algebra, the end-of-evaluation checks, the structure of one `offer`, and the group with a
  single member.
-/
namespace CelmaVerif.ProgArgs
open CelmaVerif CelmaVerif.Keys

/-! ### result algebra -/

theorem bind_eq_ok_g {α β : Type} {r : Res α} {f : α → Res β} {b : β} :
    (r >>= f) = .ok b ↔ ∃ a, r = .ok a ∧ f a = .ok b := by
  cases r with
  | ok a => simp
  | throw e => simp
  | oob w => simp

theorem throwIf_eq_ok_g {c : Bool} {e : Exc} : throwIf c e = .ok () ↔ c = false := by
  unfold throwIf; cases c <;> simp

theorem throwIf_false (e : Exc) : throwIf false e = .ok () := rfl
theorem throwIf_true (e : Exc) : throwIf true e = .throw e := rfl

/-! ### the end-of-evaluation checks -/

theorem memberEndChecks_ok_iff (c : Cfg) (h : HState) :
    memberEndChecks c h = .ok () ↔
      checkMandatoryCardinality c.args h.args = .ok () ∧ pendingCheckRequired h.pending = .ok () ∧
      checkGlobals c.args h.args c.globals h.globals = .ok () := by
  unfold memberEndChecks
  rw [bind_eq_ok_g]
  constructor
  · rintro ⟨⟨⟩, h1, h2⟩
    rw [bind_eq_ok_g] at h2
    obtain ⟨⟨⟩, h2, h3⟩ := h2
    exact ⟨h1, h2, h3⟩
  · rintro ⟨h1, h2, h3⟩
    exact ⟨(), h1, by rw [bind_eq_ok_g]; exact ⟨(), h2, h3⟩⟩

theorem groupsEndChecks_ok_iff (ms : List (Cfg × HState)) :
    groupsEndChecks ms = .ok () ↔ ∀ m ∈ ms, memberEndChecks m.1 m.2 = .ok () := by
  induction ms with
  | nil => simp [groupsEndChecks]
  | cons m ms ih =>
    obtain ⟨c, h⟩ := m
    simp only [groupsEndChecks, bind_eq_ok_g, List.mem_cons, forall_eq_or_imp]
    rw [← ih]
    constructor
    · rintro ⟨⟨⟩, h1, h2⟩; exact ⟨h1, h2⟩
    · rintro ⟨h1, h2⟩; exact ⟨(), h1, h2⟩

/-- the parts of a successful `groupsEval` -/
theorem groupsEval_ok_iff (cfg : Cfg) (inits : List DVal) (am gm order : List Nat) (argv : List Word)
    (ms : List (Cfg × HState)) :
    groupsEval cfg inits am gm order argv = .ok ms ↔
      order ≠ [] ∧ ∃ ai, It.begin argv = .ok ai ∧
        groupsLoop (totalChars argv)
          (order.map (fun m => (memberCfg cfg am gm m, (memberCfg cfg am gm m).initState (memberInits inits am m)))) ai
          = .ok ms ∧
        groupsEndChecks ms = .ok () := by
  unfold groupsEval
  simp only [bind_eq_ok_g, Res.pure_eq, Res.ok.injEq]
  constructor
  · rintro ⟨⟨⟩, h0, ai, h1, ms', h2, ⟨⟩, h3, rfl⟩
    exact ⟨(by intro h; rw [h] at h0; cases h0), ai, h1, h2, h3⟩
  · rintro ⟨h0, ai, h1, h2, h3⟩
    refine ⟨(), ?_, ai, h1, ms, h2, (), h3, rfl⟩
    cases order with
    | nil => exact absurd rfl h0
    | cons _ _ => rfl

/-- every rule attached inside a member is end-checked as `endChecks` does stand-alone -/
theorem groupsEval_end_checks (cfg : Cfg) (inits : List DVal) (am gm order : List Nat) (argv : List Word)
    (ms : List (Cfg × HState)) (h : groupsEval cfg inits am gm order argv = .ok ms) :
    ∀ m ∈ ms, checkMandatoryCardinality m.1.args m.2.args = .ok () ∧ pendingCheckRequired m.2.pending = .ok () ∧
      checkGlobals m.1.args m.2.args m.1.globals m.2.globals = .ok () := by
  obtain ⟨_, ai, _, _, h3⟩ := (groupsEval_ok_iff cfg inits am gm order argv ms).mp h
  intro m hm
  exact (memberEndChecks_ok_iff m.1 m.2).mp ((groupsEndChecks_ok_iff ms).mp h3 m hm)

/-- `endChecks` of a stand-alone handler succeeds exactly when the same three checks pass -/
theorem endChecks_ok_iff (cfg : Cfg) (h h' : HState) :
    endChecks cfg h = .ok h' ↔
      h' = { h with lastArg := none } ∧ memberEndChecks cfg h = .ok () := by
  rw [memberEndChecks_ok_iff]
  unfold endChecks
  simp only [bind_eq_ok_g, Res.pure_eq, Res.ok.injEq]
  constructor
  · rintro ⟨⟨⟩, h1, ⟨⟩, h2, ⟨⟩, h3, rfl⟩; exact ⟨rfl, h1, h2, h3⟩
  · rintro ⟨rfl, h1, h2, h3⟩; exact ⟨(), h1, (), h2, (), h3, rfl⟩

/-! ### what one handler answers -/

/-- `processArg` answers `unknown` (cursor untouched) or `consumed`; `last` needs value mode
    `command`, which is outside the fragment -/
theorem processArg_result (cfg : Cfg) (h : HState) (key : Key) (ai : It) (h' : HState) (ai' : It) (r : ArgResult)
    (he : processArg cfg h key ai = .ok (h', ai', r)) :
    (r = .unknown ∧ ai' = ai ∧ h' = { h with lastArg := none }) ∨ r = .consumed := by
  unfold processArg at he
  rw [bind_eq_ok_g] at he
  obtain ⟨found, _, he⟩ := he
  cases found with
  | none =>
    simp only [Res.pure_eq, Res.ok.injEq, Prod.mk.injEq] at he
    obtain ⟨rfl, rfl, rfl⟩ := he
    exact Or.inl ⟨rfl, rfl, rfl⟩
  | some p =>
    obtain ⟨i, d⟩ := p
    right
    dsimp only at he
    split at he
    · rw [bind_eq_ok_g] at he
      obtain ⟨_, _, he⟩ := he
      simp only [Res.pure_eq, Res.ok.injEq, Prod.mk.injEq] at he
      exact he.2.2.symm
    · rw [bind_eq_ok_g] at he
      obtain ⟨ait2, _, he⟩ := he
      split at he
      · split at he
        · rw [bind_eq_ok_g] at he
          obtain ⟨_, _, he⟩ := he
          simp only [Res.pure_eq, Res.ok.injEq, Prod.mk.injEq] at he
          exact he.2.2.symm
        · cases he
      · rw [bind_eq_ok_g] at he
        obtain ⟨_, _, he⟩ := he
        simp only [Res.pure_eq, Res.ok.injEq, Prod.mk.injEq] at he
        exact he.2.2.symm

/-- `evalSingleArgument` never answers `last` in the fragment, and an `unknown` answer leaves the
    cursor where it was -/
theorem evalSingleArgument_result (cfg : Cfg) (h : HState) (ai : It) (h' : HState) (ai' : It) (r : ArgResult)
    (he : evalSingleArgument cfg h ai = .ok (h', ai', r)) :
    (r = .unknown ∧ ai' = ai) ∨ r = .consumed := by
  unfold evalSingleArgument at he
  split at he
  · rcases processArg_result _ _ _ _ _ _ _ he with ⟨h1, h2, _⟩ | h1
    · exact Or.inl ⟨h1, h2⟩
    · exact Or.inr h1
  · rw [bind_eq_ok_g] at he
    obtain ⟨key, _, he⟩ := he
    rcases processArg_result _ _ _ _ _ _ _ he with ⟨h1, h2, _⟩ | h1
    · exact Or.inl ⟨h1, h2⟩
    · exact Or.inr h1
  · split at he
    · simp only [Res.pure_eq, Res.ok.injEq, Prod.mk.injEq] at he
      exact Or.inl ⟨he.2.2.symm, he.2.1.symm⟩
    · simp only [Res.pure_eq, Res.ok.injEq, Prod.mk.injEq] at he
      exact Or.inr he.2.2.symm
  · dsimp only at he
    split at he
    · rw [bind_eq_ok_g] at he
      obtain ⟨_, _, he⟩ := he
      simp only [Res.pure_eq, Res.ok.injEq, Prod.mk.injEq] at he
      exact Or.inr he.2.2.symm
    · rw [bind_eq_ok_g] at he
      obtain ⟨found, _, he⟩ := he
      cases found with
      | none =>
        simp only [Res.pure_eq, Res.ok.injEq, Prod.mk.injEq] at he
        exact Or.inl ⟨he.2.2.symm, he.2.1.symm⟩
      | some p =>
        obtain ⟨i, d⟩ := p
        dsimp only at he
        rw [bind_eq_ok_g] at he
        obtain ⟨_, _, he⟩ := he
        simp only [Res.pure_eq, Res.ok.injEq, Prod.mk.injEq] at he
        exact Or.inr he.2.2.symm

/-! ### the structure of one `offer` -/

theorem clearLast_nil : clearLast [] = [] := rfl

theorem clearLast_append (a b : List (Cfg × HState)) : clearLast (a ++ b) = clearLast a ++ clearLast b := by
  unfold clearLast; simp

theorem clearLast_cons (c : Cfg) (h : HState) (b : List (Cfg × HState)) :
    clearLast ((c, h) :: b) = (c, { h with lastArg := none }) :: clearLast b := rfl

/-- the member asked first answers (not `unknown`): it wins, the members behind it are not asked;
    for a key element they forget their last argument -/
theorem offer_hit (isKey : Bool) (c : Cfg) (h : HState) (rest : List (Cfg × HState)) (ai : It)
    (h' : HState) (ai' : It) (r : ArgResult)
    (he : evalSingleArgument c h ai = .ok (h', ai', r)) (hr : r ≠ .unknown) :
    offer isKey ((c, h) :: rest) ai = .ok ((c, h') :: (if isKey then clearLast rest else rest), ai', r) := by
  simp only [offer]
  rw [he]
  simp only [Res.bind_ok]
  rw [if_pos (by cases r <;> simp at hr ⊢)]
  rfl

/-- the member asked first fails: so does the offer -/
theorem offer_throw (isKey : Bool) (c : Cfg) (h : HState) (rest : List (Cfg × HState)) (ai : It) (e : Exc)
    (he : evalSingleArgument c h ai = .throw e) : offer isKey ((c, h) :: rest) ai = .throw e := by
  simp only [offer]; rw [he]; rfl

theorem offer_oob (isKey : Bool) (c : Cfg) (h : HState) (rest : List (Cfg × HState)) (ai : It) (w : String)
    (he : evalSingleArgument c h ai = .oob w) : offer isKey ((c, h) :: rest) ai = .oob w := by
  simp only [offer]; rw [he]; rfl

/-- the member asked first answers `unknown`: the element goes to the members behind it; if one of
    them takes a key element, the first member forgets its last argument -/
theorem offer_miss (isKey : Bool) (c : Cfg) (h : HState) (rest : List (Cfg × HState)) (ai : It)
    (h' : HState) (ai' : It)
    (he : evalSingleArgument c h ai = .ok (h', ai', .unknown)) :
    offer isKey ((c, h) :: rest) ai =
      (offer isKey rest ai >>= fun (x : List (Cfg × HState) × It × ArgResult) =>
        pure ((c, if isKey && x.2.2 != .unknown then { h' with lastArg := none } else h') :: x.1, x.2.1, x.2.2)) := by
  simp only [offer]
  rw [he]
  simp only [Res.bind_ok]
  rw [if_neg (by simp)]

/-- a group with one member: the offer is that member's answer -/
theorem offer_single (isKey : Bool) (c : Cfg) (h : HState) (ai : It) :
    offer isKey [(c, h)] ai =
      (evalSingleArgument c h ai >>= fun (x : HState × It × ArgResult) =>
        pure ([(c, x.1)], (if x.2.2 = .unknown then ai else x.2.1), x.2.2)) := by
  cases he : evalSingleArgument c h ai with
  | ok p =>
    obtain ⟨h', ai', r⟩ := p
    by_cases hr : r = .unknown
    · subst hr
      rw [offer_miss isKey c h [] ai h' ai' he]
      simp [offer]
    · rw [offer_hit isKey c h [] ai h' ai' r he hr]
      simp only [Res.bind_ok, Res.pure_eq, if_neg hr]
      cases isKey <;> rfl
  | throw e => rw [offer_throw isKey c h [] ai e he]; rfl
  | oob w => rw [offer_oob isKey c h [] ai w he]; rfl

/-! ### a group with a single member -/

/-- outcome of the group loop relative to the handler loop: same final state; the same exception,
    except that an unknown argument is a `std::invalid_argument` in `Handler::iterateArguments` and a
    `std::runtime_error` in `Groups::evalArguments` -/
def SingleRel (c : Cfg) : Res HState → Res (List (Cfg × HState)) → Prop
  | .ok h', g => g = .ok [(c, h')]
  | .throw e, g => ∃ e', g = .throw e' ∧ (e' = e ∨ (e = .invalid_argument ∧ e' = .runtime_error))
  | .oob _, g => ∃ w', g = .oob w'

theorem groupsLoop_single (c : Cfg) (fuel : Nat) : ∀ (h : HState) (ai : It),
    SingleRel c (iterateLoop c fuel h ai) (groupsLoop fuel [(c, h)] ai) := by
  induction fuel with
  | zero => intro h ai; exact ⟨_, rfl⟩
  | succ fuel ih =>
    intro h ai
    unfold iterateLoop groupsLoop
    split
    · rfl
    · rw [offer_single]
      cases he : evalSingleArgument c h ai with
      | ok p =>
        obtain ⟨h', ai', r⟩ := p
        simp only [Res.bind_ok, Res.pure_eq]
        rcases evalSingleArgument_result c h ai h' ai' r he with ⟨rfl, _⟩ | rfl
        · exact ⟨_, rfl, Or.inr ⟨rfl, rfl⟩⟩
        · simp only [reduceCtorEq, if_false]
          cases hs : ai'.step with
          | ok ai'' => exact ih h' ai''
          | throw e => exact ⟨_, rfl, Or.inl rfl⟩
          | oob w => exact ⟨_, rfl⟩
      | throw e => exact ⟨_, rfl, Or.inl rfl⟩
      | oob w => exact ⟨_, rfl⟩

theorem filterMap_range_getElem? {α : Type} (l : List α) (n : Nat) :
    (List.range n).filterMap (fun a => l[a]?) = l.take n := by
  induction n with
  | zero => simp
  | succ n ih =>
    rw [List.range_succ, List.filterMap_append, ih, List.take_add_one]
    congr 1

theorem memberArgIdx_zeros (n : Nat) : memberArgIdx (List.replicate n 0) 0 = List.range n := by
  unfold memberArgIdx
  rw [List.length_replicate]
  apply List.filter_eq_self.mpr
  intro a ha
  simp [List.getD]
  cases h : (List.replicate n 0)[a]? with
  | none => rfl
  | some v =>
    have := List.mem_of_getElem? h
    simp at this
    simp [this.2]

theorem memberCfg_zeros (cfg : Cfg) :
    memberCfg cfg (List.replicate cfg.args.length 0) (List.replicate cfg.globals.length 0) 0 = cfg := by
  have h1 := memberArgIdx_zeros cfg.args.length
  have h2 := memberArgIdx_zeros cfg.globals.length
  unfold memberArgIdx at h2
  unfold memberCfg
  rw [h1, h2, filterMap_range_getElem?, filterMap_range_getElem?]
  simp

theorem zip_take_left {α β : Type} (l : List α) (r : List β) : l.zip (r.take l.length) = l.zip r := by
  induction l generalizing r with
  | nil => simp
  | cons a l ih =>
    cases r with
    | nil => simp
    | cons b r => simp [ih]

theorem memberInits_zeros (cfg : Cfg) (inits : List DVal) :
    cfg.initState (memberInits inits (List.replicate cfg.args.length 0) 0) = cfg.initState inits := by
  unfold memberInits
  rw [memberArgIdx_zeros, filterMap_range_getElem?]
  unfold Cfg.initState
  rw [zip_take_left]

/-- outcome of `Groups::evalArguments` with one member relative to `Handler::evalArguments` of that
    member alone -/
def SingleEvalRel (cfg : Cfg) : Res HState → Res (List (Cfg × HState)) → Prop
  | .ok h, g => ∃ h', g = .ok [(cfg, h')] ∧ h = { h' with lastArg := none }
  | .throw e, g => ∃ e', g = .throw e' ∧ (e' = e ∨ (e = .invalid_argument ∧ e' = .runtime_error))
  | .oob _, g => ∃ w', g = .oob w'

theorem endChecks_eq (cfg : Cfg) (h : HState) :
    endChecks cfg h = (memberEndChecks cfg h >>= fun _ => pure { h with lastArg := none }) := by
  unfold endChecks memberEndChecks
  dsimp only
  cases checkMandatoryCardinality cfg.args h.args <;> simp
  cases pendingCheckRequired h.pending <;> simp

theorem groupsEndChecks_single (c : Cfg) (h : HState) :
    groupsEndChecks [(c, h)] = memberEndChecks c h := by
  simp only [groupsEndChecks]
  cases memberEndChecks c h <;> rfl

/-- `Groups::evalArguments` with one member that owns every argument and every handler constraint,
    against `Handler::evalArguments` of the same configuration -/
theorem groupsEval_single (cfg : Cfg) (inits : List DVal) (argv : List Word) :
    SingleEvalRel cfg (evalArguments cfg (cfg.initState inits) {} argv)
      (groupsEval cfg inits (List.replicate cfg.args.length 0) (List.replicate cfg.globals.length 0) [0] argv) := by
  unfold groupsEval evalArguments evalFileSource evalEnvSource iterateArguments
  simp only [List.map_cons, List.map_nil, memberCfg_zeros, memberInits_zeros, List.isEmpty_cons, throwIf_false,
    Res.bind_ok, Res.pure_eq]
  cases hb : It.begin argv with
  | ok ai =>
    simp only [Res.bind_ok]
    have hl := groupsLoop_single cfg (totalChars argv) (cfg.initState inits) ai
    cases hi : iterateLoop cfg (totalChars argv) (cfg.initState inits) ai with
    | ok h' =>
      rw [hi] at hl
      have hl' : groupsLoop (totalChars argv) [(cfg, cfg.initState inits)] ai = .ok [(cfg, h')] := hl
      rw [hl']
      simp only [Res.bind_ok, groupsEndChecks_single, endChecks_eq]
      cases memberEndChecks cfg h' with
      | ok u => exact ⟨h', rfl, rfl⟩
      | throw e => exact ⟨e, rfl, Or.inl rfl⟩
      | oob w => exact ⟨w, rfl⟩
    | throw e =>
      rw [hi] at hl
      obtain ⟨e', hl', hee⟩ := hl
      rw [hl']
      exact ⟨e', rfl, hee⟩
    | oob w =>
      rw [hi] at hl
      obtain ⟨w', hl'⟩ := hl
      rw [hl']
      exact ⟨w', rfl⟩
  | throw e => exact ⟨e, rfl, Or.inl rfl⟩
  | oob w => exact ⟨w, rfl⟩

/-! ### agreement of a group with the single handler that owns all arguments -/

/-- The group and the single handler agree: both accept and the destinations read through the group
    (`groupDests`, in the order of the merged configuration) carry the argument states of the single
    handler; or both reject — with the same exception class, or with `std::invalid_argument` from the
    single handler and `std::runtime_error` from the group.
    The exception is there for the unknown argument (`std::invalid_argument` for `Handler`,
    `std::runtime_error` for `Groups`), but the relation is COARSER than that: it identifies EVERY
    `invalid_argument` of the single handler with a `runtime_error` of the group, whatever its cause
    (e.g. the malformed typed key `---x`, word `-----x`, refused by `wordKey`; `hasIntersection` /
    `compareValue` on unsuited destinations): a group that reported `---x` as `runtime_error` would
    satisfy `GroupAgrees`.  That the pair occurs only at the unknown-argument refusal of `iterateLoop`
    is NOT part of this relation nor of `group_agrees`; it is the separate theorem `group_refusal`
    (Lemmas/GroupsRefusal.lean; Props: `C08_group_exceptions_partial`). -/
def GroupAgrees (single : Res HState) (group : Res (List (ArgDef × ArgSt))) : Prop :=
  match single, group with
  | .ok H, .ok ds => ds.map (·.2) = H.args
  | .throw e, .throw e' => e' = e ∨ (e = .invalid_argument ∧ e' = .runtime_error)
  | .oob _, .oob _ => True
  | _, _ => False

instance (single : Res HState) (group : Res (List (ArgDef × ArgSt))) : Decidable (GroupAgrees single group) := by
  unfold GroupAgrees; split <;> infer_instance

end CelmaVerif.ProgArgs
