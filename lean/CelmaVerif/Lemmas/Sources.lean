import CelmaVerif.Lemmas.Spelling
import CelmaVerif.Lemmas.RulesDest
/-
  C07, source half: the argument file and the environment variable as argument sources, end to end.

  Part 1 (this file): the evaluation with sources is the evaluation of an abstract command line in
  three phases — the uses spelled by the file lines and then by the environment value are applied
  with the "from a source" flag set, the flag is reset, the uses spelled by argv are applied, then
  the final checks run (`evalArguments_sources`).  From this: the destinations after an accepted
  evaluation are `denote` of all uses in the order file, environment, argv (`sources_dests_denote`).
  Part 2 (`SourcesSim.lean`): how the flag changes the rules — simulation of a command-line run by
  the run with sources.
-/
namespace CelmaVerif.ProgArgs
open CelmaVerif CelmaVerif.Keys

/-! ### the last-argument marker after a list of uses -/

/-- `mpLastArg` after the uses: the argument of the last use by key (free values do not move it) -/
def lastAfter (l : Option Nat) : List Use → Option Nat
  | [] => l
  | u :: us => lastAfter (if u.ident then some u.arg else l) us

theorem lastAfter_append (l : Option Nat) (a b : List Use) :
    lastAfter l (a ++ b) = lastAfter (lastAfter l a) b := by
  induction a generalizing l with
  | nil => rfl
  | cons u us ih => simp only [List.cons_append, lastAfter]; exact ih _

theorem applyUse_lastArg {cfg : Cfg} {h h' : HState} {u : Use} (e : applyUse cfg h u = .ok h') :
    h'.lastArg = (if u.ident then some u.arg else h.lastArg) ∧ h'.fromSrc = h.fromSrc := by
  unfold applyUse at e
  cases hd : cfg.args[u.arg]? with
  | none => rw [hd] at e; cases e
  | some d =>
    rw [hd] at e
    dsimp only at e
    cases hi : u.ident with
    | true =>
      rw [hi] at e
      simp only [if_true] at e
      obtain ⟨_, f2, f3, _, _⟩ := handleIdentifiedArg_frame e
      exact ⟨by simpa using f2, f3⟩
    | false =>
      rw [hi] at e
      simp only [Bool.false_eq_true, if_false] at e
      obtain ⟨_, f2, f3, _, _, _⟩ := assignValue_frame e
      exact ⟨by simpa using f2, f3⟩

theorem applyUses_lastArg {cfg : Cfg} : ∀ (us : List Use) (h h' : HState), applyUses cfg h us = .ok h' →
    h'.lastArg = lastAfter h.lastArg us ∧ h'.fromSrc = h.fromSrc := by
  intro us
  induction us with
  | nil => intro h h' e; simp only [applyUses] at e; cases e; exact ⟨rfl, rfl⟩
  | cons u us ih =>
    intro h h' e
    simp only [applyUses, bind_eq_ok] at e
    obtain ⟨h1, e1, e2⟩ := e
    obtain ⟨a1, a2⟩ := applyUse_lastArg e1
    obtain ⟨b1, b2⟩ := ih h1 h' e2
    exact ⟨by rw [b1, a1]; rfl, by rw [b2, a2]⟩

/-! ### file lines that spell uses -/

/-- a line the `readArgumentFile` loop skips: empty, or a comment -/
def SkippedLine (line : Word) : Prop := line = [] ∨ line.head? = some '#'

/-- **The lines of an argument file spell an abstract command line**: comment and empty lines spell
    nothing; every other line — any text, quoted in any way — is split by `splitString`, and the words
    spell uses in the sense of `Spells`; the uses of the lines follow each other.  The index is the
    handler's last-argument marker at the start of the line: it is *not* reset between lines (a line
    starting with a free value continues the multi-value argument of the line before). -/
inductive FileSpells (cfg : Cfg) : Option Nat → List Use → List Word → Prop where
  | nil (l : Option Nat) : FileSpells cfg l [] []
  | skip {l : Option Nat} {us : List Use} {line : Word} {rest : List Word} :
      SkippedLine line → FileSpells cfg l us rest → FileSpells cfg l us (line :: rest)
  | line {l : Option Nat} {us1 us2 : List Use} {line : Word} {rest : List Word} :
      ¬ SkippedLine line → Spells cfg l us1 (ArgString.splitString line) →
      FileSpells cfg (lastAfter l us1) us2 rest → FileSpells cfg l (us1 ++ us2) (line :: rest)

theorem skipped_iff (line : Word) : (line.isEmpty || line.head? == some '#') = true ↔ SkippedLine line := by
  unfold SkippedLine
  cases line with
  | nil => simp
  | cons c cs => simp

/-- the file loop is `applyUses` over the uses its lines spell -/
theorem readFileLines_uses (cfg : Cfg) {l : Option Nat} {us : List Use} {lines : List Word}
    (hs : FileSpells cfg l us lines) : ∀ h : HState, h.lastArg = l →
    readFileLines cfg lines h = applyUses cfg h us := by
  induction hs with
  | nil l => intro h _; rfl
  | @skip l us line rest hsk _ ih =>
    intro h hl
    simp only [readFileLines]
    rw [if_pos ((skipped_iff line).mpr hsk)]
    exact ih h hl
  | @line l us1 us2 line rest hns hsp _ ih =>
    intro h hl
    simp only [readFileLines]
    have : ¬ (line.isEmpty || line.head? == some '#') = true := fun c => hns ((skipped_iff line).mp c)
    rw [if_neg this]
    subst hl
    rw [spells_iterate cfg h _ hsp, applyUses_append]
    apply bind_congr_ok
    intro h' e
    exact ih h' (applyUses_lastArg us1 h h' e).1

/-! ### the sources as a whole -/

/-- the uses the argument file delivers (`none`: no file / flag off) -/
def FileSrcSpells (cfg : Cfg) (l : Option Nat) (us : List Use) : Option (List Word) → Prop
  | none => us = []
  | some lines => FileSpells cfg l us lines

/-- the uses the environment variable delivers (`none`: not set / empty / not asked for) -/
def EnvSrcSpells (cfg : Cfg) (l : Option Nat) (us : List Use) : Option Word → Prop
  | none => us = []
  | some e => Spells cfg l us (ArgString.splitString e)

/-- `applyUses` with the flag set, flag reset afterwards -/
def applyUsesSrc (cfg : Cfg) (h : HState) (us : List Use) : Res HState := do
  let h' ← applyUses cfg { h with fromSrc := true } us
  pure { h' with fromSrc := false }

theorem evalFileSource_uses (cfg : Cfg) {us : List Use} {file : Option (List Word)} (h : HState)
    (hf : h.fromSrc = false) (hs : FileSrcSpells cfg h.lastArg us file) :
    evalFileSource cfg file h = applyUsesSrc cfg h us := by
  cases file with
  | none =>
    simp only [FileSrcSpells] at hs
    subst hs
    simp only [evalFileSource, applyUsesSrc, applyUses, Res.pure_eq, Res.bind_ok]
    cases h; simp only at hf; subst hf; rfl
  | some lines =>
    simp only [FileSrcSpells] at hs
    simp only [evalFileSource, applyUsesSrc]
    rw [readFileLines_uses cfg hs { h with fromSrc := true } rfl]

theorem evalEnvSource_uses (cfg : Cfg) {us : List Use} {env : Option Word} (h : HState)
    (hf : h.fromSrc = false) (hs : EnvSrcSpells cfg h.lastArg us env) :
    evalEnvSource cfg env h = applyUsesSrc cfg h us := by
  cases env with
  | none =>
    simp only [EnvSrcSpells] at hs
    subst hs
    simp only [evalEnvSource, applyUsesSrc, applyUses, Res.pure_eq, Res.bind_ok]
    cases h; simp only at hf; subst hf; rfl
  | some e =>
    simp only [EnvSrcSpells] at hs
    simp only [evalEnvSource, applyUsesSrc]
    rw [spells_iterate cfg { h with fromSrc := true } _ hs]

theorem applyUsesSrc_ok {cfg : Cfg} {h h' : HState} {us : List Use} (e : applyUsesSrc cfg h us = .ok h') :
    h'.lastArg = lastAfter h.lastArg us ∧ h'.fromSrc = false ∧
    ∃ g, applyUses cfg { h with fromSrc := true } us = .ok g ∧ h' = { g with fromSrc := false } := by
  unfold applyUsesSrc at e
  simp only [bind_eq_ok, Res.pure_eq] at e
  obtain ⟨g, e1, e2⟩ := e
  cases e2
  exact ⟨(applyUses_lastArg us _ g e1).1, rfl, g, e1, rfl⟩

/-- two source phases in a row are one source phase over the concatenated uses -/
theorem applyUsesSrc_append (cfg : Cfg) (h : HState) (a b : List Use) :
    (applyUsesSrc cfg h a >>= fun h' => applyUsesSrc cfg h' b) = applyUsesSrc cfg h (a ++ b) := by
  unfold applyUsesSrc
  rw [applyUses_append]
  cases e : applyUses cfg { h with fromSrc := true } a with
  | throw x => rfl
  | oob w => rfl
  | ok g =>
    simp only [Res.bind_ok, Res.pure_eq]
    have hg : g.fromSrc = true := (applyUses_lastArg a _ g e).2
    have : ({ { g with fromSrc := false } with fromSrc := true } : HState) = g := by
      cases g; simp only at hg; subst hg; rfl
    rw [this]

/-- **Evaluation with sources = three phases over an abstract command line.**  If the lines of the
    argument file spell `usF`, the environment value `usE` and the words on argv `usA` (markers
    chained: a source or argv may begin with free values for the multi-value argument the previous
    source ended with), then `evalArguments` applies `usF ++ usE` with the from-source flag set,
    resets the flag, applies `usA` as command-line uses and runs the final checks — as an equation
    of results: same final state on success, same exception otherwise. -/
theorem evalArguments_sources (cfg : Cfg) (h : HState) (src : Sources) (prog : Word) (ws : List Word)
    {usF usE usA : List Use} (hfs : h.fromSrc = false)
    (hF : FileSrcSpells cfg h.lastArg usF src.file)
    (hE : EnvSrcSpells cfg (lastAfter h.lastArg usF) usE src.env)
    (hA : Spells cfg (lastAfter h.lastArg (usF ++ usE)) usA ws) :
    evalArguments cfg h src (prog :: ws) =
      (applyUsesSrc cfg h (usF ++ usE) >>= fun h1 => applyUses cfg h1 usA >>= fun h2 => endChecks cfg h2) := by
  unfold evalArguments
  rw [evalFileSource_uses cfg h hfs hF, ← applyUsesSrc_append]
  cases e1 : applyUsesSrc cfg h usF with
  | throw x => rfl
  | oob w => rfl
  | ok h1 =>
    simp only [Res.bind_ok]
    obtain ⟨l1, f1, _⟩ := applyUsesSrc_ok e1
    rw [evalEnvSource_uses cfg h1 f1 (by rw [l1]; exact hE)]
    cases e2 : applyUsesSrc cfg h1 usE with
    | throw x => rfl
    | oob w => rfl
    | ok h2 =>
      simp only [Res.bind_ok]
      obtain ⟨l2, _, _⟩ := applyUsesSrc_ok e2
      rw [spells_iterate cfg h2 prog (by rw [l2, l1, ← lastAfter_append]; exact hA)]

/-! ### the destinations after an accepted evaluation with sources -/

/-- `destInv_step` without the command-line-mode clause of `Frame` -/
theorem destInv_step_src {cfg : Cfg} {inits : List DVal} {h : HState} {u : Use} {h' : HState}
    (hlen : h.args.length = cfg.args.length) (a : DestInv cfg inits h) (e : applyUse cfg h u = .ok h') :
    h'.args.length = cfg.args.length ∧ DestInv cfg inits h' := by
  obtain ⟨d, pend, cnt, st', s⟩ := applyUse_ok e
  refine ⟨by rw [s.args']; simp [hlen], ?_⟩
  intro i di v hi hv ht
  obtain ⟨st, hst, hd⟩ := a i di v hi hv ht
  rw [s.uses', valsOf_snoc]
  by_cases hui : u.arg = i
  · have hdd : di = d := by have := s.arg; rw [hui, hi] at this; cases this; rfl
    subst hdd
    have hlt : i < h.args.length := by rw [hlen]; exact (List.getElem?_eq_some_iff.mp hi).1
    refine ⟨st', by rw [s.args', hui]; simp [hlt], ?_⟩
    rw [if_pos hui]
    have hassign := s.assign
    rw [hui, getD_of_getElem? hst] at hassign
    exact denote_snoc ht (by exact hd) hassign
  · refine ⟨st, by rw [s.args', List.getElem?_set_ne hui]; exact hst, ?_⟩
    rw [if_neg hui, List.append_nil]; exact hd

theorem destInv_applyUses {cfg : Cfg} {inits : List DVal} {us : List Use} {h h' : HState}
    (hlen : h.args.length = cfg.args.length) (a : DestInv cfg inits h) (e : applyUses cfg h us = .ok h') :
    h'.args.length = cfg.args.length ∧ DestInv cfg inits h' :=
  applyUses_inv (fun x => x.args.length = cfg.args.length ∧ DestInv cfg inits x)
    (fun _ _ _ a e => destInv_step_src a.1 a.2 e) us _ _ ⟨hlen, a⟩ e

/-- the three phases, taken apart -/
theorem phases_ok {cfg : Cfg} {h hf : HState} {usS usA : List Use}
    (e : (applyUsesSrc cfg h usS >>= fun h1 => applyUses cfg h1 usA >>= fun h2 => endChecks cfg h2) = .ok hf) :
    ∃ g h2, applyUses cfg { h with fromSrc := true } usS = .ok g ∧
      applyUses cfg { g with fromSrc := false } usA = .ok h2 ∧ endChecks cfg h2 = .ok hf := by
  simp only [bind_eq_ok] at e
  obtain ⟨h1, e1, h2, e2, e3⟩ := e
  obtain ⟨_, _, g, eg, rfl⟩ := applyUsesSrc_ok e1
  exact ⟨g, h2, eg, e2, e3⟩

/-- **Destinations after an accepted evaluation with sources**: every destination is `denote` of the
    values of its argument's uses in the order file, environment, argv -/
theorem sources_dests_denote {cfg : Cfg} {inits : List DVal} (hin : cfg.args.length ≤ inits.length)
    {usS usA : List Use} {hf : HState}
    (e : (applyUsesSrc cfg (cfg.initState inits) usS >>= fun h1 => applyUses cfg h1 usA >>= fun h2 =>
            endChecks cfg h2) = .ok hf)
    {i : Nat} {d : ArgDef} {v : DVal} (hi : cfg.args[i]? = some d) (hv : inits[i]? = some v)
    (ht : d.kind = .vecInt → ∃ l, v = .vec l) :
    ∃ st, hf.args[i]? = some st ∧ st.dest = denote d v (valsOf i (usS ++ usA)) := by
  obtain ⟨g, h2, e1, e2, e3⟩ := phases_ok e
  obtain ⟨_, _, _, hh⟩ := endChecks_ok e3
  have f0 := frame_init cfg inits hin
  have i1 := destInv_applyUses (inits := inits) (h := { cfg.initState inits with fromSrc := true })
    f0.argsLen (destInv_init cfg inits hin) e1
  have i2 := destInv_applyUses (inits := inits) (h := { g with fromSrc := false }) i1.1 i1.2 e2
  have u1 := applyUses_uses usS _ g e1
  have u2 := applyUses_uses usA _ h2 e2
  have hus : h2.uses = usS ++ usA := by
    rw [u2]; show g.uses ++ usA = _; rw [u1]; simp [Cfg.initState]
  obtain ⟨st, hst, hd⟩ := i2.2 i d v hi hv ht
  subst hh
  exact ⟨st, hst, by rw [← hus]; exact hd⟩

end CelmaVerif.ProgArgs
