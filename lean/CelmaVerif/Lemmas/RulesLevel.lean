import CelmaVerif.Lemmas.RulesProgress
/-
  Rules layer, part 6b: the value rules of LevelCounter arguments.  They are stateful (increment
  vs. assignment, the "mix" flag, checks applied to the incremented value), so `ScalarValueOk` in
  Spec.lean only approximates them; `LevelValuesOk` is their exact reading over the values of the
  uses of one argument, proved sound and sufficient.
-/
namespace CelmaVerif.ProgArgs
open CelmaVerif CelmaVerif.Keys

/-- one use of a LevelCounter argument is acceptable in the state (`cur` level, `set`: a value was
    assigned before, `inc`: it was incremented before).  Without value = increment: refused after an
    assignment unless mixing is allowed; the checks see the incremented level.  With value =
    assignment: refused after any earlier use unless mixing is allowed; the value passes the checks
    and converts. -/
def LevelStepOk (d : ArgDef) (cur : Int) (set inc : Bool) (v : Word) : Prop :=
  if v.isEmpty then
    (set = false ∨ d.mixIncSet = true) ∧ runChecks d.checks (toString (cur + 1)).toList = .ok ()
  else
    (d.mixIncSet = true ∨ (set = false ∧ inc = false)) ∧ runChecks d.checks v = .ok () ∧
      ∃ n, lexCastInt v = .ok n

/-- the values of all uses of a LevelCounter argument, in order, are acceptable -/
def LevelValuesOk (d : ArgDef) : Int → Bool → Bool → List Word → Prop
  | _, _, _, [] => True
  | cur, set, inc, v :: vs =>
    LevelStepOk d cur set inc v ∧ LevelValuesOk d (levelStep cur v) (set || !v.isEmpty) (inc || v.isEmpty) vs

/-- `assign` of a LevelCounter returned: the use was acceptable -/
theorem assignDest_level_ok {d : ArgDef} {st st' : ArgSt} {v : Word} (hk : d.kind = .level)
    (e : assignDest d st v = .ok st') : LevelStepOk d (levelOf st.dest) st.hasValueSet st.incremented v := by
  unfold assignDest at e
  rw [hk] at e
  dsimp only at e
  unfold LevelStepOk
  generalize st.dest = x at e ⊢
  cases x <;> simp only [levelOf] at e ⊢ <;>
  · split at e
    · rename_i hv
      simp only [bind_eq_ok, throwIf_eq_ok] at e
      obtain ⟨_, h1, _, h2, _⟩ := e
      rw [if_pos hv]
      refine ⟨?_, h2⟩
      cases hs : st.hasValueSet <;> cases hm : d.mixIncSet <;> simp [hs, hm] at h1 ⊢
    · rename_i hv
      simp only [bind_eq_ok, throwIf_eq_ok] at e
      obtain ⟨_, h1, _, h2, n, hn, _⟩ := e
      rw [if_neg hv]
      refine ⟨?_, h2, n, hn⟩
      cases hs : st.hasValueSet <;> cases hi : st.incremented <;> cases hm : d.mixIncSet <;>
        simp [hs, hm, hi] at h1 ⊢

/-- an acceptable use of a LevelCounter goes through -/
theorem assignDest_level_progress {d : ArgDef} {st : ArgSt} {v : Word} (hk : d.kind = .level)
    (h : LevelStepOk d (levelOf st.dest) st.hasValueSet st.incremented v) :
    ∃ st', assignDest d st v = .ok st' := by
  unfold assignDest
  rw [hk]
  dsimp only
  unfold LevelStepOk at h
  generalize st.dest = x at h ⊢
  cases x <;> simp only [levelOf] at h ⊢ <;>
  · split
    · rename_i hv
      rw [if_pos hv] at h
      obtain ⟨h1, h2⟩ := h
      have : (st.hasValueSet && !d.mixIncSet) = false := by
        rcases h1 with h1 | h1 <;> simp [h1]
      simp only [throwIf, this, Bool.false_eq_true, if_false, h2, Res.bind_ok]
      exact ⟨_, rfl⟩
    · rename_i hv
      rw [if_neg hv] at h
      obtain ⟨h1, h2, n, hn⟩ := h
      have : (!d.mixIncSet && (st.hasValueSet || st.incremented)) = false := by
        rcases h1 with h1 | ⟨h1, h1'⟩ <;> simp [*]
      simp only [throwIf, this, Bool.false_eq_true, if_false, h2, hn, Res.bind_ok]
      exact ⟨_, rfl⟩

/-- every LevelCounter argument will accept the values still to come -/
def LevelFuture (cfg : Cfg) (h : HState) (post : List Use) : Prop :=
  ∀ (i : Nat) (d : ArgDef) (st : ArgSt), cfg.args[i]? = some d → d.kind = .level → h.args[i]? = some st →
    LevelValuesOk d (levelOf st.dest) st.hasValueSet st.incremented (valsOf i post)

theorem levelFuture_step {cfg : Cfg} {h : HState} {u : Use} {post : List Use} {h' : HState}
    (f : Frame cfg h) (a : LevelFuture cfg h (u :: post)) (e : applyUse cfg h u = .ok h') :
    LevelFuture cfg h' post := by
  obtain ⟨d, pend, cnt, st', s⟩ := applyUse_ok e
  intro i di st hi hk hs
  rw [s.args'] at hs
  by_cases hui : u.arg = i
  · subst hui
    have hdd : di = d := by have := s.arg; rw [hi] at this; cases this; rfl
    subst hdd
    have hlt : u.arg < h.args.length := by rw [f.argsLen]; exact (List.getElem?_eq_some_iff.mp hi).1
    simp only [List.getElem?_set_self hlt, Option.some.injEq] at hs
    subst hs
    have hst0 : h.args[u.arg]? = some h.args[u.arg] := List.getElem?_eq_getElem hlt
    have hassign := s.assign
    rw [getD_of_getElem? hst0] at hassign
    have eff := assignDest_effect hassign
    rw [hk] at eff; dsimp only at eff
    have := a u.arg di _ hi hk hst0
    rw [valsOf_cons_self] at this
    rw [eff.1, eff.2.1, eff.2.2]
    exact this.2
  · rw [List.getElem?_set_ne hui] at hs
    have := a i di st hi hk hs
    rw [valsOf_cons_ne hui] at this
    exact this

/-- soundness of the LevelCounter rules: along an accepted sequence of uses, every LevelCounter
    argument found its values acceptable -/
theorem level_future_sound {cfg : Cfg} : ∀ (us : List Use) (h h' : HState), Frame cfg h →
    applyUses cfg h us = .ok h' → LevelFuture cfg h us := by
  intro us
  induction us with
  | nil => intro h h' _ _ i d st _ _ _; trivial
  | cons u us ih =>
    intro h h' f e
    simp only [applyUses, bind_eq_ok] at e
    obtain ⟨h1, e1, e2⟩ := e
    have ih1 := ih h1 h' (frame_step f e1) e2
    obtain ⟨d, pend, cnt, st', s⟩ := applyUse_ok e1
    intro i di st hi hk hs
    by_cases hui : u.arg = i
    · subst hui
      have hdd : di = d := by have := s.arg; rw [hi] at this; cases this; rfl
      subst hdd
      have hlt : u.arg < h.args.length := (List.getElem?_eq_some_iff.mp hs).1
      have hassign := s.assign
      rw [getD_of_getElem? hs] at hassign
      have hstep := assignDest_level_ok hk hassign
      have eff := assignDest_effect hassign
      rw [hk] at eff; dsimp only at eff
      have h1s : h1.args[u.arg]? = some st' := by rw [s.args']; simp [hlt]
      have := ih1 u.arg di st' hi hk h1s
      rw [eff.1, eff.2.1, eff.2.2] at this
      rw [valsOf_cons_self]
      exact ⟨hstep, this⟩
    · have h1s : h1.args[i]? = some st := by rw [s.args', List.getElem?_set_ne hui]; exact hs
      rw [valsOf_cons_ne hui]
      exact ih1 i di st hi hk h1s

end CelmaVerif.ProgArgs
