import CelmaVerif.Lemmas.ParseGrammar
/-
  The cursor model (Model/ProgArgs/Iter.lean) reads exactly the elements of the declarative
  tokenizer `nextTok` (Lemmas/ParseGrammar.lean): `step_sim` for `operator++`, `begin_sim` for
  `begin()`.
-/
namespace CelmaVerif.ProgArgs
open CelmaVerif CelmaVerif.Keys

/-! ### the tokenizer, case by case -/

theorem findEq_spec (r : Word) :
    (findEq r = none → r.dropWhile (· != '=') = []) ∧
    (∀ e, findEq r = some e →
      r.takeWhile (· != '=') = r.take e ∧ r.dropWhile (· != '=') = '=' :: r.drop (e + 1)) := by
  induction r with
  | nil =>
    refine ⟨fun _ => rfl, ?_⟩
    intro e h
    simp [findEq] at h
  | cons c cs ih =>
    by_cases hc : c = '='
    · subst hc
      refine ⟨?_, ?_⟩
      · intro h; simp [findEq] at h
      · intro e h
        simp only [findEq, beq_self_eq_true, if_true, Option.some.injEq] at h
        subst h
        simp
    · have hb : (c == '=') = false := by simp [hc]
      have hb' : (c != '=') = true := by simp [hc]
      refine ⟨?_, ?_⟩
      · intro h
        simp only [findEq, hb, Bool.false_eq_true, if_false, Option.map_eq_none_iff] at h
        rw [List.dropWhile_cons, if_pos hb']
        exact ih.1 h
      · intro e h
        simp only [findEq, hb, Bool.false_eq_true, if_false] at h
        cases he : findEq cs with
        | none => rw [he] at h; cases h
        | some e' =>
          rw [he] at h
          simp only [Option.map_some, Option.some.injEq] at h
          subst h
          obtain ⟨i1, i2⟩ := ih.2 e' he
          rw [List.takeWhile_cons, if_pos hb', List.dropWhile_cons, if_pos hb', i1, i2]
          simp

theorem ctrlOf_some {w : Word} {c : Char} (h : ctrlOf w = some c) :
    w = [c] ∧ (c = '(' ∨ c = ')' ∨ c = '!') := by
  cases w with
  | nil => simp [ctrlOf] at h
  | cons a as =>
    cases as with
    | cons b bs => simp [ctrlOf] at h
    | nil =>
      simp only [ctrlOf] at h
      split at h
      · rename_i hc
        cases h
        exact ⟨rfl, hc⟩
      · cases h

theorem ctrl_cond_some {w : Word} {c : Char} (h : ctrlOf w = some c) :
    (w.length == 1 && isCtrlChar (w.headD '\x00')) = true ∧ w.headD '\x00' = c := by
  obtain ⟨hw, hc⟩ := ctrlOf_some h
  subst hw
  refine ⟨?_, rfl⟩
  simp only [List.length_singleton, beq_self_eq_true, Bool.true_and, List.headD_cons]
  unfold isCtrlChar
  rcases hc with hc | hc | hc <;> subst hc <;> decide

theorem ctrl_cond_none {w : Word} (h : ctrlOf w = none) :
    (w.length == 1 && isCtrlChar (w.headD '\x00')) = false := by
  cases w with
  | nil => simp
  | cons a as =>
    cases as with
    | cons b bs => simp
    | nil =>
      simp only [ctrlOf] at h
      split at h
      · cases h
      · rename_i hc
        simp only [List.length_singleton, beq_self_eq_true, Bool.true_and, List.headD_cons]
        unfold isCtrlChar
        have c1 : a ≠ '(' := fun e => hc (Or.inl e)
        have c2 : a ≠ ')' := fun e => hc (Or.inr (Or.inl e))
        have c3 : a ≠ '!' := fun e => hc (Or.inr (Or.inr e))
        simp [c1, c2, c3]

theorem dashedTok_ctrl {w : Word} {c : Char} (rest : List Word) (h : ctrlOf w = some c) :
    dashedTok (w :: rest) = .tok (.ctrl c) (.bnd true false rest) := by
  simp only [dashedTok, h]

theorem dashedTok_value {w : Word} (rest : List Word) (h : ctrlOf w = none) :
    dashedTok (w :: rest) = .tok (.value w) (.bnd true false rest) := by
  simp only [dashedTok, h]

theorem wordTok_ctrl {w : Word} {c : Char} (rest : List Word) (h : ctrlOf w = some c) :
    wordTok false (w :: rest) = .tok (.ctrl c) (.bnd false false rest) := by
  simp only [wordTok, Bool.false_eq_true, if_false, h]

theorem wordTok_dash1 (first : Bool) (rest : List Word) : wordTok first (['-'] :: rest) = .bad := by
  have : ctrlOf ['-'] = none := by decide
  cases first <;> simp [wordTok, this]

theorem wordTok_dash2 (first : Bool) (c : Char) (r : Word) (rest : List Word) :
    wordTok first (('-' :: c :: r) :: rest) = inWordTok c r rest := by
  have : ctrlOf ('-' :: c :: r) = none := rfl
  cases first <;> simp [wordTok, this]

theorem wordTok_plain (first : Bool) {w : Word} (rest : List Word) (hc : first = true ∨ ctrlOf w = none)
    (hd : w.headD '\x00' ≠ '-') : wordTok first (w :: rest) = .tok (.value w) (.bnd false false rest) := by
  have h0 : (if first = true then none else ctrlOf w) = none := by
    rcases hc with hc | hc
    · rw [if_pos hc]
    · rw [hc]; simp
  simp only [wordTok, h0]
  split
  · simp at hd
  · simp at hd
  · rfl

theorem inWordTok_sep (rest : List Word) : inWordTok '-' [] rest = dashedTok rest := by
  simp [inWordTok]

theorem inWordTok_long {r : Word} (rest : List Word) (hr : r ≠ []) (he : findEq r = none) :
    inWordTok '-' r rest = .tok (.long r) (.bnd false false rest) := by
  cases r with
  | nil => exact absurd rfl hr
  | cons a as =>
    have := (findEq_spec (a :: as)).1 he
    unfold inWordTok
    rw [if_pos rfl]
    simp only [this]

theorem inWordTok_long_eq {r : Word} {e : Nat} (rest : List Word) (hr : r ≠ []) (he : findEq r = some e) :
    inWordTok '-' r rest = .tok (.long (r.take e)) (.eqv (r.drop (e + 1)) rest) := by
  cases r with
  | nil => exact absurd rfl hr
  | cons a as =>
    obtain ⟨i1, i2⟩ := (findEq_spec (a :: as)).2 e he
    unfold inWordTok
    rw [if_pos rfl]
    simp only [i2, i1]

theorem inWordTok_short_last {c : Char} (rest : List Word) (hc : c ≠ '-') :
    inWordTok c [] rest = .tok (.short c) (.bnd false false rest) := by
  unfold inWordTok
  rw [if_neg hc]

theorem inWordTok_short_more {c : Char} (c' : Char) (r' : Word) (rest : List Word) (hc : c ≠ '-') :
    inWordTok c (c' :: r') rest = .tok (.short c) (.inw c' r' rest) := by
  unfold inWordTok
  rw [if_neg hc]

theorem dashedTok_ne_bad (ws : List Word) : dashedTok ws ≠ .bad := by
  cases ws with
  | nil => simp [dashedTok]
  | cons w rest =>
    cases h : ctrlOf w with
    | none => rw [dashedTok_value rest h]; simp
    | some c => rw [dashedTok_ctrl rest h]; simp

/-! ### `Rep`, `Cur`, `StepSim` -/

/-- `Rep` does not look at the current element, `curLen` or the "rest as value" flag -/
theorem Rep_rem {it : It} {argv : List Word} {pos : Pos} (b : Bool) (hr : Rep it argv pos) :
    Rep { it with remAsValue := b } argv pos := by
  cases pos <;> exact hr

/-- `Cur` without the clause on the "rest as value" flag -/
def CurW (ai : It) (argv : List Word) : TokRes → Prop
  | .bad => False
  | .done => ai.atEnd = true
  | .tok t pos => ai.atEnd = false ∧ TokIs ai.cur t ∧ Rep ai argv pos

theorem atEnd_rem (ai : It) (b : Bool) : ({ ai with remAsValue := b } : It).atEnd = ai.atEnd := by
  unfold It.atEnd; rfl

theorem Cur_of_W {ai : It} {argv : List Word} {r : TokRes} (h : CurW ai argv r) (hr : ai.remAsValue = false) :
    Cur ai argv r := by
  cases r with
  | bad => exact h
  | done => exact h
  | tok t pos => exact ⟨h.1, h.2.1, h.2.2, hr⟩

theorem CurW_of_Cur {ai : It} {argv : List Word} {r : TokRes} (h : Cur ai argv r) : CurW ai argv r := by
  cases r with
  | bad => exact h
  | done => exact h
  | tok t pos => exact ⟨h.1, h.2.1, h.2.2.1⟩

theorem Cur_clear {ai : It} {argv : List Word} {r : TokRes} (h : CurW ai argv r) :
    Cur { ai with remAsValue := false } argv r := by
  cases r with
  | bad => exact h
  | done => exact (atEnd_rem ai false).trans h
  | tok t pos => exact ⟨(atEnd_rem ai false).trans h.1, h.2.1, Rep_rem false h.2.2, rfl⟩

theorem StepSim_ok {x : Res It} {ai : It} {argv : List Word} {r : TokRes} (hx : x = .ok ai) (h : Cur ai argv r) :
    StepSim x argv r := by
  cases r with
  | bad => exact absurd h (by intro h; exact h)
  | done => exact ⟨ai, hx, h⟩
  | tok t pos => exact ⟨ai, hx, h⟩

theorem StepSim_elim {x : Res It} {argv : List Word} {r : TokRes} (hb : r ≠ .bad) (h : StepSim x argv r) :
    ∃ ai, x = .ok ai ∧ Cur ai argv r := by
  cases r with
  | bad => exact absurd rfl hb
  | done => exact h
  | tok t pos => exact h

/-- a result of `determineNextArg` passed through the `ResetAtExit` of `operator++` -/
theorem StepSim_clear {x : Res It} {ai : It} {argv : List Word} {r : TokRes} (hx : x = .ok ai) (h : CurW ai argv r) :
    StepSim (clearRem x) argv r := by
  rw [hx, clearRem_ok]
  exact StepSim_ok rfl (Cur_clear h)

theorem drop_length_cons {α : Type} {l : List α} {k : Nat} {a : α} {t : List α} (h : l.drop k = a :: t) :
    l.length = k + 1 + t.length := by
  have := congrArg List.length h
  simp only [List.length_drop, List.length_cons] at this
  omega

/-! ### the cursor operations, branch by branch -/

/-- the end of the line -/
theorem next_end_sim {b : It} {argv : List Word} (f : Nat) (h1 : 1 ≤ argv.length) (hv : b.argv = argv)
    (hi : b.argIndex = argv.length) : ∃ ai, b.next (f + 1) = .ok ai ∧ ai.atEnd = true := by
  unfold It.next
  have hend : b.argIndex ≥ b.argc := by unfold It.argc; rw [hv, hi]; omega
  rw [if_pos hend, hv]
  obtain ⟨e, he, _, _, _⟩ := mkEnd_ok h1
  rw [he, clearRem_ok]
  exact ⟨_, rfl, (atEnd_rem e false).trans (mkEnd_atEnd he)⟩

/-- `operator++` at a word boundary behind the separator `--` -/
theorem next_dashed_sim {b : It} {argv : List Word} {rest : List Word} (f : Nat) (h1 : 1 ≤ argv.length)
    (hv : b.argv = argv) (hle : b.argIndex ≤ argv.length) (hc : b.charPos = 0) (hn : b.nextIsValue = false)
    (hd : b.acceptDashed = true) (hrest : argv.drop b.argIndex = rest) :
    StepSim (b.next (f + 1)) argv (dashedTok rest) := by
  cases rest with
  | nil =>
    have hi : b.argIndex = argv.length := by
      have := congrArg List.length hrest
      simp only [List.length_drop, List.length_nil] at this
      omega
    obtain ⟨ai, e1, e2⟩ := next_end_sim f h1 hv hi
    exact StepSim_ok e1 e2
  | cons w rest =>
    obtain ⟨hw, hrest'⟩ := drop_cons_getElem? hrest
    have hlt := lt_of_getElem? hw
    obtain ⟨av, ai, cp, cur, cl, ad, niv, rav⟩ := b
    simp only at hv hle hc hn hd hw hrest' hlt
    subst hv hc hn hd
    unfold It.next
    have hnend : ¬ ai ≥ It.argc ⟨av, ai, 0, cur, cl, true, false, rav⟩ := by unfold It.argc; simp only; omega
    simp only
    rw [if_neg hnend]
    simp only [Bool.false_or, Nat.lt_irrefl, decide_false, Bool.and_false, Bool.false_eq_true, if_false]
    unfold getWord
    rw [hw]
    simp only [Res.bind_ok, beq_self_eq_true, if_true]
    rw [getChar_zero av ai w hw]
    simp only [Res.bind_ok, Bool.or_true, if_true]
    cases hct : ctrlOf w with
    | some c =>
      obtain ⟨k1, k2⟩ := ctrl_cond_some hct
      rw [if_pos k1, dashedTok_ctrl rest hct, k2]
      simp only [Res.pure_eq, clearRem_ok]
      refine StepSim_ok rfl ⟨atEnd_false h1 (by show ai + 1 ≤ av.length; omega), ⟨rfl, rfl, (ctrlOf_some hct).2⟩,
        ⟨rfl, rfl, by show ai + 1 ≤ av.length; omega, rfl, rfl, rfl, hrest'⟩, rfl⟩
    | none =>
      have k1 := ctrl_cond_none hct
      rw [k1, dashedTok_value rest hct]
      simp only [Bool.false_eq_true, if_false, Res.pure_eq, clearRem_ok]
      refine StepSim_ok rfl ⟨atEnd_false h1 (by show ai + 1 ≤ av.length; omega), ⟨rfl, rfl⟩,
        ⟨rfl, rfl, by show ai + 1 ≤ av.length; omega, rfl, rfl, rfl, hrest'⟩, rfl⟩

/-- `determineNextArg()` at a character inside a dashed word -/
theorem dna_sim {it : It} {argv : List Word} {w : Word} {c : Char} {cs : Word} {rest : List Word} (f : Nat)
    (h1 : 1 ≤ argv.length) (hv : it.argv = argv) (hw : argv[it.argIndex]? = some w)
    (hdr : w.drop it.charPos = c :: cs) (hcl : it.curLen = w.length) (hn : it.nextIsValue = false)
    (hda : it.acceptDashed = false) (hrest : argv.drop (it.argIndex + 1) = rest) :
    ∃ it', it.determineNextArg (f + 2) = .ok it' ∧ CurW it' argv (inWordTok c cs rest) ∧
      (it.remAsValue = false → Cur it' argv (inWordTok c cs rest)) := by
  have hlt := lt_of_getElem? hw
  obtain ⟨hc, hcs⟩ := drop_cons_getElem? hdr
  have hlen := drop_length_cons hdr
  obtain ⟨av, ai, k, cur, cl, ad, niv, rav⟩ := it
  simp only at hv hw hdr hcl hn hda hrest hlt hc hcs hlen
  subst hv hcl hn hda
  have hle : ai + 1 ≤ av.length := by omega
  unfold It.determineNextArg
  simp only
  rw [getChar_at av ai k w c hw hc]
  simp only [Res.bind_ok]
  by_cases hcd : c = '-'
  · subst hcd
    rw [if_pos (by decide : (('-' : Char) == '-') = true)]
    cases cs with
    | nil =>
      have hl : (k + 1 == w.length) = true := by simp at hlen ⊢; omega
      rw [if_pos hl, inWordTok_sep]
      have hs := next_dashed_sim (b := ⟨av, ai + 1, 0, cur, w.length, true, false, rav⟩) (argv := av) (rest := rest)
        f h1 rfl hle rfl rfl rfl hrest
      obtain ⟨it', e1, e2⟩ := StepSim_elim (dashedTok_ne_bad rest) hs
      exact ⟨it', e1, CurW_of_Cur e2, fun _ => e2⟩
    | cons d ds =>
      have hl : (k + 1 == w.length) = false := by simp at hlen ⊢; omega
      rw [hl]
      simp only [Bool.false_eq_true, if_false]
      have hs : getSuffix av ai (k + 1) = .ok (d :: ds) := by
        unfold getSuffix getWord
        rw [hw]
        simp only [Res.bind_ok]
        rw [if_pos (by simp at hlen; omega), hcs]
        rfl
      rw [hs]
      simp only [Res.bind_ok]
      cases he : findEq (d :: ds) with
      | none =>
        simp only [Res.pure_eq]
        rw [inWordTok_long rest (by simp) he]
        have hW : CurW (⟨av, ai + 1, 0, Elem.setArgString ai (d :: ds), w.length, false, false, rav⟩ : It) av
            (.tok (.long (d :: ds)) (.bnd false false rest)) :=
          ⟨atEnd_false h1 hle, ⟨rfl, rfl⟩, ⟨rfl, rfl, hle, rfl, rfl, rfl, hrest⟩⟩
        exact ⟨_, rfl, hW, fun hr => Cur_of_W hW hr⟩
      | some e =>
        simp only [Res.pure_eq]
        rw [inWordTok_long_eq rest (by simp) he]
        have hel := findEq_lt he
        simp only [List.length_cons] at hel hlen
        have hdd : w.drop (k + (e + 2)) = (d :: ds).drop (e + 1) := by
          rw [← hcs, List.drop_drop]
          congr 1
          omega
        have hW : CurW (⟨av, ai, k + (e + 2), Elem.setArgString ai ((d :: ds).take e), w.length, false, true, rav⟩ : It) av
            (.tok (.long ((d :: ds).take e)) (.eqv ((d :: ds).drop (e + 1)) rest)) :=
          ⟨atEnd_false h1 (by show ai ≤ av.length; omega), ⟨rfl, rfl⟩,
            ⟨w, rfl, hw, by show k + (e + 2) ≤ w.length; omega, hdd, rfl, rfl, hrest⟩⟩
        exact ⟨_, rfl, hW, fun hr => Cur_of_W hW hr⟩
  · have hcb : (c == '-') = false := by simp [hcd]
    rw [hcb]
    simp only [Bool.false_eq_true, if_false]
    cases cs with
    | nil =>
      have hl : (w.length == k + 1) = true := by simp at hlen ⊢; omega
      rw [if_pos hl, inWordTok_short_last rest hcd]
      simp only [Res.pure_eq]
      have hW : CurW (⟨av, ai + 1, 0, Elem.setArgChar ai k c, w.length, false, false, rav⟩ : It) av
          (.tok (.short c) (.bnd false false rest)) :=
        ⟨atEnd_false h1 hle, ⟨rfl, rfl⟩, ⟨rfl, rfl, hle, rfl, rfl, rfl, hrest⟩⟩
      exact ⟨_, rfl, hW, fun hr => Cur_of_W hW hr⟩
    | cons d ds =>
      have hl : (w.length == k + 1) = false := by simp at hlen ⊢; omega
      rw [hl, inWordTok_short_more d ds rest hcd]
      simp only [Bool.false_eq_true, if_false, Res.pure_eq]
      have hW : CurW (⟨av, ai, k + 1, Elem.setArgChar ai k c, w.length, false, false, rav⟩ : It) av
          (.tok (.short c) (.inw d ds rest)) :=
        ⟨atEnd_false h1 (by show ai ≤ av.length; omega), ⟨rfl, rfl⟩,
          ⟨w, rfl, hw, by show 1 ≤ k + 1; omega, hcs, rfl, rfl, hrest⟩⟩
      exact ⟨_, rfl, hW, fun hr => Cur_of_W hW hr⟩

theorem headD_dash {w : Word} (h : w.headD '\x00' = '-') : ∃ t, w = '-' :: t := by
  cases w with
  | nil => exact absurd h (by decide)
  | cons a t =>
    simp only [List.headD_cons] at h
    subst h
    exact ⟨t, rfl⟩

/-- `operator++` at a word boundary before the separator `--` -/
theorem next_word_sim {b : It} {argv : List Word} {ws : List Word} (f : Nat) (h1 : 1 ≤ argv.length)
    (hv : b.argv = argv) (hle : b.argIndex ≤ argv.length) (hc : b.charPos = 0) (hn : b.nextIsValue = false)
    (hd : b.acceptDashed = false) (hrest : argv.drop b.argIndex = ws) :
    StepSim (b.next (f + 3)) argv (wordTok false ws) := by
  cases ws with
  | nil =>
    have hi : b.argIndex = argv.length := by
      have := congrArg List.length hrest
      simp only [List.length_drop, List.length_nil] at this
      omega
    obtain ⟨ai, e1, e2⟩ := next_end_sim (f + 2) h1 hv hi
    exact StepSim_ok e1 e2
  | cons w rest =>
    obtain ⟨hw, hrest'⟩ := drop_cons_getElem? hrest
    have hlt := lt_of_getElem? hw
    obtain ⟨av, ai, cp, cur, cl, ad, niv, rav⟩ := b
    simp only at hv hle hc hn hd hw hrest' hlt
    subst hv hc hn hd
    unfold It.next
    have hnend : ¬ ai ≥ It.argc ⟨av, ai, 0, cur, cl, false, false, rav⟩ := by unfold It.argc; simp only; omega
    simp only
    rw [if_neg hnend]
    simp only [Bool.false_or, Nat.lt_irrefl, decide_false, Bool.and_false, Bool.false_eq_true, if_false]
    unfold getWord
    rw [hw]
    simp only [Res.bind_ok, beq_self_eq_true, if_true]
    rw [getChar_zero av ai w hw]
    simp only [Res.bind_ok, Bool.or_false]
    have hle' : ai + 1 ≤ av.length := by omega
    cases hct : ctrlOf w with
    | some c =>
      obtain ⟨k1, k2⟩ := ctrl_cond_some hct
      rw [if_pos k1, wordTok_ctrl rest hct, k2]
      simp only [Res.pure_eq, clearRem_ok]
      exact StepSim_ok rfl ⟨atEnd_false h1 hle', ⟨rfl, rfl, (ctrlOf_some hct).2⟩,
        ⟨rfl, rfl, hle', rfl, rfl, rfl, hrest'⟩, rfl⟩
    | none =>
      have k1 := ctrl_cond_none hct
      rw [k1]
      simp only [Bool.false_eq_true, if_false]
      by_cases hdash : w.headD '\x00' = '-'
      · obtain ⟨t, ht⟩ := headD_dash hdash
        subst ht
        have hb : (('-' : Char) != '-') = false := by decide
        simp only [List.headD_cons, hb, Bool.false_eq_true, if_false]
        cases t with
        | nil =>
          rw [wordTok_dash1]
          simp only [List.length_singleton, beq_self_eq_true, if_true]
          rfl
        | cons c r =>
          have hl : (('-' :: c :: r).length == 1) = false := by simp
          rw [hl, wordTok_dash2]
          simp only [Bool.false_eq_true, if_false]
          obtain ⟨it', e1, e2, _⟩ := dna_sim (it := ⟨av, ai, 1, cur, ('-' :: c :: r).length, false, false, rav⟩)
            (argv := av) (w := '-' :: c :: r) (c := c) (cs := r) (rest := rest) f h1 rfl hw rfl rfl rfl rfl hrest'
          exact StepSim_clear e1 e2
      · have hb : (w.headD '\x00' != '-') = true := bne_iff_ne.mpr hdash
        rw [if_pos hb, wordTok_plain false rest (Or.inr hct) hdash]
        simp only [Res.pure_eq, clearRem_ok]
        exact StepSim_ok rfl ⟨atEnd_false h1 hle', ⟨rfl, rfl⟩, ⟨rfl, rfl, hle', rfl, rfl, rfl, hrest'⟩, rfl⟩

/-- the rest of the current word is read as a value (`-cVALUE`, `--name=VALUE`) -/
theorem next_rest_value {b : It} {argv : List Word} {w : Word} {ws : List Word} (f : Nat) (h1 : 1 ≤ argv.length)
    (hv : b.argv = argv) (hw : argv[b.argIndex]? = some w) (hk : b.charPos ≤ w.length)
    (hmode : (b.nextIsValue || (b.remAsValue && decide (b.charPos > 0))) = true)
    (hd : b.acceptDashed = false) (hrest : argv.drop (b.argIndex + 1) = ws) :
    StepSim (b.next (f + 1)) argv (.tok (.value (w.drop b.charPos)) (.bnd false false ws)) := by
  have hlt := lt_of_getElem? hw
  obtain ⟨av, ai, k, cur, cl, ad, niv, rav⟩ := b
  simp only at hv hw hk hmode hd hrest hlt
  subst hv hd
  unfold It.next
  have hnend : ¬ ai ≥ It.argc ⟨av, ai, k, cur, cl, false, niv, rav⟩ := by unfold It.argc; simp only; omega
  simp only
  rw [if_neg hnend, if_pos hmode]
  have hs : getSuffix av ai k = .ok (w.drop k) := by
    unfold getSuffix getWord
    rw [hw]
    simp only [Res.bind_ok]
    rw [if_pos hk]
    rfl
  rw [hs]
  simp only [Res.bind_ok, Res.pure_eq, clearRem_ok]
  have hle' : ai + 1 ≤ av.length := by omega
  exact StepSim_ok rfl ⟨atEnd_false h1 hle', ⟨rfl, rfl⟩, ⟨rfl, rfl, hle', rfl, rfl, rfl, hrest⟩, rfl⟩

/-- `operator++` inside a dashed word, the rest of the word not being a value -/
theorem next_inword_sim {b : It} {argv : List Word} {w : Word} {c : Char} {cs : Word} {ws : List Word} (f : Nat)
    (h1 : 1 ≤ argv.length) (hv : b.argv = argv) (hw : argv[b.argIndex]? = some w) (hk : 1 ≤ b.charPos)
    (hdr : w.drop b.charPos = c :: cs) (hn : b.nextIsValue = false) (hr : b.remAsValue = false)
    (hd : b.acceptDashed = false) (hrest : argv.drop (b.argIndex + 1) = ws) :
    StepSim (b.next (f + 3)) argv (inWordTok c cs ws) := by
  have hlt := lt_of_getElem? hw
  obtain ⟨av, ai, k, cur, cl, ad, niv, rav⟩ := b
  simp only at hv hw hk hdr hn hr hd hrest hlt
  subst hv hn hr hd
  unfold It.next
  have hnend : ¬ ai ≥ It.argc ⟨av, ai, k, cur, cl, false, false, false⟩ := by unfold It.argc; simp only; omega
  simp only
  rw [if_neg hnend]
  simp only [Bool.false_or, Bool.false_and, Bool.false_eq_true, if_false]
  unfold getWord
  rw [hw]
  simp only [Res.bind_ok]
  have hk0 : (k == 0) = false := by simp; omega
  rw [hk0]
  simp only [Bool.false_eq_true, if_false]
  obtain ⟨it', e1, e2, _⟩ := dna_sim (it := ⟨av, ai, k, cur, w.length, false, false, false⟩)
    (argv := av) (w := w) (c := c) (cs := cs) (rest := ws) f h1 rfl hw hdr rfl rfl rfl hrest
  exact StepSim_clear e1 e2

/-! ### the two cursor operations -/

theorem step_sim {it : It} {argv : List Word} {pos : Pos} (h1 : 1 ≤ argv.length) (hr : Rep it argv pos) :
    StepSim it.step argv (nextTok it.remAsValue pos) := by
  unfold It.step
  cases pos with
  | bnd dashed first ws =>
    obtain ⟨hf, hv, hle, hc, hn, hd, hrest⟩ := hr
    subst hf
    cases dashed with
    | true => exact next_dashed_sim 3 h1 hv hle hc hn hd hrest
    | false => exact next_word_sim 1 h1 hv hle hc hn hd hrest
  | inw c cs ws =>
    obtain ⟨w, hv, hw, hk, hdr, hn, hd, hrest⟩ := hr
    cases hrem : it.remAsValue with
    | true =>
      have hmode : (it.nextIsValue || (it.remAsValue && decide (it.charPos > 0))) = true := by
        rw [hn, hrem]; simp; omega
      have hkl : it.charPos ≤ w.length := by have := drop_length_cons hdr; omega
      have := next_rest_value (ws := ws) 3 h1 hv hw hkl hmode hd hrest
      rw [hdr] at this
      exact this
    | false => exact next_inword_sim 1 h1 hv hw hk hdr hn hrem hd hrest
  | eqv v ws =>
    obtain ⟨w, hv, hw, hk, hdr, hn, hd, hrest⟩ := hr
    have hmode : (it.nextIsValue || (it.remAsValue && decide (it.charPos > 0))) = true := by
      rw [hn]; rfl
    have := next_rest_value (ws := ws) 3 h1 hv hw hk hmode hd hrest
    rw [hdr] at this
    exact this

theorem begin_sim (prog : Word) (ws : List Word) :
    StepSim (It.begin (prog :: ws)) (prog :: ws) (nextTok false (.bnd false true ws)) := by
  show StepSim (It.begin (prog :: ws)) (prog :: ws) (wordTok true ws)
  cases ws with
  | nil =>
    unfold It.begin
    rw [if_pos (by simp)]
    obtain ⟨e, he, _, _, _⟩ := mkEnd_ok (argv := [prog]) (by simp)
    exact StepSim_ok he (mkEnd_atEnd he)
  | cons w rest =>
    have h1 : 1 ≤ (prog :: w :: rest).length := by simp
    have hw : (prog :: w :: rest)[1]? = some w := rfl
    unfold It.begin
    rw [if_neg (by simp)]
    unfold getWord
    rw [hw]
    simp only [Res.bind_ok]
    rw [getChar_zero _ 1 w hw]
    simp only [Res.bind_ok]
    by_cases hdash : w.headD '\x00' = '-'
    · obtain ⟨t, ht⟩ := headD_dash hdash
      subst ht
      simp only [List.headD_cons, beq_self_eq_true, if_true]
      cases t with
      | nil =>
        rw [wordTok_dash1]
        simp only [List.length_singleton, beq_self_eq_true, if_true]
        rfl
      | cons c r =>
        have hl : (('-' :: c :: r).length == 1) = false := by simp
        rw [hl, wordTok_dash2]
        simp only [Bool.false_eq_true, if_false]
        obtain ⟨it', e1, _, e3⟩ := dna_sim
          (it := ⟨prog :: ('-' :: c :: r) :: rest, 1, 1, {}, ('-' :: c :: r).length, false, false, false⟩)
          (argv := prog :: ('-' :: c :: r) :: rest) (w := '-' :: c :: r) (c := c) (cs := r) (rest := rest)
          2 h1 rfl hw rfl rfl rfl rfl rfl
        exact StepSim_ok e1 (e3 rfl)
    · have hb : (w.headD '\x00' == '-') = false := beq_eq_false_iff_ne.mpr hdash
      rw [hb, wordTok_plain true rest (Or.inl rfl) hdash]
      simp only [Bool.false_eq_true, if_false, Res.pure_eq]
      exact StepSim_ok rfl ⟨atEnd_false h1 (by show 2 ≤ (prog :: w :: rest).length; simp), ⟨rfl, rfl⟩,
        ⟨rfl, rfl, by show 2 ≤ (prog :: w :: rest).length; simp, rfl, rfl, rfl, rfl⟩, rfl⟩

end CelmaVerif.ProgArgs
