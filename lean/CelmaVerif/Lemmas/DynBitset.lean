import CelmaVerif.Model.DynBitset
/-
  Helper lemmas for C12: checked accesses, loop invariants, and for every modelled operation the
  statement "the loop as coded never leaves the vector and computes the reference operation".
-/
namespace CelmaVerif.DynBitset
open CelmaVerif

/-! ## checked accesses -/

theorem rd_ok {v : Bits} {i : Nat} {w : String} (h : i < v.length) : rd v i w = .ok (v.getD i false) := by
  unfold rd; rw [if_pos h]

theorem wr_ok {α : Type} {v : List α} {i : Nat} {b : α} {w : String} (h : i < v.length) :
    wr v i b w = .ok (v.set i b) := by
  unfold wr; rw [if_pos h]

theorem getD_set (v : Bits) (i j : Nat) (b : Bool) (h : i < v.length) :
    (v.set i b).getD j false = if j = i then b else v.getD j false := by
  by_cases hj : j = i
  · subst hj; simp [List.getD_eq_getElem?_getD, h]
  · simp only [List.getD_eq_getElem?_getD, if_neg hj]
    rw [List.getElem?_set_ne (Ne.symm hj)]

theorem getD_ge (v : Bits) (j : Nat) (h : v.length ≤ j) : v.getD j false = false := by
  simp [List.getD_eq_getElem?_getD, List.getElem?_eq_none h]

theorem ext_bit {a b : Bits} (hl : a.length = b.length)
    (h : ∀ j, j < a.length → a.getD j false = b.getD j false) : a = b := by
  apply List.ext_getElem hl
  intro j h1 h2
  have := h j h1
  simpa [List.getD_eq_getElem?_getD, List.getElem?_eq_getElem h1, List.getElem?_eq_getElem h2] using this

theorem mk_length (n : Nat) (f : Nat → Bool) : (Ref.mk n f).length = n := by simp [Ref.mk]

theorem mk_getD (n : Nat) (f : Nat → Bool) (j : Nat) (h : j < n) : (Ref.mk n f).getD j false = f j := by
  simp [Ref.mk, List.getD_eq_getElem?_getD, h]

theorem eq_mk {v : Bits} {n : Nat} {f : Nat → Bool} (hl : v.length = n)
    (h : ∀ j, j < n → v.getD j false = f j) : v = Ref.mk n f := by
  apply ext_bit (by rw [hl, mk_length])
  intro j hj
  rw [hl] at hj
  rw [h j hj, mk_getD n f j hj]

theorem resize_length (v : Bits) (n : Nat) (b : Bool) : (resize v n b).length = n := by
  simp [resize]; omega

theorem resize_getD (v : Bits) (n : Nat) (j : Nat) (hn : v.length ≤ n) :
    (resize v n false).getD j false = v.getD j false := by
  unfold resize
  rw [List.take_of_length_le hn]
  simp only [List.getD_eq_getElem?_getD]
  by_cases hj : j < v.length
  · rw [List.getElem?_append_left hj]
  · have hj' : v.length ≤ j := by omega
    rw [List.getElem?_append_right hj', List.getElem?_eq_none hj']
    by_cases h2 : j - v.length < n - v.length
    · simp [h2]
    · simp [h2]

theorem growSize_gt (pos : Nat) : pos < growSize pos := by unfold growSize; omega

/-! ## loop invariants -/

theorem forUp_inv {σ : Type} (P : Nat → σ → Prop) (body : Nat → σ → Res σ) :
    ∀ (n lo : Nat) (s : σ), P lo s →
      (∀ i s, lo ≤ i → i < lo + n → P i s → ∃ s', body i s = .ok s' ∧ P (i + 1) s') →
      ∃ s', forUp body n lo s = .ok s' ∧ P (lo + n) s' := by
  intro n
  induction n with
  | zero => intro lo s h0 _; exact ⟨s, rfl, by simpa using h0⟩
  | succ n ih =>
    intro lo s h0 hstep
    obtain ⟨s1, hb, hP⟩ := hstep lo s (Nat.le_refl _) (by omega) h0
    obtain ⟨s2, hr, hP2⟩ := ih (lo + 1) s1 hP (fun i s hi1 hi2 hp => hstep i s (by omega) (by omega) hp)
    refine ⟨s2, ?_, ?_⟩
    · simp only [forUp, hb]; exact hr
    · have : lo + 1 + n = lo + (n + 1) := by omega
      rw [← this]; exact hP2

theorem forDown_inv {σ : Type} (P : Nat → σ → Prop) (body : Nat → σ → Res σ) :
    ∀ (n hi : Nat) (s : σ), n ≤ hi → P hi s →
      (∀ i s, hi - n ≤ i → i < hi → P (i + 1) s → ∃ s', body i s = .ok s' ∧ P i s') →
      ∃ s', forDown body n hi s = .ok s' ∧ P (hi - n) s' := by
  intro n
  induction n with
  | zero => intro hi s _ h0 _; exact ⟨s, rfl, by simpa using h0⟩
  | succ n ih =>
    intro hi s hn h0 hstep
    have h1 : hi - 1 + 1 = hi := by omega
    obtain ⟨s1, hb, hP⟩ := hstep (hi - 1) s (by omega) (by omega) (by rw [h1]; exact h0)
    obtain ⟨s2, hr, hP2⟩ := ih (hi - 1) s1 (by omega) hP (fun i s hi1 hi2 hp => hstep i s (by omega) (by omega) hp)
    refine ⟨s2, ?_, ?_⟩
    · simp only [forDown, hb]; exact hr
    · have : hi - 1 - n = hi - (n + 1) := by omega
      rw [← this]; exact hP2

/-! ## logical operators -/

/-- the common loop `for idx in [0, n): v[idx] = f v[idx] other[idx]` -/
theorem opLoop (f : Bool → Bool → Bool) (other a : Bits) (n : Nat) (hn1 : n ≤ a.length) (hn2 : n ≤ other.length) :
    ∃ v, forUp (opBody f other) n 0 a = .ok v ∧ v.length = a.length ∧
      ∀ j, v.getD j false = if j < n then f (a.getD j false) (other.getD j false) else a.getD j false := by
  obtain ⟨v, h1, h2⟩ := forUp_inv
    (fun i (v : Bits) => v.length = a.length ∧
      ∀ j, v.getD j false = if j < i then f (a.getD j false) (other.getD j false) else a.getD j false)
    (opBody f other) n 0 a ⟨rfl, by intro j; simp⟩
    (by
      intro i s _ hi ⟨hl, hb⟩
      have h1 : i < s.length := by omega
      have h2 : i < other.length := by omega
      refine ⟨_, by simp only [opBody, rd_ok h1, rd_ok h2, wr_ok h1]; rfl, by simp [hl], ?_⟩
      intro j
      rw [getD_set _ _ _ _ h1]
      by_cases hj : j = i
      · subst hj; rw [if_pos rfl, if_pos (Nat.lt_succ_self _), hb j, if_neg (Nat.lt_irrefl _)]
      · rw [if_neg hj, hb j]
        by_cases hji : j < i
        · rw [if_pos hji, if_pos (by omega)]
        · rw [if_neg hji, if_neg (by omega)])
  refine ⟨v, h1, h2.1, ?_⟩
  simpa using h2.2

/-- the clearing loop `for idx in [lo, lo+n): v[idx] = false` -/
theorem clearLoop (a : Bits) (lo n : Nat) (h : lo + n ≤ a.length) :
    ∃ v, forUp clrBody n lo a = .ok v ∧ v.length = a.length ∧
      ∀ j, v.getD j false = if lo ≤ j ∧ j < lo + n then false else a.getD j false := by
  obtain ⟨v, h1, h2⟩ := forUp_inv
    (fun i (v : Bits) => v.length = a.length ∧
      ∀ j, v.getD j false = if lo ≤ j ∧ j < i then false else a.getD j false)
    clrBody n lo a ⟨rfl, by intro j; rw [if_neg (by omega)]⟩
    (by
      intro i s hlo hi ⟨hl, hb⟩
      have h1 : i < s.length := by omega
      refine ⟨_, by simp only [clrBody, wr_ok h1]; rfl, by simp [hl], ?_⟩
      intro j
      rw [getD_set _ _ _ _ h1]
      by_cases hj : j = i
      · subst hj; rw [if_pos rfl, if_pos ⟨hlo, Nat.lt_succ_self _⟩]
      · rw [if_neg hj, hb j]
        by_cases hji : lo ≤ j ∧ j < i
        · rw [if_pos hji, if_pos (by omega)]
        · rw [if_neg hji, if_neg (by omega)])
  exact ⟨v, h1, h2.1, h2.2⟩

theorem andAssign_eq (a b : Bits) : andAssign a b = .ok (Ref.and a b) := by
  unfold andAssign
  split
  · rename_i h
    obtain ⟨v, h1, h2, h3⟩ := opLoop (· && ·) b a a.length (Nat.le_refl _) (by omega)
    rw [h1]
    congr 1
    apply eq_mk h2
    intro j hj
    rw [h3 j, if_pos hj]; rfl
  · rename_i h
    obtain ⟨v, h1, h2, h3⟩ := opLoop (· && ·) b a b.length (by omega) (Nat.le_refl _)
    rw [h1]
    obtain ⟨v', g1, g2, g3⟩ := clearLoop v b.length (a.length - b.length) (by omega)
    simp only
    rw [g1]
    congr 1
    apply eq_mk (by omega)
    intro j hj
    rw [g3 j]
    unfold Ref.bit
    by_cases hjb : j < b.length
    · rw [if_neg (by omega), h3 j, if_pos hjb]
    · rw [if_pos (by omega), getD_ge b j (by omega)]; simp

theorem orLike_eq (f : Bool → Bool → Bool) (hf : ∀ x, f x false = x) (a b : Bits) :
    forUp (opBody f b) (min (if a.length < b.length then resize a b.length else a).length b.length) 0
        (if a.length < b.length then resize a b.length else a)
      = .ok (Ref.mk (max a.length b.length) fun i => f (Ref.bit a i) (Ref.bit b i)) := by
  split
  · rename_i h
    rw [resize_length]
    obtain ⟨v, h1, h2, h3⟩ := opLoop f b (resize a b.length) (min b.length b.length)
      (by rw [resize_length]; omega) (by omega)
    rw [h1]
    congr 1
    rw [resize_length] at h2
    apply eq_mk (by omega)
    intro j hj
    rw [h3 j, if_pos (by omega), resize_getD a b.length j (by omega)]; rfl
  · rename_i h
    obtain ⟨v, h1, h2, h3⟩ := opLoop f b a (min a.length b.length) (by omega) (by omega)
    rw [h1]
    congr 1
    apply eq_mk (by omega)
    intro j hj
    rw [h3 j]
    unfold Ref.bit
    by_cases hjb : j < b.length
    · rw [if_pos (by omega)]
    · rw [if_neg (by omega), getD_ge b j (by omega), hf]

theorem orAssign_eq (a b : Bits) : orAssign a b = .ok (Ref.or a b) := by
  unfold orAssign Ref.or
  exact orLike_eq (· || ·) (by intro x; simp) a b

theorem xorAssign_eq (a b : Bits) : xorAssign a b = .ok (Ref.xor a b) := by
  unfold xorAssign Ref.xor
  exact orLike_eq (· != ·) (by intro x; cases x <;> rfl) a b

end CelmaVerif.DynBitset
