import CelmaVerif.Lemmas.ConcurrencyEvents
import CelmaVerif.Lemmas.ConcurrencyHB
/-
  The ghost happens-before state `HB` (updated by `hbStep`) is sound and complete against the
  event-level relation `HBefore` of Lemmas/ConcurrencyEvents.lean: invariant `EInv`, one step lemma
  per program counter, induction over the schedule.  No hypothesis on the configuration: the
  correspondence holds for every `Cfg` (relaxed orders, plain pointer of the pinned commit, …).
-/
namespace CelmaVerif.Concurrency

structure EInv (cfg : Cfg) (s : SState) (h : HB) (tr : List Ev) : Prop where
  /-- the vector-clock bit of a thread = a construction is or happens-before one of its events -/
  knows : ∀ t, h.knows t = true ↔ Knows cfg tr t
  /-- mutex free: what the last unlock published = what *any* earlier unlock publishes -/
  mfree : s.lock = none → (h.mutexKnows = true ↔ UnlockKnows cfg tr)
  /-- mutex held: the holder has acquired everything the earlier unlocks published -/
  mheld : ∀ t, s.lock = some t → UnlockKnows cfg tr → Knows cfg tr t
  /-- what the cell publishes = release store that is the last store, reached by a construction -/
  cell : h.cellKnows = true ↔ (cfg.ptrAtomic = true ∧ cfg.storeRel = true ∧ CellKnows cfg tr)
  /-- a store event has happened ⇒ the pointer is set (so a load that has a store to read from sees it) -/
  wrote : (∃ i, IsKind tr i .write) → s.ptr.isSome = true
  racy : ∀ t, t ∈ h.racyUse ↔ RacyUse cfg tr t

theorem not_knows_nil (cfg : Cfg) (t : Nat) : ¬ Knows cfg [] t := by
  rintro ⟨i, ⟨a, ha, _⟩, _⟩; simp at ha

theorem einv_init (cfg : Cfg) : EInv cfg SState.init HB.init [] := by
  refine ⟨?_, ?_, ?_, ?_, ?_, ?_⟩
  · intro t
    constructor
    · intro h; simp [HB.init] at h
    · intro h; exact absurd h (not_knows_nil cfg t)
  · intro _
    constructor
    · intro h; simp [HB.init] at h
    · rintro ⟨u, ⟨a, ha, _⟩, _⟩; simp at ha
  · intro t h; simp [SState.init] at h
  · constructor
    · intro h; simp [HB.init] at h
    · rintro ⟨_, _, w, ⟨⟨a, ha, _⟩, _⟩, _⟩; simp at ha
  · rintro ⟨i, a, ha, _⟩; simp at ha
  · intro t
    constructor
    · intro h; simp [HB.init] at h
    · rintro ⟨j, hj, _⟩; simp at hj

/-! ### facts shared by the step lemmas -/

theorem knows_mono (cfg : Cfg) (tr : List Ev) (e : Ev) {u : Nat} (h : Knows cfg tr u) : Knows cfg (tr ++ [e]) u :=
  (knows_snoc cfg tr e u).mpr (Or.inl h)

theorem knows_snoc_other (cfg : Cfg) (tr : List Ev) (e : Ev) {u : Nat} (hu : u ≠ e.thread) :
    Knows cfg (tr ++ [e]) u ↔ Knows cfg tr u := by
  rw [knows_snoc]
  constructor
  · rintro (h | ⟨h, _⟩)
    · exact h
    · exact absurd h.symm hu
  · exact Or.inl

/-- the acting thread knows afterwards iff a construction reaches its new event -/
theorem knows_snoc_self (cfg : Cfg) (tr : List Ev) (e : Ev) :
    Knows cfg (tr ++ [e]) e.thread ↔ Reached cfg (tr ++ [e]) tr.length := by
  rw [knows_snoc]
  constructor
  · rintro (h | ⟨_, h⟩)
    · exact (reached_snoc_len' cfg tr e).mpr (Or.inr (Or.inl h))
    · exact h
  · intro h; exact Or.inr ⟨rfl, h⟩

theorem uk_same (cfg : Cfg) (tr : List Ev) (e : Ev) (he : e.kind ≠ .unlock) :
    UnlockKnows cfg (tr ++ [e]) ↔ UnlockKnows cfg tr := by
  rw [unlockKnows_snoc]
  constructor
  · rintro (h | ⟨h, _⟩)
    · exact h
    · exact absurd h he
  · exact Or.inl

theorem racy_same (cfg : Cfg) (tr : List Ev) (e : Ev) (he : e.kind ≠ .read3) (u : Nat) :
    RacyUse cfg (tr ++ [e]) u ↔ RacyUse cfg tr u := by
  rw [racyUse_snoc]
  constructor
  · rintro (h | ⟨h, _⟩)
    · exact h
    · rw [h] at he; exact absurd rfl he
  · exact Or.inl

theorem exWrite_same (tr : List Ev) (e : Ev) (he : e.kind ≠ .write) :
    (∃ i, IsKind (tr ++ [e]) i .write) ↔ (∃ i, IsKind tr i .write) := by
  rw [exWrite_snoc]
  constructor
  · rintro (h | h)
    · exact h
    · exact absurd h he
  · exact Or.inl

theorem not_blocked_of_ne_lock (s : SState) (t : Nat) (h : s.pc t ≠ .lock) : s.blocked t = false := by
  simp [SState.blocked, h]

theorem stepTrace_event (n : Nat) (s : SState) (tr : List Ev) (t : Nat) (ht : t < n) (hd : s.pc t ≠ .done)
    (hb : s.blocked t = false) : stepTrace n s tr t = tr ++ [⟨t, s.pc t⟩] := by
  simp [stepTrace, sevent, ht, hd, hb]

/-! ### one lemma per program counter -/

theorem einv_read1 (cfg : Cfg) (n : Nat) (s : SState) (h : HB) (tr : List Ev) (t : Nat) (ht : t < n)
    (hpc : s.pc t = .read1) (hi : EInv cfg s h tr) :
    EInv cfg (sstep cfg n s t) (hbStep cfg n s h t) (stepTrace n s tr t) := by
  have etr : stepTrace n s tr t = tr ++ [⟨t, .read1⟩] := by
    rw [stepTrace_event n s tr t ht (by rw [hpc]; simp) (not_blocked_of_ne_lock s t (by rw [hpc]; simp)), hpc]
  have es : sstep cfg n s t =
      { s with loc := upd s.loc t s.ptr, pc := upd s.pc t (if s.ptr.isSome then SPc.read3 else SPc.lock) } := by
    simp [sstep, ht, hpc]
  obtain ⟨knows, mfree, mheld, cell, wrote, racy⟩ := hi
  rw [etr, es]
  -- what reaches the new event
  have hR := reached_snoc_len' cfg tr ⟨t, .read1⟩
  have hself := knows_snoc_self cfg tr ⟨t, .read1⟩
  simp only [reduceCtorEq, false_or, false_and, true_and] at hR
  have rest : ∀ h' : HB, h'.mutexKnows = h.mutexKnows → h'.cellKnows = h.cellKnows → h'.racyUse = h.racyUse →
      (∀ u, h'.knows u = true ↔ Knows cfg (tr ++ [⟨t, .read1⟩]) u) →
      EInv cfg { s with loc := upd s.loc t s.ptr, pc := upd s.pc t (if s.ptr.isSome then SPc.read3 else SPc.lock) }
        h' (tr ++ [⟨t, .read1⟩]) := by
    intro h' e1 e2 e3 hk
    refine ⟨hk, ?_, ?_, ?_, ?_, ?_⟩
    · intro hl; rw [e1, uk_same cfg tr _ (by simp)]; exact mfree hl
    · intro u hl hu
      exact knows_mono cfg tr _ (mheld u hl ((uk_same cfg tr _ (by simp)).mp hu))
    · rw [e2, cellKnows_snoc_other cfg tr _ (by simp)]; exact cell
    · intro hw; exact wrote ((exWrite_same tr _ (by simp)).mp hw)
    · intro u; rw [e3, racy_same cfg tr _ (by simp)]; exact racy u
  by_cases hc : (s.ptr.isSome && cfg.ptrAtomic && cfg.loadAcq) = true
  · have eh : hbStep cfg n s h t = { h with knows := upd h.knows t (h.knows t || h.cellKnows) } := by
      simp only [hbStep, if_pos ht, hpc, hc, if_true]
    rw [eh]
    simp only [Bool.and_eq_true] at hc
    refine rest _ rfl rfl rfl ?_
    intro u
    by_cases hut : u = t
    · subst hut
      simp only [upd_same, Bool.or_eq_true]
      rw [hself, hR, knows u, cell]
      constructor
      · rintro (h1 | ⟨h1, h2, h3⟩)
        · exact Or.inl h1
        · exact Or.inr ⟨h1, h2, hc.2, h3⟩
      · rintro (h1 | ⟨h1, h2, _, h3⟩)
        · exact Or.inl h1
        · exact Or.inr ⟨h1, h2, h3⟩
    · show upd h.knows t _ u = true ↔ _
      rw [upd_other _ _ _ _ hut, knows_snoc_other cfg tr ⟨t, .read1⟩ hut]; exact knows u
  · have eh : hbStep cfg n s h t = h := by
      simp only [hbStep, if_pos ht, hpc, hc, Bool.false_eq_true, if_false]
    rw [eh]
    refine rest _ rfl rfl rfl ?_
    intro u
    by_cases hut : u = t
    · subst hut
      rw [hself, hR, knows u]
      constructor
      · exact Or.inl
      · rintro (h1 | ⟨h1, h2, h3, w, ⟨hw, _⟩, _⟩)
        · exact h1
        · exfalso
          apply hc
          simp only [Bool.and_eq_true]
          exact ⟨⟨wrote ⟨w, hw⟩, h1⟩, h3⟩
    · rw [knows_snoc_other cfg tr ⟨t, .read1⟩ hut]; exact knows u

/-- an event that is neither a construction, a lock nor the unlocked load has program-order
predecessors only -/
theorem reached_po_only (cfg : Cfg) (tr : List Ev) (e : Ev) (k1 : e.kind ≠ .construct) (k2 : e.kind ≠ .lock)
    (k3 : e.kind ≠ .read1) : Reached cfg (tr ++ [e]) tr.length ↔ Knows cfg tr e.thread := by
  rw [reached_snoc_len']
  constructor
  · rintro (h | h | ⟨h, _⟩ | ⟨h, _⟩)
    · exact absurd h k1
    · exact h
    · exact absurd h k2
    · exact absurd h k3
  · intro h; exact Or.inr (Or.inl h)

/-- the fields an event of kind read1 / read2 / construct leaves alone -/
theorem einv_plain (cfg : Cfg) (s s' : SState) (h h' : HB) (tr : List Ev) (e : Ev)
    (hl : s'.lock = s.lock) (hp : s'.ptr = s.ptr)
    (k1 : e.kind ≠ .unlock) (k2 : e.kind ≠ .write) (k3 : e.kind ≠ .read3)
    (e1 : h'.mutexKnows = h.mutexKnows) (e2 : h'.cellKnows = h.cellKnows) (e3 : h'.racyUse = h.racyUse)
    (hi : EInv cfg s h tr) (hk : ∀ u, h'.knows u = true ↔ Knows cfg (tr ++ [e]) u) :
    EInv cfg s' h' (tr ++ [e]) := by
  obtain ⟨_, mfree, mheld, cell, wrote, racy⟩ := hi
  refine ⟨hk, ?_, ?_, ?_, ?_, ?_⟩
  · intro hl'; rw [e1, uk_same cfg tr _ k1]; exact mfree (by rw [← hl]; exact hl')
  · intro u hl' hu
    exact knows_mono cfg tr _ (mheld u (by rw [← hl]; exact hl') ((uk_same cfg tr _ k1).mp hu))
  · rw [e2, cellKnows_snoc_other cfg tr _ k2]; exact cell
  · intro hw; rw [hp]; exact wrote ((exWrite_same tr _ k2).mp hw)
  · intro u; rw [e3, racy_same cfg tr _ k3]; exact racy u

theorem einv_read2 (cfg : Cfg) (n : Nat) (s : SState) (h : HB) (tr : List Ev) (t : Nat) (ht : t < n)
    (hpc : s.pc t = .read2) (hi : EInv cfg s h tr) :
    EInv cfg (sstep cfg n s t) (hbStep cfg n s h t) (stepTrace n s tr t) := by
  have etr : stepTrace n s tr t = tr ++ [⟨t, .read2⟩] := by
    rw [stepTrace_event n s tr t ht (by rw [hpc]; simp) (not_blocked_of_ne_lock s t (by rw [hpc]; simp)), hpc]
  have es : sstep cfg n s t =
      { s with loc := upd s.loc t s.ptr, pc := upd s.pc t (if s.ptr.isSome then SPc.unlock else SPc.construct) } := by
    simp [sstep, ht, hpc]
  have eh : hbStep cfg n s h t = h := by simp [hbStep, ht, hpc]
  rw [etr, es, eh]
  refine einv_plain cfg s _ h h tr _ rfl rfl (by simp) (by simp) (by simp) rfl rfl rfl hi ?_
  intro u
  by_cases hut : u = t
  · subst hut
    rw [knows_snoc_self cfg tr ⟨u, .read2⟩, reached_po_only cfg tr _ (by simp) (by simp) (by simp)]
    exact hi.knows u
  · rw [knows_snoc_other cfg tr ⟨t, .read2⟩ hut]; exact hi.knows u

theorem einv_construct (cfg : Cfg) (n : Nat) (s : SState) (h : HB) (tr : List Ev) (t : Nat) (ht : t < n)
    (hpc : s.pc t = .construct) (hi : EInv cfg s h tr) :
    EInv cfg (sstep cfg n s t) (hbStep cfg n s h t) (stepTrace n s tr t) := by
  have etr : stepTrace n s tr t = tr ++ [⟨t, .construct⟩] := by
    rw [stepTrace_event n s tr t ht (by rw [hpc]; simp) (not_blocked_of_ne_lock s t (by rw [hpc]; simp)), hpc]
  have es : sstep cfg n s t =
      { s with loc := upd s.loc t (some s.built), built := s.built + 1, pc := upd s.pc t SPc.write } := by
    simp [sstep, ht, hpc]
  have eh : hbStep cfg n s h t = { h with knows := upd h.knows t true } := by simp [hbStep, ht, hpc]
  rw [etr, es, eh]
  refine einv_plain cfg s _ h _ tr _ rfl rfl (by simp) (by simp) (by simp) rfl rfl rfl hi ?_
  intro u
  show upd h.knows t true u = true ↔ _
  by_cases hut : u = t
  · subst hut
    rw [knows_snoc_self cfg tr ⟨u, .construct⟩, reached_snoc_len']
    simp
  · rw [upd_other _ _ _ _ hut, knows_snoc_other cfg tr ⟨t, .construct⟩ hut]; exact hi.knows u

theorem einv_lock (cfg : Cfg) (n : Nat) (s : SState) (h : HB) (tr : List Ev) (t : Nat) (ht : t < n)
    (hpc : s.pc t = .lock) (hl : s.lock = none) (hi : EInv cfg s h tr) :
    EInv cfg (sstep cfg n s t) (hbStep cfg n s h t) (stepTrace n s tr t) := by
  have etr : stepTrace n s tr t = tr ++ [⟨t, .lock⟩] := by
    rw [stepTrace_event n s tr t ht (by rw [hpc]; simp) (by simp [SState.blocked, hl]), hpc]
  have es : sstep cfg n s t = { s with lock := some t, pc := upd s.pc t SPc.read2 } := by
    simp [sstep, ht, hpc, hl]
  have eh : hbStep cfg n s h t = { h with knows := upd h.knows t (h.knows t || h.mutexKnows) } := by
    simp [hbStep, ht, hpc, hl]
  rw [etr, es, eh]
  obtain ⟨knows, mfree, mheld, cell, wrote, racy⟩ := hi
  have hR : Reached cfg (tr ++ [⟨t, .lock⟩]) tr.length ↔ Knows cfg tr t ∨ UnlockKnows cfg tr := by
    rw [reached_snoc_len']; simp
  have hself := knows_snoc_self cfg tr ⟨t, .lock⟩
  refine ⟨?_, ?_, ?_, ?_, ?_, ?_⟩
  · intro u
    show upd h.knows t _ u = true ↔ _
    by_cases hut : u = t
    · subst hut
      simp only [upd_same, Bool.or_eq_true]
      rw [hself, hR, knows u, mfree hl]
    · rw [upd_other _ _ _ _ hut, knows_snoc_other cfg tr ⟨t, .lock⟩ hut]; exact knows u
  · intro hn; cases hn
  · intro u hu huk
    have : t = u := by simpa using hu
    subst this
    exact hself.mpr (hR.mpr (Or.inr ((uk_same cfg tr _ (by simp)).mp huk)))
  · show h.cellKnows = true ↔ _
    rw [cellKnows_snoc_other cfg tr _ (by simp)]; exact cell
  · intro hw; exact wrote ((exWrite_same tr _ (by simp)).mp hw)
  · intro u
    show u ∈ h.racyUse ↔ _
    rw [racy_same cfg tr _ (by simp)]; exact racy u

theorem einv_write (cfg : Cfg) (n : Nat) (s : SState) (h : HB) (tr : List Ev) (t : Nat) (ht : t < n)
    (hpc : s.pc t = .write) (hs : SInv s) (hi : EInv cfg s h tr) :
    EInv cfg (sstep cfg n s t) (hbStep cfg n s h t) (stepTrace n s tr t) := by
  have etr : stepTrace n s tr t = tr ++ [⟨t, .write⟩] := by
    rw [stepTrace_event n s tr t ht (by rw [hpc]; simp) (not_blocked_of_ne_lock s t (by rw [hpc]; simp)), hpc]
  have es : sstep cfg n s t = { s with ptr := s.loc t, pc := upd s.pc t SPc.unlock } := by
    simp [sstep, ht, hpc]
  have eh : hbStep cfg n s h t = { h with cellKnows := cfg.ptrAtomic && cfg.storeRel && h.knows t } := by
    simp [hbStep, ht, hpc]
  rw [etr, es, eh]
  obtain ⟨knows, mfree, mheld, cell, wrote, racy⟩ := hi
  have hR := reached_po_only cfg tr ⟨t, .write⟩ (by simp) (by simp) (by simp)
  have hself := knows_snoc_self cfg tr ⟨t, .write⟩
  refine ⟨?_, ?_, ?_, ?_, ?_, ?_⟩
  · intro u
    show h.knows u = true ↔ _
    by_cases hut : u = t
    · subst hut; rw [hself, hR]; exact knows u
    · rw [knows_snoc_other cfg tr ⟨t, .write⟩ hut]; exact knows u
  · intro hl
    show h.mutexKnows = true ↔ _
    rw [uk_same cfg tr _ (by simp)]; exact mfree hl
  · intro u hl hu
    exact knows_mono cfg tr _ (mheld u hl ((uk_same cfg tr _ (by simp)).mp hu))
  · show (cfg.ptrAtomic && cfg.storeRel && h.knows t) = true ↔ _
    rw [cellKnows_snoc_write cfg tr _ rfl, hR]
    simp only [Bool.and_eq_true, and_assoc]
    rw [knows t]
  · intro _
    show (s.loc t).isSome = true
    rw [(hs.wr t hpc).2.2]; rfl
  · intro u
    show u ∈ h.racyUse ↔ _
    rw [racy_same cfg tr _ (by simp)]; exact racy u

theorem einv_unlock (cfg : Cfg) (n : Nat) (s : SState) (h : HB) (tr : List Ev) (t : Nat) (ht : t < n)
    (hpc : s.pc t = .unlock) (hs : SInv s) (hi : EInv cfg s h tr) :
    EInv cfg (sstep cfg n s t) (hbStep cfg n s h t) (stepTrace n s tr t) := by
  have etr : stepTrace n s tr t = tr ++ [⟨t, .unlock⟩] := by
    rw [stepTrace_event n s tr t ht (by rw [hpc]; simp) (not_blocked_of_ne_lock s t (by rw [hpc]; simp)), hpc]
  have es : sstep cfg n s t = { s with lock := none, pc := upd s.pc t SPc.read3 } := by
    simp [sstep, ht, hpc]
  have eh : hbStep cfg n s h t = { h with mutexKnows := h.knows t } := by simp [hbStep, ht, hpc]
  rw [etr, es, eh]
  obtain ⟨knows, mfree, mheld, cell, wrote, racy⟩ := hi
  have hR := reached_po_only cfg tr ⟨t, .unlock⟩ (by simp) (by simp) (by simp)
  have hself := knows_snoc_self cfg tr ⟨t, .unlock⟩
  have hlock : s.lock = some t := hs.cs t (by rw [hpc]; trivial)
  refine ⟨?_, ?_, ?_, ?_, ?_, ?_⟩
  · intro u
    show h.knows u = true ↔ _
    by_cases hut : u = t
    · subst hut; rw [hself, hR]; exact knows u
    · rw [knows_snoc_other cfg tr ⟨t, .unlock⟩ hut]; exact knows u
  · intro _
    show h.knows t = true ↔ _
    rw [unlockKnows_snoc, hR, knows t]
    constructor
    · intro h1; exact Or.inr ⟨rfl, h1⟩
    · rintro (h1 | ⟨_, h1⟩)
      · exact mheld t hlock h1
      · exact h1
  · intro u hu; cases hu
  · show h.cellKnows = true ↔ _
    rw [cellKnows_snoc_other cfg tr _ (by simp)]; exact cell
  · intro hw; exact wrote ((exWrite_same tr _ (by simp)).mp hw)
  · intro u
    show u ∈ h.racyUse ↔ _
    rw [racy_same cfg tr _ (by simp)]; exact racy u

theorem einv_read3 (cfg : Cfg) (n : Nat) (s : SState) (h : HB) (tr : List Ev) (t : Nat) (ht : t < n)
    (hpc : s.pc t = .read3) (hi : EInv cfg s h tr) :
    EInv cfg (sstep cfg n s t) (hbStep cfg n s h t) (stepTrace n s tr t) := by
  have etr : stepTrace n s tr t = tr ++ [⟨t, .read3⟩] := by
    rw [stepTrace_event n s tr t ht (by rw [hpc]; simp) (not_blocked_of_ne_lock s t (by rw [hpc]; simp)), hpc]
  have es : sstep cfg n s t =
      { s with ret := upd s.ret t (if cfg.finalReadShared then s.ptr else s.loc t), pc := upd s.pc t SPc.done } := by
    simp [sstep, ht, hpc]
  rw [etr, es]
  obtain ⟨knows, mfree, mheld, cell, wrote, racy⟩ := hi
  have hR := reached_po_only cfg tr ⟨t, .read3⟩ (by simp) (by simp) (by simp)
  have hself := knows_snoc_self cfg tr ⟨t, .read3⟩
  have rest : ∀ h' : HB, h'.knows = h.knows → h'.mutexKnows = h.mutexKnows → h'.cellKnows = h.cellKnows →
      (∀ u, u ∈ h'.racyUse ↔ RacyUse cfg (tr ++ [⟨t, .read3⟩]) u) →
      EInv cfg { s with ret := upd s.ret t (if cfg.finalReadShared then s.ptr else s.loc t), pc := upd s.pc t SPc.done }
        h' (tr ++ [⟨t, .read3⟩]) := by
    intro h' e0 e1 e2 hr
    refine ⟨?_, ?_, ?_, ?_, ?_, hr⟩
    · intro u
      rw [e0]
      by_cases hut : u = t
      · subst hut; rw [hself, hR]; exact knows u
      · rw [knows_snoc_other cfg tr ⟨t, .read3⟩ hut]; exact knows u
    · intro hl; rw [e1, uk_same cfg tr _ (by simp)]; exact mfree hl
    · intro u hl hu
      exact knows_mono cfg tr _ (mheld u hl ((uk_same cfg tr _ (by simp)).mp hu))
    · rw [e2, cellKnows_snoc_other cfg tr _ (by simp)]; exact cell
    · intro hw; exact wrote ((exWrite_same tr _ (by simp)).mp hw)
  cases hk : h.knows t with
  | true =>
    have eh : hbStep cfg n s h t = h := by simp [hbStep, ht, hpc, hk]
    rw [eh]
    refine rest h rfl rfl rfl ?_
    intro u
    rw [racyUse_snoc, racy u]
    constructor
    · exact Or.inl
    · rintro (h1 | ⟨h1, h2⟩)
      · exact h1
      · exfalso
        have : t = u := by cases h1; rfl
        subst this
        exact h2 (hR.mpr ((knows t).mp hk))
  | false =>
    have eh : hbStep cfg n s h t = { h with racyUse := t :: h.racyUse } := by simp [hbStep, ht, hpc, hk]
    rw [eh]
    refine rest _ rfl rfl rfl ?_
    intro u
    show u ∈ t :: h.racyUse ↔ _
    rw [racyUse_snoc, List.mem_cons, racy u]
    have hnk : ¬ Reached cfg (tr ++ [⟨t, .read3⟩]) tr.length := by
      rw [hR]; intro h1
      have := (knows t).mpr h1
      rw [hk] at this; cases this
    constructor
    · rintro (h1 | h1)
      · subst h1; exact Or.inr ⟨rfl, hnk⟩
      · exact Or.inl h1
    · rintro (h1 | ⟨h1, _⟩)
      · exact Or.inr h1
      · left; cases h1; rfl

/-! ### every step, every schedule -/

theorem einv_step (cfg : Cfg) (n : Nat) (s : SState) (h : HB) (tr : List Ev) (t : Nat)
    (hs : SInv s) (hi : EInv cfg s h tr) :
    EInv cfg (sstep cfg n s t) (hbStep cfg n s h t) (stepTrace n s tr t) := by
  by_cases ht : t < n
  · cases hpc : s.pc t with
    | read1 => exact einv_read1 cfg n s h tr t ht hpc hi
    | lock =>
      by_cases hl : s.lock = none
      · exact einv_lock cfg n s h tr t ht hpc hl hi
      · have es : sstep cfg n s t = s := by simp [sstep, ht, hpc, hl]
        have eh : hbStep cfg n s h t = h := by simp [hbStep, ht, hpc, hl]
        have hb : s.blocked t = true := by
          cases hl' : s.lock with
          | none => exact absurd hl' hl
          | some k => simp [SState.blocked, hpc, hl']
        have etr : stepTrace n s tr t = tr := by simp [stepTrace, sevent, ht, hpc, hb]
        rw [es, eh, etr]; exact hi
    | read2 => exact einv_read2 cfg n s h tr t ht hpc hi
    | construct => exact einv_construct cfg n s h tr t ht hpc hi
    | write => exact einv_write cfg n s h tr t ht hpc hs hi
    | unlock => exact einv_unlock cfg n s h tr t ht hpc hs hi
    | read3 => exact einv_read3 cfg n s h tr t ht hpc hi
    | done =>
      have es : sstep cfg n s t = s := by simp [sstep, ht, hpc]
      have eh : hbStep cfg n s h t = h := by simp [hbStep, ht, hpc]
      have etr : stepTrace n s tr t = tr := by simp [stepTrace, sevent, ht, hpc]
      rw [es, eh, etr]; exact hi
  · have etr : stepTrace n s tr t = tr := by simp [stepTrace, sevent, ht]
    rw [sstep_ge cfg n s t ht, hbStep_ge cfg n s h t ht, etr]; exact hi

theorem trunFrom_fst (cfg : Cfg) (n : Nat) (sched : List Nat) : ∀ s h tr,
    ((trunFrom cfg n s h tr sched).1, (trunFrom cfg n s h tr sched).2.1) = hrunFrom cfg n s h sched := by
  induction sched with
  | nil => intro s h tr; rfl
  | cons t rest ih => intro s h tr; simp only [trunFrom, hrunFrom]; exact ih _ _ _

theorem einv_runFrom (cfg : Cfg) (n : Nat) (sched : List Nat) : ∀ s h tr, SInv s → EInv cfg s h tr →
    EInv cfg (trunFrom cfg n s h tr sched).1 (trunFrom cfg n s h tr sched).2.1 (trunFrom cfg n s h tr sched).2.2 := by
  induction sched with
  | nil => intro s h tr _ hi; exact hi
  | cons t rest ih =>
    intro s h tr hs hi
    simp only [trunFrom]
    exact ih _ _ _ (sinv_step cfg n s t hs) (einv_step cfg n s h tr t hs hi)

/-- **the ghost is exact**: after every schedule, for every configuration, the ghost state of
`hrun` and the event trace `strace` are related by `EInv` -/
theorem einv_run (cfg : Cfg) (n : Nat) (sched : List Nat) :
    EInv cfg (hrun cfg n sched).1 (hrun cfg n sched).2 (strace cfg n sched) := by
  have h := einv_runFrom cfg n sched _ _ _ sinv_init (einv_init cfg)
  have e := trunFrom_fst cfg n sched SState.init HB.init []
  have e1 : (hrun cfg n sched).1 = (trunFrom cfg n SState.init HB.init [] sched).1 := by
    unfold hrun; rw [← e]
  have e2 : (hrun cfg n sched).2 = (trunFrom cfg n SState.init HB.init [] sched).2.1 := by
    unfold hrun; rw [← e]
  rw [e1, e2]; exact h

end CelmaVerif.Concurrency
