import CelmaVerif.Lemmas.ContainersSeq2
import CelmaVerif.Lemmas.ContainersMap
/-
  What is seen from outside: the pop order of stack / queue / priority_queue destinations, the lookup view of a
  `std::map` destination ("first value per key wins"), and that the de-duplication keeps a subsequence.
-/
namespace CelmaVerif.Containers

section dedup
variable {α : Type} [DecidableEq α]

/-- the kept values are a subsequence of the values given: nothing is reordered, nothing invented -/
theorem dedupInto_sublist (s vs : List α) : (dedupInto s vs).Sublist vs := by
  induction vs generalizing s with
  | nil => exact List.Sublist.refl _
  | cons v vs ih =>
    unfold dedupInto
    split
    · exact (ih s).cons v
    · exact (ih (v :: s)).cons₂ v

end dedup

section adapters
variable {α : Type} [DecidableEq α] (E : Elem α)

/-- stack, queue, priority_queue: neither sort nor unique can be configured -/
theorem adapter_opts {k : SeqKind} {o : Opts} (hcfg : configure k o = .ok ()) (hk : k.hasIterators = false) :
    o.sort = false ∧ o.unique = false := by
  have hv := valid_of_configure k o hcfg
  constructor
  · cases hs : o.sort
    · rfl
    · have := hv.1 hs
      cases k <;> simp [SeqKind.hasIterators, SeqKind.sortable] at hk this
  · cases hu : o.unique
    · rfl
    · have := hv.2 hu
      rw [hk] at this
      cases this

theorem finalSpec_stack (o : Opts) (hs : o.sort = false) (hu : o.unique = false) (init vs : List α) :
    observe .stack (finalSpec E .stack o init vs) = vs.reverse ++ observe .stack (if o.clear then [] else init) := by
  simp [finalSpec, observe, hs, hu, SeqKind.isSet, SeqKind.ordered, SeqKind.prepend]

theorem finalSpec_queue (o : Opts) (hs : o.sort = false) (hu : o.unique = false) (init vs : List α) :
    observe .queue (finalSpec E .queue o init vs) = observe .queue (if o.clear then [] else init) ++ vs := by
  simp [finalSpec, observe, hs, hu, SeqKind.isSet, SeqKind.ordered, SeqKind.prepend]

/-- descending order, as `pop()` of a `std::priority_queue` delivers -/
abbrev Descending {β : Type} (le : β → β → Bool) (l : List β) : Prop := l.Pairwise (fun a b => le b a = true)

theorem finalSpec_prioq (hl : LawfulLe E.le) (o : Opts) (hu : o.unique = false) (init vs : List α) :
    Descending E.le (observe .prioq (finalSpec E .prioq o init vs)) ∧
    (observe .prioq (finalSpec E .prioq o init vs)).Perm (observe .prioq (if o.clear then [] else init) ++ vs) ∧
    ∀ c, Descending E.le c → c.Perm (observe .prioq (if o.clear then [] else init) ++ vs) →
      c = observe .prioq (finalSpec E .prioq o init vs) := by
  have hfs : finalSpec E .prioq o init vs = isort E.le ((if o.clear then [] else init) ++ vs) := by
    simp [finalSpec, hu, SeqKind.isSet, SeqKind.ordered]
  have hp : (observe .prioq (finalSpec E .prioq o init vs)).Perm
      (observe .prioq (if o.clear then [] else init) ++ vs) := by
    rw [hfs]
    simp only [observe]
    exact (List.reverse_perm _).trans ((isort_perm _).trans (List.Perm.append_right vs (List.reverse_perm _).symm))
  refine ⟨?_, hp, ?_⟩
  · rw [hfs]
    simp only [observe, Descending]
    exact List.pairwise_reverse.mpr (by simpa using isort_sorted hl _)
  · intro c hc hcp
    have h1 : Sorted E.le c.reverse := List.pairwise_reverse.mpr (by simpa [Descending] using hc)
    have h2 : c.reverse.Perm ((if o.clear then [] else init) ++ vs) :=
      (List.reverse_perm c).trans (hcp.trans (List.Perm.append_right vs (by simp only [observe]; exact List.reverse_perm _)))
    have := eq_isort_of_sorted_perm hl h1 h2
    rw [hfs]
    simp only [observe]
    rw [← this, List.reverse_reverse]

end adapters

/-! ## the lookup view of a map destination -/

/-- what `m.find( key)` shows: the value of the first pair with that key -/
def valueAt (key : Int) : List Pair → Option (List Char)
  | [] => none
  | q :: qs => if q.1 = key then some q.2 else valueAt key qs

theorem valueAt_append (key : Int) (a b : List Pair) : valueAt key (a ++ b) = (valueAt key a).or (valueAt key b) := by
  induction a with
  | nil => simp [valueAt]
  | cons q qs ih =>
    simp only [List.cons_append, valueAt]
    split
    · simp
    · exact ih

theorem valueAt_eq_none (key : Int) (c : List Pair) : valueAt key c = none ↔ key ∉ keysOf c := by
  induction c with
  | nil => simp [valueAt, keysOf]
  | cons q qs ih =>
    simp only [valueAt, keysOf, List.map_cons, List.mem_cons, not_or]
    by_cases h : q.1 = key
    · simp [h]
    · rw [if_neg h, ih]
      simp only [keysOf]
      constructor
      · intro h2; exact ⟨fun h3 => h h3.symm, h2⟩
      · intro h2; exact h2.2

theorem keysSorted_cons {q : Pair} {qs : List Pair} (h : KeysSorted (q :: qs)) :
    (∀ y ∈ keysOf qs, q.1 < y) ∧ KeysSorted qs := by
  have := List.pairwise_cons.mp (by simpa [KeysSorted, keysOf] using h : List.Pairwise (· < ·) (q.1 :: keysOf qs))
  exact this

/-- `std::map::insert` seen through `find`: what was there stays; a new key shows the inserted value -/
theorem valueAt_mapInsert (key : Int) (p : Pair) (c : List Pair) (hs : KeysSorted c) :
    valueAt key (mapInsert p c) = (valueAt key c).or (if p.1 = key then some p.2 else none) := by
  induction c with
  | nil => simp [mapInsert, valueAt]
  | cons q qs ih =>
    obtain ⟨hq, hqs⟩ := keysSorted_cons hs
    unfold mapInsert
    by_cases h1 : p.1 < q.1
    · rw [if_pos h1]
      by_cases hk : p.1 = key
      · have hnone : valueAt key (q :: qs) = none := by
          rw [valueAt_eq_none]
          simp only [keysOf, List.map_cons, List.mem_cons, not_or]
          refine ⟨by omega, ?_⟩
          intro hm
          have := hq key hm
          omega
        rw [hnone]
        simp [valueAt, hk]
      · simp only [valueAt, if_neg hk]
        simp
    · rw [if_neg h1]
      by_cases h2 : p.1 = q.1
      · rw [if_pos h2]
        by_cases hk : q.1 = key
        · simp [valueAt, hk]
        · have : ¬ p.1 = key := by omega
          simp [this]
      · rw [if_neg h2]
        simp only [valueAt]
        by_cases hk : q.1 = key
        · simp [hk]
        · rw [if_neg hk, if_neg hk]
          exact ih hqs

theorem valueAt_insertAll (key : Int) (ps : List Pair) : ∀ (c : List Pair), KeysSorted c →
    valueAt key (insertAll c ps) = (valueAt key c).or (valueAt key ps) := by
  induction ps with
  | nil => intro c _; simp [insertAll, valueAt]
  | cons p ps ih =>
    intro c hs
    have := ih (mapInsert p c) (mapInsert_sorted p c hs)
    simp only [insertAll, List.foldl_cons] at this ⊢
    rw [this, valueAt_mapInsert key p c hs, Option.or_assoc]
    congr 1
    simp only [valueAt]
    split <;> simp

/-- a map (strictly ascending keys) is determined by what `find` shows for every key -/
theorem keysSorted_ext : ∀ (c₁ c₂ : List Pair), KeysSorted c₁ → KeysSorted c₂ →
    (∀ key, valueAt key c₁ = valueAt key c₂) → c₁ = c₂
  | [], [], _, _, _ => rfl
  | [], q :: qs, _, _, h => by
    have := h q.1
    simp [valueAt] at this
  | q :: qs, [], _, _, h => by
    have := h q.1
    simp [valueAt] at this
  | q1 :: r1, q2 :: r2, h1, h2, h => by
    obtain ⟨hq1, hr1⟩ := keysSorted_cons h1
    obtain ⟨hq2, hr2⟩ := keysSorted_cons h2
    have hk : q1.1 = q2.1 := by
      have a1 : q1.1 ∈ keysOf (q2 :: r2) := by
        have := h q1.1
        apply Classical.byContradiction
        intro hn
        rw [(valueAt_eq_none q1.1 (q2 :: r2)).mpr hn] at this
        simp [valueAt] at this
      have a2 : q2.1 ∈ keysOf (q1 :: r1) := by
        have := h q2.1
        apply Classical.byContradiction
        intro hn
        rw [(valueAt_eq_none q2.1 (q1 :: r1)).mpr hn] at this
        simp [valueAt] at this
      simp only [keysOf, List.map_cons, List.mem_cons] at a1 a2
      rcases a1 with a1 | a1
      · exact a1
      · rcases a2 with a2 | a2
        · exact a2.symm
        · have := hq2 _ a1
          have := hq1 _ a2
          omega
    have hv : q1.2 = q2.2 := by
      have := h q1.1
      simp only [valueAt, if_true] at this
      rw [if_pos hk.symm] at this
      exact Option.some.inj this
    have hq : q1 = q2 := Prod.ext hk hv
    subst hq
    congr 1
    apply keysSorted_ext r1 r2 hr1 hr2
    intro key
    by_cases hkey : q1.1 = key
    · have n1 : key ∉ keysOf r1 := fun hm => by have := hq1 key hm; omega
      have n2 : key ∉ keysOf r2 := fun hm => by have := hq2 key hm; omega
      rw [(valueAt_eq_none key r1).mpr n1, (valueAt_eq_none key r2).mpr n2]
    · have := h key
      simpa [valueAt, hkey] using this

end CelmaVerif.Containers
