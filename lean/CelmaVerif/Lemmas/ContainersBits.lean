import CelmaVerif.Lemmas.ContainersSeq2
/-
  `std::bitset<N>` destinations: the positions given are set, one after the other, in the previous (or cleared)
  bits; a position >= N is refused and nothing is written.
-/
namespace CelmaVerif.Containers

def valP (o : Opts) (t : List Char) : Option Nat := convSize (applyFmt o.fmt t)
def valsP (o : Opts) (ts : List (List Char)) : List Nat := ts.filterMap (valP o)

/-- the token passes the checks, converts, and the position exists -/
def AcceptsP (o : Opts) (n : Nat) (t : List Char) : Prop :=
  runChecks o.checks t = none ∧ ∃ p, valP o t = some p ∧ p < n

/-- the positions set one after the other -/
def setAll (b : List Bool) (ps : List Nat) : List Bool := ps.foldl (fun b p => b.set p true) b

theorem setAll_length (b : List Bool) (ps : List Nat) : (setAll b ps).length = b.length := by
  induction ps generalizing b with
  | nil => rfl
  | cons p ps ih => simp only [setAll, List.foldl_cons] at *; rw [ih]; simp

theorem setAll_append (b : List Bool) (a c : List Nat) : setAll b (a ++ c) = setAll (setAll b a) c := by
  simp [setAll, List.foldl_append]

/-- bit `i` afterwards: it was set before, or `i` is among the positions -/
theorem setAll_getD (b : List Bool) (ps : List Nat) (i : Nat) (hi : i < b.length) :
    (setAll b ps).getD i false = (b.getD i false || decide (i ∈ ps)) := by
  induction ps generalizing b with
  | nil => simp [setAll]
  | cons p ps ih =>
    have := ih (b.set p true) (by simpa using hi)
    simp only [setAll, List.foldl_cons] at *
    rw [this]
    simp only [List.getD_eq_getElem?_getD, List.getElem?_set, List.mem_cons]
    by_cases hpi : p = i
    · subst hpi
      simp [hi]
    · have : ¬ i = p := fun h => hpi h.symm
      simp [hpi, this]

theorem bitStep_ok (o : Opts) (b : List Bool) (t : List Char) (p : Nat) (hchk : runChecks o.checks t = none)
    (hv : valP o t = some p) (hp : p < b.length) : bitStep o b t = .ok (b.set p true) := by
  unfold bitStep
  unfold valP at hv
  rw [hchk]
  simp only
  rw [hv]
  simp only
  rw [if_neg (by omega), if_pos hp]

/-- a position outside the bitset is refused -/
theorem bitStep_outside (o : Opts) (b : List Bool) (t : List Char) (p : Nat) (hchk : runChecks o.checks t = none)
    (hv : valP o t = some p) (hp : b.length ≤ p) : bitStep o b t = .throw .runtime_error := by
  unfold bitStep
  unfold valP at hv
  rw [hchk]
  simp only
  rw [hv]
  simp only
  rw [if_pos hp]

/-- no input makes the model write outside the bits; the number of bits never changes -/
theorem bitStep_safe (o : Opts) (b : List Bool) (t : List Char) :
    (∀ x, bitStep o b t ≠ .oob x) ∧ (∀ b', bitStep o b t = .ok b' → b'.length = b.length) := by
  unfold bitStep
  cases runChecks o.checks t with
  | some e => simp
  | none =>
    simp only
    cases convSize (applyFmt o.fmt t) with
    | none => simp
    | some p =>
      simp only
      by_cases hp : p ≥ b.length
      · simp [hp]
      · rw [if_neg hp, if_pos (by omega)]
        refine ⟨by simp, ?_⟩
        intro b' h; cases h; simp

theorem bitElems_ok (o : Opts) : ∀ (ts : List (List Char)) (b : List Bool), (∀ t ∈ ts, AcceptsP o b.length t) →
    bitElems o b ts = (setAll b (valsP o ts), none)
  | [], b, _ => rfl
  | t :: ts, b, h => by
    obtain ⟨hchk, p, hv, hp⟩ := h t List.mem_cons_self
    have hvals : valsP o (t :: ts) = p :: valsP o ts := by simp [valsP, hv]
    rw [bitElems, bitStep_ok o b t p hchk hv hp]
    simp only
    rw [bitElems_ok o ts (b.set p true) (by simpa using fun t' ht' => h t' (List.mem_cons_of_mem _ ht')), hvals]
    rfl

theorem bitRunP_ok (o : Opts) : ∀ (uses : List (List Char)) (b : List Bool),
    (∀ t ∈ allTokens o.sep uses, AcceptsP o b.length t) → uses ≠ [] →
    bitRunP o ⟨b, false⟩ uses = (⟨setAll b (valsP o (allTokens o.sep uses)), false⟩, none)
  | [], _, _, hne => absurd rfl hne
  | u :: us, b, h, _ => by
    have htok : allTokens o.sep (u :: us) = tokens o.sep u ++ allTokens o.sep us := by simp [allTokens]
    have hvals : valsP o (allTokens o.sep (u :: us)) = valsP o (tokens o.sep u) ++ valsP o (allTokens o.sep us) := by
      rw [htok]; simp [valsP, List.filterMap_append]
    have h1 := bitElems_ok o (tokens o.sep u) b (fun t ht => h t (by rw [htok]; exact List.mem_append_left _ ht))
    rw [bitRunP]
    unfold bitAssignP
    simp only [Bool.false_eq_true, if_false, h1]
    cases us with
    | nil => simp [bitRunP, hvals, allTokens, valsP]
    | cons u2 us2 =>
      rw [bitRunP_ok o (u2 :: us2) _ (by
        rw [setAll_length]
        exact fun t ht => h t (by rw [htok]; exact List.mem_append_right _ ht)) (by simp)]
      rw [hvals, setAll_append]

/-- the refinement for bitsets, clear-before-assign included -/
theorem bitRunP_spec (o : Opts) (init : List Bool) (uses : List (List Char)) (hne : uses ≠ [])
    (h : ∀ t ∈ allTokens o.sep uses, AcceptsP o init.length t) :
    bitRunP o ⟨init, o.clear⟩ uses
      = (⟨setAll (if o.clear then init.map (fun _ => false) else init) (valsP o (allTokens o.sep uses)), false⟩, none) := by
  cases uses with
  | nil => exact absurd rfl hne
  | cons u us =>
    have key : bitRunP o ⟨init, o.clear⟩ (u :: us)
        = bitRunP o ⟨if o.clear then init.map (fun _ => false) else init, false⟩ (u :: us) := by
      rw [bitRunP, bitRunP]
      have : bitAssignP o ⟨init, o.clear⟩ u
          = bitAssignP o ⟨if o.clear then init.map (fun _ => false) else init, false⟩ u := by
        unfold bitAssignP
        cases o.clear <;> rfl
      rw [this]
    rw [key]
    exact bitRunP_ok o (u :: us) _ (by cases o.clear <;> simpa using h) (by simp)

end CelmaVerif.Containers
