import CelmaVerif.Lemmas.GroupsStep
/-
  The loop iteration for a key element (`-c`, `--word`).
-/
namespace CelmaVerif.ProgArgs
open CelmaVerif CelmaVerif.Keys

theorem table_getElem_g? (cfg : Cfg) (i : Nat) : cfg.table[i]? = (cfg.args[i]?).map (fun d => (d.key, d)) := by
  unfold Cfg.table
  rw [List.getElem?_map]

/-- a member that does not own the argument the key designates does not know the key -/
theorem view_no_exact {cfg : Cfg} {vs : List View} (wf : GroupWF cfg vs) {k : Key} (hs : k.Single)
    {i : Nat} {d : ArgDef} (hd : cfg.args[i]? = some d) (hdk : d.key.eq k = true)
    {w : View} (hiw : i ∉ w.ia) : ∀ f ∈ (viewCfg cfg w).table, f.1.eq k = false := by
  intro f hf
  rw [viewCfg_table] at hf
  obtain ⟨a, ha, hfa⟩ := pick_mem hf
  cases hfk : f.1.eq k with
  | false => rfl
  | true =>
    have hti : cfg.table[i]? = some (d.key, d) := by rw [table_getElem_g?, hd]; rfl
    have := disjoint_eq_unique wf.disj hs hfa hti hfk hdk
    exact absurd (this ▸ ha) hiw

/-- nobody owns an argument with this key -/
theorem view_no_exact_none {cfg : Cfg} {k : Key} (hno : ∀ e ∈ cfg.table, e.1.eq k = false) (w : View) :
    ∀ f ∈ (viewCfg cfg w).table, f.1.eq k = false := by
  intro f hf
  rw [viewCfg_table] at hf
  obtain ⟨a, _, hfa⟩ := pick_mem hf
  exact hno f (List.mem_of_getElem? hfa)

/-- the owner finds the argument at its own position -/
theorem view_findArg {cfg : Cfg} {vs : List View} (wf : GroupWF cfg vs) {k : Key} (hs : k.Single)
    {i : Nat} {d : ArgDef} (hd : cfg.args[i]? = some d) (hdk : d.key.eq k = true)
    {v : View} (hv : v ∈ vs) {loc : Nat} (hloc : v.ia.idxOf? i = some loc) :
    findArg (viewCfg cfg v).abbr (viewCfg cfg v).table k = .ok (some (loc, d)) := by
  have hti : cfg.table[i]? = some (d.key, d) := by rw [table_getElem_g?, hd]; rfl
  have hb : ∀ a ∈ v.ia, a < cfg.table.length := by
    intro a ha
    unfold Cfg.table
    rw [List.length_map]
    exact wf.abound v hv a ha
  unfold findArg
  rw [viewCfg_table, findExact_pick cfg.table k i (d.key, d) hti
    (fun j f hj hf => disjoint_eq_unique wf.disj hs hj hti hf hdk) hdk v.ia hb 0, hloc]
  rfl

/-- key element, the merged handler knows the key -/
theorem step_key_found {cfg : Cfg} {vs : List View} (wf : GroupWF cfg vs) {H : HState} (hinv : HInv cfg vs H)
    {ms : List (Cfg × HState)} (hrel : GRel cfg H vs ms) {ai : It} {k : Key} (hk : ElemKey ai k) (hs : k.Single)
    {i : Nat} {d : ArgDef} (hf : findArg cfg.abbr cfg.table k = .ok (some (i, d))) :
    StepRel cfg vs (evalSingleArgument cfg H ai) (offer (ai.cur.ty != .value) ms ai) := by
  -- the argument found and its owner
  obtain ⟨key, hti, hkey⟩ := findArg_index cfg.abbr cfg.table k i d hf
  have hkey : key.eq k = true := by
    rcases hkey with h | ⟨h, _⟩
    · exact h
    · rw [wf.abbr] at h; cases h
  rw [table_getElem_g?] at hti
  have hd2 : cfg.args[i]? = some d ∧ key = d.key := by
    cases hd' : cfg.args[i]? with
    | none => rw [hd'] at hti; cases hti
    | some d' =>
      rw [hd'] at hti
      simp only [Option.map_some, Option.some.injEq, Prod.mk.injEq] at hti
      obtain ⟨h1, h2⟩ := hti
      subst h2
      exact ⟨rfl, h1.symm⟩
  obtain ⟨hd, hkd⟩ := hd2
  subst hkd
  have hmain : StepRel cfg vs (evalSingleArgument cfg H ai) (offer (ai.cur.ty != .value) ms ai) := by
    have hilt : i < cfg.args.length := (List.getElem?_eq_some_iff.mp hd).1
    obtain ⟨v, hv, hiv⟩ := wf.acover i hilt
    obtain ⟨loc, hloc⟩ := idxOf?_of_mem hiv
    obtain ⟨vpre, vpost, hvs⟩ := List.append_of_mem hv
    have hrel' := hrel
    rw [hvs] at hrel'
    obtain ⟨pre, h, post, hms, rpre, rmem, rpost⟩ := GRel_split hrel'
    have hapart := wf.apart
    rw [hvs, List.pairwise_append] at hapart
    obtain ⟨_, hap2, hap3⟩ := hapart
    rw [List.pairwise_cons] at hap2
    have hpre_notmem : ∀ w ∈ vpre, i ∉ w.ia := fun w hw hiw => hap3 w hw v (List.mem_cons_self ..) i hiw hiv
    have hpost_notmem : ∀ w ∈ vpost, i ∉ w.ia := fun w hw => hap2.1 w hw i hiv
    have hpre_vs : ∀ w ∈ vpre, w ∈ vs := fun w hw => by rw [hvs]; exact List.mem_append_left _ hw
    have hpost_vs : ∀ w ∈ vpost, w ∈ vs := fun w hw => by
      rw [hvs]; exact List.mem_append_right _ (List.mem_cons_of_mem _ hw)
    -- the offer goes to the owner
    have hdisp := offer_dispatch pre post (viewCfg cfg v) h ai k hk
      (by
        intro m hm
        obtain ⟨w, hw, hmw, _⟩ := GRel_mem rpre m hm
        rw [hmw]
        exact ⟨wf.abbr, view_no_exact wf hs hd hkey (hpre_notmem w hw)⟩)
      ⟨(d.key, d), by rw [viewCfg_table]; exact mem_pick hiv (by rw [table_getElem_g?, hd]; rfl), hkey⟩
    rw [hms, hdisp.1]
    -- both sides in normal form
    have hb : ∀ a ∈ v.ia, a < H.args.length := fun a ha => hinv.alen ▸ wf.abound v hv a ha
    rw [evalSingleArgument_key cfg H hk, processArg_found_eq cfg H k ai i d hf,
      evalSingleArgument_key (viewCfg cfg v) h hk,
      processArg_found_eq (viewCfg cfg v) h k ai loc d (view_findArg wf hs hd hkey hv hloc)]
    cases valueFor d ai with
    | ok x =>
      simp only [Res.bind_ok]
      rw [handleIdentifiedArg_owner cfg v H h i loc d x.1 rmem.args rmem.globals rmem.pending
        (by rw [rmem.inverted, hinv.inverted]) (by rw [rmem.fromSrc, hinv.fromSrc]) hb (wf.nodup v hv) hloc
        hinv.glen.symm (wf.gbound v hv) (owner_ckeys hiv hd)
        (fun e he hek => owner_pending wf hv hiv hd e.1 (hinv.pend e he) hek)
        (fun e he c hc k' hk' hek => owner_pending_ckey wf hv hiv hd e.1 (hinv.pend e he) c hc k' hk' hek)
        (owner_globals wf hv hiv hd)]
      cases hok : handleIdentifiedArg cfg { H with lastArg := some i } i d x.1 with
      | ok H' =>
        simp only [Res.bind_ok, Res.pure_eq]
        refine Or.inr ⟨rfl, _, rfl, hinv_hia hinv hv hiv hd hok, ?_⟩
        rw [hvs]
        have hlast : H'.lastArg = some i := by
          obtain ⟨_, _, _, _, _, _, _, _, e4, _, _⟩ := handleIdentifiedArg_ok hok
          exact e4
        apply GRel_join
        · exact GRel_clear rpre (fun w hw hw' hm =>
            memrel_other_hia wf hinv hd hok (hpre_vs w hw) (hpre_notmem w hw) hm)
        · exact ⟨rfl, rfl, rfl, by rw [hlast]; exact hloc.symm, rfl, rmem.fromSrc⟩
        · exact GRel_clear rpost (fun w hw hw' hm =>
            memrel_other_hia wf hinv hd hok (hpost_vs w hw) (hpost_notmem w hw) hm)
      | throw e => rfl
      | oob w => rfl
    | throw e => rfl
    | oob w => rfl
  exact hmain

/-- key element, the merged handler does not know the key -/
theorem step_key_unknown {cfg : Cfg} {vs : List View} (wf : GroupWF cfg vs) {H : HState}
    {ms : List (Cfg × HState)} (hrel : GRel cfg H vs ms) {ai : It} {k : Key} (hk : ElemKey ai k)
    (hf : findArg cfg.abbr cfg.table k = .ok none) :
    StepRel cfg vs (evalSingleArgument cfg H ai) (offer (ai.cur.ty != .value) ms ai) := by
  rw [evalSingleArgument_key cfg H hk, processArg_unknown cfg H k ai hf]
  have hno : ∀ e ∈ cfg.table, e.1.eq k = false := by
    apply (findExact_none_iff k cfg.table 0).mp
    unfold findArg at hf
    cases hfe : findExact k cfg.table 0 with
    | none => rfl
    | some r => rw [hfe] at hf; cases hf
  obtain ⟨ms', hms'⟩ := offer_all_unknown (ai.cur.ty != .value) ai ms (by
    intro m hm
    obtain ⟨w, _, hmw, _⟩ := GRel_mem hrel m hm
    refine ⟨{ m.2 with lastArg := none }, ?_⟩
    rw [evalSingleArgument_key m.1 m.2 hk]
    apply processArg_unknown
    rw [hmw]
    show findArg cfg.abbr (viewCfg cfg w).table k = .ok none
    rw [wf.abbr]
    exact findArg_noabbr_none _ _ (view_no_exact_none hno w))
  exact Or.inl ⟨rfl, ms', hms'⟩

end CelmaVerif.ProgArgs
