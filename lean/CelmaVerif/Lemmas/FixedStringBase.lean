import CelmaVerif.Model.FixedString
/-
  Basic facts about the checked primitives used by the FixedString model, in the form the per-operation
  safety lemmas need: "succeeds and keeps the buffer length" (`Good`), "ends in a well-formed string" (`OkWF`).
-/
namespace CelmaVerif.FixedString
open CelmaVerif

/-- the assumptions on the three moduli / the capacity -/
structure CfgOK (c : Cfg) : Prop where
  hW : c.L + 1 < c.W
  hM : c.L < c.M

/-- a primitive on the buffer succeeded and the buffer still has `N` bytes -/
def Good (N : Nat) (r : Res (List Byte)) : Prop := ∃ b, r = .ok b ∧ b.length = N

/-- the operation returned normally with a well-formed string -/
def OkWF (c : Cfg) (r : Res FStr) : Prop := ∃ s, r = .ok s ∧ WF c s

/-- an observer returned a value (no out-of-bounds access, no exception) -/
def OkR {α : Type} (r : Res α) : Prop := ∃ a, r = .ok a

@[simp] theorem bindR_ok {α β : Type} (a : α) (f : α → Res β) : bindR (.ok a) f = f a := rfl
@[simp] theorem bindR_oob {α β : Type} (w : String) (f : α → Res β) : bindR (.oob w : Res α) f = .oob w := rfl
@[simp] theorem bindR_throw {α β : Type} (e : Exc) (f : α → Res β) : bindR (.throw e : Res α) f = .throw e := rfl

theorem narrow_eq {c : Cfg} (h : CfgOK c) {x : Nat} (hx : x ≤ c.L) : narrow c x = x := by
  unfold narrow; exact Nat.mod_eq_of_lt (Nat.lt_of_le_of_lt hx h.hM)

theorem good_write {buf src : List Byte} {N off : Nat} {w : String} (hN : buf.length = N)
    (h : off + src.length ≤ N) : Good N (Mem.write buf off src w) := by
  refine ⟨_, Mem.write_ok (by omega), ?_⟩
  simp; omega

theorem read_len {a : List Byte} {off n : Nat} {w : String} (h : off + n ≤ a.length) :
    ∃ d, Mem.read a off n w = .ok d ∧ d.length = n := by
  refine ⟨_, Mem.read_ok h, ?_⟩
  simp; omega

theorem good_move {buf : List Byte} {N dst src n : Nat} {w : String} (hN : buf.length = N)
    (h1 : dst + n ≤ N) (h2 : src + n ≤ N) : Good N (Mem.move buf dst src n w) := by
  obtain ⟨d, hd, hl⟩ := read_len (a := buf) (off := src) (n := n) (w := w) (by omega)
  unfold Mem.move; rw [hd]
  exact good_write hN (by omega)

theorem good_fill {buf : List Byte} {N off n : Nat} {ch : Byte} (hN : buf.length = N)
    (h : off + n ≤ N) : Good N (fill buf off n ch) := by
  unfold fill; rw [if_pos (by omega)]
  refine ⟨_, rfl, ?_⟩
  simp; omega

theorem good_put1 {buf : List Byte} {N i : Nat} {b : Byte} (hN : buf.length = N) (h : i < N) :
    Good N (put1 buf i b) := by
  unfold put1; exact good_write hN (by simp; omega)

theorem good_copyIn {buf a : List Byte} {N off spos n : Nat} (hN : buf.length = N)
    (h1 : off + n ≤ N) (h2 : spos + n ≤ a.length) : Good N (copyIn buf off a spos n) := by
  obtain ⟨d, hd, hl⟩ := read_len (a := a) (off := spos) (n := n) (w := "memcpy") h2
  unfold copyIn bindR; rw [hd]
  exact good_write hN (by omega)

theorem put1_get {buf r : List Byte} {i : Nat} {b : Byte} (h : put1 buf i b = .ok r) : r[i]? = some b := by
  unfold put1 Mem.write at h
  split at h
  · cases h
    have : i ≤ buf.length := by simp at *; omega
    simp [List.length_take, Nat.min_eq_left this]
  · cases h

theorem okwf_bind {c : Cfg} {N : Nat} {r : Res (List Byte)} {f : List Byte → Res FStr} (h : Good N r)
    (k : ∀ b, b.length = N → OkWF c (f b)) : OkWF c (bindR r f) := by
  obtain ⟨b, hb, hl⟩ := h
  rw [hb]; exact k b hl

theorem okwf_finish {c : Cfg} (hc : CfgOK c) {b : List Byte} {n : Nat} (hb : b.length = c.L + 1) (hn : n ≤ c.L) :
    OkWF c (finish c b n) := by
  unfold finish
  rw [narrow_eq hc hn]
  obtain ⟨r, hr, hl⟩ := good_put1 (buf := b) (i := n) (b := 0) hb (by omega)
  rw [hr, bindR_ok]
  exact ⟨_, rfl, hl, hn, put1_get hr⟩

theorem okwf_ok {c : Cfg} {s : FStr} (h : WF c s) : OkWF c (.ok s) := ⟨s, rfl, h⟩

theorem okr_bind {α β : Type} {r : Res α} {f : α → Res β} (h : OkR r) (k : ∀ a, r = .ok a → OkR (f a)) :
    OkR (bindR r f) := by
  obtain ⟨a, ha⟩ := h
  rw [ha]; exact k a ha

theorem okr_get1 {a : List Byte} {i : Nat} (h : i < a.length) : OkR (get1 a i) := by
  unfold get1; rw [List.getElem?_eq_getElem h]; exact ⟨_, rfl⟩

theorem okr_memcmp {a b : List Byte} {i j n : Nat} (h1 : i + n ≤ a.length) (h2 : j + n ≤ b.length) :
    OkR (memcmp a i b j n) := by
  unfold memcmp; rw [Mem.read_ok h1, Mem.read_ok h2]; exact ⟨_, rfl⟩

/-- a C string: a terminator exists inside the allocation -/
theorem cstrlenAux_ok (a : List Byte) (k : Nat) (h : 0 ∈ a) :
    ∃ n, cstrlenAux a k = .ok (k + n) ∧ n < a.length ∧ a[n]? = some 0 := by
  induction a generalizing k with
  | nil => cases h
  | cons x xs ih =>
    unfold cstrlenAux
    by_cases hx : x = 0
    · rw [if_pos hx]; exact ⟨0, rfl, by simp, by simp [hx]⟩
    · rw [if_neg hx]
      have : 0 ∈ xs := by
        cases h with
        | head => exact absurd rfl hx
        | tail _ h => exact h
      obtain ⟨n, h1, h2, h3⟩ := ih (k + 1) this
      exact ⟨n + 1, by rw [h1]; congr 1; omega, by simp; omega, by simpa using h3⟩

theorem cstrlen_ok (a : List Byte) (h : 0 ∈ a) : ∃ n, cstrlen a = .ok n ∧ n < a.length ∧ a[n]? = some 0 := by
  obtain ⟨n, h1, h2, h3⟩ := cstrlenAux_ok a 0 h
  exact ⟨n, by unfold cstrlen; simpa using h1, h2, h3⟩

end CelmaVerif.FixedString
