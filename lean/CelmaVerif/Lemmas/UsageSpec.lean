import CelmaVerif.Model.Usage
/-
  Specification side of C18: how a usage text is read (the same rule the harness oracle implements in C++),
  which arguments are visible under given display settings, and what the entry of an argument has to hold.
  Definitions only; the theorems are in Props/C18.lean, the proofs' lemmas in Lemmas/UsageListing.lean.
-/
namespace CelmaVerif.Usage

open CelmaVerif.TextBlock (Str Cfg words nn)

/-! ### reading a usage text -/

inductive LineKind where
  /-- the line is one of the two captions -/
  | caption (mandatory : Bool)
  /-- exactly three blanks, then a non-blank: the line starts the entry of an argument;
      `key` = the characters up to the next blank, `rest` = the remainder of the line -/
  | entry (key rest : Str)
  /-- at least four blanks: continues the entry above -/
  | cont
  | other
deriving DecidableEq, Repr

def classify (l : Str) : LineKind :=
  if l = captionMandatory then .caption true
  else if l = captionOptional then .caption false
  else if l.take 3 = [' ', ' ', ' '] ∧ (l.drop 3) ≠ [] then
    if (l.drop 3).head? = some ' ' then .cont
    else .entry ((l.drop 3).takeWhile (· != ' ')) ((l.drop 3).dropWhile (· != ' '))
  else .other

/-- one argument as listed in a usage text -/
structure Entry where
  /-- the caption above it (`none`: no caption precedes the entry) -/
  mandatory : Option Bool
  /-- the key string shown -/
  key       : Str
  /-- the words of the entry behind the key, including those of its continuation lines -/
  words     : List Str
deriving DecidableEq, Repr

/-- the words of the continuation lines at the front of `ls` -/
def contWords : List Str → List Str
  | [] => []
  | l :: ls => if classify l = .cont then words l ++ contWords ls else []

/-- the entries of a usage text, in order; `sec` = the last caption seen -/
def parseFrom (sec : Option Bool) : List Str → List Entry
  | [] => []
  | l :: ls =>
    match classify l with
    | .caption m => parseFrom (some m) ls
    | .entry k r => ⟨sec, k, words r ++ contWords ls⟩ :: parseFrom sec ls
    | _ => parseFrom sec ls

def parseUsage (ls : List Str) : List Entry := parseFrom none ls

/-- the caption lines of a usage text, in order -/
def captions (ls : List Str) : List Bool :=
  ls.filterMap fun l => match classify l with | .caption m => some m | _ => none

/-! ### what has to be listed -/

/-- visible under the display settings: hidden only if print-hidden, deprecated / replaced only if
    print-deprecated, short-only / long-only: only with such a key -/
def visible (u : UsageParams) (a : Arg) : Bool :=
  (u.printHidden || !a.hidden) && (u.printDeprecated || !a.deprecated)
  && (match u.contents with
      | .all => true
      | .shortOnly => a.key.short.isSome
      | .longOnly => !a.key.long.isEmpty)

/-- the key(s) shown: all keys, or `-c`, or `--word` -/
def shownKey (u : UsageParams) (a : Arg) : Str :=
  match u.contents with
  | .all =>
    (match a.key.short with
     | some c => if a.key.long = [] then ['-', c] else ['-', c] ++ ",--".toList ++ a.key.long
     | none => "--".toList ++ a.key.long)
  | .shortOnly => ['-', a.key.short.getD '\x00']
  | .longOnly => "--".toList ++ a.key.long

def defaultNote (a : Arg) : Str :=
  if !a.mandatory && a.printDefault then "\nDefault value: ".toList ++ a.defaultText.getD [] else []
def checkNote (a : Arg) : Str :=
  if a.checks ≠ [] then "\nCheck: ".toList ++ joinSep ", ".toList (a.checks.map (·.2)) else []
def constraintNote (a : Arg) : Str :=
  if a.constraints ≠ [] then "\nConstraint: ".toList ++ joinSep ", ".toList a.constraints else []
def deprecatedNote (a : Arg) : Str :=
  if a.deprecated then
    (if a.replacedBy ≠ [] then "\n[replaced by '".toList ++ a.replacedBy ++ "']".toList else "\n[deprecated]".toList)
  else []
def hiddenNote (a : Arg) : Str := if a.hidden then "\n[hidden]".toList else []

/-- the notes behind the description: each one present iff configured -/
def noteText (a : Arg) : Str :=
  defaultNote a ++ checkNote a ++ constraintNote a ++ deprecatedNote a ++ hiddenNote a

/-- the words an entry has to carry: those of the description, then those of the notes
    (`nn` is the text block's forced-break token and is not a word, see C17) -/
def entryWords (a : Arg) : List Str :=
  (words a.desc).filter (fun w => decide (w ≠ nn)) ++ (words (noteText a)).filter (fun w => decide (w ≠ nn))

def expectedEntry (u : UsageParams) (a : Arg) : Entry :=
  ⟨some a.mandatory, shownKey u a, entryWords a⟩

/-- mandatory visible arguments in definition order, then the optional visible ones -/
def expectedListing (u : UsageParams) (args : List Arg) : List Entry :=
  ((args.filter fun a => a.mandatory && visible u a) ++ (args.filter fun a => !a.mandatory && visible u a)).map
    (expectedEntry u)

/-- the argument asks for a default value its type cannot deliver: `usage()` throws when it reaches it -/
def defaultMissing (a : Arg) : Bool := !a.mandatory && a.printDefault && a.defaultText.isNone

/-- no blank in a key (`ArgumentKey` rejects them) -/
def KeyClean (k : Key) : Prop := (∀ c, k.short = some c → c ≠ ' ') ∧ (∀ c ∈ k.long, c ≠ ' ')

/-- no newline in a key: then every line of the model's text is a line of the written text
    (`unlines` / `splitNl`) -/
def KeyLine (k : Key) : Prop := (∀ c, k.short = some c → c ≠ '\n') ∧ (∀ c ∈ k.long, c ≠ '\n')

/-! ### what the reader does not use -/

/-- The lines of a usage text that `parseUsage` and `captions` do NOT use, in order: every line that is neither
    a caption, nor an entry line, nor a continuation line standing directly below an entry line or below
    another continuation line of that entry (`inEntry`: the line above belongs to an entry).  These are exactly
    the lines `parseFrom` passes over without giving their words to an entry: its `.other` case, and its
    `.cont` case where `contWords` of the entry above has stopped already (or there is no entry above). -/
def ignoredFrom (inEntry : Bool) : List Str → List Str
  | [] => []
  | l :: ls =>
    match classify l with
    | .caption _ => ignoredFrom false ls
    | .entry _ _ => ignoredFrom true ls
    | .cont => if inEntry then ignoredFrom true ls else l :: ignoredFrom false ls
    | .other => l :: ignoredFrom false ls

/-- the lines of a usage text the reader does not use -/
def ignoredLines (ls : List Str) : List Str := ignoredFrom false ls

/-- a byte text in which every line was ended by `'\n'` (`std::endl`), cut into its lines; `cur` = the line
    being read (an unterminated rest would be a last line) -/
def splitNlFrom (cur : Str) : Str → List Str
  | [] => if cur = [] then [] else [cur]
  | c :: cs => if c = '\n' then cur :: splitNlFrom [] cs else splitNlFrom (cur ++ [c]) cs

/-- the lines of a byte text: the inverse of `unlines` -/
def splitNl (s : Str) : List Str := splitNlFrom [] s

/-- the key of `a` can be meant by `k`: same key, or (abbreviations allowed) `k`'s long key is a prefix of `a`'s -/
def keyMatches (abbr : Bool) (a : Arg) (k : Key) : Bool :=
  keyEq a.key k || (abbr && keyStartsWith a.key k)

/-- What a request for the help of ONE argument may do (the trichotomy of `C18_help_arg`), as a predicate on
    the result `r` of a request with key `k`, typed as `raw`, put to a handler with the arguments `args`:
    * some argument is meant by `k` (same key, or - abbreviations allowed - its long key starts with the long
      key given): `r` is the line `Argument '<k>', usage:` + THAT argument's description as a text block
      (indent 3, width 80), nothing on the error stream; and if some argument has exactly the key `k`, the
      argument printed has exactly this key;
    * no argument is meant: nothing on the output, `*** ERROR: Argument '<raw>' is unknown!` on the error stream;
    * no argument has exactly this key and the abbreviation is ambiguous among the plain arguments, or - no
      plain argument being meant - among the sub-group arguments: `std::runtime_error`. -/
def HelpOutcome (args : List Arg) (noAbbr : Bool) (raw : Str) (k : Key) (r : Res (List Str × List Str)) : Prop :=
  (∃ a ∈ args, keyMatches (!noAbbr) a k = true
      ∧ ((∃ b ∈ args, keyEq b.key k = true) → keyEq a.key k = true)
      ∧ r = .ok (("Argument '".toList ++ keyToString k ++ "', usage:".toList)
                  :: emit [] (TextBlock.format ⟨3, 80, true⟩ a.desc), []))
  ∨ ((∀ a ∈ args, keyMatches (!noAbbr) a k = false)
      ∧ r = .ok ([], ["*** ERROR: Argument '".toList ++ raw ++ "' is unknown!".toList]))
  ∨ (r = .throw .runtime_error ∧ noAbbr = false
      ∧ (∀ a ∈ args, keyEq a.key k = false)
      ∧ ∃ c, (c = plainArgs args
              ∨ (c = subGroupArgs args ∧ ∀ a ∈ plainArgs args, keyMatches (!noAbbr) a k = false))
        ∧ ∃ pre a post, c = pre ++ a :: post ∧ keyStartsWith a.key k = true
            ∧ ∃ p ∈ pre, keyStartsWith p.key k = true)

/-- the value of a call that returned (used by the non-vacuity examples: `Res` has no decidable equality) -/
def okVal {α : Type} : Res α → Option α
  | .ok a => some a
  | _ => none

/-- the exception class of a call that threw -/
def thrown {α : Type} : Res α → Option Exc
  | .throw e => some e
  | _ => none

end CelmaVerif.Usage
