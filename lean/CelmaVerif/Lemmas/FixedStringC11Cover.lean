import CelmaVerif.Lemmas.FixedStringC11Dev
/-
  C11 — the complement of the documented domain, as definitions and one coverage theorem.

  `stdDefined`  : `std::string` itself is defined on the operation (its own preconditions on pointers and iterator
                  pairs hold, and the textbook specification returns a value instead of throwing);
  `DevKind`     : the kinds of deliberate / documented / test-pinned deviations of `FixedString` from `std::string`;
  `devCase`     : the deviation (if any) that applies to an operation in a state — decidable, by cases on the
                  operation like `inDomain`;
  `dev_cover`   : an operation outside `inDomain` that satisfies the caller contract of the code (`ArgsOK`) and on
                  which `std::string` is defined falls under (at least) one `DevKind`.

  Each `DevKind` has one `step`-level theorem `C11_deviation_<kind>` in Props/C11.lean that states what the code
  answers there (helper lemmas: Lemmas/FixedStringC11DevStep.lean).
-/
namespace CelmaVerif.FixedString
open CelmaVerif

/-- What the value-level specification `spec` cannot see: the preconditions `std::string` itself puts on raw
    pointers (`const char*` arguments are terminated, `[p, p + n)` is readable), on iterator pairs (`first ≤ last`)
    and on `operator[]` (`i ≤ size()`).  `false` for the operations without a `std::string` counterpart (set-up of
    the source objects; the FixedString-specific iterator arithmetic, which is proved safe under C10 only). -/
def stdReadable (w : World) : Op → Bool
  | .tset _ | .uset _ | .itWalk .. | .itWalkDeref .. | .itWalkIdx .. | .itRel .. => false
  | .ctorP a | .assignP a | .setP a | .sprintf a | .sprintf2 a _ | .appendP a | .addP a | .cmpP a | .swP a | .ewP a
  | .insertIP _ a | .cmpCCP _ _ a | .ctP a | .repCCP _ _ a | .repItItP _ _ a => hasNul a
  | .appendPC a k | .insertIPC _ a k | .cmpCCPC _ _ a k | .repCCPC _ _ a k | .repItItPC _ _ a k => k ≤ a.length
  | .idx i => i ≤ (abs w.s).length
  | .appendItIt i j | .repItItItIt _ _ i j => itPos (abs w.t) i ≤ itPos (abs w.t) j
  | .repItItSIt _ _ d i j => i ≤ j && j ≤ d.length
  | .search _ (.ppc a _ k) => k ≤ a.length
  | .search _ (.pp a _) => hasNul a
  -- a `sprintf` whose formatter fails (`vsnprintf` returns -1) has no counterpart either
  | .sprintfW a wa _ b => hasNul a && hasNul b && wa.conv.isSome
  | _ => true

/-- `std::string` is defined on the operation and returns (no exception, no undefined behaviour) -/
def stdDefined (big : Nat) (w : World) (op : Op) : Bool :=
  stdReadable w op && (spec id big w op).isOk

/-- the kinds of deviations from `std::string` outside the documented domain -/
inductive DevKind
  | atLength               -- `at( length())` returns the terminator
  | countBeyondTerminator  -- `(p, n)` with `n > strlen( p)`: the count is cut at the terminator
  | insertAtEnd            -- `insert( end(), …)` inserts nothing
  | rangeFromEnd           -- `replace( end(), end(), …)` does nothing
  | replaceEmptyRange      -- `replace( it, it, …)` does nothing
  | replaceByNothing       -- `replace( first, last, <empty text>)` does nothing
  | nulInIteratorSource    -- `replace( first, last, first2, end())`: the source stops at its first NUL
  | emptyNeedle            -- empty search string / character set: never found
  | rfindCountZero         -- `rfind( p, pos, 0)`: `npos` on an empty string or for `p == ""`, else `min( pos, size())`
  | backwardBeyondEnd      -- backward search with an explicit `pos ≥ size()`: `npos`
  | strchrNul              -- strchr-based character-class searches: NUL belongs to every set, the set ends at its NUL
  deriving DecidableEq, Repr

/-- the deviation of an iterator `replace`: `r` is the replacement text -/
def itRepCase (x : Str) (f l : ItArg) (r : Str) : Option DevKind :=
  if actsEnd x f then some .rangeFromEnd
  else if itPos x l ≤ itPos x f then some .replaceEmptyRange
  else if r.length = 0 then some .replaceByNothing
  else none

def countCase (a : List Byte) (k : Nat) : Option DevKind :=
  if hasNul a && decide ((StdString.ofCStr a).length < k) then some .countBeyondTerminator else none

/-- the position of a backward search is the default / `npos`, or lies inside the string -/
def backPosOk (big n : Nat) (p : Option Nat) : Bool := p.getD big == big || p.getD big < n

/-- Which deviation applies (the first one in the order of the checks of the code).  `none`: no deviation is
    known — inside `inDomain`, or `std::string` is not defined either, or the caller contract is violated. -/
def devCase (big : Nat) (w : World) (op : Op) : Option DevKind :=
  let x := abs w.s
  let T := abs w.t
  let n := x.length
  match op with
  | .atI i | .cat i => if i = n then some .atLength else none
  | .appendPC a k | .cmpCCPC _ _ a k | .repCCPC _ _ a k => countCase a k
  | .insertItC p _ | .insertItCC p _ _ | .insertItIl p _ => if actsEnd x p then some .insertAtEnd else none
  | .ctF f => if (w.text f).length = 0 then some .emptyNeedle else none
  | .ctS d => if d.length = 0 then some .emptyNeedle else none
  | .ctP a => if (StdString.ofCStr a).length = 0 then some .emptyNeedle else none
  | .repItItItIt f l i j =>
    match itRepCase x f l ((T.drop (itPos T i)).take (itPos T j - itPos T i)) with
    | some k => some k
    | none => if actsEnd T j && hasNul (T.drop (itPos T i)) then some .nulInIteratorSource else none
  | .repItItSIt f l d i j => itRepCase x f l ((d.drop i).take (j - i))
  | .repItItPC f l a k => itRepCase x f l (a.take k)
  | .repItItP f l a => itRepCase x f l (StdString.ofCStr a)
  | .repItItCC f l k ch => itRepCase x f l (List.replicate k ch)
  | .repItItIl f l il => itRepCase x f l il
  | .search fam nd =>
    let pat := needleText w nd
    let strchrBased : Bool := match nd with | .f _ | .s _ _ | .pp _ _ => true | _ => false
    let nul : Option DevKind := if strchrBased && (hasNul x || hasNul pat) then some .strchrNul else none
    if pat.length = 0 then
      (match fam, nd with
       | .rfind, .ppc _ _ _ => some .rfindCountZero
       | _, _ => some .emptyNeedle)
    else match fam with
      | .find => none
      | .rfind => (match nd with
        | .ppc a _ k => countCase a k
        | .c _ p => if backPosOk big n p then none else some .backwardBeyondEnd
        | _ => none)
      | .ffo | .ffno => nul
      | .flo | .flno =>
        (match nd with
         | .ppc _ p _ => if p < n then none else some .backwardBeyondEnd
         | .f p | .s _ p | .pp _ p | .c _ p => if backPosOk big n p then nul else some .backwardBeyondEnd)
  | _ => none

/-! ### the coverage theorem -/

variable {c : Cfg} {w : World}

theorem isOk_thenS_throw (e : Exc) : (thenS (.throw e)).isOk = false := rfl

theorem hasNul_iff {a : List Byte} : hasNul a = true ↔ (0 : Byte) ∈ a := by
  unfold hasNul; exact List.contains_iff_mem

theorem cover_notDeref {x : Str} {p : ItArg} (h : derefable x p = false) : actsEnd x p = true := by
  cases p with
  | fin => rfl
  | pos k => simp only [derefable, decide_eq_false_iff_not] at h; simp only [actsEnd, decide_eq_true_eq]; omega

theorem cover_deref_or (x : Str) (p : ItArg) : derefable x p = true ∨ actsEnd x p = true := by
  cases h : derefable x p
  · exact Or.inr (cover_notDeref h)
  · exact Or.inl rfl

theorem cover_actsEnd_pos {x : Str} {p : ItArg} (h : actsEnd x p = true) : itPos x p = x.length :=
  itPos_actsEnd h

theorem itPos_le (x : Str) (p : ItArg) : itPos x p ≤ x.length := by
  cases p with
  | fin => exact Nat.le_refl _
  | pos k => exact Nat.min_le_right _ _

/-- an iterator `replace` outside `itRange … && <text not empty>` on which `std::string` is defined
    (`first ≤ last`) is one of the three "nothing happens" deviations -/
theorem cover_itRep {x : Str} {f l : ItArg} {r : Str} (_hstd : itPos x f ≤ itPos x l)
    (hout : itRange x f l = false ∨ r.length = 0) : (itRepCase x f l r).isSome = true := by
  unfold itRepCase
  by_cases h1 : actsEnd x f = true
  · rw [if_pos h1]; rfl
  · rw [if_neg h1]
    by_cases h2 : itPos x l ≤ itPos x f
    · rw [if_pos h2]; rfl
    · rw [if_neg h2]
      rcases hout with h | h
      · exfalso
        rcases cover_deref_or x f with hd | hd
        · simp only [itRange, hd, Bool.true_and, decide_eq_false_iff_not] at h; omega
        · exact h1 hd
      · rw [if_pos h]; rfl

theorem spec_itRep_isOk {x : Str} {f l : ItArg} {r : Str}
    (h : (if itPos x f > itPos x l then (Res.throw .out_of_range : Res (Str × Out))
          else thenS (StdString.replace x (itPos x f) (itPos x l - itPos x f) r)).isOk = true) :
    itPos x f ≤ itPos x l := by
  by_cases hh : itPos x f > itPos x l
  · rw [if_pos hh] at h; cases h
  · omega

/-! #### when the textbook specification returns -/

theorem isOk_thenS (r : Res Str) : (thenS r).isOk = r.isOk := by cases r <;> rfl
theorem isOk_okS (x : Str) : (okS x).isOk = true := rfl
theorem isOk_ok {α : Type} (a : α) : (Res.ok a).isOk = true := rfl
theorem isOk_if_throw {α : Type} (P : Prop) [Decidable P] (e : Exc) (r : Res α) :
    (if P then Res.throw e else r).isOk = (!decide P && r.isOk) := by
  by_cases h : P
  · rw [if_pos h]; simp [Res.isOk, h]
  · rw [if_neg h]; simp [h]
theorem isOk_insert (x : Str) (i : Nat) (t : Str) : (StdString.insert x i t).isOk = decide (i ≤ x.length) := by
  unfold StdString.insert; by_cases h : i > x.length
  · rw [if_pos h]; simp [Res.isOk]; omega
  · rw [if_neg h]; simp [Res.isOk]; omega
theorem isOk_erase (x : Str) (i n : Nat) : (StdString.erase x i n).isOk = decide (i ≤ x.length) := by
  unfold StdString.erase; by_cases h : i > x.length
  · rw [if_pos h]; simp [Res.isOk]; omega
  · rw [if_neg h]; simp [Res.isOk]; omega
theorem isOk_replace (x : Str) (i n : Nat) (t : Str) : (StdString.replace x i n t).isOk = decide (i ≤ x.length) := by
  unfold StdString.replace; by_cases h : i > x.length
  · rw [if_pos h]; simp [Res.isOk]; omega
  · rw [if_neg h]; simp [Res.isOk]; omega
theorem isOk_bind_substr {α : Type} (d : Str) (j n : Nat) (f : Str → Res α) :
    (bindR (StdString.substr d j n) f).isOk = (decide (j ≤ d.length) && (f ((d.drop j).take n)).isOk) := by
  unfold StdString.substr; by_cases h : j > d.length
  · rw [if_pos h, bindR_throw]; simp [Res.isOk]; intro; omega
  · rw [if_neg h, bindR_ok]; simp; omega
theorem isOk_bind_copy {α : Type} (d : Str) (n j : Nat) (f : Str → Res α) :
    (bindR (StdString.copy d n j) f).isOk = (decide (j ≤ d.length) && (f ((d.drop j).take n)).isOk) := by
  unfold StdString.copy; by_cases h : j > d.length
  · rw [if_pos h, bindR_throw]; simp [Res.isOk]; intro; omega
  · rw [if_neg h, bindR_ok]; simp; omega
theorem isOk_bind_at {α : Type} (x : Str) (i : Nat) (f : Byte → Res α) (hf : ∀ b, (f b).isOk = true) :
    (bindR (StdString.at_ x i) f).isOk = decide (i < x.length) := by
  unfold StdString.at_
  by_cases h : i < x.length
  · rw [List.getElem?_eq_getElem h]; simp [bindR, hf, h]
  · rw [List.getElem?_eq_none (by omega)]; simp [bindR, Res.isOk, h]

theorem cover_count {a : List Byte} {k : Nat} (h0 : (0 : Byte) ∈ a)
    (h : (hasNul a && decide (k ≤ (StdString.ofCStr a).length)) = false) : (countCase a k).isSome = true := by
  have hn : hasNul a = true := hasNul_iff.mpr h0
  rw [hn, Bool.true_and, decide_eq_false_iff_not] at h
  unfold countCase
  rw [if_pos (by rw [hn, Bool.true_and, decide_eq_true_eq]; omega)]; rfl

/-! #### the searches -/

theorem cover_pos {n : Nat} (h : ¬ n = 0) : decide (n > 0) = true := by simp; omega

theorem dev_cover_search (fam : Fam) (nd : Needle) (hd : inDomain (npos c) w (.search fam nd) = false)
    (ha : ArgsOK c w (.search fam nd)) (hs : stdDefined (npos c) w (.search fam nd) = true) :
    (devCase (npos c) w (.search fam nd)).isSome = true := by
  simp only [stdDefined, spec, isOk_ok, Bool.and_true] at hs
  by_cases h0 : (needleText w nd).length = 0
  · simp only [devCase, if_pos h0]
    cases fam <;> cases nd <;> rfl
  · simp only [devCase, if_neg h0]
    simp only [inDomain, cover_pos h0, Bool.true_and] at hd
    clear h0
    cases fam <;> cases nd <;> simp only [needleText] at hd ⊢ <;> simp only [stdReadable] at hs <;>
      simp only [ArgsOK] at ha
    all_goals (try simp only [Bool.true_and, Bool.and_true, Bool.false_and, Bool.not_true, Bool.not_false, Bool.false_or, Bool.true_or, Bool.false_eq_true, if_false] at hd ⊢)
    all_goals (try (cases hd; done))
    all_goals (try (simp only [hs] at hd; cases hd; done))
    all_goals (try simp only [hs, Bool.true_and] at hd)
    case rfind.ppc => exact cover_count (ha.2 trivial) hd
    all_goals (try (have hd' : backPosOk _ _ _ = false := hd; rw [hd']; rfl))
    all_goals (try (
      have hd' : (!hasNul _ && !hasNul _ && backPosOk _ _ _) = false := hd
      clear hd
      revert hd'
      generalize backPosOk _ _ _ = C
      generalize hasNul (abs w.s) = A
      generalize hasNul _ = B
      cases A <;> cases B <;> cases C <;> simp))
    all_goals (repeat' split)
    all_goals (first | rfl | (exfalso; simp_all))

/-! #### every operation -/

theorem cover_le_of {a b m : Nat} (h : (!decide (a > b) && decide (a ≤ m)) = true) : a ≤ b := by
  simp at h; omega

theorem cover_and_false {a b : Bool} (h : (a && b) = false) : a = false ∨ b = false := by
  cases a <;> cases b <;> simp_all

/-- **Coverage of the complement of the documented domain.**  An operation outside `inDomain` that satisfies the
    caller contract of the code (`ArgsOK`) and on which `std::string` is defined (`stdDefined`) falls under one of
    the deviation kinds of `DevKind` (`devCase … ≠ none`); for each kind a `step`-level theorem states what the code
    does.  So there is no silent exclusion: outside the domain either `std::string` itself is undefined / throws, or
    the caller contract of the code is violated (unterminated C string where the code calls `strlen`), or one of the
    eleven named deviations applies. -/
theorem dev_cover (op : Op) (hd : inDomain (npos c) w op = false)
    (ha : ArgsOK c w op) (hs : stdDefined (npos c) w op = true) : (devCase (npos c) w op).isSome = true := by
  cases op
  case search fam nd => exact dev_cover_search fam nd hd ha hs
  all_goals (simp only [stdDefined, stdReadable, Bool.false_and, Bool.and_eq_true, Bool.true_and] at hs)
  all_goals (try (cases hs; done))
  all_goals (simp only [inDomain] at hd)
  all_goals (try (cases hd; done))
  all_goals (simp only [ArgsOK] at ha)
  all_goals (try (simp only [spec, isOk_thenS, isOk_okS, isOk_ok, isOk_insert, isOk_erase, isOk_replace, isOk_bind_substr,
    isOk_bind_copy, isOk_if_throw, Bool.and_true] at hs))
  all_goals (try (simp_all [hasNul_iff]; done))
  case itDeref k => rw [isOk_bind_at _ _ _ (fun _ => rfl)] at hs; rw [hs] at hd; cases hd
  case atI i => simp only [devCase]; rw [if_pos (by simpa using hd)]; rfl
  case cat i => simp only [devCase]; rw [if_pos (by simpa using hd)]; rfl
  case insertItC p ch => simp only [devCase]; rw [if_pos (cover_notDeref hd)]; rfl
  case insertItCC p n ch => simp only [devCase]; rw [if_pos (cover_notDeref hd)]; rfl
  case insertItIl p il => simp only [devCase]; rw [if_pos (cover_notDeref hd)]; rfl
  case appendPC a k => simp only [devCase]; exact cover_count ha hd
  case cmpCCPC p n a k =>
    simp only [devCase]; apply cover_count ha
    rw [hs.2, Bool.true_and] at hd; exact hd
  case repCCPC p n a k =>
    simp only [devCase]; apply cover_count ha
    rw [hs.2, Bool.true_and] at hd; exact hd
  case eraseIt p => simp at hs; have := cover_actsEnd_pos (cover_notDeref hd); omega
  case appendItIt x y => exact absurd hs.1 (by rw [show w.text Sel.t = abs w.t from rfl] at hd; rw [hd]; simp)
  case ctF f => simp only [devCase]; rw [if_pos (by simpa using hd)]; rfl
  case ctS d => simp only [devCase]; rw [if_pos (by simpa using hd)]; rfl
  case ctP a =>
    simp only [devCase]; rw [hasNul_iff.mpr ha, Bool.true_and] at hd
    rw [if_pos (by simpa using hd)]; rfl
  case insertISIC i d j n => simp only [Bool.and_eq_true, decide_eq_true_eq] at hs; rcases cover_and_false hd with h | h <;> simp at h <;> omega
  case insertIFIC i f j n => simp only [Bool.and_eq_true, decide_eq_true_eq] at hs; rcases cover_and_false hd with h | h <;> simp at h <;> omega
  case repCCFC p n f p2 => simp only [Bool.and_eq_true, decide_eq_true_eq] at hs; rcases cover_and_false hd with h | h <;> simp at h <;> omega
  case repCCFCC p n f p2 n2 => simp only [Bool.and_eq_true, decide_eq_true_eq] at hs; rcases cover_and_false hd with h | h <;> simp at h <;> omega
  case repCCSC p n f p2 => simp only [Bool.and_eq_true, decide_eq_true_eq] at hs; rcases cover_and_false hd with h | h <;> simp at h <;> omega
  case repCCSCC p n f p2 n2 => simp only [Bool.and_eq_true, decide_eq_true_eq] at hs; rcases cover_and_false hd with h | h <;> simp at h <;> omega
  case repItItCC f l k ch =>
    simp only [devCase]
    refine cover_itRep (cover_le_of hs) ?_
    rcases cover_and_false hd with h | h
    · exact Or.inl h
    · right; simp at h; simp [h]
  case repItItIl f l il =>
    simp only [devCase]
    refine cover_itRep (cover_le_of hs) ?_
    rcases cover_and_false hd with h | h
    · exact Or.inl h
    · right; simp at h; simp [h]
  case repItItPC f l a k =>
    simp only [devCase]
    refine cover_itRep (cover_le_of hs.2) ?_
    have hk : k ≤ a.length := of_decide_eq_true hs.1
    rcases cover_and_false hd with h | h
    · rcases cover_and_false h with h | h
      · exact Or.inl h
      · right; simp at h; simp [h]
    · simp at h; omega
  case repItItP f l a =>
    simp only [devCase]
    refine cover_itRep (cover_le_of hs.2) ?_
    rw [hasNul_iff.mpr ha, Bool.and_true] at hd
    rcases cover_and_false hd with h | h
    · exact Or.inl h
    · right; simpa using h
  case repItItSIt f l d i j =>
    simp only [devCase]
    refine cover_itRep (cover_le_of hs.2) ?_
    simp only [Bool.and_eq_true, decide_eq_true_eq] at hs
    rcases cover_and_false hd with h | h
    · rcases cover_and_false h with h | h
      · exact Or.inl h
      · right; simp at h; simp; omega
    · simp at h; omega
  case repItItItIt f l x y =>
    rw [show w.text Sel.t = abs w.t from rfl] at hd
    simp only [devCase]
    have hle := cover_le_of hs.2
    have hxy : itPos (abs w.t) x ≤ itPos (abs w.t) y := of_decide_eq_true hs.1
    generalize hr : ((abs w.t).drop (itPos (abs w.t) x)).take (itPos (abs w.t) y - itPos (abs w.t) x) = r
    by_cases hcase : itRange (abs w.s) f l = false ∨ r.length = 0
    · have := cover_itRep hle hcase
      cases hq : itRepCase (abs w.s) f l r with
      | some k => rfl
      | none => rw [hq] at this; cases this
    · cases hq : itRepCase (abs w.s) f l r with
      | some k => rfl
      | none =>
        have h1 : itRange (abs w.s) f l = true := by
          cases h : itRange (abs w.s) f l
          · exact absurd (Or.inl h) hcase
          · rfl
        have h2 : r.length ≠ 0 := fun h => hcase (Or.inr h)
        have hyl := itPos_le (abs w.t) y
        have h3 : itPos (abs w.t) x < itPos (abs w.t) y := by
          rw [← hr, List.length_take, List.length_drop] at h2; omega
        have h4 : derefable (abs w.t) x = true := by
          rcases cover_deref_or (abs w.t) x with h | h
          · exact h
          · have := cover_actsEnd_pos h; omega
        rw [h1, h4, decide_eq_true h3] at hd
        simp only [Bool.true_and, Bool.or_eq_false_iff, Bool.not_eq_false'] at hd
        simp only []
        rw [hd.1, hd.2]; rfl

end CelmaVerif.FixedString
