import CelmaVerif.Lemmas.FixedStringC11W3
import CelmaVerif.Lemmas.FixedStringC11Cmp
import CelmaVerif.Lemmas.FixedStringC11Find
import CelmaVerif.Lemmas.FixedStringC11RFind2
/-
  C11 at the level of the operation language, observers (second part): the C-string and single-character
  overloads of compare / starts_with / ends_with / contains, `c_str()`/`data()`/`operator<<`, the partial
  compares, element access (`*it`, `operator[]`, `front`, `back`) and the whole find family.
-/
namespace CelmaVerif.FixedString
open CelmaVerif
variable {c cu : Cfg} {w : World}

theorem c11_cmpP (hw : WFW c cu w) (a : List Byte) (ha : ArgsOK c w (.cmpP a)) : C11Holds c cu w (.cmpP a) := by
  intro w' o h
  simp only [step] at h
  obtain ⟨r, h1, rfl, rfl⟩ := obs_inv h
  obtain ⟨n, hn, hlt, hof⟩ := cstrlen_of_mem (show (0 : Byte) ∈ a from ha)
  rw [hn, bindR_ok, fullCompare_abs hw.1 (by omega)] at h1; cases h1
  exact c11_obs hw.1 (by simp only [spec, hof])

theorem c11_swP (hw : WFW c cu w) (a : List Byte) (ha : ArgsOK c w (.swP a)) : C11Holds c cu w (.swP a) := by
  intro w' o h
  simp only [step] at h
  obtain ⟨r, h1, rfl, rfl⟩ := obs_inv h
  obtain ⟨n, hn, hlt, hof⟩ := cstrlen_of_mem (show (0 : Byte) ∈ a from ha)
  rw [hn, bindR_ok, startsWith_abs hw.1 (by omega)] at h1; cases h1
  exact c11_obs hw.1 (by simp only [spec, hof])

theorem c11_ewP (hw : WFW c cu w) (a : List Byte) (ha : ArgsOK c w (.ewP a)) : C11Holds c cu w (.ewP a) := by
  intro w' o h
  simp only [step] at h
  obtain ⟨r, h1, rfl, rfl⟩ := obs_inv h
  obtain ⟨n, hn, hlt, hof⟩ := cstrlen_of_mem (show (0 : Byte) ∈ a from ha)
  rw [hn, bindR_ok, endsWith_abs hw.1 (by omega)] at h1; cases h1
  exact c11_obs hw.1 (by simp only [spec, hof])

theorem c11_swC (hw : WFW c cu w) (ch : Byte) : C11Holds c cu w (.swC ch) := by
  intro w' o h
  simp only [step] at h
  obtain ⟨r, h1, rfl, rfl⟩ := obs_inv h
  rw [startsWithCh_abs hw.1] at h1; cases h1
  exact c11_obs hw.1 (by simp only [spec])

theorem c11_ewC (hw : WFW c cu w) (ch : Byte) : C11Holds c cu w (.ewC ch) := by
  intro w' o h
  simp only [step] at h
  obtain ⟨r, h1, rfl, rfl⟩ := obs_inv h
  rw [endsWithCh_abs hw.1] at h1; cases h1
  exact c11_obs hw.1 (by simp only [spec])

theorem c11_ctC (hw : WFW c cu w) (ch : Byte) : C11Holds c cu w (.ctC ch) := by
  intro w' o h
  simp only [step] at h
  obtain ⟨r, h1, rfl, rfl⟩ := obs_inv h
  rw [containsCh_abs hw.1] at h1; cases h1
  exact c11_obs hw.1 (by simp only [spec])

theorem c11_cStr (hw : WFW c cu w) : C11Holds c cu w .cStr := by
  intro w' o h
  simp only [step] at h
  obtain ⟨r, h1, rfl, rfl⟩ := obs_inv h
  rw [cstrView_abs hw.1] at h1; cases h1
  exact c11_obs hw.1 (by simp only [spec])

theorem c11_data (hw : WFW c cu w) : C11Holds c cu w .data := by
  intro w' o h
  simp only [step] at h
  obtain ⟨r, h1, rfl, rfl⟩ := obs_inv h
  rw [cstrView_abs hw.1] at h1; cases h1
  exact c11_obs hw.1 (by simp only [spec])

theorem c11_stream (hw : WFW c cu w) : C11Holds c cu w .stream := by
  intro w' o h
  simp only [step] at h
  obtain ⟨r, h1, rfl, rfl⟩ := obs_inv h
  rw [streamView_abs hw.1] at h1; cases h1
  exact c11_obs hw.1 (by simp only [spec])

theorem c11_ctF (hw : WFW c cu w) (f : Sel) (hd : inDomain (npos c) w (.ctF f) = true) :
    C11Holds c cu w (.ctF f) := by
  intro w' o h
  simp only [step] at h
  obtain ⟨r, h1, rfl, rfl⟩ := obs_inv h
  simp only [inDomain, decide_eq_true_eq] at hd
  obtain ⟨co, ho⟩ := sel_wf hw f
  have hpos : 0 < (w'.sel f).len := by
    have := abs_length ho; unfold World.text at hd; omega
  rw [containsImpl_abs hw.1 (sel_len hw f) hpos] at h1; cases h1
  exact c11_obs hw.1 (by simp only [spec, World.text, abs])

theorem c11_ctS (hw : WFW c cu w) (d : Str) (hd : inDomain (npos c) w (.ctS d) = true) :
    C11Holds c cu w (.ctS d) := by
  intro w' o h
  simp only [step] at h
  obtain ⟨r, h1, rfl, rfl⟩ := obs_inv h
  simp only [inDomain, decide_eq_true_eq] at hd
  rw [containsImpl_abs hw.1 (by simp) hd, List.take_left' rfl] at h1; cases h1
  exact c11_obs hw.1 (by simp only [spec])

theorem c11_ctP (hw : WFW c cu w) (a : List Byte) (ha : ArgsOK c w (.ctP a))
    (hd : inDomain (npos c) w (.ctP a) = true) : C11Holds c cu w (.ctP a) := by
  intro w' o h
  simp only [step] at h
  obtain ⟨r, h1, rfl, rfl⟩ := obs_inv h
  obtain ⟨n, hn, hlt, hof⟩ := cstrlen_of_mem (show (0 : Byte) ∈ a from ha)
  simp only [inDomain, Bool.and_eq_true, decide_eq_true_eq] at hd
  have hpos : 0 < n := by
    have := hd.2; rw [hof, List.length_take] at this; omega
  rw [hn, bindR_ok, containsImpl_abs hw.1 (by omega) hpos] at h1; cases h1
  exact c11_obs hw.1 (by simp only [spec, hof])

theorem c11_cmpCCF (hw : WFW c cu w) (p n : Nat) (f : Sel) (hd : inDomain (npos c) w (.cmpCCF p n f) = true) :
    C11Holds c cu w (.cmpCCF p n f) := by
  intro w' o h
  simp only [step] at h
  obtain ⟨r, h1, rfl, rfl⟩ := obs_inv h
  simp only [inDomain, abs_length hw.1, decide_eq_true_eq] at hd
  rw [partCompare_abs hw.1 p n (sel_len hw f) hd] at h1; cases h1
  refine c11_obs hw.1 ?_
  simp only [spec, StdString.substr]
  rw [if_neg (by rw [abs_length hw.1]; omega), bindR_ok]
  rfl

theorem c11_cmpCCS (hw : WFW c cu w) (p n : Nat) (d : Str) (hd : inDomain (npos c) w (.cmpCCS p n d) = true) :
    C11Holds c cu w (.cmpCCS p n d) := by
  intro w' o h
  simp only [step] at h
  obtain ⟨r, h1, rfl, rfl⟩ := obs_inv h
  simp only [inDomain, abs_length hw.1, decide_eq_true_eq] at hd
  rw [partCompare_abs hw.1 p n (by simp) hd, List.take_left' rfl] at h1; cases h1
  refine c11_obs hw.1 ?_
  simp only [spec, StdString.substr]
  rw [if_neg (by rw [abs_length hw.1]; omega), bindR_ok]

theorem c11_cmpCCP (hw : WFW c cu w) (p n : Nat) (a : List Byte) (ha : ArgsOK c w (.cmpCCP p n a))
    (hd : inDomain (npos c) w (.cmpCCP p n a) = true) : C11Holds c cu w (.cmpCCP p n a) := by
  intro w' o h
  simp only [step] at h
  obtain ⟨r, h1, rfl, rfl⟩ := obs_inv h
  obtain ⟨k, hk, hlt, hof⟩ := cstrlen_of_mem (show (0 : Byte) ∈ a from ha)
  simp only [inDomain, abs_length hw.1, Bool.and_eq_true, decide_eq_true_eq] at hd
  rw [hk, bindR_ok, partCompare_abs hw.1 p n (by omega) hd.1] at h1; cases h1
  refine c11_obs hw.1 ?_
  simp only [spec, StdString.substr, hof]
  rw [if_neg (by rw [abs_length hw.1]; omega), bindR_ok]

theorem c11_cmpCCFCC (hw : WFW c cu w) (p n : Nat) (f : Sel) (p2 n2 : Nat)
    (hd : inDomain (npos c) w (.cmpCCFCC p n f p2 n2) = true) : C11Holds c cu w (.cmpCCFCC p n f p2 n2) := by
  intro w' o h
  simp only [step] at h
  obtain ⟨r, h1, rfl, rfl⟩ := obs_inv h
  obtain ⟨co, ho⟩ := sel_wf hw f
  simp only [inDomain, abs_length hw.1, World.text, abs_length ho, Bool.and_eq_true, decide_eq_true_eq] at hd
  rw [partPartCompare_abs hw.1 p n (sel_len hw f) p2 n2 hd.1 hd.2] at h1; cases h1
  refine c11_obs hw.1 ?_
  simp only [spec, StdString.substr]
  rw [if_neg (by rw [abs_length hw.1]; omega), bindR_ok,
    if_neg (by show ¬ p2 > (abs (w'.sel f)).length; rw [abs_length ho]; omega), bindR_ok]
  rfl

theorem c11_cmpCCSCC (hw : WFW c cu w) (p n : Nat) (d : Str) (p2 n2 : Nat)
    (hd : inDomain (npos c) w (.cmpCCSCC p n d p2 n2) = true) : C11Holds c cu w (.cmpCCSCC p n d p2 n2) := by
  intro w' o h
  simp only [step] at h
  obtain ⟨r, h1, rfl, rfl⟩ := obs_inv h
  simp only [inDomain, abs_length hw.1, Bool.and_eq_true, decide_eq_true_eq] at hd
  rw [partPartCompare_abs hw.1 p n (by simp) p2 n2 hd.1 hd.2, List.take_left' rfl] at h1; cases h1
  refine c11_obs hw.1 ?_
  simp only [spec, StdString.substr]
  rw [if_neg (by rw [abs_length hw.1]; omega), bindR_ok, if_neg (by omega), bindR_ok]

theorem c11_cmpCCPC (hw : WFW c cu w) (p n : Nat) (a : List Byte) (n2 : Nat) (ha : ArgsOK c w (.cmpCCPC p n a n2))
    (hd : inDomain (npos c) w (.cmpCCPC p n a n2) = true) : C11Holds c cu w (.cmpCCPC p n a n2) := by
  intro w' o h
  simp only [step] at h
  obtain ⟨r, h1, rfl, rfl⟩ := obs_inv h
  obtain ⟨k, hk, hlt, hof⟩ := cstrlen_of_mem (show (0 : Byte) ∈ a from ha)
  simp only [inDomain, abs_length hw.1, Bool.and_eq_true, decide_eq_true_eq] at hd
  have hnk : n2 ≤ k := by have := hd.2; rw [hof, List.length_take] at this; omega
  rw [hk, bindR_ok, partPartCompare_abs hw.1 p n (show k ≤ a.length by omega) 0 n2 hd.1.1 (Nat.zero_le _),
    List.drop_zero, List.take_take, Nat.min_eq_left hnk] at h1
  cases h1
  refine c11_obs hw.1 ?_
  simp only [spec, StdString.substr]
  rw [if_neg (by rw [abs_length hw.1]; omega), bindR_ok]

/-- reading the buffer at an index up to and including the terminator -/
theorem w4_get1_abs_getD {s : FStr} (hs : WF c s) {i : Nat} (hi : i ≤ s.len) :
    get1 s.buf i = .ok ((abs s).getD i 0) := by
  have := hs.1; have := hs.2.1
  unfold get1 abs
  rw [List.getD_eq_getElem?_getD, List.getElem?_take]
  by_cases hlt : i < s.len
  · rw [if_pos hlt, List.getElem?_eq_getElem (by omega)]; rfl
  · have : i = s.len := by omega
    subst this
    rw [if_neg hlt, hs.2.2]; rfl

theorem w4_headD_eq_getD (l : List Nat) : l.headD 0 = l.getD 0 0 := by cases l <;> rfl

theorem w4_getLastD_eq_getD (l : List Nat) : l.getLastD 0 = l.getD (l.length - 1) 0 := by
  rw [List.getLastD_eq_getLast?, List.getLast?_eq_getElem?, List.getD_eq_getElem?_getD]

theorem c11_itDeref (hc : CfgOK c) (hw : WFW c cu w) (k : Nat) (hd : inDomain (npos c) w (.itDeref k) = true) :
    C11Holds c cu w (.itDeref k) := by
  intro w' o h
  simp only [step] at h
  obtain ⟨r, h1, rfl, rfl⟩ := obs_inv h
  simp only [inDomain, abs_length hw.1, decide_eq_true_eq] at hd
  have hit : itAt c w'.s k = k := by unfold itAt; rw [if_neg (by omega)]
  obtain ⟨hl, he, _⟩ := itDeref_abs hc hw.1 hd
  rw [hit, he] at h1; cases h1
  refine c11_obs hw.1 ?_
  simp only [spec, StdString.at_]
  rw [List.getElem?_eq_getElem hl]
  rfl

theorem c11_idx (hw : WFW c cu w) (i : Nat) (hd : inDomain (npos c) w (.idx i) = true) :
    C11Holds c cu w (.idx i) := by
  intro w' o h
  simp only [step] at h
  obtain ⟨r, h1, rfl, rfl⟩ := obs_inv h
  simp only [inDomain, abs_length hw.1, decide_eq_true_eq] at hd
  unfold index at h1
  rw [w4_get1_abs_getD hw.1 hd] at h1; cases h1
  exact c11_obs hw.1 (by simp only [spec])

theorem c11_front (hw : WFW c cu w) : C11Holds c cu w .front := by
  intro w' o h
  simp only [step] at h
  obtain ⟨r, h1, rfl, rfl⟩ := obs_inv h
  unfold front at h1
  rw [w4_get1_abs_getD hw.1 (Nat.zero_le _)] at h1; cases h1
  exact c11_obs hw.1 (by simp only [spec, w4_headD_eq_getD])

theorem c11_back (hw : WFW c cu w) : C11Holds c cu w .back := by
  intro w' o h
  simp only [step] at h
  obtain ⟨r, h1, rfl, rfl⟩ := obs_inv h
  have hidx : (if w'.s.len = 0 then 0 else w'.s.len - 1) = (abs w'.s).length - 1 := by
    rw [abs_length hw.1]; split <;> omega
  unfold back at h1
  rw [hidx, w4_get1_abs_getD hw.1 (by rw [abs_length hw.1]; omega)] at h1; cases h1
  exact c11_obs hw.1 (by simp only [spec, w4_getLastD_eq_getD])

theorem c11_find_f (hw : WFW c cu w) (p : Option Nat) (hd : inDomain (npos c) w (.search .find (.f p)) = true) :
    C11Holds c cu w (.search .find (.f p)) := by
  intro w' o h
  simp only [step] at h
  obtain ⟨r, h1, rfl, rfl⟩ := obs_inv h
  simp only [searchStep] at h1
  simp only [inDomain, needleText, Bool.and_eq_true] at hd
  have ht := hw.2.1
  have hpos : 0 < w'.t.len := by have := abs_length ht; have := of_decide_eq_true hd.1.1; omega
  rw [findN_abs hw.1 _ (by have := ht.1; have := ht.2.1; omega) hpos] at h1; cases h1
  exact c11_obs hw.1 (by simp only [spec, needleText, needlePos, abs])

theorem c11_find_s (hw : WFW c cu w) (d : Str) (p : Option Nat)
    (hd : inDomain (npos c) w (.search .find (.s d p)) = true) : C11Holds c cu w (.search .find (.s d p)) := by
  intro w' o h
  simp only [step] at h
  obtain ⟨r, h1, rfl, rfl⟩ := obs_inv h
  simp only [searchStep] at h1
  simp only [inDomain, needleText, Bool.and_eq_true] at hd
  have hpos : 0 < d.length := of_decide_eq_true hd.1.1
  rw [findN_abs hw.1 _ (by simp) hpos, List.take_left' rfl] at h1; cases h1
  exact c11_obs hw.1 (by simp only [spec, needleText, needlePos])

theorem c11_find_ppc (hw : WFW c cu w) (a : List Byte) (p n : Nat)
    (hd : inDomain (npos c) w (.search .find (.ppc a p n)) = true) : C11Holds c cu w (.search .find (.ppc a p n)) := by
  intro w' o h
  simp only [step] at h
  obtain ⟨r, h1, rfl, rfl⟩ := obs_inv h
  simp only [searchStep] at h1
  simp only [inDomain, needleText, Bool.and_eq_true] at hd
  have hn : n ≤ a.length := of_decide_eq_true hd.1.2
  have hpos : 0 < n := by have := of_decide_eq_true hd.1.1; rw [List.length_take] at this; omega
  rw [findN_abs hw.1 _ hn hpos] at h1; cases h1
  exact c11_obs hw.1 (by simp only [spec, needleText, needlePos])

theorem w4_hasNul_mem {a : List Byte} (h : hasNul a = true) : (0 : Byte) ∈ a := by
  unfold hasNul at h; exact List.contains_iff_mem.mp h

theorem c11_find_pp (hw : WFW c cu w) (a : List Byte) (p : Option Nat)
    (hd : inDomain (npos c) w (.search .find (.pp a p)) = true) : C11Holds c cu w (.search .find (.pp a p)) := by
  intro w' o h
  simp only [step] at h
  obtain ⟨r, h1, rfl, rfl⟩ := obs_inv h
  simp only [searchStep] at h1
  simp only [inDomain, needleText, Bool.and_eq_true] at hd
  obtain ⟨n, hn, hlt, hof⟩ := cstrlen_of_mem (w4_hasNul_mem hd.1.2)
  have hpos : 0 < n := by have := of_decide_eq_true hd.1.1; rw [hof, List.length_take] at this; omega
  unfold findP at h1
  rw [hn, bindR_ok, findN_abs hw.1 _ (show n ≤ a.length by omega) hpos] at h1; cases h1
  exact c11_obs hw.1 (by simp only [spec, needleText, needlePos, hof])

theorem c11_find_c (hc : CfgOK c) (hw : WFW c cu w) (ch : Byte) (p : Option Nat) (hpW : p.getD 0 < c.W) :
    C11Holds c cu w (.search .find (.c ch p)) := by
  intro w' o h
  simp only [step] at h
  obtain ⟨r, h1, rfl, rfl⟩ := obs_inv h
  simp only [searchStep] at h1
  rw [findCh_abs hc hw.1 ch hpW] at h1; cases h1
  exact c11_obs hw.1 (by simp only [spec, needleText, needlePos])

theorem w4_noNul_not_mem {a : List Byte} (h : hasNul a = false) : (0 : Byte) ∉ a := by
  unfold hasNul at h
  intro hm
  rw [List.contains_iff_mem.mpr hm] at h
  cases h

/-- `strlen` finds the first NUL -/
theorem w4_cstrlenAux_of_nul : ∀ (a : List Nat) (n k : Nat), a[n]? = some 0 → (0 : Nat) ∉ a.take n →
    cstrlenAux a k = .ok (k + n)
  | [], n, k, h, _ => by simp at h
  | x :: xs, 0, k, h, _ => by
    have hx : x = 0 := by simpa using h
    unfold cstrlenAux; rw [if_pos hx]; rfl
  | x :: xs, n + 1, k, h, hn => by
    have h' : xs[n]? = some 0 := by simpa using h
    rw [List.take_succ_cons] at hn
    have hx : x ≠ 0 := fun e => hn (by rw [e]; exact List.mem_cons_self)
    have hn' : (0 : Nat) ∉ xs.take n := fun m => hn (List.mem_cons_of_mem _ m)
    unfold cstrlenAux
    rw [if_neg hx, w4_cstrlenAux_of_nul xs n (k + 1) h' hn']
    congr 1; omega

/-- a well-formed string whose text has no NUL is a C string of its length -/
theorem w4_wf_cstrlen {s : FStr} (hs : WF c s) (h0 : (0 : Byte) ∉ abs s) : cstrlen s.buf = .ok s.len := by
  unfold cstrlen
  rw [w4_cstrlenAux_of_nul s.buf s.len 0 hs.2.2 h0, Nat.zero_add]

/-- `c_str()` of a std::string without NUL characters -/
theorem w4_cstr_cstrlen {d : Str} (h0 : (0 : Byte) ∉ d) : cstrlen (d ++ [0]) = .ok d.length := by
  unfold cstrlen
  rw [w4_cstrlenAux_of_nul (d ++ [0]) d.length 0 (by simp) (by rw [List.take_left' rfl]; exact h0), Nat.zero_add]

theorem w4_ff_noNul {x pat : Str} (h : (!true || !hasNul x && !hasNul pat) = true) :
    (0 : Byte) ∉ x ∧ (0 : Byte) ∉ pat := by
  simp only [Bool.not_true, Bool.false_or, Bool.and_eq_true, Bool.not_eq_true'] at h
  exact ⟨w4_noNul_not_mem h.1, w4_noNul_not_mem h.2⟩

theorem c11_ffo_f (hw : WFW c cu w) (p : Option Nat) (hd : inDomain (npos c) w (.search .ffo (.f p)) = true) :
    C11Holds c cu w (.search .ffo (.f p)) := by
  intro w' o h
  simp only [step] at h
  obtain ⟨r, h1, rfl, rfl⟩ := obs_inv h
  simp only [searchStep] at h1
  simp only [inDomain, needleText, Bool.and_eq_true] at hd
  have ht := hw.2.1
  have hpos : 0 < w'.t.len := by have := abs_length ht; have := of_decide_eq_true hd.1.1; omega
  obtain ⟨hx, hpat⟩ := w4_ff_noNul hd.2
  rw [findFirstOfImpl_abs hw.1 (w4_wf_cstrlen ht hpat) _ hpos hx] at h1; cases h1
  exact c11_obs hw.1 (by simp only [spec, needleText, needlePos, abs, Bool.false_eq_true, if_false])

theorem c11_ffno_f (hw : WFW c cu w) (p : Option Nat) (hd : inDomain (npos c) w (.search .ffno (.f p)) = true) :
    C11Holds c cu w (.search .ffno (.f p)) := by
  intro w' o h
  simp only [step] at h
  obtain ⟨r, h1, rfl, rfl⟩ := obs_inv h
  simp only [searchStep] at h1
  simp only [inDomain, needleText, Bool.and_eq_true] at hd
  have ht := hw.2.1
  have hpos : 0 < w'.t.len := by have := abs_length ht; have := of_decide_eq_true hd.1.1; omega
  obtain ⟨hx, hpat⟩ := w4_ff_noNul hd.2
  rw [findFirstOfImpl_abs hw.1 (w4_wf_cstrlen ht hpat) _ hpos hx] at h1; cases h1
  exact c11_obs hw.1 (by simp only [spec, needleText, needlePos, abs, if_true])

theorem c11_ffo_s (hw : WFW c cu w) (d : Str) (p : Option Nat)
    (hd : inDomain (npos c) w (.search .ffo (.s d p)) = true) : C11Holds c cu w (.search .ffo (.s d p)) := by
  intro w' o h
  simp only [step] at h
  obtain ⟨r, h1, rfl, rfl⟩ := obs_inv h
  simp only [searchStep] at h1
  simp only [inDomain, needleText, Bool.and_eq_true] at hd
  have hpos : 0 < d.length := of_decide_eq_true hd.1.1
  obtain ⟨hx, hpat⟩ := w4_ff_noNul hd.2
  rw [findFirstOfImpl_abs hw.1 (w4_cstr_cstrlen hpat) _ hpos hx, List.take_left' rfl] at h1; cases h1
  exact c11_obs hw.1 (by simp only [spec, needleText, needlePos, Bool.false_eq_true, if_false])

theorem c11_ffno_s (hw : WFW c cu w) (d : Str) (p : Option Nat)
    (hd : inDomain (npos c) w (.search .ffno (.s d p)) = true) : C11Holds c cu w (.search .ffno (.s d p)) := by
  intro w' o h
  simp only [step] at h
  obtain ⟨r, h1, rfl, rfl⟩ := obs_inv h
  simp only [searchStep] at h1
  simp only [inDomain, needleText, Bool.and_eq_true] at hd
  have hpos : 0 < d.length := of_decide_eq_true hd.1.1
  obtain ⟨hx, hpat⟩ := w4_ff_noNul hd.2
  rw [findFirstOfImpl_abs hw.1 (w4_cstr_cstrlen hpat) _ hpos hx, List.take_left' rfl] at h1; cases h1
  exact c11_obs hw.1 (by simp only [spec, needleText, needlePos, if_true])

theorem c11_ffo_ppc (hw : WFW c cu w) (a : List Byte) (p n : Nat)
    (hd : inDomain (npos c) w (.search .ffo (.ppc a p n)) = true) : C11Holds c cu w (.search .ffo (.ppc a p n)) := by
  intro w' o h
  simp only [step] at h
  obtain ⟨r, h1, rfl, rfl⟩ := obs_inv h
  simp only [searchStep] at h1
  simp only [inDomain, needleText, Bool.and_eq_true] at hd
  have hn : n ≤ a.length := of_decide_eq_true hd.1.2
  have hpos : 0 < n := by have := of_decide_eq_true hd.1.1; rw [List.length_take] at this; omega
  rw [findFirstOfPN_abs hw.1 _ hn hpos] at h1; cases h1
  exact c11_obs hw.1 (by simp only [spec, needleText, needlePos, Bool.false_eq_true, if_false])

theorem c11_ffno_ppc (hw : WFW c cu w) (a : List Byte) (p n : Nat)
    (hd : inDomain (npos c) w (.search .ffno (.ppc a p n)) = true) : C11Holds c cu w (.search .ffno (.ppc a p n)) := by
  intro w' o h
  simp only [step] at h
  obtain ⟨r, h1, rfl, rfl⟩ := obs_inv h
  simp only [searchStep] at h1
  simp only [inDomain, needleText, Bool.and_eq_true] at hd
  have hn : n ≤ a.length := of_decide_eq_true hd.1.2
  have hpos : 0 < n := by have := of_decide_eq_true hd.1.1; rw [List.length_take] at this; omega
  rw [findFirstOfPN_abs hw.1 _ hn hpos] at h1; cases h1
  exact c11_obs hw.1 (by simp only [spec, needleText, needlePos, if_true])

theorem c11_ffo_pp (hw : WFW c cu w) (a : List Byte) (p : Option Nat)
    (hd : inDomain (npos c) w (.search .ffo (.pp a p)) = true) : C11Holds c cu w (.search .ffo (.pp a p)) := by
  intro w' o h
  simp only [step] at h
  obtain ⟨r, h1, rfl, rfl⟩ := obs_inv h
  simp only [searchStep] at h1
  simp only [inDomain, needleText, Bool.and_eq_true] at hd
  obtain ⟨n, hn, hlt, hof⟩ := cstrlen_of_mem (w4_hasNul_mem hd.1.2)
  have hpos : 0 < n := by have := of_decide_eq_true hd.1.1; rw [hof, List.length_take] at this; omega
  obtain ⟨hx, _⟩ := w4_ff_noNul hd.2
  rw [hn, bindR_ok, findFirstOfImpl_abs hw.1 hn _ hpos hx] at h1; cases h1
  exact c11_obs hw.1 (by simp only [spec, needleText, needlePos, hof, Bool.false_eq_true, if_false])

theorem c11_ffno_pp (hw : WFW c cu w) (a : List Byte) (p : Option Nat)
    (hd : inDomain (npos c) w (.search .ffno (.pp a p)) = true) : C11Holds c cu w (.search .ffno (.pp a p)) := by
  intro w' o h
  simp only [step] at h
  obtain ⟨r, h1, rfl, rfl⟩ := obs_inv h
  simp only [searchStep] at h1
  simp only [inDomain, needleText, Bool.and_eq_true] at hd
  obtain ⟨n, hn, hlt, hof⟩ := cstrlen_of_mem (w4_hasNul_mem hd.1.2)
  have hpos : 0 < n := by have := of_decide_eq_true hd.1.1; rw [hof, List.length_take] at this; omega
  obtain ⟨hx, _⟩ := w4_ff_noNul hd.2
  rw [hn, bindR_ok, findFirstOfImpl_abs hw.1 hn _ hpos hx] at h1; cases h1
  exact c11_obs hw.1 (by simp only [spec, needleText, needlePos, hof, if_true])

theorem c11_ffo_c (hw : WFW c cu w) (ch : Byte) (p : Option Nat) : C11Holds c cu w (.search .ffo (.c ch p)) := by
  intro w' o h
  simp only [step] at h
  obtain ⟨r, h1, rfl, rfl⟩ := obs_inv h
  simp only [searchStep] at h1
  rw [findFirstOfCh_abs hw.1] at h1; cases h1
  exact c11_obs hw.1 (by simp only [spec, needleText, needlePos, Bool.false_eq_true, if_false])

theorem c11_ffno_c (hw : WFW c cu w) (ch : Byte) (p : Option Nat) : C11Holds c cu w (.search .ffno (.c ch p)) := by
  intro w' o h
  simp only [step] at h
  obtain ⟨r, h1, rfl, rfl⟩ := obs_inv h
  simp only [searchStep] at h1
  rw [findFirstOfCh_abs hw.1] at h1; cases h1
  exact c11_obs hw.1 (by simp only [spec, needleText, needlePos, if_true])

/-! ### the backward searches -/

theorem w4_rpos_dom {p : Option Nat} {n big : Nat} (h : (p.getD big == big || decide (p.getD big < n)) = true) :
    p.getD big = big ∨ p.getD big < n := by
  rcases Bool.or_eq_true _ _ |>.mp h with h | h
  · exact Or.inl (beq_iff_eq.mp h)
  · exact Or.inr (of_decide_eq_true h)

theorem c11_rfind_f (hc : CfgOK c) (hw : WFW c cu w) (p : Option Nat)
    (hd : inDomain (npos c) w (.search .rfind (.f p)) = true) : C11Holds c cu w (.search .rfind (.f p)) := by
  intro w' o h
  simp only [step] at h
  obtain ⟨r, h1, rfl, rfl⟩ := obs_inv h
  simp only [searchStep] at h1
  simp only [inDomain, needleText, Bool.and_eq_true] at hd
  have ht := hw.2.1
  have hpos : 0 < w'.t.len := by have := abs_length ht; have := of_decide_eq_true hd.1.1; omega
  rw [rfindN_abs hc hw.1 _ (by have := ht.1; have := ht.2.1; omega) hpos] at h1; cases h1
  exact c11_obs hw.1 (by simp only [spec, needleText, needlePos, abs])

theorem c11_rfind_s (hc : CfgOK c) (hw : WFW c cu w) (d : Str) (p : Option Nat)
    (hd : inDomain (npos c) w (.search .rfind (.s d p)) = true) : C11Holds c cu w (.search .rfind (.s d p)) := by
  intro w' o h
  simp only [step] at h
  obtain ⟨r, h1, rfl, rfl⟩ := obs_inv h
  simp only [searchStep] at h1
  simp only [inDomain, needleText, Bool.and_eq_true] at hd
  have hpos : 0 < d.length := of_decide_eq_true hd.1.1
  rw [rfindN_abs hc hw.1 _ (by simp) hpos, List.take_left' rfl] at h1; cases h1
  exact c11_obs hw.1 (by simp only [spec, needleText, needlePos])

theorem c11_rfind_ppc (hc : CfgOK c) (hw : WFW c cu w) (a : List Byte) (p n : Nat)
    (hd : inDomain (npos c) w (.search .rfind (.ppc a p n)) = true) :
    C11Holds c cu w (.search .rfind (.ppc a p n)) := by
  intro w' o h
  simp only [step] at h
  obtain ⟨r, h1, rfl, rfl⟩ := obs_inv h
  simp only [searchStep] at h1
  simp only [inDomain, needleText, Bool.and_eq_true] at hd
  obtain ⟨k, hk, hlt, hof⟩ := cstrlen_of_mem (w4_hasNul_mem hd.2.1)
  have hn : n ≤ a.length := of_decide_eq_true hd.1.2
  have hpos : 0 < n := by have := of_decide_eq_true hd.1.1; rw [List.length_take] at this; omega
  have hle : n ≤ k := by have := of_decide_eq_true hd.2.2; rw [hof, List.length_take] at this; omega
  rw [rfindPN_abs hc hw.1 hk hlt _ hpos hle] at h1; cases h1
  exact c11_obs hw.1 (by simp only [spec, needleText, needlePos])

theorem c11_rfind_pp (hc : CfgOK c) (hw : WFW c cu w) (a : List Byte) (p : Option Nat)
    (hd : inDomain (npos c) w (.search .rfind (.pp a p)) = true) : C11Holds c cu w (.search .rfind (.pp a p)) := by
  intro w' o h
  simp only [step] at h
  obtain ⟨r, h1, rfl, rfl⟩ := obs_inv h
  simp only [searchStep] at h1
  simp only [inDomain, needleText, Bool.and_eq_true] at hd
  obtain ⟨k, hk, hlt, hof⟩ := cstrlen_of_mem (w4_hasNul_mem hd.1.2)
  have hpos : 0 < k := by have := of_decide_eq_true hd.1.1; rw [hof, List.length_take] at this; omega
  rw [rfindP_abs hc hw.1 hk hlt _ hpos] at h1; cases h1
  exact c11_obs hw.1 (by simp only [spec, needleText, needlePos])

theorem c11_rfind_c (hc : CfgOK c) (hw : WFW c cu w) (ch : Byte) (p : Option Nat)
    (hd : inDomain (npos c) w (.search .rfind (.c ch p)) = true) : C11Holds c cu w (.search .rfind (.c ch p)) := by
  intro w' o h
  simp only [step] at h
  obtain ⟨r, h1, rfl, rfl⟩ := obs_inv h
  simp only [searchStep] at h1
  simp only [inDomain, needleText, Bool.and_eq_true] at hd
  have hp := w4_rpos_dom (big := npos c) hd.2
  rw [abs_length hw.1] at hp
  rw [rfindCh_abs hc hw.1 ch hp] at h1; cases h1
  exact c11_obs hw.1 (by simp only [spec, needleText, needlePos])


theorem w4_lpos_dom {p : Option Nat} {n big : Nat}
    (h : (p.getD big == big || decide (p.getD big < n)) = true) : p.getD big = big ∨ p.getD big < n :=
  w4_rpos_dom h

theorem c11_flo_f (hc : CfgOK c) (hw : WFW c cu w) (p : Option Nat)
    (hd : inDomain (npos c) w (.search .flo (.f p)) = true) : C11Holds c cu w (.search .flo (.f p)) := by
  intro w' o h
  simp only [step] at h
  obtain ⟨r, h1, rfl, rfl⟩ := obs_inv h
  simp only [searchStep] at h1
  simp only [inDomain, needleText, Bool.and_eq_true] at hd
  have ht := hw.2.1
  have hpos : 0 < w'.t.len := by have := abs_length ht; have := of_decide_eq_true hd.1.1; omega
  obtain ⟨hx, hpat⟩ := w4_ff_noNul hd.2.1
  have hp := w4_lpos_dom (big := npos c) hd.2.2
  rw [abs_length hw.1] at hp
  rw [findLastOfImpl_abs hc hw.1 (w4_wf_cstrlen ht hpat) hpos hx hp] at h1; cases h1
  exact c11_obs hw.1 (by simp only [spec, needleText, needlePos, abs, Bool.false_eq_true, if_false])

theorem c11_flo_s (hc : CfgOK c) (hw : WFW c cu w) (d : Str) (p : Option Nat)
    (hd : inDomain (npos c) w (.search .flo (.s d p)) = true) : C11Holds c cu w (.search .flo (.s d p)) := by
  intro w' o h
  simp only [step] at h
  obtain ⟨r, h1, rfl, rfl⟩ := obs_inv h
  simp only [searchStep] at h1
  simp only [inDomain, needleText, Bool.and_eq_true] at hd
  have hpos : 0 < d.length := of_decide_eq_true hd.1.1
  obtain ⟨hx, hpat⟩ := w4_ff_noNul hd.2.1
  have hp := w4_lpos_dom (big := npos c) hd.2.2
  rw [abs_length hw.1] at hp
  rw [findLastOfImpl_abs hc hw.1 (w4_cstr_cstrlen hpat) hpos hx hp, List.take_left' rfl] at h1; cases h1
  exact c11_obs hw.1 (by simp only [spec, needleText, needlePos, Bool.false_eq_true, if_false])

theorem c11_flo_ppc (hw : WFW c cu w) (a : List Byte) (p n : Nat)
    (hd : inDomain (npos c) w (.search .flo (.ppc a p n)) = true) :
    C11Holds c cu w (.search .flo (.ppc a p n)) := by
  intro w' o h
  simp only [step] at h
  obtain ⟨r, h1, rfl, rfl⟩ := obs_inv h
  simp only [searchStep] at h1
  simp only [inDomain, needleText, Bool.and_eq_true] at hd
  have hn : n ≤ a.length := of_decide_eq_true hd.1.2
  have hpos : 0 < n := by have := of_decide_eq_true hd.1.1; rw [List.length_take] at this; omega
  have hp : p < w'.s.len := by have := of_decide_eq_true hd.2.2; rw [abs_length hw.1] at this; exact this
  rw [findLastOfPN_abs hw.1 hn hpos hp] at h1; cases h1
  exact c11_obs hw.1 (by simp only [spec, needleText, needlePos, Bool.false_eq_true, if_false])

theorem c11_flo_pp (hc : CfgOK c) (hw : WFW c cu w) (a : List Byte) (p : Option Nat)
    (hd : inDomain (npos c) w (.search .flo (.pp a p)) = true) : C11Holds c cu w (.search .flo (.pp a p)) := by
  intro w' o h
  simp only [step] at h
  obtain ⟨r, h1, rfl, rfl⟩ := obs_inv h
  simp only [searchStep] at h1
  simp only [inDomain, needleText, Bool.and_eq_true] at hd
  obtain ⟨k, hk, hlt, hof⟩ := cstrlen_of_mem (w4_hasNul_mem hd.1.2)
  have hpos : 0 < k := by have := of_decide_eq_true hd.1.1; rw [hof, List.length_take] at this; omega
  obtain ⟨hx, _⟩ := w4_ff_noNul hd.2.1
  have hp := w4_lpos_dom (big := npos c) hd.2.2
  rw [abs_length hw.1] at hp
  rw [hk, bindR_ok, findLastOfImpl_abs hc hw.1 hk hpos hx hp] at h1; cases h1
  exact c11_obs hw.1 (by simp only [spec, needleText, needlePos, hof, Bool.false_eq_true, if_false])

theorem c11_flo_c (hc : CfgOK c) (hw : WFW c cu w) (ch : Byte) (p : Option Nat)
    (hd : inDomain (npos c) w (.search .flo (.c ch p)) = true) : C11Holds c cu w (.search .flo (.c ch p)) := by
  intro w' o h
  simp only [step] at h
  obtain ⟨r, h1, rfl, rfl⟩ := obs_inv h
  simp only [searchStep] at h1
  simp only [inDomain, needleText, Bool.and_eq_true] at hd
  have hp := w4_lpos_dom (big := npos c) hd.2.2
  rw [abs_length hw.1] at hp
  have hbig : w'.s.len ≤ npos c := by have := hc.hW; have := hw.1.2.1; unfold npos; omega
  rw [findLastOfCh_abs hw.1 ch _ _ hp hbig] at h1; cases h1
  exact c11_obs hw.1 (by simp only [spec, needleText, needlePos, Bool.false_eq_true, if_false])

theorem c11_flno_f (hc : CfgOK c) (hw : WFW c cu w) (p : Option Nat)
    (hd : inDomain (npos c) w (.search .flno (.f p)) = true) : C11Holds c cu w (.search .flno (.f p)) := by
  intro w' o h
  simp only [step] at h
  obtain ⟨r, h1, rfl, rfl⟩ := obs_inv h
  simp only [searchStep] at h1
  simp only [inDomain, needleText, Bool.and_eq_true] at hd
  have ht := hw.2.1
  have hpos : 0 < w'.t.len := by have := abs_length ht; have := of_decide_eq_true hd.1.1; omega
  obtain ⟨hx, hpat⟩ := w4_ff_noNul hd.2.1
  have hp := w4_lpos_dom (big := npos c) hd.2.2
  rw [abs_length hw.1] at hp
  rw [findLastOfImpl_abs hc hw.1 (w4_wf_cstrlen ht hpat) hpos hx hp] at h1; cases h1
  exact c11_obs hw.1 (by simp only [spec, needleText, needlePos, abs, if_true])

theorem c11_flno_s (hc : CfgOK c) (hw : WFW c cu w) (d : Str) (p : Option Nat)
    (hd : inDomain (npos c) w (.search .flno (.s d p)) = true) : C11Holds c cu w (.search .flno (.s d p)) := by
  intro w' o h
  simp only [step] at h
  obtain ⟨r, h1, rfl, rfl⟩ := obs_inv h
  simp only [searchStep] at h1
  simp only [inDomain, needleText, Bool.and_eq_true] at hd
  have hpos : 0 < d.length := of_decide_eq_true hd.1.1
  obtain ⟨hx, hpat⟩ := w4_ff_noNul hd.2.1
  have hp := w4_lpos_dom (big := npos c) hd.2.2
  rw [abs_length hw.1] at hp
  rw [findLastOfImpl_abs hc hw.1 (w4_cstr_cstrlen hpat) hpos hx hp, List.take_left' rfl] at h1; cases h1
  exact c11_obs hw.1 (by simp only [spec, needleText, needlePos, if_true])

theorem c11_flno_ppc (hw : WFW c cu w) (a : List Byte) (p n : Nat)
    (hd : inDomain (npos c) w (.search .flno (.ppc a p n)) = true) :
    C11Holds c cu w (.search .flno (.ppc a p n)) := by
  intro w' o h
  simp only [step] at h
  obtain ⟨r, h1, rfl, rfl⟩ := obs_inv h
  simp only [searchStep] at h1
  simp only [inDomain, needleText, Bool.and_eq_true] at hd
  have hn : n ≤ a.length := of_decide_eq_true hd.1.2
  have hpos : 0 < n := by have := of_decide_eq_true hd.1.1; rw [List.length_take] at this; omega
  have hp : p < w'.s.len := by have := of_decide_eq_true hd.2.2; rw [abs_length hw.1] at this; exact this
  rw [findLastOfPN_abs hw.1 hn hpos hp] at h1; cases h1
  exact c11_obs hw.1 (by simp only [spec, needleText, needlePos, if_true])

theorem c11_flno_pp (hc : CfgOK c) (hw : WFW c cu w) (a : List Byte) (p : Option Nat)
    (hd : inDomain (npos c) w (.search .flno (.pp a p)) = true) : C11Holds c cu w (.search .flno (.pp a p)) := by
  intro w' o h
  simp only [step] at h
  obtain ⟨r, h1, rfl, rfl⟩ := obs_inv h
  simp only [searchStep] at h1
  simp only [inDomain, needleText, Bool.and_eq_true] at hd
  obtain ⟨k, hk, hlt, hof⟩ := cstrlen_of_mem (w4_hasNul_mem hd.1.2)
  have hpos : 0 < k := by have := of_decide_eq_true hd.1.1; rw [hof, List.length_take] at this; omega
  obtain ⟨hx, _⟩ := w4_ff_noNul hd.2.1
  have hp := w4_lpos_dom (big := npos c) hd.2.2
  rw [abs_length hw.1] at hp
  rw [hk, bindR_ok, findLastOfImpl_abs hc hw.1 hk hpos hx hp] at h1; cases h1
  exact c11_obs hw.1 (by simp only [spec, needleText, needlePos, hof, if_true])

theorem c11_flno_c (hc : CfgOK c) (hw : WFW c cu w) (ch : Byte) (p : Option Nat)
    (hd : inDomain (npos c) w (.search .flno (.c ch p)) = true) : C11Holds c cu w (.search .flno (.c ch p)) := by
  intro w' o h
  simp only [step] at h
  obtain ⟨r, h1, rfl, rfl⟩ := obs_inv h
  simp only [searchStep] at h1
  simp only [inDomain, needleText, Bool.and_eq_true] at hd
  have hp := w4_lpos_dom (big := npos c) hd.2.2
  rw [abs_length hw.1] at hp
  have hbig : w'.s.len ≤ npos c := by have := hc.hW; have := hw.1.2.1; unfold npos; omega
  rw [findLastOfCh_abs hw.1 ch _ _ hp hbig] at h1; cases h1
  exact c11_obs hw.1 (by simp only [spec, needleText, needlePos, if_true])

end CelmaVerif.FixedString
