import CelmaVerif.Lemmas.LogInv
/-
  Helper lemmas for C14, part 4: the pre-check on the log table, single steps of a history,
  whole histories.
-/
namespace CelmaVerif.Log
open CelmaVerif CelmaVerif.Generated.LogDefs

/-! ### the pre-check -/

theorem World.deliver_eq_self (w : World) (ids : Nat) (m : Msg)
    (h : ∀ e ∈ w.logs, ids &&& e.id ≠ 0 → e.log.filters.accepts m = false) : w.deliver ids m = w := by
  unfold World.deliver
  rw [map_deliver_none ids m w.logs h]

/-- `discard_by_level( ids, level)` on a reachable state: never undefined behaviour, never the
    `invalid_argument` of the dispatch; `true` only when no destination would get the message -/
theorem World.discardById_spec (w : World) (ids : Nat) (m : Msg) (hw : w.Inv) :
    (w.discardById ids m.level = .ok (.threw .runtime_error)) ∨
    (∃ b, w.discardById ids m.level = .ok (.val b) ∧ (b = true → w.deliver ids m = w)) := by
  unfold World.discardById World.getLogById
  cases hg : getLogByIdGo ids w.logs with
  | error x =>
    -- the only exception of getLog is the runtime error
    have : x = .runtime_error := by
      clear hw
      generalize w.logs = ls at hg
      induction ls with
      | nil => simp [getLogByIdGo] at hg
      | cons a as ih =>
        unfold getLogByIdGo at hg
        split at hg
        · split at hg
          · cases hg; rfl
          · cases hg
        · exact ih hg
    subst this
    exact .inl rfl
  | ok o =>
    cases o with
    | none =>
      refine .inr ⟨true, rfl, fun _ => ?_⟩
      apply World.deliver_eq_self
      intro e he hsel
      exact absurd (getLogByIdGo_none ids w.logs hg e he) hsel
    | some e =>
      obtain ⟨hmem, hall⟩ := getLogByIdGo_some ids w.logs e hw.disjoint hg
      obtain ⟨b, hb, hs⟩ := Filters.processLevel_sound e.log.filters m (hw.logs e hmem).own
      simp only [hb]
      refine .inr ⟨!b, rfl, fun hnb => ?_⟩
      have hbf : b = false := by cases b <;> simp_all
      apply World.deliver_eq_self
      intro x hx hsel
      rw [hall x hx hsel]
      exact hs hbf

theorem World.discardByName_spec (w : World) (name : String) (m : Msg) (hw : w.Inv) :
    ∃ b, w.discardByName name m.level = .ok (.val b) ∧ (b = true → w.deliverName name m = w) := by
  unfold World.discardByName World.getLogByName
  cases hf : w.logs.find? (fun e => name == e.name) with
  | none =>
    refine ⟨true, rfl, fun _ => ?_⟩
    have hnone : ∀ e ∈ w.logs, (name == e.name) = false := by
      intro e he
      have := List.find?_eq_none.mp hf e he
      simpa using this
    unfold World.deliverName World.updLog
    have : updFirst (fun e => name == e.name) (fun e => e.deliver true m) w.logs = w.logs := by
      clear hf hw
      generalize w.logs = ls at hnone
      induction ls with
      | nil => rfl
      | cons a as ih =>
        unfold updFirst
        rw [if_neg (by simp [hnone a (by simp)])]
        rw [ih (fun e he => hnone e (by simp [he]))]
    rw [this]
  | some e =>
    have hmem : e ∈ w.logs := List.mem_of_find?_eq_some hf
    obtain ⟨b, hb, hs⟩ := Filters.processLevel_sound e.log.filters m (hw.logs e hmem).own
    simp only [hb]
    refine ⟨!b, rfl, fun hnb => ?_⟩
    have hbf : b = false := by cases b <;> simp_all
    have hacc := hs hbf
    unfold World.deliverName World.updLog
    -- the first log with that name is `e`, and `e` does not accept the message
    have : updFirst (fun e => name == e.name) (fun e => e.deliver true m) w.logs = w.logs := by
      clear hmem hw hb hs
      generalize w.logs = ls at hf
      induction ls with
      | nil => rfl
      | cons a as ih =>
        unfold updFirst
        rw [List.find?_cons] at hf
        by_cases hp : (name == a.name) = true
        · rw [if_pos hp]
          simp only [hp] at hf
          cases hf
          simp [LogEntry.deliver, hacc]
        · rw [if_neg hp]
          have hp' : (name == a.name) = false := by simpa using hp
          simp only [hp'] at hf
          rw [ih hf]
    rw [this]

/-! ### one step -/

/-- the policy an operation leaves behind -/
def Op.policyAfter (op : Op) (p : DuplicatePolicy) : DuplicatePolicy :=
  match op with
  | .policy q => q
  | _ => p

theorem World.step_inv (w : World) (op : Op) (hw : w.Inv) (hop : op.Valid) :
    ∃ w', w.step op = .ok w' ∧ w'.Inv ∧ w'.policy = op.policyAfter w.policy := by
  cases op with
  | newLog n =>
    refine ⟨_, rfl, World.findCreateLog_inv w n hw, ?_⟩
    unfold World.findCreateLog
    split
    · rfl
    · split
      · rfl
      · rw [World.newFilters_eq]; rfl
  | addDest l d =>
    simp only [World.step]
    cases h : w.addDest l d with
    | none => exact ⟨w, rfl, hw, rfl⟩
    | some w' =>
      refine ⟨w', rfl, World.addDest_inv w w' l d hw h, ?_⟩
      unfold World.addDest at h
      split at h
      · cases h
      · rw [World.newFilters_eq] at h; cases h; rfl
  | removeDest l d =>
    simp only [World.step]
    cases h : w.removeDest l d with
    | none => exact ⟨w, rfl, hw, rfl⟩
    | some w' =>
      refine ⟨w', rfl, World.removeDest_inv w w' l d hw h, ?_⟩
      unfold World.removeDest at h
      split at h
      · cases h
      · cases h; rfl
  | filter t s =>
    obtain ⟨w', r, h1, h2, h3⟩ := World.setFilter_inv w t s hw
    exact ⟨w', by simp only [World.step, h1], h2, h3⟩
  | policy p =>
    exact ⟨w.setPolicy p, rfl, ⟨hw.ids, hw.logs⟩, rfl⟩
  | send ids m =>
    exact ⟨w.deliver ids m, World.logIds_eq w ids m hw hop, World.deliver_inv w ids m hw, rfl⟩
  | sendName n m =>
    exact ⟨w.deliverName n m, World.logName_eq w n m hw hop, World.deliverName_inv w n m hw, rfl⟩
  | macroSend ids m =>
    simp only [World.step, World.macroSend]
    cases World.discardById_spec w ids m hw with
    | inl h => rw [h]; exact ⟨w, rfl, hw, rfl⟩
    | inr h =>
      obtain ⟨b, hb, _⟩ := h
      rw [hb]
      cases b with
      | true => exact ⟨w, rfl, hw, rfl⟩
      | false =>
        simp only
        by_cases h0 : ids = 0
        · rw [if_pos h0]; exact ⟨w, rfl, hw, rfl⟩
        · rw [if_neg h0, World.logIds_eq w ids m hw hop]
          exact ⟨w.deliver ids m, rfl, World.deliver_inv w ids m hw, rfl⟩

/-! ### histories -/

theorem World.run_inv (ops : List Op) (w : World) (hw : w.Inv) (hops : ∀ op ∈ ops, op.Valid) :
    ∃ w', w.run ops = .ok w' ∧ w'.Inv ∧ w'.policy = lastPolicy ops w.policy := by
  induction ops generalizing w with
  | nil => exact ⟨w, rfl, hw, rfl⟩
  | cons op ops ih =>
    obtain ⟨w1, h1, h2, h3⟩ := World.step_inv w op hw (hops op (by simp))
    obtain ⟨w2, g1, g2, g3⟩ := ih w1 h2 (fun o ho => hops o (by simp [ho]))
    refine ⟨w2, by simp only [World.run, h1, g1], g2, ?_⟩
    rw [g3, h3]
    cases op <;> rfl

/-! ### a concrete reachable state for the non-vacuity examples of Props/C14.lean -/

def exampleDestX : Dest := { name := "x", filters := ⟨[.level 3], some 0⟩ }
def exampleDestY : Dest := { name := "y", filters := ⟨[.minLevel 4], some 0⟩ }
def exampleLogA : LogEntry :=
  { id := 1, name := "a", log := { filters := ⟨[.maxLevel 4], some 0⟩, dests := [exampleDestX, exampleDestY] } }
def exampleLogB : LogEntry := { id := 2, name := "b", log := { dests := [{ name := "z" }] } }
def exampleWorld : World := { nextId := 4, logs := [exampleLogA, exampleLogB] }

theorem exampleWorld_inv : exampleWorld.Inv := by
  have hF : ∀ f : Filter, f.isLevelFilter = true → (⟨[f], some 0⟩ : Filters).Inv := by
    intro f hf
    refine ⟨?_, ?_⟩
    · intro g hg
      simp only [List.mem_singleton] at hg
      subst hg
      cases g <;> simp [Filter.isLevelFilter] at hf <;> simp [Filter.WF]
    · intro i hi
      cases hi
      exact ⟨f, rfl, hf⟩
  refine ⟨⟨2, rfl, rfl⟩, ?_⟩
  intro e he
  simp only [exampleWorld, List.mem_cons, List.not_mem_nil, or_false] at he
  cases he with
  | inl h =>
    subst h
    refine ⟨hF _ rfl, ?_⟩
    intro d hd
    simp only [exampleLogA, List.mem_cons, List.not_mem_nil, or_false] at hd
    cases hd with
    | inl h => subst h; exact hF _ rfl
    | inr h => subst h; exact hF _ rfl
  | inr h =>
    subst h
    refine ⟨Filters.inv_empty, ?_⟩
    intro d hd
    simp only [exampleLogB, List.mem_singleton] at hd
    subst hd
    exact Filters.inv_empty

end CelmaVerif.Log
