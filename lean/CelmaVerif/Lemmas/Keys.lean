import CelmaVerif.Model.Keys
/-
  Lemmas about key comparison, the table and the two lookup loops.
-/
namespace CelmaVerif.Keys
open CelmaVerif

/-! ### key comparison -/

/-- `entry == key || entry.mismatch( key)` is exactly "designates the same argument" -/
theorem eq_or_mismatch_iff (e k : Key) : (e.eq k || e.mismatch k) = true ↔ e.Clash k := by
  obtain ⟨es, el⟩ := e
  obtain ⟨ks, kl⟩ := k
  unfold Key.eq Key.mismatch Key.Clash Key.shareShort Key.shareLong Key.pos
  cases es <;> cases ks <;> by_cases h1 : el = [] <;> by_cases h2 : kl = [] <;> simp [h1, h2]
  rename_i x y
  by_cases hxy : x = y
  · simp [hxy]
  · have e1 : (x == y) = false := by simp [hxy]
    by_cases hl : el = kl
    · simp [hxy, hl, e1]
    · have e2 : (el == kl) = false := by simp [hl]
      simp [hxy, hl, e1, e2]

theorem single_mismatch (e k : Key) (hk : k.Single) : e.mismatch k = false := by
  unfold Key.mismatch
  rcases hk with h | h <;> simp [h]

theorem eq_iff_clash_of_single (e k : Key) (hk : k.Single) : e.eq k = true ↔ e.Clash k := by
  rw [← eq_or_mismatch_iff, single_mismatch e k hk]; simp

theorem clash_symm {a b : Key} (h : a.Clash b) : b.Clash a := by
  unfold Key.Clash Key.shareShort Key.shareLong at *
  rcases h with ⟨h1, h2⟩ | ⟨h1, h2⟩ | ⟨h1, h2⟩
  · exact Or.inl ⟨by rw [← h2]; exact h1, h2.symm⟩
  · exact Or.inr (Or.inl ⟨by rw [← h2]; exact h1, h2.symm⟩)
  · exact Or.inr (Or.inr ⟨h2, h1⟩)

theorem clash_refl (a : Key) : a.Clash a := by
  obtain ⟨s, l⟩ := a
  unfold Key.Clash Key.shareShort Key.shareLong Key.pos
  cases s <;> cases l <;> simp

/-- two keys that both designate the same *single* lookup key designate each other -/
theorem clash_trans_single {a b k : Key} (hk : k.Single) (h1 : a.Clash k) (h2 : b.Clash k) : a.Clash b := by
  obtain ⟨as, al⟩ := a
  obtain ⟨bs, bl⟩ := b
  obtain ⟨ks, kl⟩ := k
  unfold Key.Clash Key.shareShort Key.shareLong Key.pos Key.Single at *
  simp only [Key.mk.injEq] at *
  rcases hk with rfl | rfl
  · -- the lookup key has no short part
    rcases h1 with ⟨h, e⟩ | ⟨h, e⟩ | ⟨⟨e1, e2⟩, e3, e4⟩
    · rw [e] at h; simp at h
    · rcases h2 with ⟨h', e'⟩ | ⟨h', e'⟩ | ⟨⟨f1, f2⟩, f3, f4⟩
      · rw [e'] at h'; simp at h'
      · exact Or.inr (Or.inl ⟨h, by rw [e, e']⟩)
      · rw [e, f4] at h; exact absurd rfl h
    · rcases h2 with ⟨h', e'⟩ | ⟨h', e'⟩ | ⟨⟨f1, f2⟩, f3, f4⟩
      · rw [e'] at h'; simp at h'
      · rw [e', e4] at h'; exact absurd rfl h'
      · exact Or.inr (Or.inr ⟨⟨e1, e2⟩, f1, f2⟩)
  · -- the lookup key has no long part
    rcases h1 with ⟨h, e⟩ | ⟨h, e⟩ | ⟨⟨e1, e2⟩, e3, e4⟩
    · rcases h2 with ⟨h', e'⟩ | ⟨h', e'⟩ | ⟨⟨f1, f2⟩, f3, f4⟩
      · exact Or.inl ⟨h, by rw [e, e']⟩
      · rw [e'] at h'; exact absurd rfl h'
      · rw [e, f3] at h; simp at h
    · rw [e] at h; exact absurd rfl h
    · rcases h2 with ⟨h', e'⟩ | ⟨h', e'⟩ | ⟨⟨f1, f2⟩, f3, f4⟩
      · rw [e', e3] at h'; simp at h'
      · rw [e'] at h'; exact absurd rfl h'
      · exact Or.inr (Or.inr ⟨⟨e1, e2⟩, f1, f2⟩)

/-- `startsWith` is "both long keys present and the second is a prefix of the first" -/
theorem startsWith_iff (a b : Key) :
    a.startsWith b = true ↔ a.long ≠ [] ∧ b.long ≠ [] ∧ b.long <+: a.long := by
  unfold Key.startsWith
  simp only [Bool.and_eq_true, Bool.not_eq_true', List.isEmpty_eq_false_iff, beq_iff_eq, ne_eq]
  constructor
  · rintro ⟨⟨h1, h2⟩, h3⟩
    exact ⟨h1, h2, by rw [← h3]; exact List.take_prefix _ _⟩
  · rintro ⟨h1, h2, h3⟩
    exact ⟨⟨h1, h2⟩, List.prefix_iff_eq_take.mp h3 |>.symm⟩

/-! ### the table -/

theorem disjoint_mem_eq {α : Type} {t : List (Key × α)} (ht : Disjoint t) {e1 e2 : Key × α}
    (h1 : e1 ∈ t) (h2 : e2 ∈ t) (hc : e1.1.Clash e2.1) : e1 = e2 := by
  unfold Disjoint at ht
  induction t with
  | nil => cases h1
  | cons x t ih =>
    rw [List.pairwise_cons] at ht
    rcases List.mem_cons.mp h1 with rfl | h1' <;> rcases List.mem_cons.mp h2 with rfl | h2'
    · rfl
    · exact absurd hc (ht.1 _ h2')
    · exact absurd (clash_symm hc) (ht.1 _ h1')
    · exact ih ht.2 h1' h2'

theorem addArgument_throw_iff {α : Type} (t : List (Key × α)) (k : Key) (a : α) :
    addArgument t k a = .throw .invalid_argument ↔ ∃ e ∈ t, e.1.Clash k := by
  unfold addArgument
  constructor
  · intro h
    split at h
    · rename_i hany
      obtain ⟨e, he, hc⟩ := List.any_eq_true.mp hany
      exact ⟨e, he, (eq_or_mismatch_iff _ _).mp hc⟩
    · cases h
  · rintro ⟨e, he, hc⟩
    rw [if_pos]
    exact List.any_eq_true.mpr ⟨e, he, (eq_or_mismatch_iff _ _).mpr hc⟩

theorem addArgument_ok_iff {α : Type} (t : List (Key × α)) (k : Key) (a : α) :
    addArgument t k a = .ok (t ++ [(k, a)]) ↔ ¬ ∃ e ∈ t, e.1.Clash k := by
  rw [← addArgument_throw_iff t k a]
  unfold addArgument
  split <;> simp

/-- the only outcomes of `addArgument` -/
theorem addArgument_cases {α : Type} (t : List (Key × α)) (k : Key) (a : α) :
    addArgument t k a = .throw .invalid_argument ∨ addArgument t k a = .ok (t ++ [(k, a)]) := by
  unfold addArgument
  split
  · exact Or.inl rfl
  · exact Or.inr rfl

theorem addArgument_disjoint {α : Type} {t t' : List (Key × α)} {k : Key} {a : α} (ht : Disjoint t)
    (h : addArgument t k a = .ok t') : Disjoint t' := by
  rcases addArgument_cases t k a with h' | h'
  · rw [h'] at h; cases h
  · have hno := (addArgument_ok_iff t k a).mp h'
    rw [h'] at h; cases h
    unfold Disjoint at *
    rw [List.pairwise_append]
    refine ⟨ht, List.pairwise_singleton _ _, ?_⟩
    intro e he b hb
    simp only [List.mem_singleton] at hb
    subst hb
    exact fun hc => hno ⟨e, he, hc⟩

theorem addAll_disjoint {α : Type} (specs : List (List Char × α)) :
    ∀ t : List (Key × α), Disjoint t → Disjoint (addAll t specs) := by
  induction specs with
  | nil => intro t ht; exact ht
  | cons sa rest ih =>
    intro t ht
    unfold addAll
    rw [List.foldl_cons]
    apply ih
    cases hr : addArgumentSpec t sa.1 sa.2 with
    | ok t' =>
      simp only
      unfold addArgumentSpec at hr
      cases hp : Key.parse sa.1 with
      | ok k => rw [hp] at hr; exact addArgument_disjoint ht hr
      | throw e => rw [hp] at hr; cases hr
      | oob w => rw [hp] at hr; cases hr
    | throw e => exact ht
    | oob w => exact ht

/-! ### first loop -/

theorem findExact_none_iff {α : Type} (k : Key) (t : List (Key × α)) (i : Nat) :
    findExact k t i = none ↔ ∀ e ∈ t, e.1.eq k = false := by
  induction t generalizing i with
  | nil => simp [findExact]
  | cons x t ih =>
    obtain ⟨ek, a⟩ := x
    unfold findExact
    by_cases h : ek.eq k = true
    · simp [h]
    · simp only [h, Bool.false_eq_true, if_false, List.mem_cons, forall_eq_or_imp]
      rw [ih]
      simp

theorem findExact_some {α : Type} (k : Key) (t : List (Key × α)) (i j : Nat) (a : α)
    (h : findExact k t i = some (j, a)) :
    ∃ key, i ≤ j ∧ t[j - i]? = some (key, a) ∧ key.eq k = true := by
  induction t generalizing i with
  | nil => simp [findExact] at h
  | cons x t ih =>
    obtain ⟨ek, b⟩ := x
    unfold findExact at h
    by_cases he : ek.eq k = true
    · rw [if_pos he] at h
      cases h
      exact ⟨ek, Nat.le_refl _, by simp, he⟩
    · rw [if_neg he] at h
      obtain ⟨key, h1, h2, h3⟩ := ih (i + 1) h
      refine ⟨key, by omega, ?_, h3⟩
      have : j - i = (j - (i + 1)) + 1 := by omega
      rw [this]; simpa using h2

/-! ### second loop -/

/-- the second loop in terms of the list of entries whose long key starts with the key -/
theorem findAbbr_payload {α : Type} (k : Key) (t : List (Key × α)) :
    ∀ (i : Nat) (part : Option (Nat × α)),
      payload (findAbbr k t i part) =
        match part, (t.filter (fun e => e.1.startsWith k)) with
        | none, [] => .ok none
        | none, [e] => .ok (some e.2)
        | none, _ :: _ :: _ => .throw .runtime_error
        | some p, [] => .ok (some p.2)
        | some _, _ :: _ => .throw .runtime_error := by
  induction t with
  | nil => intro i part; cases part <;> simp [findAbbr, payload]
  | cons x t ih =>
    intro i part
    obtain ⟨ek, a⟩ := x
    unfold findAbbr
    by_cases h : ek.startsWith k = true
    · rw [if_pos h, List.filter_cons_of_pos (by simpa using h)]
      cases part with
      | none =>
        simp only
        rw [ih]
        cases t.filter (fun e => e.1.startsWith k) with
        | nil => rfl
        | cons _ _ => rfl
      | some p => simp [payload]
    · rw [if_neg h, List.filter_cons_of_neg (by simpa using h)]
      exact ih (i + 1) part

/-- index soundness of the second loop -/
theorem findAbbr_index {α : Type} (k : Key) (t : List (Key × α)) :
    ∀ (i : Nat) (part : Option (Nat × α)) (j : Nat) (a : α),
      findAbbr k t i part = .ok (some (j, a)) →
      part = some (j, a) ∨ ∃ key, i ≤ j ∧ t[j - i]? = some (key, a) ∧ key.startsWith k = true := by
  induction t with
  | nil => intro i part j a h; simp [findAbbr] at h; exact Or.inl h
  | cons x t ih =>
    intro i part j a h
    obtain ⟨ek, b⟩ := x
    unfold findAbbr at h
    by_cases hs : ek.startsWith k = true
    · rw [if_pos hs] at h
      cases part with
      | none =>
        simp only at h
        rcases ih (i + 1) _ j a h with h' | ⟨key, h1, h2, h3⟩
        · cases h'
          exact Or.inr ⟨ek, Nat.le_refl _, by simp, hs⟩
        · refine Or.inr ⟨key, by omega, ?_, h3⟩
          have : j - i = (j - (i + 1)) + 1 := by omega
          rw [this]; simpa using h2
      | some p => simp at h
    · rw [if_neg hs] at h
      rcases ih (i + 1) part j a h with h' | ⟨key, h1, h2, h3⟩
      · exact Or.inl h'
      · refine Or.inr ⟨key, by omega, ?_, h3⟩
        have : j - i = (j - (i + 1)) + 1 := by omega
        rw [this]; simpa using h2

/-! ### the lookup -/

/-- exact key of an entry of a disjoint table: the lookup returns that entry's payload -/
theorem findArg_exact {α : Type} (abbr : Bool) (t : List (Key × α)) (ht : Disjoint t) (e : Key × α)
    (he : e ∈ t) (k : Key) (hk : k.Single) (hc : e.1.Clash k) :
    payload (findArg abbr t k) = .ok (some e.2) := by
  unfold findArg
  cases hf : findExact k t 0 with
  | none =>
    have := (findExact_none_iff k t 0).mp hf e he
    rw [(eq_iff_clash_of_single e.1 k hk).mpr hc] at this
    cases this
  | some r =>
    obtain ⟨j, a⟩ := r
    obtain ⟨key, _, h2, h3⟩ := findExact_some k t 0 j a hf
    have hmem : (key, a) ∈ t := List.mem_of_getElem? h2
    have hc2 : key.Clash k := (eq_iff_clash_of_single key k hk).mp h3
    have := disjoint_mem_eq ht he hmem (clash_trans_single hk hc hc2)
    simp only [payload]
    rw [this]

/-- no entry is designated exactly: the result is decided by the entries that start with the key -/
theorem findArg_noexact {α : Type} (abbr : Bool) (t : List (Key × α)) (k : Key)
    (hno : ∀ e ∈ t, e.1.eq k = false) :
    payload (findArg abbr t k) =
      if abbr then uniqueOf (t.filter (fun e => e.1.startsWith k)) else .ok none := by
  unfold findArg
  rw [(findExact_none_iff k t 0).mpr hno]
  cases abbr with
  | false => rfl
  | true =>
    simp only [if_true]
    rw [findAbbr_payload]
    cases t.filter (fun e => e.1.startsWith k) with
    | nil => rfl
    | cons a l => cases l <;> rfl

/-- the index returned is the position of an entry with the returned payload that matches the key
    (exactly, or — only with abbreviations — by prefix) -/
theorem findArg_index {α : Type} (abbr : Bool) (t : List (Key × α)) (k : Key) (j : Nat) (a : α)
    (h : findArg abbr t k = .ok (some (j, a))) :
    ∃ key, t[j]? = some (key, a) ∧ (key.eq k = true ∨ (abbr = true ∧ key.startsWith k = true)) := by
  unfold findArg at h
  cases hf : findExact k t 0 with
  | some r =>
    rw [hf] at h
    simp only [Res.ok.injEq, Option.some.injEq] at h
    subst h
    obtain ⟨key, _, h2, h3⟩ := findExact_some k t 0 j a hf
    exact ⟨key, by simpa using h2, Or.inl h3⟩
  | none =>
    rw [hf] at h
    cases abbr with
    | false => simp at h
    | true =>
      simp only [if_true] at h
      rcases findAbbr_index k t 0 none j a h with h' | ⟨key, _, h2, h3⟩
      · cases h'
      · exact ⟨key, by simpa using h2, Or.inr ⟨rfl, h3⟩⟩

theorem disjoint_perm {α : Type} {t₁ t₂ : List (Key × α)} (hp : t₁.Perm t₂) (ht : Disjoint t₁) : Disjoint t₂ := by
  unfold Disjoint at *
  exact (hp.pairwise_iff (fun h hc => h (clash_symm hc))).mp ht

/-- the payload found does not depend on the order of the table -/
theorem findArg_perm {α : Type} (abbr : Bool) (t₁ t₂ : List (Key × α)) (hp : t₁.Perm t₂) (ht : Disjoint t₁)
    (k : Key) (hk : k.Single) : payload (findArg abbr t₁ k) = payload (findArg abbr t₂ k) := by
  by_cases hex : ∃ e ∈ t₁, e.1.Clash k
  · obtain ⟨e, he, hc⟩ := hex
    rw [findArg_exact abbr t₁ ht e he k hk hc,
      findArg_exact abbr t₂ (disjoint_perm hp ht) e (hp.mem_iff.mp he) k hk hc]
  · have hno1 : ∀ e ∈ t₁, e.1.eq k = false := by
      intro e he
      cases h : e.1.eq k with
      | false => rfl
      | true => exact absurd ⟨e, he, (eq_iff_clash_of_single e.1 k hk).mp h⟩ hex
    have hno2 : ∀ e ∈ t₂, e.1.eq k = false := fun e he => hno1 e (hp.mem_iff.mpr he)
    rw [findArg_noexact abbr t₁ k hno1, findArg_noexact abbr t₂ k hno2]
    cases abbr with
    | false => rfl
    | true =>
      simp only [if_true]
      have hf := hp.filter (fun e => e.1.startsWith k)
      generalize t₁.filter (fun e => e.1.startsWith k) = l₁ at hf
      generalize t₂.filter (fun e => e.1.startsWith k) = l₂ at hf
      have hl := hf.length_eq
      match l₁, l₂, hf, hl with
      | [], [], _, _ => rfl
      | [a], [b], hf, _ =>
        have := List.singleton_perm_singleton.mp hf
        rw [this]
      | _ :: _ :: _, _ :: _ :: _, _, _ => rfl
      | [], _ :: _, _, hl => simp at hl
      | _ :: _, [], _, hl => simp at hl
      | [_], _ :: _ :: _, _, hl => simp at hl
      | _ :: _ :: _, [_], _, hl => simp at hl

end CelmaVerif.Keys
