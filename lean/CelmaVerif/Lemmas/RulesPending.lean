import CelmaVerif.Lemmas.RulesBase
/-
  Rules layer, part 3: the argument constraints "requires" / "excludes" — the list of pending
  constraints (`ConstraintContainer`) against its declarative reading.
-/
namespace CelmaVerif.ProgArgs
open CelmaVerif CelmaVerif.Keys

/-! ### the container operations -/

theorem pendingFind_some {k : Key} : ∀ {p : List (Key × CType)} {e : Key × CType},
    pendingFind k p = some e → e ∈ p ∧ e.1.eq k = true := by
  intro p
  induction p with
  | nil => intro e h; cases h
  | cons x xs ih =>
    intro e h
    simp only [pendingFind] at h
    split at h
    · cases h; rename_i hx; exact ⟨List.mem_cons_self, hx⟩
    · obtain ⟨h1, h2⟩ := ih h; exact ⟨List.mem_cons_of_mem _ h1, h2⟩

theorem pendingFind_none {k : Key} : ∀ {p : List (Key × CType)},
    pendingFind k p = none → ∀ e ∈ p, e.1.eq k = false := by
  intro p
  induction p with
  | nil => intro _ e he; cases he
  | cons x xs ih =>
    intro h e he
    simp only [pendingFind] at h
    split at h
    · cases h
    · rename_i hx
      rcases List.mem_cons.mp he with rfl | he
      · simpa using hx
      · exact ih h e he

theorem pendingAdd_mono (ct : CType) : ∀ (ks : List Key) (p : List (Key × CType)) (e : Key × CType),
    e ∈ p → e ∈ pendingAdd ct ks p := by
  intro ks
  induction ks with
  | nil => intro p e h; exact h
  | cons k ks ih =>
    intro p e h
    simp only [pendingAdd]
    split
    · split
      · exact ih p e h
      · exact ih _ e (List.mem_append_left _ h)
    · exact ih _ e (List.mem_append_left _ h)

theorem pendingAdd_origin (ct : CType) : ∀ (ks : List Key) (p : List (Key × CType)) (e : Key × CType),
    e ∈ pendingAdd ct ks p → e ∈ p ∨ (e.1 ∈ ks ∧ e.2 = ct) := by
  intro ks
  induction ks with
  | nil => intro p e h; exact Or.inl h
  | cons k ks ih =>
    intro p e h
    simp only [pendingAdd] at h
    have aux : e ∈ pendingAdd ct ks (p ++ [(k, ct)]) → e ∈ p ∨ (e.1 ∈ k :: ks ∧ e.2 = ct) := by
      intro h
      rcases ih _ e h with h | ⟨h1, h2⟩
      · rcases List.mem_append.mp h with h | h
        · exact Or.inl h
        · simp only [List.mem_singleton] at h; subst h; exact Or.inr ⟨List.mem_cons_self, rfl⟩
      · exact Or.inr ⟨List.mem_cons_of_mem _ h1, h2⟩
    split at h
    · split at h
      · rcases ih _ e h with h | ⟨h1, h2⟩
        · exact Or.inl h
        · exact Or.inr ⟨List.mem_cons_of_mem _ h1, h2⟩
      · exact aux h
    · exact aux h

/-- every key of the specification is afterwards represented by an entry of the same type that is
    the key itself or `==` it -/
theorem pendingAdd_covers (ct : CType) : ∀ (ks : List Key) (p : List (Key × CType)) (k : Key), k ∈ ks →
    ∃ e ∈ pendingAdd ct ks p, e.2 = ct ∧ (e.1 = k ∨ e.1.eq k = true) := by
  intro ks
  induction ks with
  | nil => intro p k h; cases h
  | cons k0 ks ih =>
    intro p k h
    simp only [pendingAdd]
    rcases List.mem_cons.mp h with rfl | h
    · split
      · rename_i e hf
        split
        · rename_i hct
          obtain ⟨h1, h2⟩ := pendingFind_some hf
          exact ⟨e, pendingAdd_mono ct ks p e h1, hct, Or.inr h2⟩
        · exact ⟨(k, ct), pendingAdd_mono ct ks _ _ (by simp), rfl, Or.inl rfl⟩
      · exact ⟨(k, ct), pendingAdd_mono ct ks _ _ (by simp), rfl, Or.inl rfl⟩
    · split
      · split
        · exact ih p k h
        · exact ih _ k h
      · exact ih _ k h

theorem activate_mono : ∀ (cs : List (CType × List Key)) (p : List (Key × CType)) (e : Key × CType),
    e ∈ p → e ∈ activateConstraints cs p := by
  intro cs
  induction cs with
  | nil => intro p e h; exact h
  | cons c cs ih =>
    intro p e h
    obtain ⟨ct, ks⟩ := c
    simp only [activateConstraints]
    exact ih _ e (pendingAdd_mono ct ks p e h)

theorem activate_origin : ∀ (cs : List (CType × List Key)) (p : List (Key × CType)) (e : Key × CType),
    e ∈ activateConstraints cs p → e ∈ p ∨ ∃ c ∈ cs, e.1 ∈ c.2 ∧ e.2 = c.1 := by
  intro cs
  induction cs with
  | nil => intro p e h; exact Or.inl h
  | cons c cs ih =>
    intro p e h
    obtain ⟨ct, ks⟩ := c
    simp only [activateConstraints] at h
    rcases ih _ e h with h | ⟨c, hc, h1, h2⟩
    · rcases pendingAdd_origin ct ks p e h with h | ⟨h1, h2⟩
      · exact Or.inl h
      · exact Or.inr ⟨(ct, ks), List.mem_cons_self, h1, h2⟩
    · exact Or.inr ⟨c, List.mem_cons_of_mem _ hc, h1, h2⟩

theorem activate_covers : ∀ (cs : List (CType × List Key)) (p : List (Key × CType)) (c : CType × List Key),
    c ∈ cs → ∀ k ∈ c.2, ∃ e ∈ activateConstraints cs p, e.2 = c.1 ∧ (e.1 = k ∨ e.1.eq k = true) := by
  intro cs
  induction cs with
  | nil => intro p c h; cases h
  | cons c0 cs ih =>
    intro p c h k hk
    obtain ⟨ct, ks⟩ := c0
    simp only [activateConstraints]
    rcases List.mem_cons.mp h with rfl | h
    · obtain ⟨e, he, h1, h2⟩ := pendingAdd_covers ct ks p k hk
      exact ⟨e, activate_mono cs _ e he, h1, h2⟩
    · exact ih _ c h k hk

/-- `argumentIdentified` returned: no entry that `==` the key was an exclusion, and exactly the
    entries that `==` the key are gone -/
theorem pendingIdentified_ok {k : Key} : ∀ {p p' : List (Key × CType)}, pendingIdentified k p = .ok p' →
    (∀ e ∈ p, e.1.eq k = true → e.2 = .required) ∧ (∀ e, e ∈ p' ↔ e ∈ p ∧ e.1.eq k = false) := by
  intro p
  induction p with
  | nil => intro p' h; simp only [pendingIdentified] at h; cases h; simp
  | cons x xs ih =>
    intro p' h
    simp only [pendingIdentified] at h
    split at h
    · rename_i hx
      split at h
      · rename_i hr
        obtain ⟨h1, h2⟩ := ih h
        constructor
        · intro e he hek
          rcases List.mem_cons.mp he with rfl | he
          · exact hr
          · exact h1 e he hek
        · intro e
          rw [h2 e]
          constructor
          · rintro ⟨a, b⟩; exact ⟨List.mem_cons_of_mem _ a, b⟩
          · rintro ⟨a, b⟩
            rcases List.mem_cons.mp a with rfl | a
            · rw [hx] at b; cases b
            · exact ⟨a, b⟩
      · cases h
    · rename_i hx
      simp only [bind_eq_ok] at h
      obtain ⟨r, hr, h⟩ := h
      cases h
      obtain ⟨h1, h2⟩ := ih hr
      constructor
      · intro e he hek
        rcases List.mem_cons.mp he with rfl | he
        · exact absurd hek hx
        · exact h1 e he hek
      · intro e
        simp only [List.mem_cons, h2 e]
        constructor
        · rintro (rfl | ⟨a, b⟩)
          · exact ⟨Or.inl rfl, by simpa using hx⟩
          · exact ⟨Or.inr a, b⟩
        · rintro ⟨rfl | a, b⟩
          · exact Or.inl rfl
          · exact Or.inr ⟨a, b⟩

/-! ### the invariant -/

/-- what the list of pending constraints says about the uses so far -/
structure PendInv (cfg : Cfg) (h : HState) : Prop where
  /-- every pending key was written in a constraint of the configuration -/
  named : ∀ e ∈ h.pending, ∃ j, Names cfg e.1 j
  /-- every exclusion activated so far is represented in the list (exclusions are never removed) -/
  excl : ∀ u ∈ h.uses, ∀ (d : ArgDef), cfg.args[u.arg]? = some d → ∀ (ks : List Key),
    (CType.excluded, ks) ∈ d.constraints → ∀ k ∈ ks,
    ∃ k', (k', CType.excluded) ∈ h.pending ∧ SameTarget cfg k' k
  /-- every requirement activated so far was met later or is still represented in the list -/
  req : ∀ (p : Nat) (u : Use) (d : ArgDef) (ks : List Key) (k : Key), h.uses[p]? = some u →
    cfg.args[u.arg]? = some d → (CType.required, ks) ∈ d.constraints → k ∈ ks →
    (∃ (q : Nat) (w : Use), p < q ∧ h.uses[q]? = some w ∧ w.ident = true ∧ Designates cfg k w.arg) ∨
    (∃ k', (k', CType.required) ∈ h.pending ∧ SameTarget cfg k' k)
  /-- the uses so far obey the rule "excludes" -/
  hist : ObeysExcludes cfg h.uses

theorem pendInv_init (cfg : Cfg) (inits : List DVal) : PendInv cfg (cfg.initState inits) := by
  refine ⟨?_, ?_, ?_, ?_⟩
  · intro e he; simp [Cfg.initState] at he
  · intro u hu; simp [Cfg.initState] at hu
  · intro p u d ks k hu; simp [Cfg.initState] at hu
  · intro p q u w d ks k _ hu; simp [Cfg.initState] at hu

theorem getElem?_snoc_lt {α : Type} {l : List α} {a x : α} {p : Nat} (h : (l ++ [a])[p]? = some x)
    (hp : p < l.length) : l[p]? = some x := by
  rwa [List.getElem?_append_left hp] at h

theorem getElem?_snoc_ge {α : Type} {l : List α} {a x : α} {p : Nat} (h : (l ++ [a])[p]? = some x)
    (hp : ¬ p < l.length) : p = l.length ∧ x = a := by
  have hlt : p < (l ++ [a]).length := (List.getElem?_eq_some_iff.mp h).1
  simp only [List.length_append, List.length_singleton] at hlt
  have hpe : p = l.length := by omega
  subst hpe
  simp at h
  exact ⟨rfl, h.symm⟩

theorem getElem?_snoc_of {α : Type} {l : List α} {a x : α} {p : Nat} (h : l[p]? = some x) :
    (l ++ [a])[p]? = some x := by
  rw [List.getElem?_append_left (List.getElem?_eq_some_iff.mp h).1]; exact h

theorem pendInv_step {cfg : Cfg} (hdis : Disjoint cfg.table)
    (hkeys : ∀ d ∈ cfg.args, ∀ c ∈ d.constraints, ∀ k ∈ c.2, ∃ j, Names cfg k j)
    {h : HState} {u : Use} {h' : HState}
    (a : PendInv cfg h) (e : applyUse cfg h u = .ok h') : PendInv cfg h' := by
  obtain ⟨d, pend, cnt, st', s⟩ := applyUse_ok e
  have hdmem : d ∈ cfg.args := List.mem_of_getElem? s.arg
  -- entries that survive `argumentIdentified`
  have hsurv : ∀ x ∈ h.pending, (u.ident = true → x.1.eq d.key = false) → x ∈ h'.pending := by
    intro x hx hne
    rw [s.pending']
    apply activate_mono
    cases hi : u.ident with
    | true => exact ((pendingIdentified_ok (s.pendI hi)).2 x).mpr ⟨hx, hne hi⟩
    | false => rw [s.pendF hi]; exact hx
  have hsub : ∀ x ∈ pend, x ∈ h.pending := by
    intro x hx
    cases hi : u.ident with
    | true => exact (((pendingIdentified_ok (s.pendI hi)).2 x).mp hx).1
    | false => rw [s.pendF hi] at hx; exact hx
  have hnamed : ∀ x ∈ h'.pending, ∃ j, Names cfg x.1 j := by
    intro x hx
    rw [s.pending'] at hx
    rcases activate_origin _ _ _ hx with hx | ⟨c, hc, h1, _⟩
    · exact a.named x (hsub x hx)
    · exact hkeys d hdmem c hc x.1 h1
  -- the constraints of the argument used now are represented afterwards
  have hnew : ∀ (ct : CType) (ks : List Key), (ct, ks) ∈ d.constraints → ∀ k ∈ ks,
      ∃ k', (k', ct) ∈ h'.pending ∧ SameTarget cfg k' k := by
    intro ct ks hc k hk
    obtain ⟨x, hx, h1, h2⟩ := activate_covers d.constraints pend (ct, ks) hc k hk
    rw [← s.pending'] at hx
    obtain ⟨xk, xt⟩ := x
    simp only at h1 h2
    subst h1
    refine ⟨xk, hx, ?_⟩
    rcases h2 with rfl | h2
    · exact SameTarget.refl _ _
    · obtain ⟨j, hj⟩ := hnamed _ hx
      obtain ⟨j', hj'⟩ := hkeys d hdmem _ hc k hk
      exact sameTarget_of_eq hdis hj hj' h2
  refine ⟨hnamed, ?_, ?_, ?_⟩
  · intro w hw dw hdw ks hc k hk
    rw [s.uses'] at hw
    rcases List.mem_append.mp hw with hw | hw
    · obtain ⟨k', hk', hst⟩ := a.excl w hw dw hdw ks hc k hk
      refine ⟨k', hsurv _ hk' ?_, hst⟩
      intro hi
      cases hek : k'.eq d.key with
      | false => rfl
      | true =>
        have := (pendingIdentified_ok (s.pendI hi)).1 _ hk' hek
        cases this
    · simp only [List.mem_singleton] at hw; subst hw
      rw [s.arg] at hdw; cases hdw
      exact hnew _ ks hc k hk
  · intro p w dw ks k hw hdw hc hk
    rw [s.uses'] at hw
    by_cases hp : p < h.uses.length
    · have hw' := getElem?_snoc_lt hw hp
      rcases a.req p w dw ks k hw' hdw hc hk with ⟨q, x, hpq, hx, hxi, hxd⟩ | ⟨k', hk', hst⟩
      · left; exact ⟨q, x, hpq, by rw [s.uses']; exact getElem?_snoc_of hx, hxi, hxd⟩
      · by_cases hmet : u.ident = true ∧ k'.eq d.key = true
        · left
          refine ⟨h.uses.length, u, hp, by rw [s.uses']; simp, hmet.1, d, s.arg, ?_⟩
          rw [← hst _ _ s.arg]; exact hmet.2
        · right
          refine ⟨k', hsurv _ hk' ?_, hst⟩
          intro hi
          cases hek : k'.eq d.key with
          | false => rfl
          | true => exact absurd ⟨hi, hek⟩ hmet
    · obtain ⟨_, hwu⟩ := getElem?_snoc_ge hw hp
      subst hwu
      rw [s.arg] at hdw; cases hdw
      right
      exact hnew _ ks hc k hk
  · intro p q x w dx ks k hpq hx hw hwi hdx hc hk
    rw [s.uses'] at hx hw
    by_cases hq : q < h.uses.length
    · exact a.hist p q x w dx ks k hpq (getElem?_snoc_lt hx (by omega)) (getElem?_snoc_lt hw hq) hwi hdx hc hk
    · obtain ⟨hqe, hwu⟩ := getElem?_snoc_ge hw hq
      subst hwu
      have hx' := getElem?_snoc_lt hx (by omega)
      obtain ⟨k', hk', hst⟩ := a.excl x (List.mem_of_getElem? hx') dx hdx ks hc k hk
      rintro ⟨dw, hdw, hek⟩
      rw [s.arg] at hdw; cases hdw
      rw [← hst _ _ s.arg] at hek
      have := (pendingIdentified_ok (s.pendI hwi)).1 _ hk' hek
      cases this

/-- rule "requires", soundness: when `checkRequired` passes, every requirement was met -/
theorem requires_sound {cfg : Cfg} {h : HState} (a : PendInv cfg h)
    (e : pendingCheckRequired h.pending = .ok ()) : ObeysRequires cfg h.uses := by
  intro p u d ks k hu hd hc hk
  rcases a.req p u d ks k hu hd hc hk with hmet | ⟨k', hk', _⟩
  · exact hmet
  · exfalso
    unfold pendingCheckRequired at e
    rw [throwIf_eq_ok] at e
    have : (h.pending.any fun e => decide (e.2 = CType.required)) = true :=
      List.any_eq_true.mpr ⟨_, hk', by simp⟩
    rw [e] at this; cases this

end CelmaVerif.ProgArgs
