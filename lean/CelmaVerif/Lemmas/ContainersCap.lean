import CelmaVerif.Lemmas.ContainersArr
import CelmaVerif.Lemmas.ContainersBits
/-
  Capacity of fixed-size arrays and bitsets over WHOLE evaluations (any cut into uses): the element that arrives
  at a full array / the position outside a bitset ends the evaluation with `std::runtime_error`, and what was
  stored before it is exactly what the elements before it put there.
-/
namespace CelmaVerif.Containers

section arr
variable {α : Type} [DecidableEq α] (E : Elem α)

theorem arrElems_append_ok (o : Opts) (w : Bool) : ∀ (a b : List (List Char)) (s s1 : ArrState α),
    arrElems E o w s a = (s1, none) → arrElems E o w s (a ++ b) = arrElems E o w s1 b
  | [], b, s, s1, h => by
    rw [arrElems] at h
    cases h
    rfl
  | t :: ts, b, s, s1, h => by
    rw [List.cons_append, arrElems]
    rw [arrElems] at h
    cases hst : arrStep E o w s t with
    | ok s' =>
      rw [hst] at h
      exact arrElems_append_ok o w ts b s' s1 h
    | throw e => rw [hst] at h; cases h
    | oob x => rw [hst] at h; cases h

theorem Fits.left {o : Opts} {n : Nat} {done a b : List α} (h : Fits o n done (a ++ b)) : Fits o n done a := by
  intro j hj
  have := h j (by simp; omega)
  rwa [List.take_append_of_le_length (by omega)] at this

theorem Fits.right {o : Opts} {n : Nat} {done a b : List α} (h : Fits o n done (a ++ b)) :
    Fits o n (done ++ a) b := by
  intro j hj
  have := h (a.length + j) (by simp; omega)
  rw [List.take_append, List.take_of_length_le (by omega)] at this
  simpa [List.append_assoc] using this

theorem DupFreeI.left {o : Opts} {a b : List α} (h : DupFreeI o (a ++ b)) : DupFreeI o a :=
  fun hu he => (List.nodup_append.mp (h hu he)).1

/-- The element that arrives when the array is full ends the evaluation: the uses before it went through, the
    elements `pre` before it (accepted, room for each of them) filled the array exactly, and the invariant (filled
    prefix = kept values of `pre`) holds for the state the exception leaves behind. -/
theorem arrRunP_overflow (hl : LawfulLe E.le) (o : Opts) (init : List α) :
    ∀ (uses : List (List Char)) (s : ArrState α) (done : List α) (pre post : List (List Char)) (t : List Char),
      ArrInv o init s done → allTokens o.sep uses = pre ++ t :: post →
      AccI E o done pre → DupFreeI o (done ++ valsI E o done pre) →
      Fits o init.length done (valsI E o done pre) →
      (keepA o (done ++ valsI E o done pre)).length = init.length →
      ∃ s', arrRunP E o false s uses = (s', some (.exc .runtime_error)) ∧
        ArrInv o init s' (done ++ valsI E o done pre)
  | [], _, _, pre, post, t, _, htok, _, _, _, _ => by
    exfalso
    have : ([] : List (List Char)) = pre ++ t :: post := by simpa [allTokens] using htok
    cases pre <;> simp at this
  | u :: us, s, done, pre, post, t, hi, htok, hacc, hdf, hfit, hfull => by
    have htok' : tokens o.sep u ++ allTokens o.sep us = pre ++ t :: post := by simpa [allTokens] using htok
    have hcase : (∃ a', pre = tokens o.sep u ++ a' ∧ allTokens o.sep us = a' ++ t :: post) ∨
        (∃ c, tokens o.sep u = pre ++ t :: c) := by
      rcases List.append_eq_append_iff.mp htok' with ⟨a', h1, h2⟩ | ⟨c', h1, h2⟩
      · exact Or.inl ⟨a', h1, h2⟩
      · cases c' with
        | nil => exact Or.inl ⟨[], by simpa using h1.symm, by simpa using h2.symm⟩
        | cons x c'' =>
          simp only [List.cons_append, List.cons.injEq] at h2
          exact Or.inr ⟨c'', by rw [h1, h2.1]⟩
    rcases hcase with ⟨a', hpre, hrest⟩ | ⟨c, hu⟩
    · -- the whole use lies before the refused element
      subst hpre
      rw [valsI_append] at hdf hfit hfull
      rw [accI_append] at hacc
      have hdf1 : DupFreeI o (done ++ valsI E o done (tokens o.sep u)) := by
        rw [← List.append_assoc] at hdf; exact hdf.left
      obtain ⟨s1, hs1, hi1, _⟩ := arrAssignP_inv E hl o init s u done hi hacc.1 hdf1 hfit.left
      obtain ⟨s', hs', hi'⟩ := arrRunP_overflow hl o init us s1 (done ++ valsI E o done (tokens o.sep u)) a' post t hi1
        hrest hacc.2 (by rw [List.append_assoc]; exact hdf) hfit.right
        (by rw [List.append_assoc]; exact hfull)
      refine ⟨s', ?_, ?_⟩
      · rw [arrRunP, hs1]; exact hs'
      · rw [valsI_append, ← List.append_assoc]; exact hi'
    · -- the refused element is in this use
      obtain ⟨s1, hs1, hi1⟩ := arrElems_inv E o init pre s done hi hacc hdf hfit
      have hidx : s1.idx = init.length := by rw [idx_of_inv hi1, hfull]
      have hlen : s1.slots.length = init.length := by
        obtain ⟨X, hsl, hX, hle, _, _⟩ := hi1
        rw [hsl]; simp; omega
      refine ⟨s1, ?_, hi1⟩
      rw [arrRunP]
      unfold arrAssignP
      rw [hu, arrElems_append_ok E o false pre (t :: c) s s1 hs1, arrElems,
        arrStep_full E o false s1 t (by rw [hidx, hlen])]

theorem arrInv_start (o : Opts) (init : List α) : ArrInv o init ⟨init, 0⟩ [] := by
  refine ⟨[], by simp, rfl, by simp, ?_, ?_⟩
  · simp [keepA, dedupInto]
  · intro _; simp [keepA, dedupInto]

/-- the exception state in plain words: all N slots are filled, with the kept values of `pre` -/
theorem full_of_inv {o : Opts} {init : List α} {s : ArrState α} {done : List α} (hi : ArrInv o init s done)
    (hfull : (keepA o done).length = init.length) :
    s.idx = init.length ∧ s.slots.Perm (keepA o done) ∧ (o.sort = false → s.slots = keepA o done) := by
  have hidx := idx_of_inv hi
  obtain ⟨X, hsl, hX, hle, hperm, hex⟩ := hi
  have hdrop : init.drop s.idx = [] := List.drop_of_length_le (by omega)
  rw [hdrop, List.append_nil] at hsl
  exact ⟨by omega, hsl ▸ hperm, fun h => hsl ▸ hex h⟩

/-! `¬ Fits`: the first element that finds the array full -/

theorem keepA_snoc_length_le (o : Opts) (a : List α) (v : α) :
    (keepA o (a ++ [v])).length ≤ (keepA o a).length + 1 := by
  by_cases h : o.unique = true ∧ v ∈ a
  · rw [keepA_snoc_old o a v h.1 h.2]; omega
  · rw [keepA_snoc_new o a v (fun hu hm => h ⟨hu, hm⟩)]; simp

/-- kept values of a prefix are a prefix of the kept values -/
theorem dedupInto_append_prefix (s a b : List α) : ∃ r, dedupInto s (a ++ b) = dedupInto s a ++ r := by
  induction a generalizing s with
  | nil => exact ⟨_, rfl⟩
  | cons x xs ih =>
    simp only [List.cons_append]
    unfold dedupInto
    by_cases hx : x ∈ s
    · rw [if_pos hx, if_pos hx]; exact ih s
    · rw [if_neg hx, if_neg hx]
      obtain ⟨r, hr⟩ := ih (x :: s)
      exact ⟨r, by rw [hr]; rfl⟩

theorem keepA_append_prefix (o : Opts) (a b : List α) : ∃ r, keepA o (a ++ b) = keepA o a ++ r := by
  unfold keepA
  cases o.unique
  · exact ⟨b, rfl⟩
  · exact dedupInto_append_prefix [] a b

theorem not_fits_split (o : Opts) (n : Nat) : ∀ (vs done : List α), ¬ Fits o n done vs →
    ∃ a x b, vs = a ++ x :: b ∧ Fits o n done a ∧ n ≤ (keepA o (done ++ a)).length
  | [], done, h => by
    exfalso; apply h; intro j hj; simp at hj
  | x :: rest, done, h => by
    by_cases hfull : n ≤ (keepA o done).length
    · exact ⟨[], x, rest, rfl, fun j hj => by simp at hj, by simpa using hfull⟩
    · have hrest : ¬ Fits o n (done ++ [x]) rest := by
        intro hf
        apply h
        intro j hj
        cases j with
        | zero => simpa using Nat.lt_of_not_le hfull
        | succ j =>
          have := hf j (by simpa using hj)
          simpa [List.take_succ_cons, List.append_assoc] using this
      obtain ⟨a, y, b, hsplit, hfa, hge⟩ := not_fits_split o n rest (done ++ [x]) hrest
      refine ⟨x :: a, y, b, by rw [hsplit]; rfl, ?_, by simpa [List.append_assoc] using hge⟩
      intro j hj
      cases j with
      | zero => simpa using Nat.lt_of_not_le hfull
      | succ j =>
        have := hfa j (by simpa using hj)
        simpa [List.take_succ_cons, List.append_assoc] using this

/-- if there was room for every value of `a` and the array is full afterwards, exactly N values were kept -/
theorem fits_full_eq (o : Opts) (n : Nat) (a : List α) (hf : Fits o n [] a) (hge : n ≤ (keepA o a).length) :
    (keepA o a).length = n := by
  rcases List.eq_nil_or_concat a with rfl | ⟨a', z, h⟩
  · have : (keepA o ([] : List α)).length = 0 := by simp [keepA, dedupInto]
    omega
  · rw [List.concat_eq_append] at h
    subst h
    have h1 := hf a'.length (by simp)
    rw [List.nil_append, List.take_left' rfl] at h1
    have h2 := keepA_snoc_length_le o a' z
    omega

/-- acceptable tokens all yield a value: the values of a prefix of the tokens are a prefix of the values (and the
    prefix is acceptable, with the same values before it) -/
theorem valsI_split (o : Opts) : ∀ (ts : List (List Char)) (done : List α), AccI E o done ts →
    ∀ (a : List α) (x : α) (b : List α), valsI E o done ts = a ++ x :: b →
      ∃ pre t post, ts = pre ++ t :: post ∧ valsI E o done pre = a ∧ AccI E o done pre
  | [], _, _, a, x, b, h => by
    exfalso
    have : ([] : List α) = a ++ x :: b := by simpa using h
    cases a <;> simp at this
  | t :: ts, done, hacc, a, x, b, h => by
    obtain ⟨hchk, v, hv, hrest⟩ := (accI_cons_iff E o done t ts).mp hacc
    rw [valsI_cons_some E o done t ts v hv] at h
    cases a with
    | nil => exact ⟨[], t, ts, rfl, rfl, trivial⟩
    | cons y a' =>
      simp only [List.cons_append, List.cons.injEq] at h
      obtain ⟨pre, t', post, hts, hpre, haccp⟩ := valsI_split o ts (done ++ [v]) hrest a' x b h.2
      refine ⟨t :: pre, t', post, by rw [hts]; rfl, ?_, (accI_cons_iff E o done t pre).mpr ⟨hchk, v, hv, haccp⟩⟩
      rw [valsI_cons_some E o done t pre v hv, hpre, h.1]

end arr

/-! ## bitsets -/

theorem bitElems_append_ok (o : Opts) : ∀ (a c : List (List Char)) (b b1 : List Bool),
    bitElems o b a = (b1, none) → bitElems o b (a ++ c) = bitElems o b1 c
  | [], c, b, b1, h => by
    rw [bitElems] at h
    cases h
    rfl
  | t :: ts, c, b, b1, h => by
    rw [List.cons_append, bitElems]
    rw [bitElems] at h
    cases hst : bitStep o b t with
    | ok b' =>
      rw [hst] at h
      exact bitElems_append_ok o ts c b' b1 h
    | throw e => rw [hst] at h; cases h
    | oob x => rw [hst] at h; cases h

theorem valsP_append (o : Opts) (a b : List (List Char)) : valsP o (a ++ b) = valsP o a ++ valsP o b := by
  simp [valsP, List.filterMap_append]

/-- a position outside the bitset ends the evaluation; the positions before it are set, nothing else changed -/
theorem bitRunP_outside (o : Opts) : ∀ (uses : List (List Char)) (b : List Bool) (pre post : List (List Char))
    (t : List Char) (p : Nat), allTokens o.sep uses = pre ++ t :: post → (∀ e ∈ pre, AcceptsP o b.length e) →
    runChecks o.checks t = none → valP o t = some p → b.length ≤ p →
    bitRunP o ⟨b, false⟩ uses = (⟨setAll b (valsP o pre), false⟩, some (.exc .runtime_error))
  | [], _, pre, post, t, _, htok, _, _, _, _ => by
    exfalso
    have : ([] : List (List Char)) = pre ++ t :: post := by simpa [allTokens] using htok
    cases pre <;> simp at this
  | u :: us, b, pre, post, t, p, htok, hacc, hchk, hv, hp => by
    have htok' : tokens o.sep u ++ allTokens o.sep us = pre ++ t :: post := by simpa [allTokens] using htok
    have hcase : (∃ a', pre = tokens o.sep u ++ a' ∧ allTokens o.sep us = a' ++ t :: post) ∨
        (∃ c, tokens o.sep u = pre ++ t :: c) := by
      rcases List.append_eq_append_iff.mp htok' with ⟨a', h1, h2⟩ | ⟨c', h1, h2⟩
      · exact Or.inl ⟨a', h1, h2⟩
      · cases c' with
        | nil => exact Or.inl ⟨[], by simpa using h1.symm, by simpa using h2.symm⟩
        | cons x c'' =>
          simp only [List.cons_append, List.cons.injEq] at h2
          exact Or.inr ⟨c'', by rw [h1, h2.1]⟩
    rcases hcase with ⟨a', hpre, hrest⟩ | ⟨c, hu⟩
    · subst hpre
      have h1 := bitElems_ok o (tokens o.sep u) b (fun e he => hacc e (List.mem_append_left _ he))
      rw [bitRunP]
      unfold bitAssignP
      simp only [Bool.false_eq_true, if_false, h1]
      rw [bitRunP_outside o us _ a' post t p hrest
        (by rw [setAll_length]; exact fun e he => hacc e (List.mem_append_right _ he)) hchk hv
        (by rw [setAll_length]; exact hp)]
      rw [valsP_append, setAll_append]
    · have h1 := bitElems_ok o pre b hacc
      rw [bitRunP]
      unfold bitAssignP
      simp only [Bool.false_eq_true, if_false]
      rw [hu, bitElems_append_ok o pre (t :: c) b _ h1, bitElems,
        bitStep_outside o _ t p hchk hv (by rw [setAll_length]; exact hp)]

/-- the same from the initial state (clear-before-assign included) -/
theorem bitRunP_outside_start (o : Opts) (init : List Bool) (uses : List (List Char)) (pre post : List (List Char))
    (t : List Char) (p : Nat) (htok : allTokens o.sep uses = pre ++ t :: post)
    (hacc : ∀ e ∈ pre, AcceptsP o init.length e) (hchk : runChecks o.checks t = none) (hv : valP o t = some p)
    (hp : init.length ≤ p) :
    bitRunP o ⟨init, o.clear⟩ uses
      = (⟨setAll (if o.clear then init.map (fun _ => false) else init) (valsP o pre), false⟩,
         some (.exc .runtime_error)) := by
  cases uses with
  | nil =>
    exfalso
    have : ([] : List (List Char)) = pre ++ t :: post := by simpa [allTokens] using htok
    cases pre <;> simp at this
  | cons u us =>
    have key : bitRunP o ⟨init, o.clear⟩ (u :: us)
        = bitRunP o ⟨if o.clear then init.map (fun _ => false) else init, false⟩ (u :: us) := by
      rw [bitRunP, bitRunP]
      have : bitAssignP o ⟨init, o.clear⟩ u
          = bitAssignP o ⟨if o.clear then init.map (fun _ => false) else init, false⟩ u := by
        unfold bitAssignP
        cases o.clear <;> rfl
      rw [this]
    rw [key]
    exact bitRunP_outside o (u :: us) _ pre post t p htok (by cases o.clear <;> simpa using hacc) hchk hv
      (by cases o.clear <;> simpa using hp)

end CelmaVerif.Containers
