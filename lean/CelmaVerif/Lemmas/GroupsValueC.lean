import CelmaVerif.Lemmas.GroupsView
import CelmaVerif.Lemmas.RulesValueC
/-
  The value constraints differ / disjoint in a group: the member that owns the constraint owns its
  arguments (`GroupWF.w3`), so the end condition evaluated by the member — on its own argument
  definitions and states — passes exactly when the merged handler's does; and under
  `Cfg.ValueArgsOk` the end condition only returns or throws std::runtime_error.
-/
namespace CelmaVerif.ProgArgs
open CelmaVerif CelmaVerif.Keys

/-- the listed arguments of a value constraint have a type the constraint can compare (relative to
    the argument definitions a handler holds) -/
def KindsOk (defs : List ArgDef) (g : GDef) : Prop :=
  (g.kind = .differ → ∀ k ∈ g.keys, ∀ d ∈ defs, k.eq d.key = true → d.kind = .int ∨ d.kind = .str) ∧
  (g.kind = .disjoint → ∀ k ∈ g.keys, ∀ d ∈ defs, k.eq d.key = true → d.kind = .vecInt)

theorem KindsOk.mono {defs defs' : List ArgDef} {g : GDef} (h : KindsOk defs g) (hs : ∀ d ∈ defs', d ∈ defs) :
    KindsOk defs' g :=
  ⟨fun hk k hkm d hd he => h.1 hk k hkm d (hs d hd) he, fun hk k hkm d hd he => h.2 hk k hkm d (hs d hd) he⟩

theorem kindsOk_of_valueArgs {cfg : Cfg} (hd : Disjoint cfg.table) (hv : cfg.ValueArgsOk) {g : GDef}
    (hg : g ∈ cfg.globals) : KindsOk cfg.args g := by
  constructor
  · intro hk k hkm d hdm he
    obtain ⟨kd, hkd, hn⟩ := (hv g hg).1 hk
    obtain ⟨j, dj, hj, hs, hkind⟩ := hn k hkm
    obtain ⟨i, hi, hie⟩ := List.getElem_of_mem hdm
    have hi' : cfg.args[i]? = some d := by rw [List.getElem?_eq_getElem hi, hie]
    obtain ⟨_, hdd⟩ := argIndexOf_designates hd hj hs hi' he
    rw [hdd, hkind]; exact hkd
  · intro hk k hkm d hdm he
    obtain ⟨_, hn⟩ := (hv g hg).2 hk
    obtain ⟨j, dj, hj, hs, hkind⟩ := hn k hkm
    obtain ⟨i, hi, hie⟩ := List.getElem_of_mem hdm
    have hi' : cfg.args[i]? = some d := by rw [List.getElem?_eq_getElem hi, hie]
    obtain ⟨_, hdd⟩ := argIndexOf_designates hd hj hs hi' he
    rw [hdd, hkind]

/-- every stored handler belongs to a definition whose key the listed key `==` -/
theorem valueHandlers_def {defs : List ArgDef} {sts : List ArgSt} {keys : List Key} {a : VArg}
    (h : a ∈ valueHandlers defs sts keys) : ∃ k ∈ keys, a.2.1 ∈ defs ∧ k.eq a.2.1.key = true := by
  obtain ⟨k, hk, d, hidx, hd, hae⟩ := mem_valueHandlers.mp h
  obtain ⟨d', hd', he⟩ := argIndexOf_some hidx
  rw [hd] at hd'; cases hd'
  refine ⟨k, hk, ?_, ?_⟩
  · rw [hae]; exact List.mem_of_getElem? hd
  · rw [hae]; exact he

theorem differInner_cases (a1 : VArg) (hk : a1.2.1.kind = .int ∨ a1.2.1.kind = .str) : ∀ (l : List VArg),
    differInner a1 l = .ok () ∨ differInner a1 l = .throw .runtime_error := by
  intro l
  induction l with
  | nil => exact Or.inl rfl
  | cons a2 rest ih =>
    simp only [differInner]
    split
    · obtain ⟨c, hc⟩ := compareValue_scalar hk a1.2.2.dest a2.2.2.dest
      rw [hc]
      simp only [Res.bind_ok, throwIf]
      split
      · exact Or.inr rfl
      · exact ih
    · exact ih

theorem differOuter_cases (all : List VArg) : ∀ (l : List VArg),
    (∀ a ∈ l, a.2.1.kind = .int ∨ a.2.1.kind = .str) →
    differOuter all l = .ok () ∨ differOuter all l = .throw .runtime_error := by
  intro l
  induction l with
  | nil => intro _; exact Or.inl rfl
  | cons a1 rest ih =>
    intro h
    simp only [differOuter]
    split
    · rcases differInner_cases a1 (h a1 List.mem_cons_self) all with e | e <;> rw [e]
      · exact ih (fun a ha => h a (List.mem_cons_of_mem _ ha))
      · exact Or.inr rfl
    · exact ih (fun a ha => h a (List.mem_cons_of_mem _ ha))

theorem disjointCheck_cases (l : List VArg) (h : ∀ a ∈ l, a.2.1.kind = .vecInt) :
    disjointCheck l = .ok () ∨ disjointCheck l = .throw .runtime_error := by
  unfold disjointCheck
  split
  · rename_i a1 a2 _
    split
    · exact Or.inl rfl
    · rw [h a1 List.mem_cons_self]
      simp only [hasIntersection, Res.bind_ok, throwIf]
      split
      · exact Or.inr rfl
      · exact Or.inl rfl
  · exact Or.inl rfl

/-- the end condition of a handler constraint returns or throws std::runtime_error -/
theorem endCheck_cases (defs : List ArgDef) (sts : List ArgSt) (g : GDef) (hk : KindsOk defs g) (s : GSt) :
    g.endCheck defs sts s = .ok () ∨ g.endCheck defs sts s = .throw .runtime_error := by
  unfold GDef.endCheck
  split
  · split
    · exact Or.inl rfl
    · exact Or.inr rfl
  · exact Or.inl rfl
  · split
    · exact Or.inl rfl
    · exact Or.inr rfl
  · rename_i hkd
    apply differOuter_cases
    intro a ha
    obtain ⟨k, hkm, hdm, he⟩ := valueHandlers_def ha
    exact hk.1 hkd k hkm _ hdm he
  · rename_i hkd
    apply disjointCheck_cases
    intro a ha
    obtain ⟨k, hkm, hdm, he⟩ := valueHandlers_def ha
    exact hk.2 hkd k hkm _ hdm he

/-! ### the member's handlers are the merged handler's, renumbered -/

/-- a key that names argument `j`, which the member owns, is resolved by the member to the position
    of `j` among its own arguments, with the same definition and state -/
theorem lookup_view {cfg : Cfg} (hd : Disjoint cfg.table) {ia : List Nat} (hb : ∀ a ∈ ia, a < cfg.args.length)
    (hn : ia.Nodup) {sts : List ArgSt} (hlen : sts.length = cfg.args.length)
    {k : Key} {j : Nat} {d : ArgDef} (hj : cfg.args[j]? = some d) (hs : k.Sub d.key) (hjv : j ∈ ia) :
    ∃ loc, ia[loc]? = some j ∧ argIndexOf (pick ia cfg.args) k = some loc ∧ (pick ia cfg.args)[loc]? = some d ∧
      (pick ia sts).getD loc default = sts.getD j default := by
  obtain ⟨loc, hloc⟩ := idxOf?_of_mem hjv
  have hlj := idxOf?_getElem? hloc
  have hb' : ∀ a ∈ ia, a < sts.length := fun a ha => hlen ▸ hb a ha
  refine ⟨loc, hlj, ?_, ?_, ?_⟩
  · unfold argIndexOf
    rw [List.findIdx?_eq_some_iff_getElem]
    have hlt : loc < (pick ia cfg.args).length := by
      rw [pick_length ia _ hb]; exact (List.getElem?_eq_some_iff.mp hlj).1
    refine ⟨hlt, ?_, ?_⟩
    · have : (pick ia cfg.args)[loc]? = some d := by rw [pick_at hb hloc]; exact hj
      rw [List.getElem?_eq_getElem hlt] at this
      cases this
      exact sub_eq hs
    · intro q hq hp
      have hqlt : q < (pick ia cfg.args).length := by omega
      have hq' : (pick ia cfg.args)[q]? = some (pick ia cfg.args)[q] := List.getElem?_eq_getElem hqlt
      rw [pick_getElem? ia _ hb] at hq'
      cases hiq : ia[q]? with
      | none => rw [hiq] at hq'; cases hq'
      | some a =>
        rw [hiq] at hq'
        simp only [Option.bind_some] at hq'
        have := (names_designates hd ⟨d, hj, hs⟩ a).mp ⟨_, hq', hp⟩
        subst this
        have := idxOf?_unique hn hloc hiq
        omega
  · rw [pick_at hb hloc]; exact hj
  · have h1 : (pick ia sts)[loc]? = sts[j]? := pick_at hb' hloc
    simp only [List.getD_eq_getElem?_getD, h1]

/-- the merged handler's stored handlers are the member's, with the member's positions mapped to the
    indices of the merged configuration -/
theorem group_valueHandlers_view {cfg : Cfg} (hd : Disjoint cfg.table) {ia : List Nat}
    (hb : ∀ a ∈ ia, a < cfg.args.length) (hn : ia.Nodup) {sts : List ArgSt} (hlen : sts.length = cfg.args.length) :
    ∀ (keys : List Key), (∀ k ∈ keys, ∃ j d, cfg.args[j]? = some d ∧ k.Sub d.key ∧ j ∈ ia) →
    valueHandlers cfg.args sts keys =
      (valueHandlers (pick ia cfg.args) (pick ia sts) keys).map (fun a => (ia.getD a.1 0, a.2)) ∧
    ∀ a ∈ valueHandlers (pick ia cfg.args) (pick ia sts) keys, a.1 < ia.length := by
  intro keys
  induction keys with
  | nil => intro _; exact ⟨rfl, by intro a ha; cases ha⟩
  | cons k ks ih =>
    intro h
    obtain ⟨j, d, hj, hs, hjv⟩ := h k List.mem_cons_self
    obtain ⟨ih1, ih2⟩ := ih (fun k' hk' => h k' (List.mem_cons_of_mem _ hk'))
    obtain ⟨loc, hlj, hidx, hdl, hst⟩ := lookup_view hd hb hn hlen hj hs hjv
    have hm : valueHandlers (pick ia cfg.args) (pick ia sts) (k :: ks) =
        (loc, d, sts.getD j default) :: valueHandlers (pick ia cfg.args) (pick ia sts) ks := by
      simp only [valueHandlers, List.filterMap_cons, hidx, hdl, hst]
    have hM : valueHandlers cfg.args sts (k :: ks) = (j, d, sts.getD j default) :: valueHandlers cfg.args sts ks := by
      simp only [valueHandlers, List.filterMap_cons, argIndexOf_names hd hj hs, hj]
    rw [hm, hM, ih1]
    refine ⟨?_, ?_⟩
    · simp only [List.map_cons, List.getD_eq_getElem?_getD, hlj, Option.getD_some]
    · intro a ha
      rcases List.mem_cons.mp ha with rfl | ha
      · exact (List.getElem?_eq_some_iff.mp hlj).1
      · exact ih2 a ha

theorem getD_inj {ia : List Nat} (hn : ia.Nodup) {p q : Nat} (hp : p < ia.length) (hq : q < ia.length)
    (h : ia.getD p 0 = ia.getD q 0) : p = q := by
  simp only [List.getD_eq_getElem?_getD, List.getElem?_eq_getElem hp, List.getElem?_eq_getElem hq, Option.getD_some] at h
  exact (List.getElem_inj hn).mp h

/-- **A member evaluates the end condition of its own handler constraint as the merged handler
    does**: it passes on the member's definitions and states exactly when it passes on the merged
    ones. -/
theorem group_endCheck_view {cfg : Cfg} (hd : Disjoint cfg.table) (hva : cfg.ValueArgsOk) {ia : List Nat}
    (hb : ∀ a ∈ ia, a < cfg.args.length) (hn : ia.Nodup) {sts : List ArgSt} (hlen : sts.length = cfg.args.length)
    {g : GDef} (hg : g ∈ cfg.globals)
    (hown : ∀ b, b ∉ ia → ∀ db, cfg.args[b]? = some db → isConstraintArgument g.keys db.key = false) (st : GSt) :
    g.endCheck cfg.args sts st = .ok () ↔ g.endCheck (pick ia cfg.args) (pick ia sts) st = .ok () := by
  -- the listed arguments of a value constraint belong to the member
  have hin : ∀ k ∈ g.keys, ∀ (j : Nat) (d : ArgDef), cfg.args[j]? = some d → k.Sub d.key → j ∈ ia := by
    intro k hk j d hj hs
    apply Classical.byContradiction
    intro hno
    have := hown j hno d hj
    unfold isConstraintArgument at this
    have h2 : g.keys.any (fun x => x.eq d.key) = true := List.any_eq_true.mpr ⟨k, hk, sub_eq hs⟩
    rw [this] at h2; cases h2
  cases hk : g.kind with
  | allOf => unfold GDef.endCheck; rw [hk]
  | anyOf => unfold GDef.endCheck; rw [hk]
  | oneOf => unfold GDef.endCheck; rw [hk]
  | differ =>
    obtain ⟨kd, _, hnames⟩ := (hva g hg).1 hk
    obtain ⟨hmap, hlt⟩ := group_valueHandlers_view hd hb hn hlen g.keys (by
      intro k hkm
      obtain ⟨j, d, hj, hs, _⟩ := hnames k hkm
      exact ⟨j, d, hj, hs, hin k hkm j d hj hs⟩)
    unfold GDef.endCheck
    rw [hk]
    dsimp only
    rw [differOuter_ok_iff, differOuter_ok_iff, hmap]
    constructor
    · intro h a1 h1 hv1 a2 h2 hne hv2
      have := h (ia.getD a1.1 0, a1.2) (List.mem_map.mpr ⟨a1, h1, rfl⟩) hv1 (ia.getD a2.1 0, a2.2)
        (List.mem_map.mpr ⟨a2, h2, rfl⟩) (by
          intro hc; exact hne (getD_inj hn (hlt a1 h1) (hlt a2 h2) hc)) hv2
      exact this
    · intro h b1 h1 hv1 b2 h2 hne hv2
      obtain ⟨a1, ha1, rfl⟩ := List.mem_map.mp h1
      obtain ⟨a2, ha2, rfl⟩ := List.mem_map.mp h2
      exact h a1 ha1 hv1 a2 ha2 (by intro hc; exact hne (by show ia.getD a1.1 0 = ia.getD a2.1 0; rw [hc])) hv2
  | disjoint =>
    obtain ⟨_, hnames⟩ := (hva g hg).2 hk
    obtain ⟨hmap, _⟩ := group_valueHandlers_view hd hb hn hlen g.keys (by
      intro k hkm
      obtain ⟨j, d, hj, hs, _⟩ := hnames k hkm
      exact ⟨j, d, hj, hs, hin k hkm j d hj hs⟩)
    unfold GDef.endCheck
    rw [hk]
    dsimp only
    rw [hmap]
    generalize valueHandlers (pick ia cfg.args) (pick ia sts) g.keys = l
    -- `disjointCheck` does not look at the indices
    match l with
    | [] => exact Iff.rfl
    | [_] => exact Iff.rfl
    | _ :: _ :: _ => exact Iff.rfl

end CelmaVerif.ProgArgs
