import CelmaVerif.Lemmas.GroupsEval
/-
  Concrete configurations for the non-vacuity examples of Props/C08.lean, and the loop of the pinned
  commit assembled from `offerHead` (NOT part of the validated model files; it only serves to show
  what the two `fix:` commits changed).
-/
namespace CelmaVerif.ProgArgs
open CelmaVerif CelmaVerif.Keys

/-- the loop of `Groups::evalArguments` at the pinned commit: `groupsLoop` with `offerHead` as body -/
def groupsLoopHead : (fuel : Nat) → List (Cfg × HState) → It → Res (List (Cfg × HState))
  | 0, _, _ => .oob "Groups::evalArguments: fuel exhausted"
  | fuel + 1, ms, ai =>
    if ai.atEnd then .ok ms
    else do
      let (ms', ai', r) ← offerHead ms ai
      if r == .unknown then .throw .runtime_error
      else do
        let ai'' ← ai'.step
        groupsLoopHead fuel ms' ai''

/-- the end of `Groups::evalArguments` at the pinned commit: `checkMissingMandatoryCardinality()` only -/
def groupsEndChecksHead : List (Cfg × HState) → Res Unit
  | [] => pure ()
  | (c, h) :: rest => do checkMandatoryCardinality c.args h.args; groupsEndChecksHead rest

/-- `Groups::evalArguments` at the pinned commit -/
def groupsEvalHead (cfg : Cfg) (inits : List DVal) (argMember globMember order : List Nat) (argv : List Word) :
    Res (List (Cfg × HState)) := do
  throwIf order.isEmpty .runtime_error
  let ms := order.map (fun m =>
    let c := memberCfg cfg argMember globMember m
    (c, c.initState (memberInits inits argMember m)))
  let ai ← It.begin argv
  let ms' ← groupsLoopHead (totalChars argv) ms ai
  groupsEndChecksHead ms'
  pure ms'

def kx : Key := ⟨some 'x', []⟩
def ky : Key := ⟨some 'y', []⟩

/-- member 0: `-x` (requires `-y`), `-y`, handler constraint all-of(x;y);
    member 1: multi-value `-m`, `--name` -/
def exCfg : Cfg :=
  { args := [{ key := kx, kind := .flag, vmode := .none, card := .unlimited, constraints := [(.required, [ky])] },
             { key := ky, kind := .flag, vmode := .none, card := .unlimited },
             { key := ⟨some 'm', []⟩, kind := .vecInt, vmode := .required, card := .unlimited, multi := true },
             { key := ⟨none, "name".toList⟩, kind := .str, vmode := .required, card := .unlimited }],
    globals := [{ kind := .allOf, keys := [kx, ky] }],
    abbr := false }

def exInits : List DVal := [.flag false, .flag false, .vec [], .str []]
def exArgMember : List Nat := [0, 0, 1, 1]
def exGlobMember : List Nat := [0]

/-- `-m 1 2 -x -y --name=abc` -/
def exArgvOk : List Word := ["prog".toList, "-m".toList, "1".toList, "2".toList, "-x".toList, "-y".toList, "--name=abc".toList]
/-- `-m 1 -x`: `-x` requires `-y` -/
def exArgvRequires : List Word := ["prog".toList, "-m".toList, "1".toList, "-x".toList]
/-- `-m 1 2 -x 3`: the value `3` follows a flag -/
def exArgvStale : List Word := ["prog".toList, "-m".toList, "1".toList, "2".toList, "-x".toList, "3".toList]

instance (a b : Key) : Decidable (a.Clash b) := by
  unfold Key.Clash Key.shareShort Key.shareLong; infer_instance

theorem exCfg_wf (order : List Nat) (ho : order = [0, 1] ∨ order = [1, 0]) :
    GroupWellFormed exCfg exArgMember exGlobMember order := by
  refine ⟨rfl, ?_, by decide, rfl, rfl, ?_, ?_, ?_, ?_, ?_, ?_⟩
  rotate_left 6
  · intro g hg
    simp only [exCfg, List.mem_cons, List.not_mem_nil, or_false] at hg; subst hg
    exact ⟨fun h => (by cases h), fun h => (by cases h)⟩
  · unfold Disjoint; decide
  · rcases ho with rfl | rfl <;> decide
  · rcases ho with rfl | rfl <;> decide
  · rcases ho with rfl | rfl <;> decide
  · intro a b da db ha hb hne c hc k hk
    have hargs : exCfg.args.length = 4 := rfl
    have halt : a < 4 := hargs ▸ (List.getElem?_eq_some_iff.mp ha).1
    have hblt : b < 4 := hargs ▸ (List.getElem?_eq_some_iff.mp hb).1
    have hall : ∀ a < 4, ∀ b < 4, ∀ da db, exCfg.args[a]? = some da → exCfg.args[b]? = some db →
        exArgMember.getD a 0 ≠ exArgMember.getD b 0 → ∀ c ∈ da.constraints, ∀ k ∈ c.2,
          db.key.eq k = false ∧ ∀ c' ∈ db.constraints, ∀ k' ∈ c'.2, k.eq k' = false := by
      intro a ha
      have : a = 0 ∨ a = 1 ∨ a = 2 ∨ a = 3 := by omega
      intro b hb
      have hb' : b = 0 ∨ b = 1 ∨ b = 2 ∨ b = 3 := by omega
      rcases this with rfl | rfl | rfl | rfl <;> rcases hb' with rfl | rfl | rfl | rfl <;>
        intro da db hda hdb hne c hc k hk <;>
        simp only [exCfg, List.getElem?_cons_zero, List.getElem?_cons_succ, Option.some.injEq] at hda hdb <;>
        subst hda <;> subst hdb <;>
        first
          | (exfalso; exact hne rfl)
          | (exfalso; simp at hc; done)
          | (obtain rfl : c = (CType.required, [ky]) := (by simpa using hc);
             obtain rfl : k = ky := (by simpa using hk);
             exact ⟨(by decide), (by intro c' hc'; cases hc')⟩)
    exact hall a halt b hblt da db ha hb hne c hc k hk
  · intro g b gd db hg hb hne
    have hargs : exCfg.args.length = 4 := rfl
    have hglob : exCfg.globals.length = 1 := rfl
    have hglt : g < 1 := hglob ▸ (List.getElem?_eq_some_iff.mp hg).1
    have hblt : b < 4 := hargs ▸ (List.getElem?_eq_some_iff.mp hb).1
    have hg0 : g = 0 := by omega
    subst hg0
    have hb' : b = 0 ∨ b = 1 ∨ b = 2 ∨ b = 3 := by omega
    simp only [exCfg, List.getElem?_cons_zero, Option.some.injEq] at hg
    subst hg
    rcases hb' with rfl | rfl | rfl | rfl <;>
      simp only [exCfg, List.getElem?_cons_zero, List.getElem?_cons_succ, Option.some.injEq] at hb <;>
      subst hb <;>
      first
        | (exfalso; exact hne rfl)
        | decide

/-- member 0: `-p`, `-b` (int) with the value constraint differ(p;b); member 1: the flag `-q` -/
def exCfgV : Cfg :=
  { args := [{ key := ⟨some 'p', []⟩, kind := .int, vmode := .required, card := .unlimited },
             { key := ⟨some 'b', []⟩, kind := .int, vmode := .required, card := .unlimited },
             { key := ⟨some 'q', []⟩, kind := .flag, vmode := .none, card := .unlimited }],
    globals := [{ kind := .differ, keys := [⟨some 'p', []⟩, ⟨some 'b', []⟩] }],
    abbr := false }

def exInitsV : List DVal := [.int 0, .int 0, .flag false]
/-- `-p 3 -q -b 3` -/
def exArgvVSame : List Word := ["prog".toList, "-p".toList, "3".toList, "-q".toList, "-b".toList, "3".toList]
/-- `-p 3 -q -b 4` -/
def exArgvVDiff : List Word := ["prog".toList, "-p".toList, "3".toList, "-q".toList, "-b".toList, "4".toList]

theorem exArgv_plain : ArgvPlain exArgvOk ∧ ArgvPlain exArgvRequires ∧ ArgvPlain exArgvStale := by
  decide

/-- list values: `-m 1,2,3 -x -y --name=a,b -m4,-5` (commas in a value word, in the value attached to a
    long key, in the value attached to a short key) -/
def exArgvList : List Word :=
  ["prog".toList, "-m".toList, "1,2,3".toList, "-x".toList, "-y".toList, "--name=a,b".toList, "-m4,-5".toList]

theorem exArgvList_plain : ArgvPlain exArgvList := by decide

/-- the comma-in-key witness is outside `ArgvPlain`, and so is the inversion word -/
theorem exArgv_not_plain : ¬ ArgvPlain ["p".toList, "--x,lll".toList] ∧ ¬ ArgvPlain ["p".toList, "-x".toList, "!".toList] ∧
    ¬ ArgvPlain ["p".toList, "-a-x,lll".toList] := by decide

/-! ### members and cursors for the dispatch examples -/

/-- member 0 of `exCfg` (`-x`, `-y`) in its initial state -/
def exM0 : Cfg × HState := (memberCfg exCfg exArgMember exGlobMember 0,
  (memberCfg exCfg exArgMember exGlobMember 0).initState (memberInits exInits exArgMember 0))
/-- member 1 of `exCfg` (`-m` multi-value, `--name`) in its initial state -/
def exM1 : Cfg × HState := (memberCfg exCfg exArgMember exGlobMember 1,
  (memberCfg exCfg exArgMember exGlobMember 1).initState (memberInits exInits exArgMember 1))
/-- member 1 after it handled `-m` (its argument 0) -/
def exM1m : Cfg × HState := (exM1.1, { exM1.2 with lastArg := some 0 })

/-- the cursor on the key element `-y` of `p -y` (what `It.begin` returns) -/
def exItKey : It :=
  { argv := ["p".toList, "-y".toList], argIndex := 2, charPos := 0, cur := Elem.setArgChar 1 1 'y', curLen := 2 }
/-- the cursor on the free value `2,3` of `p -m 1 2,3` -/
def exItVal : It :=
  { argv := ["p".toList, "-m".toList, "1".toList, "2,3".toList], argIndex := 4, charPos := 0,
    cur := Elem.setValue 3 "2,3".toList, curLen := 3 }

end CelmaVerif.ProgArgs
