import CelmaVerif.Lemmas.GroupsStepKey
/-
  The loop iteration for a value element and for a control element, and the iteration as a whole.
-/
namespace CelmaVerif.ProgArgs
open CelmaVerif CelmaVerif.Keys

theorem findArg_pos_none {cfg : Cfg} (habbr : cfg.abbr = false) (hnopos : ∀ d ∈ cfg.args, d.key.eq Key.pos = false) :
    findArg cfg.abbr cfg.table Key.pos = .ok none := by
  rw [habbr]
  apply findArg_noabbr_none
  intro e he
  unfold Cfg.table at he
  rw [List.mem_map] at he
  obtain ⟨d, hd, rfl⟩ := he
  exact hnopos d hd

theorem view_findArg_pos_none {cfg : Cfg} (habbr : cfg.abbr = false)
    (hnopos : ∀ d ∈ cfg.args, d.key.eq Key.pos = false) (w : View) :
    findArg (viewCfg cfg w).abbr (viewCfg cfg w).table Key.pos = .ok none := by
  apply findArg_pos_none (cfg := viewCfg cfg w) habbr
  intro d hd
  obtain ⟨a, _, hda⟩ := pick_mem hd
  exact hnopos d (List.mem_of_getElem? hda)

theorem clear_none (h : HState) (hl : h.lastArg = none) : ({ h with lastArg := none } : HState) = h := by
  cases h
  simp only at hl
  subst hl
  rfl

/-- value element, the last argument of the merged handler takes several values -/
theorem step_value_multi {cfg : Cfg} {vs : List View} (wf : GroupWF cfg vs) {H : HState} (hinv : HInv cfg vs H)
    {ms : List (Cfg × HState)} (hrel : GRel cfg H vs ms) {ai : It}
    (hty : ai.cur.ty = .value ∨ ai.cur.ty = .invalid) {i : Nat} {d : ArgDef}
    (hl : H.lastArg = some i) (hd : cfg.args[i]? = some d) (hmulti : d.multi = true) (isKey : Bool) :
    StepRel cfg vs (evalSingleArgument cfg H ai) (offer isKey ms ai) := by
  have hilt : i < cfg.args.length := (List.getElem?_eq_some_iff.mp hd).1
  obtain ⟨v, hv, hiv⟩ := wf.acover i hilt
  obtain ⟨loc, hloc⟩ := idxOf?_of_mem hiv
  obtain ⟨vpre, vpost, hvs⟩ := List.append_of_mem hv
  have hrel' := hrel
  rw [hvs] at hrel'
  obtain ⟨pre, h, post, hms, rpre, rmem, rpost⟩ := GRel_split hrel'
  have hapart := wf.apart
  rw [hvs, List.pairwise_append] at hapart
  obtain ⟨_, hap2, hap3⟩ := hapart
  rw [List.pairwise_cons] at hap2
  have hpre_notmem : ∀ w ∈ vpre, i ∉ w.ia := fun w hw hiw => hap3 w hw v (List.mem_cons_self ..) i hiw hiv
  have hpost_notmem : ∀ w ∈ vpost, i ∉ w.ia := fun w hw => hap2.1 w hw i hiv
  have hpre_vs : ∀ w ∈ vpre, w ∈ vs := fun w hw => by rw [hvs]; exact List.mem_append_left _ hw
  have hpost_vs : ∀ w ∈ vpost, w ∈ vs := fun w hw => by
    rw [hvs]; exact List.mem_append_right _ (List.mem_cons_of_mem _ hw)
  have hb : ∀ a ∈ v.ia, a < H.args.length := fun a ha => hinv.alen ▸ wf.abound v hv a ha
  have hbc : ∀ a ∈ v.ia, a < cfg.args.length := wf.abound v hv
  -- the members in front do not take the value
  have hskip : ∀ m ∈ pre, evalSingleArgument m.1 m.2 ai = .ok ({ m.2 with lastArg := none }, ai, .unknown) := by
    intro m hm
    obtain ⟨w, hw, hmw, hmr⟩ := GRel_mem rpre m hm
    have hlast : m.2.lastArg = none := by rw [hmr.last, hl]; exact idxOf?_none_of_notmem (hpre_notmem w hw)
    rw [clear_none m.2 hlast]
    apply evalSingleArgument_value_nomulti m.1 m.2 ai hty
    · intro j dj hj; rw [hlast] at hj; cases hj
    · rw [hmw]; exact view_findArg_pos_none wf.abbr wf.nopos w
  -- the owner does
  have hlast : h.lastArg = some loc := by rw [rmem.last, hl]; exact hloc
  have hdv : (viewCfg cfg v).args[loc]? = some d := by
    show (pick v.ia cfg.args)[loc]? = some d
    rw [pick_at hbc hloc]; exact hd
  have hown := evalSingleArgument_value_multi (viewCfg cfg v) h ai hty loc d hlast hdv hmulti
  rw [assignValue_owner cfg v H h i loc d ai.cur.val false rmem.args rmem.pending
    (by rw [rmem.inverted, hinv.inverted]) (by rw [rmem.fromSrc, hinv.fromSrc]) hb (wf.nodup v hv) hloc
    (owner_ckeys hiv hd)
    (fun e he c hc k' hk' hek => owner_pending_ckey wf hv hiv hd e.1 (hinv.pend e he) c hc k' hk' hek)] at hown
  rw [evalSingleArgument_value_multi cfg H ai hty i d hl hd hmulti, hms, offer_skip' isKey pre _ ai hskip]
  cases hok : assignValue H i d ai.cur.val false with
  | ok H' =>
    rw [hok] at hown
    simp only [Res.bind_ok, Res.pure_eq] at hown
    rw [offer_hit isKey (viewCfg cfg v) h post ai _ ai .consumed hown (by simp)]
    simp only [Res.bind_ok, Res.pure_eq]
    refine Or.inr ⟨rfl, _, rfl, hinv_assign hinv hv hiv hd hok, ?_⟩
    rw [hvs]
    obtain ⟨_, _, _, _, e4, _, _, _⟩ := assignValue_ok_g hok
    apply GRel_join
    · exact GRel_clear rpre (fun w hw hw' hm =>
        (memrel_other_assign wf hd hl hok (hpre_vs w hw) (hpre_notmem w hw) hm).2)
    · exact ⟨rfl, rmem.globals.trans (by
          obtain ⟨_, _, _, e3, _⟩ := assignValue_ok_g hok
          rw [e3]), rfl, by rw [e4, hl]; exact hlast.trans hloc.symm, rmem.inverted, rmem.fromSrc⟩
    · cases isKey with
      | true =>
        exact GRel_clear rpost (fun w hw hw' hm =>
          (memrel_other_assign wf hd hl hok (hpost_vs w hw) (hpost_notmem w hw) hm).2)
      | false =>
        exact GRel_keep rpost (fun w hw hw' hm =>
          (memrel_other_assign wf hd hl hok (hpost_vs w hw) (hpost_notmem w hw) hm).1)
  | throw e =>
    rw [hok] at hown
    rw [offer_throw isKey (viewCfg cfg v) h post ai e hown]
    rfl
  | oob w =>
    rw [hok] at hown
    rw [offer_oob isKey (viewCfg cfg v) h post ai w hown]
    rfl

/-- value element, no multi-value last argument: nobody takes it -/
theorem step_value_nomulti {cfg : Cfg} {vs : List View} (wf : GroupWF cfg vs) {H : HState}
    {ms : List (Cfg × HState)} (hrel : GRel cfg H vs ms) {ai : It}
    (hty : ai.cur.ty = .value ∨ ai.cur.ty = .invalid)
    (hl : ∀ i d, H.lastArg = some i → cfg.args[i]? = some d → d.multi = false) (isKey : Bool) :
    StepRel cfg vs (evalSingleArgument cfg H ai) (offer isKey ms ai) := by
  rw [evalSingleArgument_value_nomulti cfg H ai hty hl (findArg_pos_none wf.abbr wf.nopos)]
  obtain ⟨ms', hms'⟩ := offer_all_unknown isKey ai ms (by
    intro m hm
    obtain ⟨w, hw, hmw, hmr⟩ := GRel_mem hrel m hm
    refine ⟨m.2, ?_⟩
    apply evalSingleArgument_value_nomulti m.1 m.2 ai hty
    · intro loc dl hloc hdl
      rw [hmr.last] at hloc
      cases hH : H.lastArg with
      | none => rw [hH] at hloc; cases hloc
      | some i =>
        rw [hH] at hloc
        simp only [Option.bind_some] at hloc
        rw [hmw] at hdl
        have : (pick w.ia cfg.args)[loc]? = some dl := hdl
        rw [pick_at (wf.abound w hw) hloc] at this
        exact hl i dl hH this
    · rw [hmw]; exact view_findArg_pos_none wf.abbr wf.nopos w)
  exact Or.inl ⟨rfl, ms', hms'⟩

/-- what the simulation needs to know about the element under the cursor -/
structure ElemPlain (ai : It) : Prop where
  /-- a long key typed on the command line designates a single key (no `short,long` pair) -/
  single : ai.cur.ty = .stringArg → ∀ k, wordKey ai.cur.str = .ok k → k.Single
  /-- the only control characters are the brackets (no `!`) -/
  ctrl : ai.cur.ty = .control → (ai.cur.ch == '(' || ai.cur.ch == ')') = true

theorem ofChar_single (c : Char) : (Key.ofChar c).Single := Or.inr rfl

/-- One iteration: for every element under the cursor — key, value, bracket — the group's offer
    simulates the merged handler's `evalSingleArgument`. -/
theorem group_step_sim {cfg : Cfg} {vs : List View} (wf : GroupWF cfg vs) (hne : vs ≠ []) {H : HState}
    (hinv : HInv cfg vs H) {ms : List (Cfg × HState)} (hrel : GRel cfg H vs ms) (ai : It) (hp : ElemPlain ai) :
    StepRel cfg vs (evalSingleArgument cfg H ai) (offer (ai.cur.ty != .value) ms ai) := by
  have hfind : ∀ k, ElemKey ai k → k.Single →
      StepRel cfg vs (evalSingleArgument cfg H ai) (offer (ai.cur.ty != .value) ms ai) := by
    intro k hk hs
    have hsafe := findArg_safe cfg.abbr cfg.table k
    cases hf : findArg cfg.abbr cfg.table k with
    | ok r =>
      cases r with
      | none => exact step_key_unknown wf hrel hk hf
      | some p => exact step_key_found wf hinv hrel hk hs (i := p.1) (d := p.2) hf
    | throw e =>
      exfalso
      unfold findArg at hf
      rw [wf.abbr] at hf
      cases hfe : findExact k cfg.table 0 <;> rw [hfe] at hf <;> cases hf
    | oob w => rw [hf] at hsafe; exact hsafe.elim
  have hvalue : (ai.cur.ty = .value ∨ ai.cur.ty = .invalid) →
      StepRel cfg vs (evalSingleArgument cfg H ai) (offer (ai.cur.ty != .value) ms ai) := by
    intro hty
    by_cases hex : ∃ i d, H.lastArg = some i ∧ cfg.args[i]? = some d ∧ d.multi = true
    · obtain ⟨i, d, h1, h2, h3⟩ := hex
      exact step_value_multi wf hinv hrel hty h1 h2 h3 _
    · apply step_value_nomulti wf hrel hty
      intro i d h1 h2
      cases hm : d.multi with
      | false => rfl
      | true => exact absurd ⟨i, d, h1, h2, hm⟩ hex
  have hnonempty : ∃ m rest, ms = m :: rest := by
    cases ms with
    | nil =>
      have := GRel_length hrel
      cases vs with
      | nil => exact absurd rfl hne
      | cons _ _ => simp at this
    | cons m rest => exact ⟨m, rest, rfl⟩
  cases hty : ai.cur.ty with
  | invalid => exact hty ▸ hvalue (Or.inr hty)
  | value => exact hty ▸ hvalue (Or.inl hty)
  | singleCharArg => exact hty ▸ hfind _ (Or.inl ⟨hty, rfl⟩) (ofChar_single _)
  | stringArg =>
    cases hparse : wordKey ai.cur.str with
    | ok k => exact hty ▸ hfind k (Or.inr ⟨hty, hparse⟩) (hp.single hty k hparse)
    | throw e =>
      obtain ⟨m, rest, rfl⟩ := hnonempty
      have h1 : ∀ (c : Cfg) (h : HState), evalSingleArgument c h ai = .throw e := by
        intro c h; unfold evalSingleArgument; rw [hty]; simp only [hparse]; rfl
      rw [h1 cfg H, offer_throw _ m.1 m.2 rest ai e (h1 m.1 m.2)]
      rfl
    | oob w =>
      obtain ⟨m, rest, rfl⟩ := hnonempty
      have h1 : ∀ (c : Cfg) (h : HState), evalSingleArgument c h ai = .oob w := by
        intro c h; unfold evalSingleArgument; rw [hty]; simp only [hparse]; rfl
      rw [h1 cfg H, offer_oob _ m.1 m.2 rest ai w (h1 m.1 m.2)]
      rfl
  | control =>
    have hc := hp.ctrl hty
    have h1 : ∀ (c : Cfg) (h : HState), evalSingleArgument c h ai = .ok (h, ai, .unknown) := by
      intro c h; unfold evalSingleArgument; rw [hty]; simp only [hc, if_true]; rfl
    rw [h1 cfg H]
    obtain ⟨ms', hms'⟩ := offer_all_unknown (ElemType.control != .value) ai ms (fun m _ => ⟨m.2, h1 m.1 m.2⟩)
    exact Or.inl ⟨rfl, ms', hms'⟩

end CelmaVerif.ProgArgs
