import CelmaVerif.Lemmas.SubGroupsMandatory
/-
  A syntactic sufficient condition for "no element of argv resolves to sub-group argument `j`"
  (`∀ it, Reach argv it → ¬ Hits cfg j it`), stated on the WORDS of argv without the cursor:
  every single-character element the cursor can produce is a character of a word (or the
  terminating NUL), every long-key element is `keyText` (the text up to the first `=`) of a suffix
  of a word.  So if no character of any word and no such text of any suffix of any word is a key
  that `findSub` resolves to `j`, no element does.  (Coarse: it also looks at value words and at the
  program name; exact statements need the cursor, i.e. `Reach`.)
-/
namespace CelmaVerif.ProgArgs
open CelmaVerif CelmaVerif.Keys

/-- the name the cursor reads from the text behind a dash: up to the first `=` -/
def keyText (s : Word) : Word :=
  match findEq s with
  | none => s
  | some e => s.take e

/-- where the key material of the current element comes from -/
def ElemFrom (argv : List Word) (it : It) : Prop :=
  (it.cur.ty = .singleCharArg → ∃ i p, getChar argv i p = .ok it.cur.ch) ∧
  (it.cur.ty = .stringArg → ∃ i p s, getSuffix argv i p = .ok s ∧ it.cur.str = keyText s)

theorem elemFrom_other {argv : List Word} {it : It} (h1 : it.cur.ty ≠ .singleCharArg) (h2 : it.cur.ty ≠ .stringArg) :
    ElemFrom argv it := ⟨fun h => absurd h h1, fun h => absurd h h2⟩

theorem mkEnd_from {argv : List Word} {e : It} (h : It.mkEnd argv = .ok e) : e.argv = argv ∧ ElemFrom argv e := by
  unfold It.mkEnd at h
  split at h
  · cases h
  · rw [bind_eq_ok_g] at h
    obtain ⟨w, _, h⟩ := h
    cases h
    exact ⟨rfl, elemFrom_other (by simp) (by simp)⟩

theorem clearRem_ok' {r : Res It} {it' : It} (h : clearRem r = .ok it') :
    ∃ it'', r = .ok it'' ∧ it' = { it'' with remAsValue := false } := by
  cases r with
  | ok x => simp only [clearRem, Res.ok.injEq] at h; exact ⟨x, rfl, h.symm⟩
  | throw e => cases h
  | oob w => cases h

theorem next_from (fuel : Nat) :
    (∀ (it it' : It), it.next fuel = .ok it' → it'.argv = it.argv ∧ ElemFrom it.argv it') ∧
    (∀ (it it' : It), it.determineNextArg fuel = .ok it' → it'.argv = it.argv ∧ ElemFrom it.argv it') := by
  induction fuel with
  | zero =>
    constructor
    · intro it it' h; unfold It.next at h; cases h
    · intro it it' h; unfold It.determineNextArg at h; cases h
  | succ fuel ih =>
    constructor
    · intro it it' h
      unfold It.next at h
      dsimp only at h
      obtain ⟨x, hx, rfl⟩ := clearRem_ok' h
      suffices hx' : x.argv = it.argv ∧ ElemFrom it.argv x from ⟨hx'.1, hx'.2.1, hx'.2.2⟩
      split at hx
      · exact mkEnd_from hx
      · split at hx
        · rw [bind_eq_ok_g] at hx
          obtain ⟨v, _, hx⟩ := hx
          cases hx
          exact ⟨rfl, elemFrom_other (by simp [Elem.setValue]) (by simp [Elem.setValue])⟩
        · rw [bind_eq_ok_g] at hx
          obtain ⟨w, hw, hx⟩ := hx
          split at hx
          · rw [bind_eq_ok_g] at hx
            obtain ⟨c0, hc0, hx⟩ := hx
            split at hx
            · cases hx
              exact ⟨rfl, elemFrom_other (by simp [Elem.setControl]) (by simp [Elem.setControl])⟩
            · split at hx
              · cases hx
                exact ⟨rfl, elemFrom_other (by simp [Elem.setValue]) (by simp [Elem.setValue])⟩
              · split at hx
                · cases hx
                · have := ih.2 _ _ hx; exact this
          · have := ih.2 _ _ hx; exact this
    · intro it it' h
      unfold It.determineNextArg at h
      rw [bind_eq_ok_g] at h
      obtain ⟨c, hc, h⟩ := h
      split at h
      · split at h
        · have := ih.1 _ _ h; exact this
        · rw [bind_eq_ok_g] at h
          obtain ⟨name, hname, h⟩ := h
          split at h
          · rename_i hfe
            cases h
            refine ⟨rfl, fun hh => by simp [Elem.setArgString] at hh, fun _ => ⟨_, _, name, hname, ?_⟩⟩
            simp only [Elem.setArgString, keyText, hfe]
          · rename_i e hfe
            cases h
            refine ⟨rfl, fun hh => by simp [Elem.setArgString] at hh, fun _ => ⟨_, _, name, hname, ?_⟩⟩
            simp only [Elem.setArgString, keyText, hfe]
      · split at h
        · cases h
          exact ⟨rfl, fun _ => ⟨_, _, hc⟩, fun hh => by simp [Elem.setArgChar] at hh⟩
        · cases h
          exact ⟨rfl, fun _ => ⟨_, _, hc⟩, fun hh => by simp [Elem.setArgChar] at hh⟩

theorem begin_from {argv : List Word} {ai : It} (h : It.begin argv = .ok ai) : ai.argv = argv ∧ ElemFrom argv ai := by
  unfold It.begin at h
  split at h
  · exact mkEnd_from h
  · rw [bind_eq_ok_g] at h
    obtain ⟨w, hw, h⟩ := h
    rw [bind_eq_ok_g] at h
    obtain ⟨c0, hc0, h⟩ := h
    split at h
    · split at h
      · cases h
      · exact (next_from 4).2 _ ai h
    · cases h
      exact ⟨rfl, elemFrom_other (by simp [Elem.setValue]) (by simp [Elem.setValue])⟩

theorem reach_from {argv : List Word} : ∀ it, Reach argv it → it.argv = argv ∧ ElemFrom argv it := by
  intro it h
  induction h with
  | begin hb => exact begin_from hb
  | step _ hs ih =>
    have := (next_from 4).1 _ _ hs
    rw [ih.1] at this
    exact this
  | stepRem _ hs ih =>
    have := (next_from 4).1 _ _ hs
    dsimp only at this
    rw [ih.1] at this
    exact this

/-- key `k` is resolved by the lookup over both containers to sub-group argument `j` -/
def hitsKey (cfg : TCfg) (j : Nat) (k : Key) : Bool :=
  match findSub cfg.main.abbr cfg.subTable cfg.main.table k with
  | .ok (some (j', _)) => j' == j
  | _ => false

theorem hitsKey_of {cfg : TCfg} {j : Nat} {k : Key} {d : SubDef}
    (h : findSub cfg.main.abbr cfg.subTable cfg.main.table k = .ok (some (j, d))) : hitsKey cfg j k = true := by
  unfold hitsKey; rw [h]; simp

/-- no text of word `w` is a key for sub-group argument `j`: no character (nor the NUL behind it) as a
    short key, no `keyText` of a suffix as a typed long key -/
def wordNoKeyText (cfg : TCfg) (j : Nat) (w : Word) : Bool :=
  (w ++ ['\x00']).all (fun c => !hitsKey cfg j (Key.ofChar c)) &&
  (List.range (w.length + 1)).all (fun p =>
    match wordKey (keyText (w.drop p)) with
    | .ok k => !hitsKey cfg j k
    | _ => true)

/-- … for every word of argv (program name and value words included: a coarse, purely syntactic test) -/
def noKeyText (cfg : TCfg) (j : Nat) (argv : List Word) : Bool := argv.all (wordNoKeyText cfg j)

theorem getChar_mem {argv : List Word} {i p : Nat} {c : Char} (h : getChar argv i p = .ok c) :
    ∃ w ∈ argv, c ∈ w ++ ['\x00'] := by
  unfold getChar at h
  rw [bind_eq_ok_g] at h
  obtain ⟨w, hw, h⟩ := h
  have hmem : w ∈ argv := by
    unfold getWord at hw
    cases hg : argv[i]? with
    | none => rw [hg] at hw; cases hw
    | some x => rw [hg] at hw; cases hw; exact List.mem_of_getElem? hg
  refine ⟨w, hmem, ?_⟩
  split at h
  · rename_i hlt
    cases h
    rw [List.getD_eq_getElem?_getD, List.getElem?_eq_getElem hlt]
    exact List.mem_append_left _ (by simp)
  · split at h
    · cases h; simp
    · cases h

theorem getSuffix_drop {argv : List Word} {i p : Nat} {s : Word} (h : getSuffix argv i p = .ok s) :
    ∃ w ∈ argv, p ≤ w.length ∧ s = w.drop p := by
  unfold getSuffix at h
  rw [bind_eq_ok_g] at h
  obtain ⟨w, hw, h⟩ := h
  have hmem : w ∈ argv := by
    unfold getWord at hw
    cases hg : argv[i]? with
    | none => rw [hg] at hw; cases hw
    | some x => rw [hg] at hw; cases hw; exact List.mem_of_getElem? hg
  split at h
  · rename_i hle
    cases h
    exact ⟨w, hmem, hle, rfl⟩
  · cases h

/-- **the syntactic test implies the cursor-level hypothesis** -/
theorem noHits_of_noKeyText {cfg : TCfg} {j : Nat} {argv : List Word} (h : noKeyText cfg j argv = true) :
    ∀ it, Reach argv it → ¬ Hits cfg j it := by
  intro it hr hh
  obtain ⟨_, hf⟩ := reach_from it hr
  obtain ⟨k, d, hk, hd⟩ := hh
  have hit := hitsKey_of hd
  unfold noKeyText at h
  rw [List.all_eq_true] at h
  unfold elemKey at hk
  split at hk
  · rename_i hty
    obtain ⟨i, p, hc⟩ := hf.1 hty
    obtain ⟨w, hw, hcw⟩ := getChar_mem hc
    have := h w hw
    unfold wordNoKeyText at this
    rw [Bool.and_eq_true, List.all_eq_true] at this
    have h1 := this.1 _ hcw
    simp only [Option.some.injEq, Res.ok.injEq] at hk
    rw [hk, hit] at h1
    cases h1
  · rename_i hty
    obtain ⟨i, p, s, hs, hstr⟩ := hf.2 hty
    obtain ⟨w, hw, hp, rfl⟩ := getSuffix_drop hs
    have := h w hw
    unfold wordNoKeyText at this
    rw [Bool.and_eq_true, List.all_eq_true, List.all_eq_true] at this
    have h2 := this.2 p (List.mem_range.mpr (by omega))
    simp only [Option.some.injEq] at hk
    rw [← hstr, hk] at h2
    dsimp only at h2
    rw [hit] at h2
    cases h2
  · cases hk

end CelmaVerif.ProgArgs
