import CelmaVerif.Lemmas.LogFiles
/-
  Helper lemmas for C15, part 2: the invariant of the directory + live policy, and its preservation
  by appending to generation 0 and by rolling.
-/
namespace CelmaVerif.LogFiles

/-- `k` generation files exist (numbers 0..k-1), the policy's counter `c` is the size of generation 0,
    `msgs` is everything written so far -/
structure Inv (cfg : Cfg) (fs : Fs) (c : Nat) (msgs : List Msg) (k : Nat) : Prop where
  k_pos : 1 ≤ k
  k_le : k ≤ numGen cfg
  ex : ∀ n, n < k → fs.get n ≠ none
  nex : ∀ n, k ≤ n → fs.get n = none
  cur : ∃ f, fs.get 0 = some f ∧ c = size cfg f ∧ (cfg.kind = .counted → ∀ m ∈ f, 10 ∉ m)
  lim : ∀ n f, fs.get n = some f → GenOk cfg f
  adj : ∀ n g g', fs.get (n + 1) = some g → fs.get n = some g' → cfg.limit < size cfg g + nextCost cfg g'
  suf : retained fs (numGen cfg) <:+ msgs
  all : k < numGen cfg → retained fs (numGen cfg) = msgs

/-- a message is appended to generation 0, which has room for it -/
theorem inv_append {cfg : Cfg} {fs fs' : Fs} {c k : Nat} {msgs : List Msg} {f : File} {m : Msg}
    (hI : Inv cfg fs c msgs k) (h0 : fs.get 0 = some f) (hm : Writable cfg m)
    (hroom : size cfg f + cost cfg m ≤ cfg.limit)
    (h0' : fs'.get 0 = some (f ++ [m])) (hrest : ∀ i, 1 ≤ i → fs'.get i = fs.get i) :
    Inv cfg fs' (c + cost cfg m) (msgs ++ [m]) k := by
  obtain ⟨f0, hf0, hc, hnl⟩ := hI.cur
  have hff : f0 = f := by rw [h0] at hf0; cases hf0; rfl
  subst hff
  have hK := numGen_pos cfg
  have hret : retained fs' (numGen cfg) = retained fs (numGen cfg) ++ [m] := by
    have := retained_append0 (x := [m]) h0 h0' hrest (numGen cfg - 1)
    have e : numGen cfg - 1 + 1 = numGen cfg := by omega
    rw [e] at this; exact this
  refine ⟨hI.k_pos, hI.k_le, ?_, ?_, ?_, ?_, ?_, ?_, ?_⟩
  · intro n hn
    by_cases h : n = 0
    · subst h; rw [h0']; simp
    · rw [hrest n (by omega)]; exact hI.ex n hn
  · intro n hn
    have := hI.k_pos
    rw [hrest n (by omega)]; exact hI.nex n hn
  · refine ⟨f0 ++ [m], h0', ?_, ?_⟩
    · rw [size_append, hc]
    · intro hk x hx
      rcases List.mem_append.mp hx with hx | hx
      · exact hnl hk x hx
      · simp at hx; subst hx; exact hm hk
  · intro n g hg
    by_cases h : n = 0
    · subst h; rw [h0'] at hg; cases hg; left; rw [size_append]; exact hroom
    · rw [hrest n (by omega)] at hg; exact hI.lim n g hg
  · intro n g g' hg hg'
    rw [hrest (n + 1) (by omega)] at hg
    by_cases h : n = 0
    · subst h
      rw [h0'] at hg'; cases hg'
      have := hI.adj 0 g f0 hg h0
      rw [nextCost_append]
      split
      · rename_i he; subst he
        have := cost_pos cfg m
        simp [nextCost] at *; omega
      · exact this
    · rw [hrest n (by omega)] at hg'; exact hI.adj n g g' hg hg'
  · rw [hret]
    obtain ⟨t, ht⟩ := hI.suf
    exact ⟨t, by rw [← ht]; simp⟩
  · intro hk; rw [hret, hI.all hk]

/-- the generations are rolled and generation 0 starts again with `g0` (empty, or the message that did not
    fit — which may be longer than a whole generation) -/
theorem inv_roll {cfg : Cfg} {fs fs' : Fs} {c k : Nat} {msgs : List Msg} {f g0 : File}
    (hI : Inv cfg fs c msgs k) (h0 : fs.get 0 = some f)
    (hg0 : g0 = [] ∨ ∃ m, g0 = [m] ∧ Writable cfg m)
    (hfull : cfg.limit < size cfg f + nextCost cfg g0)
    (h0' : fs'.get 0 = some g0)
    (hshift : ∀ i, 1 ≤ i → i < numGen cfg → fs'.get i = fs.get (i - 1))
    (hbeyond : ∀ i, numGen cfg ≤ i → fs'.get i = none) :
    Inv cfg fs' (size cfg g0) (msgs ++ g0) (min (k + 1) (numGen cfg)) := by
  have hK := numGen_pos cfg
  have hkpos := hI.k_pos
  have hkle := hI.k_le
  have hret : retained fs' (numGen cfg) = retained fs (numGen cfg - 1) ++ g0 := by
    have := retained_shift (numGen cfg) h0' hshift (numGen cfg - 1) (by omega)
    have e : numGen cfg - 1 + 1 = numGen cfg := by omega
    rw [e] at this; exact this
  have hsuf1 : retained fs (numGen cfg - 1) <:+ retained fs (numGen cfg) := by
    have := retained_suffix_succ fs (numGen cfg - 1)
    have e : numGen cfg - 1 + 1 = numGen cfg := by omega
    rw [e] at this; exact this
  have hg0ok : GenOk cfg g0 := by
    rcases hg0 with h | ⟨m, h, hm⟩
    · subst h; left; simp
    · subst h; right; rfl
  refine ⟨by omega, by omega, ?_, ?_, ?_, ?_, ?_, ?_, ?_⟩
  · intro n hn
    by_cases h : n = 0
    · subst h; rw [h0']; simp
    · rw [hshift n (by omega) (by omega)]; exact hI.ex (n - 1) (by omega)
  · intro n hn
    by_cases h : numGen cfg ≤ n
    · exact hbeyond n h
    · rw [hshift n (by omega) (by omega)]; exact hI.nex (n - 1) (by omega)
  · refine ⟨g0, h0', rfl, ?_⟩
    intro hk x hx
    rcases hg0 with h | ⟨m, h, hm⟩
    · subst h; simp at hx
    · subst h; simp at hx; subst hx; exact hm hk
  · intro n g hg
    by_cases h : n = 0
    · subst h; rw [h0'] at hg; cases hg; exact hg0ok
    · by_cases h2 : numGen cfg ≤ n
      · rw [hbeyond n h2] at hg; cases hg
      · rw [hshift n (by omega) (by omega)] at hg; exact hI.lim (n - 1) g hg
  · intro n g g' hg hg'
    by_cases h2 : numGen cfg ≤ n + 1
    · rw [hbeyond (n + 1) h2] at hg; cases hg
    · rw [hshift (n + 1) (by omega) (by omega)] at hg
      by_cases h : n = 0
      · subst h
        rw [h0'] at hg'; cases hg'
        simp only [Nat.zero_add, Nat.sub_self] at hg
        rw [h0] at hg; cases hg
        exact hfull
      · rw [hshift n (by omega) (by omega)] at hg'
        have e : n + 1 - 1 = (n - 1) + 1 := by omega
        rw [e] at hg
        exact hI.adj (n - 1) g g' hg hg'
  · rw [hret]
    obtain ⟨t, ht⟩ := hsuf1.trans hI.suf
    exact ⟨t, by rw [← ht]; simp⟩
  · intro hk
    have hk' : k < numGen cfg := by omega
    rw [hret]
    have hnone : fs.get (numGen cfg - 1) = none := hI.nex _ (by omega)
    have := retained_none (numGen cfg - 1) hnone
    have e : numGen cfg - 1 + 1 = numGen cfg := by omega
    rw [e] at this
    rw [← this, hI.all hk']

end CelmaVerif.LogFiles
