import CelmaVerif.Model.KeysCmdline
import CelmaVerif.Lemmas.Keys
import CelmaVerif.Lemmas.KeysParse
/-
  Lemmas for the command-line half of C05: which lookup key a key word produces
  (`classifyWord`, `cmdKey`), that exact key words select their own entry (`cmdLookup`), tables
  built by `addAll` (well-formed keys, `keysOf`, definition order).
-/
namespace CelmaVerif.Keys
open CelmaVerif

instance (k : Key) : Decidable k.WellFormed := by unfold Key.WellFormed; infer_instance

/-! ### keys produced by the parser -/

/-- a specification without comma gives a key with one part only -/
theorem parse_single_of_no_comma (s : List Char) (hc : ',' ∉ s) (k : Key) (h : Key.parse s = .ok k) :
    k.Single := by
  by_cases hne : s = []
  · subst hne; cases h
  by_cases hsp : ' ' ∈ s
  · unfold Key.parse Key.parseWith at h
    have h0 : ¬ s.length = 0 := by
      cases s with | nil => exact absurd rfl hne | cons _ _ => simp
    have h1 : ¬ s = [KeySeparator] := by
      intro e; rw [e] at hc; exact hc (by simp [KeySeparator])
    rw [if_neg h0, if_neg h1, if_pos (List.contains_iff_mem.mpr hsp)] at h
    cases h
  rw [parse_single_eq s hne hc hsp] at h
  rcases parseSingle_cases s hne with e | ⟨c, e, _⟩ | ⟨n, e, _⟩
  · rw [e] at h; cases h
  · rw [e] at h; cases h; exact Or.inr rfl
  · rw [e] at h; cases h; exact Or.inl rfl

/-! ### tables built by `addAll` -/

theorem addAll_cons {α : Type} (t : List (Key × α)) (sa : List Char × α) (rest : List (List Char × α)) :
    addAll t (sa :: rest) =
      addAll (match addArgumentSpec t sa.1 sa.2 with | .ok t' => t' | _ => t) rest := by
  rfl

/-- one step of `addAll`: the table is unchanged or the parsed key is appended -/
theorem addAll_step {α : Type} (t : List (Key × α)) (sa : List Char × α) :
    (match addArgumentSpec t sa.1 sa.2 with | .ok t' => t' | _ => t) = t ∨
    ∃ k, Key.parse sa.1 = .ok k ∧ (¬ ∃ e ∈ t, e.1.Clash k) ∧
      (match addArgumentSpec t sa.1 sa.2 with | .ok t' => t' | _ => t) = t ++ [(k, sa.2)] := by
  unfold addArgumentSpec
  cases hp : Key.parse sa.1 with
  | throw e => exact Or.inl rfl
  | oob w => exact Or.inl rfl
  | ok k =>
    simp only [Res.bind_ok]
    rcases addArgument_cases t k sa.2 with h | h
    · rw [h]; exact Or.inl rfl
    · rw [h]; exact Or.inr ⟨k, rfl, (addArgument_ok_iff t k sa.2).mp h, rfl⟩

/-- every key stored by `addArgument( spec)` calls is well formed -/
theorem addAll_wellformed {α : Type} (specs : List (List Char × α)) :
    ∀ t : List (Key × α), (∀ e ∈ t, e.1.WellFormed) → ∀ e ∈ addAll t specs, e.1.WellFormed := by
  induction specs with
  | nil => intro t ht; exact ht
  | cons sa rest ih =>
    intro t ht
    rw [addAll_cons]
    apply ih
    rcases addAll_step t sa with h | ⟨k, hp, _, h⟩
    · rw [h]; exact ht
    · rw [h]
      intro e he
      rcases List.mem_append.mp he with he | he
      · exact ht e he
      · simp only [List.mem_singleton] at he
        subst he
        exact parse_wellformed _ _ hp

theorem keysOf_cons {α : Type} (sa : List Char × α) (rest : List (List Char × α)) :
    keysOf (sa :: rest) =
      (match Key.parse sa.1 with | .ok k => [(k, sa.2)] | _ => []) ++ keysOf rest := by
  unfold keysOf
  rw [List.filterMap_cons]
  cases Key.parse sa.1 <;> rfl

/-- when no two of the specified keys clash (with each other or with what is stored already), every
    parsable specification is accepted and the table is the list of their keys in definition order -/
theorem addAll_eq_keysOf {α : Type} (specs : List (List Char × α)) :
    ∀ t : List (Key × α), Disjoint (t ++ keysOf specs) → addAll t specs = t ++ keysOf specs := by
  induction specs with
  | nil => intro t _; simp [addAll, keysOf]
  | cons sa rest ih =>
    intro t hd
    rw [addAll_cons, keysOf_cons] at *
    unfold addArgumentSpec
    cases hp : Key.parse sa.1 with
    | throw e =>
      rw [hp] at hd
      simp only [Res.bind_throw, List.nil_append] at hd ⊢
      exact ih t hd
    | oob w =>
      rw [hp] at hd
      simp only [Res.bind_oob, List.nil_append] at hd ⊢
      exact ih t hd
    | ok k =>
      rw [hp] at hd
      simp only [Res.bind_ok]
      have hd' : Disjoint ((t ++ [(k, sa.2)]) ++ keysOf rest) := by
        simpa [List.append_assoc] using hd
      have hno : ¬ ∃ e ∈ t, e.1.Clash k := by
        rintro ⟨e, he, hc⟩
        unfold Disjoint at hd
        rw [List.pairwise_append] at hd
        exact hd.2.2 e he (k, sa.2) (by simp) hc
      rw [(addArgument_ok_iff t k sa.2).mpr hno]
      simp only
      rw [ih _ hd']
      simp [List.append_assoc]

theorem keysOf_perm {α : Type} {s₁ s₂ : List (List Char × α)} (hp : s₁.Perm s₂) :
    (keysOf s₁).Perm (keysOf s₂) := by
  unfold keysOf
  exact hp.filterMap _

/-! ### key words of the command line -/

theorem ofChar_of_ne_nul (c : Char) (hc : c ≠ '\x00') : Key.ofChar c = ⟨some c, []⟩ := by
  unfold Key.ofChar mkShort; rw [if_neg hc]

theorem classifyWord_short (c : Char) (hc : c ≠ '-') : classifyWord ['-', c] = some (.short c) := by
  simp [classifyWord, hc]

theorem classifyWord_long (name : List Char) (hne : name ≠ []) (heq : '=' ∉ name) :
    classifyWord ('-' :: '-' :: name) = some (.long name) := by
  cases name with
  | nil => exact absurd rfl hne
  | cons a r =>
    cases r with
    | nil =>
      -- the word has three characters: the first pattern (`['-', c]`) does not apply
      unfold classifyWord
      simp only [List.cons_ne_nil, false_or]
      rw [if_neg heq]
    | cons b r' =>
      unfold classifyWord
      simp only [List.cons_ne_nil, false_or]
      rw [if_neg heq]

/-- the word `-c` is looked up with the short key `c` -/
theorem cmdLookup_short {α : Type} (abbr : Bool) (t : List (Key × α)) (c : Char) (h1 : c ≠ '-')
    (h2 : c ≠ '\x00') : cmdLookup abbr t ['-', c] = findArg abbr t ⟨some c, []⟩ := by
  unfold cmdLookup
  rw [classifyWord_short c h1]
  simp only [cmdKey, Res.bind_ok, ofChar_of_ne_nul c h2]

/-- the word `--name` is looked up with `wordKey name`: the key the *specification* parser makes of
    `name`, of `--name` when the name has one character -/
theorem cmdLookup_long {α : Type} (abbr : Bool) (t : List (Key × α)) (name : List Char) (hne : name ≠ [])
    (heq : '=' ∉ name) :
    cmdLookup abbr t ('-' :: '-' :: name) = (wordKey name >>= fun k => findArg abbr t k) := by
  unfold cmdLookup
  rw [classifyWord_long name hne heq]
  rfl

/-- the pinned code: every name went through the specification parser as it was typed -/
theorem cmdLookupHead_long {α : Type} (abbr : Bool) (t : List (Key × α)) (name : List Char) (hne : name ≠ [])
    (heq : '=' ∉ name) :
    cmdLookupHead abbr t ('-' :: '-' :: name) = (Key.parse name >>= fun k => findArg abbr t k) := by
  unfold cmdLookupHead
  rw [classifyWord_long name hne heq]
  rfl

/-- every word `--w`, one-character words included, is looked up with the long key `w` -/
theorem cmdLookup_word {α : Type} (abbr : Bool) (t : List (Key × α)) (w : List Char) (hw : KeyWord w)
    (heq : '=' ∉ w) : cmdLookup abbr t ('-' :: '-' :: w) = findArg abbr t ⟨none, w⟩ := by
  rw [cmdLookup_long abbr t w hw.1 heq, wordKey_word w hw]; rfl

theorem keyWord_of_keyChar {c : Char} (hc : KeyChar c) : KeyWord [c] := by
  obtain ⟨c1, c2, c3, _⟩ := hc
  refine ⟨by simp, ?_, ?_, ?_⟩
  · simp only [List.head?_cons, ne_eq, Option.some.injEq]; exact c1
  · simp only [List.mem_singleton]; exact fun h => c2 h.symm
  · simp only [List.mem_singleton]; exact fun h => c3 h.symm

/-- a single character behind two dashes is looked up with the **long** key of that character (the
    two dashes are put back before the name goes through the specification parser) -/
theorem cmdLookup_one_char {α : Type} (abbr : Bool) (t : List (Key × α)) (c : Char) (hc : KeyChar c)
    (heq : c ≠ '=') : cmdLookup abbr t ['-', '-', c] = findArg abbr t ⟨none, [c]⟩ :=
  cmdLookup_word abbr t [c] (keyWord_of_keyChar hc) (by simp [Ne.symm heq])

/-- the pinned code looked a single character behind two dashes up with the **short** key (the name
    went through the specification parser, for which a lone character is a short key) -/
theorem cmdLookupHead_one_char {α : Type} (abbr : Bool) (t : List (Key × α)) (c : Char) (hc : KeyChar c)
    (heq : c ≠ '=') : cmdLookupHead abbr t ['-', '-', c] = findArg abbr t ⟨some c, []⟩ := by
  rw [cmdLookupHead_long abbr t [c] (by simp) (by simp [Ne.symm heq])]
  have := wordKeyHead_one c hc
  unfold wordKeyHead at this
  rw [this]; rfl

/-- one extra dash before a character, one or two extra dashes before a word: the specification
    parser removes them, so `---c` is `-c` and `---word`, `----word` are `--word` -/
theorem cmdLookup_extra_dashes {α : Type} (abbr : Bool) (t : List (Key × α)) (c : Char) (w : List Char)
    (hc : KeyChar c) (hce : c ≠ '=') (hw : KeyWord w) (heq : '=' ∉ w) (hlen : 2 ≤ w.length) :
    cmdLookup abbr t ['-', '-', '-', c] = findArg abbr t ⟨some c, []⟩ ∧
    cmdLookup abbr t ('-' :: '-' :: '-' :: w) = findArg abbr t ⟨none, w⟩ ∧
    cmdLookup abbr t ('-' :: '-' :: '-' :: '-' :: w) = findArg abbr t ⟨none, w⟩ := by
  have hf := parse_forms c w hc hw
  refine ⟨?_, ?_, ?_⟩
  · rw [cmdLookup_long abbr t ['-', c] (by simp) (by simp [Ne.symm hce]),
      wordKey_of_ne_one ['-', c] (by simp)]
    have := hf.1 ['-'] (by simp)
    rw [show ['-'] ++ [c] = ['-', c] from rfl] at this
    rw [this]; rfl
  · rw [cmdLookup_long abbr t ('-' :: w) (by simp) (by simp [heq]),
      wordKey_of_two_le ('-' :: w) (by simp only [List.length_cons]; omega)]
    have := hf.2.1 hlen ['-'] (by simp)
    rw [show ['-'] ++ w = '-' :: w from rfl] at this
    rw [this]; rfl
  · rw [cmdLookup_long abbr t ('-' :: '-' :: w) (by simp) (by simp [heq]),
      wordKey_of_two_le ('-' :: '-' :: w) (by simp only [List.length_cons]; omega)]
    have := hf.2.1 hlen ['-', '-'] (by simp)
    rw [show ['-', '-'] ++ w = '-' :: '-' :: w from rfl] at this
    rw [this]; rfl

theorem keyWord_of_wellformed {k : Key} (h : k.WellFormed) (hne : k.long ≠ []) : KeyWord k.long :=
  ⟨hne, h.2.2.2.2.1, h.2.2.2.2.2.1, h.2.2.2.2.2.2⟩

/-- the command-line clause without a proviso on the length: an exact long key of any length selects
    its own argument -/
theorem cmdline_exact_long {α : Type} (abbr : Bool) (t : List (Key × α)) (ht : Disjoint t)
    (e : Key × α) (he : e ∈ t) (hwf : e.1.WellFormed) (hne : e.1.long ≠ []) (heq : '=' ∉ e.1.long) :
    payload (cmdLookup abbr t ('-' :: '-' :: e.1.long)) = .ok (some e.2) := by
  rw [cmdLookup_word abbr t e.1.long (keyWord_of_wellformed hwf hne) heq]
  exact findArg_exact abbr t ht e he _ (Or.inl rfl) (Or.inr (Or.inl ⟨hne, rfl⟩))

/-- a key word whose name has no comma gives a one-part key (also the one-character name, which is
    looked up as `--c`) -/
theorem wordKey_single_of_no_comma (name : List Char) (hc : ',' ∉ name) (k : Key) (h : wordKey name = .ok k) :
    k.Single := by
  unfold wordKey at h
  split at h
  · refine parse_single_of_no_comma _ ?_ k h
    intro hm
    simp only [List.mem_cons] at hm
    rcases hm with e | e | e
    · cases e
    · cases e
    · exact hc e
  · exact parse_single_of_no_comma _ hc k h

end CelmaVerif.Keys
