import CelmaVerif.Lemmas.RulesBase
/-
  Rules layer, value constraints (differ / disjoint), part 1: the comparison of two destinations, the
  sorted copies and the intersection walk, and the two loops of `ValueConstraintDiffer` — each
  against its plain mathematical reading.  Nothing here refers to a configuration.
-/
namespace CelmaVerif.ProgArgs
open CelmaVerif CelmaVerif.Keys

/-! ### `compareValue` -/

theorem wordLt_irrefl : ∀ (a : Word), wordLt a a = false := by
  intro a
  induction a with
  | nil => rfl
  | cons c cs ih => simp [wordLt, ih]

/-- neither string is smaller than the other: they are the same string -/
theorem wordLt_antisymm : ∀ (a b : Word), wordLt a b = false → wordLt b a = false → a = b := by
  intro a
  induction a with
  | nil =>
    intro b h1 _
    cases b with
    | nil => rfl
    | cons c cs => simp [wordLt] at h1
  | cons x xs ih =>
    intro b h1 h2
    cases b with
    | nil => simp [wordLt] at h2
    | cons y ys =>
      simp only [wordLt] at h1 h2
      by_cases hxy : x.toNat < y.toNat
      · rw [if_pos hxy] at h1; cases h1
      · rw [if_neg hxy] at h1
        by_cases hyx : y.toNat < x.toNat
        · rw [if_pos hyx] at h2; cases h2
        · rw [if_neg hyx] at h1 h2
          rw [if_neg hxy] at h2
          have hc : x = y := Char.toNat_inj.mp (by omega)
          rw [hc, ih ys h1 h2]

/-- `compareValue` of two int destinations returns 0 exactly for equal values -/
theorem compareValue_int (x y : Int) :
    ∃ c, compareValue .int (.int x) (.int y) = .ok c ∧ (c = 0 ↔ x = y) := by
  refine ⟨if x < y then -1 else if y < x then 1 else 0, rfl, ?_⟩
  constructor
  · intro hc
    split at hc
    · omega
    · split at hc <;> omega
  · intro he
    subst he
    simp

theorem compareValue_str (x y : Word) :
    ∃ c, compareValue .str (.str x) (.str y) = .ok c ∧ (c = 0 ↔ x = y) := by
  refine ⟨if wordLt x y then -1 else if wordLt y x then 1 else 0, rfl, ?_⟩
  constructor
  · intro hc
    cases h1 : wordLt x y <;> cases h2 : wordLt y x <;> simp [h1, h2] at hc
    exact wordLt_antisymm x y h1 h2
  · intro he
    subst he
    simp [wordLt_irrefl]

/-- equal destinations compare as equal (whatever they hold) -/
theorem compareValue_self {k : Kind} {a : DVal} {c : Int} (h : compareValue k a a = .ok c) : c = 0 := by
  unfold compareValue at h
  split at h
  · cases h; simp
  · cases h; simp [wordLt_irrefl]
  · cases h

/-- for an int / string argument the comparison always returns -/
theorem compareValue_scalar {k : Kind} (hk : k = .int ∨ k = .str) (a b : DVal) : ∃ c, compareValue k a b = .ok c := by
  rcases hk with rfl | rfl <;> exact ⟨_, rfl⟩

/-! ### sorted copies -/

theorem mem_insertSorted (x : Int) : ∀ (l : List Int) (y : Int), y ∈ insertSorted x l ↔ y = x ∨ y ∈ l := by
  intro l
  induction l with
  | nil => intro y; simp [insertSorted]
  | cons a as ih =>
    intro y
    simp only [insertSorted]
    split
    · simp
    · simp only [List.mem_cons, ih]
      constructor
      · rintro (h | h | h)
        · exact Or.inr (Or.inl h)
        · exact Or.inl h
        · exact Or.inr (Or.inr h)
      · rintro (h | h | h)
        · exact Or.inr (Or.inl h)
        · exact Or.inl h
        · exact Or.inr (Or.inr h)

theorem mem_sortInts : ∀ (l : List Int) (y : Int), y ∈ sortInts l ↔ y ∈ l := by
  intro l
  induction l with
  | nil => intro y; simp [sortInts]
  | cons a as ih => intro y; simp only [sortInts, mem_insertSorted, ih, List.mem_cons]

theorem length_insertSorted (x : Int) : ∀ (l : List Int), (insertSorted x l).length = l.length + 1 := by
  intro l
  induction l with
  | nil => rfl
  | cons a as ih =>
    simp only [insertSorted]
    split
    · simp
    · simp [ih]

theorem length_sortInts : ∀ (l : List Int), (sortInts l).length = l.length := by
  intro l
  induction l with
  | nil => rfl
  | cons a as ih => simp only [sortInts, length_insertSorted, ih, List.length_cons]

theorem sorted_insertSorted (x : Int) : ∀ (l : List Int), l.Pairwise (· ≤ ·) → (insertSorted x l).Pairwise (· ≤ ·) := by
  intro l
  induction l with
  | nil => intro _; simp [insertSorted]
  | cons a as ih =>
    intro hp
    rw [List.pairwise_cons] at hp
    simp only [insertSorted]
    split
    · rename_i hxa
      rw [List.pairwise_cons]
      refine ⟨?_, List.pairwise_cons.mpr hp⟩
      intro y hy
      rcases List.mem_cons.mp hy with rfl | hy
      · exact hxa
      · exact Int.le_trans hxa (hp.1 y hy)
    · rename_i hxa
      rw [List.pairwise_cons]
      refine ⟨?_, ih hp.2⟩
      intro y hy
      rcases (mem_insertSorted x as y).mp hy with rfl | hy
      · omega
      · exact hp.1 y hy

theorem sorted_sortInts : ∀ (l : List Int), (sortInts l).Pairwise (· ≤ ·) := by
  intro l
  induction l with
  | nil => simp [sortInts]
  | cons a as ih => exact sorted_insertSorted a _ ih

/-! ### the intersection walk -/

/-- over two sorted sequences, with enough iterations, the walk finds a common value exactly when
    there is one -/
theorem intersectWalk_iff : ∀ (fuel : Nat) (l1 l2 : List Int), l1.length + l2.length < fuel →
    l1.Pairwise (· ≤ ·) → l2.Pairwise (· ≤ ·) →
    (intersectWalk fuel l1 l2 = true ↔ ∃ x, x ∈ l1 ∧ x ∈ l2) := by
  intro fuel
  induction fuel with
  | zero => intro l1 l2 h; omega
  | succ fuel ih =>
    intro l1 l2 hf s1 s2
    cases l1 with
    | nil => simp [intersectWalk]
    | cons a as =>
      cases l2 with
      | nil => simp [intersectWalk]
      | cons b bs =>
        simp only [intersectWalk]
        rw [List.pairwise_cons] at s1 s2
        simp only [List.length_cons] at hf
        by_cases hab : a < b
        · rw [if_pos hab]
          rw [ih as (b :: bs) (by simp only [List.length_cons]; omega) s1.2 (List.pairwise_cons.mpr s2)]
          constructor
          · rintro ⟨x, h1, h2⟩; exact ⟨x, List.mem_cons_of_mem _ h1, h2⟩
          · rintro ⟨x, h1, h2⟩
            rcases List.mem_cons.mp h1 with rfl | h1
            · -- x = a < b ≤ every element of b :: bs
              exfalso
              rcases List.mem_cons.mp h2 with rfl | h2
              · omega
              · have := s2.1 x h2; omega
            · exact ⟨x, h1, h2⟩
        · rw [if_neg hab]
          by_cases hba : b < a
          · have : (!decide (b < a)) = false := by simp [hba]
            rw [this]
            simp only [Bool.false_eq_true, if_false]
            rw [ih (a :: as) bs (by simp only [List.length_cons]; omega) (List.pairwise_cons.mpr s1) s2.2]
            constructor
            · rintro ⟨x, h1, h2⟩; exact ⟨x, h1, List.mem_cons_of_mem _ h2⟩
            · rintro ⟨x, h1, h2⟩
              rcases List.mem_cons.mp h2 with rfl | h2
              · exfalso
                rcases List.mem_cons.mp h1 with rfl | h1
                · omega
                · have := s1.1 x h1; omega
              · exact ⟨x, h1, h2⟩
          · have : (!decide (b < a)) = true := by simp [hba]
            rw [this]
            simp only [if_true, true_iff]
            have : a = b := by omega
            exact ⟨a, List.mem_cons_self, by rw [this]; exact List.mem_cons_self⟩

/-- `hasIntersectionUnsorted`: true exactly when the two lists have a common element -/
theorem hasIntersectionUnsorted_iff (l1 l2 : List Int) :
    hasIntersectionUnsorted l1 l2 = true ↔ ∃ x, x ∈ l1 ∧ x ∈ l2 := by
  unfold hasIntersectionUnsorted
  rw [intersectWalk_iff _ _ _ (by rw [length_sortInts, length_sortInts]; omega) (sorted_sortInts l1) (sorted_sortInts l2)]
  simp only [mem_sortInts]

theorem hasIntersectionUnsorted_false_iff (l1 l2 : List Int) :
    hasIntersectionUnsorted l1 l2 = false ↔ ∀ x, x ∈ l1 → x ∉ l2 := by
  rw [← Bool.not_eq_true, hasIntersectionUnsorted_iff]
  constructor
  · intro h x h1 h2; exact h ⟨x, h1, h2⟩
  · rintro h ⟨x, h1, h2⟩; exact h x h1 h2

/-! ### the loops of `ValueConstraintDiffer::checkEndCondition` -/

/-- what one comparison of the inner loop demands -/
def PairOk (a1 a2 : VArg) : Prop :=
  a1.1 ≠ a2.1 → a2.hasValue = true → ∃ c, compareValue a1.2.1.kind a1.2.2.dest a2.2.2.dest = .ok c ∧ c ≠ 0

theorem differInner_ok_iff (a1 : VArg) : ∀ (l : List VArg),
    differInner a1 l = .ok () ↔ ∀ a2 ∈ l, PairOk a1 a2 := by
  intro l
  induction l with
  | nil => simp [differInner]
  | cons a2 rest ih =>
    simp only [differInner, List.mem_cons, forall_eq_or_imp]
    by_cases hc : (a1.1 != a2.1 && a2.hasValue) = true
    · rw [if_pos hc]
      simp only [Bool.and_eq_true, bne_iff_ne, ne_eq] at hc
      cases hcmp : compareValue a1.2.1.kind a1.2.2.dest a2.2.2.dest with
      | ok c =>
        simp only [Res.bind_ok]
        by_cases hz : c = 0
        · subst hz
          simp only [throwIf, BEq.rfl, if_true]
          constructor
          · intro h; cases h
          · rintro ⟨h, _⟩
            obtain ⟨c, h1, h2⟩ := h hc.1 hc.2
            rw [hcmp] at h1; cases h1; exact absurd rfl h2
        · have : (c == 0) = false := by simpa using hz
          simp only [throwIf, this, Bool.false_eq_true, if_false, Res.bind_ok]
          rw [ih]
          constructor
          · intro h; exact ⟨fun _ _ => ⟨c, hcmp, hz⟩, h⟩
          · intro h; exact h.2
      | throw e =>
        constructor
        · intro h; cases h
        · rintro ⟨h, _⟩
          obtain ⟨c, h1, _⟩ := h hc.1 hc.2
          rw [hcmp] at h1; cases h1
      | oob w =>
        constructor
        · intro h; cases h
        · rintro ⟨h, _⟩
          obtain ⟨c, h1, _⟩ := h hc.1 hc.2
          rw [hcmp] at h1; cases h1
    · rw [if_neg hc]
      show (differInner a1 rest = .ok ()) ↔ _
      rw [ih]
      constructor
      · intro h
        refine ⟨?_, h⟩
        intro h1 h2
        exfalso; apply hc
        simp only [Bool.and_eq_true, bne_iff_ne, ne_eq]
        exact ⟨h1, h2⟩
      · intro h; exact h.2

theorem differOuter_ok_iff (all : List VArg) : ∀ (l : List VArg),
    differOuter all l = .ok () ↔ ∀ a1 ∈ l, a1.hasValue = true → ∀ a2 ∈ all, PairOk a1 a2 := by
  intro l
  induction l with
  | nil => simp [differOuter]
  | cons a1 rest ih =>
    simp only [differOuter, List.mem_cons, forall_eq_or_imp]
    by_cases hv : a1.hasValue = true
    · rw [if_pos hv]
      cases hin : differInner a1 all with
      | ok u =>
        simp only [Res.bind_ok]
        rw [ih]
        have := (differInner_ok_iff a1 all).mp hin
        constructor
        · intro h; exact ⟨fun _ => this, h⟩
        · intro h; exact h.2
      | throw e =>
        constructor
        · intro h; cases h
        · rintro ⟨h, _⟩
          have := (differInner_ok_iff a1 all).mpr (h hv)
          rw [hin] at this; cases this
      | oob w =>
        constructor
        · intro h; cases h
        · rintro ⟨h, _⟩
          have := (differInner_ok_iff a1 all).mpr (h hv)
          rw [hin] at this; cases this
    · rw [if_neg hv]
      show (differOuter all rest = .ok ()) ↔ _
      rw [ih]
      constructor
      · intro h; exact ⟨fun c => absurd c hv, h⟩
      · intro h; exact h.2

/-! ### the stored handlers -/

theorem argIndexOf_some {defs : List ArgDef} {k : Key} {i : Nat} (h : argIndexOf defs k = some i) :
    ∃ d, defs[i]? = some d ∧ k.eq d.key = true := by
  unfold argIndexOf at h
  obtain ⟨hlt, hp, _⟩ := List.findIdx?_eq_some_iff_getElem.mp h
  exact ⟨defs[i], List.getElem?_eq_getElem hlt, hp⟩

theorem mem_valueHandlers {defs : List ArgDef} {sts : List ArgSt} {keys : List Key} {a : VArg} :
    a ∈ valueHandlers defs sts keys ↔
      ∃ k ∈ keys, ∃ d, argIndexOf defs k = some a.1 ∧ defs[a.1]? = some d ∧ a = (a.1, d, sts.getD a.1 default) := by
  unfold valueHandlers
  rw [List.mem_filterMap]
  constructor
  · rintro ⟨k, hk, h⟩
    cases hi : argIndexOf defs k with
    | none => rw [hi] at h; cases h
    | some i =>
      rw [hi] at h
      dsimp only at h
      cases hd : defs[i]? with
      | none => rw [hd] at h; cases h
      | some d =>
        rw [hd] at h
        cases h
        exact ⟨k, hk, d, hi, hd, rfl⟩
  · rintro ⟨k, hk, d, hi, hd, ha⟩
    refine ⟨k, hk, ?_⟩
    rw [hi]; dsimp only; rw [hd]; dsimp only; rw [← ha]

/-! ### checks -/

/-- all checks passed: each single one passed -/
theorem runChecks_ok {cs : List Check} {v : Word} (h : runChecks cs v = .ok ()) : ∀ c ∈ cs, c.run v = .ok () := by
  induction cs with
  | nil => intro c hc; cases hc
  | cons c0 cs ih =>
    simp only [runChecks, bind_eq_ok] at h
    obtain ⟨_, h1, h2⟩ := h
    intro c hc
    rcases List.mem_cons.mp hc with rfl | hc
    · exact h1
    · exact ih h2 c hc

end CelmaVerif.ProgArgs
