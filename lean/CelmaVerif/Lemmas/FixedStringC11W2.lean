import CelmaVerif.Lemmas.FixedStringC11World
/-
  C11 at the level of the operation language, second part: `swap`, the `append` / `operator+=` family,
  `sprintf`, and the `replace` family.  One theorem `c11_<op>` per constructor of `Op`; helper lemmas carry
  the prefix `w2_`.  The `npos`-defaulted substring overloads (`appendSP`, `appendFP`, `repCCSC`, `repCCFC`)
  need no bound on the length of the source: `take (min npos (len - p))` and `take npos` of the text agree.
-/
namespace CelmaVerif.FixedString
open CelmaVerif

variable {c cu : Cfg} {w : World}

theorem c11_swap (hc : CfgOK c) (hw : WFW c cu w) : C11Holds c cu w .swap := by
  intro w' o h
  simp only [step] at h
  cases hsw : swap c w.s w.t with
  | oob x => rw [hsw, bindR_oob] at h; cases h
  | throw e => rw [hsw, bindR_throw] at h; cases h
  | ok p =>
    rw [hsw, bindR_ok] at h
    cases h
    obtain ⟨h1, _⟩ := swap_abs hc hw.1 hw.2.1 hsw
    refine ⟨abs w.t, .unit, rfl, ?_, fun _ => rfl⟩
    show abs p.1 = _
    rw [h1, abs_take_cap hw.2.1]

theorem c11_appendS (hc : CfgOK c) (hw : WFW c cu w) (d : Str) : C11Holds c cu w (.appendS d) := by
  intro w' o h
  simp only [step] at h
  obtain ⟨s', h1, rfl, rfl⟩ := mutS_inv h
  unfold appendS at h1
  have h2 := appendImpl_abs hc hw.1 (a := d ++ [0]) (pos := 0) (count := d.length) (by simp) h1
  rw [List.drop_zero, List.take_left' rfl] at h2
  exact c11_mut rfl h2


theorem c11_addS (hc : CfgOK c) (hw : WFW c cu w) (d : Str) : C11Holds c cu w (.addS d) := by
  intro w' o h
  simp only [step] at h
  obtain ⟨s', h1, rfl, rfl⟩ := mutS_inv h
  unfold appendS at h1
  have h2 := appendImpl_abs hc hw.1 (a := d ++ [0]) (pos := 0) (count := d.length) (by simp) h1
  rw [List.drop_zero, List.take_left' rfl] at h2
  exact c11_mut rfl h2

/-- the text of a well-formed string is a prefix of its buffer -/
theorem w2_buf_take (o : FStr) : (o.buf.drop 0).take o.len = abs o := by
  rw [List.drop_zero]; rfl

theorem w2_wf_len {co : Cfg} {o : FStr} (ho : WF co o) : o.len ≤ o.buf.length := by
  have := ho.1; have := ho.2.1; omega

theorem w2_appendF {co : Cfg} (hc : CfgOK c) {s s' o : FStr} (hs : WF c s) (ho : WF co o)
    (h : appendF c s o = .ok s') : abs s' = (abs s ++ abs o).take c.L := by
  unfold appendF at h
  have h2 := appendImpl_abs hc hs (a := o.buf) (pos := 0) (count := o.len)
    (by have := w2_wf_len ho; omega) h
  rw [w2_buf_take o] at h2
  exact h2

theorem c11_appendF (hc : CfgOK c) (hw : WFW c cu w) (f : Sel) : C11Holds c cu w (.appendF f) := by
  intro w' o h
  simp only [step] at h
  obtain ⟨s', h1, rfl, rfl⟩ := mutS_inv h
  obtain ⟨co, ho⟩ := sel_wf hw f
  exact c11_mut rfl (w2_appendF hc hw.1 ho h1)

theorem c11_addF (hc : CfgOK c) (hw : WFW c cu w) (f : Sel) : C11Holds c cu w (.addF f) := by
  intro w' o h
  simp only [step] at h
  obtain ⟨s', h1, rfl, rfl⟩ := mutS_inv h
  obtain ⟨co, ho⟩ := sel_wf hw f
  exact c11_mut rfl (w2_appendF hc hw.1 ho h1)


/-- cutting at the capacity makes the model's pre-shortened repetition equal to the full one -/
theorem w2_take_replicate (x : Str) (L n m : Nat) (ch : Byte) (hm : L - x.length ≤ m) :
    (x ++ List.replicate (min n m) ch).take L = (x ++ List.replicate n ch).take L := by
  rw [List.take_append, List.take_append, List.take_replicate, List.take_replicate]
  congr 2
  simp only [Nat.min_def]
  repeat' split
  all_goals omega

theorem c11_appendCC (hc : CfgOK c) (hw : WFW c cu w) (n : Nat) (ch : Byte) :
    C11Holds c cu w (.appendCC n ch) := by
  intro w' o h
  simp only [step] at h
  obtain ⟨s', h1, rfl, rfl⟩ := mutS_inv h
  have hl := abs_length hw.1
  refine c11_mut (t := abs w.s ++ List.replicate n ch) rfl ?_
  unfold appendCh at h1
  by_cases he : w.s.len = c.L
  · rw [if_pos he] at h1
    cases h1
    rw [List.take_append_of_le_length (by omega), abs_take_cap hw.1]
  · rw [if_neg he] at h1
    unfold appendS at h1
    have h2 := appendImpl_abs hc hw.1 (a := List.replicate (min n (c.L - w.s.len)) ch ++ [0]) (pos := 0)
      (count := (List.replicate (min n (c.L - w.s.len)) ch).length) (by simp) h1
    rw [List.drop_zero, List.take_left' rfl] at h2
    rw [h2]
    exact w2_take_replicate _ _ _ _ _ (by omega)


/-- `&src[ pos2]`, `min( count2, length - pos2)` reads the textbook substring -/
theorem w2_sub (a : List Byte) (len p n : Nat) (hp : p ≤ len) (hl : len ≤ a.length) :
    (a.drop p).take (min n (len - p)) = ((a.take len).drop p).take n := by
  have _ := hl
  apply List.ext_getElem?
  intro i
  fs_pointwise

theorem w2_appendSSub (hc : CfgOK c) {s s' : FStr} (hs : WF c s) (d : Str) (p n : Nat) (hp : p ≤ d.length)
    (h : appendSSub c s d p n = .ok s') : abs s' = (abs s ++ (d.drop p).take n).take c.L := by
  unfold appendSSub at h
  rw [if_neg (by omega)] at h
  have hm : min n (d.length - p) ≤ d.length - p := Nat.min_le_right _ _
  have h2 := appendImpl_abs hc hs (a := d ++ [0]) (pos := p) (count := min n (d.length - p))
    (by simp; omega) h
  rw [w2_sub (d ++ [0]) d.length p n hp (by simp), List.take_left' rfl] at h2
  exact h2

theorem w2_spec_appendSub (x d : Str) (p n : Nat) (hp : p ≤ d.length) :
    thenS (bindR (StdString.substr d p n) fun r => .ok (x ++ r)) = .ok (x ++ (d.drop p).take n, .unit) := by
  unfold StdString.substr
  rw [if_neg (by omega)]
  rfl

theorem c11_appendSPC (hc : CfgOK c) (hw : WFW c cu w) (d : Str) (p n : Nat)
    (hd : inDomain (npos c) w (.appendSPC d p n) = true) : C11Holds c cu w (.appendSPC d p n) := by
  intro w' o h
  simp only [step] at h
  obtain ⟨s', h1, rfl, rfl⟩ := mutS_inv h
  simp only [inDomain] at hd
  have hp : p ≤ d.length := of_decide_eq_true hd
  exact c11_mut (w2_spec_appendSub _ d p n hp) (w2_appendSSub hc hw.1 d p n hp h1)


theorem c11_appendSP (hc : CfgOK c) (hw : WFW c cu w) (d : Str) (p : Nat)
    (hd : inDomain (npos c) w (.appendSP d p) = true) : C11Holds c cu w (.appendSP d p) := by
  intro w' o h
  simp only [step] at h
  obtain ⟨s', h1, rfl, rfl⟩ := mutS_inv h
  simp only [inDomain] at hd
  have hp : p ≤ d.length := of_decide_eq_true hd
  exact c11_mut (w2_spec_appendSub _ d p (npos c) hp) (w2_appendSSub hc hw.1 d p (npos c) hp h1)

theorem w2_appendFSub {co : Cfg} (hc : CfgOK c) {s s' o : FStr} (hs : WF c s) (ho : WF co o) (p n : Nat)
    (hp : p ≤ o.len) (h : appendFSub c s o p n = .ok s') :
    abs s' = (abs s ++ ((abs o).drop p).take n).take c.L := by
  unfold appendFSub at h
  rw [if_neg (by omega)] at h
  have hm : min n (o.len - p) ≤ o.len - p := Nat.min_le_right _ _
  have hl := w2_wf_len ho
  have h2 := appendImpl_abs hc hs (a := o.buf) (pos := p) (count := min n (o.len - p)) (by omega) h
  rw [w2_sub o.buf o.len p n hp hl] at h2
  exact h2

theorem c11_appendFPC (hc : CfgOK c) (hw : WFW c cu w) (f : Sel) (p n : Nat)
    (hd : inDomain (npos c) w (.appendFPC f p n) = true) : C11Holds c cu w (.appendFPC f p n) := by
  intro w' o h
  simp only [step] at h
  obtain ⟨s', h1, rfl, rfl⟩ := mutS_inv h
  obtain ⟨co, ho⟩ := sel_wf hw f
  simp only [inDomain, World.text] at hd
  have hp : p ≤ (abs (w.sel f)).length := of_decide_eq_true hd
  have hp' : p ≤ (w.sel f).len := by rw [abs_length ho] at hp; exact hp
  exact c11_mut (w2_spec_appendSub _ (abs (w.sel f)) p n hp) (w2_appendFSub hc hw.1 ho p n hp' h1)

theorem c11_appendFP (hc : CfgOK c) (hw : WFW c cu w) (f : Sel) (p : Nat)
    (hd : inDomain (npos c) w (.appendFP f p) = true) : C11Holds c cu w (.appendFP f p) := by
  intro w' o h
  simp only [step] at h
  obtain ⟨s', h1, rfl, rfl⟩ := mutS_inv h
  obtain ⟨co, ho⟩ := sel_wf hw f
  simp only [inDomain, World.text] at hd
  have hp : p ≤ (abs (w.sel f)).length := of_decide_eq_true hd
  have hp' : p ≤ (w.sel f).len := by rw [abs_length ho] at hp; exact hp
  exact c11_mut (w2_spec_appendSub _ (abs (w.sel f)) p (npos c) hp) (w2_appendFSub hc hw.1 ho p (npos c) hp' h1)

theorem c11_sprintf (hc : CfgOK c) (hw : WFW c cu w) (a : List Byte) : C11Holds c cu w (.sprintf a) := by
  intro w' o h
  simp only [step] at h
  obtain ⟨s', h1, rfl, rfl⟩ := mutS_inv h
  exact c11_mut rfl (sprintf_abs hc hw.1 _ h1)

theorem c11_sprintf2 (hc : CfgOK c) (hw : WFW c cu w) (a : List Byte) (v : Nat) :
    C11Holds c cu w (.sprintf2 a v) := by
  intro w' o h
  simp only [step] at h
  obtain ⟨s', h1, rfl, rfl⟩ := mutS_inv h
  exact c11_mut rfl (sprintf_abs hc hw.1 _ h1)

/-- the `%ls` / `%.*ls` / `%lc` formats, for both outcomes of the formatter (no hypothesis: the specification of the
    failing case is the empty string) -/
theorem c11_sprintfW (hc : CfgOK c) (hw : WFW c cu w) (a : List Byte) (wa : WArg) (v : Nat) (b : List Byte) :
    C11Holds c cu w (.sprintfW a wa v b) := by
  intro w' o h
  simp only [step] at h
  obtain ⟨s', h1, rfl, rfl⟩ := mutS_inv h
  exact c11_mut rfl (sprintfF_abs hc hw.1 _ h1)


/-! ### replace -/

theorem w2_spec_replace (x r : Str) (p n : Nat) (hp : p ≤ x.length) :
    thenS (StdString.replace x p n r) = .ok (x.take p ++ r ++ x.drop (p + n), .unit) := by
  unfold StdString.replace
  rw [if_neg (by omega)]
  rfl

theorem w2_spec_replaceSub (x d : Str) (p n p2 n2 : Nat) (hp : p ≤ x.length) (hp2 : p2 ≤ d.length) :
    thenS (bindR (StdString.substr d p2 n2) fun r => StdString.replace x p n r) =
      .ok (x.take p ++ (d.drop p2).take n2 ++ x.drop (p + n), .unit) := by
  unfold StdString.substr
  rw [if_neg (by omega), bindR_ok]
  exact w2_spec_replace x _ p n hp

theorem w2_replaceS (hc : CfgOK c) {s s' : FStr} (hs : WF c s) (p n : Nat) (d : Str) (hp : p ≤ s.len)
    (h : replaceS c s p n d = .ok s') :
    abs s' = ((abs s).take p ++ d ++ (abs s).drop (p + n)).take c.L := by
  unfold replaceS at h
  have h2 := replaceImpl_abs hc hs p n (a := d ++ [0]) (pos2 := 0) (count2 := d.length) hp (by simp) h
  rw [List.drop_zero, List.take_left' rfl] at h2
  exact h2

theorem c11_repCCS (hc : CfgOK c) (hw : WFW c cu w) (p n : Nat) (d : Str)
    (hd : inDomain (npos c) w (.repCCS p n d) = true) : C11Holds c cu w (.repCCS p n d) := by
  intro w' o h
  simp only [step] at h
  obtain ⟨s', h1, rfl, rfl⟩ := mutS_inv h
  simp only [inDomain] at hd
  have hp : p ≤ (abs w.s).length := of_decide_eq_true hd
  have hp' : p ≤ w.s.len := by rw [abs_length hw.1] at hp; exact hp
  exact c11_mut (w2_spec_replace _ d p n hp) (w2_replaceS hc hw.1 p n d hp' h1)

theorem w2_replaceF {co : Cfg} (hc : CfgOK c) {s s' o : FStr} (hs : WF c s) (ho : WF co o) (p n : Nat)
    (hp : p ≤ s.len) (h : replaceF c s p n o = .ok s') :
    abs s' = ((abs s).take p ++ abs o ++ (abs s).drop (p + n)).take c.L := by
  unfold replaceF at h
  have hl := w2_wf_len ho
  have h2 := replaceImpl_abs hc hs p n (a := o.buf) (pos2 := 0) (count2 := o.len) hp (by omega) h
  rw [w2_buf_take o] at h2
  exact h2

theorem c11_repCCF (hc : CfgOK c) (hw : WFW c cu w) (p n : Nat) (f : Sel)
    (hd : inDomain (npos c) w (.repCCF p n f) = true) : C11Holds c cu w (.repCCF p n f) := by
  intro w' o h
  simp only [step] at h
  obtain ⟨s', h1, rfl, rfl⟩ := mutS_inv h
  obtain ⟨co, ho⟩ := sel_wf hw f
  simp only [inDomain] at hd
  have hp : p ≤ (abs w.s).length := of_decide_eq_true hd
  have hp' : p ≤ w.s.len := by rw [abs_length hw.1] at hp; exact hp
  exact c11_mut (w2_spec_replace _ (abs (w.sel f)) p n hp) (w2_replaceF hc hw.1 ho p n hp' h1)

/-- cutting at the capacity makes the model's pre-shortened repetition equal to the full one -/
theorem w2_take_replicate_mid (A B : Str) (L n2 : Nat) (ch : Byte) :
    (A ++ List.replicate (min n2 L) ch ++ B).take L = (A ++ List.replicate n2 ch ++ B).take L := by
  apply List.ext_getElem?
  intro i
  fs_pointwise

theorem c11_repCCCC (hc : CfgOK c) (hw : WFW c cu w) (p n n2 : Nat) (ch : Byte)
    (hd : inDomain (npos c) w (.repCCCC p n n2 ch) = true) : C11Holds c cu w (.repCCCC p n n2 ch) := by
  intro w' o h
  simp only [step] at h
  obtain ⟨s', h1, rfl, rfl⟩ := mutS_inv h
  simp only [inDomain] at hd
  have hp : p ≤ (abs w.s).length := of_decide_eq_true hd
  have hp' : p ≤ w.s.len := by rw [abs_length hw.1] at hp; exact hp
  unfold replaceCh at h1
  refine c11_mut (w2_spec_replace _ (List.replicate n2 ch) p n hp) ?_
  rw [w2_replaceS hc hw.1 p n _ hp' h1]
  exact w2_take_replicate_mid _ _ _ _ _


theorem w2_replaceSSub (hc : CfgOK c) {s s' : FStr} (hs : WF c s) (p n : Nat) (d : Str) (p2 n2 : Nat)
    (hp : p ≤ s.len) (hp2 : p2 ≤ d.length) (h : replaceSSub c s p n d p2 n2 = .ok s') :
    abs s' = ((abs s).take p ++ (d.drop p2).take n2 ++ (abs s).drop (p + n)).take c.L := by
  unfold replaceSSub at h
  rw [if_neg (by omega)] at h
  have hm : min n2 (d.length - p2) ≤ d.length - p2 := Nat.min_le_right _ _
  have h2 := replaceImpl_abs hc hs p n (a := d ++ [0]) (pos2 := p2) (count2 := min n2 (d.length - p2)) hp
    (by simp; omega) h
  rw [w2_sub (d ++ [0]) d.length p2 n2 hp2 (by simp), List.take_left' rfl] at h2
  exact h2

theorem w2_replaceFSub {co : Cfg} (hc : CfgOK c) {s s' o : FStr} (hs : WF c s) (ho : WF co o) (p n p2 n2 : Nat)
    (hp : p ≤ s.len) (hp2 : p2 ≤ o.len) (h : replaceFSub c s p n o p2 n2 = .ok s') :
    abs s' = ((abs s).take p ++ ((abs o).drop p2).take n2 ++ (abs s).drop (p + n)).take c.L := by
  unfold replaceFSub at h
  rw [if_neg (by omega)] at h
  have hm : min n2 (o.len - p2) ≤ o.len - p2 := Nat.min_le_right _ _
  have hl := w2_wf_len ho
  have h2 := replaceImpl_abs hc hs p n (a := o.buf) (pos2 := p2) (count2 := min n2 (o.len - p2)) hp
    (by omega) h
  rw [w2_sub o.buf o.len p2 n2 hp2 hl] at h2
  exact h2

theorem c11_repCCSCC (hc : CfgOK c) (hw : WFW c cu w) (p n : Nat) (d : Str) (p2 n2 : Nat)
    (hd : inDomain (npos c) w (.repCCSCC p n d p2 n2) = true) : C11Holds c cu w (.repCCSCC p n d p2 n2) := by
  intro w' o h
  simp only [step] at h
  obtain ⟨s', h1, rfl, rfl⟩ := mutS_inv h
  simp only [inDomain, Bool.and_eq_true, decide_eq_true_eq] at hd
  obtain ⟨hp, hp2⟩ := hd
  have hp' : p ≤ w.s.len := by rw [abs_length hw.1] at hp; exact hp
  exact c11_mut (w2_spec_replaceSub _ d p n p2 n2 hp hp2) (w2_replaceSSub hc hw.1 p n d p2 n2 hp' hp2 h1)

theorem c11_repCCSC (hc : CfgOK c) (hw : WFW c cu w) (p n : Nat) (d : Str) (p2 : Nat)
    (hd : inDomain (npos c) w (.repCCSC p n d p2) = true) : C11Holds c cu w (.repCCSC p n d p2) := by
  intro w' o h
  simp only [step] at h
  obtain ⟨s', h1, rfl, rfl⟩ := mutS_inv h
  simp only [inDomain, Bool.and_eq_true, decide_eq_true_eq] at hd
  obtain ⟨hp, hp2⟩ := hd
  have hp' : p ≤ w.s.len := by rw [abs_length hw.1] at hp; exact hp
  exact c11_mut (w2_spec_replaceSub _ d p n p2 (npos c) hp hp2)
    (w2_replaceSSub hc hw.1 p n d p2 (npos c) hp' hp2 h1)

theorem c11_repCCFCC (hc : CfgOK c) (hw : WFW c cu w) (p n : Nat) (f : Sel) (p2 n2 : Nat)
    (hd : inDomain (npos c) w (.repCCFCC p n f p2 n2) = true) : C11Holds c cu w (.repCCFCC p n f p2 n2) := by
  intro w' o h
  simp only [step] at h
  obtain ⟨s', h1, rfl, rfl⟩ := mutS_inv h
  obtain ⟨co, ho⟩ := sel_wf hw f
  simp only [inDomain, Bool.and_eq_true, decide_eq_true_eq] at hd
  have hp : p ≤ (abs w.s).length := hd.1
  have hp2 : p2 ≤ (abs (w.sel f)).length := hd.2
  have hp' : p ≤ w.s.len := by rw [abs_length hw.1] at hp; exact hp
  have hp2' : p2 ≤ (w.sel f).len := by rw [abs_length ho] at hp2; exact hp2
  exact c11_mut (w2_spec_replaceSub _ (abs (w.sel f)) p n p2 n2 hp hp2)
    (w2_replaceFSub hc hw.1 ho p n p2 n2 hp' hp2' h1)

theorem c11_repCCFC (hc : CfgOK c) (hw : WFW c cu w) (p n : Nat) (f : Sel) (p2 : Nat)
    (hd : inDomain (npos c) w (.repCCFC p n f p2) = true) : C11Holds c cu w (.repCCFC p n f p2) := by
  intro w' o h
  simp only [step] at h
  obtain ⟨s', h1, rfl, rfl⟩ := mutS_inv h
  obtain ⟨co, ho⟩ := sel_wf hw f
  simp only [inDomain, Bool.and_eq_true, decide_eq_true_eq] at hd
  have hp : p ≤ (abs w.s).length := hd.1
  have hp2 : p2 ≤ (abs (w.sel f)).length := hd.2
  have hp' : p ≤ w.s.len := by rw [abs_length hw.1] at hp; exact hp
  have hp2' : p2 ≤ (w.sel f).len := by rw [abs_length ho] at hp2; exact hp2
  exact c11_mut (w2_spec_replaceSub _ (abs (w.sel f)) p n p2 (npos c) hp hp2)
    (w2_replaceFSub hc hw.1 ho p n p2 (npos c) hp' hp2' h1)


/-! ### C-string arguments -/

theorem w2_ofCStr_aux : ∀ (a : List Byte) (k m : Nat), cstrlenAux a k = .ok m →
    k ≤ m ∧ StdString.ofCStr a = a.take (m - k)
  | [], k, m, h => by unfold cstrlenAux at h; cases h
  | x :: xs, k, m, h => by
    unfold cstrlenAux at h
    unfold StdString.ofCStr
    by_cases hx : x = 0
    · rw [if_pos hx] at h
      cases h
      rw [if_pos hx, Nat.sub_self]
      exact ⟨Nat.le_refl _, rfl⟩
    · rw [if_neg hx] at h
      obtain ⟨h1, h2⟩ := w2_ofCStr_aux xs (k + 1) m h
      rw [if_neg hx, h2]
      refine ⟨by omega, ?_⟩
      have : m - k = (m - (k + 1)) + 1 := by omega
      rw [this, List.take_succ_cons]

/-- `std::string( const char*)` is the `strlen` prefix -/
theorem w2_ofCStr_take {a : List Byte} {n : Nat} (h : cstrlen a = .ok n) : StdString.ofCStr a = a.take n := by
  unfold cstrlen at h
  have := (w2_ofCStr_aux a 0 n h).2
  rw [Nat.sub_zero] at this
  exact this

theorem w2_cstr {a : List Byte} (h : hasNul a = true) :
    ∃ n, cstrlen a = .ok n ∧ n < a.length ∧ StdString.ofCStr a = a.take n := by
  have h0 : (0 : Byte) ∈ a := by
    unfold hasNul at h
    exact List.contains_iff_mem.mp h
  obtain ⟨n, h1, h2, _⟩ := cstrlen_ok a h0
  exact ⟨n, h1, h2, w2_ofCStr_take h1⟩

theorem w2_appendP (hc : CfgOK c) {s s' : FStr} (hs : WF c s) {a : List Byte} (hn : hasNul a = true)
    (h : appendP c s a = .ok s') : abs s' = (abs s ++ StdString.ofCStr a).take c.L := by
  obtain ⟨k, hk, hlt, hof⟩ := w2_cstr hn
  unfold appendP at h
  rw [hk, bindR_ok] at h
  have h2 := appendImpl_abs hc hs (a := a) (pos := 0) (count := k) (by omega) h
  rw [List.drop_zero, ← hof] at h2
  exact h2

theorem c11_appendP (hc : CfgOK c) (hw : WFW c cu w) (a : List Byte)
    (hd : inDomain (npos c) w (.appendP a) = true) : C11Holds c cu w (.appendP a) := by
  intro w' o h
  simp only [step] at h
  obtain ⟨s', h1, rfl, rfl⟩ := mutS_inv h
  simp only [inDomain] at hd
  exact c11_mut rfl (w2_appendP hc hw.1 hd h1)

theorem c11_addP (hc : CfgOK c) (hw : WFW c cu w) (a : List Byte)
    (hd : inDomain (npos c) w (.addP a) = true) : C11Holds c cu w (.addP a) := by
  intro w' o h
  simp only [step] at h
  obtain ⟨s', h1, rfl, rfl⟩ := mutS_inv h
  simp only [inDomain] at hd
  exact c11_mut rfl (w2_appendP hc hw.1 hd h1)

theorem w2_take_min (a : List Byte) (n k : Nat) : a.take (min n k) = (a.take k).take n := by
  rw [List.take_take]

theorem c11_appendPC (hc : CfgOK c) (hw : WFW c cu w) (a : List Byte) (n : Nat)
    (hd : inDomain (npos c) w (.appendPC a n) = true) : C11Holds c cu w (.appendPC a n) := by
  intro w' o h
  simp only [step] at h
  obtain ⟨s', h1, rfl, rfl⟩ := mutS_inv h
  simp only [inDomain, Bool.and_eq_true, decide_eq_true_eq] at hd
  obtain ⟨k, hk, hlt, hof⟩ := w2_cstr hd.1
  have hnk : n ≤ k := by have := hd.2; rw [hof, List.length_take] at this; omega
  unfold appendPN at h1
  rw [hk, bindR_ok, Nat.min_eq_left hnk] at h1
  have h2 := appendImpl_abs hc hw.1 (a := a) (pos := 0) (count := n) (by omega) h1
  rw [List.drop_zero] at h2
  exact c11_mut rfl h2

theorem c11_repCCP (hc : CfgOK c) (hw : WFW c cu w) (p n : Nat) (a : List Byte)
    (hd : inDomain (npos c) w (.repCCP p n a) = true) : C11Holds c cu w (.repCCP p n a) := by
  intro w' o h
  simp only [step] at h
  obtain ⟨s', h1, rfl, rfl⟩ := mutS_inv h
  simp only [inDomain, Bool.and_eq_true, decide_eq_true_eq] at hd
  have hp : p ≤ (abs w.s).length := hd.1
  have hp' : p ≤ w.s.len := by rw [abs_length hw.1] at hp; exact hp
  obtain ⟨k, hk, hlt, hof⟩ := w2_cstr hd.2
  unfold replaceP at h1
  rw [hk, bindR_ok] at h1
  have h2 := replaceImpl_abs hc hw.1 p n (a := a) (pos2 := 0) (count2 := k) hp' (by omega) h1
  rw [List.drop_zero, ← hof] at h2
  exact c11_mut (w2_spec_replace _ _ p n hp) h2

theorem c11_repCCPC (hc : CfgOK c) (hw : WFW c cu w) (p n : Nat) (a : List Byte) (n2 : Nat)
    (hd : inDomain (npos c) w (.repCCPC p n a n2) = true) : C11Holds c cu w (.repCCPC p n a n2) := by
  intro w' o h
  simp only [step] at h
  obtain ⟨s', h1, rfl, rfl⟩ := mutS_inv h
  simp only [inDomain, Bool.and_eq_true, decide_eq_true_eq] at hd
  have hp : p ≤ (abs w.s).length := hd.1.1
  have hp' : p ≤ w.s.len := by rw [abs_length hw.1] at hp; exact hp
  obtain ⟨k, hk, hlt, hof⟩ := w2_cstr hd.1.2
  have hnk : n2 ≤ k := by have := hd.2; rw [hof, List.length_take] at this; omega
  unfold replacePN at h1
  rw [hk, bindR_ok, Nat.min_eq_left hnk] at h1
  have h2 := replaceImpl_abs hc hw.1 p n (a := a) (pos2 := 0) (count2 := n2) hp' (by omega) h1
  rw [List.drop_zero] at h2
  exact c11_mut (w2_spec_replace _ _ p n hp) h2


/-! ### iterator overloads of `replace` -/

/-- a non-empty iterator range `[f, l)` of `s` whose first element is dereferenceable: the index arithmetic of
    the iterator overloads computes the std::string position and count -/
theorem w2_it (hc : CfgOK c) {s : FStr} (hs : WF c s) (f l : ItArg) (h : itRange (abs s) f l = true) :
    itOf c s f ≠ itEnd c ∧ itOf c s f ≠ itOf c s l ∧
    itMinus c s (itOf c s f) (itBegin c s) = itPos (abs s) f ∧
    itCount1 c s (itOf c s f) (itOf c s l) (itPos (abs s) f) = itPos (abs s) l - itPos (abs s) f ∧
    itMinus c s (itOf c s l) (itOf c s f) = itPos (abs s) l - itPos (abs s) f ∧
    itPos (abs s) f ≤ s.len ∧ itPos (abs s) f ≤ itPos (abs s) l := by
  have hl := abs_length hs
  have h1 := hs.2.1
  have h2 := hc.hW
  cases f with
  | fin => simp [itRange, derefable] at h
  | pos k =>
    cases l with
    | fin =>
      simp only [itRange, derefable, itPos, hl, Bool.and_eq_true, decide_eq_true_eq] at h
      simp only [itOf, itAt, itMinus, itCount1, itBegin, subW, itEnd, itPos, hl]
      refine ⟨?_, ?_, ?_, ?_, ?_, ?_, ?_⟩ <;> (repeat' split) <;> first | omega | exact absurd trivial (by assumption)
    | pos m =>
      simp only [itRange, derefable, itPos, hl, Bool.and_eq_true, decide_eq_true_eq] at h
      simp only [itOf, itAt, itMinus, itCount1, itBegin, subW, itEnd, itPos, hl]
      refine ⟨?_, ?_, ?_, ?_, ?_, ?_, ?_⟩ <;> (repeat' split) <;> first | omega | exact absurd trivial (by assumption)

theorem w2_spec_itRep (x r : Str) (pf pl : Nat) (h1 : pf ≤ pl) (h2 : pf ≤ x.length) :
    (if pf > pl then (.throw .out_of_range : Res (Str × Out)) else thenS (StdString.replace x pf (pl - pf) r)) =
      .ok (x.take pf ++ r ++ x.drop (pf + (pl - pf)), .unit) := by
  rw [if_neg (by omega)]
  exact w2_spec_replace x r pf _ h2

theorem w2_drop_take_app (d : Str) (i j : Nat) (hj : j ≤ d.length) :
    (((d ++ [0]).drop i).drop 0).take (j - i) = (d.drop i).take (j - i) := by
  apply List.ext_getElem?
  intro k
  fs_pointwise

theorem c11_repItItSIt (hc : CfgOK c) (hw : WFW c cu w) (f l : ItArg) (d : Str) (i j : Nat)
    (hd : inDomain (npos c) w (.repItItSIt f l d i j) = true) : C11Holds c cu w (.repItItSIt f l d i j) := by
  intro w' o h
  simp only [step] at h
  obtain ⟨s', h1, rfl, rfl⟩ := mutS_inv h
  simp only [inDomain, Bool.and_eq_true, decide_eq_true_eq] at hd
  obtain ⟨⟨hr, hij⟩, hjd⟩ := hd
  obtain ⟨e1, e2, e3, e4, _, e6, e7⟩ := w2_it hc hw.1 f l hr
  have hl := abs_length hw.1
  unfold replaceItSIt at h1
  rw [if_neg (by intro hh; rcases hh with hh | hh | hh <;> first | exact e1 hh | exact e2 hh | omega)] at h1
  simp only [] at h1
  rw [e3, e4] at h1
  have h2 := replaceImpl_abs hc hw.1 _ _ (a := (d ++ [0]).drop i) (pos2 := 0) (count2 := j - i) e6
    (by simp; omega) h1
  rw [w2_drop_take_app d i j hjd] at h2
  refine c11_mut ?_ h2
  simp only [spec]
  exact w2_spec_itRep _ _ _ _ e7 (by omega)


/-- `replace( first, last, str, count2)` on a proper range with a readable, non-empty replacement -/
theorem w2_replaceItPN (hc : CfgOK c) {s s' : FStr} (hs : WF c s) (f l : ItArg) (a : List Byte) (n2 : Nat)
    (hr : itRange (abs s) f l = true) (hn : 0 < n2) (ha : n2 ≤ a.length)
    (h : replaceItPN c s (itOf c s f) (itOf c s l) a n2 = .ok s') :
    abs s' = ((abs s).take (itPos (abs s) f) ++ a.take n2 ++
      (abs s).drop (itPos (abs s) f + (itPos (abs s) l - itPos (abs s) f))).take c.L := by
  obtain ⟨_, e2, e3, e4, _, e6, _⟩ := w2_it hc hs f l hr
  unfold replaceItPN at h
  rw [if_neg (by intro hh; rcases hh with hh | hh <;> first | exact e2 hh | omega)] at h
  simp only [] at h
  rw [e3, e4] at h
  have h2 := replaceImpl_abs hc hs _ _ (a := a) (pos2 := 0) (count2 := n2) e6 (by omega) h
  rw [List.drop_zero] at h2
  exact h2

theorem c11_repItItPC (hc : CfgOK c) (hw : WFW c cu w) (f l : ItArg) (a : List Byte) (n2 : Nat)
    (hd : inDomain (npos c) w (.repItItPC f l a n2) = true) : C11Holds c cu w (.repItItPC f l a n2) := by
  intro w' o h
  simp only [step] at h
  obtain ⟨s', h1, rfl, rfl⟩ := mutS_inv h
  simp only [inDomain, Bool.and_eq_true, decide_eq_true_eq] at hd
  obtain ⟨⟨hr, hn⟩, ha⟩ := hd
  obtain ⟨_, _, _, _, _, e6, e7⟩ := w2_it hc hw.1 f l hr
  have hl := abs_length hw.1
  refine c11_mut ?_ (w2_replaceItPN hc hw.1 f l a n2 hr hn ha h1)
  simp only [spec]
  exact w2_spec_itRep _ _ _ _ e7 (by omega)

theorem c11_repItItIl (hc : CfgOK c) (hw : WFW c cu w) (f l : ItArg) (il : Str)
    (hd : inDomain (npos c) w (.repItItIl f l il) = true) : C11Holds c cu w (.repItItIl f l il) := by
  intro w' o h
  simp only [step] at h
  obtain ⟨s', h1, rfl, rfl⟩ := mutS_inv h
  simp only [inDomain, Bool.and_eq_true, decide_eq_true_eq] at hd
  obtain ⟨hr, hn⟩ := hd
  obtain ⟨_, _, _, _, _, e6, e7⟩ := w2_it hc hw.1 f l hr
  have hl := abs_length hw.1
  unfold replaceItList at h1
  rw [if_neg (by omega)] at h1
  have h2 := w2_replaceItPN hc hw.1 f l il il.length hr hn (Nat.le_refl _) h1
  rw [List.take_length] at h2
  refine c11_mut ?_ h2
  simp only [spec]
  exact w2_spec_itRep _ _ _ _ e7 (by omega)

theorem c11_repItItP (hc : CfgOK c) (hw : WFW c cu w) (f l : ItArg) (a : List Byte)
    (hd : inDomain (npos c) w (.repItItP f l a) = true) : C11Holds c cu w (.repItItP f l a) := by
  intro w' o h
  simp only [step] at h
  obtain ⟨s', h1, rfl, rfl⟩ := mutS_inv h
  simp only [inDomain, Bool.and_eq_true, decide_eq_true_eq] at hd
  obtain ⟨⟨hr, hn⟩, hpos⟩ := hd
  obtain ⟨_, _, _, _, _, e6, e7⟩ := w2_it hc hw.1 f l hr
  have hl := abs_length hw.1
  obtain ⟨k, hk, hlt, hof⟩ := w2_cstr hn
  rw [hof, List.length_take] at hpos
  unfold replaceItP at h1
  rw [hk, bindR_ok] at h1
  have h2 := w2_replaceItPN hc hw.1 f l a k hr (by omega) (by omega) h1
  rw [← hof] at h2
  refine c11_mut ?_ h2
  simp only [spec]
  exact w2_spec_itRep _ _ _ _ e7 (by omega)

theorem c11_repItItCC (hc : CfgOK c) (hw : WFW c cu w) (f l : ItArg) (n2 : Nat) (ch : Byte)
    (hd : inDomain (npos c) w (.repItItCC f l n2 ch) = true) : C11Holds c cu w (.repItItCC f l n2 ch) := by
  intro w' o h
  simp only [step] at h
  obtain ⟨s', h1, rfl, rfl⟩ := mutS_inv h
  simp only [inDomain, Bool.and_eq_true, decide_eq_true_eq] at hd
  obtain ⟨hr, hn⟩ := hd
  obtain ⟨e1, e2, e3, _, e5, e6, e7⟩ := w2_it hc hw.1 f l hr
  have hl := abs_length hw.1
  unfold replaceItCh at h1
  rw [if_neg (by intro hh; rcases hh with hh | hh | hh <;> first | exact e1 hh | exact e2 hh.symm | omega)] at h1
  rw [e3, e5] at h1
  unfold replaceCh at h1
  have h2 := w2_replaceS hc hw.1 _ _ _ e6 h1
  rw [w2_take_replicate_mid] at h2
  refine c11_mut (t := (abs w.s).take (itPos (abs w.s) f) ++ List.replicate n2 ch ++
    (abs w.s).drop (itPos (abs w.s) f + (itPos (abs w.s) l - itPos (abs w.s) f))) ?_ h2
  simp only [spec, id]
  exact w2_spec_itRep _ _ _ _ e7 (by omega)


/-! ### iterators of another object: `append( first, last)`, `replace( first, last, first2, last2)` -/

/-- an iterator pair `[x, y)` of `o` in std::string order: equal iterators denote an empty range, otherwise a
    dereferenceable `x` is its position and `y - x` is the number of characters -/
theorem w2_it2 (hc : CfgOK c) {o : FStr} (ho : WF c o) (x y : ItArg) (h : itPos (abs o) x ≤ itPos (abs o) y) :
    (itOf c o x = itOf c o y → itPos (abs o) y - itPos (abs o) x = 0) ∧
    (itOf c o x ≠ itOf c o y → itOf c o x ≠ itEnd c →
      itOf c o x = itPos (abs o) x ∧ itPos (abs o) x < o.len ∧
      itMinus c o (itOf c o y) (itOf c o x) = itPos (abs o) y - itPos (abs o) x ∧ itPos (abs o) y ≤ o.len) := by
  have hl := abs_length ho
  have h1 := ho.2.1
  have h2 := hc.hW
  cases x <;> cases y <;> simp only [itPos, hl] at h <;>
    simp only [itOf, itAt, itMinus, subW, itEnd, itPos, hl] <;>
    refine ⟨?_, ?_⟩ <;> (repeat' split) <;> intros <;>
    first | omega | exact absurd trivial (by assumption) | exact absurd rfl (by assumption)

theorem w2_drop_take_buf (a : List Byte) (len p q : Nat) (hq : q ≤ len) (hl : len ≤ a.length) :
    ((a.drop p).drop 0).take (q - p) = ((a.take len).drop p).take (q - p) := by
  have _ := hq; have _ := hl
  apply List.ext_getElem?
  intro k
  fs_pointwise

theorem c11_appendItIt (hc : CfgOK c) (hw : WFW c cu w) (x y : ItArg)
    (hd : inDomain (npos c) w (.appendItIt x y) = true) : C11Holds c cu w (.appendItIt x y) := by
  intro w' o h
  simp only [step] at h
  obtain ⟨s', h1, rfl, rfl⟩ := mutS_inv h
  simp only [inDomain] at hd
  have hxy : itPos (abs w.t) x ≤ itPos (abs w.t) y := of_decide_eq_true hd
  obtain ⟨z0, zz⟩ := w2_it2 hc hw.2.1 x y hxy
  have hl := abs_length hw.1
  have hbt := w2_wf_len hw.2.1
  refine c11_mut (t := abs w.s ++ ((abs w.t).drop (itPos (abs w.t) x)).take
    (itPos (abs w.t) y - itPos (abs w.t) x)) rfl ?_
  unfold appendItIt at h1
  by_cases hfl : itOf c w.t x = itOf c w.t y ∨ w.s.len = c.L
  · rw [if_pos hfl] at h1
    cases h1
    rcases hfl with heq | hfull
    · rw [z0 heq, List.take_zero, List.append_nil, abs_take_cap hw.1]
    · rw [List.take_append_of_le_length (by omega), abs_take_cap hw.1]
  · rw [if_neg hfl] at h1
    simp only [] at h1
    by_cases hend : itOf c w.t x = itEnd c
    · rw [show itDeref c w.t (itOf c w.t x) = .throw .range_error from by unfold itDeref; rw [if_pos hend]] at h1
      cases h1
    · obtain ⟨z1, z2, z3, z4⟩ := zz (not_or.mp hfl).1 hend
      obtain ⟨b, hb⟩ := okr_get1 (a := w.t.buf) (i := itOf c w.t x) (by omega)
      rw [show itDeref c w.t (itOf c w.t x) = .ok b from by unfold itDeref; rw [if_neg hend, hb]] at h1
      simp only [] at h1
      rw [z3, z1] at h1
      have h2 := appendImpl_abs hc hw.1 (a := w.t.buf.drop (itPos (abs w.t) x)) (pos := 0)
        (count := itPos (abs w.t) y - itPos (abs w.t) x) (by simp; omega) h1
      rw [w2_drop_take_buf w.t.buf w.t.len _ _ z4 hbt] at h2
      exact h2

/-- `strlen` from a position inside a buffer whose first NUL from there on is at `n` -/
theorem w2_cstrlenAux_at : ∀ (l : List Byte) (n k : Nat), l[n]? = some 0 → (∀ i, i < n → l[i]? ≠ some 0) →
    cstrlenAux l k = .ok (k + n)
  | [], n, k, h, _ => by simp at h
  | x :: xs, 0, k, h, _ => by
    have hx : x = 0 := by simpa using h
    unfold cstrlenAux; rw [if_pos hx]; rfl
  | x :: xs, n + 1, k, h, hne => by
    have hx : x ≠ 0 := by
      intro hx; exact hne 0 (by omega) (by simp [hx])
    unfold cstrlenAux; rw [if_neg hx]
    rw [w2_cstrlenAux_at xs n (k + 1) (by simpa using h)
      (fun i hi => by have := hne (i + 1) (by omega); simpa using this)]
    congr 1; omega

/-- `strlen( &t[ a])` is the rest of the text when the text has no NUL from `a` on -/
theorem w2_cstrlen_tail {co : Cfg} {o : FStr} (ho : WF co o) (a : Nat) (ha : a ≤ o.len)
    (hn : hasNul ((abs o).drop a) = false) : cstrlen (o.buf.drop a) = .ok (o.len - a) := by
  have hb := w2_wf_len ho
  unfold cstrlen
  rw [w2_cstrlenAux_at (o.buf.drop a) (o.len - a) 0, Nat.zero_add]
  · rw [List.getElem?_drop, show a + (o.len - a) = o.len by omega]; exact ho.2.2
  · intro i hi hz
    have hmem : (0 : Byte) ∈ (abs o).drop a := by
      apply List.mem_of_getElem? (i := i)
      unfold abs
      rw [List.getElem?_drop, List.getElem?_take, if_pos (by omega), ← List.getElem?_drop]
      exact hz
    unfold hasNul at hn
    rw [List.contains_iff_mem.mpr hmem] at hn
    cases hn

theorem w2_it3 (hc : CfgOK c) {o : FStr} (ho : WF c o) (x y : ItArg) (hder : derefable (abs o) x = true)
    (hlt : itPos (abs o) x < itPos (abs o) y) :
    itOf c o x ≠ itOf c o y ∧ itOf c o x ≠ itEnd c ∧ itOf c o x = itPos (abs o) x ∧ itPos (abs o) x < o.len ∧
    itPos (abs o) y ≤ o.len ∧ (itOf c o y = itEnd c → itPos (abs o) y = o.len) ∧
    (itOf c o y ≠ itEnd c → itMinus c o (itOf c o y) (itOf c o x) = itPos (abs o) y - itPos (abs o) x) := by
  have hl := abs_length ho
  have h1 := ho.2.1
  have h2 := hc.hW
  cases x with
  | fin => simp [derefable] at hder
  | pos k =>
    cases y <;> simp only [derefable, itPos, hl, decide_eq_true_eq] at hder hlt <;>
      simp only [itOf, itAt, itMinus, subW, itEnd, itPos, hl] <;>
      refine ⟨?_, ?_, ?_, ?_, ?_, ?_, ?_⟩ <;> (repeat' split) <;> intros <;>
      first | omega | exact absurd trivial (by assumption) | exact absurd rfl (by assumption)

/-- C11 for `replace( first, last, first2, last2)`.  When `last2` is `end()` (written so, or an iterator built at
    a position `≥ length()`), the code measures the source with `strlen`: `inDomain` then excludes an embedded
    NUL in the source range. -/
theorem c11_repItItItIt (hc : CfgOK c) (hw : WFW c cu w) (f l x y : ItArg)
    (hd : inDomain (npos c) w (.repItItItIt f l x y) = true) :
    C11Holds c cu w (.repItItItIt f l x y) := by
  intro w' o h
  simp only [step] at h
  obtain ⟨s', h1, rfl, rfl⟩ := mutS_inv h
  simp only [inDomain, Bool.and_eq_true, decide_eq_true_eq] at hd
  have hr : itRange (abs w.s) f l = true := hd.1.1.1
  have hlt : itPos (abs w.t) x < itPos (abs w.t) y := hd.1.1.2
  have hder : derefable (abs w.t) x = true := hd.1.2
  have hlast : (!actsEnd (abs w.t) y || !hasNul ((abs w.t).drop (itPos (abs w.t) x))) = true := hd.2
  obtain ⟨e1, e2, e3, e4, _, e6, e7⟩ := w2_it hc hw.1 f l hr
  obtain ⟨z1, z2, z3, z4, z5, z6, z7⟩ := w2_it3 hc hw.2.1 x y hder hlt
  have hl := abs_length hw.1
  have hbt := w2_wf_len hw.2.1
  have hL := hw.2.1.2.1
  have hW := hc.hW
  have hn : itOf c w.t y = itEnd c → hasNul ((abs w.t).drop (itPos (abs w.t) x)) = false := by
    intro he
    have hact : actsEnd (abs w.t) y = true := by
      cases y with
      | fin => rfl
      | pos b =>
        simp only [itOf, itAt, itEnd] at he
        simp only [actsEnd, decide_eq_true_eq, abs_length hw.2.1]
        split at he <;> omega
    rw [hact] at hlast
    simpa using hlast
  refine c11_mut (t := (abs w.s).take (itPos (abs w.s) f) ++
      ((abs w.t).drop (itPos (abs w.t) x)).take (itPos (abs w.t) y - itPos (abs w.t) x) ++
      (abs w.s).drop (itPos (abs w.s) f + (itPos (abs w.s) l - itPos (abs w.s) f))) ?_ ?_
  · simp only [spec]
    exact w2_spec_itRep _ _ _ _ e7 (by omega)
  unfold replaceItIt at h1
  rw [if_neg (by intro hh; rcases hh with hh | hh | hh <;> first | exact e1 hh | exact e2 hh | exact z1 hh)] at h1
  simp only [] at h1
  obtain ⟨b, hb⟩ := okr_get1 (a := w.t.buf) (i := itOf c w.t x) (by omega)
  rw [show itDeref c w.t (itOf c w.t x) = .ok b from by unfold itDeref; rw [if_neg z2, hb]] at h1
  simp only [] at h1
  rw [e3, e4] at h1
  by_cases hend : itOf c w.t y = itEnd c
  · rw [if_pos hend, z3, w2_cstrlen_tail hw.2.1 _ (by omega) (hn hend), bindR_ok] at h1
    have h2 := replaceImpl_abs hc hw.1 _ _ (a := w.t.buf.drop (itPos (abs w.t) x)) (pos2 := 0)
      (count2 := w.t.len - itPos (abs w.t) x) e6 (by simp; omega) h1
    rw [← z6 hend, w2_drop_take_buf w.t.buf w.t.len _ _ z5 hbt] at h2
    exact h2
  · rw [if_neg hend, z7 hend, z3] at h1
    have h2 := replaceImpl_abs hc hw.1 _ _ (a := w.t.buf.drop (itPos (abs w.t) x)) (pos2 := 0)
      (count2 := itPos (abs w.t) y - itPos (abs w.t) x) e6 (by simp; omega) h1
    rw [w2_drop_take_buf w.t.buf w.t.len _ _ z5 hbt] at h2
    exact h2

end CelmaVerif.FixedString
