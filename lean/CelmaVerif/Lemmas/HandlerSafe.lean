import CelmaVerif.Lemmas.Iter
import CelmaVerif.Lemmas.KeysParse
import CelmaVerif.Model.ProgArgs.Groups
/-
  Memory safety and termination of the handler model: no evaluation ever returns `oob` (an access
  outside argv / outside a word / an exhausted loop bound), and every exception it throws is one
  of the std:: classes listed in `stdExc`.
-/
namespace CelmaVerif.ProgArgs
open CelmaVerif CelmaVerif.Keys

/-- exception classes the modelled fragment can throw (all derived from std::exception) -/
def stdExc (e : Exc) : Prop :=
  e = .invalid_argument ∨ e = .runtime_error ∨ e = .out_of_range ∨ e = .overflow_error ∨
  e = .underflow_error ∨ e = .bad_cast

/-- a result is safe: not `oob`, and a thrown exception is a std:: class -/
def Safe {α : Type} (r : Res α) : Prop :=
  match r with
  | .ok _ => True
  | .throw e => stdExc e
  | .oob _ => False

theorem Safe.ok {α : Type} (a : α) : Safe (Res.ok a) := trivial
theorem Safe.pure {α : Type} (a : α) : Safe (pure a : Res α) := trivial

theorem Safe.bind {α β : Type} {r : Res α} {f : α → Res β} (hr : Safe r) (hf : ∀ a, r = .ok a → Safe (f a)) :
    Safe (r >>= f) := by
  cases r with
  | ok a => exact hf a rfl
  | throw e => exact hr
  | oob w => exact hr

theorem safe_rt {α : Type} : Safe (Res.throw .runtime_error : Res α) := Or.inr (Or.inl rfl)
theorem safe_ia {α : Type} : Safe (Res.throw .invalid_argument : Res α) := Or.inl rfl
theorem safe_oor {α : Type} : Safe (Res.throw .out_of_range : Res α) := Or.inr (Or.inr (Or.inl rfl))
theorem safe_ov {α : Type} : Safe (Res.throw .overflow_error : Res α) := Or.inr (Or.inr (Or.inr (Or.inl rfl)))
theorem safe_un {α : Type} : Safe (Res.throw .underflow_error : Res α) :=
  Or.inr (Or.inr (Or.inr (Or.inr (Or.inl rfl))))
theorem safe_bc {α : Type} : Safe (Res.throw .bad_cast : Res α) := Or.inr (Or.inr (Or.inr (Or.inr (Or.inr rfl))))

/-- closes goals `Safe (…)` over do-blocks of safe pieces; facts about the pieces are taken from the
    local context (`have := lemma` before the call) -/
macro "safe_auto" : tactic => `(tactic|
  repeat' (first
    | (with_reducible exact Safe.ok _)
    | (with_reducible exact Safe.pure _)
    | (with_reducible exact safe_rt) | (with_reducible exact safe_ia) | (with_reducible exact safe_oor)
    | (with_reducible exact safe_ov) | (with_reducible exact safe_un) | (with_reducible exact safe_bc)
    | (with_reducible exact True.intro)
    | (with_reducible apply_assumption)
    | (with_reducible apply Safe.bind)
    | (intro _ _)
    | split
    | (dsimp only)))

theorem throwIf_safe (c : Bool) (e : Exc) (he : stdExc e) : Safe (throwIf c e) := by
  unfold throwIf; split
  · exact he
  · trivial

theorem se_rt : stdExc .runtime_error := Or.inr (Or.inl rfl)
theorem se_oor : stdExc .out_of_range := Or.inr (Or.inr (Or.inl rfl))
theorem se_ov : stdExc .overflow_error := Or.inr (Or.inr (Or.inr (Or.inl rfl)))
theorem se_un : stdExc .underflow_error := Or.inr (Or.inr (Or.inr (Or.inr (Or.inl rfl))))

theorem parse_safe (s : List Char) : Safe (Key.parse s) := by
  rcases parse_total s with ⟨k, h⟩ | h
  · rw [h]; trivial
  · rw [h]; exact safe_ia

theorem wordKey_safe (s : List Char) : Safe (wordKey s) := parse_safe _

theorem findAbbr_safe {α : Type} (k : Key) (t : List (Key × α)) (i : Nat) (p : Option (Nat × α)) :
    Safe (findAbbr k t i p) := by
  induction t generalizing i p with
  | nil => simp [findAbbr]; trivial
  | cons e es ih =>
    obtain ⟨ek, a⟩ := e
    simp only [findAbbr]
    split
    · split
      · exact ih _ _
      · exact safe_rt
    · exact ih _ _

theorem findArg_safe {α : Type} (abbr : Bool) (t : List (Key × α)) (k : Key) : Safe (findArg abbr t k) := by
  unfold findArg
  split
  · trivial
  · split
    · exact findAbbr_safe _ _ _ _
    · trivial

theorem lexCastInt_safe (s : Word) : Safe (lexCastInt s) := by
  unfold lexCastInt
  repeat' split
  all_goals first | trivial | exact safe_bc | (dsimp only; split <;> first | trivial | exact safe_bc)

theorem check_safe (c : Check) (v : Word) : Safe (c.run v) := by
  cases c <;> simp only [Check.run]
  · apply Safe.bind (lexCastInt_safe _); intro _ _; exact throwIf_safe _ _ se_un
  · apply Safe.bind (lexCastInt_safe _); intro _ _; exact throwIf_safe _ _ se_ov
  · apply Safe.bind (lexCastInt_safe _); intro _ _
    apply Safe.bind (throwIf_safe _ _ se_oor); intro _ _; exact throwIf_safe _ _ se_oor
  · split <;> exact throwIf_safe _ _ se_oor
  · exact throwIf_safe _ _ se_un
  · exact throwIf_safe _ _ se_ov
  · exact throwIf_safe _ _ se_oor

theorem runChecks_safe (cs : List Check) (v : Word) : Safe (runChecks cs v) := by
  induction cs with
  | nil => trivial
  | cons c cs ih =>
    simp only [runChecks]
    apply Safe.bind (check_safe c v)
    intro _ _; exact ih

theorem gotValue_safe (c : Card) (n : Int) : Safe (c.gotValue n) := by
  cases c <;> simp only [Card.gotValue]
  all_goals repeat' split
  all_goals first | trivial | exact safe_rt

theorem countValue_safe (b : Bool) (c : Card) (n : Int) : Safe (countValue b c n) := by
  unfold countValue; split
  · trivial
  · exact gotValue_safe _ _

theorem cardCheck_safe (c : Card) (n : Int) : Safe (c.check n) := by
  cases c <;> simp only [Card.check]
  all_goals repeat' split
  all_goals first | trivial | exact safe_rt

theorem assignVecLoop_safe (d : ArgDef) (ts : List Word) (first : Bool) (st : ArgSt) :
    Safe (assignVecLoop d ts first st) := by
  induction ts generalizing first st with
  | nil => trivial
  | cons t ts ih =>
    simp only [assignVecLoop]
    apply Safe.bind (countValue_safe _ _ _); intro _ _
    apply Safe.bind (runChecks_safe _ _); intro _ _
    apply Safe.bind (lexCastInt_safe _); intro _ _
    exact ih _ _

theorem assignDest_safe (d : ArgDef) (st : ArgSt) (v : Word) : Safe (assignDest d st v) := by
  unfold assignDest
  split
  · trivial
  · apply Safe.bind (runChecks_safe _ _); intro _ _
    apply Safe.bind (lexCastInt_safe _); intro _ _; trivial
  · apply Safe.bind (runChecks_safe _ _); intro _ _; trivial
  · dsimp only
    split
    · apply Safe.bind (throwIf_safe _ _ se_rt); intro _ _
      apply Safe.bind (runChecks_safe _ _); intro _ _; trivial
    · apply Safe.bind (throwIf_safe _ _ se_rt); intro _ _
      apply Safe.bind (runChecks_safe _ _); intro _ _
      apply Safe.bind (lexCastInt_safe _); intro _ _; trivial
  · exact assignVecLoop_safe _ _ _ _

theorem pendingCheckRequired_safe (p : List (Key × CType)) : Safe (pendingCheckRequired p) :=
  throwIf_safe _ _ se_rt

theorem pendingIdentified_safe (k : Key) (p : List (Key × CType)) : Safe (pendingIdentified k p) := by
  induction p with
  | nil => trivial
  | cons e es ih =>
    simp only [pendingIdentified]
    split
    · split
      · exact ih
      · exact safe_rt
    · apply Safe.bind ih; intro _ _; trivial

theorem executeGlobals_safe (gs : List GDef) (ss : List GSt) (k : Key) : Safe (executeGlobals gs ss k) := by
  induction gs generalizing ss with
  | nil => simp [executeGlobals]; trivial
  | cons g gs ih =>
    cases ss with
    | nil => simp [executeGlobals]; trivial
    | cons s ss =>
      simp only [executeGlobals]
      apply Safe.bind
      · unfold GDef.execute
        repeat' split
        all_goals first | trivial | exact safe_rt
      · intro _ _
        apply Safe.bind (ih ss); intro _ _; trivial

theorem compareValue_safe (k : Kind) (a b : DVal) : Safe (compareValue k a b) := by
  unfold compareValue
  split
  · trivial
  · trivial
  · exact safe_ia

theorem differInner_safe (a1 : VArg) (l : List VArg) : Safe (differInner a1 l) := by
  induction l with
  | nil => trivial
  | cons a2 rest ih =>
    simp only [differInner]
    split
    · apply Safe.bind (compareValue_safe _ _ _); intro _ _
      apply Safe.bind (throwIf_safe _ _ se_rt); intro _ _; exact ih
    · exact ih

theorem differOuter_safe (all l : List VArg) : Safe (differOuter all l) := by
  induction l with
  | nil => trivial
  | cons a1 rest ih =>
    simp only [differOuter]
    split
    · apply Safe.bind (differInner_safe _ _); intro _ _; exact ih
    · exact ih

theorem disjointCheck_safe (l : List VArg) : Safe (disjointCheck l) := by
  unfold disjointCheck
  split
  · split
    · trivial
    · apply Safe.bind
      · unfold hasIntersection
        split
        · trivial
        · exact safe_ia
      · intro _ _; exact throwIf_safe _ _ se_rt
  · trivial

theorem endCheck_safe (defs : List ArgDef) (sts : List ArgSt) (g : GDef) (s : GSt) : Safe (g.endCheck defs sts s) := by
  unfold GDef.endCheck
  split
  · split
    · trivial
    · exact safe_rt
  · trivial
  · split
    · trivial
    · exact safe_rt
  · exact differOuter_safe _ _
  · exact disjointCheck_safe _

theorem checkGlobals_safe (defs : List ArgDef) (sts : List ArgSt) (gs : List GDef) (ss : List GSt) :
    Safe (checkGlobals defs sts gs ss) := by
  induction gs generalizing ss with
  | nil => simp [checkGlobals]; trivial
  | cons g gs ih =>
    cases ss with
    | nil => simp [checkGlobals]; trivial
    | cons s ss =>
      simp only [checkGlobals]
      apply Safe.bind (endCheck_safe _ _ _ _)
      intro _ _; exact ih ss

theorem assignValue_safe (h : HState) (i : Nat) (d : ArgDef) (v : Word) (b : Bool) : Safe (assignValue h i d v b) := by
  unfold assignValue
  apply Safe.bind (throwIf_safe _ _ se_rt); intro _ _
  apply Safe.bind (countValue_safe _ _ _); intro _ _
  apply Safe.bind (throwIf_safe _ _ se_rt); intro _ _
  apply Safe.bind (assignDest_safe _ _ _); intro _ _; trivial

theorem handleIdentifiedArg_safe (cfg : Cfg) (h : HState) (i : Nat) (d : ArgDef) (v : Word) :
    Safe (handleIdentifiedArg cfg h i d v) := by
  unfold handleIdentifiedArg
  apply Safe.bind (pendingIdentified_safe _ _); intro _ _
  apply Safe.bind (executeGlobals_safe _ _ _); intro _ _
  apply Safe.bind (assignValue_safe _ _ _ _ _); intro _ _
  trivial

theorem checkMandatoryCardinality_safe (ds : List ArgDef) (ss : List ArgSt) :
    Safe (checkMandatoryCardinality ds ss) := by
  induction ds generalizing ss with
  | nil => simp [checkMandatoryCardinality]; trivial
  | cons d ds ih =>
    cases ss with
    | nil => simp [checkMandatoryCardinality]; trivial
    | cons s ss =>
      simp only [checkMandatoryCardinality]
      apply Safe.bind (throwIf_safe _ _ se_rt); intro _ _
      apply Safe.bind (cardCheck_safe _ _); intro _ _
      exact ih ss

end CelmaVerif.ProgArgs

namespace CelmaVerif.ProgArgs
open CelmaVerif CelmaVerif.Keys

/-- post-condition of the functions that take and return the cursor: safe, and the cursor returned is
    valid, over the same argv, not behind the one passed, and not past the end -/
def SafeIt (ai : It) (r : Res (HState × It × ArgResult)) : Prop :=
  match r with
  | .ok (_, ai', _) => ai'.Inv ∧ ai'.argv = ai.argv ∧ ai'.measure ≤ ai.measure ∧ ai'.argIndex ≤ ai'.argv.length
  | .throw e => stdExc e
  | .oob _ => False

theorem SafeIt.same {ai : It} (hI : ai.Inv) (hle : ai.argIndex ≤ ai.argv.length) (h : HState) (r : ArgResult) :
    SafeIt ai (.ok (h, ai, r)) := ⟨hI, rfl, Nat.le_refl _, hle⟩

theorem SafeIt.bind {α : Type} {ai : It} {r : Res α} {f : α → Res (HState × It × ArgResult)} (hr : Safe r)
    (hf : ∀ a, r = .ok a → SafeIt ai (f a)) : SafeIt ai (r >>= f) := by
  cases r with
  | ok a => exact hf a rfl
  | throw e => exact hr
  | oob w => exact hr

theorem notAtEnd_le {it : It} (hI : it.Inv) (h : it.atEnd = false) : it.argIndex ≤ it.argv.length := by
  have := hI.idx_le
  by_cases he : it.argIndex = it.argv.length + 1
  · have := hI.isend he; rw [h] at this; cases this
  · omega

/-- `++ait2` on a copy of the cursor (with or without the "rest of the word is the value" flag) -/
theorem step_flag_good (ai : It) (b : Bool) (hI : ai.Inv) (hle : ai.argIndex ≤ ai.argv.length) :
    Good ai (({ ai with remAsValue := b } : It).step) := by
  have hI' : ({ ai with remAsValue := b } : It).Inv := Inv_congr (a := ai) rfl rfl rfl rfl hI
  have := next_good { ai with remAsValue := b } 1 hI' hle
  unfold Good at this ⊢
  unfold It.step
  cases hr : ({ ai with remAsValue := b } : It).next 4 with
  | ok c =>
    rw [hr] at this
    exact ⟨this.1, this.2.1, by
      rw [← measure_congr (a := ai) (b := { ai with remAsValue := b }) rfl rfl rfl]; exact this.2.2⟩
  | throw e => rw [hr] at this; exact this
  | oob w => rw [hr] at this; exact this

theorem processArg_safe (cfg : Cfg) (h : HState) (key : Key) (ai : It) (hI : ai.Inv)
    (hle : ai.argIndex ≤ ai.argv.length) : SafeIt ai (processArg cfg h key ai) := by
  unfold processArg
  apply SafeIt.bind (findArg_safe _ _ _)
  intro found _
  cases found with
  | none => exact SafeIt.same hI hle _ _
  | some p =>
    obtain ⟨i, d⟩ := p
    dsimp only
    split
    · apply SafeIt.bind (handleIdentifiedArg_safe _ _ _ _ _); intro _ _
      exact SafeIt.same hI hle _ _
    · have hg : Good ai ((if d.vmode = VMode.required then
          ({ ai with remAsValue := true } : It) else ai).step) := by
        split
        · exact step_flag_good ai true hI hle
        · have := step_flag_good ai ai.remAsValue hI hle
          exact this
      cases hs : (if d.vmode = VMode.required then ({ ai with remAsValue := true } : It) else ai).step with
      | ok ait2 =>
        rw [hs] at hg
        simp only [Res.bind_ok]
        split
        · split
          · apply SafeIt.bind (handleIdentifiedArg_safe _ _ _ _ _); intro _ _
            exact SafeIt.same hI hle _ _
          · exact se_rt
        · apply SafeIt.bind (handleIdentifiedArg_safe _ _ _ _ _); intro _ _
          rename_i hcond _ _
          have hne : ait2.atEnd = false := by
            cases hae : ait2.atEnd with
            | false => rfl
            | true => simp [hae] at hcond
          exact ⟨hg.1, hg.2.1, Nat.le_of_lt hg.2.2, notAtEnd_le hg.1 hne⟩
      | throw e => rw [hs] at hg; cases hg; exact se_rt
      | oob w => rw [hs] at hg; exact hg.elim

theorem evalSingleArgument_safe (cfg : Cfg) (h : HState) (ai : It) (hI : ai.Inv)
    (hle : ai.argIndex ≤ ai.argv.length) : SafeIt ai (evalSingleArgument cfg h ai) := by
  unfold evalSingleArgument
  split
  · exact processArg_safe _ _ _ _ hI hle
  · apply SafeIt.bind (wordKey_safe _); intro _ _
    exact processArg_safe _ _ _ _ hI hle
  · split
    · exact SafeIt.same hI hle _ _
    · exact SafeIt.same hI hle _ _
  · dsimp only
    split
    · apply SafeIt.bind (assignValue_safe _ _ _ _ _); intro _ _
      exact SafeIt.same hI hle _ _
    · apply SafeIt.bind (findArg_safe _ _ _); intro found _
      cases found with
      | none => exact SafeIt.same hI hle _ _
      | some p =>
        obtain ⟨i, d⟩ := p
        dsimp only
        apply SafeIt.bind (handleIdentifiedArg_safe _ _ _ _ _); intro _ _
        exact SafeIt.same hI hle _ _

theorem step_good (it : It) (hI : it.Inv) (hle : it.argIndex ≤ it.argv.length) : Good it it.step :=
  next_good it 1 hI hle

/-- the `for` loop of iterateArguments never runs out of its bound and never leaves argv -/
theorem iterateLoop_safe (cfg : Cfg) (fuel : Nat) : ∀ (h : HState) (ai : It), ai.Inv → ai.measure < fuel →
    Safe (iterateLoop cfg fuel h ai) := by
  induction fuel with
  | zero => intro h ai _ hm; omega
  | succ fuel ih =>
    intro h ai hI hm
    unfold iterateLoop
    split
    · trivial
    · rename_i hne
      have hae : ai.atEnd = false := by
        cases hh : ai.atEnd with
        | false => rfl
        | true => exact absurd hh hne
      have hle := notAtEnd_le hI hae
      have hs := evalSingleArgument_safe cfg h ai hI hle
      cases he : evalSingleArgument cfg h ai with
      | ok p =>
        obtain ⟨h', ai', r⟩ := p
        rw [he] at hs
        obtain ⟨hI', hv', hm', hle'⟩ := hs
        simp only [Res.bind_ok]
        cases r with
        | unknown => exact safe_ia
        | last => trivial
        | consumed =>
          dsimp only
          have hg := step_good ai' hI' hle'
          cases hst : ai'.step with
          | ok ai'' =>
            rw [hst] at hg
            simp only [Res.bind_ok]
            exact ih h' ai'' hg.1 (by have := hg.2.2; omega)
          | throw e => rw [hst] at hg; cases hg; exact safe_rt
          | oob w => rw [hst] at hg; exact hg.elim
      | throw e => rw [he] at hs; exact hs
      | oob w => rw [he] at hs; exact hs.elim

theorem measure_lt_total (it : It) : it.measure < totalChars it.argv := by
  unfold It.measure totalChars
  split
  · omega
  · have : ∀ (l : List Word) (n : Nat), ((l.drop n).map (fun w => w.length + 2)).sum ≤ (l.map (fun w => w.length + 2)).sum := by
      intro l
      induction l with
      | nil => intro n; simp
      | cons a l ih =>
        intro n
        cases n with
        | zero => simp
        | succ n => simp only [List.drop_succ_cons, List.map_cons, List.sum_cons]; have := ih n; omega
    have := this it.argv it.argIndex
    omega

def BeginPost (argv : List Word) (r : Res It) : Prop :=
  match r with
  | .ok it => it.Inv ∧ it.argv = argv
  | .throw e => e = .runtime_error
  | .oob _ => False

theorem begin_good (argv : List Word) (h1 : 1 ≤ argv.length) : BeginPost argv (It.begin argv) := by
  unfold It.begin
  split
  · obtain ⟨e, he, hv, hi, _⟩ := mkEnd_ok h1
    rw [he]
    exact ⟨mkEnd_inv h1 he, hv⟩
  · rename_i hlen
    have hlt : 1 < argv.length := by omega
    rw [getWord_ok hlt]
    simp only [Res.bind_ok]
    obtain ⟨c0, hc0⟩ := getChar_ok (j := 0) hlt (by omega)
    rw [hc0]
    simp only [Res.bind_ok]
    -- a valid cursor at the start of word 1, used as the reference for the lemmas
    let b0 : It := { argv := argv, argIndex := 1, charPos := 0, cur := {}, curLen := argv[1].length }
    have hb0 : b0.Inv := by
      refine ⟨h1, by show 1 ≤ argv.length + 1; omega, ?_, ?_, ?_, ?_, ?_⟩
      · intro w _; show 0 ≤ _; omega
      · intro w _ h0; exact absurd h0 (Nat.lt_irrefl 0)
      · intro h; cases h
      · intro _; rfl
      · intro h; have : (1 : Nat) = argv.length + 1 := h; omega
    split
    · rename_i hdash
      split
      · rfl
      · rename_i hne1
        have hd : c0 = '-' := by simpa using hdash
        have hlen0 := getChar_dash hc0 hd hlt
        have hlen1 : argv[1].length ≠ 1 := by simpa using hne1
        let b : It := { argv := argv, argIndex := 1, charPos := 1, cur := {}, curLen := argv[1].length }
        have hbI : b.Inv := inword_inv (it := b0) hb0 hlt rfl rfl (by show 1 ≤ argv[1].length; omega)
          (fun _ => by show 1 < argv[1].length; omega)
        have hg := determineNextArg_good b 2 hbI hlt (by show 0 < 1; omega) (by show 1 < argv[1].length; omega) rfl rfl
        cases hr : b.determineNextArg 4 with
        | ok c =>
          rw [hr] at hg
          exact ⟨hg.1, hg.2.1⟩
        | throw e => rw [hr] at hg; exact hg
        | oob w => rw [hr] at hg; exact hg.elim
    · simp only [Res.pure_eq]
      exact ⟨boundary_inv (it := b0) hb0 hlt rfl rfl rfl rfl, rfl⟩

theorem iterateArguments_safe (cfg : Cfg) (h : HState) (argv : List Word) (h1 : 1 ≤ argv.length) :
    Safe (iterateArguments cfg h argv) := by
  unfold iterateArguments
  have hb := begin_good argv h1
  cases hbe : It.begin argv with
  | ok ai =>
    rw [hbe] at hb
    simp only [Res.bind_ok]
    have := measure_lt_total ai
    rw [hb.2] at this
    exact iterateLoop_safe cfg _ h ai hb.1 this
  | throw e => rw [hbe] at hb; cases hb; exact safe_rt
  | oob w => rw [hbe] at hb; exact hb.elim

theorem readFileLines_safe (cfg : Cfg) (lines : List Word) : ∀ h, Safe (readFileLines cfg lines h) := by
  induction lines with
  | nil => intro h; trivial
  | cons l ls ih =>
    intro h
    simp only [readFileLines]
    split
    · exact ih h
    · apply Safe.bind (iterateArguments_safe _ _ _ (by simp)); intro _ _
      exact ih _

theorem endChecks_safe (cfg : Cfg) (h : HState) : Safe (endChecks cfg h) := by
  unfold endChecks
  dsimp only
  apply Safe.bind (checkMandatoryCardinality_safe _ _); intro _ _
  apply Safe.bind (pendingCheckRequired_safe _); intro _ _
  apply Safe.bind (checkGlobals_safe _ _ _ _); intro _ _
  trivial

/-- `Handler::evalArguments`: for every configuration, state, file content, environment value and
    argument vector with a program name — never out of bounds, terminates within the bound, and any
    exception is a std:: class -/
theorem evalArguments_safe (cfg : Cfg) (h : HState) (src : Sources) (argv : List Word) (h1 : 1 ≤ argv.length) :
    Safe (evalArguments cfg h src argv) := by
  unfold evalArguments
  apply Safe.bind
  · unfold evalFileSource
    split
    · apply Safe.bind (readFileLines_safe _ _ _); intro _ _; trivial
    · trivial
  · intro _ _
    apply Safe.bind
    · unfold evalEnvSource
      split
      · apply Safe.bind (iterateArguments_safe _ _ _ (by simp)); intro _ _; trivial
      · trivial
    · intro _ _
      apply Safe.bind (iterateArguments_safe _ _ _ h1); intro _ _
      exact endChecks_safe _ _

/-! ### Groups -/

def SafeOffer (ai : It) (r : Res (List (Cfg × HState) × It × ArgResult)) : Prop :=
  match r with
  | .ok (_, ai', _) => ai'.Inv ∧ ai'.argv = ai.argv ∧ ai'.measure ≤ ai.measure ∧ ai'.argIndex ≤ ai'.argv.length
  | .throw e => stdExc e
  | .oob _ => False

theorem offer_safe (isKey : Bool) (ms : List (Cfg × HState)) (ai : It) (hI : ai.Inv)
    (hle : ai.argIndex ≤ ai.argv.length) : SafeOffer ai (offer isKey ms ai) := by
  induction ms with
  | nil => exact ⟨hI, rfl, Nat.le_refl _, hle⟩
  | cons m ms ih =>
    obtain ⟨c, h⟩ := m
    simp only [offer]
    have hs := evalSingleArgument_safe c h ai hI hle
    cases he : evalSingleArgument c h ai with
    | ok p =>
      obtain ⟨h', ai', r⟩ := p
      rw [he] at hs
      simp only [Res.bind_ok]
      split
      · exact hs
      · cases ho : offer isKey ms ai with
        | ok q =>
          obtain ⟨rest', ai'', r'⟩ := q
          rw [ho] at ih
          simp only [Res.bind_ok]
          exact ih
        | throw e => rw [ho] at ih; exact ih
        | oob w => rw [ho] at ih; exact ih.elim
    | throw e => rw [he] at hs; exact hs
    | oob w => rw [he] at hs; exact hs.elim

theorem groupsLoop_safe (fuel : Nat) : ∀ (ms : List (Cfg × HState)) (ai : It), ai.Inv → ai.measure < fuel →
    Safe (groupsLoop fuel ms ai) := by
  induction fuel with
  | zero => intro ms ai _ hm; omega
  | succ fuel ih =>
    intro ms ai hI hm
    unfold groupsLoop
    split
    · trivial
    · rename_i hne
      have hae : ai.atEnd = false := by
        cases hh : ai.atEnd with
        | false => rfl
        | true => exact absurd hh hne
      have hle := notAtEnd_le hI hae
      have hs := offer_safe (ai.cur.ty != .value) ms ai hI hle
      cases he : offer (ai.cur.ty != .value) ms ai with
      | ok p =>
        obtain ⟨ms', ai', r⟩ := p
        rw [he] at hs
        obtain ⟨hI', hv', hm', hle'⟩ := hs
        simp only [Res.bind_ok]
        split
        · exact safe_rt
        · have hg := step_good ai' hI' hle'
          cases hst : ai'.step with
          | ok ai'' =>
            rw [hst] at hg
            simp only [Res.bind_ok]
            exact ih ms' ai'' hg.1 (by have := hg.2.2; omega)
          | throw e => rw [hst] at hg; cases hg; exact safe_rt
          | oob w => rw [hst] at hg; exact hg.elim
      | throw e => rw [he] at hs; exact hs
      | oob w => rw [he] at hs; exact hs.elim

theorem groupsEndChecks_safe (ms : List (Cfg × HState)) : Safe (groupsEndChecks ms) := by
  induction ms with
  | nil => trivial
  | cons m ms ih =>
    obtain ⟨c, h⟩ := m
    simp only [groupsEndChecks]
    apply Safe.bind
    · unfold memberEndChecks
      apply Safe.bind (checkMandatoryCardinality_safe _ _); intro _ _
      apply Safe.bind (pendingCheckRequired_safe _); intro _ _
      exact checkGlobals_safe _ _ _ _
    · intro _ _; exact ih

theorem groupsEval_safe (cfg : Cfg) (inits : List DVal) (am gm order : List Nat) (argv : List Word)
    (h1 : 1 ≤ argv.length) : Safe (groupsEval cfg inits am gm order argv) := by
  unfold groupsEval
  apply Safe.bind (throwIf_safe _ _ se_rt); intro _ _
  dsimp only
  have hb := begin_good argv h1
  cases hbe : It.begin argv with
  | ok ai =>
    rw [hbe] at hb
    simp only [Res.bind_ok]
    have := measure_lt_total ai
    rw [hb.2] at this
    apply Safe.bind (groupsLoop_safe _ _ ai hb.1 this); intro _ _
    apply Safe.bind (groupsEndChecks_safe _); intro _ _
    trivial
  | throw e => rw [hbe] at hb; cases hb; exact safe_rt
  | oob w => rw [hbe] at hb; exact hb.elim

end CelmaVerif.ProgArgs
