import CelmaVerif.Lemmas.ContainersSeq
/-
  Sequence destinations, second part: every element is checked and converted, a repeated value is refused when
  duplicates are errors, clear-before-assign fires once, a sorted destination is ascending after every use.
-/
namespace CelmaVerif.Containers

section seq
variable {α : Type} [DecidableEq α] {E : Elem α} {k : SeqKind} {o : Opts}

/-- a store that went through is `stepV` (also without `Valid`: the unconfigurable combinations throw) -/
theorem storeValue_ok_eq {c c1 : List α} {v : α} (h : storeValue E k o c v = .ok c1) : c1 = stepV E k o c v := by
  unfold storeValue containsValue at h
  unfold stepV
  cases hu : o.unique
  · rw [hu] at h
    simp only [Bool.false_eq_true, if_false, Res.ok.injEq] at h
    subst h
    simp only [Bool.false_or]
    by_cases hm : v ∈ c
    · cases hs : k.isSet
      · simp
      · simp [hm, addValue_set_mem v c hs hm]
    · simp [hm]
  · rw [hu] at h
    simp only [if_true] at h
    cases hit : k.hasIterators
    · rw [hit] at h; simp at h
    · rw [hit] at h
      simp only [if_true] at h
      by_cases hm : v ∈ c
      · simp only [hm, decide_true] at h
        cases hde : o.dupErr
        · rw [hde] at h
          simp only [Bool.false_eq_true, if_false, Res.ok.injEq] at h
          subst h
          simp [hm]
        · rw [hde] at h; simp at h
      · simp only [hm, decide_false, Res.ok.injEq] at h
        subst h
        simp [hm]

/-- what a successful step says about its token: it passed the checks and converted after formatting for the
    position `c.length` -/
theorem elemStep_ok_accepts {c c1 : List α} {t : List Char} (h : elemStep E k o c t = .ok c1) :
    runChecks o.checks t = none ∧ ∃ v, valOf E k o c.length t = some v ∧ c1 = stepV E k o c v := by
  unfold elemStep at h
  unfold valOf
  cases hchk : runChecks o.checks t with
  | some e => rw [hchk] at h; cases h
  | none =>
    rw [hchk] at h
    simp only at h
    cases hcv : E.conv (fmtSeq k o c.length t) with
    | none => rw [hcv] at h; cases h
    | some v =>
      rw [hcv] at h
      exact ⟨rfl, v, rfl, storeValue_ok_eq h⟩

theorem elems_ok_accepts (hl : LawfulLe E.le) (base : List α) : ∀ (ts : List (List Char)) (c c' done : List α),
    Inv E k o base c done → elems E k o c ts = (c', none) →
    AccAll E k o base done ts ∧ Inv E k o base c' (done ++ vals E k o base done ts)
  | [], c, c', done, hi, h => by
    rw [elems] at h
    cases h
    exact ⟨trivial, by simpa [vals] using hi⟩
  | t :: ts, c, c', done, hi, h => by
    rw [elems] at h
    cases hst : elemStep E k o c t with
    | ok c1 =>
      rw [hst] at h
      obtain ⟨hchk, v, hv, hc1⟩ := elemStep_ok_accepts hst
      rw [length_of_inv hi] at hv
      subst hc1
      have := elems_ok_accepts hl base ts _ c' (done ++ [v]) (stepV_inv hl hi v) h
      refine ⟨⟨hchk, v, hv, this.1⟩, ?_⟩
      rw [vals_cons_some ts hv]
      simpa [List.append_assoc] using this.2
    | throw e => rw [hst] at h; cases h
    | oob w => rw [hst] at h; cases h

theorem assignP_ok_elems {s s' : SeqState α} {u : List Char} (h : assignP E k o s u = (s', none)) :
    ∃ c1, elems E k o (startContent s) (tokens o.sep u) = (c1, none) ∧
      (s' = ⟨c1, false⟩ ∨ (o.sort = true ∧ s' = ⟨isort E.le c1, false⟩)) := by
  cases hel : elems E k o (startContent s) (tokens o.sep u) with
  | mk c1 st =>
    unfold assignP at h
    unfold startContent at hel
    simp only [hel] at h
    cases st with
    | none =>
      refine ⟨c1, rfl, ?_⟩
      simp only at h
      cases hs : o.sort
      · rw [hs] at h
        simp only [Bool.false_eq_true, if_false, Prod.mk.injEq, and_true] at h
        exact Or.inl h.symm
      · rw [hs] at h
        simp only [if_true] at h
        unfold sortContent at h
        by_cases hk : k.sortable = true
        · rw [if_pos hk] at h
          simp only [Prod.mk.injEq, and_true] at h
          exact Or.inr ⟨rfl, h.symm⟩
        · rw [if_neg hk] at h
          simp at h
    | some x => simp at h

theorem assignP_ok_accepts (hl : LawfulLe E.le) (base : List α) {s s' : SeqState α} {u : List Char} (done : List α)
    (hi : Inv E k o base (startContent s) done) (h : assignP E k o s u = (s', none)) :
    AccAll E k o base done (tokens o.sep u) ∧
      Inv E k o base (startContent s') (done ++ vals E k o base done (tokens o.sep u)) := by
  obtain ⟨c1, hc1, hs'⟩ := assignP_ok_elems h
  have := elems_ok_accepts hl base _ _ c1 done hi hc1
  refine ⟨this.1, ?_⟩
  rcases hs' with rfl | ⟨hs, rfl⟩
  · exact this.2
  · show Inv E k o base (isort E.le c1) _
    exact ⟨(isort_perm c1).trans this.2.perm, fun h => (by rw [hs] at h; cases h), fun _ => isort_sorted hl c1⟩

/-- whatever was given: if the evaluation went through, every single element passed the checks and converted —
    after the general format and the formatters of the position at which it arrived -/
theorem runP_ok_accepts (hl : LawfulLe E.le) (base : List α) : ∀ (uses : List (List Char)) (s s' : SeqState α)
    (done : List α), Inv E k o base (startContent s) done → runP E k o s uses = (s', none) →
    AccAll E k o base done (allTokens o.sep uses)
  | [], _, _, _, _, _ => by simp [allTokens, AccAll]
  | u :: us, s, s', done, hi, h => by
    rw [runP] at h
    cases ha : assignP E k o s u with
    | mk s1 st =>
      rw [ha] at h
      cases st with
      | some x => simp at h
      | none =>
        simp only at h
        have h1 := assignP_ok_accepts hl base done hi ha
        have htok : allTokens o.sep (u :: us) = tokens o.sep u ++ allTokens o.sep us := by simp [allTokens]
        rw [htok, accAll_append]
        exact ⟨h1.1, runP_ok_accepts hl base us s1 s' _ h1.2 h⟩

/-- after any use the clear flag is down -/
theorem assignP_clearPending (s : SeqState α) (u : List Char) : (assignP E k o s u).1.clearPending = false := by
  unfold assignP
  dsimp only
  cases elems E k o (if s.clearPending then [] else s.content) (tokens o.sep u) with
  | mk c1 st =>
    cases st with
    | some x => rfl
    | none =>
      dsimp only
      cases hs : o.sort
      · simp
      · simp only [if_true]
        cases sortContent E k c1 <;> rfl

/-- clear-before-assign = "start from the empty container", and that only once: with the flag up, the
    evaluation is the evaluation of a destination that was empty and has no clear flag -/
theorem runP_clear (init : List α) (u : List Char) (us : List (List Char)) :
    runP E k o ⟨init, true⟩ (u :: us) = runP E k o ⟨[], false⟩ (u :: us) := by
  rw [runP, runP]
  have : assignP E k o ⟨init, true⟩ u = assignP E k o ⟨[], false⟩ u := by
    unfold assignP
    rfl
  rw [this]

theorem assignP_sorted (hl : LawfulLe E.le) {s s' : SeqState α} {u : List Char}
    (h : assignP E k o s u = (s', none)) (hs : o.sort = true) : Sorted E.le s'.content := by
  unfold assignP at h
  dsimp only at h
  cases hel : elems E k o (if s.clearPending then [] else s.content) (tokens o.sep u) with
  | mk c1 st =>
    rw [hel] at h
    cases st with
    | some x => simp at h
    | none =>
      simp only [hs, if_true] at h
      unfold sortContent at h
      by_cases hk : k.sortable = true
      · rw [if_pos hk] at h
        cases h
        exact isort_sorted hl c1
      · rw [if_neg hk] at h
        simp at h

/-- with `setSortData` the destination is ascending after any non-empty evaluation that went through -/
theorem runP_sorted (hl : LawfulLe E.le) (hs : o.sort = true) : ∀ (uses : List (List Char)) (s s' : SeqState α),
    uses ≠ [] → runP E k o s uses = (s', none) → Sorted E.le s'.content
  | [], _, _, hne, _ => absurd rfl hne
  | u :: us, s, s', _, h => by
    rw [runP] at h
    cases ha : assignP E k o s u with
    | mk s1 st =>
      rw [ha] at h
      cases st with
      | some x => simp at h
      | none =>
        simp only at h
        cases us with
        | nil =>
          rw [runP] at h
          cases h
          exact assignP_sorted hl ha hs
        | cons u2 us2 => exact runP_sorted hl hs (u2 :: us2) s1 s' (by simp) h

/-! duplicates are errors -/

/-- some value is already in the container or is given twice -/
def HasDup (base all : List α) : Prop := ¬ (all.Nodup ∧ ∀ v ∈ all, v ∉ base)

theorem elems_dup (hl : LawfulLe E.le) (hv : Valid k o) (hu : o.unique = true) (he : o.dupErr = true) (base : List α) :
    ∀ (ts : List (List Char)) (c done : List α), Inv E k o base c done → AccAll E k o base done ts →
      (done.Nodup ∧ ∀ v ∈ done, v ∉ base) → HasDup base (done ++ vals E k o base done ts) →
      ∃ c', elems E k o c ts = (c', some (.exc .runtime_error))
  | [], c, done, _, _, hd, hdup => by
    exfalso; apply hdup; simpa [vals] using hd
  | t :: ts, c, done, hi, hacc, hd, hdup => by
    obtain ⟨hchk, v, hvt, hrest⟩ := hacc
    have hvals := vals_cons_some ts hvt
    have hstepeq : elemStep E k o c t = storeValue E k o c v := by
      unfold elemStep
      rw [hchk]
      simp only
      unfold valOf at hvt
      rw [length_of_inv hi, hvt]
    by_cases hm : v ∈ c
    · refine ⟨c, ?_⟩
      rw [elems, hstepeq, storeValue_dup hv c v hu he hm]
    · have hnot : ¬ (v ∈ base ∨ v ∈ done) := fun h => hm ((mem_of_inv hi (by simp [hu]) v).mpr h)
      have hok := storeValue_ok (E := E) hv c v (fun h => hm h.2.2)
      have hi' := stepV_inv hl hi v
      have hassoc : done ++ vals E k o base done (t :: ts) = (done ++ [v]) ++ vals E k o base (done ++ [v]) ts := by
        rw [hvals]; simp
      have hd' : (done ++ [v]).Nodup ∧ ∀ x ∈ done ++ [v], x ∉ base := by
        constructor
        · refine List.nodup_append.mpr ⟨hd.1, by simp, ?_⟩
          intro a ha b hb
          simp only [List.mem_singleton] at hb
          subst hb
          intro hab
          exact hnot (Or.inr (hab ▸ ha))
        · intro x hx
          rcases List.mem_append.mp hx with hx | hx
          · exact hd.2 x hx
          · simp only [List.mem_singleton] at hx
            subst hx
            exact fun hb => hnot (Or.inl hb)
      obtain ⟨c', hc'⟩ := elems_dup hl hv hu he base ts (stepV E k o c v) (done ++ [v]) hi' hrest hd' (hassoc ▸ hdup)
      refine ⟨c', ?_⟩
      rw [elems, hstepeq, hok]
      exact hc'

theorem runP_dup (hl : LawfulLe E.le) (hv : Valid k o) (hu : o.unique = true) (he : o.dupErr = true)
    (base : List α) :
    ∀ (uses : List (List Char)) (s : SeqState α) (done : List α), Inv E k o base (startContent s) done →
      AccAll E k o base done (allTokens o.sep uses) → (done.Nodup ∧ ∀ v ∈ done, v ∉ base) →
      HasDup base (done ++ vals E k o base done (allTokens o.sep uses)) →
      ∃ s', runP E k o s uses = (s', some (.exc .runtime_error))
  | [], _, done, _, _, hd, hdup => by
    exfalso; apply hdup; simpa [vals, allTokens] using hd
  | u :: us, s, done, hi, hacc, hd, hdup => by
    have htok : allTokens o.sep (u :: us) = tokens o.sep u ++ allTokens o.sep us := by simp [allTokens]
    have hvals : vals E k o base done (allTokens o.sep (u :: us)) = vals E k o base done (tokens o.sep u) ++
        vals E k o base (done ++ vals E k o base done (tokens o.sep u)) (allTokens o.sep us) := by
      rw [htok, vals_append]
    rw [htok, accAll_append] at hacc
    by_cases h1 : ((done ++ vals E k o base done (tokens o.sep u)).Nodup ∧
        ∀ v ∈ done ++ vals E k o base done (tokens o.sep u), v ∉ base)
    · -- this use is fine, the repeated value comes later
      obtain ⟨c1, hc1, hinv1, _⟩ := assignP_inv hl hv base s u done hi hacc.1 (fun _ _ => h1)
      have hstart : startContent (⟨c1, false⟩ : SeqState α) = c1 := rfl
      obtain ⟨s', hs'⟩ := runP_dup hl hv hu he base us ⟨c1, false⟩ (done ++ vals E k o base done (tokens o.sep u))
        (hstart ▸ hinv1) hacc.2 h1
        (by rw [List.append_assoc, ← hvals]; exact hdup)
      exact ⟨s', by rw [runP, hc1]; exact hs'⟩
    · obtain ⟨c', hc'⟩ := elems_dup hl hv hu he base (tokens o.sep u) (startContent s) done hi hacc.1 hd h1
      refine ⟨⟨c', false⟩, ?_⟩
      rw [runP]
      unfold assignP
      unfold startContent at hc'
      simp only [hc']

/-- the closed form is a rearrangement of previous content plus kept values -/
theorem finalSpec_perm (init vs : List α) :
    (finalSpec E k o init vs).Perm ((if o.clear then [] else init) ++ keepOf k o (if o.clear then [] else init) vs) := by
  unfold finalSpec keepOf
  simp only
  split
  · exact isort_perm _
  · split
    · exact (List.perm_append_comm).trans (List.Perm.append_left _ (List.reverse_perm _))
    · exact List.Perm.refl _

end seq

/-- the uses of a cut: the elements of every use joined by the list separator -/
def usesOf (sep : Char) (cuts : List (List (List Char))) : List (List Char) := cuts.map (joinSep sep)

/-- all elements of a cut in order, empty elements dropped -/
def elements (cuts : List (List (List Char))) : List (List Char) := cuts.flatten.filter (fun t => decide (t ≠ []))

/-- the tokens the destination sees are exactly the non-empty elements, however they were cut into uses -/
theorem allTokens_usesOf (sep : Char) : ∀ (cuts : List (List (List Char))), (∀ e ∈ cuts.flatten, sep ∉ e) →
    allTokens sep (usesOf sep cuts) = elements cuts
  | [], _ => rfl
  | u :: us, h => by
    have h1 : ∀ e ∈ u, sep ∉ e := fun e he => h e (by simp [he])
    have h2 : ∀ e ∈ us.flatten, sep ∉ e := fun e he => h e (by simp only [List.flatten_cons, List.mem_append]; exact Or.inr he)
    have ih := allTokens_usesOf sep us h2
    unfold allTokens usesOf elements at *
    simp only [List.map_cons, List.flatten_cons, List.filter_append]
    rw [tokens_joinSep sep u h1, ih]

theorem usesOf_ne_nil {sep : Char} {cuts : List (List (List Char))} (h : cuts ≠ []) : usesOf sep cuts ≠ [] := by
  cases cuts with
  | nil => exact absurd rfl h
  | cons a b => simp [usesOf]

end CelmaVerif.Containers
