import CelmaVerif.Lemmas.TextBlockTok
/-
  The `size_t` additions of `TextBlock::formatLine()` do not wrap around: the loop with every
  addition reduced modulo a symbolic word size `W` (`fmtWordsW`) equals the unbounded loop
  (`fmtWords`) when `indent + 2 + line.length + 2 < W`.
-/
namespace CelmaVerif.TextBlock

/-- characters the tokens take from the text, one separator counted per token -/
def budget : List Str → Nat
  | [] => 0
  | w :: ws => w.length + 1 + budget ws

theorem budget_push_le (r : Str × List Str) : budget (push r) ≤ r.1.length + 1 + budget r.2 := by
  unfold push
  split
  · omega
  · simp [budget]

theorem budget_tok (p : Char → Bool) (s : Str) : (tok p s).1.length + budget (tok p s).2 ≤ s.length := by
  induction s with
  | nil => simp [tok, budget]
  | cons c cs ih =>
    cases hc : p c with
    | true =>
      rw [tok_cons_sep hc]
      have := budget_push_le (tok p cs)
      simp only [List.length_nil, List.length_cons]
      unfold tokP
      omega
    | false =>
      rw [tok_cons_not hc]
      simp only [List.length_cons]
      omega

theorem budget_tokP (p : Char → Bool) (s : Str) : budget (tokP p s) ≤ s.length + 1 := by
  have h1 := budget_push_le (tok p s)
  have h2 := budget_tok p s
  unfold tokP
  omega

theorem fmtWordsW_eq (W : Nat) (c : Cfg) (M : Nat) (hM : M < W) : ∀ (ws : List Str) cur len dash,
    len + budget ws ≤ M → c.indent + 2 + budget ws ≤ M →
    fmtWordsW W c ws cur len dash = fmtWords c ws cur len dash := by
  intro ws
  induction ws with
  | nil => intro cur len dash _ _; rfl
  | cons w ws ih =>
    intro cur len dash h1 h2
    simp only [budget] at h1 h2
    unfold fmtWordsW fmtWords
    have e1 : (len + w.length + 1) % W = len + w.length + 1 := Nat.mod_eq_of_lt (by omega)
    have e2 : (len + 1 + w.length) % W = len + 1 + w.length := Nat.mod_eq_of_lt (by omega)
    have e3 : (len + w.length) % W = len + w.length := Nat.mod_eq_of_lt (by omega)
    have e4 : (c.indent + (if dash then 1 else 0)) % W = c.indent + (if dash then 1 else 0) :=
      Nat.mod_eq_of_lt (by cases dash <;> simp <;> omega)
    have e5 : (c.indent + w.length + (if dash then 2 else 0)) % W = c.indent + w.length + (if dash then 2 else 0) :=
      Nat.mod_eq_of_lt (by cases dash <;> simp <;> omega)
    rw [e1, e2, e3, e4, e5]
    rw [ih _ _ dash (by cases dash <;> simp <;> omega) (by omega)]
    rw [ih _ _ dash (by cases dash <;> simp <;> omega) (by omega)]
    rw [ih (cur ++ ' ' :: w) _ dash (by omega) (by omega)]
    rw [ih (cur ++ w) _ (dash || w.head? == some '-') (by omega) (by omega)]

theorem formatLine_wrap (W : Nat) (c : Cfg) (cur line : Str) (h : c.indent + 2 + line.length + 2 < W) :
    fmtWordsW W c (tokP isSp line) cur c.indent false = formatLine c cur line := by
  have hb := budget_tokP isSp line
  exact fmtWordsW_eq W c (c.indent + 2 + line.length + 1) (by omega) _ _ _ _ (by omega) (by omega)

end CelmaVerif.TextBlock
