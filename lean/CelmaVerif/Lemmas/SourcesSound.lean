import CelmaVerif.Lemmas.SourcesSim
import CelmaVerif.Lemmas.RulesSound
import CelmaVerif.Lemmas.Pairing
/-
  Soundness of acceptance WITH sources (rules layer).

  1. `evalArguments_sources_replays`: whatever `evalArguments` with an argument file / environment value
     accepts is the replay of the uses it logged, in three phases — the uses logged while the sources
     were read, applied with the from-source flag set; the flag reset; the uses logged for argv; the
     final checks.  No hypothesis on the file (no `Spells` derivation is assumed).
  2. The rule automata whose invariants do not read the cardinality counters are carried through the
     three phases (`SrcInv`): mandatory, values, excludes, requires, all-of / any-of / one-of.
     Not carried: cardinality (values from a source are not counted, by design: C07 override) and the
     value constraints differ / disjoint (their invariant `ValInv` is stated with `Frame`).
-/
namespace CelmaVerif.ProgArgs
open CelmaVerif CelmaVerif.Keys

theorem Replays.trans {cfg : Cfg} {a b c : HState} (h1 : Replays cfg a b) (h2 : Replays cfg b c) : Replays cfg a c := by
  obtain ⟨us1, hu1, hr1⟩ := h1
  obtain ⟨us2, hu2, hr2⟩ := h2
  refine ⟨us1 ++ us2, by rw [hu2, hu1, List.append_assoc], ?_⟩
  intro g hg hgi
  obtain ⟨g1, e1, s1, i1⟩ := hr1 g hg hgi
  obtain ⟨g2, e2, s2, i2⟩ := hr2 g1 s1 i1
  exact ⟨g2, by rw [applyUses_append, e1]; exact e2, s2, i2⟩

theorem readFileLines_replays (cfg : Cfg) : ∀ (lines : List Word) (h h' : HState),
    readFileLines cfg lines h = .ok h' → Replays cfg h h' := by
  intro lines
  induction lines with
  | nil => intro h h' e; simp only [readFileLines] at e; cases e; exact Replays.refl cfg h
  | cons line rest ih =>
    intro h h' e
    simp only [readFileLines] at e
    split at e
    · exact ih h h' e
    · simp only [bind_eq_ok] at e
      obtain ⟨h1, e1, e2⟩ := e
      exact (iterateArguments_replays cfg h h1 _ e1).trans (ih h1 h' e2)

/-- **Every accepted evaluation with sources is the replay of its log, in three phases.** -/
theorem evalArguments_sources_replays (cfg : Cfg) (h0 hf : HState) (src : Sources) (argv : List Word)
    (hi : h0.inverted = false) (hs : h0.fromSrc = false) (he : evalArguments cfg h0 src argv = .ok hf) :
    ∃ usS usA g1 g2 gf, applyUses cfg { h0 with fromSrc := true } usS = .ok g1 ∧
      applyUses cfg { g1 with fromSrc := false } usA = .ok g2 ∧ endChecks cfg g2 = .ok gf ∧ gf.Same hf ∧
      hf.uses = h0.uses ++ (usS ++ usA) := by
  unfold evalArguments at he
  simp only [bind_eq_ok] at he
  obtain ⟨h1, e1, h2, e2, h3, e3, e4⟩ := he
  -- the file
  have A : ∃ usF gF, applyUses cfg { h0 with fromSrc := true } usF = .ok gF ∧
      gF.Same { h1 with fromSrc := true } ∧ gF.inverted = false ∧ h1.uses = h0.uses ++ usF ∧ h1.fromSrc = false := by
    unfold evalFileSource at e1
    cases hfile : src.file with
    | none =>
      rw [hfile] at e1
      simp only [Res.pure_eq, Res.ok.injEq] at e1
      subst e1
      exact ⟨[], _, rfl, HState.Same.refl _, hi, by simp, hs⟩
    | some lines =>
      rw [hfile] at e1
      simp only [bind_eq_ok, Res.pure_eq, Res.ok.injEq] at e1
      obtain ⟨g, eg, e1⟩ := e1
      subst e1
      obtain ⟨us, hu, hr⟩ := readFileLines_replays cfg lines _ g eg
      obtain ⟨gF, ea, sa, ia⟩ := hr { h0 with fromSrc := true } (HState.Same.refl _) hi
      have hsrc : gF.fromSrc = true := (applyUses_lastArg us _ gF ea).2
      exact ⟨us, gF, ea, ⟨sa.args, sa.pending, sa.globals, sa.uses, hsrc⟩, ia, hu, rfl⟩
  obtain ⟨usF, gF, eF, sF, iF, uF, fF⟩ := A
  -- the environment value
  have B : ∃ usE gE, applyUses cfg gF usE = .ok gE ∧
      gE.Same { h2 with fromSrc := true } ∧ gE.inverted = false ∧ h2.uses = h1.uses ++ usE ∧ h2.fromSrc = false := by
    unfold evalEnvSource at e2
    cases henv : src.env with
    | none =>
      rw [henv] at e2
      simp only [Res.pure_eq, Res.ok.injEq] at e2
      subst e2
      exact ⟨[], gF, rfl, sF, iF, by simp, fF⟩
    | some e =>
      rw [henv] at e2
      simp only [bind_eq_ok, Res.pure_eq, Res.ok.injEq] at e2
      obtain ⟨g, eg, e2⟩ := e2
      subst e2
      obtain ⟨us, hu, hr⟩ := iterateArguments_replays cfg _ g _ eg
      obtain ⟨gE, ea, sa, ia⟩ := hr gF sF iF
      have hsrc : gE.fromSrc = true := by
        rw [(applyUses_lastArg us _ gE ea).2]; exact sF.fromSrc
      exact ⟨us, gE, ea, ⟨sa.args, sa.pending, sa.globals, sa.uses, hsrc⟩, ia, hu, rfl⟩
  obtain ⟨usE, gE, eE, sE, iE, uE, fE⟩ := B
  -- argv
  obtain ⟨usA, uA, hrA⟩ := iterateArguments_replays cfg h2 h3 argv e3
  obtain ⟨g2, eA, sA, _⟩ := hrA { gE with fromSrc := false }
    ⟨sE.args, sE.pending, sE.globals, sE.uses, fE.symm⟩ iE
  obtain ⟨gf, eG, sG⟩ := endChecks_same sA.symm e4
  have hu4 : hf.uses = h3.uses := by
    obtain ⟨_, _, _, hh⟩ := endChecks_ok e4
    rw [hh]
  refine ⟨usF ++ usE, usA, gE, g2, gf, ?_, eA, eG, sG.symm, ?_⟩
  · rw [applyUses_append, eF]; exact eE
  · rw [hu4, uA, uE, uF]; simp [List.append_assoc]

/-! ### the rule invariants that do not read the counters -/

/-- `ArgInv` without the clause about the counters -/
structure ArgInvS (cfg : Cfg) (inits : List DVal) (h : HState) : Prop where
  fresh : ∀ (i : Nat) (d : ArgDef), cfg.args[i]? = some d → (∀ u ∈ h.uses, u.arg ≠ i) →
    ∃ v, inits[i]? = some v ∧ h.args[i]? = some { dest := v }
  freshVec : ∀ (i : Nat) (d : ArgDef), cfg.args[i]? = some d → d.kind = .vecInt →
    (∀ u ∈ h.uses, u.arg = i → splitSep d.sep u.val = []) →
    ∃ v st, inits[i]? = some v ∧ h.args[i]? = some st ∧ st.dest = v

theorem argInvS_step {cfg : Cfg} {inits : List DVal} {h : HState} {u : Use} {h' : HState}
    (hlen : h.args.length = cfg.args.length) (a : ArgInvS cfg inits h) (e : applyUse cfg h u = .ok h') :
    ArgInvS cfg inits h' := by
  obtain ⟨d, pend, cnt, st', s⟩ := applyUse_ok e
  refine ⟨?_, ?_⟩
  · intro i di hi hno
    have hne : u.arg ≠ i := hno u (by rw [s.uses']; simp)
    obtain ⟨v, hv, hst⟩ := a.fresh i di hi (fun w hw => hno w (by rw [s.uses']; simp [hw]))
    refine ⟨v, hv, ?_⟩
    rw [s.args', List.getElem?_set_ne hne]; exact hst
  · intro i di hi hk hno
    obtain ⟨v, st, hv, hst, hd⟩ := a.freshVec i di hi hk (fun w hw => hno w (by rw [s.uses']; simp [hw]))
    by_cases hui : u.arg = i
    · have hdd : di = d := by have := s.arg; rw [hui, hi] at this; cases this; rfl
      subst hdd
      have hlt : i < h.args.length := by rw [hlen]; exact (List.getElem?_eq_some_iff.mp hi).1
      refine ⟨v, st', hv, by rw [s.args', hui]; simp [hlt], ?_⟩
      have hassign := s.assign
      rw [hui, getD_of_getElem? hst] at hassign
      have eff := assignDest_effect hassign
      rw [hk] at eff; dsimp only at eff
      rw [eff.2, if_pos (hno u (by rw [s.uses']; simp) hui)]
      exact hd
    · exact ⟨v, st, hv, by rw [s.args', List.getElem?_set_ne hui]; exact hst, hd⟩

/-- `mandatory_sound` from the two clauses it reads -/
theorem mandatory_soundS {cfg : Cfg} {inits : List DVal} {h : HState} (a : ArgInvS cfg inits h)
    (e : checkMandatoryCardinality cfg.args h.args = .ok ()) : ObeysMandatory cfg inits h.uses := by
  intro i d hi hm
  by_cases hu : ∃ u ∈ h.uses, u.arg = i ∧ (d.kind = .vecInt → splitSep d.sep u.val ≠ [])
  · exact Or.inl hu
  · right
    have hnot : ∀ u ∈ h.uses, u.arg = i → d.kind = .vecInt ∧ splitSep d.sep u.val = [] := by
      intro u hu' hui
      by_cases hk : d.kind = .vecInt
      · refine ⟨hk, ?_⟩
        by_cases hs : splitSep d.sep u.val = []
        · exact hs
        · exact absurd ⟨u, hu', hui, fun _ => hs⟩ hu
      · exact absurd ⟨u, hu', hui, fun c => absurd c hk⟩ hu
    by_cases hk : d.kind = .vecInt
    · obtain ⟨v, st, hv, hst, hd⟩ := a.freshVec i d hi hk (fun u hu' hui => (hnot u hu' hui).2)
      have := (checkMandatoryCardinality_ok _ _ e i d _ hi hst).1
      rw [hm] at this
      simp only [Bool.true_and, Bool.not_eq_false'] at this
      unfold ArgSt.hasValue at this
      rw [hk, hd] at this
      cases v <;> simp at this
      rename_i l
      exact ⟨hk, l, hv, by simpa using this⟩
    · exfalso
      obtain ⟨v, hv, hst⟩ := a.fresh i d hi (fun u hu' hc => hk (hnot u hu' hc).1)
      have := (checkMandatoryCardinality_ok _ _ e i d _ hi hst).1
      rw [hm] at this
      simp only [Bool.true_and, Bool.not_eq_false'] at this
      unfold ArgSt.hasValue at this
      cases hkk : d.kind <;> rw [hkk] at this <;> simp at this
      exact hk hkk

/-- the invariants of the rule automata that hold in either read mode -/
structure SrcInv (cfg : Cfg) (inits : List DVal) (h : HState) : Prop where
  argsLen  : h.args.length = cfg.args.length
  globLen  : h.globals.length = cfg.globals.length
  inverted : h.inverted = false
  args     : ArgInvS cfg inits h
  values   : ObeysValues cfg h.uses
  pend     : PendInv cfg h
  glob     : GlobInv cfg h

theorem srcInv_step {cfg : Cfg} (wf : cfg.WellFormed) {inits : List DVal} {h : HState} {u : Use} {h' : HState}
    (a : SrcInv cfg inits h) (e : applyUse cfg h u = .ok h') : SrcInv cfg inits h' := by
  obtain ⟨d, pend, cnt, st', s⟩ := applyUse_ok e
  refine ⟨?_, ?_, s.inverted', argInvS_step a.argsLen a.args e, values_step a.values e,
    pendInv_step wf.disjoint wf.argKeys a.pend e, globInv_step a.glob e⟩
  · rw [s.args']; simp [a.argsLen]
  · cases hi : u.ident with
    | true => exact executeGlobals_length _ _ _ _ (s.globI hi) a.globLen
    | false => rw [s.globF hi]; exact a.globLen

/-- the invariants do not mention the read mode -/
theorem srcInv_mode {cfg : Cfg} {inits : List DVal} {h : HState} (b : Bool) (a : SrcInv cfg inits h) :
    SrcInv cfg inits { h with fromSrc := b } :=
  ⟨a.argsLen, a.globLen, a.inverted, ⟨a.args.fresh, a.args.freshVec⟩, a.values,
    ⟨a.pend.named, a.pend.excl, a.pend.req, a.pend.hist⟩, ⟨a.glob.allOf, a.glob.used⟩⟩

theorem srcInv_init (cfg : Cfg) (inits : List DVal) (hin : cfg.args.length ≤ inits.length) :
    SrcInv cfg inits (cfg.initState inits) :=
  have f := frame_init cfg inits hin
  have ai := argInv_init cfg inits hin
  ⟨f.argsLen, f.globLen, rfl, ⟨ai.fresh, ai.freshVec⟩, by intro u hu; simp [Cfg.initState] at hu,
    pendInv_init cfg inits, globInv_init cfg inits⟩

/-- the rules an accepted evaluation WITH sources obeys: all of `Obeys` except the cardinalities (a value
    from a source is not counted) and the value constraints differ / disjoint -/
structure ObeysFromSources (cfg : Cfg) (inits : List DVal) (us : List Use) : Prop where
  mandatory : ObeysMandatory cfg inits us
  values    : ObeysValues cfg us
  excludes  : ObeysExcludes cfg us
  requires  : ObeysRequires cfg us
  globals   : ObeysStateGlobals cfg us

/-- **Soundness of acceptance with sources (rules layer).** -/
theorem sources_rules_sound {cfg : Cfg} (wf : cfg.WellFormed) {inits : List DVal}
    (hin : cfg.args.length ≤ inits.length) {src : Sources} {argv : List Word} {hf : HState}
    (he : evalArguments cfg (cfg.initState inits) src argv = .ok hf) : ObeysFromSources cfg inits hf.uses := by
  obtain ⟨usS, usA, g1, g2, gf, e1, e2, e3, sG, hu⟩ :=
    evalArguments_sources_replays cfg (cfg.initState inits) hf src argv rfl rfl he
  have i0 := srcInv_mode true (srcInv_init cfg inits hin)
  have i1 : SrcInv cfg inits g1 :=
    applyUses_inv (SrcInv cfg inits) (fun _ _ _ a e => srcInv_step wf a e) usS _ _ i0 e1
  have i2 : SrcInv cfg inits g2 :=
    applyUses_inv (SrcInv cfg inits) (fun _ _ _ a e => srcInv_step wf a e) usA _ _ (srcInv_mode false i1) e2
  have f2 : g2.fromSrc = false := (applyUses_lastArg usA _ g2 e2).2
  have hus : g2.uses = hf.uses := by
    obtain ⟨_, _, _, hh⟩ := endChecks_ok e3
    rw [← sG.uses, hh]
  obtain ⟨c1, c2, c3, _⟩ := endChecks_ok e3
  rw [← hus]
  exact ⟨mandatory_soundS i2.args c1, i2.values, i2.pend.hist, requires_sound i2.pend c2,
    state_globals_sound ⟨i2.argsLen, i2.globLen, f2, i2.inverted⟩ i2.glob c3⟩

/-! ### the relaxed configuration starts in the same state -/

theorem zip_len_only {α β γ δ : Type} (f : γ → δ) : ∀ (l : List α) (l' : List β) (r : List γ), l.length = l'.length →
    (l.zip r).map (fun p => f p.2) = (l'.zip r).map (fun p => f p.2) := by
  intro l
  induction l with
  | nil => intro l' r h; cases l' with | nil => rfl | cons a t => simp at h
  | cons a t ih =>
    intro l' r h
    cases l' with
    | nil => simp at h
    | cons b t' =>
      cases r with
      | nil => rfl
      | cons c r' =>
        simp only [List.zip_cons_cons, List.map_cons, List.cons.injEq, true_and]
        exact ih t' r' (by simpa using h)

theorem relax_initState (cfg : Cfg) (O : Nat → Bool) (inits : List DVal) :
    (cfg.relax O).initState inits = cfg.initState inits := by
  unfold Cfg.initState
  have hlen : (cfg.relax O).args.length = cfg.args.length := by simp [Cfg.relax]
  have := zip_len_only (fun i : DVal => ({ dest := i } : ArgSt)) (cfg.relax O).args cfg.args inits hlen
  rw [this]
  rfl

/-! ### destinations after ANY accepted evaluation -/

/-- after any accepted evaluation (any argument file, environment value, argv) every destination is
    `denote` of the values its argument was given, in the order they were logged -/
theorem accepted_dests_denote {cfg : Cfg} {inits : List DVal} (hin : cfg.args.length ≤ inits.length)
    {src : Sources} {argv : List Word} {hf : HState}
    (he : evalArguments cfg (cfg.initState inits) src argv = .ok hf)
    {i : Nat} {d : ArgDef} {v : DVal} (hi : cfg.args[i]? = some d) (hv : inits[i]? = some v)
    (ht : d.kind = .vecInt → ∃ l, v = .vec l) :
    ∃ st, hf.args[i]? = some st ∧ st.dest = denote d v (valsOf i hf.uses) := by
  obtain ⟨usS, usA, g1, g2, gf, e1, e2, e3, sG, hu⟩ :=
    evalArguments_sources_replays cfg (cfg.initState inits) hf src argv rfl rfl he
  obtain ⟨_, _, _, hh⟩ := endChecks_ok e3
  have f0 := frame_init cfg inits hin
  have i1 := destInv_applyUses (inits := inits) (h := { cfg.initState inits with fromSrc := true })
    f0.argsLen (destInv_init cfg inits hin) e1
  have i2 := destInv_applyUses (inits := inits) (h := { g1 with fromSrc := false }) i1.1 i1.2 e2
  obtain ⟨st, hst, hd⟩ := i2.2 i d v hi hv ht
  have hus : g2.uses = hf.uses := by rw [← sG.uses, hh]
  refine ⟨st, ?_, by rw [← hus]; exact hd⟩
  rw [← sG.args, hh]; exact hst

end CelmaVerif.ProgArgs
