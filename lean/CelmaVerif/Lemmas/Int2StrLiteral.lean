import CelmaVerif.Lemmas.Int2StrGen
/-
  C13, audit follow-up: the library with the `convert()` switches *as written* (`Gen.libLiteral`:
  case selection, fall-through and the `++num_digits == 4` counter are executed by the Lean
  interpreter, not by the translator) satisfies the same obligations, hence the same theorems.
-/
namespace CelmaVerif.Int2Str
open CelmaVerif

/-- only `rowsOk` looks at the rows and the counter's initial value -/
theorem FileOk.withLiteral {f : FileSpec} {d : Dispatch} (h : FileOk f d) (l : Option (Nat × List Row))
    (hr : (f.withLiteral l).rowsOk = true) : FileOk (f.withLiteral l) d := by
  cases l with
  | none => exact h
  | some p => exact ⟨h.tree, hr, h.uns, h.negc, h.negn, h.disp⟩

theorem withLiteral_bits (f : FileSpec) (l : Option (Nat × List Row)) : (f.withLiteral l).bits = f.bits := by
  cases l <;> rfl

theorem withLiteral_grouped (f : FileSpec) (l : Option (Nat × List Row)) :
    (f.withLiteral l).grouped = f.grouped := by
  cases l <;> rfl

/-- for every width and family the literal library has a checked file of that width -/
theorem gen_file_literal (grouped : Bool) (n : Nat) (hn : Width n) :
    ∃ f d, Gen.libLiteral.file grouped n = some (f, d) ∧ f.bits = n ∧ f.grouped = grouped ∧ FileOk f d := by
  rcases hn with rfl | rfl | rfl | rfl <;> cases grouped
  · exact ⟨_, _, rfl, withLiteral_bits _ _, withLiteral_grouped _ _, plain8_fileOk.withLiteral _ Gen.plain8_literal_rows_ok⟩
  · exact ⟨_, _, rfl, withLiteral_bits _ _, withLiteral_grouped _ _, grouped8_fileOk.withLiteral _ Gen.grouped8_literal_rows_ok⟩
  · exact ⟨_, _, rfl, withLiteral_bits _ _, withLiteral_grouped _ _, plain16_fileOk.withLiteral _ Gen.plain16_literal_rows_ok⟩
  · exact ⟨_, _, rfl, withLiteral_bits _ _, withLiteral_grouped _ _, grouped16_fileOk.withLiteral _ Gen.grouped16_literal_rows_ok⟩
  · exact ⟨_, _, rfl, withLiteral_bits _ _, withLiteral_grouped _ _, plain32_fileOk.withLiteral _ Gen.plain32_literal_rows_ok⟩
  · exact ⟨_, _, rfl, withLiteral_bits _ _, withLiteral_grouped _ _, grouped32_fileOk.withLiteral _ Gen.grouped32_literal_rows_ok⟩
  · exact ⟨_, _, rfl, withLiteral_bits _ _, withLiteral_grouped _ _, plain64_fileOk.withLiteral _ Gen.plain64_literal_rows_ok⟩
  · exact ⟨_, _, rfl, withLiteral_bits _ _, withLiteral_grouped _ _, grouped64_fileOk.withLiteral _ Gen.grouped64_literal_rows_ok⟩

theorem gen_api_literal (grouped : Bool) : apiOk (Gen.libLiteral.api grouped) = true := gen_api grouped

end CelmaVerif.Int2Str

namespace CelmaVerif.Int2Str
open CelmaVerif

/-- the value is one of the type with `n` bits and that signedness -/
def InRange (n : Nat) (signed : Bool) (v : Int) : Prop :=
  if signed then -(2 ^ (n - 1)) ≤ v ∧ v < 2 ^ (n - 1) else 0 ≤ v ∧ v < 2 ^ n

/-- a library all of whose files and overload tables pass the checks returns the specification text
    and fills a sufficiently large buffer with text, NUL, untouched rest — all four families -/
theorem lib_spec (L : Lib)
    (hfile : ∀ grouped n, Width n →
      ∃ f d, L.file grouped n = some (f, d) ∧ f.bits = n ∧ f.grouped = grouped ∧ FileOk f d)
    (hapi : ∀ grouped, apiOk (L.api grouped) = true)
    (n : Nat) (hn : Width n) (grouped signed : Bool) (v : Int) (g : Byte) (hv : InRange n signed v) :
    L.str grouped n signed g v = .ok (specText grouped g v) ∧
    ∀ buf : List Byte, (specText grouped g v).length + 1 ≤ buf.length →
      L.buf grouped n signed g v buf =
        .ok (specText grouped g v ++ [0] ++ buf.drop ((specText grouped g v).length + 1),
             ((specText grouped g v).length : Int)) := by
  obtain ⟨f, d, hf, hfb, hfg, hok⟩ := hfile grouped n hn
  unfold InRange at hv
  cases signed with
  | true =>
    simp only [if_true] at hv
    exact ⟨Lib.str_signed L grouped n f d (hapi grouped) hn hf hfb hfg hok g v
        (by rw [two_eq_pow]; exact hv.1) (by rw [two_eq_pow]; exact hv.2),
      fun buf hcap => Lib.buf_signed L grouped n f d (hapi grouped) hn hf hfb hfg hok g v
        (by rw [two_eq_pow]; exact hv.1) (by rw [two_eq_pow]; exact hv.2) buf hcap⟩
  | false =>
    simp only [Bool.false_eq_true, if_false] at hv
    obtain ⟨x, rfl⟩ := Int.eq_ofNat_of_zero_le hv.1
    have hx : x < 2 ^ n := by exact_mod_cast hv.2
    exact ⟨Lib.str_unsigned L grouped n f d (hapi grouped) hn hf hfb hfg hok g x hx,
      fun buf hcap => Lib.buf_unsigned L grouped n f d (hapi grouped) hn hf hfb hfg hok g x hx buf hcap⟩

end CelmaVerif.Int2Str
