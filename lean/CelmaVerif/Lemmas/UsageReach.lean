import CelmaVerif.Lemmas.UsageTree
/-
  Lemmas for C18 (6): handlers and handler trees BUILT through the definition operations.  The standard
  arguments have pairwise different keys for every flag set; `addArgument` keeps it so; in a built tree every
  sub-group argument of the main handler enters an existing sub-group handler, and a sub-group handler has plain
  arguments only.  The `g/key` form of the help for one argument.
-/
namespace CelmaVerif.Usage
open CelmaVerif.TextBlock

/-! ### the standard arguments -/

theorem opt_sublist {α : Type} (b : Bool) (x : α) : List.Sublist (if b then [x] else []) [x] := by
  cases b
  · exact List.nil_sublist _
  · exact List.Sublist.refl _

theorem KeysDistinct.sublist {xs ys : List Arg} (h : xs.Sublist ys) (hd : KeysDistinct ys) : KeysDistinct xs :=
  List.Pairwise.sublist h hd

/-- all standard arguments `handleStartFlags()` / the constructor can define, the help argument in the form `hl` -/
def allStdArgs (hl : Arg) : List Arg :=
  [hl,
   mkStd ⟨none, "help-arg".toList⟩ "Prints the usage for the given argument." true false none,
   mkStd ⟨none, "print-deprecated".toList⟩ "Also print deprecated and replaced arguments in the usage." false true none,
   mkStd ⟨none, "help-short".toList⟩ "Only print arguments with their short key in the usage." false false (some []),
   mkStd ⟨none, "help-long".toList⟩ "Only print arguments with their long key in the usage." false false (some []),
   mkStd ⟨none, "print-hidden".toList⟩ "Also print hidden arguments in the usage." false true none]

theorem stdArgs_sublist (f : Flags) :
    ∃ hl, (stdArgs f).Sublist (allStdArgs hl) ∧
      (hl = mkStd ⟨some 'h', "help".toList⟩ "Prints the program usage." false false none
       ∨ hl = mkStd ⟨some 'h', []⟩ "Prints the program usage." false false none
       ∨ hl = mkStd ⟨none, "help".toList⟩ "Prints the program usage." false false none) := by
  have tail : ∀ (H : List Arg) (hl : Arg), H.Sublist [hl] →
      (H ++ (if f.helpArg then [mkStd ⟨none, "help-arg".toList⟩ "Prints the usage for the given argument." true false none] else [])
        ++ (if f.argDeprecated then
              [mkStd ⟨none, "print-deprecated".toList⟩ "Also print deprecated and replaced arguments in the usage." false true none]
            else [])
        ++ (if f.usageShort then
              [mkStd ⟨none, "help-short".toList⟩ "Only print arguments with their short key in the usage." false false (some [])]
            else [])
        ++ (if f.usageLong then
              [mkStd ⟨none, "help-long".toList⟩ "Only print arguments with their long key in the usage." false false (some [])]
            else [])
        ++ (if f.argHidden then [mkStd ⟨none, "print-hidden".toList⟩ "Also print hidden arguments in the usage." false true none] else [])).Sublist
        (allStdArgs hl) := by
    intro H hl hH
    show List.Sublist _ ([hl] ++ [_] ++ [_] ++ [_] ++ [_] ++ [_])
    exact ((((hH.append (opt_sublist f.helpArg _)).append (opt_sublist f.argDeprecated _)).append
      (opt_sublist f.usageShort _)).append (opt_sublist f.usageLong _)).append (opt_sublist f.argHidden _)
  unfold stdArgs
  by_cases h1 : (f.helpShort && f.helpLong) = true
  · rw [if_pos h1]
    exact ⟨_, tail _ _ (List.Sublist.refl _), Or.inl rfl⟩
  · rw [if_neg h1]
    by_cases h2 : f.helpShort = true
    · rw [if_pos h2]
      exact ⟨_, tail _ _ (List.Sublist.refl _), Or.inr (Or.inl rfl)⟩
    · rw [if_neg h2]
      by_cases h3 : f.helpLong = true
      · rw [if_pos h3]
        exact ⟨_, tail _ _ (List.Sublist.refl _), Or.inr (Or.inr rfl)⟩
      · rw [if_neg h3]
        exact ⟨mkStd ⟨none, "help".toList⟩ "Prints the program usage." false false none,
          tail [] _ (List.nil_sublist _), Or.inr (Or.inr rfl)⟩

/-- the standard arguments have pairwise different keys, whatever the constructor flags -/
theorem stdArgs_distinct (f : Flags) : KeysDistinct (stdArgs f) := by
  obtain ⟨hl, hsub, h⟩ := stdArgs_sublist f
  apply KeysDistinct.sublist hsub
  rcases h with rfl | rfl | rfl <;> decide

theorem stdArgs_plain (f : Flags) : ∀ a ∈ stdArgs f, a.subGroup = none := by
  obtain ⟨hl, hsub, h⟩ := stdArgs_sublist f
  intro a ha
  have hm := hsub.subset ha
  rcases h with rfl | rfl | rfl <;>
  · simp only [allStdArgs, List.mem_cons, List.not_mem_nil, or_false] at hm
    rcases hm with rfl | rfl | rfl | rfl | rfl | rfl <;> rfl

theorem stdArgs_keyClean (f : Flags) : ∀ a ∈ stdArgs f, KeyClean a.key := by
  obtain ⟨hl, hsub, h⟩ := stdArgs_sublist f
  intro a ha
  have hm := hsub.subset ha
  apply keyClean_of_bool
  rcases h with rfl | rfl | rfl <;>
  · simp only [allStdArgs, List.mem_cons, List.not_mem_nil, or_false] at hm
    rcases hm with rfl | rfl | rfl | rfl | rfl | rfl <;> decide

/-! ### handlers built through the API -/

/-- a handler built through the definition operations: the constructor, `addArgument` (+ modifiers; accepted
    or not), `setUsageLineLength` -/
inductive Handler.Built : Handler → Prop
  | new (f : Flags) : Handler.Built (Handler.new f)
  | add (h : Handler) (a : Arg) (mods : List Mod) : Handler.Built h → Handler.Built (h.addArgument a mods).1
  | lineLen (h h' : Handler) (n : Int) : Handler.Built h → h.setLineLength n = .ok h' → Handler.Built h'

theorem setLineLength_args (h h' : Handler) (n : Int) (e : h.setLineLength n = .ok h') : h'.args = h.args := by
  unfold Handler.setLineLength at e
  split at e
  · simp at e
  · simp only [Res.ok.injEq] at e; subst e; rfl

theorem built_distinct (h : Handler) (hb : h.Built) : KeysDistinct h.args := by
  induction hb with
  | new f => exact stdArgs_distinct f
  | add h a mods _ ih => exact addArgument_distinct h a mods ih
  | lineLen h h' n _ e ih => rw [setLineLength_args h h' n e]; exact ih

/-! ### trees built through the API -/

/-- a handler tree built through the definition operations: the constructor of the main handler, the sub-group
    constructor, `addArgument` on the main handler - a plain argument, or the sub-group argument for an EXISTING
    sub-group handler (the C++ takes a `Handler&`) -, `addArgument` on a sub-group handler (plain arguments: the
    tree has depth 2), the line-length setters -/
inductive Tree.Built : Tree → Prop
  | new (f : Flags) : Tree.Built (Tree.new f)
  | newSub (t : Tree) (f : Flags) : Tree.Built t → Tree.Built (t.newSub f)
  | add (t : Tree) (a : Arg) (mods : List Mod) : Tree.Built t → a.subGroup = none → Tree.Built (t.addArgument a mods).1
  | group (t : Tree) (key : Key) (desc : Str) (k : Nat) (mods : List Mod) : Tree.Built t → k < t.subs.length →
      Tree.Built (t.addArgument (subGroupArg key desc k) mods).1
  | subAdd (t t' : Tree) (k : Nat) (a : Arg) (mods : List Mod) (e : Option Exc) : Tree.Built t → a.subGroup = none →
      t.subAddArgument k a mods = .ok (t', e) → Tree.Built t'
  | lineLen (t t' : Tree) (n : Int) : Tree.Built t → t.setLineLength n = .ok t' → Tree.Built t'
  | subLineLen (t t' : Tree) (k : Nat) (n : Int) : Tree.Built t → t.subSetLineLength k n = .ok t' → Tree.Built t'

/-- what holds in every built tree -/
structure Tree.WF (t : Tree) : Prop where
  /-- the keys of the main handler's arguments (plain and sub-group arguments) are pairwise different -/
  mainDistinct : KeysDistinct t.main.args
  /-- every sub-group argument of the main handler enters an existing sub-group handler -/
  subExists : ∀ a ∈ t.main.args, ∀ k, a.subGroup = some k → k < t.subs.length
  /-- the keys of every sub-group handler's arguments are pairwise different -/
  subDistinct : ∀ s ∈ t.subs, KeysDistinct s.args
  /-- a sub-group handler has plain arguments only -/
  subPlain : ∀ s ∈ t.subs, ∀ a ∈ s.args, a.subGroup = none

theorem addArgument_args (h : Handler) (a : Arg) (mods : List Mod) :
    (h.addArgument a mods).1.args = h.args ∨ (h.addArgument a mods).1.args = h.args ++ [(applyMods a mods).1] := by
  unfold Handler.addArgument
  split
  · exact Or.inl rfl
  · exact Or.inr rfl

theorem addArgument_mem_subGroup (h : Handler) (a : Arg) (mods : List Mod) (P : Option Nat → Prop)
    (hP : ∀ x ∈ h.args, P x.subGroup) (ha : P a.subGroup) : ∀ x ∈ (h.addArgument a mods).1.args, P x.subGroup := by
  intro x hx
  rcases addArgument_args h a mods with e | e
  · rw [e] at hx; exact hP x hx
  · rw [e] at hx
    rcases List.mem_append.mp hx with hx | hx
    · exact hP x hx
    · simp at hx; subst hx; rw [applyMods_subGroup]; exact ha

theorem mem_set_cases {α : Type} (l : List α) (k : Nat) (x y : α) (h : y ∈ l.set k x) : y = x ∨ y ∈ l := by
  rcases List.mem_or_eq_of_mem_set h with h | h
  · exact Or.inr h
  · exact Or.inl h

theorem built_wf (t : Tree) (hb : t.Built) : t.WF := by
  induction hb with
  | new f =>
    refine ⟨stdArgs_distinct f, ?_, ?_, ?_⟩
    · intro a ha k hk
      have : a.subGroup = none := stdArgs_plain f a ha
      rw [this] at hk; cases hk
    · intro s hs; cases hs
    · intro s hs; cases hs
  | newSub t f _ ih =>
    refine ⟨ih.mainDistinct, ?_, ?_, ?_⟩
    · intro a ha k hk
      have := ih.subExists a ha k hk
      simp only [Tree.newSub, List.length_append, List.length_cons, List.length_nil]
      omega
    · intro s hs
      simp only [Tree.newSub, List.mem_append, List.mem_cons, List.not_mem_nil, or_false] at hs
      rcases hs with hs | rfl
      · exact ih.subDistinct s hs
      · exact stdArgs_distinct _
    · intro s hs
      simp only [Tree.newSub, List.mem_append, List.mem_cons, List.not_mem_nil, or_false] at hs
      rcases hs with hs | rfl
      · exact ih.subPlain s hs
      · exact stdArgs_plain _
  | add t a mods _ hg ih =>
    refine ⟨addArgument_distinct t.main a mods ih.mainDistinct, ?_, ih.subDistinct, ih.subPlain⟩
    exact addArgument_mem_subGroup t.main a mods (fun g => ∀ k, g = some k → k < t.subs.length) ih.subExists
      (by intro k hk; rw [hg] at hk; cases hk)
  | group t key desc k mods _ hk ih =>
    refine ⟨addArgument_distinct t.main _ mods ih.mainDistinct, ?_, ih.subDistinct, ih.subPlain⟩
    exact addArgument_mem_subGroup t.main _ mods (fun g => ∀ k, g = some k → k < t.subs.length) ih.subExists
      (by intro k' hk'; simp only [subGroupArg, Option.some.injEq] at hk'; omega)
  | subAdd t t' k a mods e _ hg he ih =>
    unfold Tree.subAddArgument at he
    cases hs : t.subs[k]? with
    | none => rw [hs] at he; simp at he
    | some s =>
      rw [hs] at he
      simp only [Res.ok.injEq, Prod.mk.injEq] at he
      obtain ⟨rfl, _⟩ := he
      have hsm : s ∈ t.subs := List.mem_of_getElem? hs
      refine ⟨ih.mainDistinct, ?_, ?_, ?_⟩
      · intro x hx j hj
        have := ih.subExists x hx j hj
        simpa [setAt] using this
      · intro s' hs'
        rcases mem_set_cases _ _ _ _ hs' with rfl | h
        · exact addArgument_distinct (s.asHandler t.main.params) a mods (ih.subDistinct s hsm)
        · exact ih.subDistinct s' h
      · intro s' hs'
        rcases mem_set_cases _ _ _ _ hs' with rfl | h
        · exact addArgument_mem_subGroup (s.asHandler t.main.params) a mods (fun g => g = none)
            (ih.subPlain s hsm) hg
        · exact ih.subPlain s' h
  | lineLen t t' n _ he ih =>
    unfold Tree.setLineLength at he
    cases hm : t.main.setLineLength n with
    | ok m =>
      rw [hm] at he
      simp only [Res.ok.injEq] at he
      subst he
      have hargs := setLineLength_args t.main m n hm
      refine ⟨by simpa [hargs] using ih.mainDistinct, ?_, ?_, ?_⟩
      · intro a ha k hk
        simp only [hargs] at ha
        simpa using ih.subExists a ha k hk
      · intro s hs
        simp only [List.mem_map] at hs
        obtain ⟨⟨s0, i⟩, hmem, rfl⟩ := hs
        have hs0 : s0 ∈ t.subs := (List.mem_zipIdx' hmem).2 ▸ List.getElem_mem _
        split
        · exact ih.subDistinct s0 hs0
        · exact ih.subDistinct s0 hs0
      · intro s hs
        simp only [List.mem_map] at hs
        obtain ⟨⟨s0, i⟩, hmem, rfl⟩ := hs
        have hs0 : s0 ∈ t.subs := (List.mem_zipIdx' hmem).2 ▸ List.getElem_mem _
        split
        · exact ih.subPlain s0 hs0
        · exact ih.subPlain s0 hs0
    | throw x => rw [hm] at he; simp at he
    | oob w => rw [hm] at he; simp at he
  | subLineLen t t' k n _ he ih =>
    unfold Tree.subSetLineLength at he
    cases hs : t.subs[k]? with
    | none => rw [hs] at he; simp at he
    | some s =>
      rw [hs] at he
      simp only at he
      split at he
      · simp at he
      · simp only [Res.ok.injEq] at he
        subst he
        have hsm : s ∈ t.subs := List.mem_of_getElem? hs
        refine ⟨ih.mainDistinct, ?_, ?_, ?_⟩
        · intro x hx j hj
          have := ih.subExists x hx j hj
          simpa [setAt] using this
        · intro s' hs'
          rcases mem_set_cases _ _ _ _ hs' with rfl | h
          · exact ih.subDistinct s hsm
          · exact ih.subDistinct s' h
        · intro s' hs'
          rcases mem_set_cases _ _ _ _ hs' with rfl | h
          · exact ih.subPlain s hsm
          · exact ih.subPlain s' h

/-! ### the `g/key` form of the help for one argument -/

/-- `findArg`: when some argument has exactly the key, the argument found has exactly the key -/
theorem findArg_exact_wins (abbr : Bool) (args : List Arg) (k : Key) (a : Arg)
    (h : findArg abbr args k = .ok (some a)) (hb : ∃ b ∈ args, keyEq b.key k = true) : keyEq a.key k = true := by
  unfold findArg at h
  cases hx : findExact k args with
  | some x =>
    rw [hx] at h
    simp only [Res.ok.injEq, Option.some.injEq] at h
    subst h
    exact (findExact_some k args x hx).2
  | none =>
    obtain ⟨b, hbm, hbk⟩ := hb
    rw [findExact_none k args hx b hbm] at hbk
    cases hbk

/-- the `g/key` form: the sub-group argument meant by `g` is looked up among the sub-group arguments of the
    main handler, then the sub-group handler it enters answers for `rest` -/
theorem helpArgumentSlash_spec (t : Tree) (full : Str) (g : Key) (rest : Str) (restKey : Key)
    (hwf : ∀ a ∈ t.main.args, ∀ k, a.subGroup = some k → k < t.subs.length) :
    (∃ a ∈ subGroupArgs t.main.args, ∃ k s, a.subGroup = some k ∧ t.subs[k]? = some s
        ∧ keyMatches (!t.main.flags.noAbbr) a g = true
        ∧ ((∃ b ∈ subGroupArgs t.main.args, keyEq b.key g = true) → keyEq a.key g = true)
        ∧ t.helpArgumentSlash full g rest restKey = helpArgument (s.asHandler t.main.params) rest restKey)
    ∨ ((∀ a ∈ subGroupArgs t.main.args, keyMatches (!t.main.flags.noAbbr) a g = false)
        ∧ t.helpArgumentSlash full g rest restKey =
            .ok ([], ["*** ERROR: Sub-group argument '".toList ++ full ++ "' is unknown!".toList]))
    ∨ (t.helpArgumentSlash full g rest restKey = .throw .runtime_error ∧ t.main.flags.noAbbr = false
        ∧ (∀ a ∈ subGroupArgs t.main.args, keyEq a.key g = false)
        ∧ ∃ pre a post, subGroupArgs t.main.args = pre ++ a :: post ∧ keyStartsWith a.key g = true
            ∧ ∃ p ∈ pre, keyStartsWith p.key g = true) := by
  unfold Tree.helpArgumentSlash
  rcases findArg_spec (!t.main.flags.noAbbr) (subGroupArgs t.main.args) g with ⟨a, ha, hm, hf⟩ | ⟨hn, hf⟩ | ⟨hf, hab, hne, hrest⟩
  · left
    have hsg : a.subGroup.isSome = true := by
      have := (List.mem_filter.mp ha).2
      simpa using this
    obtain ⟨k, hk⟩ := Option.isSome_iff_exists.mp hsg
    have hlt := hwf a (subGroupArgs_sub _ a ha) k hk
    have hget : t.subs[k]? = some t.subs[k] := List.getElem?_eq_getElem hlt
    refine ⟨a, ha, k, t.subs[k], hk, hget, hm, fun hb => findArg_exact_wins _ _ _ _ hf hb, ?_⟩
    rw [hf]
    simp only [hk, Option.bind_some, hget]
  · right; left
    exact ⟨hn, by rw [hf]⟩
  · right; right
    exact ⟨by rw [hf], by simpa using hab, hne, hrest⟩

/-! ### the standard arguments of one command line, in closed form -/

/-- the contents a standard argument of the main handler asks for -/
def Switch.contentsValue : Switch → Option Contents
  | .helpShort => some .shortOnly
  | .helpLong => some .longOnly
  | _ => none

/-- the display settings after the standard arguments `sw`: "print hidden" / "print deprecated" hold the
    negation of the constructor preset iff the argument was used (else what they held before), the contents is
    what the last contents argument asked for -/
theorem switches_effect (f : Flags) : ∀ (sw : List Switch) (u : UsageParams),
    (sw.foldl (Switch.apply f) u).printHidden = (if Switch.printHidden ∈ sw then !f.usageHidden else u.printHidden)
    ∧ (sw.foldl (Switch.apply f) u).printDeprecated
        = (if Switch.printDeprecated ∈ sw then !f.usageDeprecated else u.printDeprecated)
    ∧ (sw.foldl (Switch.apply f) u).contents = lastD (sw.filterMap Switch.contentsValue) u.contents := by
  intro sw
  induction sw with
  | nil => intro u; simp [lastD]
  | cons s sw ih =>
    intro u
    obtain ⟨h1, h2, h3⟩ := ih (Switch.apply f u s)
    rw [List.foldl_cons]
    refine ⟨?_, ?_, ?_⟩
    · rw [h1]
      by_cases hm : Switch.printHidden ∈ sw <;> cases s <;> simp [hm, Switch.apply]
    · rw [h2]
      by_cases hm : Switch.printDeprecated ∈ sw <;> cases s <;> simp [hm, Switch.apply]
    · rw [h3, List.filterMap_cons]
      cases s <;> simp [Switch.contentsValue, Switch.apply, lastD_cons]

/-- the two models of "the standard arguments of the main handler on one command line" agree: whenever the tree
    model accepts them (`evalEvs`: at most one contents argument), the settings are those `usageWith` computes
    with `Switch.apply` -/
theorem evalEvs_main_eq (t : Tree) : ∀ (sw : List Switch) (u u' : UsageParams),
    evalEvs t (sw.map Ev.main) u = .ok u' → u' = sw.foldl (Switch.apply t.main.flags) u := by
  intro sw
  induction sw with
  | nil => intro u u' h; simp [evalEvs] at h; exact h.symm
  | cons s sw ih =>
    intro u u' h
    rw [List.map_cons] at h
    obtain ⟨u1, ha, hr⟩ := evalEvs_cons_ok t _ _ u u' h
    rw [List.foldl_cons]
    have : u1 = Switch.apply t.main.flags u s := by
      cases s
      · simp only [Ev.apply, Res.ok.injEq] at ha; exact ha.symm
      · simp only [Ev.apply, Res.ok.injEq] at ha; exact ha.symm
      · exact (setContents_ok _ _ _ ha).2
      · exact (setContents_ok _ _ _ ha).2
    rw [← this]
    exact ih u1 u' hr

/-! ### the display settings of a built handler -/

/-- the definition operations never touch the display settings (nor the flags): a handler built through them
    still has the settings its constructor preset from its flags -/
theorem built_params (h : Handler) (hb : h.Built) : h.params = (Handler.new h.flags).params := by
  induction hb with
  | new f => rfl
  | add h a mods _ ih =>
    unfold Handler.addArgument
    split <;> simpa using ih
  | lineLen h h' n _ e ih =>
    unfold Handler.setLineLength at e
    split at e
    · simp at e
    · simp only [Res.ok.injEq] at e; subst e; simpa using ih

end CelmaVerif.Usage
