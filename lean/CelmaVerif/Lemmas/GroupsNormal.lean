import CelmaVerif.Lemmas.GroupsDispatch
/-
  Normal forms of the handler functions: what `assignValue`, `handleIdentifiedArg` and `processArg`
  compute, written as "read the argument's state, run the per-argument step, write the state back",
  so that a member of a group and the merged handler can be compared piece by piece.
-/
namespace CelmaVerif.ProgArgs
open CelmaVerif CelmaVerif.Keys

/-- the part of `assignValue` that depends only on the argument's definition and state, the read
    mode and the inversion marker -/
def argStep (d : ArgDef) (st : ArgSt) (fromSrc inverted : Bool) (value : Word) : Res ArgSt := do
  throwIf d.deprecated .runtime_error
  let cnt ← countValue fromSrc d.card st.cnt
  throwIf inverted .runtime_error
  assignDest d { st with cnt := cnt } value

theorem assignValue_eq (h : HState) (i : Nat) (d : ArgDef) (value : Word) (ident : Bool) :
    assignValue h i d value ident =
      (argStep d (h.args.getD i default) h.fromSrc h.inverted value >>= fun st' =>
        pure { h with args := h.args.set i st', pending := activateConstraints d.constraints h.pending,
                      uses := h.uses ++ [{ arg := i, val := value, ident := ident }] }) := by
  unfold assignValue argStep
  cases throwIf d.deprecated .runtime_error with
  | ok u =>
    simp only [Res.bind_ok]
    cases countValue h.fromSrc d.card (h.args.getD i default).cnt with
    | ok cnt =>
      simp only [Res.bind_ok]
      cases throwIf h.inverted .runtime_error with
      | ok u => simp only [Res.bind_ok]
      | throw e => rfl
      | oob w => rfl
    | throw e => rfl
    | oob w => rfl
  | throw e => rfl
  | oob w => rfl

theorem handleIdentifiedArg_eq (c : Cfg) (h : HState) (i : Nat) (d : ArgDef) (value : Word) :
    handleIdentifiedArg c h i d value =
      (pendingIdentified d.key h.pending >>= fun P =>
       executeGlobals c.globals h.globals d.key >>= fun G =>
       argStep d (h.args.getD i default) h.fromSrc h.inverted value >>= fun st' =>
        pure { h with args := h.args.set i st', pending := activateConstraints d.constraints P, globals := G,
                      uses := h.uses ++ [{ arg := i, val := value, ident := true }], inverted := false }) := by
  unfold handleIdentifiedArg
  cases pendingIdentified d.key h.pending with
  | ok P =>
    simp only [Res.bind_ok]
    cases executeGlobals c.globals h.globals d.key with
    | ok G =>
      simp only [Res.bind_ok]
      rw [assignValue_eq]
      cases argStep d (h.args.getD i default) h.fromSrc h.inverted value with
      | ok st' => rfl
      | throw e => rfl
      | oob w => rfl
    | throw e => rfl
    | oob w => rfl
  | throw e => rfl
  | oob w => rfl

/-- the cursor part of `processArg`: the value that goes with an argument of this value mode, and
    the cursor after it -/
def valueFor (d : ArgDef) (ai : It) : Res (Word × It) :=
  if d.vmode = .none then pure ([], ai)
  else do
    let ait2 ← (if d.vmode = .required then ({ ai with remAsValue := true } : It) else ai).step
    if ait2.atEnd || ait2.cur.ty != .value then
      (if d.vmode = .optional then pure ([], ai) else .throw .runtime_error)
    else pure (ait2.cur.val, ait2)

theorem processArg_found_eq (c : Cfg) (h : HState) (k : Key) (ai : It) (i : Nat) (d : ArgDef)
    (hf : findArg c.abbr c.table k = .ok (some (i, d))) :
    processArg c h k ai =
      (valueFor d ai >>= fun x =>
       handleIdentifiedArg c { h with lastArg := some i } i d x.1 >>= fun h' => pure (h', x.2, .consumed)) := by
  unfold processArg valueFor
  rw [hf]
  simp only [Res.bind_ok]
  split
  · simp only [Res.pure_eq, Res.bind_ok]
  · cases (if d.vmode = VMode.required then ({ ai with remAsValue := true } : It) else ai).step with
    | ok ait2 =>
      simp only [Res.bind_ok]
      split
      · split
        · simp only [Res.pure_eq, Res.bind_ok]
        · rfl
      · simp only [Res.pure_eq, Res.bind_ok]
    | throw e => rfl
    | oob w => rfl

/-- a value element when the handler's last argument takes several values -/
theorem evalSingleArgument_value_multi (c : Cfg) (h : HState) (ai : It)
    (hty : ai.cur.ty = .value ∨ ai.cur.ty = .invalid) (i : Nat) (d : ArgDef)
    (hl : h.lastArg = some i) (hd : c.args[i]? = some d) (hm : d.multi = true) :
    evalSingleArgument c h ai = (assignValue h i d ai.cur.val >>= fun h' => pure (h', ai, .consumed)) := by
  unfold evalSingleArgument
  rcases hty with hty | hty <;> rw [hty] <;> simp only [hl, hd, hm, if_true] <;>
    cases assignValue h i d ai.cur.val <;> rfl

/-- a value element when the handler has no multi-value last argument: only the positional
    argument could take it -/
theorem evalSingleArgument_value_nomulti (c : Cfg) (h : HState) (ai : It)
    (hty : ai.cur.ty = .value ∨ ai.cur.ty = .invalid)
    (hl : ∀ i d, h.lastArg = some i → c.args[i]? = some d → d.multi = false)
    (hp : findArg c.abbr c.table Key.pos = .ok none) :
    evalSingleArgument c h ai = .ok (h, ai, .unknown) := by
  have key : ∀ (t : ElemType), (t = .value ∨ t = .invalid) → ai.cur.ty = t →
      evalSingleArgument c h ai = .ok (h, ai, .unknown) := by
    intro t ht hty
    unfold evalSingleArgument
    rw [hty]
    cases hla : h.lastArg with
    | none =>
      rcases ht with rfl | rfl <;> simp only [hp] <;> rfl
    | some i =>
      cases hd : c.args[i]? with
      | none => rcases ht with rfl | rfl <;> simp only [hd, hp] <;> rfl
      | some d =>
        have := hl i d hla hd
        rcases ht with rfl | rfl <;> simp only [hd, this, hp] <;> rfl
  exact key _ hty rfl

end CelmaVerif.ProgArgs
