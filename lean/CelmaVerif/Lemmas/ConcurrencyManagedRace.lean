import CelmaVerif.Lemmas.ConcurrencyManaged
/-
  C20, audit rows "MRacy is hand-enumerated": the race predicate of the ManagedThread model derived
  from an access table, the way `SRacy` is derived from `sAccesses`: what the next step of each
  thread does to the flag (`mAccess`), and the generic definition of a data race (two different
  threads, both enabled, same object, at least one write, not both atomic).  `MRacy` (the two
  hand-written disjuncts of Model/Concurrency.lean) is proved equivalent to it on every state in
  which a joined parent implies a finished child (invariant `MInv.joined`).
-/
namespace CelmaVerif.Concurrency

/-- one access to the flag object -/
structure MAcc where
  write : Bool
  atomic : Bool
  deriving DecidableEq, Repr

/-- the access to the flag that the next step of thread `t` performs (`none`: the thread is not
enabled or its next step does not touch the flag).  Thread 0 = the creating thread: the
construction of the `std::atomic<bool>` is a plain write (initialisation is not an atomic
operation); thread 1 = the managed thread: `store(true)` / `store(false)`; `t + 2` = observers:
`isActive()` is a load, possible once the constructor has returned. -/
def mAccess (cfg : Cfg) (nobs : Nat) (s : MState) : Nat → Option MAcc
  | 0 => if s.ppc = .atInit then some ⟨true, false⟩ else none
  | 1 => if s.cpc = .storeT ∨ s.cpc = .storeF then some ⟨true, cfg.flagAtomic⟩ else none
  | t + 2 => if t < nobs ∧ s.isLive = true then some ⟨false, cfg.flagAtomic⟩ else none

/-- data race on the flag, derived: two different threads whose next steps both access it, one of
them writing, not both atomically -/
def MRacyD (cfg : Cfg) (nobs : Nat) (s : MState) : Prop :=
  ∃ t u a b, t ≠ u ∧ mAccess cfg nobs s t = some a ∧ mAccess cfg nobs s u = some b ∧
    (a.write || b.write) = true ∧ (a.atomic && b.atomic) = false

theorem mracy_of_derived (cfg : Cfg) (nobs : Nat) (s : MState) (hj : s.ppc = .joined → s.cpc = .done)
    (h : MRacyD cfg nobs s) : MRacy cfg nobs s := by
  obtain ⟨t, u, a, b, htu, ha, hb, hw, hat⟩ := h
  -- the three kinds of thread
  have key : ∀ (t u : Nat) (a b : MAcc), t ≠ u → mAccess cfg nobs s t = some a → mAccess cfg nobs s u = some b →
      (a.write || b.write) = true → (a.atomic && b.atomic) = false → t ≤ u → MRacy cfg nobs s := by
    intro t u a b htu ha hb hw hat hle
    match t, u with
    | 0, 0 => exact absurd rfl htu
    | 0, 1 =>
      simp only [mAccess] at ha hb
      split at ha
      · rename_i hp
        split at hb
        · rename_i hc; exact Or.inl ⟨hp, hc⟩
        · cases hb
      · cases ha
    | 0, u + 2 =>
      simp only [mAccess] at ha hb
      split at ha
      · rename_i hp
        split at hb
        · rename_i hc
          have := hc.2
          simp [MState.isLive, hp] at this
        · cases hb
      · cases ha
    | 1, 1 => exact absurd rfl htu
    | 1, u + 2 =>
      simp only [mAccess] at ha hb
      split at ha
      · rename_i hc
        split at hb
        · rename_i ho
          cases ha; cases hb
          simp only [Bool.and_self] at hat
          have hl := ho.2
          simp only [MState.isLive, Bool.or_eq_true, beq_iff_eq] at hl
          rcases hl with hl | hl
          · exact Or.inr ⟨hat, by omega, hl, hc⟩
          · have := hj hl
            rcases hc with hc | hc <;> rw [this] at hc <;> cases hc
        · cases hb
      · cases ha
    | t + 2, u + 2 =>
      simp only [mAccess] at ha hb
      split at ha
      · split at hb
        · cases ha; cases hb; simp at hw
        · cases hb
      · cases ha
    | 1, 0 => omega
    | t + 2, 0 => omega
    | t + 2, 1 => omega
  by_cases hle : t ≤ u
  · exact key t u a b htu ha hb hw hat hle
  · exact key u t b a (fun e => htu e.symm) hb ha (by rw [Bool.or_comm]; exact hw)
      (by rw [Bool.and_comm]; exact hat) (by omega)

theorem derived_of_mracy (cfg : Cfg) (nobs : Nat) (s : MState) (h : MRacy cfg nobs s) : MRacyD cfg nobs s := by
  rcases h with ⟨hp, hc⟩ | ⟨hna, hn, hp, hc⟩
  · exact ⟨0, 1, ⟨true, false⟩, ⟨true, cfg.flagAtomic⟩, by decide, by simp [mAccess, hp], by simp [mAccess, hc], rfl, rfl⟩
  · refine ⟨1, 2, ⟨true, cfg.flagAtomic⟩, ⟨false, cfg.flagAtomic⟩, by decide, by simp [mAccess, hc], ?_, rfl, by simp [hna]⟩
    simp [mAccess, hn, MState.isLive, hp]

end CelmaVerif.Concurrency
