import CelmaVerif.Lemmas.ContainersSeq2
/-
  `std::tuple<int,std::string,int>` destinations with their `CardinalityExact( 3)`.
-/
namespace CelmaVerif.Containers

/-- once three values have been counted, any further use is refused before anything is touched -/
theorem tup_full_refuses (o : Opts) (s : TupState) (v : List Char) (h : s.card = tupLen) :
    tupAssignP o s v = (s, some (.exc .runtime_error)) := by
  unfold tupAssignP TupState.gotValue
  rw [if_pos (by omega)]

/-- a further element inside a list is refused as well, nothing is stored -/
theorem tup_full_refuses_in_list (o : Opts) (s : TupState) (i : Nat) (t : List Char) (ts : List (List Char))
    (h : s.card = tupLen) : tupElems o s (i + 1) (t :: ts) = (s, some (.exc .runtime_error)) := by
  rw [tupElems]
  unfold tupStep TupState.gotValue
  rw [if_pos (by omega), if_pos (by omega)]

/-- `tuple_at_index` beyond the last position throws; the model never writes a fourth field -/
theorem tup_put_outside (s : TupState) (t : List Char) (h : s.numSet ≥ tupLen) : s.put t = .throw .out_of_range := by
  unfold TupState.put
  unfold tupLen at h
  match hn : s.numSet with
  | 0 => omega
  | 1 => omega
  | 2 => omega
  | n + 3 => rfl

theorem map_eq_one {α β : Type} (f : α → β) (l : List α) (x : β) (h : l.map f = [x]) : ∃ u, l = [u] ∧ f u = x := by
  match l, h with
  | [u], h => exact ⟨u, rfl, by simpa using h⟩
  | [], h => simp at h
  | _ :: _ :: _, h => simp at h

theorem map_eq_two {α β : Type} (f : α → β) (l : List α) (x y : β) (h : l.map f = [x, y]) :
    ∃ u v, l = [u, v] ∧ f u = x ∧ f v = y := by
  match l, h with
  | [u, v], h => exact ⟨u, v, rfl, by simpa using h⟩
  | [], h => simp at h
  | [_], h => simp at h
  | _ :: _ :: _ :: _, h => simp at h

theorem map_eq_three {α β : Type} (f : α → β) (l : List α) (x y z : β) (h : l.map f = [x, y, z]) :
    ∃ u v w, l = [u, v, w] ∧ f u = x ∧ f v = y ∧ f w = z := by
  match l, h with
  | [u, v, w], h => exact ⟨u, v, w, rfl, by simpa using h⟩
  | [], h => simp at h
  | [_], h => simp at h
  | [_, _], h => simp at h
  | _ :: _ :: _ :: _ :: _, h => simp at h

section three
variable (o : Opts) (t1 t2 t3 : List Char) (a b : Int) (s0 : TupState)
  (h0 : s0.numSet = 0 ∧ s0.card = 0)
  (hc1 : runChecks o.checks t1 = none) (hc2 : runChecks o.checks t2 = none) (hc3 : runChecks o.checks t3 = none)
  (hv1 : convInt (applyPos o.fmtPos 0 t1) = some a) (hv3 : convInt (applyPos o.fmtPos 2 t3) = some b)
include h0 hc1 hc2 hc3 hv1 hv3

/-- three elements in one list -/
theorem tup_elems_3 :
    tupElems o { s0 with card := 1 } 0 [t1, t2, t3] = ({ s0 with a := a, s := applyPos o.fmtPos 1 t2, b := b, numSet := 3, card := 3 }, none) := by
  obtain ⟨hn, hc⟩ := h0
  simp [tupElems, tupStep, TupState.gotValue, TupState.put, tupLen, hn, hc1, hc2, hc3, hv1, hv3]

theorem tup_run_1 (u : List Char) (hu : tokens o.sep u = [t1, t2, t3]) :
    tupRunP o s0 [u] = ({ s0 with a := a, s := applyPos o.fmtPos 1 t2, b := b, numSet := 3, card := 3 }, none) := by
  have h3 := tup_elems_3 o t1 t2 t3 a b s0 h0 hc1 hc2 hc3 hv1 hv3
  obtain ⟨hn, hc⟩ := h0
  simp only [tupRunP, tupAssignP, TupState.gotValue, hc, hu, tupLen]
  simp only [Nat.zero_add, gt_iff_lt, Nat.lt_irrefl, Nat.reduceLT, if_false]
  rw [h3]

theorem tup_run_12 (u1 u2 : List Char) (hu1 : tokens o.sep u1 = [t1]) (hu2 : tokens o.sep u2 = [t2, t3]) :
    tupRunP o s0 [u1, u2] = ({ s0 with a := a, s := applyPos o.fmtPos 1 t2, b := b, numSet := 3, card := 3 }, none) := by
  obtain ⟨hn, hc⟩ := h0
  simp [tupRunP, tupAssignP, tupElems, tupStep, TupState.gotValue, TupState.put, tupLen, hn, hc, hu1, hu2,
    hc1, hc2, hc3, hv1, hv3]

theorem tup_run_21 (u1 u2 : List Char) (hu1 : tokens o.sep u1 = [t1, t2]) (hu2 : tokens o.sep u2 = [t3]) :
    tupRunP o s0 [u1, u2] = ({ s0 with a := a, s := applyPos o.fmtPos 1 t2, b := b, numSet := 3, card := 3 }, none) := by
  obtain ⟨hn, hc⟩ := h0
  simp [tupRunP, tupAssignP, tupElems, tupStep, TupState.gotValue, TupState.put, tupLen, hn, hc, hu1, hu2,
    hc1, hc2, hc3, hv1, hv3]

theorem tup_run_111 (u1 u2 u3 : List Char) (hu1 : tokens o.sep u1 = [t1]) (hu2 : tokens o.sep u2 = [t2])
    (hu3 : tokens o.sep u3 = [t3]) :
    tupRunP o s0 [u1, u2, u3] = ({ s0 with a := a, s := applyPos o.fmtPos 1 t2, b := b, numSet := 3, card := 3 }, none) := by
  obtain ⟨hn, hc⟩ := h0
  simp [tupRunP, tupAssignP, tupElems, tupStep, TupState.gotValue, TupState.put, tupLen, hn, hc, hu1, hu2, hu3,
    hc1, hc2, hc3, hv1, hv3]

end three

end CelmaVerif.Containers
