/-
  Decimal digits: the connection between core's `Nat.toDigits 10` (the list behind `Nat.repr`) and
  the arithmetic `v / 10^j % 10` that digit-by-digit conversion code performs.  Core Lean only.
-/
namespace CelmaVerif.Digits

/-- digit values, least significant first: `[v % 10, v / 10 % 10, …]` (`k` of them) -/
def lowDigits (v k : Nat) : List Nat := (List.range k).map fun j => v / 10 ^ j % 10

theorem div_pow_succ (v j : Nat) : v / 10 ^ (j + 1) = v / 10 / 10 ^ j := by
  rw [Nat.pow_succ, Nat.mul_comm, Nat.div_div_eq_div_mul]

theorem lowDigits_succ (v k : Nat) : lowDigits v (k + 1) = v % 10 :: lowDigits (v / 10) k := by
  unfold lowDigits
  rw [List.range_succ_eq_map, List.map_cons, List.map_map]
  congr 1
  · simp
  · apply List.map_congr_left
    intro j _
    simp only [Function.comp]
    rw [div_pow_succ]

theorem length_lowDigits (v k : Nat) : (lowDigits v k).length = k := by
  simp [lowDigits]

theorem lowDigits_lt (v k d : Nat) (h : d ∈ lowDigits v k) : d < 10 := by
  simp only [lowDigits, List.mem_map] at h
  obtain ⟨j, _, rfl⟩ := h
  exact Nat.mod_lt _ (by decide)

/-- `k` is the number of decimal digits of `v` (0 has one digit) -/
def IsLen (v k : Nat) : Prop := 1 ≤ k ∧ v < 10 ^ k ∧ (k = 1 ∨ 10 ^ (k - 1) ≤ v)

theorem isLen_div {v k : Nat} (h : IsLen v (k + 1)) (hk : 1 ≤ k) : IsLen (v / 10) k ∧ 10 ≤ v := by
  obtain ⟨_, hhi, hlo⟩ := h
  have hlo' : 10 ^ k ≤ v := by
    rcases hlo with h | h
    · omega
    · simpa using h
  have h10 : 10 ≤ v := by
    have : 10 ^ 1 ≤ 10 ^ k := Nat.pow_le_pow_right (by decide) hk
    omega
  refine ⟨⟨hk, ?_, ?_⟩, h10⟩
  · rw [Nat.pow_succ] at hhi
    exact Nat.div_lt_of_lt_mul (by omega)
  · right
    have : 10 ^ k = 10 ^ (k - 1) * 10 := by
      rw [← Nat.pow_succ]; congr 1; omega
    rw [this] at hlo'
    exact (Nat.le_div_iff_mul_le (by decide)).mpr hlo'

/-- the digits of `Nat.toDigits 10` are `v / 10^j % 10`, most significant first -/
theorem toDigits_eq_lowDigits (k : Nat) : ∀ v, IsLen v k →
    Nat.toDigits 10 v = ((lowDigits v k).map Nat.digitChar).reverse := by
  induction k with
  | zero => intro v h; exact absurd h.1 (by decide)
  | succ k ih =>
    intro v h
    by_cases hk : k = 0
    · subst hk
      have hv : v < 10 := by simpa using h.2.1
      rw [Nat.toDigits_of_lt_base hv]
      simp [lowDigits, Nat.mod_eq_of_lt hv]
    · obtain ⟨h', h10⟩ := isLen_div h (by omega)
      rw [Nat.toDigits_of_base_le (by decide) h10, ih _ h', lowDigits_succ]
      simp

/-- the same as byte values `'0' + digit` -/
theorem toDigits_bytes (k v : Nat) (h : IsLen v k) :
    (Nat.toDigits 10 v).map Char.toNat = ((lowDigits v k).map fun d => 48 + d).reverse := by
  rw [toDigits_eq_lowDigits k v h, List.map_reverse, List.map_map]
  congr 1
  apply List.map_congr_left
  intro d hd
  simp only [Function.comp]
  exact Nat.toNat_digitChar_of_lt_ten (lowDigits_lt v k d hd)

theorem isLen_unique {v k k' : Nat} (h : IsLen v k) (h' : IsLen v k') : k = k' := by
  have key : ∀ a b, IsLen v a → IsLen v b → a ≤ b := by
    intro a b ha hb
    apply Classical.byContradiction
    intro hlt
    have hlt : b < a := by omega
    have h1 : a ≠ 1 := by have := hb.1; omega
    have h2 : 10 ^ (a - 1) ≤ v := by
      rcases ha.2.2 with h | h
      · exact absurd h h1
      · exact h
    have h3 : 10 ^ b ≤ 10 ^ (a - 1) := Nat.pow_le_pow_right (by decide) (by omega)
    have := hb.2.1
    omega
  exact Nat.le_antisymm (key _ _ h h') (key _ _ h' h)

/-- `IsLen` is the length of the decimal representation -/
theorem isLen_length (v k : Nat) (h : IsLen v k) : (Nat.toDigits 10 v).length = k := by
  rw [toDigits_eq_lowDigits k v h]
  simp [length_lowDigits]

end CelmaVerif.Digits
