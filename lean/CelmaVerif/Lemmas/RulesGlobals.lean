import CelmaVerif.Lemmas.RulesBase
/-
  Rules layer, part 4: the handler constraints all-of / any-of / one-of — the per-constraint state
  (`GSt`) against its declarative reading.
-/
namespace CelmaVerif.ProgArgs
open CelmaVerif CelmaVerif.Keys

/-- the filter of `listedUses` -/
def listed (cfg : Cfg) (g : GDef) (u : Use) : Bool :=
  u.ident && match cfg.args[u.arg]? with
    | some d => isConstraintArgument g.keys d.key
    | none => false

theorem listedUses_eq (cfg : Cfg) (g : GDef) (us : List Use) : listedUses cfg g us = us.filter (listed cfg g) := rfl

theorem listedUses_snoc (cfg : Cfg) (g : GDef) (us : List Use) (u : Use) :
    listedUses cfg g (us ++ [u]) = listedUses cfg g us ++ (if listed cfg g u then [u] else []) := by
  rw [listedUses_eq, listedUses_eq, List.filter_append]
  cases h : listed cfg g u <;> simp [List.filter, h]

theorem executeGlobals_get : ∀ (gs : List GDef) (ss ss' : List GSt) (k : Key),
    executeGlobals gs ss k = .ok ss' →
    ∀ (n : Nat) (g : GDef) (st : GSt), gs[n]? = some g → ss[n]? = some st →
      ∃ st', ss'[n]? = some st' ∧ g.execute st k = .ok st' := by
  intro gs
  induction gs with
  | nil => intro ss ss' k _ n g st hg; simp at hg
  | cons g0 gs ih =>
    intro ss ss' k e n g st hg hs
    cases ss with
    | nil => simp at hs
    | cons s0 ss =>
      simp only [executeGlobals, bind_eq_ok] at e
      obtain ⟨s', h1, rest, hr, e⟩ := e
      cases e
      cases n with
      | zero =>
        simp only [List.getElem?_cons_zero, Option.some.injEq] at hg hs ⊢
        subst hg; subst hs; exact ⟨s', rfl, h1⟩
      | succ n =>
        simp only [List.getElem?_cons_succ] at hg hs ⊢
        exact ih ss rest k hr n g st hg hs

/-- `executeGlobals` stops at the shorter list -/
theorem executeGlobals_length_le : ∀ (gs : List GDef) (ss ss' : List GSt) (k : Key),
    executeGlobals gs ss k = .ok ss' → ss'.length ≤ ss.length := by
  intro gs
  induction gs with
  | nil => intro ss ss' k e; cases ss <;> simp [executeGlobals] at e <;> subst e <;> simp
  | cons g gs ih =>
    intro ss ss' k e
    cases ss with
    | nil => simp [executeGlobals] at e; subst e; simp
    | cons s ss =>
      simp only [executeGlobals, bind_eq_ok] at e
      obtain ⟨_, _, rest, hr, e⟩ := e
      cases e
      simp only [List.length_cons]
      have := ih ss rest k hr; omega

theorem checkGlobals_get (defs : List ArgDef) (sts : List ArgSt) : ∀ (gs : List GDef) (ss : List GSt),
    checkGlobals defs sts gs ss = .ok () →
    ∀ (n : Nat) (g : GDef) (st : GSt), gs[n]? = some g → ss[n]? = some st → g.endCheck defs sts st = .ok () := by
  intro gs
  induction gs with
  | nil => intro ss _ n g st hg; simp at hg
  | cons g0 gs ih =>
    intro ss e n g st hg hs
    cases ss with
    | nil => simp at hs
    | cons s0 ss =>
      simp only [checkGlobals, bind_eq_ok] at e
      obtain ⟨_, h1, h2⟩ := e
      cases n with
      | zero =>
        simp only [List.getElem?_cons_zero, Option.some.injEq] at hg hs
        subst hg; subst hs; exact h1
      | succ n =>
        simp only [List.getElem?_cons_succ] at hg hs
        exact ih ss h2 n g st hg hs

theorem eraseFirstEq_mem (t : Key) : ∀ (l : List Key) (k : Key), k ∈ l →
    k ∈ eraseFirstEq t l ∨ k.eq t = true := by
  intro l
  induction l with
  | nil => intro k h; cases h
  | cons x xs ih =>
    intro k h
    simp only [eraseFirstEq]
    split
    · rename_i hx
      rcases List.mem_cons.mp h with rfl | h
      · exact Or.inr hx
      · exact Or.inl h
    · rcases List.mem_cons.mp h with rfl | h
      · exact Or.inl List.mem_cons_self
      · rcases ih k h with h | h
        · exact Or.inl (List.mem_cons_of_mem _ h)
        · exact Or.inr h

/-- what the states of the handler constraints say about the uses so far -/
structure GlobInv (cfg : Cfg) (h : HState) : Prop where
  /-- all-of: every listed key is still to come or was given -/
  allOf : ∀ (n : Nat) (g : GDef) (st : GSt), cfg.globals[n]? = some g → h.globals[n]? = some st →
    g.kind = .allOf → ∀ k ∈ g.keys,
      k ∈ st.remaining ∨ ∃ u ∈ h.uses, u.ident = true ∧ Designates cfg k u.arg
  /-- any-of / one-of: `used` is set iff one listed argument was given, and never more than one -/
  used : ∀ (n : Nat) (g : GDef) (st : GSt), cfg.globals[n]? = some g → h.globals[n]? = some st →
    g.kind = .anyOf ∨ g.kind = .oneOf → (listedUses cfg g h.uses).length = if st.used then 1 else 0

theorem globInv_init (cfg : Cfg) (inits : List DVal) : GlobInv cfg (cfg.initState inits) := by
  constructor
  · intro n g st hg hs hk k hkm
    left
    simp only [Cfg.initState, List.getElem?_map, hg, Option.map_some, Option.some.injEq] at hs
    subst hs
    simp [hk, hkm]
  · intro n g st hg hs hk
    simp only [Cfg.initState, List.getElem?_map, hg, Option.map_some, Option.some.injEq] at hs
    subst hs
    simp [listedUses, Cfg.initState]

theorem globInv_step {cfg : Cfg} {h : HState} {u : Use} {h' : HState}
    (a : GlobInv cfg h) (e : applyUse cfg h u = .ok h') : GlobInv cfg h' := by
  obtain ⟨d, pend, cnt, st', s⟩ := applyUse_ok e
  cases hi : u.ident with
  | false =>
    have hl : ∀ g, listed cfg g u = false := by intro g; simp [listed, hi]
    constructor
    · intro n g st hg hs hk k hkm
      rw [s.globF hi] at hs
      rcases a.allOf n g st hg hs hk k hkm with h1 | ⟨w, hw, h2⟩
      · exact Or.inl h1
      · exact Or.inr ⟨w, by rw [s.uses']; simp [hw], h2⟩
    · intro n g st hg hs hk
      rw [s.globF hi] at hs
      rw [s.uses', listedUses_snoc, hl g]
      simpa using a.used n g st hg hs hk
  | true =>
    have hl : ∀ g, listed cfg g u = isConstraintArgument g.keys d.key := by
      intro g; simp [listed, hi, s.arg]
    have hlen : h'.uses = h.uses ++ [u] := s.uses'
    constructor
    · intro n g st1 hg hs1 hk k hkm
      have hs0 : ∃ st0, h.globals[n]? = some st0 := by
        cases h0 : h.globals[n]? with
        | some st0 => exact ⟨st0, rfl⟩
        | none =>
          exfalso
          have h1 : n < cfg.globals.length := (List.getElem?_eq_some_iff.mp hg).1
          have h2 : n < h'.globals.length := (List.getElem?_eq_some_iff.mp hs1).1
          have := executeGlobals_length_le _ _ _ _ (s.globI hi)
          have h3 := List.getElem?_eq_none_iff.mp h0
          omega
      obtain ⟨st0, hs0⟩ := hs0
      obtain ⟨st1', h1, h2⟩ := executeGlobals_get _ _ _ _ (s.globI hi) n g st0 hg hs0
      rw [hs1] at h1; cases h1
      rcases a.allOf n g st0 hg hs0 hk k hkm with hr | ⟨w, hw, hw2⟩
      · unfold GDef.execute at h2
        split at h2
        · cases h2; exact Or.inl hr
        · rw [hk] at h2
          dsimp only at h2
          cases h2
          dsimp only
          rcases eraseFirstEq_mem d.key _ k hr with hm | he
          · exact Or.inl hm
          · exact Or.inr ⟨u, by rw [hlen]; simp, hi, d, s.arg, he⟩
      · exact Or.inr ⟨w, by rw [hlen]; simp [hw], hw2⟩
    · intro n g st1 hg hs1 hk
      cases h0 : h.globals[n]? with
      | none =>
        exfalso
        have := executeGlobals_length_le _ _ _ _ (s.globI hi)
        have h2 : n < h'.globals.length := (List.getElem?_eq_some_iff.mp hs1).1
        have h3 := List.getElem?_eq_none_iff.mp h0
        omega
      | some st0 =>
        obtain ⟨st1', h1, h2⟩ := executeGlobals_get _ _ _ _ (s.globI hi) n g st0 hg h0
        rw [hs1] at h1; cases h1
        have hold := a.used n g st0 hg h0 hk
        rw [hlen, listedUses_snoc, hl g]
        unfold GDef.execute at h2
        split at h2
        · rename_i hc
          cases h2
          simp only [Bool.not_eq_true'] at hc
          rw [hc]; simpa using hold
        · rename_i hc
          simp only [Bool.not_eq_true', Bool.not_eq_false] at hc
          rw [hc]
          cases hkk : g.kind with
          | allOf => rw [hkk] at hk; rcases hk with c | c <;> cases c
          | differ => rw [hkk] at hk; rcases hk with c | c <;> cases c
          | disjoint => rw [hkk] at hk; rcases hk with c | c <;> cases c
          | anyOf =>
            rw [hkk] at h2; dsimp only at h2
            split at h2
            · cases h2
            · rename_i hu
              cases h2
              simp only [Bool.not_eq_true] at hu
              rw [hu] at hold
              simp [hold]
          | oneOf =>
            rw [hkk] at h2; dsimp only at h2
            split at h2
            · cases h2
            · rename_i hu
              cases h2
              simp only [Bool.not_eq_true] at hu
              rw [hu] at hold
              simp [hold]

/-- the handler constraints with a progress state (all-of / any-of / one-of) are met; nothing is
    said about the value constraints -/
def ObeysStateGlobals (cfg : Cfg) (us : List Use) : Prop :=
  ∀ g ∈ cfg.globals,
    match g.kind with
    | .allOf => ∀ k ∈ g.keys, ∃ u ∈ us, u.ident = true ∧ Designates cfg k u.arg
    | .anyOf => (listedUses cfg g us).length ≤ 1
    | .oneOf => (listedUses cfg g us).length = 1
    | .differ => True
    | .disjoint => True

/-- rule "handler constraints", soundness: the three constraints with a progress state -/
theorem state_globals_sound {cfg : Cfg} {h : HState} (f : Frame cfg h) (a : GlobInv cfg h)
    (e : checkGlobals cfg.args h.args cfg.globals h.globals = .ok ()) : ObeysStateGlobals cfg h.uses := by
  intro g hg
  obtain ⟨n, hn, hgn⟩ := List.getElem_of_mem hg
  have hg' : cfg.globals[n]? = some g := by rw [List.getElem?_eq_getElem hn, hgn]
  have hn' : n < h.globals.length := by rw [f.globLen]; exact hn
  have hs' : h.globals[n]? = some h.globals[n] := List.getElem?_eq_getElem hn'
  have hend := checkGlobals_get _ _ _ _ e n g _ hg' hs'
  unfold GDef.endCheck at hend
  cases hk : g.kind with
  | allOf =>
    dsimp only
    rw [hk] at hend; dsimp only at hend
    split at hend
    · rename_i hemp
      intro k hkm
      rcases a.allOf n g _ hg' hs' hk k hkm with h1 | h1
      · simp only [List.isEmpty_iff] at hemp; rw [hemp] at h1; cases h1
      · exact h1
    · cases hend
  | anyOf =>
    dsimp only
    have := a.used n g _ hg' hs' (Or.inl hk)
    rw [this]; split <;> omega
  | oneOf =>
    dsimp only
    rw [hk] at hend; dsimp only at hend
    have := a.used n g _ hg' hs' (Or.inr hk)
    split at hend
    · rename_i hu; rw [this, hu]; rfl
    · cases hend
  | differ => trivial
  | disjoint => trivial

/-- … together with the value constraints (which read the destinations; supplied by
    Lemmas/RulesValueC.lean) -/
theorem globals_sound {cfg : Cfg} {inits : List DVal} {us : List Use} (hs : ObeysStateGlobals cfg us)
    (hv : ∀ g ∈ cfg.globals, (g.kind = .differ → DifferMet cfg inits us g.keys) ∧
      (g.kind = .disjoint → DisjointMet cfg inits us g.keys)) : ObeysGlobals cfg inits us := by
  intro g hg
  have h1 := hs g hg
  cases hk : g.kind with
  | allOf => rw [hk] at h1; exact h1
  | anyOf => rw [hk] at h1; exact h1
  | oneOf => rw [hk] at h1; exact h1
  | differ => exact (hv g hg).1 hk
  | disjoint => exact (hv g hg).2 hk

end CelmaVerif.ProgArgs
