import CelmaVerif.Lemmas.RulesAssign
/-
  Rules layer, part 2b: the rules that are local to one argument — mandatory, values, cardinality.
  Invariants of the per-argument state (`ArgSt`) over `applyUses`, and their reading at the final
  `checkMandatoryCardinality`.
-/
namespace CelmaVerif.ProgArgs
open CelmaVerif CelmaVerif.Keys

/-! ### values given -/

theorem valuesGiven_snoc (cfg : Cfg) (i : Nat) (us : List Use) (u : Use) :
    valuesGiven cfg i (us ++ [u]) = valuesGiven cfg i us +
      (if u.arg = i then (match cfg.args[i]? with | some d => u.valueCount d | none => 0) else 0) := by
  unfold valuesGiven
  by_cases h : u.arg = i
  · rw [if_pos h]
    cases cfg.args[i]? <;> simp [List.filter_append, h]
  · simp [List.filter_append, h]

/-! ### the invariant of the argument states -/

/-- what the per-argument state says about the uses so far -/
structure ArgInv (cfg : Cfg) (inits : List DVal) (h : HState) : Prop where
  /-- an argument not used yet is in its initial state -/
  fresh : ∀ (i : Nat) (d : ArgDef), cfg.args[i]? = some d → (∀ u ∈ h.uses, u.arg ≠ i) →
    ∃ v, inits[i]? = some v ∧ h.args[i]? = some { dest := v }
  /-- a list argument that got no element yet still has its initial destination -/
  freshVec : ∀ (i : Nat) (d : ArgDef), cfg.args[i]? = some d → d.kind = .vecInt →
    (∀ u ∈ h.uses, u.arg = i → splitSep d.sep u.val = []) →
    ∃ v st, inits[i]? = some v ∧ h.args[i]? = some st ∧ st.dest = v
  /-- a cardinality object that counts has counted the values given, and never beyond its limit -/
  count : ∀ (i : Nat) (d : ArgDef) (n : Int), cfg.args[i]? = some d → d.card.limit = some n →
    ∃ st, h.args[i]? = some st ∧ st.cnt = valuesGiven cfg i h.uses ∧ (st.cnt = 0 ∨ st.cnt ≤ n)

theorem initState_args (cfg : Cfg) (inits : List DVal) (i : Nat) (d : ArgDef) (hi : cfg.args[i]? = some d)
    (hin : cfg.args.length ≤ inits.length) :
    ∃ v, inits[i]? = some v ∧ (cfg.initState inits).args[i]? = some { dest := v } := by
  have hlt : i < cfg.args.length := (List.getElem?_eq_some_iff.mp hi).1
  have hlt' : i < inits.length := by omega
  refine ⟨inits[i], by simp [hlt'], ?_⟩
  simp [Cfg.initState, List.getElem?_zip_eq_some, hi, hlt']

theorem argInv_init (cfg : Cfg) (inits : List DVal) (hin : cfg.args.length ≤ inits.length) :
    ArgInv cfg inits (cfg.initState inits) := by
  refine ⟨?_, ?_, ?_⟩
  · intro i d hi _
    exact initState_args cfg inits i d hi hin
  · intro i d hi _ _
    obtain ⟨v, hv, hst⟩ := initState_args cfg inits i d hi hin
    exact ⟨v, _, hv, hst, rfl⟩
  · intro i d n hi _
    obtain ⟨v, _, hv⟩ := initState_args cfg inits i d hi hin
    exact ⟨_, hv, by simp [valuesGiven, Cfg.initState], Or.inl rfl⟩

theorem getD_of_getElem? {l : List ArgSt} {i : Nat} {st : ArgSt} (h : l[i]? = some st) : l.getD i default = st := by
  simp [List.getD, h]

theorem argInv_step {cfg : Cfg} {inits : List DVal} {h : HState} {u : Use} {h' : HState}
    (f : Frame cfg h) (a : ArgInv cfg inits h) (e : applyUse cfg h u = .ok h') : ArgInv cfg inits h' := by
  obtain ⟨d, pend, cnt, st', s⟩ := applyUse_ok e
  refine ⟨?_, ?_, ?_⟩
  · intro i di hi hno
    have hne : u.arg ≠ i := hno u (by rw [s.uses']; simp)
    obtain ⟨v, hv, hst⟩ := a.fresh i di hi (fun w hw => hno w (by rw [s.uses']; simp [hw]))
    refine ⟨v, hv, ?_⟩
    rw [s.args', List.getElem?_set_ne hne]; exact hst
  · intro i di hi hk hno
    obtain ⟨v, st, hv, hst, hd⟩ := a.freshVec i di hi hk (fun w hw => hno w (by rw [s.uses']; simp [hw]))
    by_cases hui : u.arg = i
    · have hdd : di = d := by have := s.arg; rw [hui, hi] at this; cases this; rfl
      subst hdd
      have hlt : i < h.args.length := by rw [f.argsLen]; exact (List.getElem?_eq_some_iff.mp hi).1
      refine ⟨v, st', hv, by rw [s.args', hui]; simp [hlt], ?_⟩
      have hassign := s.assign
      rw [hui, getD_of_getElem? hst] at hassign
      have eff := assignDest_effect hassign
      rw [hk] at eff; dsimp only at eff
      rw [eff.2, if_pos (hno u (by rw [s.uses']; simp) hui)]
      exact hd
    · exact ⟨v, st, hv, by rw [s.args', List.getElem?_set_ne hui]; exact hst, hd⟩
  · intro i di n hi hl
    obtain ⟨st, hst, hc, hle⟩ := a.count i di n hi hl
    by_cases hui : u.arg = i
    · have hdd : di = d := by have := s.arg; rw [hui, hi] at this; cases this; rfl
      subst hdd
      have hlt : i < h.args.length := by rw [f.argsLen]; exact (List.getElem?_eq_some_iff.mp hi).1
      refine ⟨st', ?_, ?_⟩
      · rw [s.args', hui]; simp [hlt]
      · have hcount := s.count
        have hassign := s.assign
        rw [hui, getD_of_getElem? hst] at hcount hassign
        rw [f.fromSrc] at hcount
        simp only [countValue, Bool.false_eq_true, if_false] at hcount
        obtain ⟨h1, h2⟩ := gotValue_ok_some hl hcount
        obtain ⟨h3, h4⟩ := assignDest_cnt hl hassign h2
        have h4' : st'.cnt + 1 = cnt + u.valueCount di := h4
        rw [s.uses', valuesGiven_snoc, if_pos hui, hi]
        dsimp only
        constructor
        · omega
        · right; exact h3
    · refine ⟨st, ?_, ?_, hle⟩
      · rw [s.args', List.getElem?_set_ne hui]; exact hst
      · rw [s.uses', valuesGiven_snoc, if_neg hui]; simpa using hc

/-! ### rule "values" -/

theorem values_step {cfg : Cfg} {h : HState} {u : Use} {h' : HState} (a : ObeysValues cfg h.uses)
    (e : applyUse cfg h u = .ok h') : ObeysValues cfg h'.uses := by
  obtain ⟨d, pend, cnt, st', s⟩ := applyUse_ok e
  intro w hw
  rw [s.uses'] at hw
  rcases List.mem_append.mp hw with hw | hw
  · exact a w hw
  · simp only [List.mem_singleton] at hw; subst hw
    exact ⟨d, s.arg, assignDest_valueOk s.assign⟩

/-! ### the final check -/

theorem checkMandatoryCardinality_ok : ∀ (ds : List ArgDef) (ss : List ArgSt),
    checkMandatoryCardinality ds ss = .ok () →
    ∀ (i : Nat) (d : ArgDef) (st : ArgSt), ds[i]? = some d → ss[i]? = some st →
      (d.mandatory && !st.hasValue d.kind) = false ∧ d.card.check st.cnt = .ok () := by
  intro ds
  induction ds with
  | nil => intro ss _ i d st hd; simp at hd
  | cons d0 ds ih =>
    intro ss e i d st hd hs
    cases ss with
    | nil => simp at hs
    | cons s0 ss =>
      simp only [checkMandatoryCardinality, bind_eq_ok, throwIf_eq_ok] at e
      obtain ⟨_, h1, _, h2, h3⟩ := e
      cases i with
      | zero =>
        simp only [List.getElem?_cons_zero, Option.some.injEq] at hd hs
        subst hd; subst hs; exact ⟨h1, h2⟩
      | succ i =>
        simp only [List.getElem?_cons_succ] at hd hs
        exact ih ss h3 i d st hd hs

/-- rule "mandatory", soundness -/
theorem mandatory_sound {cfg : Cfg} {inits : List DVal} {h : HState} (a : ArgInv cfg inits h)
    (e : checkMandatoryCardinality cfg.args h.args = .ok ()) : ObeysMandatory cfg inits h.uses := by
  intro i d hi hm
  by_cases hu : ∃ u ∈ h.uses, u.arg = i ∧ (d.kind = .vecInt → splitSep d.sep u.val ≠ [])
  · exact Or.inl hu
  · right
    have hnot : ∀ u ∈ h.uses, u.arg = i → d.kind = .vecInt ∧ splitSep d.sep u.val = [] := by
      intro u hu' hui
      by_cases hk : d.kind = .vecInt
      · refine ⟨hk, ?_⟩
        by_cases hs : splitSep d.sep u.val = []
        · exact hs
        · exact absurd ⟨u, hu', hui, fun _ => hs⟩ hu
      · exact absurd ⟨u, hu', hui, fun c => absurd c hk⟩ hu
    by_cases hk : d.kind = .vecInt
    · obtain ⟨v, st, hv, hst, hd⟩ := a.freshVec i d hi hk (fun u hu' hui => (hnot u hu' hui).2)
      have := (checkMandatoryCardinality_ok _ _ e i d _ hi hst).1
      rw [hm] at this
      simp only [Bool.true_and, Bool.not_eq_false'] at this
      unfold ArgSt.hasValue at this
      rw [hk, hd] at this
      cases v <;> simp at this
      rename_i l
      exact ⟨hk, l, hv, by simpa using this⟩
    · exfalso
      obtain ⟨v, hv, hst⟩ := a.fresh i d hi (fun u hu' hc => hk (hnot u hu' hc).1)
      have := (checkMandatoryCardinality_ok _ _ e i d _ hi hst).1
      rw [hm] at this
      simp only [Bool.true_and, Bool.not_eq_false'] at this
      unfold ArgSt.hasValue at this
      cases hkk : d.kind <;> rw [hkk] at this <;> simp at this
      exact hk hkk

theorem cardCheck_exact {n cnt : Int} (e : (Card.exact n).check cnt = .ok ()) : cnt ≤ 0 ∨ cnt = n := by
  simp only [Card.check] at e
  split at e
  · cases e
  · rename_i hc
    simp only [bne_iff_ne, ne_eq, not_and] at hc
    omega

theorem cardCheck_range {lo hi cnt : Int} (e : (Card.range lo hi).check cnt = .ok ()) : cnt = 0 ∨ lo ≤ cnt := by
  simp only [Card.check] at e
  split at e
  · cases e
  · rename_i hc
    simp only [bne_iff_ne, ne_eq, not_and] at hc
    omega

/-- rule "cardinality", soundness -/
theorem cardinality_sound {cfg : Cfg} {inits : List DVal} {h : HState} (hs : ∀ d ∈ cfg.args, d.card.Sane)
    (a : ArgInv cfg inits h) (e : checkMandatoryCardinality cfg.args h.args = .ok ()) :
    ObeysCardinality cfg h.uses := by
  intro i d hi
  have hsane := hs d (List.mem_of_getElem? hi)
  unfold Card.MetBy
  cases hc : d.card with
  | unlimited => trivial
  | max m =>
    dsimp only
    by_cases hm : m = -1
    · exact Or.inl hm
    · right
      obtain ⟨st, hst, h1, h2⟩ := a.count i d m hi (by rw [hc]; simp [Card.limit, hm])
      rw [hc] at hsane; unfold Card.Sane at hsane
      omega
  | exact m =>
    dsimp only
    obtain ⟨st, hst, h1, h2⟩ := a.count i d m hi (by rw [hc]; rfl)
    have := (checkMandatoryCardinality_ok _ _ e i d _ hi hst).2
    rw [hc] at this
    have := cardCheck_exact this
    omega
  | range lo hi' =>
    dsimp only
    by_cases hm : hi' = -1
    · exact Or.inl hm
    · right
      obtain ⟨st, hst, h1, h2⟩ := a.count i d hi' hi (by rw [hc]; simp [Card.limit, hm])
      have := (checkMandatoryCardinality_ok _ _ e i d _ hi hst).2
      rw [hc] at this
      have := cardCheck_range this
      rw [hc] at hsane; unfold Card.Sane at hsane
      omega

end CelmaVerif.ProgArgs
