import CelmaVerif.Lemmas.RulesBase
/-
  Rules layer, part 2: the rules that are local to one argument — mandatory, values, cardinality.
  Invariants of the per-argument state (`ArgSt`) over `applyUses`, and their reading at the final
  `checkMandatoryCardinality`.
-/
namespace CelmaVerif.ProgArgs
open CelmaVerif CelmaVerif.Keys

/-! ### cardinality objects -/

/-- the limit a cardinality object counts against (`none`: the object does not count at all) -/
def Card.limit : Card → Option Int
  | .unlimited => none
  | .max n => if n = -1 then none else some n
  | .exact n => some n
  | .range _ hi => if hi = -1 then none else some hi

theorem gotValue_eq (c : Card) (cnt : Int) :
    c.gotValue cnt = match c.limit with
      | none => .ok cnt
      | some n => if cnt + 1 > n then .throw .runtime_error else .ok (cnt + 1) := by
  cases c with
  | unlimited => rfl
  | max n => by_cases h : n = -1 <;> simp [Card.gotValue, Card.limit, h]
  | exact n => rfl
  | range lo hi => by_cases h : hi = -1 <;> simp [Card.gotValue, Card.limit, h]

theorem gotValue_ok_some {c : Card} {n cnt cnt' : Int} (hl : c.limit = some n) (e : c.gotValue cnt = .ok cnt') :
    cnt' = cnt + 1 ∧ cnt' ≤ n := by
  rw [gotValue_eq, hl] at e
  dsimp only at e
  split at e
  · cases e
  · cases e; omega

theorem gotValue_ok_none {c : Card} {cnt cnt' : Int} (hl : c.limit = none) (e : c.gotValue cnt = .ok cnt') :
    cnt' = cnt := by
  rw [gotValue_eq, hl] at e
  cases e; rfl

/-! ### the element loop of a list value -/

theorem assignVecLoop_cnt_false (d : ArgDef) (n : Int) (hl : d.card.limit = some n) :
    ∀ (ts : List Word) (st st' : ArgSt), assignVecLoop d ts false st = .ok st' → st.cnt ≤ n →
      st'.cnt ≤ n ∧ st'.cnt = st.cnt + ts.length := by
  intro ts
  induction ts with
  | nil => intro st st' e hle; simp only [assignVecLoop] at e; cases e; simp [hle]
  | cons t ts ih =>
    intro st st' e hle
    simp only [assignVecLoop, bind_eq_ok, countValue] at e
    obtain ⟨cnt, hc, _, _, v, _, e⟩ := e
    simp only [Bool.false_eq_true, if_false] at hc
    obtain ⟨h1, h2⟩ := gotValue_ok_some hl hc
    obtain ⟨h3, h4⟩ := ih _ _ e h2
    refine ⟨h3, ?_⟩
    rw [h4]; simp only [List.length_cons]; omega

theorem assignVecLoop_cnt_true (d : ArgDef) (n : Int) (hl : d.card.limit = some n)
    (ts : List Word) (st st' : ArgSt) (e : assignVecLoop d ts true st = .ok st') (hle : st.cnt ≤ n) :
    st'.cnt ≤ n ∧ st'.cnt + 1 = st.cnt + max 1 ts.length := by
  cases ts with
  | nil => simp only [assignVecLoop] at e; cases e; simp [hle]
  | cons t ts =>
    simp only [assignVecLoop, bind_eq_ok, countValue] at e
    obtain ⟨cnt, hc, _, _, v, _, e⟩ := e
    simp only [if_true] at hc
    cases hc
    obtain ⟨h3, h4⟩ := assignVecLoop_cnt_false d n hl _ _ _ e hle
    refine ⟨h3, ?_⟩
    rw [h4]; simp only [List.length_cons]; omega

/-- `assign` of a non-list destination does not touch the counter -/
theorem assignDest_cnt_scalar {d : ArgDef} {st st' : ArgSt} {v : Word} (hk : d.kind ≠ .vecInt)
    (e : assignDest d st v = .ok st') : st'.cnt = st.cnt := by
  unfold assignDest at e
  split at e
  · cases e; rfl
  · simp only [bind_eq_ok] at e; obtain ⟨_, _, _, _, e⟩ := e; cases e; rfl
  · simp only [bind_eq_ok] at e; obtain ⟨_, _, e⟩ := e; cases e; rfl
  · dsimp only at e
    split at e
    · simp only [bind_eq_ok] at e; obtain ⟨_, _, _, _, e⟩ := e; cases e; rfl
    · simp only [bind_eq_ok] at e; obtain ⟨_, _, _, _, _, _, e⟩ := e; cases e; rfl
  · rename_i hv; exact absurd hv hk

/-- the counter after `assign`: one value was counted by `assignValue` already, a list adds one per
    element after the first -/
theorem assignDest_cnt {d : ArgDef} {n : Int} (hl : d.card.limit = some n) {st st' : ArgSt} {u : Use}
    (e : assignDest d st u.val = .ok st') (hle : st.cnt ≤ n) :
    st'.cnt ≤ n ∧ st'.cnt + 1 = st.cnt + u.valueCount d := by
  by_cases hk : d.kind = .vecInt
  · unfold assignDest at e
    rw [hk] at e
    dsimp only at e
    have := assignVecLoop_cnt_true d n hl _ _ _ e hle
    unfold Use.valueCount
    rw [hk]
    exact this
  · have := assignDest_cnt_scalar hk e
    unfold Use.valueCount
    constructor
    · omega
    · cases hkk : d.kind <;> first | exact absurd hkk hk | (simp only; omega)

/-! ### values given -/

theorem valuesGiven_snoc (cfg : Cfg) (i : Nat) (us : List Use) (u : Use) :
    valuesGiven cfg i (us ++ [u]) = valuesGiven cfg i us +
      (if u.arg = i then (match cfg.args[i]? with | some d => u.valueCount d | none => 0) else 0) := by
  unfold valuesGiven
  by_cases h : u.arg = i
  · rw [if_pos h]
    cases cfg.args[i]? <;> simp [List.filter_append, h]
  · simp [List.filter_append, h]

/-! ### the invariant of the argument states -/

/-- what the per-argument state says about the uses so far -/
structure ArgInv (cfg : Cfg) (inits : List DVal) (h : HState) : Prop where
  /-- an argument not used yet is in its initial state -/
  fresh : ∀ (i : Nat) (d : ArgDef), cfg.args[i]? = some d → (∀ u ∈ h.uses, u.arg ≠ i) →
    ∃ v, inits[i]? = some v ∧ h.args[i]? = some { dest := v }
  /-- a cardinality object that counts has counted the values given, and never beyond its limit -/
  count : ∀ (i : Nat) (d : ArgDef) (n : Int), cfg.args[i]? = some d → d.card.limit = some n →
    ∃ st, h.args[i]? = some st ∧ st.cnt = valuesGiven cfg i h.uses ∧ (st.cnt = 0 ∨ st.cnt ≤ n)

theorem initState_args (cfg : Cfg) (inits : List DVal) (i : Nat) (d : ArgDef) (hi : cfg.args[i]? = some d)
    (hin : cfg.args.length ≤ inits.length) :
    ∃ v, inits[i]? = some v ∧ (cfg.initState inits).args[i]? = some { dest := v } := by
  have hlt : i < cfg.args.length := (List.getElem?_eq_some_iff.mp hi).1
  have hlt' : i < inits.length := by omega
  refine ⟨inits[i], by simp [hlt'], ?_⟩
  simp [Cfg.initState, List.getElem?_zip_eq_some, hi, hlt']

theorem argInv_init (cfg : Cfg) (inits : List DVal) (hin : cfg.args.length ≤ inits.length) :
    ArgInv cfg inits (cfg.initState inits) := by
  constructor
  · intro i d hi _
    exact initState_args cfg inits i d hi hin
  · intro i d n hi _
    obtain ⟨v, _, hv⟩ := initState_args cfg inits i d hi hin
    exact ⟨_, hv, by simp [valuesGiven, Cfg.initState], Or.inl rfl⟩

theorem getD_of_getElem? {l : List ArgSt} {i : Nat} {st : ArgSt} (h : l[i]? = some st) : l.getD i default = st := by
  simp [List.getD, h]

theorem argInv_step {cfg : Cfg} {inits : List DVal} {h : HState} {u : Use} {h' : HState}
    (f : Frame cfg h) (a : ArgInv cfg inits h) (e : applyUse cfg h u = .ok h') : ArgInv cfg inits h' := by
  obtain ⟨d, pend, cnt, st', s⟩ := applyUse_ok e
  constructor
  · intro i di hi hno
    have hne : u.arg ≠ i := hno u (by rw [s.uses']; simp)
    obtain ⟨v, hv, hst⟩ := a.fresh i di hi (fun w hw => hno w (by rw [s.uses']; simp [hw]))
    refine ⟨v, hv, ?_⟩
    rw [s.args', List.getElem?_set_ne hne]; exact hst
  · intro i di n hi hl
    obtain ⟨st, hst, hc, hle⟩ := a.count i di n hi hl
    by_cases hui : u.arg = i
    · have hdd : di = d := by have := s.arg; rw [hui, hi] at this; cases this; rfl
      subst hdd
      have hlt : i < h.args.length := by rw [f.argsLen]; exact (List.getElem?_eq_some_iff.mp hi).1
      refine ⟨st', ?_, ?_⟩
      · rw [s.args', hui]; simp [hlt]
      · have hcount := s.count
        have hassign := s.assign
        rw [hui, getD_of_getElem? hst] at hcount hassign
        rw [f.fromSrc] at hcount
        simp only [countValue, Bool.false_eq_true, if_false] at hcount
        obtain ⟨h1, h2⟩ := gotValue_ok_some hl hcount
        obtain ⟨h3, h4⟩ := assignDest_cnt hl hassign h2
        have h4' : st'.cnt + 1 = cnt + u.valueCount di := h4
        rw [s.uses', valuesGiven_snoc, if_pos hui, hi]
        dsimp only
        constructor
        · omega
        · right; exact h3
    · refine ⟨st, ?_, ?_, hle⟩
      · rw [s.args', List.getElem?_set_ne hui]; exact hst
      · rw [s.uses', valuesGiven_snoc, if_neg hui]; simpa using hc

/-! ### rule "values" -/

theorem assignVecLoop_valueOk (d : ArgDef) : ∀ (ts : List Word) (first : Bool) (st st' : ArgSt),
    assignVecLoop d ts first st = .ok st' →
    ∀ t ∈ ts, runChecks d.checks t = .ok () ∧ ∃ n, lexCastInt t = .ok n := by
  intro ts
  induction ts with
  | nil => intro _ _ _ _ t ht; cases ht
  | cons t ts ih =>
    intro first st st' e t' ht'
    simp only [assignVecLoop, bind_eq_ok] at e
    obtain ⟨cnt, _, _, hr, v, hv, e⟩ := e
    rcases List.mem_cons.mp ht' with rfl | hm
    · exact ⟨hr, v, hv⟩
    · exact ih _ _ _ e t' hm

/-- a value that `assign` accepted converts to the destination type and passes all checks -/
theorem assignDest_valueOk {d : ArgDef} {st st' : ArgSt} {v : Word} (e : assignDest d st v = .ok st') :
    ScalarValueOk d v := by
  unfold assignDest at e
  unfold ScalarValueOk
  split at e
  · rename_i hk; rw [hk]; trivial
  · rename_i hk; rw [hk]; simp only [bind_eq_ok] at e; obtain ⟨_, hr, n, hn, _⟩ := e; exact ⟨hr, n, hn⟩
  · rename_i hk; rw [hk]; simp only [bind_eq_ok] at e; obtain ⟨_, hr, _⟩ := e; exact hr
  · rename_i hk; rw [hk]; dsimp only at e ⊢
    split at e
    · rename_i hv; left; simpa using hv
    · simp only [bind_eq_ok] at e; obtain ⟨_, _, _, hr, n, hn, _⟩ := e; right; exact ⟨hr, n, hn⟩
  · rename_i hk; rw [hk]; exact assignVecLoop_valueOk d _ _ _ _ e

theorem values_step {cfg : Cfg} {h : HState} {u : Use} {h' : HState} (a : ObeysValues cfg h.uses)
    (e : applyUse cfg h u = .ok h') : ObeysValues cfg h'.uses := by
  obtain ⟨d, pend, cnt, st', s⟩ := applyUse_ok e
  intro w hw
  rw [s.uses'] at hw
  rcases List.mem_append.mp hw with hw | hw
  · exact a w hw
  · simp only [List.mem_singleton] at hw; subst hw
    exact ⟨d, s.arg, assignDest_valueOk s.assign⟩

/-! ### the final check -/

theorem checkMandatoryCardinality_ok : ∀ (ds : List ArgDef) (ss : List ArgSt),
    checkMandatoryCardinality ds ss = .ok () →
    ∀ (i : Nat) (d : ArgDef) (st : ArgSt), ds[i]? = some d → ss[i]? = some st →
      (d.mandatory && !st.hasValue d.kind) = false ∧ d.card.check st.cnt = .ok () := by
  intro ds
  induction ds with
  | nil => intro ss _ i d st hd; simp at hd
  | cons d0 ds ih =>
    intro ss e i d st hd hs
    cases ss with
    | nil => simp at hs
    | cons s0 ss =>
      simp only [checkMandatoryCardinality, bind_eq_ok, throwIf_eq_ok] at e
      obtain ⟨_, h1, _, h2, h3⟩ := e
      cases i with
      | zero =>
        simp only [List.getElem?_cons_zero, Option.some.injEq] at hd hs
        subst hd; subst hs; exact ⟨h1, h2⟩
      | succ i =>
        simp only [List.getElem?_cons_succ] at hd hs
        exact ih ss h3 i d st hd hs

/-- rule "mandatory", soundness -/
theorem mandatory_sound {cfg : Cfg} {inits : List DVal} {h : HState} (a : ArgInv cfg inits h)
    (e : checkMandatoryCardinality cfg.args h.args = .ok ()) : ObeysMandatory cfg inits h.uses := by
  intro i d hi hm
  by_cases hu : ∃ u ∈ h.uses, u.arg = i
  · exact Or.inl hu
  · right
    obtain ⟨v, hv, hst⟩ := a.fresh i d hi (fun u hu' hc => hu ⟨u, hu', hc⟩)
    have := (checkMandatoryCardinality_ok _ _ e i d _ hi hst).1
    rw [hm] at this
    simp only [Bool.true_and, Bool.not_eq_false'] at this
    unfold ArgSt.hasValue at this
    cases hk : d.kind <;> rw [hk] at this <;> simp at this
    cases v <;> simp at this
    rename_i l
    exact ⟨rfl, l, hv, by simpa using this⟩

theorem cardCheck_exact {n cnt : Int} (e : (Card.exact n).check cnt = .ok ()) : cnt ≤ 0 ∨ cnt = n := by
  simp only [Card.check] at e
  split at e
  · cases e
  · rename_i hc
    simp only [bne_iff_ne, ne_eq, not_and] at hc
    omega

theorem cardCheck_range {lo hi cnt : Int} (e : (Card.range lo hi).check cnt = .ok ()) : cnt = 0 ∨ lo ≤ cnt := by
  simp only [Card.check] at e
  split at e
  · cases e
  · rename_i hc
    simp only [bne_iff_ne, ne_eq, not_and] at hc
    omega

/-- rule "cardinality", soundness -/
theorem cardinality_sound {cfg : Cfg} {inits : List DVal} {h : HState} (hs : ∀ d ∈ cfg.args, d.card.Sane)
    (a : ArgInv cfg inits h) (e : checkMandatoryCardinality cfg.args h.args = .ok ()) :
    ObeysCardinality cfg h.uses := by
  intro i d hi
  have hsane := hs d (List.mem_of_getElem? hi)
  unfold Card.MetBy
  cases hc : d.card with
  | unlimited => trivial
  | max m =>
    dsimp only
    by_cases hm : m = -1
    · exact Or.inl hm
    · right
      obtain ⟨st, hst, h1, h2⟩ := a.count i d m hi (by rw [hc]; simp [Card.limit, hm])
      rw [hc] at hsane; unfold Card.Sane at hsane
      omega
  | exact m =>
    dsimp only
    obtain ⟨st, hst, h1, h2⟩ := a.count i d m hi (by rw [hc]; rfl)
    have := (checkMandatoryCardinality_ok _ _ e i d _ hi hst).2
    rw [hc] at this
    have := cardCheck_exact this
    omega
  | range lo hi' =>
    dsimp only
    by_cases hm : hi' = -1
    · exact Or.inl hm
    · right
      obtain ⟨st, hst, h1, h2⟩ := a.count i d hi' hi (by rw [hc]; simp [Card.limit, hm])
      have := (checkMandatoryCardinality_ok _ _ e i d _ hi hst).2
      rw [hc] at this
      have := cardCheck_range this
      rw [hc] at hsane; unfold Card.Sane at hsane
      omega

end CelmaVerif.ProgArgs
