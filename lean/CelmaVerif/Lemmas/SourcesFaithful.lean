import CelmaVerif.Lemmas.ParseEnd
import CelmaVerif.Lemmas.Sources
/-
  Parse faithfulness of the evaluation WITH sources: whatever `evalArguments` accepts, the lines of the
  argument file, the value of the environment variable and argv — each read as one line of the
  declarative grammar (`LineSpells` = `SP` from the handler state the line starts in), one after the
  other — spell exactly the uses the evaluation logged.  Nothing is assumed about the file: a reader
  that skipped a word or a line it could not evaluate would violate `sources_faithful`.
-/
namespace CelmaVerif.ProgArgs
open CelmaVerif CelmaVerif.Keys

/-- the lines of an argument file, read from the state (`l`, `inv`), spell the uses `us` and leave the
    state (`l'`, `inv'`): comment and empty lines spell nothing, every other line is split by
    `splitString` and read by the grammar of the command line (`LineSpells`: every line starts at its
    own first word — a first word `!`, `(`, `)` is a value, nothing is "behind `--`" — with the
    last-argument marker and the `!` flag the line before left) -/
inductive FileSpellsPlus (cfg : Cfg) : Option Nat → Bool → List Use → List Word → Option Nat → Bool → Prop where
  | nil (l : Option Nat) (inv : Bool) : FileSpellsPlus cfg l inv [] [] l inv
  | skip {l l' : Option Nat} {inv inv' : Bool} {us : List Use} {line : Word} {rest : List Word} :
      SkippedLine line → FileSpellsPlus cfg l inv us rest l' inv' → FileSpellsPlus cfg l inv us (line :: rest) l' inv'
  | line {l l1 l' : Option Nat} {inv inv1 inv' : Bool} {us1 us2 : List Use} {line : Word} {rest : List Word} :
      ¬ SkippedLine line → LineSpells cfg l inv us1 (ArgString.splitString line) l1 inv1 →
      FileSpellsPlus cfg l1 inv1 us2 rest l' inv' → FileSpellsPlus cfg l inv (us1 ++ us2) (line :: rest) l' inv'

/-- what the file source delivers (`none`: no file / flag off — nothing, state unchanged) -/
def FileSrcSpellsPlus (cfg : Cfg) (l : Option Nat) (inv : Bool) (us : List Use) (file : Option (List Word))
    (l' : Option Nat) (inv' : Bool) : Prop :=
  match file with
  | none => us = [] ∧ l' = l ∧ inv' = inv
  | some lines => FileSpellsPlus cfg l inv us lines l' inv'

/-- what the environment variable delivers -/
def EnvSrcSpellsPlus (cfg : Cfg) (l : Option Nat) (inv : Bool) (us : List Use) (env : Option Word)
    (l' : Option Nat) (inv' : Bool) : Prop :=
  match env with
  | none => us = [] ∧ l' = l ∧ inv' = inv
  | some e => LineSpells cfg l inv us (ArgString.splitString e) l' inv'

/-- the file loop: every accepted file spells what was logged -/
theorem readFileLines_faithful (cfg : Cfg) : ∀ (lines : List Word) (h hf : HState),
    readFileLines cfg lines h = .ok hf →
    ∃ us, FileSpellsPlus cfg h.lastArg h.inverted us lines hf.lastArg hf.inverted ∧ hf.uses = h.uses ++ us := by
  intro lines
  induction lines with
  | nil =>
    intro h hf e
    simp only [readFileLines] at e
    cases e
    exact ⟨[], .nil _ _, by simp⟩
  | cons line rest ih =>
    intro h hf e
    simp only [readFileLines] at e
    by_cases hsk : (line.isEmpty || line.head? == some '#') = true
    · rw [if_pos hsk] at e
      obtain ⟨us, hs, hu⟩ := ih h hf e
      exact ⟨us, .skip ((skipped_iff line).mp hsk) hs, hu⟩
    · rw [if_neg hsk] at e
      simp only [bind_eq_ok] at e
      obtain ⟨h1, e1, e2⟩ := e
      obtain ⟨us1, s1, u1⟩ := iterate_faithful cfg h h1 _ _ e1
      obtain ⟨us2, s2, u2⟩ := ih h1 hf e2
      refine ⟨us1 ++ us2, .line (fun c => hsk ((skipped_iff line).mpr c)) s1 s2, ?_⟩
      rw [u2, u1, List.append_assoc]

/-- **Parse faithfulness with sources.**  If `evalArguments` with an argument file and / or an
    environment value returns normally, then the file lines, the environment value and argv — read in
    this order, each line from the state the one before left — spell exactly the uses that were
    logged. -/
theorem sources_faithful (cfg : Cfg) (h0 hf : HState) (src : Sources) (prog : Word) (ws : List Word)
    (he : evalArguments cfg h0 src (prog :: ws) = .ok hf) :
    ∃ usF usE usA lF iF lE iE lA iA,
      FileSrcSpellsPlus cfg h0.lastArg h0.inverted usF src.file lF iF ∧
      EnvSrcSpellsPlus cfg lF iF usE src.env lE iE ∧
      LineSpells cfg lE iE usA ws lA iA ∧
      hf.uses = h0.uses ++ (usF ++ usE ++ usA) := by
  unfold evalArguments at he
  simp only [bind_eq_ok] at he
  obtain ⟨h1, e1, h2, e2, h3, e3, e4⟩ := he
  have hu4 := endChecks_uses e4
  obtain ⟨usA, sA, uA⟩ := iterate_faithful cfg h2 h3 prog ws e3
  -- the file
  have hF : ∃ usF, FileSrcSpellsPlus cfg h0.lastArg h0.inverted usF src.file h1.lastArg h1.inverted ∧
      h1.uses = h0.uses ++ usF := by
    unfold evalFileSource at e1
    cases hfile : src.file with
    | none =>
      rw [hfile] at e1
      simp only [Res.pure_eq, Res.ok.injEq] at e1
      subst e1
      exact ⟨[], ⟨rfl, rfl, rfl⟩, by simp⟩
    | some lines =>
      rw [hfile] at e1
      simp only [bind_eq_ok, Res.pure_eq, Res.ok.injEq] at e1
      obtain ⟨g, eg, e1⟩ := e1
      subst e1
      obtain ⟨us, s, u⟩ := readFileLines_faithful cfg lines _ g eg
      exact ⟨us, s, u⟩
  obtain ⟨usF, sF, uF⟩ := hF
  have hE : ∃ usE, EnvSrcSpellsPlus cfg h1.lastArg h1.inverted usE src.env h2.lastArg h2.inverted ∧
      h2.uses = h1.uses ++ usE := by
    unfold evalEnvSource at e2
    cases henv : src.env with
    | none =>
      rw [henv] at e2
      simp only [Res.pure_eq, Res.ok.injEq] at e2
      subst e2
      exact ⟨[], ⟨rfl, rfl, rfl⟩, by simp⟩
    | some e =>
      rw [henv] at e2
      simp only [bind_eq_ok, Res.pure_eq, Res.ok.injEq] at e2
      obtain ⟨g, eg, e2⟩ := e2
      subst e2
      obtain ⟨us, s, u⟩ := iterate_faithful cfg _ g _ _ eg
      exact ⟨us, s, u⟩
  obtain ⟨usE, sE, uE⟩ := hE
  refine ⟨usF, usE, usA, _, _, _, _, _, _, sF, sE, sA, ?_⟩
  rw [hu4, uA, uE, uF]
  simp [List.append_assoc]

/-! ### every non-skipped line of an accepted file is a line of the grammar -/

/-- a line inside a file that spells something is itself spelled, from some state -/
theorem FileSpellsPlus_line {cfg : Cfg} {l l' : Option Nat} {inv inv' : Bool} {us : List Use} {lines : List Word}
    (h : FileSpellsPlus cfg l inv us lines l' inv') :
    ∀ (preL postL : List Word) (line : Word), lines = preL ++ line :: postL → ¬ SkippedLine line →
      ∃ l0 i0 us0 l1 i1, LineSpells cfg l0 i0 us0 (ArgString.splitString line) l1 i1 := by
  induction h with
  | nil l inv => intro preL postL line e; cases preL <;> cases e
  | @skip l l' inv inv' us line0 rest hsk _ ih =>
    intro preL postL line e hns
    cases preL with
    | nil => simp only [List.nil_append, List.cons.injEq] at e; rw [e.1] at hsk; exact absurd hsk hns
    | cons a preL' =>
      simp only [List.cons_append, List.cons.injEq] at e
      exact ih preL' postL line e.2 hns
  | @line l l1 l' inv inv1 inv' us1 us2 line0 rest _ hl _ ih =>
    intro preL postL line e hns
    cases preL with
    | nil =>
      simp only [List.nil_append, List.cons.injEq] at e
      rw [e.1] at hl
      exact ⟨_, _, _, _, _, hl⟩
    | cons a preL' =>
      simp only [List.cons_append, List.cons.injEq] at e
      exact ih preL' postL line e.2 hns

/-- `line` is one of the lines of words the evaluation reads: argv (without the program name), the words
    of a line of the argument file that is not skipped, or the words of the environment value -/
def InputLine (src : Sources) (ws : List Word) (line : List Word) : Prop :=
  line = ws ∨
  (∃ lines fl, src.file = some lines ∧ fl ∈ lines ∧ ¬ SkippedLine fl ∧ line = ArgString.splitString fl) ∨
  (∃ e, src.env = some e ∧ line = ArgString.splitString e)

/-- **Every line of words an accepted evaluation read has a derivation in the grammar** (from the
    handler state the line started in) -/
theorem input_line_spelled (cfg : Cfg) (h0 hf : HState) (src : Sources) (prog : Word) (ws line : List Word)
    (he : evalArguments cfg h0 src (prog :: ws) = .ok hf) (hl : InputLine src ws line) :
    ∃ l inv us, SP cfg l inv (nextTok false (.bnd false true line)) us := by
  obtain ⟨usF, usE, usA, lF, iF, lE, iE, lA, iA, sF, sE, sA, _⟩ := sources_faithful cfg h0 hf src prog ws he
  rcases hl with rfl | ⟨lines, fl, hfile, hmem, hns, rfl⟩ | ⟨e, henv, rfl⟩
  · exact ⟨_, _, _, sA.toSP⟩
  · rw [hfile] at sF
    obtain ⟨preL, postL, hsplit⟩ := List.append_of_mem hmem
    obtain ⟨l0, i0, us0, l1, i1, hline⟩ := FileSpellsPlus_line sF preL postL fl hsplit hns
    exact ⟨_, _, _, hline.toSP⟩
  · rw [henv] at sE
    exact ⟨_, _, _, (show LineSpells cfg lF iF usE (ArgString.splitString e) lE iE from sE).toSP⟩

end CelmaVerif.ProgArgs
