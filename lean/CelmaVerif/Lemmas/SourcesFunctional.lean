import CelmaVerif.Lemmas.SourcesFaithful
import CelmaVerif.Lemmas.ParseRefuseWide
/-
  The grammar of the sources is a FUNCTION of what is read (audit3, section 1a.a).

  `SP_functional` / `SpellsPlus_functional` (Lemmas/ParseRefuseWide.lean) say that the elements of ONE
  line, read from a given state, determine the uses; the end state of the line is ignored there.  For a
  file the end state of a line is the start state of the next one, so functionality of the file
  grammar needs the end state as well: `SPE_functional` (cited in Lemmas/ParseEnd.lean), then
  `FileSpellsPlus_functional`, `FileSrcSpellsPlus_functional`, `EnvSrcSpellsPlus_functional` and the
  three in a row, `sources_functional`.
-/
namespace CelmaVerif.ProgArgs
open CelmaVerif CelmaVerif.Keys

/-- the elements of a line and the state it is read from determine the uses AND the state at its end -/
theorem SPE_functional {cfg : Cfg} {l l1 l2 : Option Nat} {inv i1 i2 : Bool} {r : TokRes} {us us' : List Use}
    (h : SPE cfg l inv r us l1 i1) (h' : SPE cfg l inv r us' l2 i2) : us = us' ∧ l1 = l2 ∧ i1 = i2 := by
  induction h generalizing us' l2 i2 with
  | done l inv => cases h'; exact ⟨rfl, rfl, rfl⟩
  | flag hk hr hm _ ih =>
    cases h' with
    | flag hk' hr' hm' s' =>
      obtain rfl := keyTok_fun hk hk'
      obtain ⟨rfl, rfl⟩ := resolves_fun hr hr'
      obtain ⟨a, b, c⟩ := ih s'
      exact ⟨by rw [a], b, c⟩
    | keyValue hk' hr' hm' hn' s' =>
      obtain rfl := keyTok_fun hk hk'
      obtain ⟨rfl, rfl⟩ := resolves_fun hr hr'
      exact absurd hm hm'
    | keyAlone hk' hr' hm' hn' s' =>
      obtain rfl := keyTok_fun hk hk'
      obtain ⟨rfl, rfl⟩ := resolves_fun hr hr'
      rw [hm] at hm'; cases hm'
    | free _ _ _ => exact hk.elim
    | positional _ _ _ => exact hk.elim
    | invert _ => exact hk.elim
  | keyValue hk hr hm hn _ ih =>
    cases h' with
    | flag hk' hr' hm' s' =>
      obtain rfl := keyTok_fun hk hk'
      obtain ⟨rfl, rfl⟩ := resolves_fun hr hr'
      exact absurd hm' hm
    | keyValue hk' hr' hm' hn' s' =>
      obtain rfl := keyTok_fun hk hk'
      obtain ⟨rfl, rfl⟩ := resolves_fun hr hr'
      rw [hn] at hn'
      cases hn'
      obtain ⟨a, b, c⟩ := ih s'
      exact ⟨by rw [a], b, c⟩
    | keyAlone hk' hr' hm' hn' s' =>
      obtain rfl := keyTok_fun hk hk'
      obtain ⟨rfl, rfl⟩ := resolves_fun hr hr'
      rw [hm'] at hn
      exact absurd hn (hn' _ _)
    | free _ _ _ => exact hk.elim
    | positional _ _ _ => exact hk.elim
    | invert _ => exact hk.elim
  | keyAlone hk hr hm hn _ ih =>
    cases h' with
    | flag hk' hr' hm' s' =>
      obtain rfl := keyTok_fun hk hk'
      obtain ⟨rfl, rfl⟩ := resolves_fun hr hr'
      rw [hm'] at hm; cases hm
    | keyValue hk' hr' hm' hn' s' =>
      obtain rfl := keyTok_fun hk hk'
      obtain ⟨rfl, rfl⟩ := resolves_fun hr hr'
      rw [hm] at hn'
      exact absurd hn' (hn _ _)
    | keyAlone hk' hr' hm' hn' s' =>
      obtain rfl := keyTok_fun hk hk'
      obtain ⟨rfl, rfl⟩ := resolves_fun hr hr'
      obtain ⟨a, b, c⟩ := ih s'
      exact ⟨by rw [a], b, c⟩
    | free _ _ _ => exact hk.elim
    | positional _ _ _ => exact hk.elim
    | invert _ => exact hk.elim
  | free ha hmul _ ih =>
    cases h' with
    | free ha' hmul' s' =>
      obtain ⟨a, b, c⟩ := ih s'
      exact ⟨by rw [a], b, c⟩
    | positional hno hr' s' =>
      have := hno _ _ rfl ha
      rw [this] at hmul; cases hmul
    | flag hk' _ _ _ => exact hk'.elim
    | keyValue hk' _ _ _ _ => exact hk'.elim
    | keyAlone hk' _ _ _ _ => exact hk'.elim
  | positional hno hr _ ih =>
    cases h' with
    | free ha' hmul' s' =>
      have := hno _ _ rfl ha'
      rw [this] at hmul'; cases hmul'
    | positional hno' hr' s' =>
      obtain ⟨rfl, rfl⟩ := resolves_fun hr hr'
      obtain ⟨a, b, c⟩ := ih s'
      exact ⟨by rw [a], b, c⟩
    | flag hk' _ _ _ => exact hk'.elim
    | keyValue hk' _ _ _ _ => exact hk'.elim
    | keyAlone hk' _ _ _ _ => exact hk'.elim
  | invert _ ih =>
    cases h' with
    | invert s' => exact ih s'
    | flag hk' _ _ _ => exact hk'.elim
    | keyValue hk' _ _ _ _ => exact hk'.elim
    | keyAlone hk' _ _ _ _ => exact hk'.elim

/-- one line of words, read from a given state: uses and end state are determined -/
theorem LineSpells_functional {cfg : Cfg} {l l1 l2 : Option Nat} {inv i1 i2 : Bool} {ws : List Word}
    {us us' : List Use} (h : LineSpells cfg l inv us ws l1 i1) (h' : LineSpells cfg l inv us' ws l2 i2) :
    us = us' ∧ l1 = l2 ∧ i1 = i2 := SPE_functional h h'

/-- the lines of a file and the state the file is read from determine the uses and the end state -/
theorem FileSpellsPlus_functional {cfg : Cfg} {l l1 l2 : Option Nat} {inv i1 i2 : Bool} {lines : List Word}
    {us us' : List Use} (h : FileSpellsPlus cfg l inv us lines l1 i1) (h' : FileSpellsPlus cfg l inv us' lines l2 i2) :
    us = us' ∧ l1 = l2 ∧ i1 = i2 := by
  induction h generalizing us' l2 i2 with
  | nil l inv => cases h'; exact ⟨rfl, rfl, rfl⟩
  | skip hsk _ ih =>
    cases h' with
    | skip _ s' => exact ih s'
    | line hns _ _ => exact absurd hsk hns
  | line hns hl _ ih =>
    cases h' with
    | skip hsk _ => exact absurd hsk hns
    | line _ hl' s' =>
      obtain ⟨a, b, c⟩ := LineSpells_functional hl hl'
      subst a b c
      obtain ⟨a, b, c⟩ := ih s'
      exact ⟨by rw [a], b, c⟩

theorem FileSrcSpellsPlus_functional {cfg : Cfg} {l l1 l2 : Option Nat} {inv i1 i2 : Bool}
    {file : Option (List Word)} {us us' : List Use}
    (h : FileSrcSpellsPlus cfg l inv us file l1 i1) (h' : FileSrcSpellsPlus cfg l inv us' file l2 i2) :
    us = us' ∧ l1 = l2 ∧ i1 = i2 := by
  cases file with
  | none =>
    obtain ⟨a, b, c⟩ := h
    obtain ⟨a', b', c'⟩ := h'
    exact ⟨a.trans a'.symm, b.trans b'.symm, c.trans c'.symm⟩
  | some lines => exact FileSpellsPlus_functional h h'

theorem EnvSrcSpellsPlus_functional {cfg : Cfg} {l l1 l2 : Option Nat} {inv i1 i2 : Bool}
    {env : Option Word} {us us' : List Use}
    (h : EnvSrcSpellsPlus cfg l inv us env l1 i1) (h' : EnvSrcSpellsPlus cfg l inv us' env l2 i2) :
    us = us' ∧ l1 = l2 ∧ i1 = i2 := by
  cases env with
  | none =>
    obtain ⟨a, b, c⟩ := h
    obtain ⟨a', b', c'⟩ := h'
    exact ⟨a.trans a'.symm, b.trans b'.symm, c.trans c'.symm⟩
  | some e => exact LineSpells_functional h h'

/-- **file, environment value and argv in a row**: the three use lists (and every intermediate state)
    are determined by the configuration, the start state and what is read -/
theorem sources_functional {cfg : Cfg} {l0 : Option Nat} {inv0 : Bool} {src : Sources} {ws : List Word}
    {usF usE usA usF' usE' usA' : List Use} {lF lE lA lF' lE' lA' : Option Nat} {iF iE iA iF' iE' iA' : Bool}
    (hF : FileSrcSpellsPlus cfg l0 inv0 usF src.file lF iF) (hE : EnvSrcSpellsPlus cfg lF iF usE src.env lE iE)
    (hA : LineSpells cfg lE iE usA ws lA iA)
    (hF' : FileSrcSpellsPlus cfg l0 inv0 usF' src.file lF' iF') (hE' : EnvSrcSpellsPlus cfg lF' iF' usE' src.env lE' iE')
    (hA' : LineSpells cfg lE' iE' usA' ws lA' iA') :
    usF = usF' ∧ usE = usE' ∧ usA = usA' ∧ lA = lA' ∧ iA = iA' := by
  obtain ⟨a, b, c⟩ := FileSrcSpellsPlus_functional hF hF'
  subst a b c
  obtain ⟨a, b, c⟩ := EnvSrcSpellsPlus_functional hE hE'
  subst a b c
  obtain ⟨a, b, c⟩ := LineSpells_functional hA hA'
  exact ⟨rfl, rfl, a, b, c⟩

end CelmaVerif.ProgArgs
