import CelmaVerif.Lemmas.ParseEval
import CelmaVerif.Lemmas.ParseSpells
import CelmaVerif.Lemmas.ParseRefuse
/-
  Small facts about `ResSame` (agreement of two evaluation results up to the pairing-layer fields
  `lastArg` / `inverted`) used by the property theorems that are stated over `SpellsPlus`.
-/
namespace CelmaVerif.ProgArgs
open CelmaVerif CelmaVerif.Keys

theorem ResSame.symm {a b : Res HState} (h : ResSame a b) : ResSame b a := by
  cases a <;> cases b <;> simp only [ResSame] at h ⊢
  · exact h.symm
  · exact h.symm

theorem ResSame.trans {a b c : Res HState} (h1 : ResSame a b) (h2 : ResSame b c) : ResSame a c := by
  cases a <;> cases b <;> cases c <;> simp only [ResSame] at h1 h2 ⊢
  · exact h1.trans h2
  · exact h1.trans h2

/-- if the abstract evaluation returns normally, so does the evaluation it agrees with -/
theorem ResSame.ok_right {a : Res HState} {g : HState} (h : ResSame a (.ok g)) : ∃ hf, a = .ok hf ∧ hf.Same g := by
  cases a with
  | ok x => exact ⟨x, rfl, h⟩
  | throw e => exact h.elim
  | oob w => exact h.elim

theorem ResSame.ok_left {b : Res HState} {hf : HState} (h : ResSame (.ok hf) b) : ∃ g, b = .ok g ∧ hf.Same g := by
  cases b with
  | ok x => exact ⟨x, rfl, h⟩
  | throw e => exact h.elim
  | oob w => exact h.elim

end CelmaVerif.ProgArgs
