import CelmaVerif.Lemmas.UsageListing
/-
  Lemmas for C18 (2): the whole usage text of the model parses to the expected listing
  (`parse_usage_text`); the words of description + notes; the caption lines.
-/
namespace CelmaVerif.Usage
open CelmaVerif.TextBlock

/-! ### words of description and notes -/

def NlStart (s : Str) : Prop := s = [] ∨ ∃ t, s = '\n' :: t

theorem NlStart.append {a b : Str} (ha : NlStart a) (hb : NlStart b) : NlStart (a ++ b) := by
  rcases ha with rfl | ⟨t, rfl⟩
  · simpa using hb
  · exact Or.inr ⟨t ++ b, rfl⟩

theorem noteText_nlStart (a : Arg) : NlStart (noteText a) := by
  unfold noteText
  refine NlStart.append (NlStart.append (NlStart.append (NlStart.append ?_ ?_) ?_) ?_) ?_
  · unfold defaultNote; split
    · exact Or.inr ⟨_, rfl⟩
    · exact Or.inl rfl
  · unfold checkNote; split
    · exact Or.inr ⟨_, rfl⟩
    · exact Or.inl rfl
  · unfold constraintNote; split
    · exact Or.inr ⟨_, rfl⟩
    · exact Or.inl rfl
  · unfold deprecatedNote; split
    · split
      · exact Or.inr ⟨_, rfl⟩
      · exact Or.inr ⟨_, rfl⟩
    · exact Or.inl rfl
  · unfold hiddenNote; split
    · exact Or.inr ⟨_, rfl⟩
    · exact Or.inl rfl

theorem words_append_nlStart (d n : Str) (hn : NlStart n) : words (d ++ n) = words d ++ words n := by
  rcases hn with rfl | ⟨t, rfl⟩
  · simp [words_nil]
  · unfold words
    rw [tokP_append_sep d (by rfl : isSep '\n' = true), tokP_cons_sep (by rfl : isSep '\n' = true)]

theorem descPure_words (a : Arg) :
    (words (descPure a)).filter (fun w => decide (w ≠ nn)) = entryWords a := by
  unfold descPure entryWords
  rw [words_append_nlStart _ _ (noteText_nlStart a), List.filter_append]

/-! ### blocks -/

theorem keyline_not_cont (u : UsageParams) (a : Arg) (hk : KeyClean a.key) (s : Str) :
    classify (' ' :: ' ' :: ' ' :: (shownKey u a ++ s)) ≠ .cont := by
  have hne : shownKey u a ++ s ≠ [] := by simp [shownKey_ne_nil u a]
  rw [classify_ind _ hne]
  have hh : (shownKey u a ++ s).head? ≠ some ' ' := by
    have h1 := shownKey_ne_nil u a
    have h2 := shownKey_clean u a hk
    cases hsk : shownKey u a with
    | nil => exact absurd hsk h1
    | cons c k => rw [hsk] at h2; simpa using h2 c (List.mem_cons_self ..)
  rw [if_neg hh]
  simp

theorem noContHead_blocks (u : UsageParams) (ll : Nat) (sl : Bool) (ml : Nat) (vs : List Arg)
    (hk : ∀ a ∈ vs, KeyClean a.key) (b : List Str) (hb : NoContHead b) :
    NoContHead (vs.flatMap (entryPure u ll sl ml) ++ b) := by
  cases vs with
  | nil => simpa using hb
  | cons a vs =>
    obtain ⟨s, cs, he, _, _, _⟩ := entryPure_shape u ll sl ml a
    intro l hl
    rw [List.flatMap_cons, he] at hl
    simp at hl
    subst hl
    exact keyline_not_cont u a (hk a (List.mem_cons_self ..)) s

theorem parse_blocks (u : UsageParams) (ll : Nat) (sl : Bool) (ml : Nat) (sec : Option Bool) (vs : List Arg)
    (hk : ∀ a ∈ vs, KeyClean a.key) (b : List Str) (hb : NoContHead b) :
    parseFrom sec (vs.flatMap (entryPure u ll sl ml) ++ b)
      = vs.map (fun a => ⟨sec, shownKey u a, entryWords a⟩) ++ parseFrom sec b := by
  induction vs with
  | nil => simp
  | cons a vs ih =>
    obtain ⟨s, cs, he, hs, hcs, hw⟩ := entryPure_shape u ll sl ml a
    have hka := hk a (List.mem_cons_self ..)
    have hkr : ∀ x ∈ vs, KeyClean x.key := fun x hx => hk x (List.mem_cons_of_mem _ hx)
    rw [List.flatMap_cons, he, List.append_assoc,
      parseFrom_block sec (shownKey u a) s cs _ (shownKey_ne_nil u a) (shownKey_clean u a hka) hs hcs
        (noContHead_blocks u ll sl ml vs hkr b hb),
      ih hkr, hw, descPure_words]
    simp


/-! ### the whole text -/

theorem contents_beq :
    (Contents.all == Contents.all) = true ∧ (Contents.all == Contents.shortOnly) = false
    ∧ (Contents.all == Contents.longOnly) = false ∧ (Contents.shortOnly == Contents.all) = false
    ∧ (Contents.shortOnly == Contents.shortOnly) = true ∧ (Contents.shortOnly == Contents.longOnly) = false
    ∧ (Contents.longOnly == Contents.all) = false ∧ (Contents.longOnly == Contents.shortOnly) = false
    ∧ (Contents.longOnly == Contents.longOnly) = true := by decide

theorem doPrint_true (u : UsageParams) (a : Arg) : doPrint u true a = (a.mandatory && visible u a) := by
  obtain ⟨_, h2, h3, h4, _, h6, h7, h8, _⟩ := contents_beq
  unfold doPrint visible Key.hasChar Key.hasWord
  cases a.mandatory <;> cases u.contents <;> simp [h2, h3, h4, h6, h7, h8]

theorem doPrint_false (u : UsageParams) (a : Arg) : doPrint u false a = (!a.mandatory && visible u a) := by
  obtain ⟨_, h2, h3, h4, _, h6, h7, h8, _⟩ := contents_beq
  unfold doPrint visible Key.hasChar Key.hasWord
  cases a.mandatory <;> cases u.contents <;> simp [h2, h3, h4, h6, h7, h8]

theorem parseFrom_single_nil (sec : Option Bool) : parseFrom sec [[]] = [] := by
  rw [parseFrom_skip _ _ _ (Or.inr classify_nil)]; rfl

theorem noContHead_single_nil : NoContHead [[]] := by
  intro l hl; simp at hl; subst hl; rw [classify_nil]; simp

/-- the optional pass followed by the empty line that ends the usage -/
theorem parse_optional (u : UsageParams) (ll : Nat) (sl : Bool) (ml n : Nat) (sec : Option Bool) (vs : List Arg)
    (hk : ∀ a ∈ vs, KeyClean a.key) :
    parseFrom sec (((if vs ≠ [] then captionLines false n else []) ++ vs.flatMap (entryPure u ll sl ml)) ++ [[]])
      = vs.map (fun a => ⟨some false, shownKey u a, entryWords a⟩) := by
  by_cases hv : vs = []
  · subst hv; simp [parseFrom_single_nil]
  · rw [if_pos hv]
    have key : parseFrom sec ((captionOptional :: vs.flatMap (entryPure u ll sl ml)) ++ [[]])
        = vs.map (fun a => ⟨some false, shownKey u a, entryWords a⟩) := by
      rw [List.cons_append, parseFrom, classify_capO]
      simp only
      rw [parse_blocks u ll sl ml (some false) vs hk [[]] noContHead_single_nil, parseFrom_single_nil]
      simp
    unfold captionLines
    simp only [Bool.false_eq_true, if_false]
    by_cases hn : n > 0
    · rw [if_pos hn]
      simp only [List.cons_append, List.nil_append]
      rw [parseFrom_skip _ _ _ (Or.inr classify_nil)]
      simpa using key
    · rw [if_neg hn]
      simpa using key

theorem noContHead_optional (u : UsageParams) (ll : Nat) (sl : Bool) (ml n : Nat) (vs : List Arg) :
    NoContHead (((if vs ≠ [] then captionLines false n else []) ++ vs.flatMap (entryPure u ll sl ml)) ++ [[]]) := by
  by_cases hv : vs = []
  · subst hv; simpa using noContHead_single_nil
  · rw [if_pos hv]
    unfold captionLines
    intro l hl
    by_cases hn : n > 0
    · simp [hn] at hl; subst hl; rw [classify_nil]; simp
    · simp [hn] at hl; subst hl; rw [classify_capO]; simp

/-- reading the model's usage text back gives exactly the expected listing -/
theorem parse_usage_text (u : UsageParams) (ll : Nat) (sl : Bool) (ml : Nat) (args : List Arg)
    (hk : ∀ a ∈ args, KeyClean a.key) :
    parseUsage ("Usage:".toList ::
        (((if args.filter (doPrint u true) ≠ [] then captionLines true 0 else [])
            ++ (args.filter (doPrint u true)).flatMap (entryPure u ll sl ml))
         ++ ((if args.filter (doPrint u false) ≠ [] then captionLines false (args.filter (doPrint u true)).length else [])
            ++ (args.filter (doPrint u false)).flatMap (entryPure u ll sl ml))) ++ [[]])
      = expectedListing u args := by
  have hkM : ∀ a ∈ args.filter (doPrint u true), KeyClean a.key := fun a ha => hk a (List.mem_filter.mp ha).1
  have hkO : ∀ a ∈ args.filter (doPrint u false), KeyClean a.key := fun a ha => hk a (List.mem_filter.mp ha).1
  unfold parseUsage
  rw [List.cons_append, parseFrom_skip _ _ _ (Or.inr classify_usage), List.append_assoc]
  have hO := fun sec => parse_optional u ll sl ml (args.filter (doPrint u true)).length sec _ hkO
  have hNO := noContHead_optional u ll sl ml (args.filter (doPrint u true)).length (args.filter (doPrint u false))
  have hM : ∀ a ∈ args.filter (doPrint u true), a.mandatory = true := by
    intro a ha
    have := (List.mem_filter.mp ha).2
    rw [doPrint_true] at this
    simp at this
    exact this.1
  have hOm : ∀ a ∈ args.filter (doPrint u false), a.mandatory = false := by
    intro a ha
    have := (List.mem_filter.mp ha).2
    rw [doPrint_false] at this
    simp at this
    exact this.1
  have e1 : (args.filter fun a => a.mandatory && visible u a) = args.filter (doPrint u true) := by
    congr 1; funext a; rw [doPrint_true]
  have e2 : (args.filter fun a => !a.mandatory && visible u a) = args.filter (doPrint u false) := by
    congr 1; funext a; rw [doPrint_false]
  unfold expectedListing
  rw [e1, e2, List.map_append]
  have m1 : (args.filter (doPrint u true)).map (expectedEntry u)
      = (args.filter (doPrint u true)).map (fun a => ⟨some true, shownKey u a, entryWords a⟩) :=
    List.map_congr_left (fun a ha => by unfold expectedEntry; rw [hM a ha])
  have m2 : (args.filter (doPrint u false)).map (expectedEntry u)
      = (args.filter (doPrint u false)).map (fun a => ⟨some false, shownKey u a, entryWords a⟩) :=
    List.map_congr_left (fun a ha => by unfold expectedEntry; rw [hOm a ha])
  rw [m1, m2]
  by_cases hv : args.filter (doPrint u true) = []
  · rw [hv]
    simp only [ne_eq, not_true_eq_false, if_false, List.flatMap_nil, List.append_nil, List.nil_append, List.map_nil]
    rw [hv] at hO
    exact hO none
  · rw [if_pos hv, show captionLines true 0 = [captionMandatory] from rfl]
    simp only [List.cons_append, List.nil_append]
    rw [parseFrom, classify_capM]
    simp only
    rw [parse_blocks u ll sl ml (some true) _ hkM _ hNO, hO]

end CelmaVerif.Usage
