import CelmaVerif.Lemmas.Int2StrCallers
/-
  Generic lemmas for the integer-to-string model (C13), part 3: the signed entry points
  (negative / zero / positive dispatch), the overload tables, and the link between the
  specification text and core's `toString`.
-/
namespace CelmaVerif.Int2Str
open CelmaVerif CelmaVerif.Digits

/-! ### dispatch -/

def classOf (v : Int) : SignClass := if v < 0 then .negative else if v = 0 then .zero else .positive

theorem holds_class (c : Cond) (v : Int) : c.holds v = c.holds (classOf v).rep := by
  unfold classOf
  by_cases h1 : v < 0
  · rw [if_pos h1]
    cases c <;> simp [Cond.holds, SignClass.rep] <;> omega
  · rw [if_neg h1]
    by_cases h2 : v = 0
    · rw [if_pos h2]
      cases c <;> simp [Cond.holds, SignClass.rep, h2]
    · rw [if_neg h2]
      cases c <;> simp [Cond.holds, SignClass.rep] <;> omega

theorem pick_class (bs : List (Cond × Target)) (v : Int) : pick bs v = pick bs (classOf v).rep := by
  unfold pick
  have : (fun b : Cond × Target => b.1.holds v) = (fun b => b.1.holds (classOf v).rep) := by
    funext b; exact holds_class b.1 v
  rw [this]

theorem pick_ok (bs : List (Cond × Target)) (h : branchesOk bs = true) (v : Int) :
    ∃ t, pick bs v = some t ∧ targetOk (classOf v) t = true := by
  rw [pick_class]
  simp only [branchesOk, List.all_cons, List.all_nil, Bool.and_true, Bool.and_eq_true] at h
  obtain ⟨h1, h2, h3⟩ := h
  cases hc : classOf v with
  | negative =>
    cases hp : pick bs SignClass.negative.rep with
    | none => rw [hp] at h1; cases h1
    | some t => rw [hp] at h1; exact ⟨t, rfl, h1⟩
  | zero =>
    cases hp : pick bs SignClass.zero.rep with
    | none => rw [hp] at h2; cases h2
    | some t => rw [hp] at h2; exact ⟨t, rfl, h2⟩
  | positive =>
    cases hp : pick bs SignClass.positive.rep with
    | none => rw [hp] at h3; cases h3
    | some t => rw [hp] at h3; exact ⟨t, rfl, h3⟩

theorem body_zero (grouped : Bool) (g : Byte) : body grouped g 0 = [48] := by
  unfold body digitBytes
  rw [Nat.toDigits_zero]
  cases grouped <;> rfl

/-- all checks of one `.cpp`/`.hpp` pair -/
structure FileOk (f : FileSpec) (d : Dispatch) : Prop where
  tree : f.treeOk = true
  rows : f.rowsOk = true
  uns : f.unsignedOk = true
  negc : f.negCallersOk = true
  negn : f.negationOk = true
  disp : dispatchOk f d = true

theorem FileOk.bits_pos {f : FileSpec} {d : Dispatch} (h : FileOk f d) : 1 ≤ f.bits := by
  have := h.negn
  simp only [FileSpec.negationOk, negOk, Bool.and_eq_true, decide_eq_true_eq] at this
  exact this.1.1.1.1.1.1

theorem pos_in_range (b : Nat) (hb : 1 ≤ b) (v : Int) (h0 : 0 ≤ v) (hhi : v < two (b - 1)) :
    v.toNat < 2 ^ b ∧ ((v.toNat : Nat) : Int) = v ∧ v.natAbs = v.toNat := by
  have := pow_pred_lt b hb
  unfold two at hhi
  omega

/-- `intNtoString( value)` — every value of the signed type, the minimum included -/
theorem runSignedStr_ok (f : FileSpec) (d : Dispatch) (h : FileOk f d) (g : Byte) (v : Int)
    (hlo : -(two (f.bits - 1)) ≤ v) (hhi : v < two (f.bits - 1)) :
    runSignedStr f d g v = .ok (specText f.grouped g v) := by
  have hd := h.disp
  simp only [dispatchOk, Bool.and_eq_true] at hd
  obtain ⟨t, hp, ht⟩ := pick_ok d.str hd.1.2 v
  unfold runSignedStr specText
  rw [hp]
  unfold classOf at ht
  by_cases h1 : v < 0
  · rw [if_pos h1] at ht
    rw [if_pos h1]
    cases t <;> simp only [targetOk, Bool.false_eq_true] at ht
    exact runStr_neg f h.tree h.rows h.negc h.negn g v hlo h1
  · rw [if_neg h1] at ht
    rw [if_neg h1, List.nil_append]
    obtain ⟨hx, hcast, habs⟩ := pos_in_range f.bits h.bits_pos v (by omega) hhi
    have hun := runStr_unsigned f h.tree h.rows h.uns g v.toNat hx
    rw [hcast] at hun
    by_cases h2 : v = 0
    · rw [if_pos h2] at ht
      cases t with
      | neg => simp only [targetOk, Bool.false_eq_true] at ht
      | unsigned => simp only; rw [hun, habs]
      | lit text r =>
        simp only [targetOk, Bool.and_eq_true, beq_iff_eq] at ht
        simp only
        rw [ht.1, h2]
        exact congrArg Res.ok (body_zero f.grouped g).symm
    · rw [if_neg h2] at ht
      cases t <;> simp only [targetOk, Bool.false_eq_true] at ht
      simp only; rw [hun, habs]

theorem length_specText_neg (grouped : Bool) (g : Byte) (v : Int) (h : v < 0) :
    (specText grouped g v).length = (body grouped g v.natAbs).length + 1 := by
  unfold specText; rw [if_pos h]; simp

/-- `intNtoString( buffer, value)`: text and NUL at the front, nothing else touched, length returned -/
theorem runSignedBuf_ok (f : FileSpec) (d : Dispatch) (h : FileOk f d) (g : Byte) (v : Int)
    (hlo : -(two (f.bits - 1)) ≤ v) (hhi : v < two (f.bits - 1)) (buf : List Byte)
    (hcap : (specText f.grouped g v).length + 1 ≤ buf.length) :
    runSignedBuf f d g v buf =
      .ok (specText f.grouped g v ++ [0] ++ buf.drop ((specText f.grouped g v).length + 1),
           ((specText f.grouped g v).length : Int)) := by
  have hd := h.disp
  simp only [dispatchOk, Bool.and_eq_true] at hd
  obtain ⟨t, hp, ht⟩ := pick_ok d.buf hd.2 v
  unfold runSignedBuf
  rw [hp]
  unfold classOf at ht
  by_cases h1 : v < 0
  · rw [if_pos h1] at ht
    rw [length_specText_neg _ _ _ h1] at hcap ⊢
    cases t <;> simp only [targetOk, Bool.false_eq_true] at ht
    have := runBuf_neg f h.tree h.rows h.negc h.negn g v hlo h1 buf (by omega)
    simp only [this]
    unfold specText
    rw [if_pos h1]
    simp
  · rw [if_neg h1] at ht
    obtain ⟨hx, hcast, habs⟩ := pos_in_range f.bits h.bits_pos v (by omega) hhi
    have hspec : specText f.grouped g v = body f.grouped g v.toNat := by
      unfold specText; rw [if_neg h1, habs]; simp
    rw [hspec] at hcap ⊢
    have hun := runBuf_unsigned f h.tree h.rows h.uns g v.toNat hx buf hcap
    rw [hcast] at hun
    by_cases h2 : v = 0
    · rw [if_pos h2] at ht
      cases t with
      | neg => simp only [targetOk, Bool.false_eq_true] at ht
      | unsigned => simp only; rw [hun]
      | lit text r =>
        simp only [targetOk, Bool.and_eq_true, beq_iff_eq] at ht
        obtain ⟨ht1, ht2⟩ := ht
        subst ht1 ht2
        have hz : v.toNat = 0 := by omega
        rw [hz, body_zero] at hcap ⊢
        simp only [List.length_cons, List.length_nil] at hcap
        simp only
        rw [Mem.write_ok (by simpa using hcap)]
        simp
    · rw [if_neg h2] at ht
      cases t <;> simp only [targetOk, Bool.false_eq_true] at ht
      simp only; rw [hun]

/-! ### the overload sets -/

theorem wrapS_id (b : Nat) (hb : 1 ≤ b) (v : Int) (hlo : -(two (b - 1)) ≤ v) (hhi : v < two (b - 1)) :
    wrapS b v = v := by
  have hp := pow_pred_lt b hb
  have h2 : two b = two (b - 1) + two (b - 1) := by
    unfold two
    have : 2 ^ b = 2 ^ (b - 1) + 2 ^ (b - 1) := by
      have : b = (b - 1) + 1 := by omega
      rw [this, Nat.pow_succ]; simp; omega
    rw [this]; simp
  have h0 := two_pos (b - 1)
  unfold wrapS
  by_cases hv : 0 ≤ v
  · have : v.emod (two b) = v := by
      show v % two b = v
      exact Int.emod_eq_of_lt hv (by omega)
    simp only [this]
    rw [if_pos hhi]
  · have : v.emod (two b) = v + two b := by
      show v % two b = v + two b
      rw [← Int.add_emod_right v (two b)]
      exact Int.emod_eq_of_lt (by omega) (by omega)
    simp only [this]
    rw [if_neg (by omega)]
    omega

/-- the string overload for a signed `T` of `bits` bits -/
theorem Lib.str_signed (L : Lib) (grouped : Bool) (bits : Nat) (f : FileSpec) (d : Dispatch)
    (hapi : apiOk (L.api grouped) = true) (hb : bits = 8 ∨ bits = 16 ∨ bits = 32 ∨ bits = 64)
    (hfile : L.file grouped bits = some (f, d)) (hfb : f.bits = bits) (hfg : f.grouped = grouped)
    (h : FileOk f d) (g : Byte) (v : Int) (hlo : -(two (bits - 1)) ≤ v) (hhi : v < two (bits - 1)) :
    L.str grouped bits true g v = .ok (specText grouped g v) := by
  have hl : apiLookup (L.api grouped) (bits / 8) true = some ⟨bits / 8, true, bits, true⟩ := by
    simp only [apiOk, List.all_cons, List.all_nil, Bool.and_true, Bool.and_eq_true, beq_iff_eq] at hapi
    rcases hb with rfl | rfl | rfl | rfl
    · exact hapi.1.1
    · exact hapi.2.1.1
    · exact hapi.2.2.1.1
    · exact hapi.2.2.2.1
  have hdp : d.paramBits = bits := by
    have := h.disp
    simp only [dispatchOk, Bool.and_eq_true, beq_iff_eq] at this
    rw [this.1.1, hfb]
  unfold Lib.str
  simp only [hl, hfile, if_true, hdp]
  rw [wrapS_id bits (by omega) v hlo hhi, ← hfg]
  exact runSignedStr_ok f d h g v (by rw [hfb]; exact hlo) (by rw [hfb]; exact hhi)

theorem Lib.str_unsigned (L : Lib) (grouped : Bool) (bits : Nat) (f : FileSpec) (d : Dispatch)
    (hapi : apiOk (L.api grouped) = true) (hb : bits = 8 ∨ bits = 16 ∨ bits = 32 ∨ bits = 64)
    (hfile : L.file grouped bits = some (f, d)) (hfb : f.bits = bits) (hfg : f.grouped = grouped)
    (h : FileOk f d) (g : Byte) (x : Nat) (hx : x < 2 ^ bits) :
    L.str grouped bits false g (x : Int) = .ok (specText grouped g (x : Int)) := by
  have hl : apiLookup (L.api grouped) (bits / 8) false = some ⟨bits / 8, false, bits, false⟩ := by
    simp only [apiOk, List.all_cons, List.all_nil, Bool.and_true, Bool.and_eq_true, beq_iff_eq] at hapi
    rcases hb with rfl | rfl | rfl | rfl
    · exact hapi.1.2
    · exact hapi.2.1.2
    · exact hapi.2.2.1.2
    · exact hapi.2.2.2.2
  unfold Lib.str
  simp only [hl, hfile, Bool.false_eq_true, if_false]
  rw [runStr_unsigned f h.tree h.rows h.uns g x (by rw [hfb]; exact hx), hfg]
  unfold specText
  simp

theorem Lib.buf_signed (L : Lib) (grouped : Bool) (bits : Nat) (f : FileSpec) (d : Dispatch)
    (hapi : apiOk (L.api grouped) = true) (hb : bits = 8 ∨ bits = 16 ∨ bits = 32 ∨ bits = 64)
    (hfile : L.file grouped bits = some (f, d)) (hfb : f.bits = bits) (hfg : f.grouped = grouped)
    (h : FileOk f d) (g : Byte) (v : Int) (hlo : -(two (bits - 1)) ≤ v) (hhi : v < two (bits - 1))
    (buf : List Byte) (hcap : (specText grouped g v).length + 1 ≤ buf.length) :
    L.buf grouped bits true g v buf =
      .ok (specText grouped g v ++ [0] ++ buf.drop ((specText grouped g v).length + 1),
           ((specText grouped g v).length : Int)) := by
  have hl : apiLookup (L.api grouped) (bits / 8) true = some ⟨bits / 8, true, bits, true⟩ := by
    simp only [apiOk, List.all_cons, List.all_nil, Bool.and_true, Bool.and_eq_true, beq_iff_eq] at hapi
    rcases hb with rfl | rfl | rfl | rfl
    · exact hapi.1.1
    · exact hapi.2.1.1
    · exact hapi.2.2.1.1
    · exact hapi.2.2.2.1
  have hdp : d.paramBits = bits := by
    have := h.disp
    simp only [dispatchOk, Bool.and_eq_true, beq_iff_eq] at this
    rw [this.1.1, hfb]
  unfold Lib.buf
  simp only [hl, hfile, if_true, hdp]
  rw [wrapS_id bits (by omega) v hlo hhi, ← hfg] at *
  exact runSignedBuf_ok f d h g v (by rw [hfb]; exact hlo) (by rw [hfb]; exact hhi) buf hcap

theorem Lib.buf_unsigned (L : Lib) (grouped : Bool) (bits : Nat) (f : FileSpec) (d : Dispatch)
    (hapi : apiOk (L.api grouped) = true) (hb : bits = 8 ∨ bits = 16 ∨ bits = 32 ∨ bits = 64)
    (hfile : L.file grouped bits = some (f, d)) (hfb : f.bits = bits) (hfg : f.grouped = grouped)
    (h : FileOk f d) (g : Byte) (x : Nat) (hx : x < 2 ^ bits)
    (buf : List Byte) (hcap : (specText grouped g (x : Int)).length + 1 ≤ buf.length) :
    L.buf grouped bits false g (x : Int) buf =
      .ok (specText grouped g (x : Int) ++ [0] ++ buf.drop ((specText grouped g (x : Int)).length + 1),
           ((specText grouped g (x : Int)).length : Int)) := by
  have hl : apiLookup (L.api grouped) (bits / 8) false = some ⟨bits / 8, false, bits, false⟩ := by
    simp only [apiOk, List.all_cons, List.all_nil, Bool.and_true, Bool.and_eq_true, beq_iff_eq] at hapi
    rcases hb with rfl | rfl | rfl | rfl
    · exact hapi.1.2
    · exact hapi.2.1.2
    · exact hapi.2.2.1.2
    · exact hapi.2.2.2.2
  have hspec : specText grouped g (x : Int) = body f.grouped g x := by
    unfold specText; rw [hfg]; simp
  unfold Lib.buf
  simp only [hl, hfile, Bool.false_eq_true, if_false]
  rw [hspec] at hcap ⊢
  exact runBuf_unsigned f h.tree h.rows h.uns g x (by rw [hfb]; exact hx) buf hcap

/-! ### the specification text is core's `toString` -/

/-- bytes of a string (all texts here are ASCII) -/
def bytesOf (s : String) : List Byte := s.toList.map Char.toNat

/-- text of a byte list (inverse of `bytesOf` on strings) -/
def textOf (bs : List Byte) : String := String.ofList (bs.map Char.ofNat)

theorem specText_plain (g : Byte) (v : Int) : specText false g v = bytesOf (toString v) := by
  unfold specText body bytesOf digitBytes
  rw [Int.toString_eq_repr, Int.repr_eq_if]
  by_cases h : 0 ≤ v
  · rw [if_pos h, if_neg (by omega)]
    have : v.natAbs = v.toNat := by omega
    simp [this]
  · rw [if_neg h, if_pos (by omega)]
    have : v.natAbs = (-v).toNat := by omega
    simp [this]

end CelmaVerif.Int2Str
