import CelmaVerif.Lemmas.GroupsCross
import CelmaVerif.Model.ProgArgs.SubGroups
/- the definition-time cross check between two members, over both containers of each -/
namespace CelmaVerif.ProgArgs
open CelmaVerif CelmaVerif.Keys

/-- `Handler::crossCheckArguments` (the four `checkArgMix` calls): returns iff no key of the handler
    — plain or sub-group — clashes with a key of the other handler — plain or sub-group —, otherwise
    `std::invalid_argument` -/
theorem crossCheckHandlers_cases (op os tp ts : List Key) :
    (crossCheckHandlers op os tp ts = .ok () ∧ ∀ a ∈ op ++ os, ∀ o ∈ tp ++ ts, ¬ a.Clash o) ∨
    (crossCheckHandlers op os tp ts = .throw .invalid_argument ∧ ∃ a ∈ op ++ os, ∃ o ∈ tp ++ ts, a.Clash o) := by
  unfold crossCheckHandlers
  rcases checkArgMix_cases op tp with ⟨e1, h1⟩ | ⟨e1, a, ha, o, ho, hc⟩
  · rw [e1]; simp only [Res.bind_ok]
    rcases checkArgMix_cases op ts with ⟨e2, h2⟩ | ⟨e2, a, ha, o, ho, hc⟩
    · rw [e2]; simp only [Res.bind_ok]
      rcases checkArgMix_cases os tp with ⟨e3, h3⟩ | ⟨e3, a, ha, o, ho, hc⟩
      · rw [e3]; simp only [Res.bind_ok]
        rcases checkArgMix_cases os ts with ⟨e4, h4⟩ | ⟨e4, a, ha, o, ho, hc⟩
        · refine Or.inl ⟨e4, ?_⟩
          intro a ha o ho
          rcases List.mem_append.mp ha with ha | ha <;> rcases List.mem_append.mp ho with ho | ho
          · exact h1 a ha o ho
          · exact h2 a ha o ho
          · exact h3 a ha o ho
          · exact h4 a ha o ho
        · exact Or.inr ⟨e4, a, List.mem_append_right _ ha, o, List.mem_append_right _ ho, hc⟩
      · rw [e3]; exact Or.inr ⟨rfl, a, List.mem_append_right _ ha, o, List.mem_append_left _ ho, hc⟩
    · rw [e2]; exact Or.inr ⟨rfl, a, List.mem_append_left _ ha, o, List.mem_append_right _ ho, hc⟩
  · rw [e1]; exact Or.inr ⟨rfl, a, List.mem_append_left _ ha, o, List.mem_append_left _ ho, hc⟩

end CelmaVerif.ProgArgs
