import CelmaVerif.Model.ProgArgs.Handler
import Mathlib.Tactic.IntervalCases
/-
  Value formatters `uppercase()` / `lowercase()` (detail/format_uppercase.cpp, format_lowercase.cpp) in the
  handler fragment: `ArgDef.fmt`, `Fmt.apply`.

  `TypedArg< T>::assign` runs `check( value)` on the text as typed, formats a copy, converts the copy with
  `boost::lexical_cast< T>` and sets `mHasValueSet`.  For a string destination the formatted text is stored
  (`assignDest`, branch `.str`).  For the int-typed destinations the model converts the text as typed; this
  file proves that this is the same function: the case formatters leave the characters `lexical_cast< int>`
  reads (sign, digits) alone and map no other character onto one of them.
-/
namespace CelmaVerif.ProgArgs
open CelmaVerif

/-- what the two case mappings do to one character: nothing, or a letter becomes a letter -/
theorem toUpperAscii_cases (c : Char) : toUpperAscii c = c ∨
    ∃ n, 97 ≤ n ∧ n ≤ 122 ∧ c = Char.ofNat n ∧ toUpperAscii c = Char.ofNat (n - 32) := by
  unfold toUpperAscii
  by_cases h : 'a' ≤ c ∧ c ≤ 'z'
  · right
    rw [if_pos h]
    obtain ⟨h1, h2⟩ := h
    rw [Char.le_def, UInt32.le_iff_toNat_le] at h1 h2
    exact ⟨c.toNat, h1, h2, (Char.ofNat_toNat c).symm, rfl⟩
  · left; rw [if_neg h]

theorem toLowerAscii_cases (c : Char) : toLowerAscii c = c ∨
    ∃ n, 65 ≤ n ∧ n ≤ 90 ∧ c = Char.ofNat n ∧ toLowerAscii c = Char.ofNat (n + 32) := by
  unfold toLowerAscii
  by_cases h : 'A' ≤ c ∧ c ≤ 'Z'
  · right
    rw [if_pos h]
    obtain ⟨h1, h2⟩ := h
    rw [Char.le_def, UInt32.le_iff_toNat_le] at h1 h2
    exact ⟨c.toNat, h1, h2, (Char.ofNat_toNat c).symm, rfl⟩
  · left; rw [if_neg h]

/-- a character mapping that is invisible to `lexical_cast< int>`: digits, `-` and `+` are fixed, nothing
    else becomes one of them -/
structure IntNeutral (f : Char → Char) : Prop where
  digit : ∀ c, digitVal (f c) = digitVal c
  minus : ∀ c, f c = '-' ↔ c = '-'
  plus  : ∀ c, f c = '+' ↔ c = '+'

theorem toUpperAscii_neutral : IntNeutral toUpperAscii := by
  refine ⟨fun c => ?_, fun c => ?_, fun c => ?_⟩ <;>
  · rcases toUpperAscii_cases c with h | ⟨n, h1, h2, rfl, h⟩
    · rw [h]
    · rw [h]; interval_cases n <;> decide

theorem toLowerAscii_neutral : IntNeutral toLowerAscii := by
  refine ⟨fun c => ?_, fun c => ?_, fun c => ?_⟩ <;>
  · rcases toLowerAscii_cases c with h | ⟨n, h1, h2, rfl, h⟩
    · rw [h]
    · rw [h]; interval_cases n <;> decide

theorem foldlM_digits_map {f : Char → Char} (hf : IntNeutral f) (cs : Word) (a : Nat) :
    (cs.map f).foldlM (fun acc c => (digitVal c).map (fun d => acc * 10 + d)) a =
      cs.foldlM (fun acc c => (digitVal c).map (fun d => acc * 10 + d)) a := by
  induction cs generalizing a with
  | nil => rfl
  | cons c cs ih =>
    simp only [List.map_cons, List.foldlM_cons, hf.digit c]
    cases digitVal c with
    | none => rfl
    | some d => simp only [Option.map_some, Option.bind_eq_bind, Option.bind_some]; exact ih _

theorem parseNat_map {f : Char → Char} (hf : IntNeutral f) (cs : Word) : parseNat (cs.map f) = parseNat cs := by
  cases cs with
  | nil => rfl
  | cons c cs => exact foldlM_digits_map hf (c :: cs) 0

theorem lexCastInt_cons_other (x : Char) (r : Word) (h1 : x ≠ '-') (h2 : x ≠ '+') :
    lexCastInt (x :: r) = (match parseNat (x :: r) with
      | none => .throw .bad_cast
      | some n => if -2147483648 ≤ (n : Int) ∧ (n : Int) ≤ 2147483647 then .ok (n : Int) else .throw .bad_cast) := by
  unfold lexCastInt
  split
  rename_i neg body heq
  split at heq
  · rename_i h; exact absurd (List.cons.inj h).1 h1
  · rename_i h; exact absurd (List.cons.inj h).1 h2
  · cases heq; cases parseNat (x :: r) <;> simp

theorem lexCastInt_map {f : Char → Char} (hf : IntNeutral f) (s : Word) : lexCastInt (s.map f) = lexCastInt s := by
  cases s with
  | nil => rfl
  | cons c r =>
    by_cases hm : c = '-'
    · subst hm
      have : f '-' = '-' := (hf.minus '-').2 rfl
      simp only [List.map_cons, this, lexCastInt, parseNat_map hf r]
    · by_cases hp : c = '+'
      · subst hp
        have : f '+' = '+' := (hf.plus '+').2 rfl
        simp only [List.map_cons, this, lexCastInt, parseNat_map hf r]
      · have h1 : f c ≠ '-' := fun h => hm ((hf.minus c).1 h)
        have h2 : f c ≠ '+' := fun h => hp ((hf.plus c).1 h)
        rw [List.map_cons, lexCastInt_cons_other _ _ h1 h2, lexCastInt_cons_other _ _ hm hp, ← List.map_cons,
          parseNat_map hf (c :: r)]

/-- **The case formatters are invisible to the conversion to `int`**: `boost::lexical_cast< int>` of the
    formatted copy is `lexical_cast< int>` of the text as typed — same value, or refused alike.  This is why
    `assignDest` mentions `fmt` for string destinations only. -/
theorem lexCastInt_fmt (f : Fmt) (v : Word) : lexCastInt (f.apply v) = lexCastInt v := by
  cases f with
  | none => rfl
  | upper => exact lexCastInt_map toUpperAscii_neutral v
  | lower => exact lexCastInt_map toLowerAscii_neutral v

/-- no formatter: the value as typed -/
@[simp] theorem Fmt.apply_none (v : Word) : Fmt.none.apply v = v := rfl

theorem Fmt.apply_length (f : Fmt) (v : Word) : (f.apply v).length = v.length := by
  cases f <;> simp [Fmt.apply]

end CelmaVerif.ProgArgs
