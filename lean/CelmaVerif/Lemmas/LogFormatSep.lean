import CelmaVerif.Lemmas.LogFormat
/- C16: the readable form of the separator rule for plain fields: the separator stands between the fields. -/
namespace CelmaVerif.LogFormat

/-- a field of kind `t` created without any option -/
def plainField (t : FieldType) : Field := ⟨t, [], 0, false⟩

theorem intersperse_cons_flatMap {α} (sep a : α) (l : List α) :
    (a :: l).intersperse sep = a :: l.flatMap (fun x => [sep, x]) := by
  induction l generalizing a with
  | nil => rfl
  | cons y zs ih => rw [List.intersperse_cons_cons, ih y]; rfl

theorem run_plain_nonempty (sep : Text) (hsep : sep ≠ []) (ks : List FieldType) :
    ∀ c : Creator, c.autoSep = sep → c.fmt = [] → c.width = 0 → c.left = false → c.fields ≠ [] →
      (c.run (ks.map Tok.field)).fields =
        c.fields ++ ks.flatMap (fun k => [Creator.sepField sep, plainField k]) := by
  induction ks with
  | nil => intro c _ _ _ _ _; simp [Creator.run]
  | cons k ks ih =>
    intro c hs hf hw hl hne
    have hstep : c.step (.field k) =
        { c with fields := c.fields ++ [Creator.sepField sep] ++ [plainField k] } := by
      cases c
      simp only at hs hf hw hl hne
      subst hs hf hw hl
      simp [Creator.step, Creator.field, Creator.addField, hsep, hne, plainField]
    have hrun : c.run ((k :: ks).map Tok.field) = (c.step (.field k)).run (ks.map Tok.field) := by
      simp [Creator.run]
    rw [hrun, hstep]
    have := ih { c with fields := c.fields ++ [Creator.sepField sep] ++ [plainField k] } hs hf hw hl (by simp)
    rw [this]
    simp

theorem run_plain_fields (sep : Text) (hsep : sep ≠ []) (ks : List FieldType) :
    ((Creator.new [] (some sep)).run (ks.map Tok.field)).fields =
      (ks.map plainField).intersperse (Creator.sepField sep) := by
  cases ks with
  | nil => simp [Creator.run, Creator.new]
  | cons k ks =>
    have hstep : (Creator.new [] (some sep)).step (.field k) =
        { fields := [plainField k], autoSep := sep } := by
      simp [Creator.step, Creator.field, Creator.addField, Creator.new, plainField]
    have hrun : (Creator.new [] (some sep)).run ((k :: ks).map Tok.field) =
        ((Creator.new [] (some sep)).step (.field k)).run (ks.map Tok.field) := by
      simp [Creator.run]
    rw [hrun, hstep, run_plain_nonempty sep hsep ks _ rfl rfl rfl rfl (by simp)]
    rw [List.map_cons, intersperse_cons_flatMap]
    simp [List.flatMap_map]

end CelmaVerif.LogFormat
