import CelmaVerif.Lemmas.SortDedup
import CelmaVerif.Lemmas.ContainersTok
import CelmaVerif.Lemmas.ContainersSeq
/-
  Fixed-size array destinations (`T[N]`, `std::array<T,N>`), after the repair of the duplicate search
  (`uniqueWhole = false`): the filled prefix is the kept values, the rest of the array is untouched, the
  (N+1)-th element is refused, nothing is written outside the N slots.
-/
namespace CelmaVerif.Containers

section arr
variable {α : Type} [DecidableEq α] (E : Elem α)

/-- the values that are stored out of `done` -/
def keepA (o : Opts) (done : List α) : List α := if o.unique then dedupInto [] done else done

/-- the value a token stands for when it is about to be stored in slot `p`: general format first, then the
    formatters of slot `p` -/
def valI (o : Opts) (p : Nat) (t : List Char) : Option α := E.conv (applyPos o.fmtPos p (applyFmt o.fmt t))
/-- passes the checks (on the text as given) and converts after formatting for slot `p` -/
def AcceptsI (o : Opts) (p : Nat) (t : List Char) : Prop :=
  runChecks o.checks t = none ∧ (valI E o p t).isSome = true
/-- the values of the tokens when the values `done` came before them: every token is formatted for the slot it
    goes to = the number of values kept so far (a dropped duplicate does not advance the slot) -/
def valsI (o : Opts) (done : List α) : List (List Char) → List α
  | [] => []
  | t :: ts => match valI E o (keepA o done).length t with
    | none => valsI o done ts
    | some v => v :: valsI o (done ++ [v]) ts
/-- every token is acceptable at the slot it arrives at -/
def AccI (o : Opts) (done : List α) : List (List Char) → Prop
  | [] => True
  | t :: ts => AcceptsI E o (keepA o done).length t ∧
      AccI o (done ++ (valI E o (keepA o done).length t).toList) ts

instance (o : Opts) (p : Nat) (t : List Char) : Decidable (AcceptsI E o p t) := by
  unfold AcceptsI; exact inferInstance

instance AccI.dec (o : Opts) : ∀ (done : List α) (ts : List (List Char)), Decidable (AccI E o done ts)
  | _, [] => isTrue trivial
  | done, t :: ts =>
    have := AccI.dec o (done ++ (valI E o (keepA o done).length t).toList) ts
    by unfold AccI; exact inferInstance

def ArrInv (o : Opts) (init : List α) (s : ArrState α) (done : List α) : Prop :=
  ∃ X : List α, s.slots = X ++ init.drop s.idx ∧ X.length = s.idx ∧ s.idx ≤ init.length ∧
    X.Perm (keepA o done) ∧ (o.sort = false → X = keepA o done)

theorem idx_of_inv {o : Opts} {init : List α} {s : ArrState α} {done : List α} (hi : ArrInv o init s done) :
    s.idx = (keepA o done).length := by
  obtain ⟨X, _, hlen, _, hperm, _⟩ := hi
  rw [← hlen, hperm.length_eq]

theorem keepA_of_not_unique (o : Opts) (hu : o.unique = false) (done : List α) : keepA o done = done := by
  simp [keepA, hu]

theorem keepA_nil (o : Opts) : keepA o ([] : List α) = [] := by
  unfold keepA; split <;> simp [dedupInto]

/-! unfolding `valsI` / `AccI` -/

@[simp] theorem valsI_nil (o : Opts) (done : List α) : valsI E o done [] = [] := rfl

theorem valsI_cons_some (o : Opts) (done : List α) (t : List Char) (ts : List (List Char)) (v : α)
    (h : valI E o (keepA o done).length t = some v) :
    valsI E o done (t :: ts) = v :: valsI E o (done ++ [v]) ts := by
  rw [valsI, h]

theorem valsI_cons_none (o : Opts) (done : List α) (t : List Char) (ts : List (List Char))
    (h : valI E o (keepA o done).length t = none) :
    valsI E o done (t :: ts) = valsI E o done ts := by
  rw [valsI, h]

@[simp] theorem accI_nil (o : Opts) (done : List α) : AccI E o done [] := trivial

theorem accI_cons (o : Opts) (done : List α) (t : List Char) (ts : List (List Char)) :
    AccI E o done (t :: ts) ↔ AcceptsI E o (keepA o done).length t ∧
      AccI E o (done ++ (valI E o (keepA o done).length t).toList) ts := Iff.rfl

/-- the form the proofs use: the token passes the checks, has a value `v` at its slot, and the rest is acceptable
    after `v` -/
theorem accI_cons_iff (o : Opts) (done : List α) (t : List Char) (ts : List (List Char)) :
    AccI E o done (t :: ts) ↔ runChecks o.checks t = none ∧
      ∃ v, valI E o (keepA o done).length t = some v ∧ AccI E o (done ++ [v]) ts := by
  rw [accI_cons]
  unfold AcceptsI
  constructor
  · rintro ⟨⟨hchk, hconv⟩, hrest⟩
    obtain ⟨v, hv⟩ := Option.isSome_iff_exists.mp hconv
    rw [hv] at hrest
    exact ⟨hchk, v, hv, hrest⟩
  · rintro ⟨hchk, v, hv, hrest⟩
    rw [hv]
    exact ⟨⟨hchk, rfl⟩, hrest⟩

theorem valsI_append (o : Opts) : ∀ (a b : List (List Char)) (done : List α),
    valsI E o done (a ++ b) = valsI E o done a ++ valsI E o (done ++ valsI E o done a) b
  | [], b, done => by simp
  | t :: a, b, done => by
    cases h : valI E o (keepA o done).length t with
    | none =>
      rw [List.cons_append, valsI_cons_none E o done t _ h, valsI_cons_none E o done t _ h]
      exact valsI_append o a b done
    | some v =>
      rw [List.cons_append, valsI_cons_some E o done t _ v h, valsI_cons_some E o done t _ v h,
        valsI_append o a b (done ++ [v])]
      simp

theorem accI_append (o : Opts) : ∀ (a b : List (List Char)) (done : List α),
    AccI E o done (a ++ b) ↔ AccI E o done a ∧ AccI E o (done ++ valsI E o done a) b
  | [], b, done => by simp
  | t :: a, b, done => by
    rw [List.cons_append, accI_cons_iff, accI_cons_iff]
    constructor
    · rintro ⟨hchk, v, hv, hrest⟩
      have := (accI_append o a b (done ++ [v])).mp hrest
      rw [valsI_cons_some E o done t _ v hv]
      exact ⟨⟨hchk, v, hv, this.1⟩, by simpa using this.2⟩
    · rintro ⟨⟨hchk, v, hv, ha⟩, hb⟩
      rw [valsI_cons_some E o done t _ v hv] at hb
      exact ⟨hchk, v, hv, (accI_append o a b (done ++ [v])).mpr ⟨ha, by simpa using hb⟩⟩

/-- acceptable tokens all yield a value -/
theorem valsI_length (o : Opts) : ∀ (ts : List (List Char)) (done : List α), AccI E o done ts →
    (valsI E o done ts).length = ts.length
  | [], _, _ => rfl
  | t :: ts, done, h => by
    obtain ⟨_, v, hv, hrest⟩ := (accI_cons_iff E o done t ts).mp h
    rw [valsI_cons_some E o done t _ v hv, List.length_cons, List.length_cons, valsI_length o ts _ hrest]

/-- without unique-data nothing is dropped, so the slot of a token is its index: the values are the index-wise
    map — element `i` is formatted with the formatters of position `done.length + i` -/
theorem valsI_getElem? (o : Opts) (hu : o.unique = false) : ∀ (ts : List (List Char)) (done : List α),
    AccI E o done ts → ∀ i, (valsI E o done ts)[i]? = (ts[i]?).bind (valI E o (done.length + i))
  | [], _, _, i => by simp
  | t :: ts, done, h, i => by
    obtain ⟨_, v, hv, hrest⟩ := (accI_cons_iff E o done t ts).mp h
    rw [valsI_cons_some E o done t _ v hv]
    rw [keepA_of_not_unique o hu] at hv
    cases i with
    | zero => simp [hv]
    | succ i =>
      have := valsI_getElem? o hu ts (done ++ [v]) hrest i
      simp only [List.getElem?_cons_succ, this, List.length_append, List.length_singleton]
      congr 2
      omega

theorem keepA_snoc_old (o : Opts) (done : List α) (v : α) (hu : o.unique = true) (hm : v ∈ done) :
    keepA o (done ++ [v]) = keepA o done := by
  unfold keepA
  rw [if_pos hu, if_pos hu, dedupInto_snoc, if_pos (Or.inr hm), List.append_nil]

theorem keepA_snoc_new (o : Opts) (done : List α) (v : α) (h : o.unique = true → v ∉ done) :
    keepA o (done ++ [v]) = keepA o done ++ [v] := by
  unfold keepA
  cases hu : o.unique
  · simp
  · simp only [if_true]
    rw [dedupInto_snoc, if_neg]
    simpa using h hu

theorem mem_keepA (o : Opts) (done : List α) (v : α) (hu : o.unique = true) : v ∈ keepA o done ↔ v ∈ done := by
  unfold keepA
  rw [if_pos hu, mem_dedupInto]
  simp

/-- one accepted token while there is room -/
theorem arrStep_ok (o : Opts) (init : List α) (s : ArrState α) (done : List α) (t : List Char) (v : α)
    (hi : ArrInv o init s done) (hroom : s.idx < init.length) (hchk : runChecks o.checks t = none)
    (hval : valI E o (keepA o done).length t = some v) (hnd : ¬ (o.unique = true ∧ o.dupErr = true ∧ v ∈ done)) :
    ∃ s', arrStep E o false s t = .ok s' ∧ ArrInv o init s' (done ++ [v]) := by
  have hval' : E.conv (applyPos o.fmtPos s.idx (applyFmt o.fmt t)) = some v := by
    rw [idx_of_inv hi]; exact hval
  obtain ⟨X, hsl, hlen, hle, hperm, hex⟩ := hi
  have hslen : s.slots.length = init.length := by rw [hsl]; simp; omega
  have htake : s.slots.take s.idx = X := by rw [hsl]; exact List.take_left' hlen
  unfold arrStep
  rw [if_neg (by omega), hchk]
  simp only
  rw [hval']
  simp only [Bool.false_eq_true, if_false, htake]
  by_cases hdup : o.unique = true ∧ v ∈ X
  · -- already there: dropped
    have hmd : v ∈ done := (mem_keepA o done v hdup.1).mp (hperm.mem_iff.mp hdup.2)
    have hde : o.dupErr = false := by
      cases h : o.dupErr
      · rfl
      · exact absurd ⟨hdup.1, h, hmd⟩ hnd
    refine ⟨s, by simp [hdup.1, hdup.2, hde], ?_⟩
    refine ⟨X, hsl, hlen, hle, ?_, ?_⟩
    · rw [keepA_snoc_old o done v hdup.1 hmd]; exact hperm
    · intro h; rw [keepA_snoc_old o done v hdup.1 hmd]; exact hex h
  · -- stored
    have hcond : (o.unique && decide (v ∈ X)) = false := by
      cases hu : o.unique
      · simp
      · simp only [Bool.true_and, decide_eq_false_iff_not]
        exact fun hm => hdup ⟨hu, hm⟩
    have hnew : o.unique = true → v ∉ done := by
      intro hu hm
      exact hdup ⟨hu, hperm.mem_iff.mpr ((mem_keepA o done v hu).mpr hm)⟩
    rw [hcond]
    simp only [Bool.false_eq_true, if_false]
    unfold ArrState.store
    rw [if_pos (by omega)]
    refine ⟨_, rfl, X ++ [v], ?_, by simp [hlen], by simp only; omega, ?_, ?_⟩
    · simp only
      rw [hsl, ← hlen, List.set_append_right _ _ (Nat.le_refl _), Nat.sub_self, hlen,
        List.drop_eq_getElem_cons hroom]
      simp only [List.set_cons_zero, List.append_assoc, List.cons_append, List.nil_append]
    · rw [keepA_snoc_new o done v hnew]
      exact List.Perm.append_right [v] hperm
    · intro h
      rw [keepA_snoc_new o done v hnew, hex h]

/-- room for every token: when token number `j` arrives, fewer than N values have been stored -/
def Fits (o : Opts) (n : Nat) (done vs : List α) : Prop :=
  ∀ j, j < vs.length → (keepA o (done ++ vs.take j)).length < n

def DupFreeI (o : Opts) (all : List α) : Prop := o.unique = true → o.dupErr = true → all.Nodup

theorem arrElems_inv (o : Opts) (init : List α) :
    ∀ (ts : List (List Char)) (s : ArrState α) (done : List α), ArrInv o init s done →
      AccI E o done ts → DupFreeI o (done ++ valsI E o done ts) → Fits o init.length done (valsI E o done ts) →
      ∃ s', arrElems E o false s ts = (s', none) ∧ ArrInv o init s' (done ++ valsI E o done ts)
  | [], s, done, hi, _, _, _ => ⟨s, rfl, by simpa using hi⟩
  | t :: ts, s, done, hi, hacc, hdf, hfit => by
    obtain ⟨hchk, v, hvt, hacc'⟩ := (accI_cons_iff E o done t ts).mp hacc
    have hvals : valsI E o done (t :: ts) = v :: valsI E o (done ++ [v]) ts := valsI_cons_some E o done t ts v hvt
    have hroom : s.idx < init.length := by
      have := hfit 0 (by rw [hvals]; simp)
      rw [idx_of_inv hi]
      simpa using this
    have hnd : ¬ (o.unique = true ∧ o.dupErr = true ∧ v ∈ done) := by
      rintro ⟨hu, he, hm⟩
      have hd := hdf hu he
      rw [hvals] at hd
      exact (List.nodup_append.mp hd).2.2 v hm v List.mem_cons_self rfl
    obtain ⟨s1, hs1, hi1⟩ := arrStep_ok E o init s done t v hi hroom hchk hvt hnd
    have hassoc : done ++ valsI E o done (t :: ts) = (done ++ [v]) ++ valsI E o (done ++ [v]) ts := by
      rw [hvals]; simp
    have hfit' : Fits o init.length (done ++ [v]) (valsI E o (done ++ [v]) ts) := by
      intro j hj
      have := hfit (j + 1) (by rw [hvals]; simp; omega)
      rw [hvals] at this
      simpa [List.take_succ_cons, List.append_assoc] using this
    obtain ⟨s', hs', hi'⟩ := arrElems_inv o init ts s1 (done ++ [v]) hi1 hacc' (hassoc ▸ hdf) hfit'
    refine ⟨s', ?_, hassoc ▸ hi'⟩
    rw [arrElems, hs1]
    exact hs'

theorem sortPrefix_inv (hl : LawfulLe E.le) (o : Opts) (init : List α) (s : ArrState α) (done : List α) (hi : ArrInv o init s done)
    (hs : o.sort = true) :
    ArrInv o init (s.sortPrefix E) done ∧ Sorted E.le ((s.sortPrefix E).slots.take (s.sortPrefix E).idx) := by
  obtain ⟨X, hsl, hlen, hle, hperm, _⟩ := hi
  have htake : s.slots.take s.idx = X := by rw [hsl]; exact List.take_left' hlen
  have hdrop : s.slots.drop s.idx = init.drop s.idx := by rw [hsl]; exact List.drop_left' hlen
  have hl2 : (isort E.le X).length = s.idx := by rw [(isort_perm X).length_eq]; exact hlen
  constructor
  · refine ⟨isort E.le X, ?_, hl2, hle, (isort_perm X).trans hperm, ?_⟩
    · simp only [ArrState.sortPrefix, htake, hdrop]
    · intro h; rw [hs] at h; cases h
  · simp only [ArrState.sortPrefix, htake, hdrop]
    rw [List.take_left' hl2]
    exact isort_sorted hl X

/-- invariant plus "the filled prefix is ascending when sorting is on and at least one use has been made" -/
theorem arrAssignP_inv (hl : LawfulLe E.le) (o : Opts) (init : List α) (s : ArrState α) (value : List Char) (done : List α)
    (hi : ArrInv o init s done) (hacc : AccI E o done (tokens o.sep value))
    (hdf : DupFreeI o (done ++ valsI E o done (tokens o.sep value)))
    (hfit : Fits o init.length done (valsI E o done (tokens o.sep value))) :
    ∃ s', arrAssignP E o false s value = (s', none) ∧
      ArrInv o init s' (done ++ valsI E o done (tokens o.sep value)) ∧
      (o.sort = true → Sorted E.le (s'.slots.take s'.idx)) := by
  obtain ⟨s1, hs1, hi1⟩ := arrElems_inv E o init _ s done hi hacc hdf hfit
  unfold arrAssignP
  rw [hs1]
  cases hs : o.sort
  · exact ⟨s1, by simp, hi1, by simp⟩
  · have := sortPrefix_inv E hl o init s1 _ hi1 hs
    exact ⟨s1.sortPrefix E, by simp, this.1, fun _ => this.2⟩

theorem arrRunP_inv (hl : LawfulLe E.le) (o : Opts) (init : List α) :
    ∀ (uses : List (List Char)) (s : ArrState α) (done : List α), ArrInv o init s done →
      AccI E o done (allTokens o.sep uses) → DupFreeI o (done ++ valsI E o done (allTokens o.sep uses)) →
      Fits o init.length done (valsI E o done (allTokens o.sep uses)) → uses ≠ [] →
      ∃ s', arrRunP E o false s uses = (s', none) ∧
        ArrInv o init s' (done ++ valsI E o done (allTokens o.sep uses)) ∧
        (o.sort = true → Sorted E.le (s'.slots.take s'.idx))
  | [], _, _, _, _, _, _, hne => absurd rfl hne
  | u :: us, s, done, hi, hacc, hdf, hfit, _ => by
    have htok : allTokens o.sep (u :: us) = tokens o.sep u ++ allTokens o.sep us := by simp [allTokens]
    have hvals : valsI E o done (allTokens o.sep (u :: us)) = valsI E o done (tokens o.sep u) ++
        valsI E o (done ++ valsI E o done (tokens o.sep u)) (allTokens o.sep us) := by
      rw [htok, valsI_append]
    rw [htok, accI_append] at hacc
    have hdf1 : DupFreeI o (done ++ valsI E o done (tokens o.sep u)) := by
      intro hu he
      have hd := hdf hu he
      rw [hvals, ← List.append_assoc] at hd
      exact (List.nodup_append.mp hd).1
    have hfit1 : Fits o init.length done (valsI E o done (tokens o.sep u)) := by
      intro j hj
      have := hfit j (by rw [hvals]; simp; omega)
      rw [hvals, List.take_append_of_le_length (by omega)] at this
      exact this
    obtain ⟨s1, hs1, hi1, hsort1⟩ := arrAssignP_inv E hl o init s u done hi hacc.1 hdf1 hfit1
    rw [arrRunP, hs1]
    simp only
    cases us with
    | nil =>
      refine ⟨s1, rfl, ?_, hsort1⟩
      rw [hvals]
      simpa [allTokens] using hi1
    | cons u2 us2 =>
      have hfit2 : Fits o init.length (done ++ valsI E o done (tokens o.sep u))
          (valsI E o (done ++ valsI E o done (tokens o.sep u)) (allTokens o.sep (u2 :: us2))) := by
        intro j hj
        have := hfit ((valsI E o done (tokens o.sep u)).length + j) (by rw [hvals]; simp; omega)
        rw [hvals, List.take_append, List.take_of_length_le (by omega)] at this
        simpa [List.append_assoc] using this
      obtain ⟨s2, hs2, hi2, hsort2⟩ := arrRunP_inv hl o init (u2 :: us2) s1 (done ++ valsI E o done (tokens o.sep u)) hi1
        hacc.2 (by rw [List.append_assoc, ← hvals]; exact hdf) hfit2 (by simp)
      refine ⟨s2, hs2, ?_, hsort2⟩
      rw [hvals, ← List.append_assoc]
      exact hi2

/-- the refinement for arrays -/
theorem arrRunP_finalSpec (hl : LawfulLe E.le) (o : Opts) (init : List α) (uses : List (List Char)) (hne : uses ≠ [])
    (hacc : AccI E o [] (allTokens o.sep uses))
    (hdf : DupFreeI o (valsI E o [] (allTokens o.sep uses)))
    (hfit : Fits o init.length [] (valsI E o [] (allTokens o.sep uses))) :
    arrRunP E o false ⟨init, 0⟩ uses = (arrFinalSpec E o init (valsI E o [] (allTokens o.sep uses)), none) := by
  have hi0 : ArrInv o init ⟨init, 0⟩ [] := by
    refine ⟨[], by simp, rfl, by simp, ?_, ?_⟩
    · simp [keepA, dedupInto]
    · intro _; simp [keepA, dedupInto]
  obtain ⟨s', hs', hi', hsort⟩ := arrRunP_inv E hl o init uses ⟨init, 0⟩ [] hi0 hacc (by simpa using hdf)
    (by simpa using hfit) hne
  rw [hs']
  congr 1
  simp only [List.nil_append] at hi'
  obtain ⟨X, hsl, hlen, _, hperm, hex⟩ := hi'
  have htake : s'.slots.take s'.idx = X := by rw [hsl]; exact List.take_left' hlen
  have hidx : s'.idx = (keepA o (valsI E o [] (allTokens o.sep uses))).length := by rw [← hlen, hperm.length_eq]
  unfold arrFinalSpec
  cases s' with
  | mk slots idx =>
    simp only at hsl hlen hidx htake hsort
    simp only [keepA] at hperm hex hidx
    simp only [ArrState.mk.injEq]
    refine ⟨?_, hidx⟩
    rw [hsl, hidx]
    congr 1
    cases hs : o.sort
    · simpa using hex hs
    · simp only [if_true]
      rw [← htake]
      exact eq_isort_of_sorted_perm hl (hsort hs) (htake ▸ hperm)

/-! nothing is ever written outside the N slots, whatever the input -/

omit [DecidableEq α] in
theorem store_safe (s : ArrState α) (v : α) (hlt : s.idx < s.slots.length) :
    (∀ x, s.store v ≠ .oob x) ∧
    (∀ s', s.store v = .ok s' → s'.idx ≤ s'.slots.length ∧ s'.slots.length = s.slots.length) := by
  unfold ArrState.store
  rw [if_pos hlt]
  refine ⟨by simp, ?_⟩
  intro s' h'
  cases h'
  exact ⟨by simp; omega, by simp⟩

theorem arrStep_safe (o : Opts) (w : Bool) (s : ArrState α) (t : List Char) (h : s.idx ≤ s.slots.length) :
    (∀ x, arrStep E o w s t ≠ .oob x) ∧
    (∀ s', arrStep E o w s t = .ok s' → s'.idx ≤ s'.slots.length ∧ s'.slots.length = s.slots.length) := by
  unfold arrStep
  by_cases hfull : s.idx = s.slots.length
  · simp [hfull]
  · rw [if_neg hfull]
    have hlt : s.idx < s.slots.length := by omega
    cases hchk : runChecks o.checks t with
    | some e => simp
    | none =>
      simp only
      cases hcv : E.conv (applyPos o.fmtPos s.idx (applyFmt o.fmt t)) with
      | none => simp
      | some v =>
        simp only
        generalize (o.unique && decide (v ∈ if w = true then s.slots else List.take s.idx s.slots)) = C
        cases C
        · simpa using store_safe s v hlt
        · cases o.dupErr
          · simp [h]
          · simp

theorem arrElems_safe (o : Opts) (w : Bool) : ∀ (ts : List (List Char)) (s : ArrState α), s.idx ≤ s.slots.length →
    (∀ x, (arrElems E o w s ts).2 ≠ some (.oob x)) ∧ (arrElems E o w s ts).1.idx ≤ (arrElems E o w s ts).1.slots.length ∧
      (arrElems E o w s ts).1.slots.length = s.slots.length
  | [], s, h => by simp [arrElems, h]
  | t :: ts, s, h => by
    have hs := arrStep_safe E o w s t h
    rw [arrElems]
    cases hst : arrStep E o w s t with
    | ok s1 =>
      have h1 := hs.2 s1 hst
      have := arrElems_safe o w ts s1 h1.1
      simp only
      exact ⟨this.1, this.2.1, this.2.2.trans h1.2⟩
    | throw e => simp [h]
    | oob x => exact absurd hst (hs.1 x)

omit [DecidableEq α] in
theorem sortPrefix_safe (s : ArrState α) (h : s.idx ≤ s.slots.length) :
    (s.sortPrefix E).idx ≤ (s.sortPrefix E).slots.length ∧ (s.sortPrefix E).slots.length = s.slots.length := by
  have : (isort E.le (s.slots.take s.idx)).length = s.idx := by
    rw [(isort_perm _).length_eq]; simp; omega
  simp only [ArrState.sortPrefix, List.length_append, this, List.length_drop]
  omega

theorem arrRunP_safe (o : Opts) (w : Bool) : ∀ (uses : List (List Char)) (s : ArrState α), s.idx ≤ s.slots.length →
    (∀ x, (arrRunP E o w s uses).2 ≠ some (.oob x)) ∧ (arrRunP E o w s uses).1.slots.length = s.slots.length
  | [], s, _ => by simp [arrRunP]
  | u :: us, s, h => by
    have he := arrElems_safe E o w (tokens o.sep u) s h
    rw [arrRunP]
    unfold arrAssignP
    cases hel : arrElems E o w s (tokens o.sep u) with
    | mk s1 st =>
      rw [hel] at he
      cases st with
      | some st => simp only; exact ⟨fun x => by simpa using he.1 x, he.2.2⟩
      | none =>
        simp only
        by_cases hs : o.sort = true
        · rw [if_pos hs]
          have h2 := sortPrefix_safe E s1 he.2.1
          have := arrRunP_safe o w us (s1.sortPrefix E) h2.1
          exact ⟨this.1, this.2.trans (h2.2.trans he.2.2)⟩
        · rw [if_neg hs]
          have := arrRunP_safe o w us s1 he.2.1
          exact ⟨this.1, this.2.trans he.2.2⟩

/-- the element that arrives when the array is full is refused (whatever it is), the array keeps its size -/
theorem arrStep_full (o : Opts) (w : Bool) (s : ArrState α) (t : List Char) (h : s.idx = s.slots.length) :
    arrStep E o w s t = .throw .runtime_error := by
  unfold arrStep
  rw [if_pos h]

end arr

end CelmaVerif.Containers
