import CelmaVerif.Lemmas.SortDedup
import CelmaVerif.Lemmas.ContainersTok
import CelmaVerif.Lemmas.ContainersSeq
/-
  Fixed-size array destinations (`T[N]`, `std::array<T,N>`), after the repair of the duplicate search
  (`uniqueWhole = false`): the filled prefix is the kept values, the rest of the array is untouched, the
  (N+1)-th element is refused, nothing is written outside the N slots.
-/
namespace CelmaVerif.Containers

section arr
variable {α : Type} [DecidableEq α] (E : Elem α)

/-- the values that are stored out of `done` -/
def keepA (o : Opts) (done : List α) : List α := if o.unique then dedupInto [] done else done

def valI (o : Opts) (t : List Char) : Option α := E.conv (applyFmt o.fmt t)
def AcceptsI (o : Opts) (t : List Char) : Prop := runChecks o.checks t = none ∧ (valI E o t).isSome = true
def valsI (o : Opts) (ts : List (List Char)) : List α := ts.filterMap (valI E o)

def ArrInv (o : Opts) (init : List α) (s : ArrState α) (done : List α) : Prop :=
  ∃ X : List α, s.slots = X ++ init.drop s.idx ∧ X.length = s.idx ∧ s.idx ≤ init.length ∧
    X.Perm (keepA o done) ∧ (o.sort = false → X = keepA o done)

theorem keepA_snoc_old (o : Opts) (done : List α) (v : α) (hu : o.unique = true) (hm : v ∈ done) :
    keepA o (done ++ [v]) = keepA o done := by
  unfold keepA
  rw [if_pos hu, if_pos hu, dedupInto_snoc, if_pos (Or.inr hm), List.append_nil]

theorem keepA_snoc_new (o : Opts) (done : List α) (v : α) (h : o.unique = true → v ∉ done) :
    keepA o (done ++ [v]) = keepA o done ++ [v] := by
  unfold keepA
  cases hu : o.unique
  · simp
  · simp only [if_true]
    rw [dedupInto_snoc, if_neg]
    simpa using h hu

theorem mem_keepA (o : Opts) (done : List α) (v : α) (hu : o.unique = true) : v ∈ keepA o done ↔ v ∈ done := by
  unfold keepA
  rw [if_pos hu, mem_dedupInto]
  simp

/-- one accepted token while there is room -/
theorem arrStep_ok (o : Opts) (init : List α) (s : ArrState α) (done : List α) (t : List Char) (v : α)
    (hi : ArrInv o init s done) (hroom : s.idx < init.length) (hchk : runChecks o.checks t = none)
    (hval : valI E o t = some v) (hnd : ¬ (o.unique = true ∧ o.dupErr = true ∧ v ∈ done)) :
    ∃ s', arrStep E o false s t = .ok s' ∧ ArrInv o init s' (done ++ [v]) := by
  obtain ⟨X, hsl, hlen, hle, hperm, hex⟩ := hi
  have hslen : s.slots.length = init.length := by rw [hsl]; simp; omega
  have htake : s.slots.take s.idx = X := by rw [hsl]; exact List.take_left' hlen
  unfold valI at hval
  unfold arrStep
  rw [if_neg (by omega), hchk]
  simp only
  rw [hval]
  simp only [Bool.false_eq_true, if_false, htake]
  by_cases hdup : o.unique = true ∧ v ∈ X
  · -- already there: dropped
    have hmd : v ∈ done := (mem_keepA o done v hdup.1).mp (hperm.mem_iff.mp hdup.2)
    have hde : o.dupErr = false := by
      cases h : o.dupErr
      · rfl
      · exact absurd ⟨hdup.1, h, hmd⟩ hnd
    refine ⟨s, by simp [hdup.1, hdup.2, hde], ?_⟩
    refine ⟨X, hsl, hlen, hle, ?_, ?_⟩
    · rw [keepA_snoc_old o done v hdup.1 hmd]; exact hperm
    · intro h; rw [keepA_snoc_old o done v hdup.1 hmd]; exact hex h
  · -- stored
    have hcond : (o.unique && decide (v ∈ X)) = false := by
      cases hu : o.unique
      · simp
      · simp only [Bool.true_and, decide_eq_false_iff_not]
        exact fun hm => hdup ⟨hu, hm⟩
    have hnew : o.unique = true → v ∉ done := by
      intro hu hm
      exact hdup ⟨hu, hperm.mem_iff.mpr ((mem_keepA o done v hu).mpr hm)⟩
    rw [hcond]
    simp only [Bool.false_eq_true, if_false]
    unfold ArrState.store
    rw [if_pos (by omega)]
    refine ⟨_, rfl, X ++ [v], ?_, by simp [hlen], by simp only; omega, ?_, ?_⟩
    · simp only
      rw [hsl, ← hlen, List.set_append_right _ _ (Nat.le_refl _), Nat.sub_self, hlen,
        List.drop_eq_getElem_cons hroom]
      simp only [List.set_cons_zero, List.append_assoc, List.cons_append, List.nil_append]
    · rw [keepA_snoc_new o done v hnew]
      exact List.Perm.append_right [v] hperm
    · intro h
      rw [keepA_snoc_new o done v hnew, hex h]

/-- room for every token: when token number `j` arrives, fewer than N values have been stored -/
def Fits (o : Opts) (n : Nat) (done vs : List α) : Prop :=
  ∀ j, j < vs.length → (keepA o (done ++ vs.take j)).length < n

def DupFreeI (o : Opts) (all : List α) : Prop := o.unique = true → o.dupErr = true → all.Nodup

theorem idx_of_inv {o : Opts} {init : List α} {s : ArrState α} {done : List α} (hi : ArrInv o init s done) :
    s.idx = (keepA o done).length := by
  obtain ⟨X, _, hlen, _, hperm, _⟩ := hi
  rw [← hlen, hperm.length_eq]

theorem arrElems_inv (o : Opts) (init : List α) :
    ∀ (ts : List (List Char)) (s : ArrState α) (done : List α), ArrInv o init s done →
      (∀ t ∈ ts, AcceptsI E o t) → DupFreeI o (done ++ valsI E o ts) → Fits o init.length done (valsI E o ts) →
      ∃ s', arrElems E o false s ts = (s', none) ∧ ArrInv o init s' (done ++ valsI E o ts)
  | [], s, done, hi, _, _, _ => ⟨s, rfl, by simpa [valsI] using hi⟩
  | t :: ts, s, done, hi, hacc, hdf, hfit => by
    obtain ⟨hchk, hconv⟩ := hacc t List.mem_cons_self
    obtain ⟨v, hvt⟩ := Option.isSome_iff_exists.mp hconv
    have hvals : valsI E o (t :: ts) = v :: valsI E o ts := by simp [valsI, hvt]
    have hroom : s.idx < init.length := by
      have := hfit 0 (by rw [hvals]; simp)
      rw [idx_of_inv hi]
      simpa using this
    have hnd : ¬ (o.unique = true ∧ o.dupErr = true ∧ v ∈ done) := by
      rintro ⟨hu, he, hm⟩
      have hd := hdf hu he
      rw [hvals] at hd
      exact (List.nodup_append.mp hd).2.2 v hm v List.mem_cons_self rfl
    obtain ⟨s1, hs1, hi1⟩ := arrStep_ok E o init s done t v hi hroom hchk hvt hnd
    have hassoc : done ++ valsI E o (t :: ts) = (done ++ [v]) ++ valsI E o ts := by rw [hvals]; simp
    have hfit' : Fits o init.length (done ++ [v]) (valsI E o ts) := by
      intro j hj
      have := hfit (j + 1) (by rw [hvals]; simp; omega)
      rw [hvals] at this
      simpa [List.take_succ_cons, List.append_assoc] using this
    obtain ⟨s', hs', hi'⟩ := arrElems_inv o init ts s1 (done ++ [v]) hi1
      (fun t' ht' => hacc t' (List.mem_cons_of_mem _ ht')) (hassoc ▸ hdf) hfit'
    refine ⟨s', ?_, hassoc ▸ hi'⟩
    rw [arrElems, hs1]
    exact hs'

theorem sortPrefix_inv (hl : LawfulLe E.le) (o : Opts) (init : List α) (s : ArrState α) (done : List α) (hi : ArrInv o init s done)
    (hs : o.sort = true) :
    ArrInv o init (s.sortPrefix E) done ∧ Sorted E.le ((s.sortPrefix E).slots.take (s.sortPrefix E).idx) := by
  obtain ⟨X, hsl, hlen, hle, hperm, _⟩ := hi
  have htake : s.slots.take s.idx = X := by rw [hsl]; exact List.take_left' hlen
  have hdrop : s.slots.drop s.idx = init.drop s.idx := by rw [hsl]; exact List.drop_left' hlen
  have hl2 : (isort E.le X).length = s.idx := by rw [(isort_perm X).length_eq]; exact hlen
  constructor
  · refine ⟨isort E.le X, ?_, hl2, hle, (isort_perm X).trans hperm, ?_⟩
    · simp only [ArrState.sortPrefix, htake, hdrop]
    · intro h; rw [hs] at h; cases h
  · simp only [ArrState.sortPrefix, htake, hdrop]
    rw [List.take_left' hl2]
    exact isort_sorted hl X

/-- invariant plus "the filled prefix is ascending when sorting is on and at least one use has been made" -/
theorem arrAssignP_inv (hl : LawfulLe E.le) (o : Opts) (init : List α) (s : ArrState α) (value : List Char) (done : List α)
    (hi : ArrInv o init s done) (hacc : ∀ t ∈ tokens o.sep value, AcceptsI E o t)
    (hdf : DupFreeI o (done ++ valsI E o (tokens o.sep value)))
    (hfit : Fits o init.length done (valsI E o (tokens o.sep value))) :
    ∃ s', arrAssignP E o false s value = (s', none) ∧ ArrInv o init s' (done ++ valsI E o (tokens o.sep value)) ∧
      (o.sort = true → Sorted E.le (s'.slots.take s'.idx)) := by
  obtain ⟨s1, hs1, hi1⟩ := arrElems_inv E o init _ s done hi hacc hdf hfit
  unfold arrAssignP
  rw [hs1]
  cases hs : o.sort
  · exact ⟨s1, by simp, hi1, by simp⟩
  · have := sortPrefix_inv E hl o init s1 _ hi1 hs
    exact ⟨s1.sortPrefix E, by simp, this.1, fun _ => this.2⟩

theorem arrRunP_inv (hl : LawfulLe E.le) (o : Opts) (init : List α) :
    ∀ (uses : List (List Char)) (s : ArrState α) (done : List α), ArrInv o init s done →
      (∀ t ∈ allTokens o.sep uses, AcceptsI E o t) → DupFreeI o (done ++ valsI E o (allTokens o.sep uses)) →
      Fits o init.length done (valsI E o (allTokens o.sep uses)) → uses ≠ [] →
      ∃ s', arrRunP E o false s uses = (s', none) ∧ ArrInv o init s' (done ++ valsI E o (allTokens o.sep uses)) ∧
        (o.sort = true → Sorted E.le (s'.slots.take s'.idx))
  | [], _, _, _, _, _, _, hne => absurd rfl hne
  | u :: us, s, done, hi, hacc, hdf, hfit, _ => by
    have htok : allTokens o.sep (u :: us) = tokens o.sep u ++ allTokens o.sep us := by simp [allTokens]
    have hvals : valsI E o (allTokens o.sep (u :: us)) = valsI E o (tokens o.sep u) ++ valsI E o (allTokens o.sep us) := by
      rw [htok]; simp [valsI, List.filterMap_append]
    have hdf1 : DupFreeI o (done ++ valsI E o (tokens o.sep u)) := by
      intro hu he
      have hd := hdf hu he
      rw [hvals, ← List.append_assoc] at hd
      exact (List.nodup_append.mp hd).1
    have hfit1 : Fits o init.length done (valsI E o (tokens o.sep u)) := by
      intro j hj
      have := hfit j (by rw [hvals]; simp; omega)
      rw [hvals, List.take_append_of_le_length (by omega)] at this
      exact this
    obtain ⟨s1, hs1, hi1, hsort1⟩ := arrAssignP_inv E hl o init s u done hi
      (fun t ht => hacc t (by rw [htok]; exact List.mem_append_left _ ht)) hdf1 hfit1
    rw [arrRunP, hs1]
    simp only
    cases us with
    | nil =>
      refine ⟨s1, rfl, ?_, hsort1⟩
      rw [hvals]
      simpa [allTokens, valsI] using hi1
    | cons u2 us2 =>
      have hfit2 : Fits o init.length (done ++ valsI E o (tokens o.sep u)) (valsI E o (allTokens o.sep (u2 :: us2))) := by
        intro j hj
        have := hfit ((valsI E o (tokens o.sep u)).length + j) (by rw [hvals]; simp; omega)
        rw [hvals, List.take_append, List.take_of_length_le (by omega)] at this
        simpa [List.append_assoc] using this
      obtain ⟨s2, hs2, hi2, hsort2⟩ := arrRunP_inv hl o init (u2 :: us2) s1 (done ++ valsI E o (tokens o.sep u)) hi1
        (fun t ht => hacc t (by rw [htok]; exact List.mem_append_right _ ht))
        (by rw [List.append_assoc, ← hvals]; exact hdf) hfit2 (by simp)
      refine ⟨s2, hs2, ?_, hsort2⟩
      rw [hvals, ← List.append_assoc]
      exact hi2

/-- the refinement for arrays -/
theorem arrRunP_finalSpec (hl : LawfulLe E.le) (o : Opts) (init : List α) (uses : List (List Char)) (hne : uses ≠ [])
    (hacc : ∀ t ∈ allTokens o.sep uses, AcceptsI E o t)
    (hdf : DupFreeI o (valsI E o (allTokens o.sep uses)))
    (hfit : Fits o init.length [] (valsI E o (allTokens o.sep uses))) :
    arrRunP E o false ⟨init, 0⟩ uses = (arrFinalSpec E o init (valsI E o (allTokens o.sep uses)), none) := by
  have hi0 : ArrInv o init ⟨init, 0⟩ [] := by
    refine ⟨[], by simp, rfl, by simp, ?_, ?_⟩
    · simp [keepA, dedupInto]
    · intro _; simp [keepA, dedupInto]
  obtain ⟨s', hs', hi', hsort⟩ := arrRunP_inv E hl o init uses ⟨init, 0⟩ [] hi0 hacc (by simpa using hdf)
    (by simpa using hfit) hne
  rw [hs']
  congr 1
  simp only [List.nil_append] at hi'
  obtain ⟨X, hsl, hlen, _, hperm, hex⟩ := hi'
  have htake : s'.slots.take s'.idx = X := by rw [hsl]; exact List.take_left' hlen
  have hidx : s'.idx = (keepA o (valsI E o (allTokens o.sep uses))).length := by rw [← hlen, hperm.length_eq]
  unfold arrFinalSpec
  cases s' with
  | mk slots idx =>
    simp only at hsl hlen hidx htake hsort
    simp only [keepA] at hperm hex hidx
    simp only [ArrState.mk.injEq]
    refine ⟨?_, hidx⟩
    rw [hsl, hidx]
    congr 1
    cases hs : o.sort
    · simpa using hex hs
    · simp only [if_true]
      rw [← htake]
      exact eq_isort_of_sorted_perm hl (hsort hs) (htake ▸ hperm)

/-! nothing is ever written outside the N slots, whatever the input -/

omit [DecidableEq α] in
theorem store_safe (s : ArrState α) (v : α) (hlt : s.idx < s.slots.length) :
    (∀ x, s.store v ≠ .oob x) ∧
    (∀ s', s.store v = .ok s' → s'.idx ≤ s'.slots.length ∧ s'.slots.length = s.slots.length) := by
  unfold ArrState.store
  rw [if_pos hlt]
  refine ⟨by simp, ?_⟩
  intro s' h'
  cases h'
  exact ⟨by simp; omega, by simp⟩

theorem arrStep_safe (o : Opts) (w : Bool) (s : ArrState α) (t : List Char) (h : s.idx ≤ s.slots.length) :
    (∀ x, arrStep E o w s t ≠ .oob x) ∧
    (∀ s', arrStep E o w s t = .ok s' → s'.idx ≤ s'.slots.length ∧ s'.slots.length = s.slots.length) := by
  unfold arrStep
  by_cases hfull : s.idx = s.slots.length
  · simp [hfull]
  · rw [if_neg hfull]
    have hlt : s.idx < s.slots.length := by omega
    cases hchk : runChecks o.checks t with
    | some e => simp
    | none =>
      simp only
      cases hcv : E.conv (applyFmt o.fmt t) with
      | none => simp
      | some v =>
        simp only
        generalize (o.unique && decide (v ∈ if w = true then s.slots else List.take s.idx s.slots)) = C
        cases C
        · simpa using store_safe s v hlt
        · cases o.dupErr
          · simp [h]
          · simp

theorem arrElems_safe (o : Opts) (w : Bool) : ∀ (ts : List (List Char)) (s : ArrState α), s.idx ≤ s.slots.length →
    (∀ x, (arrElems E o w s ts).2 ≠ some (.oob x)) ∧ (arrElems E o w s ts).1.idx ≤ (arrElems E o w s ts).1.slots.length ∧
      (arrElems E o w s ts).1.slots.length = s.slots.length
  | [], s, h => by simp [arrElems, h]
  | t :: ts, s, h => by
    have hs := arrStep_safe E o w s t h
    rw [arrElems]
    cases hst : arrStep E o w s t with
    | ok s1 =>
      have h1 := hs.2 s1 hst
      have := arrElems_safe o w ts s1 h1.1
      simp only
      exact ⟨this.1, this.2.1, this.2.2.trans h1.2⟩
    | throw e => simp [h]
    | oob x => exact absurd hst (hs.1 x)

omit [DecidableEq α] in
theorem sortPrefix_safe (s : ArrState α) (h : s.idx ≤ s.slots.length) :
    (s.sortPrefix E).idx ≤ (s.sortPrefix E).slots.length ∧ (s.sortPrefix E).slots.length = s.slots.length := by
  have : (isort E.le (s.slots.take s.idx)).length = s.idx := by
    rw [(isort_perm _).length_eq]; simp; omega
  simp only [ArrState.sortPrefix, List.length_append, this, List.length_drop]
  omega

theorem arrRunP_safe (o : Opts) (w : Bool) : ∀ (uses : List (List Char)) (s : ArrState α), s.idx ≤ s.slots.length →
    (∀ x, (arrRunP E o w s uses).2 ≠ some (.oob x)) ∧ (arrRunP E o w s uses).1.slots.length = s.slots.length
  | [], s, _ => by simp [arrRunP]
  | u :: us, s, h => by
    have he := arrElems_safe E o w (tokens o.sep u) s h
    rw [arrRunP]
    unfold arrAssignP
    cases hel : arrElems E o w s (tokens o.sep u) with
    | mk s1 st =>
      rw [hel] at he
      cases st with
      | some st => simp only; exact ⟨fun x => by simpa using he.1 x, he.2.2⟩
      | none =>
        simp only
        by_cases hs : o.sort = true
        · rw [if_pos hs]
          have h2 := sortPrefix_safe E s1 he.2.1
          have := arrRunP_safe o w us (s1.sortPrefix E) h2.1
          exact ⟨this.1, this.2.trans (h2.2.trans he.2.2)⟩
        · rw [if_neg hs]
          have := arrRunP_safe o w us s1 he.2.1
          exact ⟨this.1, this.2.trans he.2.2⟩

/-- the element that arrives when the array is full is refused (whatever it is), the array keeps its size -/
theorem arrStep_full (o : Opts) (w : Bool) (s : ArrState α) (t : List Char) (h : s.idx = s.slots.length) :
    arrStep E o w s t = .throw .runtime_error := by
  unfold arrStep
  rw [if_pos h]

end arr

end CelmaVerif.Containers
