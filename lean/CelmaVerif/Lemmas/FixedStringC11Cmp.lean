import CelmaVerif.Lemmas.FixedStringC11Obs
namespace CelmaVerif.FixedString
open CelmaVerif
variable {c : Cfg}

/-
  C11, observers (second part): the partial compares, `c_str()`, the single-character
  `starts_with`/`ends_with`/`contains` and the substring `contains` return what the corresponding
  `std::string` operation (Model/StdString.lean) returns on the text held, `abs s`.
-/

/-! ### C strings -/

theorem cstrlenAux_take : ∀ (a : List Nat) (k m : Nat), cstrlenAux a k = .ok m →
    k ≤ m ∧ StdString.ofCStr a = a.take (m - k)
  | [], k, m, h => by unfold cstrlenAux at h; cases h
  | x :: xs, k, m, h => by
    unfold cstrlenAux at h
    unfold StdString.ofCStr
    by_cases hx : x = 0
    · rw [if_pos hx] at h
      rw [if_pos hx]
      cases h
      refine ⟨Nat.le_refl _, ?_⟩
      rw [Nat.sub_self]; rfl
    · rw [if_neg hx] at h
      rw [if_neg hx]
      obtain ⟨h1, h2⟩ := cstrlenAux_take xs (k + 1) m h
      refine ⟨by omega, ?_⟩
      have : m - k = (m - (k + 1)) + 1 := by omega
      rw [this, List.take_succ_cons, h2]

theorem ofCStr_take {a : List Byte} {n : Nat} (h : cstrlen a = .ok n) : StdString.ofCStr a = a.take n := by
  unfold cstrlen at h
  have := (cstrlenAux_take a 0 n h).2
  rw [Nat.sub_zero] at this
  exact this

theorem cstrlen_of_mem {a : List Byte} (h : 0 ∈ a) :
    ∃ n, cstrlen a = .ok n ∧ n < a.length ∧ StdString.ofCStr a = a.take n := by
  obtain ⟨n, h1, h2, _⟩ := cstrlen_ok a h
  exact ⟨n, h1, h2, ofCStr_take h1⟩

/-! ### compare( pos1, count1, ...) -/

/-- `basic_string_view( b, len).substr( pos, count)` as a window of the allocation `b` -/
theorem sub_window (b : List Nat) {len pos : Nat} (count : Nat) (hlen : len ≤ b.length) (hpos : pos ≤ len) :
    ((b.take len).drop pos).take count
        = (b.drop pos).take (if count > len - pos then len - pos else count) ∧
    (((b.take len).drop pos).take count).length = (if count > len - pos then len - pos else count) := by
  have e : ((b.take len).drop pos).take count
        = (b.drop pos).take (if count > len - pos then len - pos else count) := by
    rw [List.drop_take, List.take_take]
    congr 1
    split <;> omega
  refine ⟨e, ?_⟩
  rw [e, List.length_take, List.length_drop]
  split <;> omega

theorem compare_of_cmpSign {x y p q : List Nat} {l1 l2 : Nat} (hx : x.length = l1) (hy : y.length = l2)
    (hp : x.take (min l1 l2) = p) (hq : y.take (min l1 l2) = q) :
    (if cmpSign p q = 0 then (if l1 > l2 then 1 else if l1 < l2 then -1 else 0) else cmpSign p q)
      = StdString.compare x y := by
  subst hx hy hp hq
  rw [compare_eq_cmpSign]

theorem partPartCompare_abs {s : FStr} (hs : WF c s) (pos1 count1 : Nat) {a : List Byte} {len2 : Nat}
    (ha : len2 ≤ a.length) (pos2 count2 : Nat) (hp1 : pos1 ≤ s.len) (hp2 : pos2 ≤ len2) :
    partPartCompare s pos1 count1 a len2 pos2 count2 =
      .ok (StdString.compare (((abs s).drop pos1).take count1) (((a.take len2).drop pos2).take count2)) := by
  have := hs.1; have := hs.2.1
  obtain ⟨e1, l1⟩ := sub_window s.buf count1 (show s.len ≤ s.buf.length by omega) hp1
  obtain ⟨e2, l2⟩ := sub_window a count2 ha hp2
  unfold partPartCompare
  rw [if_neg (by omega)]
  simp only []
  have hm1 := Nat.min_le_left (if count1 > s.len - pos1 then s.len - pos1 else count1)
    (if count2 > len2 - pos2 then len2 - pos2 else count2)
  have hm2 := Nat.min_le_right (if count1 > s.len - pos1 then s.len - pos1 else count1)
    (if count2 > len2 - pos2 then len2 - pos2 else count2)
  have b1 : (if count1 > s.len - pos1 then s.len - pos1 else count1) ≤ s.len - pos1 := by split <;> omega
  have b2 : (if count2 > len2 - pos2 then len2 - pos2 else count2) ≤ len2 - pos2 := by split <;> omega
  rw [memcmp_ok (by omega) (by omega), bindR_ok]
  congr 1
  apply compare_of_cmpSign l1 l2
  · rw [e1, List.take_take, Nat.min_eq_left hm1]
  · rw [e2, List.take_take, Nat.min_eq_left hm2]

theorem partCompare_abs {s : FStr} (hs : WF c s) (pos1 count1 : Nat) {a : List Byte} {len2 : Nat}
    (ha : len2 ≤ a.length) (hp : pos1 ≤ s.len) :
    partCompare s pos1 count1 a len2 =
      .ok (StdString.compare (((abs s).drop pos1).take count1) (a.take len2)) := by
  have := hs.1; have := hs.2.1
  obtain ⟨e1, l1⟩ := sub_window s.buf count1 (show s.len ≤ s.buf.length by omega) hp
  have l2 : (a.take len2).length = len2 := by rw [List.length_take]; omega
  unfold partCompare
  rw [if_neg (by omega)]
  simp only []
  have hm1 := Nat.min_le_left (if count1 > s.len - pos1 then s.len - pos1 else count1) len2
  have hm2 := Nat.min_le_right (if count1 > s.len - pos1 then s.len - pos1 else count1) len2
  have b1 : (if count1 > s.len - pos1 then s.len - pos1 else count1) ≤ s.len - pos1 := by split <;> omega
  rw [memcmp_ok (by omega) (by omega), bindR_ok]
  congr 1
  apply compare_of_cmpSign l1 l2
  · rw [e1, List.take_take, Nat.min_eq_left hm1]
  · rw [List.take_take, Nat.min_eq_left hm2, List.drop_zero]

/-! ### c_str() -/

theorem ofCStr_take_of_nul : ∀ (a : List Nat) (k : Nat), a[k]? = some 0 →
    StdString.ofCStr (a.take k) = StdString.ofCStr a
  | [], k, h => by simp at h
  | x :: xs, 0, h => by
    have hx : x = 0 := by simpa using h
    subst hx
    simp [StdString.ofCStr]
  | x :: xs, k + 1, h => by
    have h' : xs[k]? = some 0 := by simpa using h
    rw [List.take_succ_cons]
    unfold StdString.ofCStr
    by_cases hx : x = 0
    · rw [if_pos hx, if_pos hx]
    · rw [if_neg hx, if_neg hx, ofCStr_take_of_nul xs k h']

theorem cstrView_abs {s : FStr} (hs : WF c s) : cstrView s = .ok (StdString.ofCStr (abs s)) := by
  have hm : 0 ∈ s.buf := List.mem_of_getElem? hs.2.2
  obtain ⟨n, h1, h2, h3⟩ := cstrlen_of_mem hm
  unfold cstrView abs
  rw [h1, bindR_ok, Mem.read_ok (by omega), ofCStr_take_of_nul _ _ hs.2.2, h3, List.drop_zero]

end CelmaVerif.FixedString
