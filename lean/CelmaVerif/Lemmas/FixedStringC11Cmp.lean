import CelmaVerif.Lemmas.FixedStringC11Obs
namespace CelmaVerif.FixedString
open CelmaVerif
variable {c : Cfg}

/-
  C11, observers (second part): the partial compares, `c_str()`, the single-character
  `starts_with`/`ends_with`/`contains` and the substring `contains` return what the corresponding
  `std::string` operation (Model/StdString.lean) returns on the text held, `abs s`.
-/

/-! ### C strings -/

theorem cstrlenAux_take : ∀ (a : List Nat) (k m : Nat), cstrlenAux a k = .ok m →
    k ≤ m ∧ StdString.ofCStr a = a.take (m - k)
  | [], k, m, h => by unfold cstrlenAux at h; cases h
  | x :: xs, k, m, h => by
    unfold cstrlenAux at h
    unfold StdString.ofCStr
    by_cases hx : x = 0
    · rw [if_pos hx] at h
      rw [if_pos hx]
      cases h
      refine ⟨Nat.le_refl _, ?_⟩
      rw [Nat.sub_self]; rfl
    · rw [if_neg hx] at h
      rw [if_neg hx]
      obtain ⟨h1, h2⟩ := cstrlenAux_take xs (k + 1) m h
      refine ⟨by omega, ?_⟩
      have : m - k = (m - (k + 1)) + 1 := by omega
      rw [this, List.take_succ_cons, h2]

theorem ofCStr_take {a : List Byte} {n : Nat} (h : cstrlen a = .ok n) : StdString.ofCStr a = a.take n := by
  unfold cstrlen at h
  have := (cstrlenAux_take a 0 n h).2
  rw [Nat.sub_zero] at this
  exact this

theorem cstrlen_of_mem {a : List Byte} (h : 0 ∈ a) :
    ∃ n, cstrlen a = .ok n ∧ n < a.length ∧ StdString.ofCStr a = a.take n := by
  obtain ⟨n, h1, h2, _⟩ := cstrlen_ok a h
  exact ⟨n, h1, h2, ofCStr_take h1⟩

/-! ### compare( pos1, count1, ...) -/

/-- `basic_string_view( b, len).substr( pos, count)` as a window of the allocation `b` -/
theorem sub_window (b : List Nat) {len pos : Nat} (count : Nat) (hlen : len ≤ b.length) (hpos : pos ≤ len) :
    ((b.take len).drop pos).take count
        = (b.drop pos).take (if count > len - pos then len - pos else count) ∧
    (((b.take len).drop pos).take count).length = (if count > len - pos then len - pos else count) := by
  have e : ((b.take len).drop pos).take count
        = (b.drop pos).take (if count > len - pos then len - pos else count) := by
    rw [List.drop_take, List.take_take]
    congr 1
    split <;> omega
  refine ⟨e, ?_⟩
  rw [e, List.length_take, List.length_drop]
  split <;> omega

theorem compare_of_cmpSign {x y p q : List Nat} {l1 l2 : Nat} (hx : x.length = l1) (hy : y.length = l2)
    (hp : x.take (min l1 l2) = p) (hq : y.take (min l1 l2) = q) :
    (if cmpSign p q = 0 then (if l1 > l2 then 1 else if l1 < l2 then -1 else 0) else cmpSign p q)
      = StdString.compare x y := by
  subst hx hy hp hq
  rw [compare_eq_cmpSign]

theorem partPartCompare_abs {s : FStr} (hs : WF c s) (pos1 count1 : Nat) {a : List Byte} {len2 : Nat}
    (ha : len2 ≤ a.length) (pos2 count2 : Nat) (hp1 : pos1 ≤ s.len) (hp2 : pos2 ≤ len2) :
    partPartCompare s pos1 count1 a len2 pos2 count2 =
      .ok (StdString.compare (((abs s).drop pos1).take count1) (((a.take len2).drop pos2).take count2)) := by
  have := hs.1; have := hs.2.1
  obtain ⟨e1, l1⟩ := sub_window s.buf count1 (show s.len ≤ s.buf.length by omega) hp1
  obtain ⟨e2, l2⟩ := sub_window a count2 ha hp2
  unfold partPartCompare
  rw [if_neg (by omega)]
  simp only []
  have hm1 := Nat.min_le_left (if count1 > s.len - pos1 then s.len - pos1 else count1)
    (if count2 > len2 - pos2 then len2 - pos2 else count2)
  have hm2 := Nat.min_le_right (if count1 > s.len - pos1 then s.len - pos1 else count1)
    (if count2 > len2 - pos2 then len2 - pos2 else count2)
  have b1 : (if count1 > s.len - pos1 then s.len - pos1 else count1) ≤ s.len - pos1 := by split <;> omega
  have b2 : (if count2 > len2 - pos2 then len2 - pos2 else count2) ≤ len2 - pos2 := by split <;> omega
  rw [memcmp_ok (by omega) (by omega), bindR_ok]
  congr 1
  apply compare_of_cmpSign l1 l2
  · rw [e1, List.take_take, Nat.min_eq_left hm1]
  · rw [e2, List.take_take, Nat.min_eq_left hm2]

theorem partCompare_abs {s : FStr} (hs : WF c s) (pos1 count1 : Nat) {a : List Byte} {len2 : Nat}
    (ha : len2 ≤ a.length) (hp : pos1 ≤ s.len) :
    partCompare s pos1 count1 a len2 =
      .ok (StdString.compare (((abs s).drop pos1).take count1) (a.take len2)) := by
  have := hs.1; have := hs.2.1
  obtain ⟨e1, l1⟩ := sub_window s.buf count1 (show s.len ≤ s.buf.length by omega) hp
  have l2 : (a.take len2).length = len2 := by rw [List.length_take]; omega
  unfold partCompare
  rw [if_neg (by omega)]
  simp only []
  have hm1 := Nat.min_le_left (if count1 > s.len - pos1 then s.len - pos1 else count1) len2
  have hm2 := Nat.min_le_right (if count1 > s.len - pos1 then s.len - pos1 else count1) len2
  have b1 : (if count1 > s.len - pos1 then s.len - pos1 else count1) ≤ s.len - pos1 := by split <;> omega
  rw [memcmp_ok (by omega) (by omega), bindR_ok]
  congr 1
  apply compare_of_cmpSign l1 l2
  · rw [e1, List.take_take, Nat.min_eq_left hm1]
  · rw [List.take_take, Nat.min_eq_left hm2, List.drop_zero]

/-! ### c_str() -/

theorem ofCStr_take_of_nul : ∀ (a : List Nat) (k : Nat), a[k]? = some 0 →
    StdString.ofCStr (a.take k) = StdString.ofCStr a
  | [], k, h => by simp at h
  | x :: xs, 0, h => by
    have hx : x = 0 := by simpa using h
    subst hx
    simp [StdString.ofCStr]
  | x :: xs, k + 1, h => by
    have h' : xs[k]? = some 0 := by simpa using h
    rw [List.take_succ_cons]
    unfold StdString.ofCStr
    by_cases hx : x = 0
    · rw [if_pos hx, if_pos hx]
    · rw [if_neg hx, if_neg hx, ofCStr_take_of_nul xs k h']

theorem cstrView_abs {s : FStr} (hs : WF c s) : cstrView s = .ok (StdString.ofCStr (abs s)) := by
  have hm : 0 ∈ s.buf := List.mem_of_getElem? hs.2.2
  obtain ⟨n, h1, h2, h3⟩ := cstrlen_of_mem hm
  unfold cstrView abs
  rw [h1, bindR_ok, Mem.read_ok (by omega), ofCStr_take_of_nul _ _ hs.2.2, h3, List.drop_zero]

/-! ### starts_with( ch), ends_with( ch) -/

theorem startsWithCh_abs {s : FStr} (hs : WF c s) (ch : Byte) :
    startsWithCh s ch = .ok (StdString.startsWith (abs s) [ch]) := by
  have := hs.1; have := hs.2.1
  unfold startsWithCh StdString.startsWith get1
  split
  · rename_i h
    rw [List.getElem?_eq_getElem (by omega), bindR_ok]
    congr 1
    apply Bool.eq_iff_iff.mpr
    rw [decide_eq_true_iff, isPrefixOf_iff_take]
    unfold abs
    rw [List.take_take]
    have : min [ch].length s.len = 0 + 1 := by simp; omega
    rw [this, List.take_succ_eq_append_getElem (by omega)]
    simp
  · rename_i h
    have : s.len = 0 := by omega
    unfold abs; rw [this]; simp

theorem endsWithCh_abs {s : FStr} (hs : WF c s) (ch : Byte) :
    endsWithCh s ch = .ok (StdString.endsWith (abs s) [ch]) := by
  have := hs.1; have := hs.2.1
  have hl := abs_length hs
  unfold endsWithCh StdString.endsWith get1
  split
  · rename_i h
    rw [List.getElem?_eq_getElem (by omega), bindR_ok]
    congr 1
    apply Bool.eq_iff_iff.mpr
    rw [decide_eq_true_iff, isSuffix_iff_drop, hl]
    unfold abs
    rw [List.drop_take]
    have : s.len - ([ch].length) = s.len - 1 := by simp
    rw [this]
    have : s.len - (s.len - 1) = 0 + 1 := by omega
    rw [this, List.take_succ_eq_append_getElem (by rw [List.length_drop]; omega)]
    simp
  · rename_i h
    have : s.len = 0 := by omega
    unfold abs; rw [this]; simp

/-! ### contains -/

theorem findFrom_drop_step (pat x : List Nat) {idx : Nat} (h : idx < x.length) :
    StdString.findFrom pat (x.drop idx) idx =
      if pat.isPrefixOf (x.drop idx) then some idx else StdString.findFrom pat (x.drop (idx + 1)) (idx + 1) := by
  rw [List.drop_eq_getElem_cons h]
  rfl
theorem findFrom_none_of_short (pat : List Nat) : ∀ (x : List Nat) (i : Nat), x.length < pat.length →
    StdString.findFrom pat x i = none
  | [], i, h => by
    unfold StdString.findFrom
    have : pat.isEmpty = false := by
      cases pat with
      | nil => simp at h
      | cons _ _ => rfl
    rw [this]; rfl
  | y :: ys, i, h => by
    unfold StdString.findFrom
    have hp : pat.isPrefixOf (y :: ys) = false := by
      apply Bool.eq_false_iff.mpr
      intro hp
      have := congrArg List.length ((isPrefixOf_iff_take _ _).mp hp)
      rw [List.length_take] at this
      omega
    rw [hp]
    simp only [Bool.false_eq_true, if_false]
    exact findFrom_none_of_short pat ys (i + 1) (by simp at h; omega)

theorem contains_eq (x pat : List Nat) :
    StdString.contains x pat = (StdString.findFrom pat (x.drop 0) 0).isSome := by
  unfold StdString.contains StdString.find
  rw [if_neg (by omega)]

theorem containsChLoop_abs {s : FStr} (hs : WF c s) (ch : Byte) (fuel : Nat) : ∀ (idx : Nat),
    idx + fuel = s.len →
    containsChLoop s ch fuel idx = .ok (StdString.findFrom [ch] ((abs s).drop idx) idx).isSome := by
  have := hs.1; have := hs.2.1
  have hl := abs_length hs
  induction fuel with
  | zero =>
    intro idx h
    rw [List.drop_eq_nil_of_le (by omega)]
    rfl
  | succ n ih =>
    intro idx h
    have hi : idx < (abs s).length := by omega
    unfold containsChLoop get1
    rw [List.getElem?_eq_getElem (by omega), bindR_ok, findFrom_drop_step _ _ hi,
      List.drop_eq_getElem_cons hi]
    have hg : (abs s)[idx] = s.buf[idx]'(by omega) := by simp only [abs, List.getElem_take]
    rw [hg]
    by_cases hx : s.buf[idx]'(by omega) = ch
    · rw [if_pos hx, if_pos (by simp [List.isPrefixOf, hx])]
      rfl
    · rw [if_neg hx, if_neg (by simp [List.isPrefixOf]; exact fun h => hx h.symm)]
      exact ih (idx + 1) (by omega)

theorem containsCh_abs {s : FStr} (hs : WF c s) (ch : Byte) :
    containsCh s ch = .ok (StdString.contains (abs s) [ch]) := by
  unfold containsCh
  rw [containsChLoop_abs hs ch s.len 0 (by omega), contains_eq]

/-- the window of the text at `idx` matches the search string iff `memcmp` says so -/
theorem window_match {s : FStr} (hs : WF c s) {a : List Byte} {n idx : Nat} (ha : n ≤ a.length)
    (hi : idx + n ≤ s.len) :
    (a.take n).isPrefixOf ((abs s).drop idx) = true ↔
      cmpSign ((s.buf.drop idx).take n) ((a.drop 0).take n) = 0 := by
  have := hs.1; have := hs.2.1
  have hla : (a.take n).length = n := by rw [List.length_take]; omega
  rw [isPrefixOf_iff_take, hla, List.drop_zero,
    cmpSign_eq_zero _ _ (by rw [List.length_take, List.length_take, List.length_drop]; omega)]
  unfold abs
  rw [List.drop_take, List.take_take, Nat.min_eq_left (by omega)]

/-- a match starts with the first character of the search string -/
theorem window_first {x pat : List Nat} {idx : Nat} (hi : idx < x.length) (hp : 0 < pat.length)
    (h : pat.isPrefixOf (x.drop idx) = true) : x[idx] = pat[0] := by
  rw [List.drop_eq_getElem_cons hi] at h
  cases pat with
  | nil => simp at hp
  | cons p ps =>
    simp [List.isPrefixOf] at h
    exact h.1.symm

theorem containsLoop_abs {s : FStr} (hs : WF c s) {a : List Byte} {n : Nat} (ha : n ≤ a.length) (hn : 0 < n)
    (hns : n ≤ s.len) (fuel : Nat) : ∀ (idx : Nat), idx + fuel = s.len - n + 1 →
    containsLoop s a n fuel idx = .ok (StdString.findFrom (a.take n) ((abs s).drop idx) idx).isSome := by
  have := hs.1; have := hs.2.1
  have hl := abs_length hs
  have hla : (a.take n).length = n := by rw [List.length_take]; omega
  induction fuel with
  | zero =>
    intro idx h
    rw [findFrom_none_of_short _ _ _ (by rw [List.length_drop, hla, hl]; omega)]
    rfl
  | succ m ih =>
    intro idx h
    have hi : idx < (abs s).length := by omega
    have hwm := window_match hs ha (show idx + n ≤ s.len by omega)
    unfold containsLoop get1
    rw [List.getElem?_eq_getElem (show idx < s.buf.length by omega), bindR_ok,
      List.getElem?_eq_getElem (show 0 < a.length by omega), bindR_ok, findFrom_drop_step _ _ hi]
    by_cases hx : s.buf[idx]'(by omega) = a[0]'(by omega)
    · rw [if_pos hx, memcmp_ok (by omega) (by omega), bindR_ok]
      by_cases hr : cmpSign ((s.buf.drop idx).take n) ((a.drop 0).take n) = 0
      · rw [if_pos hr, if_pos (hwm.mpr hr)]
        rfl
      · rw [if_neg hr, if_neg (fun h => hr (hwm.mp h))]
        exact ih (idx + 1) (by omega)
    · rw [if_neg hx]
      have hnp : ¬ (a.take n).isPrefixOf ((abs s).drop idx) = true := by
        intro hp
        have := window_first hi (by omega) hp
        apply hx
        have e1 : (abs s)[idx] = s.buf[idx]'(by omega) := by simp only [abs, List.getElem_take]
        have e2 : (a.take n)[0]'(by omega) = a[0]'(by omega) := by simp only [List.getElem_take]
        rw [← e1, ← e2]; exact this
      rw [if_neg hnp]
      exact ih (idx + 1) (by omega)

theorem containsImpl_abs {s : FStr} (hs : WF c s) {a : List Byte} {n : Nat} (ha : n ≤ a.length) (hn : 0 < n) :
    containsImpl s a n = .ok (StdString.contains (abs s) (a.take n)) := by
  have hl := abs_length hs
  have hla : (a.take n).length = n := by rw [List.length_take]; omega
  unfold containsImpl
  by_cases h : n = 0 ∨ s.len = 0 ∨ n > s.len
  · rw [if_pos h, contains_eq, findFrom_none_of_short _ _ _ (by rw [List.length_drop, hla, hl]; omega)]
    rfl
  · rw [if_neg h, containsLoop_abs hs ha hn (by omega) _ 0 (by omega), contains_eq]


/-- the one argument where `contains` differs from `std::string::contains`: the empty search string
    is reported as not contained -/
theorem containsImpl_zero (s : FStr) (a : List Byte) :
    containsImpl s a 0 = .ok false ∧ StdString.contains (abs s) (a.take 0) = true := by
  refine ⟨by unfold containsImpl; rw [if_pos (Or.inl rfl)], ?_⟩
  rw [contains_eq, List.take_zero, List.drop_zero]
  cases abs s <;> rfl

end CelmaVerif.FixedString
