import CelmaVerif.Lemmas.GroupsPick
/-
  The constraint container of the merged handler seen through a member of a group: the member's
  container is the merged one restricted (`List.filter`) to the keys that belong to the member, as
  long as keys that equal each other belong to the same member.
-/
namespace CelmaVerif.ProgArgs
open CelmaVerif CelmaVerif.Keys

/-- restriction of a constraint container to the keys selected by `S` -/
def pfilter (S : Key → Bool) (P : List (Key × CType)) : List (Key × CType) := P.filter (fun e => S e.1)

theorem pfilter_nil (S : Key → Bool) : pfilter S [] = [] := rfl

theorem pfilter_cons (S : Key → Bool) (e : Key × CType) (P : List (Key × CType)) :
    pfilter S (e :: P) = if S e.1 then e :: pfilter S P else pfilter S P := by
  unfold pfilter
  rw [List.filter_cons]

theorem pfilter_append (S : Key → Bool) (P Q : List (Key × CType)) :
    pfilter S (P ++ Q) = pfilter S P ++ pfilter S Q := List.filter_append ..

theorem mem_pfilter {S : Key → Bool} {P : List (Key × CType)} {e : Key × CType} :
    e ∈ pfilter S P ↔ e ∈ P ∧ S e.1 = true := List.mem_filter

theorem pendingFind_filter (S : Key → Bool) (k : Key) (P : List (Key × CType))
    (hcl : ∀ e ∈ P, e.1.eq k = true → S e.1 = true) : pendingFind k (pfilter S P) = pendingFind k P := by
  induction P with
  | nil => rfl
  | cons e P ih =>
    have ih' := ih (fun x hx => hcl x (List.mem_cons_of_mem _ hx))
    rw [pfilter_cons]
    by_cases hek : e.1.eq k = true
    · rw [if_pos (hcl e (List.mem_cons_self ..) hek)]
      simp only [pendingFind, if_pos hek]
    · by_cases hs : S e.1 = true
      · rw [if_pos hs]
        simp only [pendingFind, if_neg hek]
        exact ih'
      · rw [if_neg hs]
        simp only [pendingFind, if_neg hek]
        exact ih'

theorem pendingFind_mem {k : Key} {P : List (Key × CType)} {e : Key × CType} (h : pendingFind k P = some e) :
    e ∈ P ∧ e.1.eq k = true := by
  induction P with
  | nil => cases h
  | cons x P ih =>
    simp only [pendingFind] at h
    split at h
    · cases h; exact ⟨List.mem_cons_self .., by assumption⟩
    · exact ⟨List.mem_cons_of_mem _ (ih h).1, (ih h).2⟩

/-- adding keys that belong to the member -/
theorem pendingAdd_filter_in (S : Key → Bool) (ct : CType) (ks : List Key) :
    ∀ (P : List (Key × CType)), (∀ k ∈ ks, S k = true) →
      (∀ e ∈ P, ∀ k ∈ ks, e.1.eq k = true → S e.1 = true) →
      pfilter S (pendingAdd ct ks P) = pendingAdd ct ks (pfilter S P) := by
  induction ks with
  | nil => intro P _ _; rfl
  | cons k ks ih =>
    intro P hks hcl
    have hks' : ∀ k' ∈ ks, S k' = true := fun x hx => hks x (List.mem_cons_of_mem _ hx)
    have hcl' : ∀ e ∈ P, ∀ k' ∈ ks, e.1.eq k' = true → S e.1 = true :=
      fun e he x hx => hcl e he x (List.mem_cons_of_mem _ hx)
    have hclk : ∀ e ∈ P, e.1.eq k = true → S e.1 = true := fun e he => hcl e he k (List.mem_cons_self ..)
    have hnew : ∀ e ∈ P ++ [(k, ct)], ∀ k' ∈ ks, e.1.eq k' = true → S e.1 = true := by
      intro e he x hx hex
      rcases List.mem_append.mp he with he | he
      · exact hcl' e he x hx hex
      · simp only [List.mem_singleton] at he
        subst he
        exact hks k (List.mem_cons_self ..)
    have hsk : S k = true := hks k (List.mem_cons_self ..)
    have happ : pfilter S (P ++ [(k, ct)]) = pfilter S P ++ [(k, ct)] := by
      rw [pfilter_append, pfilter_cons, if_pos hsk, pfilter_nil]
    simp only [pendingAdd]
    rw [pendingFind_filter S k P hclk]
    cases pendingFind k P with
    | none =>
      simp only
      rw [ih _ hks' hnew, happ]
    | some e =>
      simp only
      split
      · exact ih P hks' hcl'
      · rw [ih _ hks' hnew, happ]

/-- adding keys that do not belong to the member -/
theorem pendingAdd_filter_out (S : Key → Bool) (ct : CType) (ks : List Key) :
    ∀ (P : List (Key × CType)), (∀ k ∈ ks, S k = false) → pfilter S (pendingAdd ct ks P) = pfilter S P := by
  induction ks with
  | nil => intro P _; rfl
  | cons k ks ih =>
    intro P hks
    have hks' : ∀ k' ∈ ks, S k' = false := fun x hx => hks x (List.mem_cons_of_mem _ hx)
    have hsk : S k = false := hks k (List.mem_cons_self ..)
    have happ : pfilter S (P ++ [(k, ct)]) = pfilter S P := by
      rw [pfilter_append, pfilter_cons, hsk, pfilter_nil]; simp
    simp only [pendingAdd]
    cases pendingFind k P with
    | none => simp only; rw [ih _ hks', happ]
    | some e =>
      simp only
      split
      · exact ih P hks'
      · rw [ih _ hks', happ]

theorem pendingAdd_mem (ct : CType) (ks : List Key) : ∀ (P : List (Key × CType)) (e : Key × CType),
    e ∈ pendingAdd ct ks P → e ∈ P ∨ e.1 ∈ ks := by
  induction ks with
  | nil => intro P e h; exact Or.inl h
  | cons k ks ih =>
    intro P e h
    have hstep : e ∈ pendingAdd ct ks (P ++ [(k, ct)]) → e ∈ P ∨ e.1 ∈ k :: ks := by
      intro h'
      rcases ih _ e h' with h1 | h1
      · rcases List.mem_append.mp h1 with h2 | h2
        · exact Or.inl h2
        · simp only [List.mem_singleton] at h2
          subst h2
          exact Or.inr (List.mem_cons_self ..)
      · exact Or.inr (List.mem_cons_of_mem _ h1)
    simp only [pendingAdd] at h
    cases hf : pendingFind k P with
    | none => rw [hf] at h; exact hstep h
    | some x =>
      rw [hf] at h
      simp only at h
      split at h
      · rcases ih _ e h with h1 | h1
        · exact Or.inl h1
        · exact Or.inr (List.mem_cons_of_mem _ h1)
      · exact hstep h

theorem activate_mem : ∀ (cs : List (CType × List Key)) (P : List (Key × CType)) (e : Key × CType),
    e ∈ activateConstraints cs P → e ∈ P ∨ ∃ c ∈ cs, e.1 ∈ c.2 := by
  intro cs
  induction cs with
  | nil => intro P e h; exact Or.inl h
  | cons c cs ih =>
    intro P e h
    obtain ⟨ct, ks⟩ := c
    simp only [activateConstraints] at h
    rcases ih _ e h with h1 | ⟨c', hc', h1⟩
    · rcases pendingAdd_mem ct ks P e h1 with h2 | h2
      · exact Or.inl h2
      · exact Or.inr ⟨(ct, ks), List.mem_cons_self .., h2⟩
    · exact Or.inr ⟨c', List.mem_cons_of_mem _ hc', h1⟩

/-- activating the constraints of an argument of the member -/
theorem activate_filter_in (S : Key → Bool) : ∀ (cs : List (CType × List Key)) (P : List (Key × CType)),
    (∀ c ∈ cs, ∀ k ∈ c.2, S k = true) →
    (∀ e ∈ P, ∀ c ∈ cs, ∀ k ∈ c.2, e.1.eq k = true → S e.1 = true) →
    pfilter S (activateConstraints cs P) = activateConstraints cs (pfilter S P) := by
  intro cs
  induction cs with
  | nil => intro P _ _; rfl
  | cons c cs ih =>
    intro P hks hcl
    obtain ⟨ct, ks⟩ := c
    simp only [activateConstraints]
    have hks0 : ∀ k ∈ ks, S k = true := hks (ct, ks) (List.mem_cons_self ..)
    rw [ih _ (fun c hc => hks c (List.mem_cons_of_mem _ hc))]
    · rw [pendingAdd_filter_in S ct ks P hks0 (fun e he k hk => hcl e he (ct, ks) (List.mem_cons_self ..) k hk)]
    · intro e he c hc k hk hek
      rcases pendingAdd_mem ct ks P e he with h1 | h1
      · exact hcl e h1 c (List.mem_cons_of_mem _ hc) k hk hek
      · exact hks0 _ h1

/-- activating the constraints of an argument of another member -/
theorem activate_filter_out (S : Key → Bool) : ∀ (cs : List (CType × List Key)) (P : List (Key × CType)),
    (∀ c ∈ cs, ∀ k ∈ c.2, S k = false) → pfilter S (activateConstraints cs P) = pfilter S P := by
  intro cs
  induction cs with
  | nil => intro P _; rfl
  | cons c cs ih =>
    intro P hks
    obtain ⟨ct, ks⟩ := c
    simp only [activateConstraints]
    rw [ih _ (fun c hc => hks c (List.mem_cons_of_mem _ hc)),
      pendingAdd_filter_out S ct ks P (hks (ct, ks) (List.mem_cons_self ..))]

/-- an identified argument of the member: the member's container reacts as the merged one -/
theorem pendingIdentified_filter_in (S : Key → Bool) (k : Key) (P : List (Key × CType))
    (hcl : ∀ e ∈ P, e.1.eq k = true → S e.1 = true) :
    pendingIdentified k (pfilter S P) = (pendingIdentified k P >>= fun P' => pure (pfilter S P')) := by
  induction P with
  | nil => rfl
  | cons e P ih =>
    have ih' := ih (fun x hx => hcl x (List.mem_cons_of_mem _ hx))
    rw [pfilter_cons]
    by_cases hek : e.1.eq k = true
    · rw [if_pos (hcl e (List.mem_cons_self ..) hek)]
      simp only [pendingIdentified, if_pos hek]
      cases e.2 with
      | required => exact ih'
      | excluded => rfl
    · simp only [pendingIdentified, if_neg hek]
      by_cases hs : S e.1 = true
      · rw [if_pos hs]
        simp only [pendingIdentified, if_neg hek]
        rw [ih']
        cases pendingIdentified k P with
        | ok P' => simp [pfilter_cons, hs]
        | throw x => rfl
        | oob w => rfl
      · rw [if_neg hs, ih']
        cases pendingIdentified k P with
        | ok P' => simp [pfilter_cons, hs]
        | throw x => rfl
        | oob w => rfl

/-- an identified argument of another member leaves the member's container as it is -/
theorem pendingIdentified_filter_out (S : Key → Bool) (k : Key) : ∀ (P P' : List (Key × CType)),
    (∀ e ∈ P, e.1.eq k = true → S e.1 = false) → pendingIdentified k P = .ok P' → pfilter S P' = pfilter S P := by
  intro P
  induction P with
  | nil => intro P' _ h; cases h; rfl
  | cons e P ih =>
    intro P' hcl h
    have hcl' : ∀ x ∈ P, x.1.eq k = true → S x.1 = false := fun x hx => hcl x (List.mem_cons_of_mem _ hx)
    simp only [pendingIdentified] at h
    by_cases hek : e.1.eq k = true
    · rw [if_pos hek] at h
      rw [pfilter_cons, hcl e (List.mem_cons_self ..) hek]
      cases he2 : e.2 with
      | required => rw [he2] at h; simpa using ih P' hcl' h
      | excluded => rw [he2] at h; cases h
    · rw [if_neg hek, bind_eq_ok_g] at h
      obtain ⟨r, hr, h⟩ := h
      cases h
      rw [pfilter_cons, pfilter_cons, ih r hcl' hr]

theorem pendingIdentified_sub (k : Key) : ∀ (P P' : List (Key × CType)), pendingIdentified k P = .ok P' →
    ∀ e ∈ P', e ∈ P := by
  intro P
  induction P with
  | nil => intro P' h; cases h; simp
  | cons x P ih =>
    intro P' h e he
    simp only [pendingIdentified] at h
    split at h
    · cases hx2 : x.2 with
      | required => rw [hx2] at h; exact List.mem_cons_of_mem _ (ih P' h e he)
      | excluded => rw [hx2] at h; cases h
    · rw [bind_eq_ok_g] at h
      obtain ⟨r, hr, h⟩ := h
      cases h
      rcases List.mem_cons.mp he with rfl | he
      · exact List.mem_cons_self ..
      · exact List.mem_cons_of_mem _ (ih r hr e he)

/-- `pendingIdentified` only throws `std::runtime_error` -/
theorem pendingIdentified_cases (k : Key) (P : List (Key × CType)) :
    (∃ P', pendingIdentified k P = .ok P') ∨ pendingIdentified k P = .throw .runtime_error := by
  induction P with
  | nil => exact Or.inl ⟨_, rfl⟩
  | cons e P ih =>
    simp only [pendingIdentified]
    split
    · cases e.2 with
      | required => exact ih
      | excluded => exact Or.inr rfl
    · rcases ih with ⟨P', h⟩ | h
      · rw [h]; exact Or.inl ⟨_, rfl⟩
      · rw [h]; exact Or.inr rfl

end CelmaVerif.ProgArgs
