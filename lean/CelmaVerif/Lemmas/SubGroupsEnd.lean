import CelmaVerif.Lemmas.Groups
import CelmaVerif.Lemmas.RulesArgs
import CelmaVerif.Model.ProgArgs.SubGroups
/-
  End-of-evaluation checks of a handler with sub-group arguments: what `Handler::evalArguments`
  checks at the end is exactly what `Groups::evalArguments` checks per member
  (`checkMissingMandatoryCardinality()` = both containers, `checkRequired()`,
  `checkGlobalConstraints()`), and what the check on `mSubGroupArgs` means per sub-group argument.
-/
namespace CelmaVerif.ProgArgs
open CelmaVerif CelmaVerif.Keys

theorem memberEndChecksT_ok_iff (c : TCfg) (t : TState) :
    memberEndChecksT c t = .ok () ↔
      checkMandatoryCardinality c.main.args t.main.args = .ok () ∧
      checkSubMandatoryCardinality c.subs t.subArgs = .ok () ∧
      pendingCheckRequired t.main.pending = .ok () ∧
      checkGlobals c.main.args t.main.args c.main.globals t.main.globals = .ok () := by
  unfold memberEndChecksT
  simp only [bind_eq_ok_g]
  constructor
  · rintro ⟨⟨⟩, h1, ⟨⟩, h2, ⟨⟩, h3, h4⟩; exact ⟨h1, h2, h3, h4⟩
  · rintro ⟨h1, h2, h3, h4⟩; exact ⟨(), h1, (), h2, (), h3, h4⟩

/-- the stand-alone final checks succeed exactly when the member checks of `Groups` succeed on the
    same configuration and state (they then only forget the last argument) -/
theorem endChecksT_ok_iff (cfg : TCfg) (t t' : TState) :
    endChecksT cfg t = .ok t' ↔
      t' = { t with main := { t.main with lastArg := none } } ∧ memberEndChecksT cfg t = .ok () := by
  rw [memberEndChecksT_ok_iff]
  unfold endChecksT
  simp only [bind_eq_ok_g, Res.pure_eq, Res.ok.injEq]
  constructor
  · rintro ⟨⟨⟩, h1, ⟨⟩, h2, ⟨⟩, h3, ⟨⟩, h4, rfl⟩; exact ⟨rfl, h1, h2, h3, h4⟩
  · rintro ⟨rfl, h1, h2, h3, h4⟩; exact ⟨(), h1, (), h2, (), h3, (), h4, rfl⟩

/-- … and they fail with the same exception -/
theorem endChecksT_throw_iff (cfg : TCfg) (t : TState) (e : Exc) :
    endChecksT cfg t = .throw e ↔ memberEndChecksT cfg t = .throw e := by
  unfold endChecksT memberEndChecksT
  dsimp only
  cases checkMandatoryCardinality cfg.main.args t.main.args with
  | ok _ =>
    simp only [Res.bind_ok]
    cases checkSubMandatoryCardinality cfg.subs t.subArgs with
    | ok _ =>
      simp only [Res.bind_ok]
      cases pendingCheckRequired t.main.pending with
      | ok _ =>
        simp only [Res.bind_ok]
        cases checkGlobals cfg.main.args t.main.args cfg.main.globals t.main.globals <;> simp
      | throw e' => simp
      | oob w => simp
    | throw e' => simp
    | oob w => simp
  | throw e' => simp
  | oob w => simp

theorem groupsEndChecksT_ok_iff (ms : List (TCfg × TState)) :
    groupsEndChecksT ms = .ok () ↔ ∀ m ∈ ms, memberEndChecksT m.1 m.2 = .ok () := by
  induction ms with
  | nil => simp [groupsEndChecksT]
  | cons m ms ih =>
    obtain ⟨c, h⟩ := m
    simp only [groupsEndChecksT, bind_eq_ok_g, List.mem_cons, forall_eq_or_imp]
    rw [← ih]
    constructor
    · rintro ⟨⟨⟩, h1, h2⟩; exact ⟨h1, h2⟩
    · rintro ⟨h1, h2⟩; exact ⟨(), h1, h2⟩

theorem groupsEvalT_end_checks (cfg : TCfg) (inits : TInits) (am sm gm order : List Nat) (argv : List Word)
    (ms : List (TCfg × TState)) (h : groupsEvalT cfg inits am sm gm order argv = .ok ms) :
    ∀ m ∈ ms, memberEndChecksT m.1 m.2 = .ok () := by
  unfold groupsEvalT at h
  simp only [bind_eq_ok_g, Res.pure_eq, Res.ok.injEq] at h
  obtain ⟨_, _, ai, _, ms', _, ⟨⟩, h3, rfl⟩ := h
  exact (groupsEndChecksT_ok_iff ms').mp h3

theorem evalArgumentsT_end_checks (cfg : TCfg) (t t' : TState) (src : Sources) (argv : List Word)
    (h : evalArgumentsT cfg t src argv = .ok t') : memberEndChecksT cfg t' = .ok () := by
  unfold evalArgumentsT at h
  simp only [bind_eq_ok_g] at h
  obtain ⟨t1, _, t2, _, t3, _, h4⟩ := h
  obtain ⟨rfl, h5⟩ := (endChecksT_ok_iff cfg t3 t').mp h4
  exact h5

/-- what a passed check on `mSubGroupArgs` says about every sub-group argument: a mandatory one
    was used (`mWasCalled`), and the cardinality's end condition holds for the number of uses -/
theorem checkSub_ok (subs : List SubDef) (sts : List ArgSt)
    (h : checkSubMandatoryCardinality subs sts = .ok ()) (j : Nat) (d : SubDef) (st : ArgSt)
    (hd : subs[j]? = some d) (hs : sts[j]? = some st) :
    (d.mandatory = true → st.hasValueSet = true) ∧ d.card.check st.cnt = .ok () := by
  have := checkMandatoryCardinality_ok _ _ h j d.argDef st (by simp [hd]) hs
  refine ⟨?_, this.2⟩
  intro hm
  have h1 := this.1
  simp only [SubDef.argDef, hm, Bool.true_and, ArgSt.hasValue] at h1
  simpa using h1

/-- the check on `mSubGroupArgs` fails for a mandatory sub-group argument that was not used -/
theorem checkSub_mandatory_missing : ∀ (subs : List SubDef) (sts : List ArgSt) (j : Nat) (d : SubDef) (st : ArgSt),
    subs[j]? = some d → sts[j]? = some st → d.mandatory = true → st.hasValueSet = false →
    checkSubMandatoryCardinality subs sts ≠ .ok () := by
  intro subs sts j d st hd hs hm hv h
  have := (checkSub_ok subs sts h j d st hd hs).1 hm
  rw [hv] at this; cases this

end CelmaVerif.ProgArgs
