import CelmaVerif.Lemmas.FixedStringC11All
/-
  C11 — what `FixedString` does *outside* the documented domain `inDomain`, next to what `std::string` does
  there.  Every exclusion of `inDomain` that is not an error of the caller under `std::string`'s own rules
  (`pos > size()`, unreadable ranges) gets a pair of lemmas here: the answer of the code (model function,
  for every well-formed string) and the answer of the textbook (`Model/StdString.lean`).  The property
  theorems `C11_deviation_*` of Props/C11.lean are assembled from them.
-/
namespace CelmaVerif.FixedString
open CelmaVerif

variable {c : Cfg}

/-! ### the textbook side -/

theorem std_insert_at_end (x t : Str) : StdString.insert x x.length t = .ok (x ++ t) := by
  unfold StdString.insert
  rw [if_neg (Nat.lt_irrefl _), List.take_length, List.drop_length, List.append_nil]

/-- replacing an empty range inserts -/
theorem std_replace_empty_range (x r : Str) (i : Nat) (hi : i ≤ x.length) :
    StdString.replace x i 0 r = .ok (x.take i ++ r ++ x.drop i) := by
  unfold StdString.replace
  rw [if_neg (by omega), Nat.add_zero]

/-- replacing by an empty text erases -/
theorem std_replace_by_nothing (x : Str) (i n : Nat) (hi : i ≤ x.length) :
    StdString.replace x i n [] = .ok (x.take i ++ x.drop (i + n)) := by
  unfold StdString.replace
  rw [if_neg (by omega), List.append_nil]

theorem std_findFrom_nil (l : Str) (i : Nat) : StdString.findFrom [] l i = some i := by
  cases l <;> rfl

/-- the empty string is found at every position up to `size()` -/
theorem std_find_empty (x : Str) (pos : Nat) (hp : pos ≤ x.length) : StdString.find x [] pos = some pos := by
  unfold StdString.find
  rw [if_neg (by omega), std_findFrom_nil]

theorem std_contains_empty (x : Str) : StdString.contains x [] = true := by
  unfold StdString.contains
  rw [std_find_empty x 0 (Nat.zero_le _)]; rfl

theorem std_rfindUpTo_nil : ∀ (l : Str) (i lim : Nat) (best : Option Nat),
    StdString.rfindUpTo [] l i lim best = if i ≤ lim then some (min lim (i + l.length)) else best
  | [], i, lim, best => by
    unfold StdString.rfindUpTo
    by_cases h : i ≤ lim
    · rw [if_pos ⟨h, rfl⟩, if_pos h]; congr 1; simp only [List.length_nil]; omega
    · rw [if_neg (fun hh => h hh.1), if_neg h]
  | x :: xs, i, lim, best => by
    unfold StdString.rfindUpTo
    by_cases h : i > lim
    · rw [if_pos h, if_neg (show ¬ i ≤ lim by omega)]
    · rw [if_neg h, std_rfindUpTo_nil xs (i + 1) lim, if_pos (show i ≤ lim by omega)]
      have e : (if ([] : Str).isPrefixOf (x :: xs) = true then some i else best) = some i := rfl
      rw [e]
      by_cases h2 : i + 1 ≤ lim
      · rw [if_pos h2]; congr 1; simp only [List.length_cons]; omega
      · rw [if_neg h2]; congr 1; simp only [List.length_cons]; omega

/-- searching the empty string backwards finds it at `min( pos, size())` -/
theorem std_rfind_empty (x : Str) (pos : Nat) : StdString.rfind x [] pos = some (min pos x.length) := by
  unfold StdString.rfind
  rw [std_rfindUpTo_nil, if_pos (Nat.zero_le _), Nat.zero_add]

/-- no character is in the empty set: `find_first_not_of( "", pos)` is `pos` itself inside the string -/
theorem std_ffno_empty (x : Str) (pos : Nat) (hp : pos < x.length) :
    StdString.findFirstNotOf x [] pos = some pos := by
  unfold StdString.findFirstNotOf StdString.findFirst
  rw [if_neg (by omega)]
  have : x.drop pos = x[pos] :: x.drop (pos + 1) := List.drop_eq_getElem_cons hp
  rw [this]; rfl

/-- ... and `find_first_of( "", pos)` finds nothing (here the code agrees) -/
theorem std_findIdxFrom_false : ∀ (l : Str) (i : Nat), StdString.findIdxFrom (fun _ => false) l i = none
  | [], _ => rfl
  | _ :: xs, i => by unfold StdString.findIdxFrom; rw [if_neg (by simp)]; exact std_findIdxFrom_false xs (i + 1)

theorem std_ffo_empty (x : Str) (pos : Nat) : StdString.findFirstOf x [] pos = none := by
  unfold StdString.findFirstOf StdString.findFirst
  split
  · rfl
  · exact std_findIdxFrom_false _ _

/-- the backward searches of `std::string` clamp the start position: every `pos ≥ size()` gives the same answer -/
theorem std_rfindUpTo_lim (pat : Str) : ∀ (l : Str) (i lim lim' : Nat) (best : Option Nat),
    i + l.length ≤ lim → i + l.length ≤ lim' →
    StdString.rfindUpTo pat l i lim best = StdString.rfindUpTo pat l i lim' best
  | [], i, lim, lim', best, h, h' => by
    simp only [List.length_nil, Nat.add_zero] at h h'
    unfold StdString.rfindUpTo
    by_cases hp : pat.isEmpty = true
    · rw [if_pos ⟨h, hp⟩, if_pos ⟨h', hp⟩]
    · rw [if_neg (fun hh => hp hh.2), if_neg (fun hh => hp hh.2)]
  | x :: xs, i, lim, lim', best, h, h' => by
    simp only [List.length_cons] at h h'
    unfold StdString.rfindUpTo
    rw [if_neg (show ¬ i > lim by omega), if_neg (show ¬ i > lim' by omega)]
    exact std_rfindUpTo_lim pat xs (i + 1) lim lim' _ (by omega) (by omega)

theorem std_rfind_beyond (x pat : Str) (pos pos' : Nat) (h : x.length ≤ pos) (h' : x.length ≤ pos') :
    StdString.rfind x pat pos = StdString.rfind x pat pos' := by
  unfold StdString.rfind
  exact std_rfindUpTo_lim pat x 0 pos pos' none (by omega) (by omega)

theorem std_findIdxUpTo_lim (p : Byte → Bool) : ∀ (l : Str) (i lim lim' : Nat) (best : Option Nat),
    i + l.length ≤ lim + 1 → i + l.length ≤ lim' + 1 →
    StdString.findIdxUpTo p l i lim best = StdString.findIdxUpTo p l i lim' best
  | [], _, _, _, _, _, _ => rfl
  | x :: xs, i, lim, lim', best, h, h' => by
    simp only [List.length_cons] at h h'
    unfold StdString.findIdxUpTo
    rw [if_neg (show ¬ i > lim by omega), if_neg (show ¬ i > lim' by omega)]
    exact std_findIdxUpTo_lim p xs (i + 1) lim lim' _ (by omega) (by omega)

/-- `find_last_of` / `find_last_not_of`: every `pos ≥ size() - 1` gives the same answer -/
theorem std_findLast_beyond (x : Str) (p : Byte → Bool) (pos pos' : Nat) (h : x.length ≤ pos + 1)
    (h' : x.length ≤ pos' + 1) : StdString.findLast x p pos = StdString.findLast x p pos' := by
  unfold StdString.findLast
  exact std_findIdxUpTo_lim p x 0 pos pos' none (by omega) (by omega)

/-! ### the code side -/

/-- a count that reaches behind the terminator is cut at the terminator: `append( p, n)`, `replace( pos, cnt, p, n)`,
    `compare( pos, cnt, p, n)` and `rfind( p, pos, n)` with `n ≥ strlen( p)` do what they do with `n = strlen( p)` -/
theorem dev_count_clamped (c : Cfg) (s : FStr) {a : List Byte} {k : Nat} (hk : cstrlen a = .ok k) (n : Nat)
    (hn : k ≤ n) :
    appendPN c s a n = appendP c s a ∧
    (∀ p1 c1, replacePN c s p1 c1 a n = replaceP c s p1 c1 a) ∧
    (∀ p1 c1, partPartCompare s p1 c1 a k 0 n = partPartCompare s p1 c1 a k 0 k) ∧
    (∀ pos, rfindPN c s a pos n = rfindP c s a pos) := by
  refine ⟨?_, ?_, ?_, ?_⟩
  · unfold appendPN appendP; rw [hk, bindR_ok, bindR_ok, Nat.min_eq_right hn]
  · intro p1 c1; unfold replacePN replaceP; rw [hk, bindR_ok, bindR_ok, Nat.min_eq_right hn]
  · intro p1 c1
    unfold partPartCompare
    simp only [Nat.sub_zero]
    by_cases h : n > k
    · rw [if_pos h, if_neg (Nat.lt_irrefl k)]
    · have : n = k := by omega
      subst this; rfl
  · intro pos
    unfold rfindP; rw [hk, bindR_ok]
    unfold rfindPN
    by_cases h0 : s.len = 0
    · rw [if_pos h0, if_pos h0]
    · rw [if_neg h0, if_neg h0, hk, bindR_ok, bindR_ok]
      by_cases h1 : k = 0
      · rw [if_pos h1, if_pos h1]
      · rw [if_neg h1, if_neg h1]
        by_cases h : n > k
        · simp only [if_pos h, if_neg (Nat.lt_irrefl k)]
        · have : n = k := by omega
          subst this; rfl

/-- the textbook reading takes `n` bytes, i.e. more than the C string when `n > strlen( p)` -/
theorem dev_take_ne_ofCStr {a : List Byte} (h0 : (0 : Byte) ∈ a) {n : Nat} (hn : (StdString.ofCStr a).length < n) :
    a.take n ≠ StdString.ofCStr a := by
  obtain ⟨k, _, hlt, hof⟩ := cstrlen_of_mem h0
  intro he
  have h1 : (a.take n).length = (StdString.ofCStr a).length := by rw [he]
  rw [hof, List.length_take, List.length_take] at h1
  rw [hof, List.length_take] at hn
  omega

/-- `end()` (or an iterator built at a position `≥ size()`) as insert position: nothing is inserted -/
theorem dev_insert_at_end (c : Cfg) (s : FStr) (n ch : Nat) (il : Str) :
    insertItCh c s (itEnd c) n ch = .ok (s, itEnd c) ∧ insertItList c s (itEnd c) il = .ok (s, itEnd c) :=
  ⟨by unfold insertItCh; rw [if_pos rfl], by unfold insertItList; rw [if_pos rfl]⟩

theorem itOf_actsEnd {s : FStr} (hs : WF c s) {p : ItArg} (hp : actsEnd (abs s) p = true) : itOf c s p = itEnd c := by
  cases p with
  | fin => rfl
  | pos k =>
    simp only [actsEnd, abs_length hs, decide_eq_true_eq] at hp
    show itAt c s k = itEnd c
    unfold itAt; rw [if_pos hp]

theorem itPos_actsEnd {x : Str} {p : ItArg} (hp : actsEnd x p = true) : itPos x p = x.length := by
  cases p with
  | fin => rfl
  | pos k =>
    simp only [actsEnd, decide_eq_true_eq] at hp
    unfold itPos; exact Nat.min_eq_right hp

/-- an empty iterator range `[first, first)` as the part to replace: nothing happens (all six iterator overloads) -/
theorem dev_replace_empty_range (c : Cfg) (s o : FStr) (f x y : Nat) (d : Str) (i j : Nat) (a : List Byte) (n2 ch : Nat)
    (il : Str) :
    replaceItIt c s f f o x y = .ok s ∧ replaceItSIt c s f f d i j = .ok s ∧ replaceItPN c s f f a n2 = .ok s ∧
    replaceItP c s f f a = bindR (cstrlen a) (fun _ => .ok s) ∧ replaceItCh c s f f n2 ch = .ok s ∧
    replaceItList c s f f il = .ok s := by
  refine ⟨?_, ?_, ?_, ?_, ?_, ?_⟩
  · unfold replaceItIt; rw [if_pos (Or.inr (Or.inl rfl))]
  · unfold replaceItSIt; rw [if_pos (Or.inr (Or.inl rfl))]
  · unfold replaceItPN; rw [if_pos (Or.inl rfl)]
  · unfold replaceItP; congr 1; funext n; unfold replaceItPN; rw [if_pos (Or.inl rfl)]
  · unfold replaceItCh; rw [if_pos (Or.inr (Or.inl rfl))]
  · unfold replaceItList; split
    · rfl
    · unfold replaceItPN; rw [if_pos (Or.inl rfl)]

/-- an empty replacement text through the iterator overloads: nothing happens (std::string erases the range) -/
theorem dev_replace_by_nothing (c : Cfg) (s o : FStr) (f l x : Nat) (d : Str) (i : Nat) (a : List Byte) (ch : Nat) :
    replaceItIt c s f l o x x = .ok s ∧ replaceItSIt c s f l d i i = .ok s ∧ replaceItPN c s f l a 0 = .ok s ∧
    replaceItCh c s f l 0 ch = .ok s ∧ replaceItList c s f l [] = .ok s := by
  refine ⟨?_, ?_, ?_, ?_, ?_⟩
  · unfold replaceItIt; rw [if_pos (Or.inr (Or.inr rfl))]
  · unfold replaceItSIt; rw [if_pos (Or.inr (Or.inr rfl))]
  · unfold replaceItPN; rw [if_pos (Or.inr rfl)]
  · unfold replaceItCh; rw [if_pos (Or.inr (Or.inr rfl))]
  · unfold replaceItList; rw [if_pos (show ([] : Str).length = 0 from rfl)]

/-- `end()` as the first iterator of a range to replace or erase: nothing happens -/
theorem dev_range_from_end (c : Cfg) (s o : FStr) (l x y : Nat) (d : Str) (i j : Nat) (n2 ch : Nat) :
    replaceItIt c s (itEnd c) l o x y = .ok s ∧ replaceItSIt c s (itEnd c) l d i j = .ok s ∧
    replaceItCh c s (itEnd c) l n2 ch = .ok s ∧ eraseItIt c s (itEnd c) l = .ok (s, itEnd c) ∧
    eraseIt c s (itEnd c) = .ok (s, itEnd c) := by
  refine ⟨?_, ?_, ?_, ?_, ?_⟩
  · unfold replaceItIt; rw [if_pos (Or.inl rfl)]
  · unfold replaceItSIt; rw [if_pos (Or.inl rfl)]
  · unfold replaceItCh; rw [if_pos (Or.inl rfl)]
  · unfold eraseItIt; rw [if_pos (Or.inl rfl)]
  · unfold eraseIt; rw [if_pos rfl]

/-- an empty search string / character set is never found: `contains`, `find`, `rfind` and the four
    `find_*_of` families answer `false` / `npos` for every content and position -/
theorem dev_empty_needle (c : Cfg) (s : FStr) (a : List Byte) (pos : Nat) (neg : Bool) :
    containsImpl s a 0 = .ok false ∧ findN s a pos 0 = .ok none ∧ rfindN c s a pos 0 = .ok none ∧
    findFirstOfImpl s a pos 0 neg = .ok none ∧ findFirstOfPN s a pos 0 neg = .ok none ∧
    findLastOfImpl c s a pos 0 neg = .ok none ∧ findLastOfPN s a pos 0 neg = .ok none := by
  refine ⟨?_, ?_, ?_, ?_, ?_, ?_, ?_⟩
  · unfold containsImpl; rw [if_pos (Or.inl rfl)]
  · unfold findN; rw [if_pos (Or.inr (Or.inr (Or.inr rfl)))]
  · unfold rfindN; rw [if_pos (Or.inr (Or.inl rfl))]
  · unfold findFirstOfImpl; rw [if_pos (Or.inr rfl)]
  · unfold findFirstOfPN; rw [if_pos (Or.inr rfl)]
  · unfold findLastOfImpl; simp only []; rw [if_pos (Or.inr trivial)]
  · unfold findLastOfPN; rw [if_pos (Or.inr rfl)]

/-- the C-string overloads with `""`: `strlen` is 0 and the functions above are reached with count 0
    (`rfind( "", pos, n)` answers `npos` before looking at `n`) -/
theorem dev_empty_cstr (c : Cfg) (s : FStr) (rest : List Byte) (pos n : Nat) :
    cstrlen (0 :: rest) = .ok 0 ∧ rfindPN c s (0 :: rest) pos n = .ok none := by
  have h : cstrlen (0 :: rest) = .ok 0 := by unfold cstrlen cstrlenAux; rw [if_pos rfl]
  refine ⟨h, ?_⟩
  unfold rfindPN
  by_cases h0 : s.len = 0
  · rw [if_pos h0]
  · rw [if_neg h0, h, bindR_ok, if_pos rfl]

/-- backward searches with an explicit start position at or behind the end (and not `npos`): `npos` -/
theorem dev_backward_beyond (hc : CfgOK c) (s : FStr) (a : List Byte) (ch pos count : Nat) (neg : Bool)
    (hp : s.len ≤ pos) (hn : pos < npos c) :
    rfindCh c s ch pos = .ok none ∧ findLastOfCh c s ch pos neg = .ok none ∧
    findLastOfImpl c s a pos count neg = .ok none ∧ findLastOfPN s a pos count neg = .ok none := by
  have hW := hc.hW
  unfold npos at hn
  have ha : addW c pos 1 = pos + 1 := by unfold addW; rw [if_pos (by omega)]
  refine ⟨?_, ?_, ?_, ?_⟩
  · unfold rfindCh; rw [ha, if_pos (Or.inl (by omega))]
  · unfold findLastOfCh npos; rw [if_neg (by omega), if_pos (by omega)]
  · have hs : subW c (pos + 1) 1 = pos := by unfold subW; rw [if_pos (by omega)]; omega
    have hne : ¬ pos = c.W - 1 := by omega
    unfold findLastOfImpl npos
    simp only [if_neg hne, ha, hs]
    rw [if_pos (Or.inl (show pos ≥ s.len from hp))]
  · unfold findLastOfPN; rw [if_pos (Or.inl hp)]

end CelmaVerif.FixedString
