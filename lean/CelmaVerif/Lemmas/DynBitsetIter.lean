import CelmaVerif.Lemmas.DynBitsetShift
/-
  C12 helper lemmas, part 3: the iterators.  `forward()` / `reverse()` as coded find the next /
  previous set bit without leaving `[0, size)` (no `oob`, no throw, the fuel of the model loops is
  never exhausted), and the iteration loops produce the set positions.
-/
set_option linter.unusedSimpArgs false
namespace CelmaVerif.DynBitset
open CelmaVerif

theorem test_ok {v : Bits} {p : Nat} (h : p < v.length) : test v p = .ok (v.getD p false) := by
  unfold test; rw [if_neg (by omega), rd_ok h]

/-! ## filtering ranges -/

theorem filter_range'_skip (f : Nat → Bool) : ∀ (d c n : Nat), d ≤ n →
    (∀ j, c ≤ j → j < c + d → f j = false) →
    (List.range' c n).filter f = (List.range' (c + d) (n - d)).filter f := by
  intro d
  induction d with
  | zero => intro c n _ _; simp
  | succ d ih =>
    intro c n hn hf
    obtain ⟨m, rfl⟩ : ∃ m, n = m + 1 := ⟨n - 1, by omega⟩
    rw [List.range'_succ, List.filter_cons, hf c (Nat.le_refl _) (by omega)]
    simp only [Bool.false_eq_true, if_false]
    rw [ih (c + 1) m (by omega) (fun j h1 h2 => hf j (by omega) (by omega))]
    have e1 : c + 1 + d = c + (d + 1) := by omega
    have e2 : m - d = m + 1 - (d + 1) := by omega
    rw [e1, e2]

theorem filter_range_trim (f : Nat → Bool) : ∀ (d r : Nat),
    (∀ j, r ≤ j → j < r + d → f j = false) →
    (List.range (r + d)).filter f = (List.range r).filter f := by
  intro d
  induction d with
  | zero => intro r _; rfl
  | succ d ih =>
    intro r hf
    have : r + (d + 1) = (r + d) + 1 := by omega
    rw [this, List.range_succ, List.filter_append, ih r (fun j h1 h2 => hf j h1 (by omega))]
    simp [hf (r + d) (by omega) (by omega)]

/-! ## forward -/

theorem fwdScan_spec (v : Bits) : ∀ (fuel c : Nat), c < v.length → v.length + 1 ≤ c + fuel →
    ∃ q : Nat, fwdScan v fuel (c : Int) = .ok (q : Int) ∧ c < q ∧ q ≤ v.length ∧
      (∀ j, c < j → j < q → v.getD j false = false) ∧ (q < v.length → v.getD q false = true) := by
  intro fuel
  induction fuel with
  | zero => intro c h1 h2; omega
  | succ fuel ih =>
    intro c hc hf
    have hcast : (c : Int) + 1 = ((c + 1 : Nat) : Int) := by omega
    unfold fwdScan
    simp only [hcast, Int.toNat_natCast]
    by_cases hlt : c + 1 < v.length
    · rw [if_pos ⟨by omega, by omega⟩, test_ok hlt]
      cases hb : v.getD (c + 1) false with
      | true =>
        exact ⟨c + 1, rfl, by omega, by omega, by intro j h1 h2; omega, fun _ => hb⟩
      | false =>
        simp only
        obtain ⟨q, g1, g2, g3, g4, g5⟩ := ih (c + 1) hlt (by omega)
        refine ⟨q, g1, by omega, g3, ?_, g5⟩
        intro j h1 h2
        by_cases hj : j = c + 1
        · subst hj; exact hb
        · exact g4 j (by omega) h2
    · rw [if_neg (by omega)]
      exact ⟨c + 1, rfl, by omega, by omega, by intro j h1 h2; omega, by intro h; omega⟩

theorem forward_spec (v : Bits) (c : Nat) (hc : c < v.length) :
    ∃ q : Nat, forward v (c : Int) = .ok (q : Int) ∧ c < q ∧ q ≤ v.length ∧
      (∀ j, c < j → j < q → v.getD j false = false) ∧ (q < v.length → v.getD q false = true) := by
  unfold forward
  rw [if_neg (by omega)]
  exact fwdScan_spec v (v.length + 1) c hc (by omega)

theorem iterLoop_fwd (v : Bits) : ∀ (fuel p : Nat) (acc : List Nat), p ≤ v.length →
    (p < v.length → v.getD p false = true) → v.length - p + 1 ≤ fuel →
    iterLoop (forward v) (endIt v) fuel (p : Int) acc
      = .ok (acc.reverse ++ (List.range' p (v.length - p)).filter (Ref.bit v)) := by
  intro fuel
  induction fuel with
  | zero => intro p acc _ _ h; omega
  | succ fuel ih =>
    intro p acc hp hbit hf
    unfold iterLoop endIt
    by_cases he : p = v.length
    · rw [if_pos (by omega)]
      subst he; simp
    · rw [if_neg (by omega)]
      have hlt : p < v.length := by omega
      obtain ⟨q, g1, g2, g3, g4, g5⟩ := forward_spec v p hlt
      rw [g1]
      simp only [Int.toNat_natCast]
      have := ih q (p :: acc) g3 g5 (by omega)
      unfold endIt at this
      rw [this]
      congr 1
      obtain ⟨m, hm⟩ : ∃ m, v.length - p = m + 1 := ⟨v.length - p - 1, by omega⟩
      rw [hm, List.range'_succ, List.filter_cons]
      have hb : Ref.bit v p = true := hbit hlt
      rw [hb]
      simp only [if_true, List.reverse_cons, List.append_assoc, List.singleton_append]
      congr 2
      rw [filter_range'_skip (Ref.bit v) (q - (p + 1)) (p + 1) m (by omega)
        (fun j h1 h2 => g4 j (by omega) (by omega))]
      have e1 : p + 1 + (q - (p + 1)) = q := by omega
      have e2 : m - (q - (p + 1)) = v.length - q := by omega
      rw [e1, e2]

theorem iterate_eq (v : Bits) : iterate v = .ok (Ref.setPositions v) := by
  unfold iterate beginIt Ref.setPositions
  rw [List.range_eq_range']
  simp only [Int.toNat_zero]
  by_cases h0 : 0 < v.length
  · rw [if_pos h0, test_ok h0]
    cases hb : v.getD 0 false with
    | true =>
      simp only
      have := iterLoop_fwd v (v.length + 2) 0 [] (by omega) (fun _ => hb) (by omega)
      simpa using this
    | false =>
      simp only
      obtain ⟨q, g1, g2, g3, g4, g5⟩ := forward_spec v 0 h0
      have g1' : forward v 0 = .ok (q : Int) := g1
      rw [g1']
      simp only
      rw [iterLoop_fwd v (v.length + 2) q [] g3 g5 (by omega)]
      congr 1
      simp only [List.reverse_nil, List.nil_append]
      rw [filter_range'_skip (Ref.bit v) q 0 v.length g3
        (fun j h1 h2 => by
          by_cases hj : j = 0
          · subst hj; exact hb
          · exact g4 j (by omega) (by omega))]
      simp
  · rw [if_neg h0]
    simp only
    have hl : v.length = 0 := by omega
    have := iterLoop_fwd v (v.length + 2) 0 [] (by omega) (by omega) (by omega)
    simpa using this

/-! ## reverse -/

/-- the position returned is `r - 1` (so `r = 0` stands for `-1`, the `rend()` position) -/
theorem revScan_spec (v : Bits) : ∀ (fuel c : Nat), c ≤ v.length → c + 1 ≤ fuel →
    ∃ r : Nat, revScan v fuel (c : Int) = .ok ((r : Int) - 1) ∧ r ≤ c ∧
      (∀ j, r ≤ j → j < c → v.getD j false = false) ∧ (0 < r → v.getD (r - 1) false = true) := by
  intro fuel
  induction fuel with
  | zero => intro c _ h; omega
  | succ fuel ih =>
    intro c hc hf
    unfold revScan
    by_cases h0 : c = 0
    · subst h0
      simp only
      rw [if_neg (by omega)]
      exact ⟨0, by simp, by omega, by intro j h1 h2; omega, by intro h; omega⟩
    · have hcast : (c : Int) - 1 = ((c - 1 : Nat) : Int) := by omega
      simp only [hcast, Int.toNat_natCast]
      rw [if_pos (by omega), test_ok (by omega)]
      cases hb : v.getD (c - 1) false with
      | true =>
        exact ⟨c, by simp only; congr 1; omega, by omega, by intro j h1 h2; omega, fun _ => hb⟩
      | false =>
        simp only
        obtain ⟨r, g1, g2, g3, g4⟩ := ih (c - 1) (by omega) (by omega)
        refine ⟨r, g1, by omega, ?_, g4⟩
        intro j h1 h2
        by_cases hj : j = c - 1
        · subst hj; exact hb
        · exact g3 j h1 (by omega)

theorem reverse_spec (v : Bits) (c : Nat) (hc : c ≤ v.length) :
    ∃ r : Nat, reverse v (c : Int) = .ok ((r : Int) - 1) ∧ r ≤ c ∧
      (∀ j, r ≤ j → j < c → v.getD j false = false) ∧ (0 < r → v.getD (r - 1) false = true) := by
  unfold reverse
  rw [if_neg (by omega)]
  exact revScan_spec v _ c hc (by simp only [Int.toNat_natCast]; omega)

theorem iterLoop_rev (v : Bits) : ∀ (fuel r : Nat) (acc : List Nat), r ≤ v.length →
    (0 < r → v.getD (r - 1) false = true) → r + 1 ≤ fuel →
    iterLoop (reverse v) (rendIt v) fuel ((r : Int) - 1) acc
      = .ok (acc.reverse ++ ((List.range r).filter (Ref.bit v)).reverse) := by
  intro fuel
  induction fuel with
  | zero => intro r acc _ _ h; omega
  | succ fuel ih =>
    intro r acc hr hbit hf
    unfold iterLoop rendIt
    by_cases h0 : r = 0
    · subst h0
      rw [if_pos (by omega)]
      simp
    · rw [if_neg (by omega)]
      have hcast : (r : Int) - 1 = ((r - 1 : Nat) : Int) := by omega
      rw [hcast]
      obtain ⟨r', g1, g2, g3, g4⟩ := reverse_spec v (r - 1) (by omega)
      rw [g1]
      simp only [Int.toNat_natCast]
      have := ih r' ((r - 1) :: acc) (by omega) g4 (by omega)
      unfold rendIt at this
      rw [this]
      congr 1
      obtain ⟨m, rfl⟩ : ∃ m, r = m + 1 := ⟨r - 1, by omega⟩
      simp only [Nat.add_sub_cancel] at *
      rw [List.range_succ, List.filter_append]
      have hb : Ref.bit v m = true := hbit (by omega)
      have e : m = r' + (m - r') := by omega
      have ht := filter_range_trim (Ref.bit v) (m - r') r' (fun j h1 h2 => g3 j h1 (by omega))
      rw [← e] at ht
      rw [ht]
      simp [hb]

theorem riterate_eq (v : Bits) : riterate v = .ok (Ref.setPositions v).reverse := by
  unfold riterate rbeginIt Ref.setPositions
  by_cases h0 : 0 < v.length
  · have hcast : (v.length : Int) - 1 = ((v.length - 1 : Nat) : Int) := by omega
    simp only
    rw [if_pos (by omega), hcast]
    simp only [Int.toNat_natCast]
    rw [test_ok (by omega)]
    cases hb : v.getD (v.length - 1) false with
    | true =>
      simp only
      have := iterLoop_rev v (v.length + 2) v.length [] (Nat.le_refl _) (fun _ => hb) (by omega)
      rw [hcast] at this
      simpa using this
    | false =>
      simp only
      obtain ⟨r, g1, g2, g3, g4⟩ := reverse_spec v (v.length - 1) (by omega)
      rw [g1]
      simp only
      rw [iterLoop_rev v (v.length + 2) r [] (by omega) g4 (by omega)]
      congr 1
      simp only [List.reverse_nil, List.nil_append]
      have e : v.length = r + (v.length - r) := by omega
      have ht := filter_range_trim (Ref.bit v) (v.length - r) r (fun j h1 h2 => by
        by_cases hj : j = v.length - 1
        · subst hj; exact hb
        · exact g3 j h1 (by omega))
      rw [← e] at ht
      rw [ht]
  · have hl : v.length = 0 := by omega
    simp only
    rw [if_neg (by omega)]
    simp only
    have := iterLoop_rev v (v.length + 2) 0 [] (by omega) (by omega) (by omega)
    rw [hl]
    rw [hl] at this
    simpa using this

/-! ## decrement operators -/

/-- `--` of the forward iterator from any position `c ≤ size` (a set position or `end()`):
    the greatest set position below `c`, or `end()` (= `size`) when there is none -/
theorem fwdDec_spec (v : Bits) (c : Nat) (hc : c ≤ v.length) :
    ∃ q : Nat, fwdDec v (c : Int) = .ok (q : Int) ∧
      ((q < c ∧ v.getD q false = true ∧ ∀ j, q < j → j < c → v.getD j false = false) ∨
       (q = v.length ∧ ∀ j, j < c → v.getD j false = false)) := by
  obtain ⟨r, g1, g2, g3, g4⟩ := reverse_spec v c hc
  unfold fwdDec
  rw [g1]
  by_cases h0 : r = 0
  · subst h0
    refine ⟨v.length, ?_, Or.inr ⟨rfl, fun j hj => g3 j (by omega) hj⟩⟩
    simp
  · refine ⟨r - 1, ?_, Or.inl ⟨by omega, g4 (by omega), fun j h1 h2 => g3 j (by omega) h2⟩⟩
    simp only
    rw [if_neg (by omega)]
    congr 1; omega

/-- `--` of the reverse iterator from a position `c < size`: the least set position above `c`,
    or `rend()` (= -1) when there is none -/
theorem revDec_spec (v : Bits) (c : Nat) (hc : c < v.length) :
    (∃ q : Nat, revDec v (c : Int) = .ok (q : Int) ∧ c < q ∧ q < v.length ∧ v.getD q false = true ∧
        ∀ j, c < j → j < q → v.getD j false = false) ∨
    (revDec v (c : Int) = .ok (-1) ∧ ∀ j, c < j → j < v.length → v.getD j false = false) := by
  obtain ⟨q, g1, g2, g3, g4, g5⟩ := forward_spec v c hc
  unfold revDec
  rw [g1]
  by_cases hq : q < v.length
  · refine Or.inl ⟨q, ?_, g2, hq, g5 hq, g4⟩
    simp only
    rw [if_neg (by omega)]
  · refine Or.inr ⟨?_, fun j h1 h2 => g4 j h1 (by omega)⟩
    simp only
    rw [if_pos (by omega)]

/-- `--rend()` stays at `rend()`: `forward()` returns at once for the position -1 -/
theorem revDec_rend (v : Bits) : revDec v (rendIt v) = .ok (rendIt v) := by
  unfold revDec forward rendIt
  rw [if_pos (Or.inl (by omega))]
  simp only
  rw [if_neg (by omega)]

/-- `++end()` stays at `end()`, `++rend()` at `rend()` -/
theorem forward_end (v : Bits) : forward v (endIt v) = .ok (endIt v) := by
  unfold forward endIt
  rw [if_pos (Or.inr (by omega))]

theorem reverse_rend (v : Bits) : reverse v (rendIt v) = .ok (rendIt v) := by
  unfold reverse rendIt
  rw [if_pos (by omega)]

end CelmaVerif.DynBitset
