import CelmaVerif.Lemmas.FixedStringSafe
/-
  C11, mutators: the text held after a modifying function (`abs s' = s'.buf.take s'.len`) as a list
  expression over the text held before and the arguments, truncated to the capacity `c.L`.
  Method: every primitive is rewritten to its explicit result (`move_ok`, `copyIn_ok`, `*_spec`), the
  final `finish` is seen through `take` (`finish_abs`), and the list equality is proved pointwise
  (`List.ext_getElem?`) by deciding the nested `if`s with `omega` (`fs_pointwise`, `fs_reg`).
-/
namespace CelmaVerif.FixedString
open CelmaVerif
variable {c : Cfg}

/-- one leaf of a pointwise goal -/
macro "fs_leaf" : tactic =>
  `(tactic| first
      | rfl
      | omega
      | (congr 1; omega)
      | (symm; apply List.getElem?_eq_none; (try simp only [List.length_cons, List.length_nil, List.length_replicate, List.length_take, List.length_drop, List.length_append]); omega)
      | (apply List.getElem?_eq_none; (try simp only [List.length_cons, List.length_nil, List.length_replicate, List.length_take, List.length_drop, List.length_append]); omega))

/-- closes pointwise goals made of nested `if`s over `getElem?`: try the leaf tactics (which also close
    branches whose conditions are contradictory), otherwise split one `if` and recurse -/
syntax "fs_close" : tactic
macro_rules
  | `(tactic| fs_close) => `(tactic| first | fs_leaf | (split <;> fs_close))

/-- for pointwise goals after a case split on the region of `i` that decides every `if`:
    normalise, resolve the `if`s by `omega`, close the leaf -/
macro "fs_reg" : tactic =>
  `(tactic| first
      | omega
      | ((try simp only [List.getElem?_take, List.getElem?_append, List.getElem?_drop, List.getElem?_replicate,
          List.length_take, List.length_drop, List.length_append, List.length_replicate, List.length_cons,
          List.length_nil, Nat.min_def])
         (try simp (disch := omega) only [if_pos, if_neg, ite_self])
         try fs_leaf))

/-- normalises `getElem?` of take/drop/append/replicate to nested `if`s, then `fs_close` -/
macro "fs_pointwise" : tactic =>
  `(tactic| (simp only [List.getElem?_take, List.getElem?_append, List.getElem?_drop, List.getElem?_replicate,
      List.length_take, List.length_drop, List.length_append, List.length_replicate, List.length_cons,
      List.length_nil, Nat.min_def]; fs_close))

/-- pointwise view of a checked write -/
theorem wr_get (dst src : List Byte) (off i : Nat) (h : off + src.length ≤ dst.length) :
    (dst.take off ++ src ++ dst.drop (off + src.length))[i]? =
      if i < off then dst[i]? else if i < off + src.length then src[i - off]? else dst[i]? := by
  have h1 : (dst.take off).length = off := by rw [List.length_take]; omega
  by_cases a : i < off
  · rw [if_pos a, List.append_assoc, List.getElem?_append_left (by omega), List.getElem?_take, if_pos a]
  · rw [if_neg a, List.append_assoc, List.getElem?_append_right (by omega), h1]
    by_cases b : i < off + src.length
    · rw [if_pos b, List.getElem?_append_left (by omega)]
    · rw [if_neg b, List.getElem?_append_right (by omega), List.getElem?_drop]
      congr 1; omega

theorem finish_abs (hc : CfgOK c) {b : List Byte} {n : Nat} {s' : FStr} (hb : b.length = c.L + 1) (hn : n ≤ c.L)
    (h : finish c b n = .ok s') : abs s' = b.take n := by
  unfold finish at h
  rw [narrow_eq hc hn] at h
  unfold put1 at h
  rw [Mem.write_ok (by simp; omega), bindR_ok] at h
  cases h
  unfold abs
  simp only
  rw [List.append_assoc, List.take_append_of_le_length (by rw [List.length_take]; omega), List.take_take, Nat.min_self]

theorem pushBack_abs (hc : CfgOK c) {s s' : FStr} (hs : WF c s) (ch : Byte) (h : pushBack c s ch = .ok s') :
    abs s' = (abs s ++ [ch]).take c.L := by
  obtain ⟨hb, hl, h0⟩ := hs
  unfold pushBack at h
  by_cases hlt : s.len < c.L
  · rw [if_pos hlt] at h
    unfold put1 at h
    rw [Mem.write_ok (by simp; omega), bindR_ok] at h
    rw [finish_abs hc (by simp; omega) (by omega) h]
    unfold abs
    apply List.ext_getElem?; intro i
    rw [List.getElem?_take, wr_get _ _ _ _ (by simp; omega)]
    fs_pointwise
  · rw [if_neg hlt] at h
    cases h
    have : s.len = c.L := by omega
    unfold abs
    rw [List.take_append_of_le_length (by rw [List.length_take]; omega), List.take_take]
    congr 1; omega


theorem popBack_abs (hc : CfgOK c) {s s' : FStr} (hs : WF c s) (hpos : s.len > 0) (h : popBack c s = .ok s') :
    abs s' = (abs s).dropLast := by
  obtain ⟨hb, hl, h0⟩ := hs
  unfold popBack at h
  rw [if_pos hpos] at h
  rw [finish_abs hc hb (by omega) h]
  unfold abs
  rw [List.dropLast_eq_take, List.take_take, List.length_take]
  congr 1; omega

theorem clear_abs {s s' : FStr} (hs : WF c s) (h : clear s = .ok s') : abs s' = [] := by
  obtain ⟨hb, hl, h0⟩ := hs
  unfold clear put1 at h
  rw [Mem.write_ok (by simp; omega), bindR_ok] at h
  cases h
  rfl

theorem wr_get' (dst src : List Byte) (off n i : Nat) (hn : src.length = n) (h : off + n ≤ dst.length) :
    (dst.take off ++ src ++ dst.drop (off + n))[i]? =
      if i < off then dst[i]? else if i < off + n then src[i - off]? else dst[i]? := by
  subst hn; exact wr_get dst src off i h

theorem move_ok {buf : List Byte} {dst src n : Nat} {w : String} (h1 : dst + n ≤ buf.length)
    (h2 : src + n ≤ buf.length) :
    Mem.move buf dst src n w = .ok (buf.take dst ++ (buf.drop src).take n ++ buf.drop (dst + n)) := by
  have hl : ((buf.drop src).take n).length = n := by rw [List.length_take, List.length_drop]; omega
  unfold Mem.move
  rw [Mem.read_ok h2]
  simp only
  rw [Mem.write_ok (by omega), hl]

theorem copyIn_ok {buf a : List Byte} {off spos n : Nat} (h1 : off + n ≤ buf.length)
    (h2 : spos + n ≤ a.length) :
    copyIn buf off a spos n = .ok (buf.take off ++ (a.drop spos).take n ++ buf.drop (off + n)) := by
  have hl : ((a.drop spos).take n).length = n := by rw [List.length_take, List.length_drop]; omega
  unfold copyIn
  rw [Mem.read_ok h2, bindR_ok, Mem.write_ok (by omega), hl]

/-- pointwise view of the result of `move`/`copyIn` -/
theorem cp_get (buf a : List Byte) (off spos n i : Nat) (h1 : off + n ≤ buf.length) (h2 : spos + n ≤ a.length) :
    (buf.take off ++ (a.drop spos).take n ++ buf.drop (off + n))[i]? =
      if i < off then buf[i]? else if i < off + n then a[spos + (i - off)]? else buf[i]? := by
  have hl : ((a.drop spos).take n).length = n := by rw [List.length_take, List.length_drop]; omega
  rw [wr_get' _ _ _ _ _ hl h1]
  by_cases a1 : i < off
  · rw [if_pos a1, if_pos a1]
  · rw [if_neg a1, if_neg a1]
    by_cases a2 : i < off + n
    · rw [if_pos a2, if_pos a2, List.getElem?_take, if_pos (by omega), List.getElem?_drop]
    · rw [if_neg a2, if_neg a2]

/-- pointwise view of the result of `fill` -/
theorem fl_get (buf : List Byte) (off n ch i : Nat) (h1 : off + n ≤ buf.length) :
    (buf.take off ++ List.replicate n ch ++ buf.drop (off + n))[i]? =
      if i < off then buf[i]? else if i < off + n then some ch else buf[i]? := by
  rw [wr_get' _ _ _ _ _ List.length_replicate h1]
  by_cases a1 : i < off
  · rw [if_pos a1, if_pos a1]
  · rw [if_neg a1, if_neg a1]
    by_cases a2 : i < off + n
    · rw [if_pos a2, if_pos a2, List.getElem?_replicate, if_pos (by omega)]
    · rw [if_neg a2, if_neg a2]

theorem erase_abs (hc : CfgOK c) {s s' : FStr} (hs : WF c s) (index count : Nat) (hi : index ≤ s.len)
    (h : erase c s index count = .ok s') :
    abs s' = (abs s).take index ++ (abs s).drop (index + count) := by
  obtain ⟨hb, hl, h0⟩ := hs
  unfold erase at h
  rw [if_neg (by omega)] at h
  by_cases h1 : count ≥ s.len - index
  · rw [if_pos h1] at h
    unfold put1 at h
    rw [Mem.write_ok (by simp; omega), bindR_ok, narrow_eq hc (by omega)] at h
    cases h
    unfold abs
    simp only
    apply List.ext_getElem?; intro i
    rw [List.getElem?_take, wr_get _ _ _ _ (by simp; omega)]
    fs_pointwise
  · rw [if_neg h1] at h
    rw [move_ok (by omega) (by omega), bindR_ok] at h
    rw [finish_abs hc (by simp; omega) (by omega) h]
    unfold abs
    apply List.ext_getElem?; intro i
    rw [List.getElem?_take, cp_get _ _ _ _ _ _ (by omega) (by omega)]
    fs_pointwise


theorem appendImpl_abs (hc : CfgOK c) {s s' : FStr} (hs : WF c s) {a : List Byte} {pos count : Nat}
    (ha : pos + count ≤ a.length) (h : appendImpl c s a pos count = .ok s') :
    abs s' = (abs s ++ (a.drop pos).take count).take c.L := by
  obtain ⟨hb, hl, h0⟩ := hs
  unfold appendImpl at h
  by_cases h1 : count > 0
  · rw [if_pos h1] at h
    simp only at h
    have hn : ∃ n, n = min (c.L - s.len) count := ⟨_, rfl⟩
    obtain ⟨n, hn⟩ := hn
    rw [← hn] at h
    have hn1 : n ≤ c.L - s.len := by rw [hn]; exact Nat.min_le_left _ _
    have hn2 : n ≤ count := by rw [hn]; exact Nat.min_le_right _ _
    have hn3 : n = c.L - s.len ∨ n = count := by rw [hn, Nat.min_def]; split <;> simp
    clear hn
    rw [copyIn_ok (by omega) (by omega), bindR_ok] at h
    rw [finish_abs hc (by simp; omega) (by omega) h]
    unfold abs
    apply List.ext_getElem?; intro i
    rw [List.getElem?_take, cp_get _ _ _ _ _ _ (by omega) (by omega)]
    fs_pointwise
  · rw [if_neg h1] at h
    cases h
    have : count = 0 := by omega
    subst this
    unfold abs
    rw [List.take_zero, List.append_nil, List.take_take]
    congr 1; omega


theorem move_spec {buf : List Byte} {dst src n : Nat} {w : String} (h1 : dst + n ≤ buf.length)
    (h2 : src + n ≤ buf.length) :
    ∃ b, Mem.move buf dst src n w = .ok b ∧ b.length = buf.length ∧
      ∀ i, b[i]? = if i < dst then buf[i]? else if i < dst + n then buf[src + (i - dst)]? else buf[i]? := by
  refine ⟨_, move_ok h1 h2, ?_, fun i => cp_get _ _ _ _ _ _ h1 h2⟩
  simp only [List.length_append, List.length_take, List.length_drop]; omega

theorem copyIn_spec {buf a : List Byte} {off spos n : Nat} (h1 : off + n ≤ buf.length)
    (h2 : spos + n ≤ a.length) :
    ∃ b, copyIn buf off a spos n = .ok b ∧ b.length = buf.length ∧
      ∀ i, b[i]? = if i < off then buf[i]? else if i < off + n then a[spos + (i - off)]? else buf[i]? := by
  refine ⟨_, copyIn_ok h1 h2, ?_, fun i => cp_get _ _ _ _ _ _ h1 h2⟩
  simp only [List.length_append, List.length_take, List.length_drop]; omega

theorem fill_spec {buf : List Byte} {off n : Nat} (ch : Byte) (h1 : off + n ≤ buf.length) :
    ∃ b, fill buf off n ch = .ok b ∧ b.length = buf.length ∧
      ∀ i, b[i]? = if i < off then buf[i]? else if i < off + n then some ch else buf[i]? := by
  refine ⟨_, by unfold fill; rw [if_pos h1], ?_, fun i => fl_get _ _ _ _ _ h1⟩
  simp only [List.length_append, List.length_take, List.length_drop, List.length_replicate]; omega

theorem insertCh_abs (hc : CfgOK c) {s s' : FStr} (hs : WF c s) (index count ch : Nat) (hi : index ≤ s.len)
    (h : insertCh c s index count ch = .ok s') :
    abs s' = ((abs s).take index ++ List.replicate count ch ++ (abs s).drop index).take c.L := by
  obtain ⟨hb, hl, h0⟩ := hs
  unfold insertCh at h
  by_cases h1 : index < s.len
  · rw [if_pos h1] at h
    by_cases h2 : count ≤ c.L - s.len
    · rw [if_pos h2] at h
      obtain ⟨b1, e1, l1, g1⟩ := move_spec (buf := s.buf) (dst := index + count) (src := index)
        (n := s.len - index + 1) (w := "memmove") (by omega) (by omega)
      rw [e1, bindR_ok] at h
      obtain ⟨b2, e2, l2, g2⟩ := fill_spec (buf := b1) (off := index) (n := count) ch (by omega)
      rw [e2, bindR_ok] at h
      rw [finish_abs hc (by omega) (by omega) h]
      unfold abs
      apply List.ext_getElem?; intro i
      rw [List.getElem?_take]
      simp only [g2, g1]
      by_cases a1 : i < index <;> by_cases a2 : i < index + count <;> by_cases a3 : i < s.len + count <;> fs_reg
    · rw [if_neg h2] at h
      by_cases h3 : count ≤ c.L - index
      · rw [if_pos h3] at h
        obtain ⟨b1, e1, l1, g1⟩ := move_spec (buf := s.buf) (dst := index + count) (src := index)
          (n := c.L - index - count) (w := "memmove") (by omega) (by omega)
        rw [e1, bindR_ok] at h
        obtain ⟨b2, e2, l2, g2⟩ := fill_spec (buf := b1) (off := index) (n := count) ch (by omega)
        rw [e2, bindR_ok] at h
        rw [finish_abs hc (by omega) (by omega) h]
        unfold abs
        apply List.ext_getElem?; intro i
        rw [List.getElem?_take]
        simp only [g2, g1]
        by_cases a1 : i < index <;> by_cases a2 : i < index + count <;> by_cases a3 : i < c.L <;> fs_reg
      · rw [if_neg h3] at h
        obtain ⟨b2, e2, l2, g2⟩ := fill_spec (buf := s.buf) (off := index) (n := c.L - index) ch (by omega)
        rw [e2, bindR_ok] at h
        rw [finish_abs hc (by omega) (by omega) h]
        unfold abs
        apply List.ext_getElem?; intro i
        rw [List.getElem?_take]
        simp only [g2]
        by_cases a1 : i < index <;> by_cases a3 : i < c.L <;> fs_reg
  · rw [if_neg h1] at h
    simp only at h
    have hn : ∃ n, n = if count > c.L - s.len then c.L - s.len else count := ⟨_, rfl⟩
    obtain ⟨n, hn⟩ := hn
    rw [← hn] at h
    have hn1 : n ≤ c.L - s.len := by rw [hn]; split <;> omega
    have hn2 : n ≤ count := by rw [hn]; split <;> omega
    have hn3 : n = c.L - s.len ∨ n = count := by rw [hn]; split <;> simp
    clear hn
    obtain ⟨b2, e2, l2, g2⟩ := fill_spec (buf := s.buf) (off := s.len) (n := n) ch (by omega)
    rw [e2, bindR_ok] at h
    rw [finish_abs hc (by omega) (by omega) h]
    unfold abs
    apply List.ext_getElem?; intro i
    rw [List.getElem?_take]
    simp only [g2]
    by_cases a1 : i < s.len <;> by_cases a2 : i < s.len + n <;> fs_reg

theorem insertP_abs (hc : CfgOK c) {s s' : FStr} (hs : WF c s) (index : Nat) {a : List Byte} {count : Nat}
    (ha : count ≤ a.length) (hi : index ≤ s.len)
    (h : insertP c s index a count = .ok s') :
    abs s' = ((abs s).take index ++ a.take count ++ (abs s).drop index).take c.L := by
  obtain ⟨hb, hl, h0⟩ := hs
  unfold insertP at h
  by_cases h1 : index < s.len
  · rw [if_pos h1] at h
    by_cases h2 : count ≤ c.L - s.len
    · rw [if_pos h2] at h
      obtain ⟨b1, e1, l1, g1⟩ := move_spec (buf := s.buf) (dst := index + count) (src := index)
        (n := s.len - index + 1) (w := "memmove") (by omega) (by omega)
      rw [e1, bindR_ok] at h
      obtain ⟨b2, e2, l2, g2⟩ := copyIn_spec (buf := b1) (off := index) (a := a) (spos := 0) (n := count) (by omega) (by omega)
      rw [e2, bindR_ok] at h
      rw [finish_abs hc (by omega) (by omega) h]
      unfold abs
      apply List.ext_getElem?; intro i
      rw [List.getElem?_take]
      simp only [g2, g1]
      by_cases a1 : i < index <;> by_cases a2 : i < index + count <;> by_cases a3 : i < s.len + count <;> fs_reg
    · rw [if_neg h2] at h
      by_cases h3 : count ≤ c.L - index
      · rw [if_pos h3] at h
        obtain ⟨b1, e1, l1, g1⟩ := move_spec (buf := s.buf) (dst := index + count) (src := index)
          (n := c.L - index - count) (w := "memmove") (by omega) (by omega)
        rw [e1, bindR_ok] at h
        obtain ⟨b2, e2, l2, g2⟩ := copyIn_spec (buf := b1) (off := index) (a := a) (spos := 0) (n := count) (by omega) (by omega)
        rw [e2, bindR_ok] at h
        rw [finish_abs hc (by omega) (by omega) h]
        unfold abs
        apply List.ext_getElem?; intro i
        rw [List.getElem?_take]
        simp only [g2, g1]
        by_cases a1 : i < index <;> by_cases a2 : i < index + count <;> by_cases a3 : i < c.L <;> fs_reg
      · rw [if_neg h3] at h
        obtain ⟨b2, e2, l2, g2⟩ := copyIn_spec (buf := s.buf) (off := index) (a := a) (spos := 0) (n := c.L - index) (by omega) (by omega)
        rw [e2, bindR_ok] at h
        rw [finish_abs hc (by omega) (by omega) h]
        unfold abs
        apply List.ext_getElem?; intro i
        rw [List.getElem?_take]
        simp only [g2]
        by_cases a1 : i < index <;> by_cases a3 : i < c.L <;> fs_reg
  · rw [if_neg h1] at h
    simp only at h
    have hn : ∃ n, n = if count > c.L - s.len then c.L - s.len else count := ⟨_, rfl⟩
    obtain ⟨n, hn⟩ := hn
    rw [← hn] at h
    have hn1 : n ≤ c.L - s.len := by rw [hn]; split <;> omega
    have hn2 : n ≤ count := by rw [hn]; split <;> omega
    have hn3 : n = c.L - s.len ∨ n = count := by rw [hn]; split <;> simp
    clear hn
    obtain ⟨b2, e2, l2, g2⟩ := copyIn_spec (buf := s.buf) (off := s.len) (a := a) (spos := 0) (n := n) (by omega) (by omega)
    rw [e2, bindR_ok] at h
    rw [finish_abs hc (by omega) (by omega) h]
    unfold abs
    apply List.ext_getElem?; intro i
    rw [List.getElem?_take]
    simp only [g2]
    by_cases a1 : i < s.len <;> by_cases a2 : i < s.len + n <;> fs_reg



theorem internalCopy_abs {buf : List Byte} {n : Nat} {src : List Byte} {s' : FStr}
    (hb : buf.length = c.L + 1) (hn : n ≤ c.L) (hs : n ≤ src.length)
    (h : internalCopy ⟨buf, n⟩ src = .ok s') : abs s' = src.take n := by
  unfold internalCopy at h
  simp only at h
  by_cases h0 : n > 0
  · rw [if_pos h0] at h
    obtain ⟨b1, e1, l1, g1⟩ := copyIn_spec (buf := buf) (off := 0) (a := src) (spos := 0) (n := n)
      (by omega) (by omega)
    rw [e1, bindR_ok] at h
    unfold put1 at h
    rw [Mem.write_ok (by simp; omega), bindR_ok] at h
    cases h
    unfold abs
    simp only
    rw [List.append_assoc, List.take_append_of_le_length (by rw [List.length_take]; omega), List.take_take,
      Nat.min_self]
    apply List.ext_getElem?; intro i
    rw [List.getElem?_take, List.getElem?_take, g1]
    by_cases a1 : i < n <;> fs_reg
  · rw [if_neg h0] at h
    have : n = 0 := by omega
    subst this
    unfold put1 at h
    rw [bindR_ok, Mem.write_ok (by simp; omega), bindR_ok] at h
    cases h
    rfl

theorem assignS_abs (hc : CfgOK c) {s s' : FStr} (hs : WF c s) (d : Str) (h : assignS c s d = .ok s') :
    abs s' = d.take c.L := by
  unfold assignS at h
  have h1 : min c.L d.length ≤ c.L := Nat.min_le_left _ _
  have h2 : min c.L d.length ≤ d.length := Nat.min_le_right _ _
  rw [narrow_eq hc h1] at h
  rw [internalCopy_abs hs.1 h1 (by simp; omega) h, List.take_append_of_le_length h2]
  apply List.ext_getElem?; intro i
  by_cases a0 : c.L ≤ d.length <;> by_cases a1 : i < c.L <;> by_cases a2 : i < d.length <;> fs_reg

theorem assignF_abs (hc : CfgOK c) {s s' : FStr} (hs : WF c s) {co : Cfg} {o : FStr} (ho : WF co o)
    (h : assignF c s o = .ok s') : abs s' = (abs o).take c.L := by
  unfold assignF at h
  have h1 : min c.L o.len ≤ c.L := Nat.min_le_left _ _
  have h2 : min c.L o.len ≤ o.len := Nat.min_le_right _ _
  rw [narrow_eq hc h1] at h
  rw [internalCopy_abs hs.1 h1 (by have := ho.1; have := ho.2.1; omega) h]
  unfold abs
  rw [List.take_take]

theorem sprintf_abs (hc : CfgOK c) {s s' : FStr} (hs : WF c s) (text : Str) (h : sprintf c s text = .ok s') :
    abs s' = text.take c.L := by
  obtain ⟨hb, hl, h0⟩ := hs
  unfold sprintf sprintfF sprintfV vsnOut Fmt.text Fmt.result at h
  simp only at h
  rw [if_neg (by omega), Int.toNat_natCast] at h
  have h1 : min c.L text.length ≤ c.L := Nat.min_le_left _ _
  have h2 : min c.L text.length ≤ text.length := Nat.min_le_right _ _
  have h3 : min text.length c.L = min c.L text.length := Nat.min_comm _ _
  rw [h3] at h
  have hlen : (text.take (min c.L text.length) ++ [0]).length = min c.L text.length + 1 := by
    rw [List.length_append, List.length_take, List.length_singleton]; omega
  rw [Mem.write_ok (by rw [hlen]; omega), bindR_ok] at h
  rw [finish_abs hc (by simp only [List.length_append, List.length_take, List.length_drop, List.length_cons, List.length_nil]; omega) h1 h]
  apply List.ext_getElem?; intro i
  rw [List.getElem?_take, wr_get _ _ _ _ (by rw [hlen]; omega), hlen]
  by_cases a0 : c.L ≤ text.length <;> by_cases a1 : i < c.L <;> by_cases a2 : i < text.length <;> fs_reg

/-- a failing formatter (`vsnprintf` returns -1): the string is empty afterwards, whatever the formatter left in the
    buffer -/
theorem sprintfV_neg {s s' : FStr} (written : Str) {result : Int} (hr : result < 0)
    (h : sprintfV c s written result = .ok s') : s'.len = 0 ∧ abs s' = [] := by
  unfold sprintfV at h
  rw [if_pos hr] at h
  cases hw : Mem.write s.buf 0 written "vsnprintf" with
  | oob x => rw [hw, bindR_oob] at h; cases h
  | throw e => rw [hw, bindR_throw] at h; cases h
  | ok b =>
    rw [hw, bindR_ok] at h
    unfold finish narrow at h
    rw [Nat.zero_mod] at h
    cases hp : put1 b 0 0 with
    | oob x => rw [hp, bindR_oob] at h; cases h
    | throw e => rw [hp, bindR_throw] at h; cases h
    | ok b' =>
      rw [hp, bindR_ok] at h
      cases h
      exact ⟨rfl, by simp [abs]⟩

/-- the text after `sprintf` for both outcomes of the formatter: the formatted text cut at the capacity, or nothing -/
theorem sprintfF_abs (hc : CfgOK c) {s s' : FStr} (hs : WF c s) (f : Fmt) (h : sprintfF c s f = .ok s') :
    abs s' = (match f with | .done t => t | .failed _ => []).take c.L := by
  cases f with
  | done t => exact sprintf_abs hc hs t h
  | failed p =>
    unfold sprintfF at h
    have := (sprintfV_neg (c := c) _ (by simp [Fmt.result]) h).2
    rw [this]; simp

end CelmaVerif.FixedString
