import CelmaVerif.Lemmas.GroupsView
/-
  One argument use in the merged handler and in the member that owns the argument: the member
  computes the view of what the merged handler computes; the other members see nothing of it.
-/
namespace CelmaVerif.ProgArgs
open CelmaVerif CelmaVerif.Keys

/-! ### what well-formedness gives for the owner `v` of argument `i` and for the other members -/

/-- F1: the keys in the constraints of an argument belong to its member -/
theorem owner_ckeys {cfg : Cfg} {v : View} {i : Nat} {d : ArgDef} (hiv : i ∈ v.ia) (hd : cfg.args[i]? = some d) :
    ∀ c ∈ d.constraints, ∀ k ∈ c.2, ownsKey cfg v k = true :=
  fun c hc _ hk => ownsKey_iff.mpr ⟨i, hiv, d, hd, c, hc, hk⟩

section facts
variable {cfg : Cfg} {vs : List View} (wf : GroupWF cfg vs)
include wf

theorem owner_unique {v w : View} (hv : v ∈ vs) (hw : w ∈ vs) {i : Nat} (hiv : i ∈ v.ia) (hiw : i ∈ w.ia) : v = w :=
  apart_unique wf.apart hv hw hiv hiw

/-- F2: … and to no other member -/
theorem other_ckeys {w : View} (hw : w ∈ vs) {i : Nat} {d : ArgDef} (hiw : i ∉ w.ia) (hd : cfg.args[i]? = some d) :
    ∀ c ∈ d.constraints, ∀ k ∈ c.2, ownsKey cfg w k = false := by
  intro c hc k hk
  cases h : ownsKey cfg w k with
  | false => rfl
  | true =>
    obtain ⟨a, ha, da, hda, c', hc', hk'⟩ := ownsKey_iff.mp h
    have := wf.w2 w hw a ha i hiw da d hda hd c' hc' k hk' c hc k hk
    rw [Key.eq_refl] at this
    cases this

/-- F4: a pending key that equals the key of an argument does not belong to another member -/
theorem other_pending {w : View} (hw : w ∈ vs) {i : Nat} {d : ArgDef} (hiw : i ∉ w.ia) (hd : cfg.args[i]? = some d)
    (k : Key) (hk : k.eq d.key = true) : ownsKey cfg w k = false := by
  cases h : ownsKey cfg w k with
  | false => rfl
  | true =>
    obtain ⟨a, ha, da, hda, c', hc', hk'⟩ := ownsKey_iff.mp h
    have := wf.w1 w hw a ha i hiw da d hda hd c' hc' k hk'
    rw [Key.eq_symm, hk] at this
    cases this

/-- F3: … it belongs to the argument's member -/
theorem owner_pending {v : View} (hv : v ∈ vs) {i : Nat} {d : ArgDef} (hiv : i ∈ v.ia) (hd : cfg.args[i]? = some d)
    (k : Key) (hown : ∃ w ∈ vs, ownsKey cfg w k = true) (hk : k.eq d.key = true) : ownsKey cfg v k = true := by
  obtain ⟨w, hw, hwk⟩ := hown
  by_cases hiw : i ∈ w.ia
  · rw [owner_unique wf hv hw hiv hiw]; exact hwk
  · rw [other_pending wf hw hiw hd k hk] at hwk; cases hwk

/-- F5: a pending key that equals a key in a constraint of an argument belongs to the argument's
    member -/
theorem owner_pending_ckey {v : View} (hv : v ∈ vs) {i : Nat} {d : ArgDef} (hiv : i ∈ v.ia)
    (hd : cfg.args[i]? = some d) (k : Key) (hown : ∃ w ∈ vs, ownsKey cfg w k = true)
    (c : CType × List Key) (hc : c ∈ d.constraints) (k' : Key) (hk' : k' ∈ c.2) (hk : k.eq k' = true) :
    ownsKey cfg v k = true := by
  obtain ⟨w, hw, hwk⟩ := hown
  by_cases hiw : i ∈ w.ia
  · rw [owner_unique wf hv hw hiv hiw]; exact hwk
  · obtain ⟨a, ha, da, hda, c', hc', hkc⟩ := ownsKey_iff.mp hwk
    have := wf.w2 w hw a ha i hiw da d hda hd c' hc' k hkc c hc k' hk'
    rw [hk] at this
    cases this

/-- F6: a handler constraint that lists the argument belongs to the argument's member -/
theorem owner_globals {v : View} (hv : v ∈ vs) {i : Nat} {d : ArgDef} (hiv : i ∈ v.ia) (hd : cfg.args[i]? = some d) :
    ∀ g gd, cfg.globals[g]? = some gd → g ∉ v.ig → isConstraintArgument gd.keys d.key = false := by
  intro g gd hgd hg
  have hlt : g < cfg.globals.length := (List.getElem?_eq_some_iff.mp hgd).1
  obtain ⟨w, hw, hgw⟩ := wf.gcover g hlt
  by_cases hiw : i ∈ w.ia
  · rw [owner_unique wf hv hw hiv hiw] at hg; exact absurd hgw hg
  · exact wf.w3 w hw g hgw i hiw gd d hgd hd

/-- F7: the handler constraints of another member do not list the argument -/
theorem other_globals {w : View} (hw : w ∈ vs) {i : Nat} {d : ArgDef} (hiw : i ∉ w.ia) (hd : cfg.args[i]? = some d) :
    ∀ g ∈ w.ig, ∀ gd, cfg.globals[g]? = some gd → isConstraintArgument gd.keys d.key = false :=
  fun g hg gd hgd => wf.w3 w hw g hg i hiw gd d hgd hd

end facts

/-! ### the owner computes the view of the merged computation -/

/-- `assignValue` in the owner (free value of a multi-value argument) -/
theorem assignValue_owner (cfg : Cfg) (v : View) (H h : HState) (i loc : Nat) (d : ArgDef) (value : Word) (b : Bool)
    (hargs : h.args = pick v.ia H.args) (hpend : h.pending = pfilter (ownsKey cfg v) H.pending)
    (hinv : h.inverted = H.inverted) (hsrc : h.fromSrc = H.fromSrc)
    (hb : ∀ a ∈ v.ia, a < H.args.length) (hn : v.ia.Nodup) (hloc : v.ia.idxOf? i = some loc)
    (f1 : ∀ c ∈ d.constraints, ∀ k ∈ c.2, ownsKey cfg v k = true)
    (f5 : ∀ e ∈ H.pending, ∀ c ∈ d.constraints, ∀ k ∈ c.2, e.1.eq k = true → ownsKey cfg v e.1 = true) :
    assignValue h loc d value b =
      (assignValue H i d value b >>= fun H' => pure
        { args := pick v.ia H'.args, pending := pfilter (ownsKey cfg v) H'.pending, globals := h.globals,
          lastArg := h.lastArg, inverted := h.inverted, fromSrc := h.fromSrc,
          uses := h.uses ++ [{ arg := loc, val := value, ident := b }] }) := by
  rw [assignValue_eq, assignValue_eq]
  have hst : h.args.getD loc default = H.args.getD i default := by
    rw [List.getD_eq_getElem?_getD, List.getD_eq_getElem?_getD, hargs, pick_at hb hloc]
  rw [hst, hinv, hsrc]
  cases argStep d (H.args.getD i default) H.fromSrc H.inverted value with
  | ok st' =>
    simp only [Res.bind_ok, Res.pure_eq, Res.ok.injEq, HState.mk.injEq, and_true]
    refine ⟨?_, ?_⟩
    · rw [hargs, pick_set_mem v.ia H.args hb hn st' hloc]
    · rw [hpend, activate_filter_in (ownsKey cfg v) d.constraints H.pending f1 f5]
  | throw e => rfl
  | oob w => rfl

/-- `handleIdentifiedArg` in the owner -/
theorem handleIdentifiedArg_owner (cfg : Cfg) (v : View) (H h : HState) (i loc : Nat) (d : ArgDef) (value : Word)
    (hargs : h.args = pick v.ia H.args) (hglob : h.globals = pick v.ig H.globals)
    (hpend : h.pending = pfilter (ownsKey cfg v) H.pending)
    (hinv : h.inverted = H.inverted) (hsrc : h.fromSrc = H.fromSrc)
    (hb : ∀ a ∈ v.ia, a < H.args.length) (hn : v.ia.Nodup) (hloc : v.ia.idxOf? i = some loc)
    (hglen : cfg.globals.length = H.globals.length) (hgb : ∀ g ∈ v.ig, g < cfg.globals.length)
    (f1 : ∀ c ∈ d.constraints, ∀ k ∈ c.2, ownsKey cfg v k = true)
    (f3 : ∀ e ∈ H.pending, e.1.eq d.key = true → ownsKey cfg v e.1 = true)
    (f5 : ∀ e ∈ H.pending, ∀ c ∈ d.constraints, ∀ k ∈ c.2, e.1.eq k = true → ownsKey cfg v e.1 = true)
    (f6 : ∀ g gd, cfg.globals[g]? = some gd → g ∉ v.ig → isConstraintArgument gd.keys d.key = false) :
    handleIdentifiedArg (viewCfg cfg v) { h with lastArg := some loc } loc d value =
      (handleIdentifiedArg cfg { H with lastArg := some i } i d value >>= fun H' => pure
        { args := pick v.ia H'.args, pending := pfilter (ownsKey cfg v) H'.pending, globals := pick v.ig H'.globals,
          lastArg := some loc, inverted := false, fromSrc := h.fromSrc,
          uses := h.uses ++ [{ arg := loc, val := value, ident := true }] }) := by
  rw [handleIdentifiedArg_eq, handleIdentifiedArg_eq]
  have hst : h.args.getD loc default = H.args.getD i default := by
    rw [List.getD_eq_getElem?_getD, List.getD_eq_getElem?_getD, hargs, pick_at hb hloc]
  simp only [hst, hinv, hsrc]
  rw [hpend, pendingIdentified_filter_in (ownsKey cfg v) d.key H.pending f3]
  cases hP : pendingIdentified d.key H.pending with
  | ok P =>
    simp only [Res.bind_ok, Res.pure_eq]
    have hvg : (viewCfg cfg v).globals = pick v.ig cfg.globals := rfl
    rw [hvg, hglob, executeGlobals_view d.key cfg.globals H.globals hglen v.ig hgb f6]
    cases executeGlobals cfg.globals H.globals d.key with
    | ok G =>
      simp only [Res.bind_ok, Res.pure_eq]
      cases argStep d (H.args.getD i default) H.fromSrc H.inverted value with
      | ok st' =>
        simp only [Res.bind_ok, Res.ok.injEq, HState.mk.injEq, and_true]
        refine ⟨?_, ?_⟩
        · rw [hargs, pick_set_mem v.ia H.args hb hn st' hloc]
        · rw [activate_filter_in (ownsKey cfg v) d.constraints P f1
            (fun e he => f5 e (pendingIdentified_sub d.key H.pending P hP e he))]
      | throw e => rfl
      | oob w => rfl
    | throw e => rfl
    | oob w => rfl
  | throw e => rfl
  | oob w => rfl

/-! ### what a successful use changes in the merged state -/

theorem assignValue_ok_g {H H' : HState} {i : Nat} {d : ArgDef} {value : Word} {b : Bool}
    (h : assignValue H i d value b = .ok H') :
    ∃ st', H'.args = H.args.set i st' ∧ H'.pending = activateConstraints d.constraints H.pending ∧
      H'.globals = H.globals ∧ H'.lastArg = H.lastArg ∧ H'.inverted = H.inverted ∧ H'.fromSrc = H.fromSrc ∧
      H.inverted = false := by
  rw [assignValue_eq, bind_eq_ok_g] at h
  obtain ⟨st', hs, h⟩ := h
  cases h
  refine ⟨st', rfl, rfl, rfl, rfl, rfl, rfl, ?_⟩
  unfold argStep at hs
  simp only [bind_eq_ok_g] at hs
  obtain ⟨_, _, _, _, _, h3, _⟩ := hs
  exact throwIf_eq_ok_g.mp h3

theorem handleIdentifiedArg_ok {c : Cfg} {H H' : HState} {i : Nat} {d : ArgDef} {value : Word}
    (h : handleIdentifiedArg c H i d value = .ok H') :
    ∃ P G st', pendingIdentified d.key H.pending = .ok P ∧ executeGlobals c.globals H.globals d.key = .ok G ∧
      H'.args = H.args.set i st' ∧ H'.pending = activateConstraints d.constraints P ∧
      H'.globals = G ∧ H'.lastArg = H.lastArg ∧ H'.inverted = false ∧ H'.fromSrc = H.fromSrc := by
  rw [handleIdentifiedArg_eq] at h
  simp only [bind_eq_ok_g] at h
  obtain ⟨P, hP, G, hG, st', _, h⟩ := h
  cases h
  exact ⟨P, G, st', hP, hG, rfl, rfl, rfl, rfl, rfl, rfl⟩

end CelmaVerif.ProgArgs
