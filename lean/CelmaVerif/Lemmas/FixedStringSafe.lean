import CelmaVerif.Lemmas.FixedStringBase
/-
  C10, mutators: every modifying function of the model returns normally (never `.oob`) with a
  well-formed string, for every argument value.  One lemma per function, one `·` per branch.
-/
namespace CelmaVerif.FixedString
open CelmaVerif

variable {c : Cfg}

theorem zeros_length (c : Cfg) : (zeros c).length = c.L + 1 := by simp [zeros]

theorem fresh_wf (c : Cfg) : WF c (fresh c) := by
  refine ⟨zeros_length c, Nat.zero_le _, ?_⟩
  simp [fresh, zeros]

theorem internalCopy_safe (hc : CfgOK c) {buf : List Byte} {n : Nat} {src : List Byte}
    (hb : buf.length = c.L + 1) (hn : n ≤ c.L) (hs : n ≤ src.length) : OkWF c (internalCopy ⟨buf, n⟩ src) := by
  unfold internalCopy
  simp only
  have fin : ∀ b : List Byte, b.length = c.L + 1 → OkWF c (bindR (put1 b n 0) fun b' => .ok ⟨b', n⟩) := by
    intro b hl
    obtain ⟨b', hb2, hl2⟩ := good_put1 (buf := b) (i := n) (b := 0) hl (by omega)
    rw [hb2, bindR_ok]
    exact ⟨_, rfl, hl2, hn, put1_get hb2⟩
  by_cases h0 : n > 0
  · rw [if_pos h0]
    exact okwf_bind (good_copyIn hb (by omega) (by omega)) fin
  · rw [if_neg h0]
    exact fin buf hb

theorem assignP_safe (hc : CfgOK c) {s : FStr} (hs : WF c s) {a : List Byte} (ha : 0 ∈ a) :
    OkWF c (assignP c s a) := by
  obtain ⟨n, h1, h2, _⟩ := cstrlen_ok a ha
  unfold assignP; rw [h1, bindR_ok]
  have : min c.L n ≤ c.L := Nat.min_le_left _ _
  rw [narrow_eq hc this]
  exact internalCopy_safe hc hs.1 this (by omega)

theorem assignS_safe (hc : CfgOK c) {s : FStr} (hs : WF c s) (d : Str) : OkWF c (assignS c s d) := by
  unfold assignS
  have : min c.L d.length ≤ c.L := Nat.min_le_left _ _
  rw [narrow_eq hc this]
  exact internalCopy_safe hc hs.1 this (by simp; omega)

theorem assignF_safe (hc : CfgOK c) {s : FStr} (hs : WF c s) {co : Cfg} {o : FStr} (ho : WF co o) :
    OkWF c (assignF c s o) := by
  unfold assignF
  have : min c.L o.len ≤ c.L := Nat.min_le_left _ _
  rw [narrow_eq hc this]
  exact internalCopy_safe hc hs.1 this (by have := ho.1; have := ho.2.1; omega)

theorem ctorMove_safe (hc : CfgOK c) {o : FStr} (ho : WF c o) : OkWF c (ctorMove c o) := by
  unfold ctorMove
  by_cases h : o.len > 0
  · rw [if_pos h]; exact internalCopy_safe hc (zeros_length c) ho.2.1 (by have := ho.1; have := ho.2.1; omega)
  · rw [if_neg h]
    have h0 : o.len = 0 := by omega
    refine ⟨_, rfl, zeros_length c, ?_, ?_⟩
    · simp [h0]
    · simp [h0, zeros]

theorem clear_safe {s : FStr} (hs : WF c s) : OkWF c (clear s) := by
  unfold clear
  obtain ⟨b, hb, hl⟩ := good_put1 (buf := s.buf) (i := 0) (b := 0) hs.1 (by omega)
  rw [hb, bindR_ok]
  exact ⟨_, rfl, hl, Nat.zero_le _, put1_get hb⟩

/-! ### insert -/

theorem insertCh_safe (hc : CfgOK c) {s : FStr} (hs : WF c s) (index count ch : Nat) :
    OkWF c (insertCh c s index count ch) := by
  obtain ⟨hb, hl, _⟩ := hs
  unfold insertCh
  split
  · split
    · apply okwf_bind (good_move hb (by omega) (by omega)); intro b1 h1
      apply okwf_bind (good_fill h1 (by omega)); intro b2 h2
      exact okwf_finish hc h2 (by omega)
    · split
      · apply okwf_bind (good_move hb (by omega) (by omega)); intro b1 h1
        apply okwf_bind (good_fill h1 (by omega)); intro b2 h2
        exact okwf_finish hc h2 (by omega)
      · apply okwf_bind (good_fill hb (by omega)); intro b2 h2
        exact okwf_finish hc h2 (by omega)
  · simp only
    split
    · apply okwf_bind (good_fill hb (by omega)); intro b2 h2
      exact okwf_finish hc h2 (by omega)
    · apply okwf_bind (good_fill hb (by omega)); intro b2 h2
      exact okwf_finish hc h2 (by omega)

/-- `insert( index, str, count)`: `[str, str + count)` must be readable (same contract as std::string) -/
theorem insertP_safe (hc : CfgOK c) {s : FStr} (hs : WF c s) (index : Nat) {a : List Byte} {count : Nat}
    (ha : count ≤ a.length) : OkWF c (insertP c s index a count) := by
  obtain ⟨hb, hl, _⟩ := hs
  unfold insertP
  split
  · split
    · apply okwf_bind (good_move hb (by omega) (by omega)); intro b1 h1
      apply okwf_bind (good_copyIn h1 (by omega) (by omega)); intro b2 h2
      exact okwf_finish hc h2 (by omega)
    · split
      · apply okwf_bind (good_move hb (by omega) (by omega)); intro b1 h1
        apply okwf_bind (good_copyIn h1 (by omega) (by omega)); intro b2 h2
        exact okwf_finish hc h2 (by omega)
      · apply okwf_bind (good_copyIn hb (by omega) (by omega)); intro b2 h2
        exact okwf_finish hc h2 (by omega)
  · simp only
    split
    · apply okwf_bind (good_copyIn hb (by omega) (by omega)); intro b2 h2
      exact okwf_finish hc h2 (by omega)
    · apply okwf_bind (good_copyIn hb (by omega) (by omega)); intro b2 h2
      exact okwf_finish hc h2 (by omega)

theorem insertCstr_safe (hc : CfgOK c) {s : FStr} (hs : WF c s) (index : Nat) {a : List Byte} (ha : 0 ∈ a) :
    OkWF c (insertCstr c s index a) := by
  obtain ⟨n, h1, h2, _⟩ := cstrlen_ok a ha
  unfold insertCstr; rw [h1, bindR_ok]
  exact insertP_safe hc hs index (by omega)

theorem insertS_safe (hc : CfgOK c) {s : FStr} (hs : WF c s) (index : Nat) (d : Str) :
    OkWF c (insertS c s index d) := by
  unfold insertS; exact insertP_safe hc hs index (by simp)

theorem insertSub_safe (hc : CfgOK c) {s : FStr} (hs : WF c s) (index : Nat) (d : Str) (j n : Nat) :
    OkWF c (insertSub c s index d j n) := by
  unfold insertSub; split
  · exact okwf_ok hs
  · exact insertS_safe hc hs index _

theorem insertF_safe (hc : CfgOK c) {s : FStr} (hs : WF c s) (index : Nat) {co : Cfg} {o : FStr} (ho : WF co o) :
    OkWF c (insertF c s index o) := by
  unfold insertF; exact insertP_safe hc hs index (by have := ho.1; have := ho.2.1; omega)

theorem insertFSub_safe (hc : CfgOK c) {s : FStr} (hs : WF c s) (index : Nat) {co : Cfg} {o : FStr} (ho : WF co o)
    (j n : Nat) : OkWF c (insertFSub c s index o j n) := by
  unfold insertFSub; split
  · exact okwf_ok hs
  · apply insertP_safe hc hs index
    have := ho.1; have := ho.2.1
    simp only [List.length_drop]
    have : min (o.len - j) n ≤ o.len - j := Nat.min_le_left _ _
    omega

/-- results of the iterator overloads: string well-formed (the returned iterator is a plain number) -/
def OkWF2 (c : Cfg) (r : Res (FStr × Nat)) : Prop := ∃ p, r = .ok p ∧ WF c p.1

theorem okwf2_of {r : Res FStr} {g : FStr → Nat} (h : OkWF c r) :
    OkWF2 c (bindR r fun s' => .ok (s', g s')) := by
  obtain ⟨s', hs', hw⟩ := h
  rw [hs']; exact ⟨_, rfl, hw⟩

theorem insertItCh_safe (hc : CfgOK c) {s : FStr} (hs : WF c s) (pos count ch : Nat) :
    OkWF2 c (insertItCh c s pos count ch) := by
  unfold insertItCh; split
  · exact ⟨_, rfl, hs⟩
  · exact okwf2_of (insertCh_safe hc hs _ count ch)

theorem insertItList_safe (hc : CfgOK c) {s : FStr} (hs : WF c s) (pos : Nat) (il : Str) :
    OkWF2 c (insertItList c s pos il) := by
  unfold insertItList; split
  · exact ⟨_, rfl, hs⟩
  · simp only; split
    · exact ⟨_, rfl, hs⟩
    · exact okwf2_of (insertP_safe hc hs _ (Nat.le_refl _))

/-! ### erase, push_back, pop_back -/

theorem erase_safe (hc : CfgOK c) {s : FStr} (hs : WF c s) (index count : Nat) : OkWF c (erase c s index count) := by
  obtain ⟨hb, hl, h0⟩ := hs
  unfold erase
  split
  · exact okwf_ok ⟨hb, hl, h0⟩
  · split
    · obtain ⟨b, hb1, hl1⟩ := good_put1 (buf := s.buf) (i := index) (b := 0) hb (by omega)
      rw [hb1, bindR_ok]
      refine ⟨_, rfl, hl1, ?_, ?_⟩
      · simp only; rw [narrow_eq hc (by omega)]; omega
      · simp only; rw [narrow_eq hc (by omega)]; exact put1_get hb1
    · apply okwf_bind (good_move hb (by omega) (by omega)); intro b h1
      exact okwf_finish hc h1 (by omega)

theorem eraseIt_safe (hc : CfgOK c) {s : FStr} (hs : WF c s) (pos : Nat) : OkWF2 c (eraseIt c s pos) := by
  unfold eraseIt; split
  · exact ⟨_, rfl, hs⟩
  · exact okwf2_of (erase_safe hc hs _ 1)

theorem eraseItIt_safe (hc : CfgOK c) {s : FStr} (hs : WF c s) (first last : Nat) :
    OkWF2 c (eraseItIt c s first last) := by
  unfold eraseItIt; split
  · exact ⟨_, rfl, hs⟩
  · exact okwf2_of (erase_safe hc hs _ _)

theorem pushBack_safe (hc : CfgOK c) {s : FStr} (hs : WF c s) (ch : Byte) : OkWF c (pushBack c s ch) := by
  obtain ⟨hb, hl, h0⟩ := hs
  unfold pushBack; split
  · apply okwf_bind (good_put1 hb (by omega)); intro b h1
    exact okwf_finish hc h1 (by omega)
  · exact okwf_ok ⟨hb, hl, h0⟩

theorem popBack_safe (hc : CfgOK c) {s : FStr} (hs : WF c s) : OkWF c (popBack c s) := by
  obtain ⟨hb, hl, h0⟩ := hs
  unfold popBack; split
  · exact okwf_finish hc hb (by omega)
  · exact okwf_ok ⟨hb, hl, h0⟩

/-! ### append -/

theorem appendImpl_safe (hc : CfgOK c) {s : FStr} (hs : WF c s) {a : List Byte} {pos count : Nat}
    (ha : pos + count ≤ a.length) : OkWF c (appendImpl c s a pos count) := by
  obtain ⟨hb, hl, h0⟩ := hs
  unfold appendImpl; split
  · simp only
    have h1 : min (c.L - s.len) count ≤ c.L - s.len := Nat.min_le_left _ _
    have h2 : min (c.L - s.len) count ≤ count := Nat.min_le_right _ _
    apply okwf_bind (good_copyIn hb (by omega) (by omega)); intro b hb1
    exact okwf_finish hc hb1 (by omega)
  · exact okwf_ok ⟨hb, hl, h0⟩

theorem appendS_safe (hc : CfgOK c) {s : FStr} (hs : WF c s) (d : Str) : OkWF c (appendS c s d) := by
  unfold appendS; exact appendImpl_safe hc hs (by simp)

theorem appendF_safe (hc : CfgOK c) {s : FStr} (hs : WF c s) {co : Cfg} {o : FStr} (ho : WF co o) :
    OkWF c (appendF c s o) := by
  unfold appendF; exact appendImpl_safe hc hs (by have := ho.1; have := ho.2.1; omega)

theorem appendCh_safe (hc : CfgOK c) {s : FStr} (hs : WF c s) (count ch : Nat) : OkWF c (appendCh c s count ch) := by
  unfold appendCh; split
  · exact okwf_ok hs
  · exact appendS_safe hc hs _

theorem appendSSub_safe (hc : CfgOK c) {s : FStr} (hs : WF c s) (d : Str) (pos count : Nat) :
    OkWF c (appendSSub c s d pos count) := by
  unfold appendSSub; split
  · exact okwf_ok hs
  · apply appendImpl_safe hc hs
    have : min count (d.length - pos) ≤ d.length - pos := Nat.min_le_right _ _
    simp; omega

theorem appendFSub_safe (hc : CfgOK c) {s : FStr} (hs : WF c s) {co : Cfg} {o : FStr} (ho : WF co o) (pos count : Nat) :
    OkWF c (appendFSub c s o pos count) := by
  unfold appendFSub; split
  · exact okwf_ok hs
  · apply appendImpl_safe hc hs
    have : min count (o.len - pos) ≤ o.len - pos := Nat.min_le_right _ _
    have := ho.1; have := ho.2.1
    omega

theorem appendPN_safe (hc : CfgOK c) {s : FStr} (hs : WF c s) {a : List Byte} (ha : 0 ∈ a) (count : Nat) :
    OkWF c (appendPN c s a count) := by
  obtain ⟨n, h1, h2, _⟩ := cstrlen_ok a ha
  unfold appendPN; rw [h1, bindR_ok]
  apply appendImpl_safe hc hs
  have : min count n ≤ n := Nat.min_le_right _ _
  omega

theorem appendP_safe (hc : CfgOK c) {s : FStr} (hs : WF c s) {a : List Byte} (ha : 0 ∈ a) :
    OkWF c (appendP c s a) := by
  obtain ⟨n, h1, h2, _⟩ := cstrlen_ok a ha
  unfold appendP; rw [h1, bindR_ok]
  exact appendImpl_safe hc hs (by omega)

/-- `sprintf`, FixedString's own code: whatever `vsnprintf` returned — a length, a length beyond the capacity or beyond
    the length type, or a NEGATIVE value (error) — and whatever it left in the `L + 1` bytes it was given, the string is
    well-formed afterwards. -/
theorem sprintfV_safe (hc : CfgOK c) {s : FStr} (hs : WF c s) (written : Str) (hw : written.length ≤ c.L + 1)
    (result : Int) : OkWF c (sprintfV c s written result) := by
  obtain ⟨hb, hl, h0⟩ := hs
  unfold sprintfV
  apply okwf_bind (good_write hb (by omega)); intro b hb1
  apply okwf_finish hc hb1
  split
  · exact Nat.zero_le _
  · exact Nat.min_le_left _ _

/-- what `sprintf` leaves, for any formatter: the length is 0 for a negative result and `min( L, result)` otherwise, and
    the characters in front of the terminator are the ones the formatter wrote -/
theorem sprintfV_content (hc : CfgOK c) {s s' : FStr} (hs : WF c s) (written : Str) (hw : written.length ≤ c.L + 1)
    (result : Int) (h : sprintfV c s written result = .ok s') :
    s'.len = (if result < 0 then 0 else min c.L result.toNat) ∧
      (s'.len ≤ written.length → s'.buf.take s'.len = written.take s'.len) := by
  obtain ⟨hb, hl, h0⟩ := hs
  have hn : (if result < 0 then 0 else min c.L result.toNat) ≤ c.L := by
    split
    · exact Nat.zero_le _
    · exact Nat.min_le_left _ _
  unfold sprintfV at h
  generalize (if result < 0 then 0 else min c.L result.toNat) = n at hn h ⊢
  rw [Mem.write_ok (by omega), bindR_ok] at h
  unfold finish put1 at h
  rw [narrow_eq hc hn, Mem.write_ok (by
    simp only [List.length_append, List.length_take, List.length_drop, List.length_cons, List.length_nil]; omega),
    bindR_ok] at h
  cases h
  refine ⟨rfl, fun hle => ?_⟩
  simp only [List.take_zero, List.nil_append, Nat.zero_add]
  rw [List.append_assoc, List.take_left' (by
    rw [List.length_take, List.length_append, List.length_drop]; omega)]
  exact List.take_append_of_le_length hle

theorem vsnOut_length (c : Cfg) (text : Str) : (vsnOut c text).length ≤ c.L + 1 := by
  unfold vsnOut
  rw [List.length_append, List.length_take, List.length_singleton]
  omega

theorem sprintfF_safe (hc : CfgOK c) {s : FStr} (hs : WF c s) (f : Fmt) : OkWF c (sprintfF c s f) :=
  sprintfV_safe hc hs _ (vsnOut_length c _) _

theorem sprintf_safe (hc : CfgOK c) {s : FStr} (hs : WF c s) (text : Str) : OkWF c (sprintf c s text) :=
  sprintfF_safe hc hs (.done text)

end CelmaVerif.FixedString
