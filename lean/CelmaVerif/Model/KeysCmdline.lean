import CelmaVerif.Model.Keys
/-
  Command-line half of the keys model (C05): from a key word of the command line to the lookup key
  and the entry it selects.  Kept in a file of its own so that Model/Keys.lean (imported by the
  argument-handler model) stays untouched.
-/
namespace CelmaVerif.Keys
open CelmaVerif

/-- the keys of a sequence of specifications, unparsable ones left out (specification side: what
    `addAll` stores when no two of them clash, `addAll_eq_keysOf`) -/
def keysOf {α : Type} (specs : List (List Char × α)) : List (Key × α) :=
  specs.filterMap (fun sa => match Key.parse sa.1 with | .ok k => some (k, sa.2) | _ => none)

/-! ## from a command-line word to the lookup key

  `ArgListIterator` (arg_list_iterator.hpp, `determineNextArg`) turns the word `-c` into an element
  of type `singleCharArg` with `mArgChar = c` and the word `--name` into an element of type
  `stringArg` with `mArgString = name` (everything behind the two dashes, up to a `=`);
  `Handler::evalSingleArgument` (handler.cpp) looks the first up with `ArgumentKey( ai->mArgChar)`
  and the second with `ArgumentKey( ai->mArgString)`, i.e. it runs the name through the parser of
  key *specifications* once more — after the `fix:` commit for the finding `one-char-long-key` with
  the two dashes put back in front of a name of one character (`wordKey` in Model/Keys.lean, the
  function the handler model uses too), because a lone character is the SHORT key for that parser.
  `cmdKeyHead` / `cmdLookupHead` are the pinned code (kept for the witness theorems).
  Only the two plain key words are modelled here (bundled characters `-abc`, `--name=value`, values
  and control characters belong to the handler model, `Model/ProgArgs`); the tie is the harness
  operation `keys word`, which goes through the real `Handler::evalArguments`. -/

/-- a key word of the command line: `-c` or `--name` -/
inductive CmdWord where
  | short (c : Char)
  | long (name : List Char)
  deriving DecidableEq, Repr

/-- the two plain key words; `none` for every other word (`--`, `--name=value`, `-abc`, values, …) -/
def classifyWord : List Char → Option CmdWord
  | ['-', c] => if c = '-' then none else some (.short c)
  | '-' :: '-' :: name => if name = [] ∨ '=' ∈ name then none else some (.long name)
  | _ => none

/-- the lookup key `Handler::evalSingleArgument` constructs -/
def cmdKey : CmdWord → Res Key
  | .short c => .ok (Key.ofChar c)          -- `ArgumentKey( ai->mArgChar)`
  | .long name => wordKey name              -- `ArgumentKey( "--" + name)` if |name| = 1, else `ArgumentKey( name)`

/-- the lookup key the pinned `Handler::evalSingleArgument` constructed -/
def cmdKeyHead : CmdWord → Res Key
  | .short c => .ok (Key.ofChar c)
  | .long name => wordKeyHead name          -- `ArgumentKey( ai->mArgString)` for every name

/-- `processArg( key)` as far as the table is concerned: the entry a key word selects -/
def cmdLookup {α : Type} (abbr : Bool) (table : List (Key × α)) (w : List Char) : Res (Option (Nat × α)) :=
  match classifyWord w with
  | none => .throw .logic_error             -- not a key word (never produced for one; the driver answers `bad-op`)
  | some cw => do
    let k ← cmdKey cw
    findArg abbr table k

/-- the same with the pinned key construction -/
def cmdLookupHead {α : Type} (abbr : Bool) (table : List (Key × α)) (w : List Char) : Res (Option (Nat × α)) :=
  match classifyWord w with
  | none => .throw .logic_error
  | some cw => do
    let k ← cmdKeyHead cw
    findArg abbr table k

end CelmaVerif.Keys
