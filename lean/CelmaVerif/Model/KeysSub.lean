import CelmaVerif.Model.Keys
import CelmaVerif.Model.KeysCmdline
/-
  The two argument containers of one handler (C05, sub-group arguments): `Handler::mArguments`
  (plain arguments) and `Handler::mSubGroupArgs` (arguments that open a sub-group).
  * definition: `ArgumentContainer::addArgument( obj, key, also_check)` asks the OTHER container
    first (`checkKeyUnused`, `fix:` 2dd61bc), then stores in its own table;
  * lookup: the head of `Handler::processArg` (handler.cpp) after the `fix:` "an abbreviation of a
    sub-group argument's long key shadowed the exact key of a plain argument".
-/
namespace CelmaVerif.Keys
open CelmaVerif

/-! ## lookup over both containers -/

/-- the head of `Handler::processArg`: which sub-group argument the key designates, if any.
    `none` = the key goes on to `mArguments.findArg( key)`. -/
def findSub {α β : Type} (abbr : Bool) (subT : List (Key × α)) (plainT : List (Key × β)) (key : Key) :
    Res (Option (Nat × α)) :=
  match findExact key subT 0 with            -- mSubGroupArgs.findArg( key, true)
  | some r => .ok (some r)
  | none =>
    match findExact key plainT 0 with        -- mArguments.findArg( key, true)
    | some _ => .ok none
    | none => do
      let s ← findArg abbr subT key           -- mSubGroupArgs.findArg( key)
      match s with
      | none => pure none
      | some r => do
        let p ← findArg abbr plainT key       -- mArguments.findArg( key)
        match p with
        | some _ => .throw .runtime_error     -- "matches more than one argument"
        | none => pure (some r)

/-- the pinned head of `processArg`: `mSubGroupArgs.findArg( key)` alone, abbreviations included,
    before the plain arguments are looked at (kept for the witness theorems) -/
def findSubHead {α : Type} (abbr : Bool) (subT : List (Key × α)) (key : Key) : Res (Option (Nat × α)) :=
  findArg abbr subT key

/-- `ArgumentContainer::checkKeyUnused( key)` on the other container (`fix:` 2dd61bc) -/
def checkKeyUnused {α : Type} (t : List (Key × α)) (k : Key) : Res Unit :=
  if t.any (fun e => e.1.eq k || e.1.mismatch k) then .throw .invalid_argument else pure ()

/-- `mArguments.addArgument( obj, key, &mSubGroupArgs)` resp. `mSubGroupArgs.addArgument( obj, key,
    &mArguments)`: the other container is asked first, then the own table -/
def addArgumentChecked {α β : Type} (own : List (Key × α)) (other : List (Key × β)) (k : Key) (a : α) :
    Res (List (Key × α)) := do
  checkKeyUnused other k
  addArgument own k a


/-- the entry a key word of the command line selects in a handler with both containers: the
    payload of the sub-group argument or of the plain argument (`processArg`: `findSub`, then
    `mArguments.findArg( key)`) -/
def cmdLookupT {α : Type} (abbr : Bool) (plainT subT : List (Key × α)) (w : List Char) : Res (Option (Nat × α)) :=
  match classifyWord w with
  | none => .throw .logic_error
  | some cw => do
    let k ← cmdKey cw
    match ← findSub abbr subT plainT k with
    | some r => pure (some r)
    | none => findArg abbr plainT k

end CelmaVerif.Keys
