import CelmaVerif.Base.Res
/-
  Model of the argument keys and the argument table of the argument handler:

  * `celma::prog_args::detail::ArgumentKey` (src/library/prog_args/detail/argument_key.cpp):
    the string constructor with every rejection (`Key.parse` = the code after the second `fix:`
    commit, `Key.parseHead` = the pinned commit), the char constructor, `==`, `<`, `mismatch`,
    `startsWith`, `operator<<`;
  * `Storage<T, E>::addArgument` (src/celma/prog_args/detail/storage.hpp) as instantiated by
    `ArgumentContainer` (`E = std::invalid_argument`, duplicates not allowed);
  * `ArgumentContainer::findArg` (src/library/prog_args/detail/argument_container.cpp):
    `findArg` is the code after the `fix:` commit (exact matches in a first pass),
    `findArgHead` the single-pass code of the pinned commit (kept for the witness theorem).

  Characters are `Char`; the byte `'\0'` plays the role it has in the C++ (`mChar == '\0'` means
  "no short key"), which is why `short : Option Char` never holds `some '\0'`.
-/
namespace CelmaVerif.Keys
open CelmaVerif

/-- `ArgumentKey`: `mChar` (`'\0'` ↔ `none`) and `mWord` -/
structure Key where
  short : Option Char
  long  : List Char
  deriving DecidableEq, Repr

/-- the key of the positional argument, `ArgumentKey( "-")`: both parts empty -/
def Key.pos : Key := ⟨none, []⟩

def StartChar : Char := '-'
def KeySeparator : Char := ','

/-- value of `mChar` as an optional short key -/
def mkShort (c : Char) : Option Char := if c = '\x00' then none else some c

/-- `ArgumentKey( char)` -/
def Key.ofChar (c : Char) : Key := ⟨mkShort c, []⟩

/-- `s[i]` of a `std::string`: defined for `i ≤ size()` (`s[size()]` is the NUL), checked beyond -/
def charAt (s : List Char) (i : Nat) (what : String := "std::string operator[]") : Res Char :=
  if i < s.length then .ok (s.getD i '\x00')
  else if i = s.length then .ok '\x00'
  else .oob what

/-- `remove_dashes( string arg_spec)` -/
def removeDashes (s : List Char) : Res (List Char) := do
  let c ← charAt s 0 "remove_dashes: arg_spec[0] (1)"
  let s := if c = StartChar then s.drop 1 else s          -- erase( 0, 1)
  let c ← charAt s 0 "remove_dashes: arg_spec[0] (2)"
  let s := if c = StartChar then s.drop 1 else s
  let c ← charAt s 0 "remove_dashes: arg_spec[0] (3)"
  if c = StartChar then .throw .invalid_argument           -- too many leading dashes
  else pure s

/-- `std::string::substr( pos)` -/
def substrFrom (s : List Char) (pos : Nat) : Res (List Char) :=
  if pos ≤ s.length then .ok (s.drop pos) else .throw .out_of_range

/-- number of leading dashes to skip in the form without comma.
    `fixed = true`: the code after the `fix:` commit (`(s[0] != '-') ? 0 : 1 + (s[1] == '-')`);
    `fixed = false`: the pinned commit (`(s[0] == '-') + (s[1] == '-')`, which counts a dash in the
    second position also when the first character is not a dash) -/
def ignoreLeadingDashes (fixed : Bool) (c0 c1 : Char) : Nat :=
  if fixed then
    (if c0 ≠ StartChar then 0 else 1 + (if c1 = StartChar then 1 else 0))
  else
    (if c0 = StartChar then 1 else 0) + (if c1 = StartChar then 1 else 0)

/-- the branch `comma_pos == string::npos`: only one kind of key given -/
def parseSingle (fixed : Bool) (s : List Char) : Res Key := do
  let c0 ← charAt s 0 "ctor: arg_spec[0]"
  let c1 ← charAt s 1 "ctor: arg_spec[1]"
  let ign := ignoreLeadingDashes fixed c0 c1
  let ci ← charAt s ign "ctor: arg_spec[ignore_leading_dashes]"
  if ci = StartChar then .throw .invalid_argument                -- too many leading dashes
  else if s.length - ign = 1 ∧ ign < 2 then pure ⟨mkShort ci, []⟩
  else do
    let w ← substrFrom s ign
    pure ⟨none, w⟩

/-- the branch with a comma at `commaPos`: short and long key -/
def parsePair (s : List Char) (commaPos : Nat) : Res Key :=
  if (s.drop (commaPos + 1)).contains KeySeparator then .throw .invalid_argument   -- too many commas
  else do
    let subBegin ← removeDashes (s.take commaPos)
    let subEnd ← removeDashes (s.drop (commaPos + 1))
    if subBegin = subEnd then .throw .invalid_argument           -- identical
    else if subBegin.length = 0 ∨ subEnd.length = 0 then .throw .invalid_argument   -- second missing
    else if subBegin.length = 1 ∧ subEnd.length = 1 then .throw .invalid_argument   -- two short
    else if subBegin.length = 1 then pure ⟨mkShort (subBegin.headD '\x00'), subEnd⟩
    else if subEnd.length = 1 then pure ⟨mkShort (subEnd.headD '\x00'), subBegin⟩
    else .throw .invalid_argument                                -- two long

/-- `ArgumentKey( const std::string& arg_spec)`, check by check -/
def Key.parseWith (fixed : Bool) (s : List Char) : Res Key :=
  if s.length = 0 then .throw .invalid_argument                      -- may not be empty
  else if s = [KeySeparator] then .throw .invalid_argument           -- ","
  else if s.contains ' ' then .throw .invalid_argument               -- may not contain space(s)
  else
    match s.findIdx? (· == KeySeparator) with
    | none => parseSingle fixed s
    | some commaPos => parsePair s commaPos

/-- the constructor as it is now (after the `fix:` commit) -/
def Key.parse (s : List Char) : Res Key := Key.parseWith true s

/-- the constructor of the pinned commit (kept for the witness theorem) -/
def Key.parseHead (s : List Char) : Res Key := Key.parseWith false s

/-- the lookup key `Handler::evalSingleArgument` builds for an element of type `stringArg`, i.e. for
    the name that followed two dashes on the command line (handler.cpp, case `stringArg`, after the
    `fix:` commit for the finding `one-char-long-key`): the name goes through the constructor for
    key *specifications*, for which a lone character would be the short key, so a name of one
    character gets its two dashes back (`ArgumentKey( "--" + ai->mArgString)`, the long key) -/
def wordKey (name : List Char) : Res Key :=
  Key.parse (if name.length = 1 then '-' :: '-' :: name else name)

/-- the same for the pinned commit: `ArgumentKey( ai->mArgString)` for every name (kept for the
    witness theorems; `--v` was looked up as the short key `v`) -/
def wordKeyHead (name : List Char) : Res Key := Key.parse name

/-- `operator==`: both chars set → compare the chars only; else both words non-empty → compare the
    words; all four empty → true; else false -/
def Key.eq (a b : Key) : Bool :=
  if a.short.isSome && b.short.isSome then a.short == b.short
  else if !a.long.isEmpty && !b.long.isEmpty then a.long == b.long
  else if a.short.isNone && b.short.isNone && a.long.isEmpty && b.long.isEmpty then true
  else false

/-- `operator<` (characters compared by code point; the signedness of plain `char` for bytes
    ≥ 0x80 is not modelled) -/
def Key.lt (a b : Key) : Bool :=
  match a.short, b.short with
  | some x, some y => decide (x < y)
  | _, _ =>
    if !a.long.isEmpty && !b.long.isEmpty then decide (a.long < b.long)
    else false

/-- `mismatch`: all four parts set and exactly one of them agrees -/
def Key.mismatch (a b : Key) : Bool :=
  if a.short.isSome && b.short.isSome && !a.long.isEmpty && !b.long.isEmpty then
    (a.short == b.short) != (a.long == b.long)
  else false

/-- `a.startsWith( b)`: `!mWord.empty() && !other.mWord.empty()
    && mWord.compare( 0, other.mWord.length(), other.mWord) == 0` -/
def Key.startsWith (a b : Key) : Bool :=
  !a.long.isEmpty && !b.long.isEmpty && (a.long.take b.long.length == b.long)

/-- `operator<<` -/
def Key.toString (k : Key) : List Char :=
  match k.short with
  | some c =>
    if k.long.length > 0 then ['-', c] ++ [','] ++ ['-', '-'] ++ k.long
    else ['-', c]
  | none => ['-', '-'] ++ k.long

/-! ## the table -/

/-- `Storage<T, std::invalid_argument>::addArgument( data, key)` with `mAllowDuplicates == false`
    (what `ArgumentContainer` constructs): the first stored entry that `== key` or mismatches it
    makes the call throw; otherwise the entry is appended -/
def addArgument {α : Type} (table : List (Key × α)) (k : Key) (a : α) : Res (List (Key × α)) :=
  if table.any (fun e => e.1.eq k || e.1.mismatch k) then .throw .invalid_argument
  else .ok (table ++ [(k, a)])

/-- `Storage::addArgument( data, arg_spec)`: parse, then add -/
def addArgumentSpec {α : Type} (table : List (Key × α)) (spec : List Char) (a : α) : Res (List (Key × α)) := do
  let k ← Key.parse spec
  addArgument table k a

/-- first loop of the repaired `findArg`: the first entry with `entry == key` -/
def findExact {α : Type} (k : Key) : List (Key × α) → Nat → Option (Nat × α)
  | [], _ => none
  | (ek, a) :: rest, i => if ek.eq k then some (i, a) else findExact k rest (i + 1)

/-- second loop of the repaired `findArg`: entries whose long key starts with the key's long key;
    the second one throws -/
def findAbbr {α : Type} (k : Key) : List (Key × α) → Nat → Option (Nat × α) → Res (Option (Nat × α))
  | [], _, part => .ok part
  | (ek, a) :: rest, i, part =>
    if ek.startsWith k then
      match part with
      | none => findAbbr k rest (i + 1) (some (i, a))
      | some _ => .throw .runtime_error          -- "matches more than one argument"
    else findAbbr k rest (i + 1) part

/-- `ArgumentContainer::findArg( key)` after the fix: exact match first, then (abbreviations
    allowed) the unique entry that starts with the key; result = (index in the table, payload),
    `none` = nullptr -/
def findArg {α : Type} (abbr : Bool) (table : List (Key × α)) (k : Key) : Res (Option (Nat × α)) :=
  match findExact k table 0 with
  | some r => .ok (some r)
  | none => if abbr then findAbbr k table 0 none else .ok none

/-- the single loop of the pinned commit: an exact match returns at once, a prefix match is
    remembered, a second prefix match throws — even when an exact match follows later -/
def findArgHeadLoop {α : Type} (abbr : Bool) (k : Key) :
    List (Key × α) → Nat → Option (Nat × α) → Res (Option (Nat × α))
  | [], _, part => .ok part
  | (ek, a) :: rest, i, part =>
    if ek.eq k then .ok (some (i, a))
    else if abbr && ek.startsWith k then
      match part with
      | none => findArgHeadLoop abbr k rest (i + 1) (some (i, a))
      | some _ => .throw .runtime_error
    else findArgHeadLoop abbr k rest (i + 1) part

def findArgHead {α : Type} (abbr : Bool) (table : List (Key × α)) (k : Key) : Res (Option (Nat × α)) :=
  findArgHeadLoop abbr k table 0 none

/-! ## specification side (used by the theorems in Props/C05.lean) -/

/-- both keys have the same short key -/
def Key.shareShort (a b : Key) : Prop := a.short.isSome = true ∧ a.short = b.short
/-- both keys have the same (non-empty) long key -/
def Key.shareLong (a b : Key) : Prop := a.long ≠ [] ∧ a.long = b.long
/-- `a` and `b` designate the same argument: same short key, same long key, or both are the
    positional key -/
def Key.Clash (a b : Key) : Prop := a.shareShort b ∨ a.shareLong b ∨ (a = Key.pos ∧ b = Key.pos)

/-- a lookup key as the command line produces it: a character, a word, or the positional key -/
def Key.Single (k : Key) : Prop := k.short = none ∨ k.long = []

/-- no two entries of the table designate the same argument -/
def Disjoint {α : Type} (t : List (Key × α)) : Prop := t.Pairwise (fun a b => ¬ a.1.Clash b.1)

/-- the sequence of `addArgument( spec)` calls of a program, refused ones (exception caught or
    not) leaving the table as it was -/
def addAll {α : Type} (t : List (Key × α)) (specs : List (List Char × α)) : List (Key × α) :=
  specs.foldl (fun t sa => match addArgumentSpec t sa.1 sa.2 with | .ok t' => t' | _ => t) t

/-- a lookup result without the index -/
def payload {α : Type} : Res (Option (Nat × α)) → Res (Option α)
  | .ok (some (_, a)) => .ok (some a)
  | .ok none => .ok none
  | .throw e => .throw e
  | .oob w => .oob w

/-- the outcome of an abbreviation among the entries whose long key starts with it: unknown,
    the unique candidate, or ambiguous -/
def uniqueOf {α : Type} : List (Key × α) → Res (Option α)
  | [] => .ok none
  | [e] => .ok (some e.2)
  | _ :: _ :: _ => .throw .runtime_error

/-- the key contains nothing that the syntax reserves: no leading dash left, no blank, no comma,
    no NUL as short key -/
def Key.WellFormed (k : Key) : Prop :=
  k.short ≠ some '-' ∧ k.short ≠ some ' ' ∧ k.short ≠ some ',' ∧ k.short ≠ some '\x00' ∧
  k.long.head? ≠ some '-' ∧ ' ' ∉ k.long ∧ ',' ∉ k.long

/-- a character usable as short key -/
def KeyChar (c : Char) : Prop := c ≠ '-' ∧ c ≠ ' ' ∧ c ≠ ',' ∧ c ≠ '\x00'
/-- a word usable as long key -/
def KeyWord (w : List Char) : Prop := w ≠ [] ∧ w.head? ≠ some '-' ∧ ' ' ∉ w ∧ ',' ∉ w

instance (c : Char) : Decidable (KeyChar c) := by unfold KeyChar; infer_instance
instance (w : List Char) : Decidable (KeyWord w) := by unfold KeyWord; infer_instance

end CelmaVerif.Keys
