import CelmaVerif.Generated.SharedState
/-
  C20 — interleaving models of `Singleton<T>::instance()` (singleton.hpp) and `ManagedThread`
  (managed_thread.hpp).

  Semantics: sequentially consistent interleaving.  A schedule is a list of thread ids; one entry
  lets that thread perform its next shared-memory access (one *micro step*).  `step` is total: a
  thread that is blocked (mutex held by somebody else, `join()` on a running thread), finished,
  not started or not existing does nothing.

  What the code does between two accesses is fixed by the program counter; *how* the cells are
  declared and synchronised (plain / atomic, memory orders, initialisation order of the flag
  relative to the start of the thread) is not hard-wired: it is a `Cfg`, and the instance the
  theorems are stated for (`Cfg.current`) is read from `Generated/SharedState.lean`, which
  translate/concurrency.py rewrites from /repo on every run.  `Cfg.head` is the configuration of
  the pinned commit (before the two `fix:` commits), kept for the recorded witnesses.
-/
namespace CelmaVerif.Concurrency

/-- facts about the source the model is parametrised with -/
structure Cfg where
  /-- the cell tested by the unlocked first check of `instance()` is a `std::atomic` -/
  ptrAtomic : Bool
  /-- the unlocked load uses acquire (or seq_cst) -/
  loadAcq : Bool
  /-- the publishing store uses release (or seq_cst) -/
  storeRel : Bool
  /-- the object is owned by a separate plain `unique_ptr` that is written inside the lock -/
  separateOwner : Bool
  /-- `return` dereferences the shared cell again (`return *mpObject;`) instead of a local -/
  finalReadShared : Bool
  /-- the activity flag is a `std::atomic<bool>` -/
  flagAtomic : Bool
  /-- the activity flag is constructed before the `std::thread` is started -/
  flagFirst : Bool
  /-- stores to the flag are release (or stronger), `isActive()` loads acquire (or stronger) -/
  flagOrders : Bool
  deriving Repr, DecidableEq

/-- what the source says now (regenerated on every check) -/
def Cfg.current : Cfg :=
  { ptrAtomic := Generated.SharedState.singletonPtrAtomic
    loadAcq := Generated.SharedState.singletonLoadAcquire
    storeRel := Generated.SharedState.singletonStoreRelease
    separateOwner := Generated.SharedState.singletonSeparateOwner
    finalReadShared := Generated.SharedState.singletonFinalReadShared
    flagAtomic := Generated.SharedState.managedFlagAtomic
    flagFirst := Generated.SharedState.managedFlagFirst
    flagOrders := Generated.SharedState.managedFlagOrdersOk }

/-- the pinned commit: plain `unique_ptr` read outside the mutex, flag member initialised after
    the `std::thread` base class has started the thread -/
def Cfg.head : Cfg :=
  { ptrAtomic := false, loadAcq := false, storeRel := false, separateOwner := false,
    finalReadShared := true, flagAtomic := true, flagFirst := false, flagOrders := true }

/-- function update -/
def upd {α : Type} (f : Nat → α) (t : Nat) (v : α) : Nat → α := fun u => if u = t then v else f u

@[simp] theorem upd_same {α : Type} (f : Nat → α) (t : Nat) (v : α) : upd f t v t = v := by simp [upd]
theorem upd_other {α : Type} (f : Nat → α) (t u : Nat) (v : α) (h : u ≠ t) : upd f t v u = f u := by
  simp [upd, h]

/-! ## Singleton<T>::instance() -/

/-- program counter = the next shared access of a thread inside `instance()`:
    `read1` the unlocked check, `lock` acquiring `mMutex`, `read2` the check under the lock,
    `construct` `new T(...)` (plus the store into the owning `unique_ptr` when that is a separate
    cell), `write` the store into the cell the unlocked check reads, `unlock` the end of the
    `lock_guard` scope, `read3` the `return` statement. -/
inductive SPc | read1 | lock | read2 | construct | write | unlock | read3 | done
  deriving DecidableEq, Repr

def SPc.name : SPc → String
  | .read1 => "read1" | .lock => "lock" | .read2 => "read2" | .construct => "construct"
  | .write => "store" | .unlock => "unlock" | .read3 => "read3" | .done => "-"

/-- objects are identified by their construction serial number; `none` is `nullptr` -/
structure SState where
  ptr : Option Nat := none
  lock : Option Nat := none
  built : Nat := 0
  pc : Nat → SPc := fun _ => .read1
  loc : Nat → Option Nat := fun _ => none
  ret : Nat → Option Nat := fun _ => none

def SState.init : SState := {}

/-- one micro step of thread `t` (of `n` threads) -/
def sstep (cfg : Cfg) (n : Nat) (s : SState) (t : Nat) : SState :=
  if t < n then
    match s.pc t with
    | .read1 => { s with loc := upd s.loc t s.ptr, pc := upd s.pc t (if s.ptr.isSome then .read3 else .lock) }
    | .lock => if s.lock = none then { s with lock := some t, pc := upd s.pc t .read2 } else s
    | .read2 => { s with loc := upd s.loc t s.ptr, pc := upd s.pc t (if s.ptr.isSome then .unlock else .construct) }
    | .construct => { s with loc := upd s.loc t (some s.built), built := s.built + 1, pc := upd s.pc t .write }
    | .write => { s with ptr := s.loc t, pc := upd s.pc t .unlock }
    | .unlock => { s with lock := none, pc := upd s.pc t .read3 }
    | .read3 => { s with ret := upd s.ret t (if cfg.finalReadShared then s.ptr else s.loc t), pc := upd s.pc t .done }
    | .done => s
  else s

def srunFrom (cfg : Cfg) (n : Nat) (s : SState) (sched : List Nat) : SState :=
  sched.foldl (sstep cfg n) s

def srun (cfg : Cfg) (n : Nat) (sched : List Nat) : SState := srunFrom cfg n SState.init sched

/-- a schedule is complete when every thread has returned from `instance()` -/
def SState.complete (n : Nat) (s : SState) : Prop := ∀ t, t < n → s.pc t = .done

/-- thread `t` cannot move: it wants the mutex and somebody holds it -/
def SState.blocked (s : SState) (t : Nat) : Bool := s.pc t == .lock && s.lock.isSome

/-- the shared cells of `instance()` -/
inductive Cell | fast | owner
  deriving DecidableEq, Repr

structure Access where
  cell : Cell
  write : Bool
  deriving DecidableEq, Repr

/-- shared accesses performed by the next step of a thread at this program counter -/
def sAccesses (cfg : Cfg) : SPc → List Access
  | .read1 => [⟨.fast, false⟩]
  | .read2 => [⟨.fast, false⟩]
  | .construct => if cfg.separateOwner then [⟨.owner, true⟩] else []
  | .write => [⟨.fast, true⟩]
  | .read3 => if cfg.finalReadShared then [⟨.fast, false⟩] else []
  | _ => []

def cellAtomic (cfg : Cfg) : Cell → Bool
  | .fast => cfg.ptrAtomic
  | .owner => false

/-- two accesses conflict in the sense of a data race: same non-atomic cell, one of them a write -/
def conflict (cfg : Cfg) (a b : Access) : Bool :=
  a.cell == b.cell && (a.write || b.write) && !cellAtomic cfg a.cell

/-- Race in the model's sense: two different threads whose *next* steps (both enabled — a thread
    waiting for a held mutex is not) access the same non-atomic cell, one of them writing.
    Accesses protected by a common lock can never be enabled together, which is what the
    theorems prove from mutual exclusion; an unprotected one can. -/
def SRacy (cfg : Cfg) (n : Nat) (s : SState) : Prop :=
  ∃ t, t < n ∧ ∃ u, u < n ∧ t ≠ u ∧ s.blocked t = false ∧ s.blocked u = false ∧
    ∃ a ∈ sAccesses cfg (s.pc t), ∃ b ∈ sAccesses cfg (s.pc u), conflict cfg a b = true

instance (cfg : Cfg) (n : Nat) (s : SState) : Decidable (SRacy cfg n s) := by
  unfold SRacy; infer_instance

/-- the same pair regardless of how the cell is declared (what the hooks can see) -/
def sConflictPair (n : Nat) (s : SState) : Bool :=
  (List.range n).any fun t => (List.range n).any fun u =>
    t != u && s.pc t == .write && s.pc u == .read1

/-- some state along the run is racy -/
def SRacyAlong (cfg : Cfg) (n : Nat) : SState → List Nat → Prop
  | s, [] => SRacy cfg n s
  | s, t :: rest => SRacy cfg n s ∨ SRacyAlong cfg n (sstep cfg n s t) rest

/-! ## ManagedThread -/

/-- parent (thread 0): constructor of `ManagedThread`, later `join()` -/
inductive PPc | begin | atInit | atStart | live | joined
  deriving DecidableEq, Repr

/-- child (thread 1): the lambda run by the `std::thread` -/
inductive CPc | idle | storeT | fBegin | inF | fEnd | storeF | done
  deriving DecidableEq, Repr

/-- what an observer knows about the user function through its own channel -/
inductive Win | before | during | after
  deriving DecidableEq, Repr

def Win.name : Win → String
  | .before => "before" | .during => "during" | .after => "after"

/-- one `isActive()` call of an observer thread -/
structure Sample where
  obs : Nat
  win : Win
  joined : Bool
  val : Option Bool
  deriving DecidableEq, Repr

/-- `flag = none`: the `std::atomic<bool>` has not been constructed yet.  `early` records that the
    child stored into it before its lifetime began. -/
structure MState where
  flag : Option Bool := none
  ppc : PPc := .begin
  cpc : CPc := .idle
  early : Bool := false
  samples : List Sample := []
  deriving DecidableEq, Repr

def MState.init : MState := {}

def MState.win (s : MState) : Win :=
  match s.cpc with
  | .inF => .during
  | .fEnd | .storeF | .done => .after
  | _ => .before

def MState.isLive (s : MState) : Bool := s.ppc == .live || s.ppc == .joined

/-- thread 0 = parent, 1 = child, 2 .. 2+nobs-1 = observers -/
def mstep (cfg : Cfg) (nobs : Nat) (s : MState) (t : Nat) : MState :=
  match t with
  | 0 =>
    match s.ppc with
    | .begin => if cfg.flagFirst then { s with ppc := .atInit } else { s with ppc := .atInit, cpc := .storeT }
    | .atInit => { s with flag := some false, ppc := if cfg.flagFirst then .atStart else .live }
    | .atStart => { s with cpc := .storeT, ppc := .live }
    | .live => if s.cpc = .done then { s with ppc := .joined } else s
    | .joined => s
  | 1 =>
    match s.cpc with
    | .idle => s
    | .storeT => { s with flag := some true, early := s.early || s.flag.isNone, cpc := .fBegin }
    | .fBegin => { s with cpc := .inF }
    | .inF => { s with cpc := .fEnd }
    | .fEnd => { s with cpc := .storeF }
    | .storeF => { s with flag := some false, early := s.early || s.flag.isNone, cpc := .done }
    | .done => s
  | t + 2 =>
    if t < nobs ∧ s.isLive = true then
      { s with samples := s.samples ++ [⟨t + 2, s.win, s.ppc == .joined, s.flag⟩] }
    else s

def mrunFrom (cfg : Cfg) (nobs : Nat) (s : MState) (sched : List Nat) : MState :=
  sched.foldl (mstep cfg nobs) s

def mrun (cfg : Cfg) (nobs : Nat) (sched : List Nat) : MState := mrunFrom cfg nobs MState.init sched

/-- Race on the flag in the model's sense: the (non-atomic) construction of the flag is the
    parent's next step while the child's next step is a store to it; or the flag is not an
    atomic, the object is visible to observers and the child's next step stores to it. -/
def MRacy (cfg : Cfg) (nobs : Nat) (s : MState) : Prop :=
  (s.ppc = .atInit ∧ (s.cpc = .storeT ∨ s.cpc = .storeF)) ∨
  (cfg.flagAtomic = false ∧ 0 < nobs ∧ s.ppc = .live ∧ (s.cpc = .storeT ∨ s.cpc = .storeF))

instance (cfg : Cfg) (nobs : Nat) (s : MState) : Decidable (MRacy cfg nobs s) := by
  unfold MRacy; infer_instance

/-! ## happens-before layer (release / acquire and mutex edges)

The steps above are sequentially consistent and say nothing about the *object* the pointer
designates: its constructor writes it with plain stores, every caller of `instance()` reads it
with plain loads.  Whether those accesses race is decided by happens-before, and happens-before
between different threads only comes from (1) an unlock of the mutex and a later lock of it,
(2) a **release** store into an atomic cell and an **acquire** load that reads the stored value.
This layer tracks, along every interleaving, exactly the edges the configuration justifies — the
standard vector-clock construction of a race detector, restricted to the one event that matters
(`SInv`: there is at most one construction). -/

/-- ghost state: `knows t` = the construction of the object happens-before the next event of
thread `t`; `mutexKnows` / `cellKnows` = what the last unlock / the store into the fast-path cell
published; `racyUse` = the threads that were handed the object without the construction
happening-before (their first use of it is a data race with the constructor) -/
structure HB where
  knows : Nat → Bool := fun _ => false
  mutexKnows : Bool := false
  cellKnows : Bool := false
  racyUse : List Nat := []

def HB.init : HB := {}

/-- the ghost update that goes with `sstep cfg n s t` (computed from the state *before* the step) -/
def hbStep (cfg : Cfg) (n : Nat) (s : SState) (h : HB) (t : Nat) : HB :=
  if t < n then
    match s.pc t with
    | .read1 =>
      -- an acquire load of an atomic that reads the stored pointer synchronises with a release store
      if s.ptr.isSome && cfg.ptrAtomic && cfg.loadAcq then { h with knows := upd h.knows t (h.knows t || h.cellKnows) } else h
    | .lock => if s.lock = none then { h with knows := upd h.knows t (h.knows t || h.mutexKnows) } else h
    | .read2 => h   -- under the mutex; the load itself is relaxed: no edge from the cell
    | .construct => { h with knows := upd h.knows t true }
    | .write => { h with cellKnows := cfg.ptrAtomic && cfg.storeRel && h.knows t }
    | .unlock => { h with mutexKnows := h.knows t }
    | .read3 => if h.knows t then h else { h with racyUse := t :: h.racyUse }
    | .done => h
  else h

def hrunFrom (cfg : Cfg) (n : Nat) : SState → HB → List Nat → SState × HB
  | s, h, [] => (s, h)
  | s, h, t :: rest => hrunFrom cfg n (sstep cfg n s t) (hbStep cfg n s h t) rest

def hrun (cfg : Cfg) (n : Nat) (sched : List Nat) : SState × HB := hrunFrom cfg n SState.init HB.init sched

/-! ### the event trace of a run

What the run *did*, independent of the ghost above: one event per effective step (thread, the
access it performed = its program counter before the step).  A stutter step — thread finished,
not existing, or waiting for a held mutex — produces no event; a `lock` event is therefore always
a successful acquisition.  The driver prints exactly this trace (`Drivers/Concurrency.lean`,
`sEvent`), which is what the forced-schedule correspondence compares with the real code.  The
event-level happens-before relation `HBefore` is defined over this trace in
Lemmas/ConcurrencyEvents.lean, and the ghost `HB` is proved sound and complete against it. -/

structure Ev where
  thread : Nat
  kind : SPc
  deriving DecidableEq, Repr

/-- the event of letting thread `t` step in state `s`; `none` = stutter -/
def sevent (n : Nat) (s : SState) (t : Nat) : Option Ev :=
  if t < n then
    if s.pc t = .done then none
    else if s.blocked t = true then none
    else some ⟨t, s.pc t⟩
  else none

def stepTrace (n : Nat) (s : SState) (tr : List Ev) (t : Nat) : List Ev :=
  match sevent n s t with
  | some e => tr ++ [e]
  | none => tr

/-- state, ghost and event trace along a schedule -/
def trunFrom (cfg : Cfg) (n : Nat) : SState → HB → List Ev → List Nat → SState × HB × List Ev
  | s, h, tr, [] => (s, h, tr)
  | s, h, tr, t :: rest => trunFrom cfg n (sstep cfg n s t) (hbStep cfg n s h t) (stepTrace n s tr t) rest

/-- the event trace of a schedule from the initial state -/
def strace (cfg : Cfg) (n : Nat) (sched : List Nat) : List Ev :=
  (trunFrom cfg n SState.init HB.init [] sched).2.2

/-- ManagedThread: for every sample (same order as `MState.samples`) whether the end of the user
function happens-before the observer's next event **through the flag**: the observer's acquire
load read the value the child's release store after the function wrote (`cpc = done`: that store
has been performed, and it is the last store into the flag).  `join()` is NOT an edge here
(audit 2, finding 6): the completion of the thread synchronises with the return of `join()` in
the *joining* thread only, and an observer of the model is an arbitrary thread — a sample taken
after the join by a thread that was not told about it is ordered by nothing but the flag.  (Until
2026-09-30 the mark was `joined || …`, which made every post-join sample published whatever the
orders: `C20_relaxed_flag_unpublished_after_join` is the witness that this was too generous.) -/
def mhbStep (cfg : Cfg) (nobs : Nat) (s : MState) (l : List (Sample × Bool)) (t : Nat) : List (Sample × Bool) :=
  match t with
  | 0 => l
  | 1 => l
  | t + 2 =>
    if t < nobs ∧ s.isLive = true then
      l ++ [(⟨t + 2, s.win, s.ppc == .joined, s.flag⟩,
             cfg.flagAtomic && cfg.flagOrders && s.cpc == .done && s.flag == some false)]
    else l

def mhrunFrom (cfg : Cfg) (nobs : Nat) : MState → List (Sample × Bool) → List Nat → MState × List (Sample × Bool)
  | s, l, [] => (s, l)
  | s, l, t :: rest => mhrunFrom cfg nobs (mstep cfg nobs s t) (mhbStep cfg nobs s l t) rest

def mhrun (cfg : Cfg) (nobs : Nat) (sched : List Nat) : MState × List (Sample × Bool) :=
  mhrunFrom cfg nobs MState.init [] sched

/-! ## a shape the source does *not* have: `store(true)` by the creating thread

Recorded for the seeded change `seeded/C20-2`: the store of `true` is moved out of the thread's
lambda into the body of the `ManagedThread` constructor ("active as soon as created").  The
constructor body runs after the `std::thread` base class has started the thread, so `true` is
written by the creator and `false` by the managed thread, unordered.  State = the ordinary state
plus "the creator's store is still pending". -/

def mstepCreator (nobs : Nat) (s : MState × Bool) (t : Nat) : MState × Bool :=
  match t with
  | 0 =>
    match s.1.ppc with
    | .begin => ({ s.1 with ppc := .atInit }, s.2)
    | .atInit => ({ s.1 with flag := some false, ppc := .atStart }, s.2)
    | .atStart =>
      if s.2 then ({ s.1 with flag := some true, ppc := .live }, false)      -- constructor body: store(true)
      else ({ s.1 with cpc := .fBegin }, true)                                -- base class starts the thread
    | .live => if s.1.cpc = .done then ({ s.1 with ppc := .joined }, s.2) else s
    | .joined => s
  | 1 =>
    match s.1.cpc with
    | .fBegin => ({ s.1 with cpc := .inF }, s.2)
    | .inF => ({ s.1 with cpc := .fEnd }, s.2)
    | .fEnd => ({ s.1 with cpc := .storeF }, s.2)
    | .storeF => ({ s.1 with flag := some false, cpc := .done }, s.2)
    | _ => s
  | t + 2 =>
    if t < nobs ∧ s.1.isLive = true then
      ({ s.1 with samples := s.1.samples ++ [⟨t + 2, s.1.win, s.1.ppc == .joined, s.1.flag⟩] }, s.2)
    else s

def mrunCreator (nobs : Nat) (sched : List Nat) : MState × Bool :=
  sched.foldl (mstepCreator nobs) (MState.init, false)

end CelmaVerif.Concurrency
