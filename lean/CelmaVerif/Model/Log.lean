import CelmaVerif.Base.Res
import CelmaVerif.Generated.LogDefs
/-
  Executable model of the log routing and filter code (property C14), core Lean only.

  Follows, branch by branch:
    celma/log/detail/log_defs.hpp                 logClass2text, text2logClass
    library/log/filter/detail/log_filter_classes.cpp   LogFilterClasses constructor
    celma/log/filter/detail/log_filter_*.hpp      pass() / processLevel() of the four filters
    library/log/filter/filters.cpp                Filters(), checkSetFilter, pass, processLevel,
                                                  setDuplicatePolicy
    library/log/detail/log.cpp, i_log_dest.cpp    Log::message, add/get/removeDestination,
                                                  ILogDest::handleMessage
    library/log/logging.cpp                       findCreateLog, getLog, log( ids), log( name)
    celma/log/detail/helper_function.hpp          discard_by_level
    celma/log/log_macros.hpp                      LOG_LEVEL
  Everything that the code takes from a table, an enumeration or a relational operator comes from
  `Generated/LogDefs.lean`, which the translator rewrites from the current source on every run.

  Levels and classes are the enumerator ordinals (`static_cast< size_t>`), texts are `List Char`.
  A C++ call that throws *after* changing state returns the changed state together with the
  exception; `Res.oob` is reserved for undefined behaviour (unchecked `bitset::operator[]` beyond
  the size, use of a deleted filter).
-/
namespace CelmaVerif.Log
open CelmaVerif CelmaVerif.Generated.LogDefs

/-! ### text tables (log_defs.hpp) -/

/-- a `switch` with unique `case` labels and a `default` -/
def lookupText (cases : List (Nat × List Char)) (dflt : List Char) (i : Nat) : List Char :=
  match cases.find? (fun p => p.1 == i) with
  | some p => p.2
  | none => dflt

def logClass2text (i : Nat) : List Char := lookupText classTextCases classTextDefault i
def logLevel2text (i : Nat) : List Char := lookupText levelTextCases levelTextDefault i

/-- ASCII lower-casing, what `strcasecmp` compares in the "C" locale -/
def lowerAscii (s : List Char) : List Char := s.map Char.toLower

/-- `strcasecmp( a, b) == 0` resp. `strcmp( a, b) == 0` -/
def sameText (nocase : Bool) (a b : List Char) : Bool :=
  if nocase then lowerAscii a == lowerAscii b else a == b

/-- the values `i` takes in `for (int i = from; i op bound; i++)` (op is `<` or `<=`) -/
def loopIndices (frm : Nat) (op : CmpOp) (bound : Nat) : List Nat :=
  (List.range (bound + 1)).filter (fun i => decide (frm ≤ i) && op.eval i bound)

/-- `text2logClass( text)` -/
def text2logClass (s : List Char) : Nat :=
  match (loopIndices text2ClassFrom text2ClassOp text2ClassBound).find?
      (fun i => sameText text2ClassNoCase (logClass2text i) s) with
  | some i => i
  | none => text2ClassFallback

/-- `text2logLevel( text)` (not used by the filters; kept for the driver's `parse` operation) -/
def text2logLevel (s : List Char) : Nat :=
  match (loopIndices text2LevelFrom text2LevelOp text2LevelBound).find?
      (fun i => sameText text2LevelNoCase (logLevel2text i) s) with
  | some i => i
  | none => text2LevelFallback

/-- `std::string::c_str()` seen as a C string: ends at the first NUL -/
def cstr (s : List Char) : List Char := s.takeWhile (fun c => c != Char.ofNat 0)

/-! ### the class list (log_filter_classes.cpp) -/

/-- `boost::char_separator< char>( sep)`: separators dropped, empty tokens dropped.
    `cur` is the token being collected, reversed. -/
def splitAux (sep : Char) : List Char → List Char → List (List Char)
  | [], cur => if cur.isEmpty then [] else [cur.reverse]
  | c :: cs, cur =>
    if c == sep then
      (if cur.isEmpty then splitAux sep cs [] else cur.reverse :: splitAux sep cs [])
    else splitAux sep cs (c :: cur)

def tokenize (sep : Char) (s : List Char) : List (List Char) := splitAux sep s []

/-- `std::bitset::set( pos)`: range-checked, throws `std::out_of_range` -/
def bitsetSet (bits : List Bool) (pos : Nat) : Res (List Bool) :=
  if pos < bits.length then .ok (bits.set pos true) else .throw .out_of_range

/-- the loop and the final check of the `LogFilterClasses` constructor -/
def classesFromTokens : List (List Char) → List Bool → Res (List Bool)
  | [], bits =>
    if classEmptyRejected && bits.all (fun b => !b) then .throw .runtime_error else .ok bits
  | t :: ts, bits =>
    let c := text2logClass (cstr t)
    if classRejected == some c then .throw .runtime_error
    else
      match bitsetSet bits c with
      | .ok bits' => classesFromTokens ts bits'
      | .throw e => .throw e
      | .oob w => .oob w

/-- `LogFilterClasses::LogFilterClasses( class_list)`: the selection set or the exception -/
def newClassSelection (classList : List Char) : Res (List Bool) :=
  classesFromTokens (tokenize classListSeparator classList) (List.replicate classBitsetSize false)

/-! ### single filters -/

structure Msg where
  level : Nat
  cls : Nat
  deriving DecidableEq, Repr, Inhabited

/-- the message is one the API can produce: both ordinals name an enumerator -/
def Msg.Valid (m : Msg) : Prop := m.level < numLevels ∧ m.cls < numClasses

inductive FType where
  | maxLevel | minLevel | level | classes
  deriving DecidableEq, Repr

/-- `IFilter::isLevelFilter` -/
def FType.isLevel : FType → Bool
  | .classes => false
  | _ => true

/-- a filter object; `dangling` is the slot of a filter that was deleted and not replaced
    (only reachable when `replaceDeletesFirst`) -/
inductive Filter where
  | maxLevel (x : Nat)
  | minLevel (x : Nat)
  | level (x : Nat)
  | classes (bits : List Bool)
  | dangling
  deriving DecidableEq, Repr

/-- `it->filterType()` -/
def Filter.ftype : Filter → Res FType
  | .maxLevel _ => .ok .maxLevel
  | .minLevel _ => .ok .minLevel
  | .level _ => .ok .level
  | .classes _ => .ok .classes
  | .dangling => .oob "use of a deleted filter"

/-- the dispatch of `Filters::processLevel` on the cached level filter -/
def Filter.processLevel : Filter → Nat → Res Bool
  | .maxLevel x, l => .ok (maxLevelProcessOp.eval l x)
  | .minLevel x, l => .ok (minLevelProcessOp.eval l x)
  | .level x, l => .ok (levelProcessOp.eval l x)
  | .classes _, _ => .throw .invalid_argument          -- `default:` of the switch
  | .dangling, _ => .oob "use of a deleted filter"

/-- `IFilter::passFilter( msg)` -/
def Filter.pass : Filter → Msg → Res Bool
  | .maxLevel x, m => .ok (maxLevelPassOp.eval m.level x)
  | .minLevel x, m => .ok (minLevelPassOp.eval m.level x)
  | .level x, m => .ok (levelPassOp.eval m.level x)
  | .classes bits, m =>
    if m.cls < bits.length then .ok (bits.getD m.cls false)
    else if classPassChecked then .throw .out_of_range      -- bitset::test
    else .oob "bitset::operator[] beyond the size"
  | .dangling, _ => .oob "use of a deleted filter"

/-! ### `Filters` -/

/-- `mFilters` and `mpLevelFilter` (as the index of the object it points to) -/
structure Filters where
  filters : List Filter := []
  levelIdx : Option Nat := none
  deriving DecidableEq, Repr

/-- `Filters::pass`: first rejecting filter ends the loop -/
def passList : List Filter → Msg → Res Bool
  | [], _ => .ok true
  | f :: fs, m =>
    match f.pass m with
    | .ok true => passList fs m
    | .ok false => .ok false
    | .throw e => .throw e
    | .oob w => .oob w

def Filters.pass (F : Filters) (m : Msg) : Res Bool := passList F.filters m

/-- `Filters::processLevel` -/
def Filters.processLevel (F : Filters) (l : Nat) : Res Bool :=
  match F.levelIdx with
  | none => .ok true
  | some i =>
    match F.filters[i]? with
    | some f => f.processLevel l
    | none => .oob "mpLevelFilter"

/-- index of the first filter of type `t` (`for (auto & it : mFilters) if (it->filterType() == …)`) -/
def findType (t : FType) : List Filter → Nat → Res (Option Nat)
  | [], _ => .ok none
  | f :: fs, i =>
    match f.ftype with
    | .ok tf => if tf = t then .ok (some i) else findType t fs (i + 1)
    | .throw e => .throw e
    | .oob w => .oob w

/-- `Filters::checkSetFilter< F, FP>( filter_type, filter_param)`.  `mk` is `new F( filter_param)`,
    evaluated only on the branches that evaluate it.  Result: the object afterwards and the
    exception the call left with, if any. -/
def Filters.checkSet (F : Filters) (policy : DuplicatePolicy) (t : FType) (mk : Res Filter) :
    Res (Filters × Option Exc) :=
  match findType t F.filters 0 with
  | .throw e => .throw e
  | .oob w => .oob w
  | .ok (some i) =>
    let relevel (G : Filters) : Filters := if t.isLevel then { G with levelIdx := some i } else G
    match acceptNew policy with
    | .throws => .ok (F, some .runtime_error)
    | .keep => .ok (relevel F, none)
    | .replace =>
      match mk with
      | .ok nf => .ok (relevel { F with filters := F.filters.set i nf }, none)
      | .throw e =>
        if replaceDeletesFirst then .ok ({ F with filters := F.filters.set i .dangling }, some e)
        else .ok (F, some e)
      | .oob w => .oob w
  | .ok none =>
    match mk with
    | .ok nf =>
      .ok ({ filters := F.filters ++ [nf],
             levelIdx := if t.isLevel then some F.filters.length else F.levelIdx }, none)
    | .throw e => .ok (F, some e)
    | .oob w => .oob w

/-- what the four setters pass to `checkSetFilter` -/
inductive FilterSpec where
  | max (x : Nat)
  | min (x : Nat)
  | level (x : Nat)
  | classes (list : List Char)
  deriving Repr

def FilterSpec.ftype : FilterSpec → FType
  | .max _ => .maxLevel
  | .min _ => .minLevel
  | .level _ => .level
  | .classes _ => .classes

/-- `new F( filter_param)` -/
def FilterSpec.mk : FilterSpec → Res Filter
  | .max x => .ok (.maxLevel x)
  | .min x => .ok (.minLevel x)
  | .level x => .ok (.level x)
  | .classes s =>
    match newClassSelection s with
    | .ok bits => .ok (.classes bits)
    | .throw e => .throw e
    | .oob w => .oob w

def Filters.set (F : Filters) (policy : DuplicatePolicy) (s : FilterSpec) : Res (Filters × Option Exc) :=
  F.checkSet policy s.ftype s.mk

/-! ### destinations, logs, the log table -/

structure Dest where
  name : String
  filters : Filters := {}
  received : List Msg := []
  deriving Repr

structure Log where
  filters : Filters := {}
  dests : List Dest := []
  deriving Repr

structure LogEntry where
  id : Nat
  name : String
  log : Log := {}
  deriving Repr

/-- `Logging` plus the process-wide duplicate policy (`Filters::mpDuplicatePolicy`, never null
    once any `Filters` object or a `setDuplicatePolicy` call existed) -/
structure World where
  policy : DuplicatePolicy := .ignore
  nextId : Nat := firstLogId
  logs : List LogEntry := []
  deriving Repr

/-- state at the start of a case: `Logging::reset()`, `setDuplicatePolicy( ignore)` -/
def World.init : World := {}

/-- `Filters::Filters()` -/
def World.newFilters (w : World) : World :=
  if ctorResetsPolicy then { w with policy := ctorDefaultPolicy } else w

/-- `ILogDest::handleMessage` -/
def Dest.handleMessage (d : Dest) (m : Msg) : Res Dest :=
  match d.filters.pass m with
  | .ok true => .ok { d with received := d.received ++ [m] }
  | .ok false => .ok d
  | .throw e => .throw e
  | .oob w => .oob w

def handleAll : List Dest → Msg → Res (List Dest)
  | [], _ => .ok []
  | d :: ds, m =>
    match d.handleMessage m with
    | .ok d' =>
      match handleAll ds m with
      | .ok ds' => .ok (d' :: ds')
      | .throw e => .throw e
      | .oob w => .oob w
    | .throw e => .throw e
    | .oob w => .oob w

/-- `Log::message` -/
def Log.message (l : Log) (m : Msg) : Res Log :=
  match l.filters.pass m with
  | .ok true =>
    match handleAll l.dests m with
    | .ok ds => .ok { l with dests := ds }
    | .throw e => .throw e
    | .oob w => .oob w
  | .ok false => .ok l
  | .throw e => .throw e
  | .oob w => .oob w

def LogEntry.message (e : LogEntry) (m : Msg) : Res LogEntry :=
  match e.log.message m with
  | .ok l => .ok { e with log := l }
  | .throw x => .throw x
  | .oob w => .oob w

/-- the loop of `Logging::log( id_t logs, msg)` including its `break` -/
def logIdsGo (ids : Nat) (m : Msg) : List LogEntry → Res (List LogEntry)
  | [] => .ok []
  | e :: es =>
    if ids &&& e.id ≠ 0 then
      match e.message m with
      | .ok e' =>
        if ids = e.id then .ok (e' :: es)
        else
          match logIdsGo ids m es with
          | .ok es' => .ok (e' :: es')
          | .throw x => .throw x
          | .oob w => .oob w
      | .throw x => .throw x
      | .oob w => .oob w
    else
      match logIdsGo ids m es with
      | .ok es' => .ok (e :: es')
      | .throw x => .throw x
      | .oob w => .oob w

def World.logIds (w : World) (ids : Nat) (m : Msg) : Res World :=
  match logIdsGo ids m w.logs with
  | .ok ls => .ok { w with logs := ls }
  | .throw x => .throw x
  | .oob s => .oob s

/-- the loop of `Logging::log( name, msg)` -/
def logNameGo (name : String) (m : Msg) : List LogEntry → Res (List LogEntry)
  | [] => .ok []
  | e :: es =>
    if name == e.name then
      match e.message m with
      | .ok e' => .ok (e' :: es)
      | .throw x => .throw x
      | .oob w => .oob w
    else
      match logNameGo name m es with
      | .ok es' => .ok (e :: es')
      | .throw x => .throw x
      | .oob w => .oob w

def World.logName (w : World) (name : String) (m : Msg) : Res World :=
  match logNameGo name m w.logs with
  | .ok ls => .ok { w with logs := ls }
  | .throw x => .throw x
  | .oob s => .oob s

/-- `Logging::getLog( id_t)`: the log, nullptr, or the exception -/
def getLogByIdGo (ids : Nat) : List LogEntry → Except Exc (Option LogEntry)
  | [] => .ok none
  | e :: es =>
    if ids &&& e.id ≠ 0 then
      (if ids ≠ e.id then .error .runtime_error else .ok (some e))
    else getLogByIdGo ids es

def World.getLogById (w : World) (ids : Nat) : Except Exc (Option LogEntry) := getLogByIdGo ids w.logs

/-- `Logging::getLog( name)` -/
def World.getLogByName (w : World) (name : String) : Option LogEntry :=
  w.logs.find? (fun e => name == e.name)

/-- result of a call that returns a value or leaves by an exception -/
inductive Ret (α : Type) where
  | val (a : α)
  | threw (e : Exc)
  deriving Repr

/-- `detail::discard_by_level( ids, level)` -/
def World.discardById (w : World) (ids : Nat) (lvl : Nat) : Res (Ret Bool) :=
  match w.getLogById ids with
  | .error e => .ok (.threw e)
  | .ok none => .ok (.val true)
  | .ok (some e) =>
    match e.log.filters.processLevel lvl with
    | .ok b => .ok (.val (!b))
    | .throw x => .ok (.threw x)
    | .oob s => .oob s

/-- `detail::discard_by_level( name, level)` -/
def World.discardByName (w : World) (name : String) (lvl : Nat) : Res (Ret Bool) :=
  match w.getLogByName name with
  | none => .ok (.val true)
  | some e =>
    match e.log.filters.processLevel lvl with
    | .ok b => .ok (.val (!b))
    | .throw x => .ok (.threw x)
    | .oob s => .oob s

/-- `LOG_LEVEL( ids, level) << class << "x"`: the pre-check, then (StreamLog's destructor)
    `Logging::log( ids, msg)`.  `StreamLog`'s range checks map every enumerator to itself. -/
def World.macroSend (w : World) (ids : Nat) (m : Msg) : Res (World × Option Exc) :=
  match w.discardById ids m.level with
  | .oob s => .oob s
  | .throw x => .throw x
  | .ok (.threw e) => .ok (w, some e)
  | .ok (.val true) => .ok (w, none)
  | .ok (.val false) =>
    if ids = 0 then .ok (w, some .runtime_error)      -- StreamLog: "no destination log id specified"
    else
      match w.logIds ids m with
      | .ok w' => .ok (w', none)
      | .throw x => .throw x
      | .oob s => .oob s

/-- `LOG_LEVEL( "name", level) << class << "x"` with a log NAME: the pre-check `discard_by_level( name, level)`
    (`getLog( name)`: the first log of that name or nullptr, never throws), then `StreamLog( name, …)` - its
    constructor refuses the empty name ("no destination log name specified") - and, in its destructor,
    `Logging::log( name, msg)`. -/
def World.macroSendName (w : World) (name : String) (m : Msg) : Res (World × Option Exc) :=
  match w.discardByName name m.level with
  | .oob s => .oob s
  | .throw x => .throw x
  | .ok (.threw e) => .ok (w, some e)
  | .ok (.val true) => .ok (w, none)
  | .ok (.val false) =>
    if name = "" then .ok (w, some .runtime_error)
    else
      match w.logName name m with
      | .ok w' => .ok (w', none)
      | .throw x => .throw x
      | .oob s => .oob s

/-! ### configuration operations -/

/-- apply `g` to the first element satisfying `p` -/
def updFirst {α : Type} (p : α → Bool) (g : α → α) : List α → List α
  | [] => []
  | a :: as => if p a then g a :: as else a :: updFirst p g as

/-- apply `g` to the first log with that name -/
def World.updLog (w : World) (name : String) (g : LogEntry → LogEntry) : World :=
  { w with logs := updFirst (fun e => name == e.name) g w.logs }

def LogEntry.setDests (e : LogEntry) (ds : List Dest) : LogEntry := { e with log := { e.log with dests := ds } }
def LogEntry.setFilters (e : LogEntry) (F : Filters) : LogEntry := { e with log := { e.log with filters := F } }
def Dest.setFilters (d : Dest) (F : Filters) : Dest := { d with filters := F }

/-- `Logging::findCreateLog( name)` -/
def World.findCreateLog (w : World) (name : String) : World × Ret Nat :=
  match w.logs.find? (fun e => name == e.name) with
  | some e => (w, .val e.id)
  | none =>
    if w.nextId = 2 ^ logIdLimitShift then (w, .threw .runtime_error)
    else
      let w1 := w.newFilters                         -- `new detail::Log`
      ({ w1 with logs := w1.logs ++ [{ id := w.nextId, name := name }], nextId := w.nextId * 2 },
       .val w.nextId)

/-- `getLog( logName)->addDestination( destName, new Recorder)`; `none` when the log does not exist -/
def World.addDest (w : World) (logName destName : String) : Option World :=
  match w.getLogByName logName with
  | none => none
  | some _ =>
    let w1 := w.newFilters                           -- the destination object is a `Filters`
    some (w1.updLog logName (fun e => e.setDests (e.log.dests ++ [{ name := destName }])))

/-- `std::vector::erase` of the first destination with that name -/
def eraseFirst (name : String) : List Dest → List Dest
  | [] => []
  | d :: ds => if d.name == name then ds else d :: eraseFirst name ds

def World.removeDest (w : World) (logName destName : String) : Option World :=
  match w.getLogByName logName with
  | none => none
  | some _ =>
    some (w.updLog logName (fun e => e.setDests (eraseFirst destName e.log.dests)))

inductive Target where
  | log (name : String)
  | dest (logName destName : String)
  deriving Repr

inductive SetResult where
  | done
  | nolog
  | threw (e : Exc)
  deriving Repr, DecidableEq

def SetResult.ofExc : Option Exc → SetResult
  | none => .done
  | some x => .threw x

/-- `getLog( name)->maxLevel( …)` / `getLog( name)->getDestination( dest)->classes( …)` … -/
def World.setFilter (w : World) (tgt : Target) (s : FilterSpec) : Res (World × SetResult) :=
  match tgt with
  | .log name =>
    match w.getLogByName name with
    | none => .ok (w, .nolog)
    | some e =>
      match e.log.filters.set w.policy s with
      | .ok (F, exc) =>
        .ok (w.updLog name (fun e => e.setFilters F), SetResult.ofExc exc)
      | .throw x => .throw x
      | .oob t => .oob t
  | .dest name dname =>
    match w.getLogByName name with
    | none => .ok (w, .nolog)
    | some e =>
      match e.log.dests.find? (fun d => d.name == dname) with
      | none => .ok (w, .threw .runtime_error)         -- Log::getDestination
      | some d =>
        match d.filters.set w.policy s with
        | .ok (F, exc) =>
          .ok (w.updLog name (fun e => e.setDests
                (updFirst (fun d => d.name == dname) (fun d => d.setFilters F) e.log.dests)),
               SetResult.ofExc exc)
        | .throw x => .throw x
        | .oob t => .oob t

/-- `Filters::setDuplicatePolicy` -/
def World.setPolicy (w : World) (p : DuplicatePolicy) : World := { w with policy := p }

/-! ### histories -/

inductive Op where
  | newLog (name : String)
  | addDest (logName destName : String)
  | removeDest (logName destName : String)
  | filter (tgt : Target) (spec : FilterSpec)
  | policy (p : DuplicatePolicy)
  | send (ids : Nat) (m : Msg)
  | sendName (name : String) (m : Msg)
  | macroSend (ids : Nat) (m : Msg)
  deriving Repr

/-- every message in the history is one the API can produce -/
def Op.Valid : Op → Prop
  | .send _ m => m.Valid
  | .sendName _ m => m.Valid
  | .macroSend _ m => m.Valid
  | _ => True

/-- one operation; an exception leaves the state the call left behind -/
def World.step (w : World) : Op → Res World
  | .newLog n => .ok (w.findCreateLog n).1
  | .addDest l d => .ok ((w.addDest l d).getD w)
  | .removeDest l d => .ok ((w.removeDest l d).getD w)
  | .filter t s =>
    match w.setFilter t s with
    | .ok (w', _) => .ok w'
    | .throw x => .throw x
    | .oob s => .oob s
  | .policy p => .ok (w.setPolicy p)
  | .send ids m => w.logIds ids m
  | .sendName n m => w.logName n m
  | .macroSend ids m =>
    match w.macroSend ids m with
    | .ok (w', _) => .ok w'
    | .throw x => .throw x
    | .oob s => .oob s

def World.run (w : World) : List Op → Res World
  | [] => .ok w
  | op :: ops =>
    match w.step op with
    | .ok w' => w'.run ops
    | .throw x => .throw x
    | .oob s => .oob s

/-! ### specification side: what the filters are *meant* to accept -/

/-- the levels / classes a filter names -/
def Filter.accepts : Filter → Msg → Bool
  | .maxLevel x, m => decide (m.level ≤ x)
  | .minLevel x, m => decide (m.level ≥ x)
  | .level x, m => decide (m.level = x)
  | .classes bits, m => bits.getD m.cls false
  | .dangling, _ => false

def Filters.accepts (F : Filters) (m : Msg) : Bool := F.filters.all (fun f => f.accepts m)

def Dest.deliver (d : Dest) (m : Msg) : Dest :=
  if d.filters.accepts m then { d with received := d.received ++ [m] } else d

/-- a selected log hands the message to each of its destinations once, if the log's and the
    destination's filters accept it -/
def LogEntry.deliver (e : LogEntry) (selected : Bool) (m : Msg) : LogEntry :=
  if selected && e.log.filters.accepts m then
    { e with log := { e.log with dests := e.log.dests.map (fun d => d.deliver m) } }
  else e

/-- routing by id: log `e` is selected iff its bit is in `ids` -/
def World.deliver (w : World) (ids : Nat) (m : Msg) : World :=
  { w with logs := w.logs.map (fun e => e.deliver (decide (ids &&& e.id ≠ 0)) m) }

/-- routing by name: the first log with that name -/
def World.deliverName (w : World) (name : String) (m : Msg) : World :=
  w.updLog name (fun e => e.deliver true m)

/-- the filter of type `t` in effect -/
def Filter.hasType (f : Filter) (t : FType) : Bool :=
  match f.ftype with
  | .ok tf => decide (tf = t)
  | _ => false

def Filters.setting (F : Filters) (t : FType) : Option Filter :=
  F.filters.find? (fun f => f.hasType t)

/-- the policy configured last in a history (the default before any configuration) -/
def lastPolicy : List Op → DuplicatePolicy → DuplicatePolicy
  | [], p => p
  | .policy q :: ops, _ => lastPolicy ops q
  | _ :: ops, p => lastPolicy ops p

end CelmaVerif.Log
