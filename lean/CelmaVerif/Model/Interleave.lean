/-
  Interleaving model for property C09 (independent argument handlers used concurrently).
  Core Lean only.

  * `Prog κ V` — a deterministic thread program over cells `κ` holding values `V`: a tree of
    steps; every step names the cells it reads and the cells it writes, computes the written
    values from the values read, and chooses its continuation from the values read (data
    dependent control flow, data dependent length; every run of a program is finite).
  * `Cfg` / `fire` / `run` — n threads, one store, a schedule `List (Fin n)`: the scheduled
    thread executes its next step atomically (sequentially consistent interleaving).  The
    configuration records what every thread has read so far (`obs`) and the trace of all accesses.
  * `Owner` — every cell belongs to one thread, or is shared and immutable, or is shared and
    mutable (process-wide state); `Prog.Local` says that a program reads only its own and the
    immutable cells and writes only its own cells.
  * the handler instance: `HCell`, `handlerOwner`, the thread programs of the line protocol
    (`Job`, `jobProg`), with the list tokenisation of `TypedArg<ContainerAdapter<T>>::assign`
    in its two forms: separator passed by value (the code after the `fix:` commit) and through
    the function-local static buffer of `Tokenizer::convChar2String` (the code before it).
-/
namespace CelmaVerif.Interleave

/-- who may touch a cell -/
inductive Owner (n : Nat) where
  /-- owned by one thread: read and written by that thread only -/
  | thread (i : Fin n)
  /-- shared and immutable: read by everybody, written by nobody -/
  | sharedConst
  /-- shared and mutable (process-wide state): a local program touches none of these -/
  | sharedMutable
deriving DecidableEq, Repr

abbrev Store (κ V : Type) := κ → V

/-- a deterministic thread program: `step reads writes f k` reads the cells `reads`, writes
`f values` to the cells `writes` (position by position; a missing value leaves the cell as it is)
and continues with `k values` -/
inductive Prog (κ V : Type) where
  | done : Prog κ V
  | step (reads writes : List κ) (f : List V → List V) (k : List V → Prog κ V) : Prog κ V

variable {κ V : Type} [DecidableEq κ]

def upd (σ : Store κ V) (c : κ) (v : V) : Store κ V := fun d => if d = c then v else σ d

/-- write values to cells, position by position -/
def assign : List κ → List V → Store κ V → Store κ V
  | c :: cs, v :: vs, σ => assign cs vs (upd σ c v)
  | _, _, σ => σ

def Prog.isDone : Prog κ V → Bool
  | .done => true
  | .step .. => false

/-- a straight-line program from a list of (reads, writes, function) triples -/
def Prog.ofList : List (List κ × List κ × (List V → List V)) → Prog κ V
  | [] => .done
  | (rs, ws, f) :: rest => .step rs ws f (fun _ => Prog.ofList rest)

/-- running one program alone: final store and the list of observations (values read by each
step, newest first) -/
def Prog.alone : Prog κ V → Store κ V → List (List V) → Store κ V × List (List V)
  | .done, σ, o => (σ, o)
  | .step rs ws f k, σ, o => (k (rs.map σ)).alone (assign ws (f (rs.map σ)) σ) (rs.map σ :: o)

/-- one access of the trace -/
structure Event (n : Nat) (κ : Type) where
  thread : Fin n
  cell : κ
  write : Bool
deriving DecidableEq

/-- two accesses conflict: different threads, same cell, at least one of them writes.  The model
has no synchronisation operations, so two conflicting accesses are never ordered by
happens-before: a conflict anywhere in the trace is a data race. -/
def Event.Conflict {n : Nat} (a b : Event n κ) : Prop :=
  a.thread ≠ b.thread ∧ a.cell = b.cell ∧ (a.write = true ∨ b.write = true)

structure Cfg (n : Nat) (κ V : Type) where
  store : Store κ V
  rem : Fin n → Prog κ V
  obs : Fin n → List (List V)
  trace : List (Event n κ)

def setAt {n : Nat} {α : Type} (g : Fin n → α) (i : Fin n) (a : α) : Fin n → α :=
  fun j => if j = i then a else g j

/-- thread `i` executes its next step (nothing happens when it has finished) -/
def Cfg.fire {n : Nat} (c : Cfg n κ V) (i : Fin n) : Cfg n κ V :=
  match c.rem i with
  | .done => c
  | .step rs ws f k =>
    { store := assign ws (f (rs.map c.store)) c.store
      rem := setAt c.rem i (k (rs.map c.store))
      obs := setAt c.obs i (rs.map c.store :: c.obs i)
      trace := ws.map (fun x => ⟨i, x, true⟩) ++ (rs.map (fun x => ⟨i, x, false⟩) ++ c.trace) }

def Cfg.run {n : Nat} (c : Cfg n κ V) (sched : List (Fin n)) : Cfg n κ V := sched.foldl Cfg.fire c

def Cfg.init {n : Nat} (progs : Fin n → Prog κ V) (σ : Store κ V) : Cfg n κ V :=
  { store := σ, rem := progs, obs := fun _ => [], trace := [] }

/-- the schedule ran every thread to completion -/
def Cfg.Complete {n : Nat} (c : Cfg n κ V) : Prop := ∀ i, c.rem i = .done

/-- the cells thread `i` may read -/
def Vis {n : Nat} (owner : κ → Owner n) (i : Fin n) (c : κ) : Prop :=
  owner c = .thread i ∨ owner c = .sharedConst

/-- the footprint condition: every step reads only cells of the thread or immutable shared cells,
and writes only cells of the thread -/
def Prog.Local {n : Nat} (owner : κ → Owner n) (i : Fin n) : Prog κ V → Prop
  | .done => True
  | .step rs ws _ k =>
    (∀ c ∈ rs, Vis owner i c) ∧ (∀ c ∈ ws, owner c = .thread i) ∧ ∀ vs, (k vs).Local owner i

/-- the set form of the footprint: `(c, w)` is in the footprint when some step of some run of
the program reads (`w = false`) or writes (`w = true`) the cell -/
inductive Prog.Footprint : Prog κ V → κ → Bool → Prop where
  | read {rs ws f k c} : c ∈ rs → Prog.Footprint (.step rs ws f k) c false
  | write {rs ws f k c} : c ∈ ws → Prog.Footprint (.step rs ws f k) c true
  | later {rs ws f k c w} (vs : List V) : Prog.Footprint (k vs) c w → Prog.Footprint (.step rs ws f k) c w

/-! ### the handler instance -/

/-- cells of the handler workload.  `dest t k`, `sepv t k`, `tmp t` belong to thread `t` (the
destination variable of its k-th argument, the list separator stored in that argument's
`TypedArg` object, a temporary); `argv t j` is the j-th value word of the thread's own command
line (never written); `static e` is the e-th entry of the regenerated inventory of process-wide
mutable objects; `ext x` the x-th external one (std::cout ...). -/
inductive HCell where
  | dest (t k : Nat)
  | sepv (t k : Nat)
  | tmp (t : Nat)
  | argv (t j : Nat)
  | static (e : Nat)
  | ext (x : Nat)
deriving DecidableEq, Repr

def handlerOwner (n : Nat) : HCell → Owner n
  | .dest t _ => if h : t < n then .thread ⟨t, h⟩ else .sharedMutable
  | .sepv t _ => if h : t < n then .thread ⟨t, h⟩ else .sharedMutable
  | .tmp t => if h : t < n then .thread ⟨t, h⟩ else .sharedMutable
  | .argv t _ => if h : t < n then .thread ⟨t, h⟩ else .sharedMutable
  | .static _ => .sharedMutable
  | .ext _ => .sharedMutable

/-- `boost::char_separator<char>( sep)` with the default `drop_empty_tokens`: split at every
separator character, empty tokens dropped -/
def splitDrop (sep : Char) (s : List Char) : List (List Char) :=
  let rec go : List Char → List Char → List (List Char) → List (List Char)
    | [], cur, acc => (if cur.isEmpty then acc else cur.reverse :: acc).reverse
    | c :: cs, cur, acc =>
      if c = sep then go cs [] (if cur.isEmpty then acc else cur.reverse :: acc)
      else go cs (c :: cur) acc
  go s [] []

/-- values of the handler cells: a list of strings, each a `List Char` (a destination container, a
one-element list for a separator or a command line word) -/
abbrev HVal := List (List Char)

def sepOf (v : HVal) : Char := match v with
  | s :: _ => s.headD ','
  | [] => ','

def tokenize (sepv word : HVal) : HVal :=
  match word with
  | w :: _ => splitDrop (sepOf sepv) w
  | [] => []

/-- one use `-k value` of a list argument (argument index `k`, value word index `j`), as the code
is after the fix: `Tokenizer tok( value, mListSep)` builds its separator string by value, then
every token is appended to the destination.  One step; footprint: own cells only. -/
def assignFixed (t k j : Nat) : List (List HCell × List HCell × (List HVal → List HVal)) :=
  [ ([.sepv t k, .argv t j, .dest t k], [.dest t k],
     fun vs => match vs with
       | [sp, w, old] => [old ++ tokenize sp w]
       | _ => []) ]

/-- the same use as the code was before the fix: `convChar2String` first stores the separator in
the function-local static buffer (inventory entry `e`), then `char_separator` reads it back from
there.  Two steps; the footprint contains the process-wide cell `static e`. -/
def assignStaticBuf (e t k j : Nat) : List (List HCell × List HCell × (List HVal → List HVal)) :=
  [ ([.sepv t k], [.static e], fun vs => match vs with
       | [sp] => [sp]
       | _ => []),
    ([.static e, .argv t j, .dest t k], [.dest t k],
     fun vs => match vs with
       | [sp, w, old] => [old ++ tokenize sp w]
       | _ => []) ]

/-- the job of one thread of the line protocol, as far as the model covers it: list-valued
arguments `(separator)` and uses `(argument index, value word)` in command line order -/
structure Job where
  seps : List Char
  uses : List (Nat × List Char)
deriving Repr

def Job.prog (fixed : Bool) (t : Nat) (jb : Job) : Prog HCell HVal :=
  let rec go : List (Nat × List Char) → Nat → List (List HCell × List HCell × (List HVal → List HVal))
    | [], _ => []
    | (k, _) :: rest, j => (if fixed then assignFixed t k j else assignStaticBuf 0 t k j) ++ go rest (j + 1)
  Prog.ofList (go jb.uses 0)

/-- initial store of a workload: separators and command line words in their cells, everything
else empty -/
def initStore (jobs : List Job) : Store HCell HVal
  | .sepv t k => match jobs[t]? with
    | some jb => match jb.seps[k]? with
      | some c => [[c]]
      | none => []
    | none => []
  | .argv t j => match jobs[t]? with
    | some jb => match jb.uses[j]? with
      | some (_, w) => [w]
      | none => []
    | none => []
  | _ => []

/-- destination contents of thread `t` after its job ran alone -/
def Job.aloneResult (jobs : List Job) (t : Nat) (jb : Job) : List HVal :=
  let σ := ((jb.prog true t).alone (initStore jobs) []).1
  (List.range jb.seps.length).map fun k => σ (.dest t k)

/-! ### witness workload (used by Props/C09.lean) -/

/-- two threads, separators `;` and `,`, both given the word `a,b;c` -/
def defectJobs : List Job := [⟨[';'], [(0, "a,b;c".toList)]⟩, ⟨[','], [(0, "a,b;c".toList)]⟩]

/-- their programs as the code was before the fix (separator through the static buffer) -/
def defectProgs : Fin 2 → Prog HCell HVal := fun i => (defectJobs[i]).prog false i.val

/-- write buffer (0), write buffer (1), tokenise (0), tokenise (1) -/
def defectSched : List (Fin 2) := [0, 1, 0, 1]

/-- the repaired programs for the same two jobs -/
def fixedProgs : Fin 2 → Prog HCell HVal := fun i => (defectJobs[i]).prog true i.val

end CelmaVerif.Interleave
