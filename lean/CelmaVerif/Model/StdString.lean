import CelmaVerif.Base.Res
/-
  Textbook definitions of the `std::string` operations that `FixedString` mirrors, over `List Byte`.
  This file is a *specification*: it is validated against libstdc++'s `std::string` by the
  correspondence harness on every run (field `e.*` of every result line) and is the right-hand side
  of the C11 theorems.  `std::string::npos` is `none`; out-of-range positions throw `out_of_range`
  exactly where the standard says so.
-/
namespace CelmaVerif.StdString
open CelmaVerif

abbrev Str := List Byte

/-- `std::string( const char*)`: the characters before the first NUL (everything, if there is none) -/
def ofCStr : List Byte → Str
  | [] => []
  | b :: bs => if b = 0 then [] else b :: ofCStr bs

def insert (s : Str) (i : Nat) (t : Str) : Res Str :=
  if i > s.length then .throw .out_of_range else .ok (s.take i ++ t ++ s.drop i)

def erase (s : Str) (i n : Nat) : Res Str :=
  if i > s.length then .throw .out_of_range else .ok (s.take i ++ s.drop (i + n))

def append (s t : Str) : Str := s ++ t

/-- `str.substr( pos, count)` -/
def substr (s : Str) (pos count : Nat) : Res Str :=
  if pos > s.length then .throw .out_of_range else .ok ((s.drop pos).take count)

def replace (s : Str) (i n : Nat) (t : Str) : Res Str :=
  if i > s.length then .throw .out_of_range else .ok (s.take i ++ t ++ s.drop (i + n))

def pushBack (s : Str) (ch : Byte) : Str := s ++ [ch]
def popBack (s : Str) : Str := s.dropLast

/-- sign of the lexicographic comparison (`traits::compare`, then the lengths) -/
def compare : Str → Str → Int
  | [], [] => 0
  | [], _ :: _ => -1
  | _ :: _, [] => 1
  | a :: as, b :: bs => if a < b then -1 else if b < a then 1 else compare as bs

def startsWith (s t : Str) : Bool := t.isPrefixOf s
def endsWith (s t : Str) : Bool := t.reverse.isPrefixOf s.reverse

/-- least `i ≥ pos` such that `pat` occurs at `i` -/
def findFrom (pat : Str) : Str → Nat → Option Nat
  | [], i => if pat.isEmpty then some i else none
  | x :: xs, i => if pat.isPrefixOf (x :: xs) then some i else findFrom pat xs (i + 1)
def find (s pat : Str) (pos : Nat) : Option Nat :=
  if pos > s.length then none else findFrom pat (s.drop pos) pos
def contains (s pat : Str) : Bool := (find s pat 0).isSome

/-- greatest `i ≤ pos` such that `pat` occurs at `i` -/
def rfindUpTo (pat : Str) : Str → Nat → Nat → Option Nat → Option Nat
  | [], i, lim, best => if i ≤ lim ∧ pat.isEmpty then some i else best
  | x :: xs, i, lim, best =>
    if i > lim then best
    else rfindUpTo pat xs (i + 1) lim (if pat.isPrefixOf (x :: xs) then some i else best)
def rfind (s pat : Str) (pos : Nat) : Option Nat := rfindUpTo pat s 0 pos none

/-- first index `≥ pos` whose character satisfies `p` -/
def findIdxFrom (p : Byte → Bool) : Str → Nat → Option Nat
  | [], _ => none
  | x :: xs, i => if p x then some i else findIdxFrom p xs (i + 1)
def findFirst (s : Str) (p : Byte → Bool) (pos : Nat) : Option Nat :=
  if pos ≥ s.length then none else findIdxFrom p (s.drop pos) pos
/-- last index `≤ pos` whose character satisfies `p` -/
def findIdxUpTo (p : Byte → Bool) : Str → Nat → Nat → Option Nat → Option Nat
  | [], _, _, best => best
  | x :: xs, i, lim, best => if i > lim then best else findIdxUpTo p xs (i + 1) lim (if p x then some i else best)
def findLast (s : Str) (p : Byte → Bool) (pos : Nat) : Option Nat := findIdxUpTo p s 0 pos none

def findFirstOf (s set : Str) (pos : Nat) : Option Nat := findFirst s (fun x => set.contains x) pos
def findFirstNotOf (s set : Str) (pos : Nat) : Option Nat := findFirst s (fun x => !set.contains x) pos
def findLastOf (s set : Str) (pos : Nat) : Option Nat := findLast s (fun x => set.contains x) pos
def findLastNotOf (s set : Str) (pos : Nat) : Option Nat := findLast s (fun x => !set.contains x) pos

/-- `at( i)` -/
def at_ (s : Str) (i : Nat) : Res Byte :=
  match s[i]? with
  | some b => .ok b
  | none => .throw .out_of_range

/-- `copy( dest, count, pos)` -/
def copy (s : Str) (count pos : Nat) : Res Str :=
  if pos > s.length then .throw .out_of_range else .ok ((s.drop pos).take count)

end CelmaVerif.StdString
