import CelmaVerif.Model.ProgArgs.Abstract
/-
  Declarative reading of the declared rules over an abstract command line — the specification side
  of C01–C03.  Nothing here refers to the handler's run-time state (pending-constraint list,
  counters, flags); every predicate is a statement about the configuration and the list of uses.
-/
namespace CelmaVerif.ProgArgs
open CelmaVerif CelmaVerif.Keys

/-- number of values a use contributes to the cardinality of its argument: one per use, and for a
    list value one per element after the first (a list without elements still counts once) -/
def Use.valueCount (d : ArgDef) (u : Use) : Nat :=
  match d.kind with
  | .vecInt => max 1 (splitSep d.sep u.val).length
  | _ => 1

/-- values given to argument `i` by the uses -/
def valuesGiven (cfg : Cfg) (i : Nat) (us : List Use) : Nat :=
  ((us.filter (·.arg = i)).map (fun u => match cfg.args[i]? with | some d => u.valueCount d | none => 0)).sum

/-- the cardinality rule of one argument is met by `n` values (as far as the rule object counts:
    a maximum of -1 means "unlimited" and then nothing is counted at all) -/
def Card.MetBy (c : Card) (n : Nat) : Prop :=
  match c with
  | .unlimited => True
  | .max m => m = -1 ∨ (n : Int) ≤ m
  | .exact m => n = 0 ∨ (n : Int) = m
  | .range lo hi => hi = -1 ∨ ((n : Int) ≤ hi ∧ (n = 0 ∨ lo ≤ (n : Int)))

/-- a single value is acceptable for a scalar argument: converts to the destination type and passes
    every check -/
def ScalarValueOk (d : ArgDef) (v : Word) : Prop :=
  match d.kind with
  | .flag => True
  | .int => runChecks d.checks v = .ok () ∧ ∃ n, lexCastInt v = .ok n
  | .str => runChecks d.checks v = .ok ()
  | .level => v = [] ∨ (runChecks d.checks v = .ok () ∧ ∃ n, lexCastInt v = .ok n)
  | .vecInt => ∀ t ∈ splitSep d.sep v, runChecks d.checks t = .ok () ∧ ∃ n, lexCastInt t = .ok n

/-- the key `k` (as written in a constraint) designates argument `j` -/
def Designates (cfg : Cfg) (k : Key) (j : Nat) : Prop :=
  ∃ d, cfg.args[j]? = some d ∧ k.eq d.key = true

/-- rule "mandatory": every mandatory argument is used; for a list argument "used" means with a value
    that has at least one element, or the destination already holds elements (`hasValue()` of a
    container is "not empty": `-l ,` leaves the vector empty and the argument counts as missing) -/
def ObeysMandatory (cfg : Cfg) (inits : List DVal) (us : List Use) : Prop :=
  ∀ (i : Nat) (d : ArgDef), cfg.args[i]? = some d → d.mandatory = true →
    (∃ u ∈ us, u.arg = i ∧ (d.kind = .vecInt → splitSep d.sep u.val ≠ [])) ∨
    (d.kind = .vecInt ∧ ∃ l, inits[i]? = some (.vec l) ∧ l ≠ [])

/-- rule "values": every value given converts and passes the checks of its argument -/
def ObeysValues (cfg : Cfg) (us : List Use) : Prop :=
  ∀ u ∈ us, ∃ d, cfg.args[u.arg]? = some d ∧ ScalarValueOk d u.val

/-- rule "cardinality" -/
def ObeysCardinality (cfg : Cfg) (us : List Use) : Prop :=
  ∀ (i : Nat) (d : ArgDef), cfg.args[i]? = some d → d.card.MetBy (valuesGiven cfg i us)

/-- rule "excludes": no argument is used (by key) after an argument that excludes it -/
def ObeysExcludes (cfg : Cfg) (us : List Use) : Prop :=
  ∀ (p q : Nat) (u w : Use) (d : ArgDef) (ks : List Key) (k : Key),
    p < q → us[p]? = some u → us[q]? = some w → w.ident = true →
    cfg.args[u.arg]? = some d → (CType.excluded, ks) ∈ d.constraints → k ∈ ks →
    ¬ Designates cfg k w.arg

/-- rule "requires": every argument required by a used argument is used (by key) afterwards — the
    requirement takes effect from the point where the requiring argument is used -/
def ObeysRequires (cfg : Cfg) (us : List Use) : Prop :=
  ∀ (p : Nat) (u : Use) (d : ArgDef) (ks : List Key) (k : Key),
    us[p]? = some u → cfg.args[u.arg]? = some d → (CType.required, ks) ∈ d.constraints → k ∈ ks →
    ∃ (q : Nat) (w : Use), p < q ∧ us[q]? = some w ∧ w.ident = true ∧ Designates cfg k w.arg

/-! ### the destinations in closed form (used by the value constraints, and by `dests_denote`) -/

/-- the converted value (0 when it does not convert — never the case for an accepted value) -/
def castOr0 (v : Word) : Int := match lexCastInt v with | .ok n => n | _ => 0

/-- the converted elements of a list value -/
def castAll (ts : List Word) : List Int := ts.map castOr0

-- `vecOf` (content of a list destination) is defined in Handler.lean

/-- level of a LevelCounter destination (0 for a destination of another type) -/
def levelOf : DVal → Int
  | .level n => n
  | _ => 0

/-- one use of a LevelCounter argument: without value increment, with value set -/
def levelStep (cur : Int) (v : Word) : Int := if v.isEmpty then cur + 1 else castOr0 v

/-- the values given to argument `i`, in order -/
def valsOf (i : Nat) (us : List Use) : List Word := (us.filter (·.arg = i)).map (·.val)

/-- **The destination of an argument as a function of its own uses** (`vals`: the values of the uses
    of this argument, in command-line order; `init`: the destination's value before the evaluation).
    Not used: unchanged.  Flag: the value to set.  Int: the last value given, converted.  String: the last
    value given, formatted by the argument's formatter (`d.fmt`; none: as typed).  List: the
    initial content followed by all elements of all uses in order.  LevelCounter: increments and
    assignments applied in order. -/
def denote (d : ArgDef) (init : DVal) (vals : List Word) : DVal :=
  match vals.getLast? with
  | none => init
  | some last =>
    match d.kind with
    | .flag => .flag d.flagValue
    | .int => .int (castOr0 last)
    | .str => .str (d.fmt.apply last)
    | .vecInt => .vec (vecOf init ++ vals.flatMap (fun v => castAll (splitSep d.sep v)))
    | .level => .level (vals.foldl levelStep (levelOf init))

/-- key occurrences of arguments listed in a handler constraint -/
def listedUses (cfg : Cfg) (g : GDef) (us : List Use) : List Use :=
  us.filter (fun u => u.ident && match cfg.args[u.arg]? with
    | some d => isConstraintArgument g.keys d.key
    | none => false)

/-- value constraint "differ": any two different listed arguments that were both given end up with
    different values (the destinations in closed form: for an int / string argument the last value
    given, converted) -/
def DifferMet (cfg : Cfg) (inits : List DVal) (us : List Use) (keys : List Key) : Prop :=
  ∀ (k1 k2 : Key) (i j : Nat) (di dj : ArgDef) (vi vj : DVal), k1 ∈ keys → k2 ∈ keys →
    cfg.args[i]? = some di → cfg.args[j]? = some dj → k1.eq di.key = true → k2.eq dj.key = true → i ≠ j →
    inits[i]? = some vi → inits[j]? = some vj → (∃ u ∈ us, u.arg = i) → (∃ u ∈ us, u.arg = j) →
    denote di vi (valsOf i us) ≠ denote dj vj (valsOf j us)

/-- value constraint "disjoint": the lists of any two different listed arguments — initial content
    followed by all elements given — have no element in common -/
def DisjointMet (cfg : Cfg) (inits : List DVal) (us : List Use) (keys : List Key) : Prop :=
  ∀ (k1 k2 : Key) (i j : Nat) (di dj : ArgDef) (vi vj : DVal), k1 ∈ keys → k2 ∈ keys →
    cfg.args[i]? = some di → cfg.args[j]? = some dj → k1.eq di.key = true → k2.eq dj.key = true → i ≠ j →
    inits[i]? = some vi → inits[j]? = some vj →
    ∀ x, x ∈ vecOf (denote di vi (valsOf i us)) → x ∉ vecOf (denote dj vj (valsOf j us))

/-- rule "handler constraints": all-of — every listed argument is used; any-of — at most one key
    occurrence of a listed argument; one-of — exactly one (the code's reading: a second occurrence
    even of the same listed argument is refused); differ — pairwise different final values of the
    listed arguments that were given; disjoint — no common element between the listed lists -/
def ObeysGlobals (cfg : Cfg) (inits : List DVal) (us : List Use) : Prop :=
  ∀ g ∈ cfg.globals,
    match g.kind with
    | .allOf => ∀ k ∈ g.keys, ∃ u ∈ us, u.ident = true ∧ Designates cfg k u.arg
    | .anyOf => (listedUses cfg g us).length ≤ 1
    | .oneOf => (listedUses cfg g us).length = 1
    | .differ => DifferMet cfg inits us g.keys
    | .disjoint => DisjointMet cfg inits us g.keys

/-- the declared rules, all together -/
structure Obeys (cfg : Cfg) (inits : List DVal) (us : List Use) : Prop where
  mandatory   : ObeysMandatory cfg inits us
  values      : ObeysValues cfg us
  cardinality : ObeysCardinality cfg us
  excludes    : ObeysExcludes cfg us
  requires    : ObeysRequires cfg us
  globals     : ObeysGlobals cfg inits us

end CelmaVerif.ProgArgs
