import CelmaVerif.Model.Keys
/-
  Model of the cross check between the members of an argument group when an argument is defined:
    * `ArgumentContainer::checkArgMix`            (detail/argument_container.cpp, the two loops),
    * `Groups::crossCheckArguments( mod_handler)` (groups.cpp: every other member, registration order),
    * `Handler::internAddArgument`                (handler.cpp: `mArguments.addArgument`, then, when the
                                                   handler is used by a group, the cross check)
  restricted to the plain argument tables (`mSubGroupArgs` and the bracket handlers are outside the
  fragment).  Validated against the real code by the `pa gdef` operation of harness/prog_args.cpp.
-/
namespace CelmaVerif.ProgArgs
open CelmaVerif CelmaVerif.Keys

/-- inner loop of `checkArgMix`: one key of the other container against every own key -/
def checkArgMixInner (o : Key) : List Key → Res Unit
  | [] => pure ()
  | a :: rest =>
    if a.eq o then .throw .invalid_argument             -- "is already used by"
    else if a.mismatch o then .throw .invalid_argument   -- "has a mismatch with"
    else checkArgMixInner o rest

/-- `ArgumentContainer::checkArgMix( ownName, otherName, otherAH)` -/
def checkArgMix (own : List Key) : List Key → Res Unit
  | [] => pure ()
  | o :: rest => do checkArgMixInner o own; checkArgMix own rest

/-- `Groups::crossCheckArguments( mod_handler)`: the modified handler against every other member -/
def crossCheck (own : List Key) : List (List Key) → Res Unit
  | [] => pure ()
  | t :: rest => do checkArgMix own t; crossCheck own rest

/-- `Handler::internAddArgument` of a handler that is used by a group: the key goes into the
    handler's own table (refused there if it clashes with an own key), then the group cross-checks
    the handler against all other members.  An exception leaves the group unusable for this key:
    the definition is refused. -/
def groupAddArgument {α : Type} (own : List (Key × α)) (others : List (List Key)) (k : Key) (a : α) :
    Res (List (Key × α)) := do
  let t ← addArgument own k a
  crossCheck (t.map (·.1)) others
  pure t


/-- a sequence of definitions `(member, key specification)` on a group whose members were created
    first (tables in registration order): the index and exception class of the first definition that
    is refused, `none` if all are accepted.  (The key constructor throws before anything is added.) -/
def groupDefineSeq : List (List (Key × Unit)) → List (Nat × List Char) → Nat → Option (Exc × Nat)
  | _, [], _ => none
  | tables, (m, spec) :: rest, idx =>
    match Key.parse spec with
    | .throw e => some (e, idx)
    | .oob _ => some (.other, idx)
    | .ok k =>
      let own := tables.getD m []
      let others := (tables.zipIdx.filter (fun ti => ti.2 != m)).map (fun ti => ti.1.map (·.1))
      match groupAddArgument own others k () with
      | .ok t => groupDefineSeq (tables.set m t) rest (idx + 1)
      | .throw e => some (e, idx)
      | .oob _ => some (.other, idx)

end CelmaVerif.ProgArgs
