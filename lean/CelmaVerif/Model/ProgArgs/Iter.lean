import CelmaVerif.Base.Res
/-
  Model of celma::prog_args::detail::ArgListIterator
  (src/celma/prog_args/detail/arg_list_iterator.hpp) over ArgListParser:
  the cursor state machine that turns `argv` into a stream of elements.
  Every `mpArgV[i]` / `mpArgV[i][j]` read is checked: `i` must be a valid index
  (`argv[argc]` is the null pointer) and `j ≤ strlen` (`j = strlen` reads the NUL).
-/
namespace CelmaVerif.ProgArgs
open CelmaVerif

abbrev Word := List Char

inductive ElemType where
  | invalid | singleCharArg | stringArg | value | control
  deriving DecidableEq, Repr, Inhabited

/-- ArgListElement -/
structure Elem where
  ty       : ElemType := .invalid
  argIndex : Int := -1
  charPos  : Int := -1
  ch       : Char := '-'        -- mArgChar
  str      : Word := []         -- mArgString
  val      : Word := []         -- mValue
  deriving DecidableEq, Repr, Inhabited

def Elem.setArgChar (i p : Nat) (c : Char) : Elem :=
  { ty := .singleCharArg, argIndex := i, charPos := p, ch := c }
def Elem.setArgString (i : Nat) (name : Word) : Elem :=
  { ty := .stringArg, argIndex := i, charPos := -1, ch := '-', str := name }
def Elem.setValue (i : Nat) (v : Word) : Elem :=
  { ty := .value, argIndex := i, charPos := -1, ch := '-', val := v }
def Elem.setControl (i p : Nat) (c : Char) : Elem :=
  { ty := .control, argIndex := i, charPos := p, ch := c }

structure It where
  argv         : List Word       -- all of argv, argv[0] is the program name
  argIndex     : Nat             -- mArgIndex (an int; never negative after construction)
  charPos      : Nat             -- mArgCharPos
  cur          : Elem            -- mCurrElement
  curLen       : Nat := 0        -- mCurrArgStringLen
  acceptDashed : Bool := false   -- mAcceptDashedValue
  nextIsValue  : Bool := false   -- mNextIsValue
  remAsValue   : Bool := false   -- mRemainingArgumentStringAsValue
  deriving DecidableEq, Repr

def It.argc (it : It) : Nat := it.argv.length

/-- checked `mpArgV[i]` (as a C string) -/
def getWord (argv : List Word) (i : Nat) : Res Word :=
  match argv[i]? with
  | some w => .ok w
  | none => .oob s!"argv[{i}] with argc={argv.length}"

/-- checked `mpArgV[i][j]`; index `strlen` yields the terminating NUL -/
def getChar (argv : List Word) (i j : Nat) : Res Char := do
  let w ← getWord argv i
  if j < w.length then pure (w.getD j '\x00')
  else if j = w.length then pure '\x00'
  else .oob s!"argv[{i}][{j}] with strlen={w.length}"

/-- checked `&mpArgV[i][j]` used as a C string: the suffix from j -/
def getSuffix (argv : List Word) (i j : Nat) : Res Word := do
  let w ← getWord argv i
  if j ≤ w.length then pure (w.drop j) else .oob s!"&argv[{i}][{j}] with strlen={w.length}"

def isCtrlChar (c : Char) : Bool := c == '(' || c == ')' || c == '!'

/-- the end iterator: `ArgListIterator(src, true)` (also what `begin()` is when argc == 1) -/
def It.mkEnd (argv : List Word) : Res It := do
  if argv.length = 0 then .oob "argv[-1] (argc = 0)" else
  let last ← getWord argv (argv.length - 1)
  pure { argv := argv, argIndex := argv.length + 1, charPos := last.length + 1, cur := {} }

/-- position of the first '=' in a word -/
def findEq : Word → Option Nat
  | [] => none
  | c :: cs => if c == '=' then some 0 else (findEq cs).map (· + 1)

/-- `ResetAtExit< bool> rae( mRemainingArgumentStringAsValue, false)` on the way out of `operator++` -/
def clearRem : Res It → Res It
  | .ok it' => .ok { it' with remAsValue := false }
  | .throw e => .throw e
  | .oob w => .oob w

mutual
/-- `determineNextArg()`; `fuel` bounds the mutual recursion with `operator++` (depth ≤ 2 in fact) -/
def It.determineNextArg (it : It) : (fuel : Nat) → Res It
  | 0 => .oob "recursion"
  | fuel + 1 => do
    let c ← getChar it.argv it.argIndex it.charPos
    if c == '-' then
      if it.charPos + 1 == it.curLen then
        -- "--" alone: everything that follows is a value
        It.next { it with acceptDashed := true, argIndex := it.argIndex + 1, charPos := 0 } fuel
      else
        let name ← getSuffix it.argv it.argIndex (it.charPos + 1)
        match findEq name with
        | none =>
          pure { it with cur := Elem.setArgString it.argIndex name, argIndex := it.argIndex + 1, charPos := 0 }
        | some e =>
          pure { it with cur := Elem.setArgString it.argIndex (name.take e),
                         charPos := it.charPos + (e + 2), nextIsValue := true }
    else if it.curLen == it.charPos + 1 then
      pure { it with cur := Elem.setArgChar it.argIndex it.charPos c, argIndex := it.argIndex + 1, charPos := 0 }
    else
      pure { it with cur := Elem.setArgChar it.argIndex it.charPos c, charPos := it.charPos + 1 }

/-- `operator++()`; `remAsValue` is reset on every exit (ResetAtExit) -/
def It.next (it : It) : (fuel : Nat) → Res It
  | 0 => .oob "recursion"
  | fuel + 1 =>
    let r : Res It :=
      if it.argIndex ≥ it.argc then It.mkEnd it.argv
      else if it.nextIsValue || (it.remAsValue && it.charPos > 0) then do
        let v ← getSuffix it.argv it.argIndex it.charPos
        pure { it with cur := Elem.setValue it.argIndex v, argIndex := it.argIndex + 1, charPos := 0,
                       nextIsValue := false }
      else do
        let w ← getWord it.argv it.argIndex
        let it := { it with curLen := w.length }
        if it.charPos == 0 then
          let c0 ← getChar it.argv it.argIndex 0
          if it.curLen == 1 && isCtrlChar c0 then
            pure { it with cur := Elem.setControl it.argIndex 0 c0, argIndex := it.argIndex + 1 }
          else if c0 != '-' || it.acceptDashed then
            pure { it with cur := Elem.setValue it.argIndex w, argIndex := it.argIndex + 1 }
          else if it.curLen == 1 then .throw .runtime_error   -- argument_error "single dash"
          else It.determineNextArg { it with charPos := 1 } fuel
        else It.determineNextArg it fuel
    clearRem r
end

/-- `ArgListParser::begin()` -/
def It.begin (argv : List Word) : Res It :=
  if argv.length ≤ 1 then It.mkEnd argv
  else do
    let w ← getWord argv 1
    let it : It := { argv := argv, argIndex := 1, charPos := 1, cur := {}, curLen := w.length }
    let c0 ← getChar argv 1 0
    if c0 == '-' then
      if it.curLen == 1 then .throw .runtime_error
      else It.determineNextArg it 4
    else
      pure { it with cur := Elem.setValue 1 w, argIndex := 2, charPos := 0 }

def It.step (it : It) : Res It := it.next 4

/-- iterator equality as coded: same source, same index, same char position -/
def It.atEnd (it : It) : Bool :=
  match It.mkEnd it.argv with
  | .ok e => it.argIndex == e.argIndex && it.charPos == e.charPos
  | _ => false

/-- `isSingleArg()` -/
def It.isSingleArg (it : It) : Res Bool := do
  if it.cur.ty == .singleCharArg && it.cur.charPos == 1 then
    let c ← getChar it.argv it.cur.argIndex.toNat 2
    pure (c == '\x00')
  else pure false

/-- `argsAsString(include_myself)` as pinned: `std::string remaining( mpArgV[ argi++])` also when
    `argi == argc`, i.e. from the terminating null pointer of argv (for a `-c` element that is the
    last word) -/
def It.argsAsStringHead (it : It) (includeMyself : Bool) : Res Word := do
  if !includeMyself then
    let s ← it.isSingleArg
    if !s then .throw .runtime_error else pure ()
  let argi := if includeMyself then it.cur.argIndex.toNat else it.argIndex
  let first ← getWord it.argv argi
  pure (first ++ ((it.argv.drop (argi + 1)).map (fun w => ' ' :: w)).flatten)

/-- `argsAsString(include_myself)` (after `fix:` "argsAsString( false) on the last argument …": nothing
    follows ⇒ the empty string, `argv[ argc]` is not used) -/
def It.argsAsString (it : It) (includeMyself : Bool) : Res Word := do
  if !includeMyself then
    let s ← it.isSingleArg
    if !s then .throw .runtime_error else pure ()
  let argi := if includeMyself then it.cur.argIndex.toNat else it.argIndex
  if argi ≥ it.argc then pure [] else
  let first ← getWord it.argv argi
  pure (first ++ ((it.argv.drop (argi + 1)).map (fun w => ' ' :: w)).flatten)

end CelmaVerif.ProgArgs
