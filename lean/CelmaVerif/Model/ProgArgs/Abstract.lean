import CelmaVerif.Model.ProgArgs.Handler
/-
  The argument handler seen from above the pairing layer: an *abstract command line* is a list
  of uses (argument, value, identified-by-key or free value); `applyUses` is what the handler
  does with it, `endChecks` (in Handler.lean) what it checks afterwards.  The pairing layer (cursor,
  keys, value modes) is related to this layer by the theorems in Lemmas/Pairing.lean; the rules
  (cardinality, checks, constraints) are related to their declarative reading (Spec.lean) by
  the theorems in Lemmas/Rules*.lean.
-/
namespace CelmaVerif.ProgArgs
open CelmaVerif CelmaVerif.Keys

/-- what the handler does for one use: a key occurrence goes through `processArg`
    (`mpLastArg = hdl; handleIdentifiedArg( hdl, key, value)`), a free value directly to
    `assignValue` of the last multi-value argument -/
def applyUse (cfg : Cfg) (h : HState) (u : Use) : Res HState :=
  match cfg.args[u.arg]? with
  | none => .throw .logic_error            -- not a use of this configuration
  | some d =>
    if u.ident then handleIdentifiedArg cfg { h with lastArg := some u.arg } u.arg d u.val
    else assignValue h u.arg d u.val false

def applyUses (cfg : Cfg) : HState → List Use → Res HState
  | h, [] => .ok h
  | h, u :: us => do
    let h' ← applyUse cfg h u
    applyUses cfg h' us

/-- abstract evaluation of a command line: all uses, then the final checks -/
def evalUses (cfg : Cfg) (h : HState) (us : List Use) : Res HState := do
  let h' ← applyUses cfg h us
  endChecks cfg h'

end CelmaVerif.ProgArgs
