import CelmaVerif.Model.ProgArgs.Iter
import CelmaVerif.Model.Keys
import CelmaVerif.Model.ArgString
import CelmaVerif.Model.Regex
/-
  Model of celma::prog_args::Handler for the modelled fragment
  (src/library/prog_args/handler.cpp, detail/typed_arg_base.cpp, detail/typed_arg.hpp,
  detail/constraint_*.cpp, detail/cardinality_*.cpp, detail/check_*.hpp, groups.cpp).

  Fragment: destinations flag (bool), int, std::string, LevelCounter, std::vector<int>
  (optionally multi-value); value checks lower/upper/range/values/minLength/maxLength/pattern
  (`std::regex_match` through Model/Regex.lean); cardinalities none/max/exact/range; argument
  constraints requires/excludes; handler constraints all-of/any-of/one-of and the handler value
  constraints differ/disjoint (value_constraint_differ.hpp, value_constraint_disjoint.hpp,
  common/has_intersection.hpp); abbreviations on/off; argument file lines and the environment
  variable as additional sources; evaluation through Groups.
  Not modelled: sub-groups, bracket handlers (absent ⇒ '(' and ')' are unknown), inversion
  support (absent ⇒ '!' followed by an argument is refused), value mode `command`, callables,
  formatters other than uppercase / lowercase (anycase, format functions, positional formatters), other
  destination types.
-/
namespace CelmaVerif.ProgArgs
open CelmaVerif CelmaVerif.Keys

/-! ## static definition -/

instance : Inhabited Key := ⟨Key.pos⟩

inductive Kind where
  | flag | int | str | level | vecInt
  deriving DecidableEq, Repr, Inhabited

inductive VMode where
  | none | optional | required
  deriving DecidableEq, Repr, Inhabited

/-- ICardinality objects; `unlimited` = no cardinality object (`mpCardinality.reset()`) -/
inductive Card where
  | unlimited
  | max (n : Int)           -- CardinalityMax (n = -1: no limit, counter not advanced)
  | exact (n : Int)         -- CardinalityExact
  | range (lo hi : Int)     -- CardinalityRange (hi = -1: no upper limit)
  deriving DecidableEq, Repr, Inhabited

inductive Check where
  | lower (v : Int)                               -- CheckLower<int>: value ≥ v, else underflow_error
  | upper (v : Int)                               -- CheckUpper<int>: value < v, else overflow_error
  | range (lo hi : Int)                           -- CheckRange<int>: lo ≤ value < hi, else out_of_range
  | values (vs : List Word) (ignoreCase : Bool)   -- CheckValues, else out_of_range
  | minLength (n : Nat)                           -- CheckMinLength, else underflow_error
  | maxLength (n : Nat)                           -- CheckMaxLength, else overflow_error
  | pattern (r : Regex.Re)                        -- CheckPattern (the compiled `mRegEx`): `regex_match` on the
                                                  -- whole value, else out_of_range
  deriving DecidableEq, Repr, Inhabited

inductive CType where
  | required | excluded
  deriving DecidableEq, Repr, Inhabited

/-- value formatter of an argument (`addFormat( uppercase())` / `addFormat( lowercase())`:
    detail/format_uppercase.cpp, format_lowercase.cpp — `boost::to_upper` / `boost::to_lower` in the
    "C" locale: the 26 ASCII letters); `none` = `mFormats.empty()` -/
inductive Fmt where
  | none | upper | lower
  deriving DecidableEq, Repr, Inhabited

structure ArgDef where
  key         : Key
  kind        : Kind
  vmode       : VMode
  card        : Card
  mandatory   : Bool := false
  checks      : List Check := []
  /-- ConstraintRequires / ConstraintExcludes objects in the order they were added, each with the
      keys of its specification string (split at ';') -/
  constraints : List (CType × List Key) := []
  multi       : Bool := false            -- setTakesMultiValue()
  sep         : Char := ','              -- list separator (vecInt)
  flagValue   : Bool := true             -- TypedArg<bool>::mValue2Set = !initial value
  deprecated  : Bool := false
  mixIncSet   : Bool := false            -- LevelCounter: setAllowMixIncSet()
  fmt         : Fmt := .none             -- addFormat( uppercase() / lowercase()) (string destinations, see `assignDest`)
  deriving Repr, Inhabited

inductive GKind where
  | allOf | anyOf | oneOf
  | differ        -- ValueConstraintDiffer (an IHandlerValueConstraint: only an end condition)
  | disjoint      -- ValueConstraintDisjoint
  deriving DecidableEq, Repr, Inhabited

/-- handler constraint with its (validated, expanded) argument keys.  For a value constraint the keys
    also stand for the handler pointers `mArgHandlers` that `Handler::validValueArguments` stored:
    each is the own key of a defined argument (see `valueHandlers`). -/
structure GDef where
  kind : GKind
  keys : List Key
  deriving Repr, Inhabited

structure Cfg where
  args    : List ArgDef
  globals : List GDef := []
  abbr    : Bool := true            -- !(hfNoAbbr)
  deriving Repr, Inhabited

/-! ## run-time state -/

inductive DVal where
  | flag (b : Bool)
  | int (v : Int)
  | str (s : Word)
  | level (n : Int)
  | vec (l : List Int)
  deriving DecidableEq, Repr, Inhabited

structure ArgSt where
  dest        : DVal
  hasValueSet : Bool := false     -- mHasValueSet
  incremented : Bool := false     -- LevelCounter::mIncremented
  cnt         : Int := 0          -- ICardinality::mNumValues
  deriving DecidableEq, Repr, Inhabited

/-- state of one handler constraint -/
structure GSt where
  remaining : List Key := []      -- ConstraintAllOf::mRemainingArguments
  used      : Bool := false       -- !mUsedArgument.empty()
  deriving DecidableEq, Repr, Inhabited

/-- one use of an argument: its index in `cfg.args`, the value (empty = none) and whether it was
    identified by a key (`handleIdentifiedArg`) or is a free value of the last multi-value argument -/
structure Use where
  arg   : Nat
  val   : Word
  ident : Bool
  deriving DecidableEq, Repr, Inhabited

structure HState where
  args     : List ArgSt
  pending  : List (Key × CType)                -- ConstraintContainer::mConstraints (origin text not modelled)
  globals  : List GSt
  lastArg  : Option Nat := none                -- mpLastArg (index into cfg.args)
  inverted : Bool := false                     -- mInverted
  fromSrc  : Bool := false                     -- mReadMode != commandLine
  /-- ghost: the uses in the order `assignValue` succeeded (no counterpart in the C++ object) -/
  uses     : List Use := []
  deriving Repr, Inhabited

def defaultDest : Kind → DVal
  | .flag => .flag false
  | .int => .int 0
  | .str => .str []
  | .level => .level 0
  | .vecInt => .vec []

def Cfg.initState (cfg : Cfg) (inits : List DVal) : HState :=
  { args := (cfg.args.zip inits).map (fun (_, i) => { dest := i }),
    pending := [],
    globals := cfg.globals.map (fun g => { remaining := if g.kind = .allOf then g.keys else [] }) }

/-! ## conversions and checks -/

/-- `if (cond) throw E(...)` in the middle of a function -/
def throwIf (c : Bool) (e : Exc) : Res Unit := if c then .throw e else .ok ()

def digitVal (c : Char) : Option Nat :=
  if '0' ≤ c ∧ c ≤ '9' then some (c.toNat - 48) else none

def parseNat : Word → Option Nat
  | [] => none
  | cs => cs.foldlM (fun acc c => (digitVal c).map (fun d => acc * 10 + d)) 0

/-- `boost::lexical_cast<int>`: optional sign, at least one digit, nothing else, must fit in `int` -/
def lexCastInt (s : Word) : Res Int :=
  let (neg, body) := match s with
    | '-' :: r => (true, r)
    | '+' :: r => (false, r)
    | r => (false, r)
  match parseNat body with
  | none => .throw .bad_cast
  | some n =>
    let v : Int := if neg then -(n : Int) else n
    if -2147483648 ≤ v ∧ v ≤ 2147483647 then .ok v else .throw .bad_cast

def toLowerAscii (c : Char) : Char :=
  if 'A' ≤ c ∧ c ≤ 'Z' then Char.ofNat (c.toNat + 32) else c

def toUpperAscii (c : Char) : Char :=
  if 'a' ≤ c ∧ c ≤ 'z' then Char.ofNat (c.toNat - 32) else c

/-- `TypedArgBase::format( val)`: the formatter stored for the argument applied to (a copy of) the value -/
def Fmt.apply : Fmt → Word → Word
  | .none, v => v
  | .upper, v => v.map toUpperAscii
  | .lower, v => v.map toLowerAscii

def Check.run (c : Check) (val : Word) : Res Unit :=
  match c with
  | .lower v => do
    let n ← lexCastInt val
    throwIf (n < v) .underflow_error
  | .upper v => do
    let n ← lexCastInt val
    throwIf (n ≥ v) .overflow_error
  | .range lo hi => do
    let n ← lexCastInt val
    throwIf (n < lo) .out_of_range
    throwIf (n ≥ hi) .out_of_range
  | .values vs ic =>
    if ic then throwIf (!vs.any (fun v => v.map toLowerAscii == val.map toLowerAscii)) .out_of_range
    else throwIf (!vs.contains val) .out_of_range
  | .minLength n => throwIf (val.length < n) .underflow_error
  | .maxLength n => throwIf (val.length > n) .overflow_error
  | .pattern r => throwIf (!r.matches val) .out_of_range

/-- `TypedArgBase::check`: all checks in the order they were added -/
def runChecks : List Check → Word → Res Unit
  | [], _ => pure ()
  | c :: cs, v => do c.run v; runChecks cs v

/-- `ICardinality::gotValue()` -/
def Card.gotValue (c : Card) (cnt : Int) : Res Int :=
  match c with
  | .unlimited => .ok cnt
  | .max n => if n != -1 then (if cnt + 1 > n then .throw .runtime_error else .ok (cnt + 1)) else .ok cnt
  | .exact n => if cnt + 1 > n then .throw .runtime_error else .ok (cnt + 1)
  | .range _ hi => if hi != -1 then (if cnt + 1 > hi then .throw .runtime_error else .ok (cnt + 1)) else .ok cnt

/-- `if (!skip && mpCardinality) mpCardinality->gotValue()` -/
def countValue (skip : Bool) (c : Card) (cnt : Int) : Res Int :=
  if skip then .ok cnt else c.gotValue cnt

/-- `ICardinality::check()` at the end of the evaluation -/
def Card.check (c : Card) (cnt : Int) : Res Unit :=
  match c with
  | .unlimited => pure ()
  | .max _ => pure ()
  | .exact n => if cnt > 0 ∧ cnt != n then .throw .runtime_error else pure ()
  | .range lo _ => if cnt != 0 ∧ cnt < lo then .throw .runtime_error else pure ()

/-- `common::Tokenizer` over `boost::char_separator`: split at the separator, drop empty tokens -/
def splitSep (sep : Char) (s : Word) : List Word :=
  let rec go : Word → Word → List Word → List Word
    | [], cur, acc => (if cur.isEmpty then acc else cur.reverse :: acc).reverse
    | c :: cs, cur, acc =>
      if c == sep then go cs [] (if cur.isEmpty then acc else cur.reverse :: acc)
      else go cs (c :: cur) acc
  go s [] []

/-- the element loop of `TypedArg< ContainerAdapter< vector<int>>>::assign` -/
def assignVecLoop (d : ArgDef) : List Word → Bool → ArgSt → Res ArgSt
  | [], _, st => .ok st
  | tok :: rest, first, st => do
    let cnt ← countValue first d.card st.cnt
    runChecks d.checks tok
    let v ← lexCastInt tok
    let l := match st.dest with | .vec l => l | _ => []
    assignVecLoop d rest false { st with cnt := cnt, dest := .vec (l ++ [v]) }

/-- `hasValue()` per destination kind -/
def ArgSt.hasValue (k : Kind) (st : ArgSt) : Bool :=
  match k with
  | .level => st.hasValueSet || st.incremented
  | .vecInt => match st.dest with | .vec l => !l.isEmpty | _ => false
  | _ => st.hasValueSet

/-- `TypedArg<…>::assign( value, inverted)` per destination kind.  `TypedArg< T>::assign` (typed_arg.hpp):
    `check( value)` on the text AS TYPED, then — if a formatter is stored — `format( valCopy)` on a copy, then
    `boost::lexical_cast< T>` of the formatted copy, then `mHasValueSet = true` (on both paths).  For a string
    destination the formatted text is what is stored.  For the `int`-typed destinations (int, LevelCounter with a
    value, the elements of vector<int>) the case formatters change no character that `lexical_cast< int>` accepts
    and turn no refused text into an accepted one: `lexCastInt_fmt` (Lemmas/Formats.lean) proves
    `lexCastInt (f.apply v) = lexCastInt v`, which is why `fmt` does not appear in those branches. -/
def assignDest (d : ArgDef) (st : ArgSt) (value : Word) : Res ArgSt :=
  match d.kind with
  | .flag => .ok { st with dest := .flag d.flagValue, hasValueSet := true }
  | .int => do
    runChecks d.checks value
    let v ← lexCastInt value
    pure { st with dest := .int v, hasValueSet := true }
  | .str => do
    runChecks d.checks value
    pure { st with dest := .str (d.fmt.apply value), hasValueSet := true }
  | .level =>
    let cur := match st.dest with | .level n => n | _ => 0
    if value.isEmpty then do
      throwIf (st.hasValueSet && !d.mixIncSet) .runtime_error
      runChecks d.checks (toString (cur + 1)).toList
      pure { st with dest := .level (cur + 1), incremented := true }
    else do
      throwIf (!d.mixIncSet && (st.hasValueSet || st.incremented)) .runtime_error
      runChecks d.checks value
      let v ← lexCastInt value
      pure { st with dest := .level v, hasValueSet := true }
  | .vecInt => assignVecLoop d (splitSep d.sep value) true st

/-! ## constraint container -/

/-- `Storage::find`: first entry whose key `==` the search key -/
def pendingFind (k : Key) : List (Key × CType) → Option (Key × CType)
  | [] => none
  | e :: es => if e.1.eq k then some e else pendingFind k es

/-- `ConstraintContainer::addConstraint( type, spec, origin)` over the tokenised spec -/
def pendingAdd (ct : CType) : List Key → List (Key × CType) → List (Key × CType)
  | [], p => p
  | k :: ks, p =>
    match pendingFind k p with
    | some e => if e.2 = ct then pendingAdd ct ks p else pendingAdd ct ks (p ++ [(k, ct)])
    | none => pendingAdd ct ks (p ++ [(k, ct)])

/-- `ConstraintContainer::argumentIdentified( key)`: walk the entries that `==` key; a `required`
    entry is erased, an `excluded` entry throws -/
def pendingIdentified (k : Key) : List (Key × CType) → Res (List (Key × CType))
  | [] => .ok []
  | e :: es =>
    if e.1.eq k then
      match e.2 with
      | .required => pendingIdentified k es
      | .excluded => .throw .runtime_error
    else do
      let r ← pendingIdentified k es
      pure (e :: r)

/-- `ConstraintContainer::checkRequired()` -/
def pendingCheckRequired (p : List (Key × CType)) : Res Unit :=
  throwIf (p.any (fun e => e.2 = .required)) .runtime_error

/-- `TypedArgBase::activateConstraints()` -/
def activateConstraints : List (CType × List Key) → List (Key × CType) → List (Key × CType)
  | [], p => p
  | (ct, ks) :: cs, p => activateConstraints cs (pendingAdd ct ks p)

/-! ## handler constraints -/

/-- `IHandlerConstraint::isConstraintArgument` -/
def isConstraintArgument (keys : List Key) (k : Key) : Bool := keys.any (fun x => x.eq k)

/-- erase the first element `==` key (Storage::find + erase) -/
def eraseFirstEq (k : Key) : List Key → List Key
  | [] => []
  | x :: xs => if x.eq k then xs else x :: eraseFirstEq k xs

/-- `executeConstraint( key)` of all-of / any-of / one-of -/
def GDef.execute (g : GDef) (st : GSt) (k : Key) : Res GSt :=
  if !isConstraintArgument g.keys k then .ok st
  else match g.kind with
    | .allOf => .ok { st with remaining := eraseFirstEq k st.remaining }
    | .anyOf => if st.used then .throw .runtime_error else .ok { st with used := true }
    | .oneOf => if st.used then .throw .runtime_error else .ok { st with used := true }
    | .differ => .ok st          -- `executeConstraint` is empty: all the work is done at the end
    | .disjoint => .ok st

/-! ### value constraints: differ / disjoint -/

/-- `std::string::operator<`: bytes compared as unsigned values, a proper prefix is smaller -/
def wordLt : Word → Word → Bool
  | [], [] => false
  | [], _ :: _ => true
  | _ :: _, [] => false
  | a :: as, b :: bs => if a.toNat < b.toNat then true else if b.toNat < a.toNat then false else wordLt as bs

/-- the `int` behind a destination reference (an int argument's destination is an int) -/
def intOf : DVal → Int
  | .int n => n
  | _ => 0

/-- the `std::string` behind a destination reference -/
def strOf : DVal → Word
  | .str w => w
  | _ => []

/-- content of a list destination (empty for a destination of another type) -/
def vecOf : DVal → List Int
  | .vec l => l
  | _ => []

/-- `arg1->compareValue( arg2)`, a virtual call dispatched on the class of `arg1` (`k`: its
    destination type): `TypedArg< T>::compareValue` for `T` = int / std::string gives `-1`, `0`, `1`
    through `operator<` in both directions, with `arg2` cast to the same class.  The specialisations
    for bool, LevelCounter and the containers do not override it: `TypedArgBase::compareValue`
    throws std::invalid_argument.  (Two different destination types cannot meet:
    `validValueArguments` refuses them at set-up.) -/
def compareValue (k : Kind) (a b : DVal) : Res Int :=
  match k with
  | .int => .ok (if intOf a < intOf b then -1 else if intOf b < intOf a then 1 else 0)
  | .str => .ok (if wordLt (strOf a) (strOf b) then -1 else if wordLt (strOf b) (strOf a) then 1 else 0)
  | _ => .throw .invalid_argument

/-- `std::sort` of a copy of the vector -/
def insertSorted (x : Int) : List Int → List Int
  | [] => [x]
  | y :: ys => if x ≤ y then x :: y :: ys else y :: insertSorted x ys

def sortInts : List Int → List Int
  | [] => []
  | x :: xs => insertSorted x (sortInts xs)

/-- `common::hasIntersection( first1, last1, first2, last2)`: the walk of `std::set_intersection`
    over two SORTED sequences, stopping at the first common value; `fuel` bounds the number of
    iterations (each one advances one of the two iterators) -/
def intersectWalk : (fuel : Nat) → List Int → List Int → Bool
  | 0, _, _ => false
  | _ + 1, [], _ => false
  | _ + 1, _, [] => false
  | fuel + 1, a :: as, b :: bs =>
    if a < b then intersectWalk fuel as (b :: bs)
    else if !(b < a) then true
    else intersectWalk fuel (a :: as) bs

/-- `common::hasIntersectionUnsorted( cont1, cont2)` (after `fix:` — the vector adapter handed the
    unsorted vectors to the walk): sorted copies are compared -/
def hasIntersectionUnsorted (l1 l2 : List Int) : Bool :=
  intersectWalk (l1.length + l2.length + 1) (sortInts l1) (sortInts l2)

/-- `arg1->hasIntersection( arg2)`, dispatched on the class of `arg1`:
    `TypedArg< ContainerAdapter< vector<int>>>::hasIntersection`; every other destination type:
    `TypedArgBase::hasIntersection` throws std::invalid_argument -/
def hasIntersection (k : Kind) (a b : DVal) : Res Bool :=
  match k with
  | .vecInt => .ok (hasIntersectionUnsorted (vecOf a) (vecOf b))
  | _ => .throw .invalid_argument

/-- one stored argument handler of a value constraint: index, definition, state -/
abbrev VArg := Nat × ArgDef × ArgSt

def VArg.hasValue (a : VArg) : Bool := a.2.2.hasValue a.2.1.kind

/-- index of the argument the stored pointer refers to: the argument whose own key `==` the stored key -/
def argIndexOf (defs : List ArgDef) (k : Key) : Option Nat := defs.findIdx? (fun d => k.eq d.key)

/-- `mArgHandlers`: the argument handlers stored by `validValueArguments`, in the order of the
    constraint's argument list.  (A key that is not the key of a defined argument stores nothing: no
    such constraint object can be built through `addConstraint`.) -/
def valueHandlers (defs : List ArgDef) (sts : List ArgSt) (keys : List Key) : List VArg :=
  keys.filterMap (fun k =>
    match argIndexOf defs k with
    | some i => match defs[i]? with
      | some d => some (i, d, sts.getD i default)
      | none => none
    | none => none)

/-- inner loop of `ValueConstraintDiffer::checkEndCondition` -/
def differInner (a1 : VArg) : List VArg → Res Unit
  | [] => pure ()
  | a2 :: rest => do
    if a1.1 != a2.1 && a2.hasValue then
      let c ← compareValue a1.2.1.kind a1.2.2.dest a2.2.2.dest
      throwIf (c == 0) .runtime_error
    differInner a1 rest

/-- outer loop of `ValueConstraintDiffer::checkEndCondition` -/
def differOuter (all : List VArg) : List VArg → Res Unit
  | [] => pure ()
  | a1 :: rest => do
    if a1.hasValue then differInner a1 all
    differOuter all rest

/-- `ValueConstraintDisjoint::checkEndCondition`: `mArgHandlers[ 0]` and `[ 1]`.  The constraint
    object holds exactly two handlers (fewer: `validValueArguments` throws; a third:
    `storeArgumentHandler` throws), so the last branch stands for no constructible object. -/
def disjointCheck : List VArg → Res Unit
  | a1 :: a2 :: _ => do
    if !a1.hasValue || !a2.hasValue then pure ()
    else do
      let c ← hasIntersection a1.2.1.kind a1.2.2.dest a2.2.2.dest
      throwIf c .runtime_error
  | _ => pure ()

/-- `checkEndCondition()`; the value constraints read the destinations of their arguments -/
def GDef.endCheck (defs : List ArgDef) (sts : List ArgSt) (g : GDef) (st : GSt) : Res Unit :=
  match g.kind with
  | .allOf => if st.remaining.isEmpty then pure () else .throw .runtime_error
  | .anyOf => pure ()
  | .oneOf => if st.used then pure () else .throw .runtime_error
  | .differ => let hs := valueHandlers defs sts g.keys; differOuter hs hs
  | .disjoint => disjointCheck (valueHandlers defs sts g.keys)

def executeGlobals : List GDef → List GSt → Key → Res (List GSt)
  | g :: gs, s :: ss, k => do
    let s' ← g.execute s k
    let rest ← executeGlobals gs ss k
    pure (s' :: rest)
  | _, _, _ => .ok []

def checkGlobals (defs : List ArgDef) (sts : List ArgSt) : List GDef → List GSt → Res Unit
  | g :: gs, s :: ss => do g.endCheck defs sts s; checkGlobals defs sts gs ss
  | _, _ => pure ()

/-! ## the handler -/

def Cfg.table (cfg : Cfg) : List (Key × ArgDef) := cfg.args.map (fun d => (d.key, d))

/-- `TypedArgBase::assignValue( ignore_cardinality, value, inverted)` on argument `i` -/
def assignValue (h : HState) (i : Nat) (d : ArgDef) (value : Word) (ident : Bool := false) : Res HState := do
  throwIf d.deprecated .runtime_error
  let st := h.args.getD i default
  let cnt ← countValue h.fromSrc d.card st.cnt
  throwIf h.inverted .runtime_error          -- mAllowsInverting is never set in the fragment
  let st' ← assignDest d { st with cnt := cnt } value
  pure { h with args := h.args.set i st', pending := activateConstraints d.constraints h.pending,
                uses := h.uses ++ [{ arg := i, val := value, ident := ident }] }

/-- `Handler::handleIdentifiedArg( hdl, key, value)`.  `ident` is the key handed to the
    constraint container (after the fix: the argument's own key) -/
def handleIdentifiedArg (cfg : Cfg) (h : HState) (i : Nat) (d : ArgDef) (value : Word) : Res HState := do
  let pending ← pendingIdentified d.key h.pending
  let globals ← executeGlobals cfg.globals h.globals d.key
  let h' ← assignValue { h with pending := pending, globals := globals } i d value true
  pure { h' with inverted := false }

inductive ArgResult where
  | unknown | consumed | last
  deriving DecidableEq, Repr

/-- `Handler::processArg( key, ai, end)` (no sub-groups in the fragment) -/
def processArg (cfg : Cfg) (h : HState) (key : Key) (ai : It) : Res (HState × It × ArgResult) := do
  let found ← findArg cfg.abbr cfg.table key
  match found with
  | none => pure ({ h with lastArg := none }, ai, .unknown)
  | some (i, d) =>
    let h := { h with lastArg := some i }
    if d.vmode = .none then
      let h' ← handleIdentifiedArg cfg h i d []
      pure (h', ai, .consumed)
    else
      let ait2 := if d.vmode = .required then { ai with remAsValue := true } else ai
      let ait2 ← ait2.step
      if ait2.atEnd || ait2.cur.ty != .value then
        if d.vmode = .optional then
          let h' ← handleIdentifiedArg cfg h i d []
          pure (h', ai, .consumed)
        else .throw .runtime_error                   -- argument_error "requires value(s)"
      else
        let h' ← handleIdentifiedArg cfg h i d ait2.cur.val
        pure (h', ait2, .consumed)

/-- `Handler::evalSingleArgument( ai, end)` -/
def evalSingleArgument (cfg : Cfg) (h : HState) (ai : It) : Res (HState × It × ArgResult) :=
  match ai.cur.ty with
  | .singleCharArg => processArg cfg h (Key.ofChar ai.cur.ch) ai
  | .stringArg => do
    let key ← wordKey ai.cur.str       -- `"--" + mArgString` for a one-character name, else `mArgString`
    processArg cfg h key ai
  | .control =>
    if ai.cur.ch == '(' || ai.cur.ch == ')' then pure (h, ai, .unknown)    -- no bracket handlers
    else pure ({ h with inverted := true }, ai, .consumed)
  | _ =>   -- value (and `default:`)
    let multiLast : Option (Nat × ArgDef) :=
      match h.lastArg with
      | some i => match cfg.args[i]? with
        | some d => if d.multi then some (i, d) else none
        | none => none
      | none => none
    match multiLast with
    | some (i, d) => do
      let h' ← assignValue h i d ai.cur.val
      pure (h', ai, .consumed)
    | none => do
      -- positional argument: `mArguments.findArg( mPosKey)`; none is defined in the fragment, but the
      -- lookup itself is performed
      let found ← findArg cfg.abbr cfg.table Key.pos
      match found with
      | none => pure (h, ai, .unknown)
      | some (i, d) => do
        let h' ← handleIdentifiedArg cfg h i d ai.cur.val
        pure (h', ai, .consumed)

/-- the `for` loop of `iterateArguments`; `fuel` bounds the number of elements (each step consumes
    at least one character of argv, see Lemmas) -/
def iterateLoop (cfg : Cfg) : (fuel : Nat) → HState → It → Res HState
  | 0, _, _ => .oob "iterateArguments: fuel exhausted"
  | fuel + 1, h, ai =>
    if ai.atEnd then .ok h
    else do
      let (h', ai', r) ← evalSingleArgument cfg h ai
      match r with
      | .unknown => .throw .invalid_argument
      | .last => pure h'
      | .consumed => do
        let ai'' ← ai'.step
        iterateLoop cfg fuel h' ai''

def totalChars (argv : List Word) : Nat := (argv.map (fun w => w.length + 2)).sum + 2

/-- `Handler::iterateArguments( alp)` -/
def iterateArguments (cfg : Cfg) (h : HState) (argv : List Word) : Res HState := do
  let ai ← It.begin argv
  iterateLoop cfg (totalChars argv) h ai

/-- `ArgumentContainer::checkMandatoryCardinality()` -/
def checkMandatoryCardinality : List ArgDef → List ArgSt → Res Unit
  | d :: ds, s :: ss => do
    throwIf (d.mandatory && !s.hasValue d.kind) .runtime_error
    d.card.check s.cnt
    checkMandatoryCardinality ds ss
  | _, _ => pure ()

/-- additional argument sources: lines of the argument file (none = file absent or flag off), value
    of the environment variable (none = unset/empty or flag off) -/
structure Sources where
  file : Option (List Word) := none
  env  : Option Word := none
  deriving Repr, Inhabited

/-- pieces of a byte string between newline characters (`"a\nb\n"` ↦ `["a", "b", ""]`) -/
def splitNl : Word → List Word
  | [] => [[]]
  | c :: cs =>
    match splitNl cs with
    | [] => [[]]                       -- unreachable: splitNl is never empty
    | p :: ps => if c == '\n' then [] :: p :: ps else (c :: p) :: ps

/-- the lines the `std::getline` loop of `readArgumentFile` hands to the evaluation, from the bytes of
    the file: every piece terminated by a newline, and a last piece without terminating newline if it
    is not empty (the loop is `while (std::getline( f, line))` since `fix:` "last line of the argument
    file …"; `fileLinesHead` is the pinned loop) -/
def fileLines (content : Word) : List Word :=
  let ps := splitNl content
  if ps.getLast? == some [] then ps.dropLast else ps

/-- the pinned loop `while (!std::getline( f, line).eof())`: the read that meets the end of the file
    ends the loop *before* its line is processed, so a last line without terminating newline is lost -/
def fileLinesHead (content : Word) : List Word := (splitNl content).dropLast

/-- `readArgumentFile`: every non-empty line not starting with '#' is split into words and iterated -/
def readFileLines (cfg : Cfg) : List Word → HState → Res HState
  | [], h => .ok h
  | line :: rest, h =>
    if line.isEmpty || line.head? == some '#' then readFileLines cfg rest h
    else do
      let h' ← iterateArguments cfg h (ArgString.defaultProgName :: ArgString.splitString line)
      readFileLines cfg rest h'

/-- `if (mReadProgramArguments) readEvalFileArguments( argv[0])` -/
def evalFileSource (cfg : Cfg) (file : Option (List Word)) (h : HState) : Res HState :=
  match file with
  | some lines => do
    let h' ← readFileLines cfg lines { h with fromSrc := true }
    pure { h' with fromSrc := false }
  | none => pure h

/-- `if (mCheckEnvVar) checkReadEnvVarArgs( argv[0])` -/
def evalEnvSource (cfg : Cfg) (env : Option Word) (h : HState) : Res HState :=
  match env with
  | some e => do
    let h' ← iterateArguments cfg { h with fromSrc := true } (ArgString.defaultProgName :: ArgString.splitString e)
    pure { h' with fromSrc := false }
  | none => pure h

/-- the final checks of `evalArguments` (after `mpLastArg` was reset by ResetAtExit) -/
def endChecks (cfg : Cfg) (h : HState) : Res HState := do
  let h := { h with lastArg := none }
  checkMandatoryCardinality cfg.args h.args
  pendingCheckRequired h.pending
  checkGlobals cfg.args h.args cfg.globals h.globals
  pure h

/-- `Handler::evalArguments( argc, argv)` -/
def evalArguments (cfg : Cfg) (h : HState) (src : Sources) (argv : List Word) : Res HState := do
  let h ← evalFileSource cfg src.file h
  let h ← evalEnvSource cfg src.env h
  let h ← iterateArguments cfg h argv
  endChecks cfg h

end CelmaVerif.ProgArgs
