import CelmaVerif.Model.ProgArgs.Handler
/-
  Model of celma::prog_args::Groups::evalArguments (src/library/prog_args/groups.cpp):
  the arguments of one configuration are distributed over member handlers; every element of the
  command line is offered to the members in registration order until one does not answer `unknown`.
-/
namespace CelmaVerif.ProgArgs
open CelmaVerif CelmaVerif.Keys

/-- indices (into `cfg.args`) of the arguments owned by member `m` -/
def memberArgIdx (memberOf : List Nat) (m : Nat) : List Nat :=
  (List.range memberOf.length).filter (fun a => memberOf.getD a 0 == m)

/-- configuration of member `m`: its own arguments and handler constraints -/
def memberCfg (cfg : Cfg) (argMember globMember : List Nat) (m : Nat) : Cfg :=
  { args := (memberArgIdx argMember m).filterMap (fun a => cfg.args[a]?),
    globals := ((List.range globMember.length).filter (fun g => globMember.getD g 0 == m)).filterMap
                 (fun g => cfg.globals[g]?),
    abbr := cfg.abbr }

def memberInits (inits : List DVal) (argMember : List Nat) (m : Nat) : List DVal :=
  (memberArgIdx argMember m).filterMap (fun a => inits[a]?)

/-- offer the element to the members in order; the first answer that is not `unknown` wins.
    Members that answered `unknown` keep the state change the question caused. -/
def clearLast (ms : List (Cfg × HState)) : List (Cfg × HState) :=
  ms.map (fun (c, h) => (c, { h with lastArg := none }))

/-- `isKey`: the element offered is not a value.  After a member has identified such an element the
    other members forget their "last argument" (`fix:` 247ec56 in Groups::evalArguments; at the
    pinned commit they kept it, see `offerHead`). -/
def offer (isKey : Bool) : List (Cfg × HState) → It → Res (List (Cfg × HState) × It × ArgResult)
  | [], ai => .ok ([], ai, .unknown)
  | (c, h) :: rest, ai => do
    let (h', ai', r) ← evalSingleArgument c h ai
    if r != .unknown then pure ((c, h') :: (if isKey then clearLast rest else rest), ai', r)
    else do
      let (rest', ai'', r') ← offer isKey rest ai
      -- members asked before the one that answered forget their last argument as well
      let h'' := if isKey && r' != .unknown then { h' with lastArg := none } else h'
      pure ((c, h'') :: rest', ai'', r')

/-- the loop body of the pinned commit: nobody but the members that were asked changes state -/
def offerHead : List (Cfg × HState) → It → Res (List (Cfg × HState) × It × ArgResult)
  | [], ai => .ok ([], ai, .unknown)
  | (c, h) :: rest, ai => do
    let (h', ai', r) ← evalSingleArgument c h ai
    if r != .unknown then pure ((c, h') :: rest, ai', r)
    else do
      let (rest', ai'', r') ← offerHead rest ai
      pure ((c, h') :: rest', ai'', r')

def groupsLoop : (fuel : Nat) → List (Cfg × HState) → It → Res (List (Cfg × HState))
  | 0, _, _ => .oob "Groups::evalArguments: fuel exhausted"
  | fuel + 1, ms, ai =>
    if ai.atEnd then .ok ms
    else do
      let (ms', ai', r) ← offer (ai.cur.ty != .value) ms ai
      if r == .unknown then .throw .runtime_error
      else do
        let ai'' ← ai'.step
        groupsLoop fuel ms' ai''

/-- end-of-evaluation checks of one member as Groups performs them (`fix:` 4bb8db8: the constraint
    checks; at the pinned commit only mandatory/cardinality) -/
def memberEndChecks (c : Cfg) (h : HState) : Res Unit := do
  checkMandatoryCardinality c.args h.args
  pendingCheckRequired h.pending
  checkGlobals c.args h.args c.globals h.globals

def groupsEndChecks : List (Cfg × HState) → Res Unit
  | [] => pure ()
  | (c, h) :: rest => do memberEndChecks c h; groupsEndChecks rest

/-- `Groups::evalArguments( argc, argv)` with the members registered in `order` -/
def groupsEval (cfg : Cfg) (inits : List DVal) (argMember globMember order : List Nat) (argv : List Word) :
    Res (List (Cfg × HState)) := do
  throwIf order.isEmpty .runtime_error
  let ms := order.map (fun m =>
    let c := memberCfg cfg argMember globMember m
    (c, c.initState (memberInits inits argMember m)))
  let ai ← It.begin argv
  let ms' ← groupsLoop (totalChars argv) ms ai
  groupsEndChecks ms'
  pure ms'

/-- destinations in the order of `cfg.args` (same text as the single-handler driver prints) -/
def groupDests (cfg : Cfg) (argMember order : List Nat) (ms : List (Cfg × HState)) : List (ArgDef × ArgSt) :=
  (List.range cfg.args.length).filterMap fun a =>
    let m := argMember.getD a 0
    match order.idxOf? m with
    | none => none
    | some pos =>
      match ms[pos]? with
      | none => none
      | some (_, h) =>
        let loc := ((memberArgIdx argMember m).idxOf? a).getD 0
        match cfg.args[a]?, h.args[loc]? with
        | some d, some s => some (d, s)
        | _, _ => none

end CelmaVerif.ProgArgs
